// Keeps the line protocol clean while the library under test prints (status output on stdout,
// C-API diagnostics on stderr): a file descriptor is redirected to /dev/null or to an anonymous
// temporary file for the duration of one library call. Used by ops_capi.cpp and ops_api.cpp.
#ifndef PCV_CAPTURE_HPP
#define PCV_CAPTURE_HPP

#include <csignal>
#include <cstdio>
#include <cstdlib>
#include <iostream>
#include <string>
#include <fcntl.h>
#include <unistd.h>

#if defined(__SANITIZE_ADDRESS__)
  #include <sanitizer/common_interface_defs.h>
#endif

namespace pcv {

// While a capture of fd 2 is active a sanitizer report would end up in the temporary file and be lost
// when the process aborts: the death callback copies it to the real stderr first.
struct CaptureState {
  int tmp_fd = -1;    // temporary file currently receiving fd 2 (or -1)
  int saved_fd = -1;  // the real stderr
};

inline CaptureState& capture_state()
{
  static CaptureState s;
  return s;
}

inline void capture_on_death()
{
  CaptureState& s = capture_state();
  if (s.tmp_fd >= 0 && s.saved_fd >= 0) {
    char buf[4096];
    off_t off = 0;
    ssize_t n;
    while ((n = pread(s.tmp_fd, buf, sizeof buf, off)) > 0) {
      ssize_t w = write(s.saved_fd, buf, (size_t) n);
      (void) w;
      off += n;
    }
    s.tmp_fd = -1;   // written once
  }
}

inline void capture_on_abort(int)
{
  capture_on_death();
  capture_state().tmp_fd = -1;
  std::signal(SIGABRT, SIG_DFL);
  std::raise(SIGABRT);
}

// ASan reports reach the callback directly; UBSan (its own runtime copy) and failed assertions reach it
// through SIGABRT (the check runs sanitizer builds with abort_on_error=1).
inline void capture_install_death_callback()
{
  static bool done = false;
  if (done) return;
  done = true;
  std::signal(SIGABRT, capture_on_abort);
#if defined(__SANITIZE_ADDRESS__)
  __sanitizer_set_death_callback(capture_on_death);
#endif
}

/// Redirects `fd` (1 or 2) until destruction / stop(). With keep = true the bytes written meanwhile
/// are available from text() after stop().
class FdRedirect
{
public:
  FdRedirect(int fd, bool keep) : fd_(fd), keep_(keep)
  {
    flush_streams();
    saved_ = dup(fd_);
    if (keep_) {
      char name[] = "/tmp/pcv-capture-XXXXXX";
      tmp_ = mkstemp(name);
      if (tmp_ >= 0) unlink(name);
    } else
      tmp_ = open("/dev/null", O_WRONLY);
    if (saved_ < 0 || tmp_ < 0) { std::perror("pcharness: redirect"); std::_Exit(4); }
    dup2(tmp_, fd_);
    if (fd_ == 2 && keep_) {
      capture_install_death_callback();
      capture_state().tmp_fd = tmp_;
      capture_state().saved_fd = saved_;
    }
  }

  void stop()
  {
    if (saved_ < 0) return;
    flush_streams();
    dup2(saved_, fd_);
    close(saved_);
    saved_ = -1;
    if (fd_ == 2 && keep_) { capture_state().tmp_fd = -1; capture_state().saved_fd = -1; }
    if (keep_) {
      char buf[4096];
      off_t off = 0;
      ssize_t n;
      while ((n = pread(tmp_, buf, sizeof buf, off)) > 0) { text_.append(buf, (size_t) n); off += n; }
    }
    close(tmp_);
    tmp_ = -1;
  }

  ~FdRedirect() { stop(); }

  const std::string& text() const { return text_; }

private:
  static void flush_streams()
  {
    std::cout.flush();
    std::cerr.flush();
    std::fflush(stdout);
    std::fflush(stderr);
  }
  int fd_, saved_ = -1, tmp_ = -1;
  bool keep_;
  std::string text_;
};

/// number of '\n'-terminated lines, and whether every line starts with `prefix`
inline void diag_lines(const std::string& text, const std::string& prefix, int& nlines, bool& prefix_ok)
{
  nlines = 0;
  prefix_ok = true;
  size_t pos = 0;
  while (pos < text.size()) {
    size_t e = text.find('\n', pos);
    if (e == std::string::npos) { e = text.size(); prefix_ok = false; } // unterminated line
    nlines++;
    if (text.compare(pos, prefix.size(), prefix) != 0) prefix_ok = false;
    pos = e + 1;
  }
}

} // namespace pcv

#endif
