// C18 (core half): ops on the REAL sieving core of the bundled primesieve (lib/primesieve), at segment level.
// See lean/PcModel/Drv/PsCore.lean for the op list and the output formats (model and harness print identical lines).
//
//   pssieve    real Erat + real SievingPrimes driven by a copy of the loop of CountPrintPrimes::sieve (the translator checks
//              the text of that loop); the raw sieve_ array of every segment is dumped / hashed
//   psseg      real Erat, explicit sieving numbers
//   pscorecount    real PrimeSieve::countPrimes (CountPrintPrimes::sieve itself)
//   pscoregen      real PrimeGenerator::fillNextPrimes until it reports the end;  psgenprev: fillPrevPrimes
//   pswheeladd real Wheel<..>::addSievingPrime through a recording subclass;  pspresieve: real PreSieve::preSieve
//
// Private / protected members are reached through `#define private public` / `#define protected public` in THIS translation
// unit only (layout unchanged; the library is compiled from the unmodified headers).  The raw L1 data cache size seen by
// Erat::getL1CacheSize() is forced by writing cpuInfo.cacheSizes_[1] (the object is a non-constexpr global with a constructor).
#include "common.hpp"

#include <algorithm>
#include <array>
#include <cmath>
#include <cstddef>
#include <cstring>
#include <iostream>
#include <limits>
#include <memory>
#include <sstream>
#include <string>
#include <vector>
#include <stdint.h>

#define private public
#define protected public
#include <primesieve/CpuInfo.hpp>
#include <primesieve/Vector.hpp>
#include <primesieve/MemoryPool.hpp>
#include <primesieve/Wheel.hpp>
#include <primesieve/Erat.hpp>
#include <primesieve/PreSieve.hpp>
#include <primesieve/SievingPrimes.hpp>
#include <primesieve/PrimeGenerator.hpp>
#include <primesieve/PrimeSieve.hpp>
#undef private
#undef protected
#include <primesieve/primesieve_error.hpp>
#include <primesieve.hpp>

using namespace pcv;

namespace {

uint64_t exact_isqrt(uint64_t x)
{
  uint64_t r = (uint64_t) std::sqrt((long double) x);
  while (r > 0 && (unsigned __int128) r * r > x) r--;
  while ((unsigned __int128) (r + 1) * (r + 1) <= x) r++;
  return r;
}

const uint64_t MAX_SQRT = 1ull << 26;

uint64_t run_fuel(uint64_t start, uint64_t stop)
{
  return (stop >= start ? (stop - start) : 0) / (30 * 16384) + 3;
}

void force_l1(uint64_t l1raw)
{
  const_cast<primesieve::CpuInfo&>(primesieve::cpuInfo).cacheSizes_[1] = (std::size_t) l1raw;
}

const uint64_t FNV_INIT = 14695981039346656037ull;
const uint64_t FNV_PRIME = 1099511628211ull;

std::string hexbytes(const uint8_t* p, std::size_t n)
{
  static const char* d = "0123456789abcdef";
  std::string s;
  s.reserve(2 * n);
  for (std::size_t i = 0; i < n; i++) { s += d[p[i] >> 4]; s += d[p[i] & 15]; }
  return s;
}

uint64_t popcount_bytes(const uint8_t* p, std::size_t n)
{
  uint64_t c = 0;
  for (std::size_t i = 0; i < n; i++) c += (uint64_t) __builtin_popcount(p[i]);
  return c;
}

// one segment of the real sieve_: "low:size:popcount:fnv" or "low:hex"; "!pad" if the bytes up to the next multiple of 8
// (which the word readers touch) are not zero
std::string seg_out(bool hex, uint64_t low, primesieve::Vector<uint8_t>& sieve, uint64_t& total)
{
  const uint8_t* p = sieve.data();
  std::size_t n = sieve.size();
  bool padok = true;
  for (std::size_t i = n; i % 8 != 0; i++)
    if (p[i] != 0) padok = false;
  uint64_t cnt = popcount_bytes(p, n);
  total += cnt;
  std::string s = std::to_string(low) + ":";
  if (hex)
    s += hexbytes(p, n);
  else {
    uint64_t h = FNV_INIT;
    for (std::size_t i = 0; i < n; i++) h = (h ^ p[i]) * FNV_PRIME;
    s += std::to_string(n) + ":" + std::to_string(cnt) + ":" + std::to_string(h);
  }
  if (!padok) s += "!pad";
  return s;
}

bool parse_mode(const std::string& m, bool& hex)
{
  if (m == "h") { hex = false; return true; }
  if (m == "x") { hex = true; return true; }
  return false;
}

std::string primes_out(bool hex, const std::vector<uint64_t>& ps, bool err)
{
  std::string s = "n=" + std::to_string(ps.size());
  if (hex) {
    s += " ";
    if (ps.empty()) s += "-";
    for (std::size_t i = 0; i < ps.size(); i++) { if (i) s += ","; s += std::to_string(ps[i]); }
  } else {
    uint64_t h = FNV_INIT;
    for (uint64_t x : ps)
      for (int k = 0; k < 8; k++) h = (h ^ ((x >> (8 * k)) & 255)) * FNV_PRIME;
    s += " first=" + std::to_string(ps.empty() ? 0 : ps.front()) + " last=" + std::to_string(ps.empty() ? 0 : ps.back()) +
         " fnv=" + std::to_string(h);
  }
  if (err) s += " ERR:ps";
  return s;
}

struct RecWheel30 : public primesieve::Wheel30_t {
  bool stored = false; uint64_t mi = 0, wi = 0;
  void storeSievingPrime(uint64_t, uint64_t m, uint64_t w) override { stored = true; mi = m; wi = w; }
};
struct RecWheel210 : public primesieve::Wheel210_t {
  bool stored = false; uint64_t mi = 0, wi = 0;
  void storeSievingPrime(uint64_t, uint64_t m, uint64_t w) override { stored = true; mi = m; wi = w; }
};

} // namespace

PCV_OP(pssieve)
{
  if (a.size() != 5) return "ERR:proto";
  bool hex;
  if (!parse_mode(a[4], hex)) return "ERR:proto";
  uint128_t start = parse_u128(a[0]), stop = parse_u128(a[1]), kb = parse_u128(a[2]), l1 = parse_u128(a[3]);
  if (start < 7 || stop >= ((uint128_t) 1 << 64) || kb < 16 || kb > 8192) return "ERR:domain";
  if (exact_isqrt((uint64_t) stop) > MAX_SQRT || (start <= stop && run_fuel((uint64_t) start, (uint64_t) stop) > 4096)) return "ERR:domain";
  if (start > stop && run_fuel(0, 0) > 4096) return "ERR:domain";
  force_l1((uint64_t) l1);
  primesieve::MemoryPool pool;
  primesieve::Erat e;
  e.init((uint64_t) start, (uint64_t) stop, (uint64_t) kb, pool);
  primesieve::SievingPrimes sp(&e, (uint64_t) kb, pool);
  uint64_t prime = sp.next();
  std::vector<std::string> segs;
  uint64_t total = 0;
  while (e.hasNextSegment()) {
    uint64_t low = e.segmentLow_;
    uint64_t sqrtHigh = exact_isqrt(e.segmentHigh_);
    for (; prime <= sqrtHigh; prime = sp.next())
      e.addSievingPrime(prime);
    e.sieveSegment();
    segs.push_back(seg_out(hex, low, e.sieve_, total));
  }
  std::string s = "n=" + std::to_string(segs.size());
  for (auto& x : segs) s += " " + x;
  return s + " total=" + std::to_string(total);
}

PCV_OP(psseg)
{
  if (a.size() != 7) return "ERR:proto";
  bool hex;
  if (!parse_mode(a[6], hex)) return "ERR:proto";
  uint128_t start = parse_u128(a[0]), stop = parse_u128(a[1]), kb = parse_u128(a[2]), l1 = parse_u128(a[3]), nseg = parse_u128(a[4]);
  std::vector<uint64_t> nums;
  if (a[5] != "-") {
    std::stringstream ss(a[5]);
    std::string t;
    while (std::getline(ss, t, ',')) {
      uint128_t v = parse_u128(t);
      if (v < 7 || v >= ((uint128_t) 1 << 32) || std::__gcd((uint64_t) v, (uint64_t) 30) != 1) return "ERR:domain";
      if (!nums.empty() && nums.back() >= (uint64_t) v) return "ERR:domain";
      nums.push_back((uint64_t) v);
    }
  }
  if (start < 7 || stop >= ((uint128_t) 1 << 64) || kb < 16 || kb > 8192 || nseg > 64) return "ERR:domain";
  force_l1((uint64_t) l1);
  primesieve::MemoryPool pool;
  primesieve::Erat e;
  e.init((uint64_t) start, (uint64_t) stop, (uint64_t) kb, pool);
  std::vector<std::string> segs;
  uint64_t total = 0;
  std::size_t k = 0;
  for (uint64_t n = 0; n < (uint64_t) nseg && e.hasNextSegment(); n++) {
    uint64_t low = e.segmentLow_;
    uint64_t sqrtHigh = exact_isqrt(e.segmentHigh_);
    for (; k < nums.size() && nums[k] <= sqrtHigh; k++)
      e.addSievingPrime(nums[k]);
    e.sieveSegment();
    segs.push_back(seg_out(hex, low, e.sieve_, total));
  }
  std::string s = "n=" + std::to_string(segs.size());
  for (auto& x : segs) s += " " + x;
  return s + " total=" + std::to_string(total);
}

PCV_OP(pscorecount)
{
  if (a.size() != 4) return "ERR:proto";
  uint128_t start = parse_u128(a[0]), stop = parse_u128(a[1]), kb = parse_u128(a[2]), l1 = parse_u128(a[3]);
  if (stop >= ((uint128_t) 1 << 64) || kb < 16 || kb > 8192) return "ERR:domain";
  if (exact_isqrt((uint64_t) stop) > MAX_SQRT || run_fuel((uint64_t) std::min(start, stop), (uint64_t) stop) > 4096) return "ERR:domain";
  force_l1((uint64_t) l1);
  primesieve::PrimeSieve ps;
  ps.setSieveSize((int) kb);
  return std::to_string(ps.countPrimes((uint64_t) std::min(start, (uint128_t) std::numeric_limits<uint64_t>::max()), (uint64_t) stop));
}

static std::string psgen_impl(const Args& a, bool prev)
{
  if (a.size() != 5) return "ERR:proto";
  bool hex;
  if (!parse_mode(a[4], hex)) return "ERR:proto";
  uint128_t start = parse_u128(a[0]), stop = parse_u128(a[1]), kb = parse_u128(a[2]), l1 = parse_u128(a[3]);
  if (start > stop || stop >= ((uint128_t) 1 << 64) || kb < 16 || kb > 8192) return "ERR:domain";
  if (exact_isqrt((uint64_t) stop) > MAX_SQRT || run_fuel((uint64_t) start, (uint64_t) stop) > 4096) return "ERR:domain";
  force_l1((uint64_t) l1);
  primesieve::set_sieve_size((int) kb);
  std::vector<uint64_t> out;
  bool err = false;
  try {
    primesieve::PrimeGenerator pg((uint64_t) start, (uint64_t) stop);
    primesieve::Vector<uint64_t> primes;
    std::size_t size = 0;
    if (prev) {
      pg.fillPrevPrimes(primes, &size);
      for (std::size_t i = 0; i < size; i++) out.push_back(primes[i]);
    } else {
      for (;;) {
        pg.fillNextPrimes(primes, &size);
        if (size == 0) break;
        for (std::size_t i = 0; i < size; i++) out.push_back(primes[i]);
      }
    }
  } catch (primesieve::primesieve_error&) {
    err = true;
  }
  return primes_out(hex, out, err);
}

PCV_OP(pscoregen) { return psgen_impl(a, false); }
PCV_OP(psgenprev) { return psgen_impl(a, true); }

PCV_OP(pswheeladd)
{
  if (a.size() != 4) return "ERR:proto";
  uint128_t m = parse_u128(a[0]), stop = parse_u128(a[1]), prime = parse_u128(a[2]), low = parse_u128(a[3]);
  if ((m != 30 && m != 210) || stop >= ((uint128_t) 1 << 64) || prime == 0 || prime >= ((uint128_t) 1 << 32) ||
      low % 30 != 0 || low + 6 >= ((uint128_t) 1 << 64)) return "ERR:domain";
  if (m == 30) {
    RecWheel30 w; w.stop_ = (uint64_t) stop;
    w.addSievingPrime((uint64_t) prime, (uint64_t) low);
    return w.stored ? std::to_string(w.mi) + " " + std::to_string(w.wi) : std::string("-");
  } else {
    RecWheel210 w; w.stop_ = (uint64_t) stop;
    w.addSievingPrime((uint64_t) prime, (uint64_t) low);
    return w.stored ? std::to_string(w.mi) + " " + std::to_string(w.wi) : std::string("-");
  }
}

PCV_OP(pspresieve)
{
  if (a.size() != 2) return "ERR:proto";
  uint128_t low = parse_u128(a[0]), size = parse_u128(a[1]);
  if (low % 30 != 0 || low >= ((uint128_t) 1 << 64) || size == 0 || size > (1u << 20)) return "ERR:domain";
  primesieve::Vector<uint8_t> sieve;
  sieve.resize((std::size_t) std::max<uint128_t>(size, 8));
  sieve.resize((std::size_t) size);
  primesieve::PreSieve::preSieve(sieve, (uint64_t) low);
  return hexbytes(sieve.data(), sieve.size());
}
