// C03 / C08 (WP p2b): the file-local per-chunk functions of src/P2.cpp and src/gourdon/B.cpp on the REAL code.
//
// P2_thread / P2_OpenMP / B_thread / B_OpenMP live in anonymous namespaces, so the two .cpp files are
// compiled into THIS translation unit. Their extern entry points are renamed (P2 -> P2_pcv_copy, B -> B_pcv_copy)
// so that they cannot clash with (or replace) the objects of libprimecount.a; everything else (pi_noprint,
// LoadBalancerP2, isqrt, the primesieve iterator) is the library's.
//
//   p2thread  <64|128> x y low high        -> P2_thread<int64_t|int128_t>(x, y, low, high)
//   bthread   <64|128> x y low high        -> B_thread<uint64_t|uint128_t>(x, y, low, high)
//   p2threads <64|128> x y b0 b1 … bk      -> P2_thread on the chain [b0,b1) [b1,b2) … (k values)
//   bthreads  <64|128> x y b0 b1 … bk
//   p2row     <64|128> x y low hmax        -> P2_thread(x, y, low, h) for h = low+1 … hmax
//   brow      <64|128> x y low hmax
//   p2run     <64|128> x y threads print seed cap
//   brun      <64|128> x y threads print seed cap
//        the real P2(x, y, a = pi(y), threads) / B(x, y, threads) (OpenMP, real threads), then the REAL
//        LoadBalancerP2 object driven by its team of simulated workers (seeded return order), each chunk
//        evaluated by the real P2_thread / B_thread:
//        R <value of P2|B> <sum of the chunk values> <a> <team> <complete> <nev> <w:work:low:high:value>…
// Domain (checked here, never by calling the code outside its preconditions): x, y >= 0, x below the signed
// maximum of the width, low/high int64; `ERR:assertLow` / `ERR:assertOrder` where the ASSERTs of P2_thread fail.
#include "common.hpp"

#include <primecount-internal.hpp>
#include <cpu_arch_macros.hpp>
#include <primesieve.hpp>
#include <int128_t.hpp>
#include <macros.hpp>
#include <min.hpp>
#include <imath.hpp>
#include <isqrt.hpp>
#include <LoadBalancerP2.hpp>
#include <print.hpp>

#include <stdint.h>
#include <algorithm>
#include <cstring>
#include <fcntl.h>
#include <iostream>
#include <unistd.h>

#define P2 P2_pcv_copy
#include <P2.cpp>
#undef P2
// gourdon.hpp has no include guard: it is first seen inside B.cpp (where it declares B_pcv_copy), so the
// library's B is declared by hand afterwards
#define B B_pcv_copy
#include <gourdon/B.cpp>
#undef B
namespace primecount {
int64_t B(int64_t x, int64_t y, int threads, bool print);
int128_t B(int128_t x, int64_t y, int threads, bool print);
}

using namespace pcv;

namespace {

struct MuteOut {
  int saved = -1;
  explicit MuteOut(bool on)
  {
    if (!on) return;
    std::cout.flush();
    fflush(stdout);
    saved = dup(1);
    int nul = open("/dev/null", O_WRONLY);
    dup2(nul, 1);
    close(nul);
  }
  ~MuteOut()
  {
    if (saved < 0) return;
    std::cout.flush();
    fflush(stdout);
    dup2(saved, 1);
    close(saved);
  }
};

const int128_t I64MAX = (int128_t) INT64_MAX;
const int128_t I128MAX = (int128_t) (~(uint128_t) 0 >> 1);

struct In {
  bool wide = false;
  int128_t x = 0;
  int64_t y = 0;
  std::string err;
};

In parse_in(const Args& a)
{
  In in;
  if (a.at(0) != "64" && a.at(0) != "128") { in.err = "ERR:proto"; return in; }
  in.wide = a.at(0) == "128";
  // numbers that do not even fit the protocol's 128-bit parser are outside the domain
  if (a.at(1).size() > 38 || a.at(2).size() > 19 || a.at(1)[0] == '-' || a.at(2)[0] == '-') { in.err = "ERR:domain"; return in; }
  uint128_t ux = parse_u128(a.at(1));
  uint128_t uy = parse_u128(a.at(2));
  if (ux > (uint128_t) (in.wide ? I128MAX : I64MAX) || uy > (uint128_t) I64MAX) { in.err = "ERR:domain"; return in; }
  in.x = (int128_t) ux;
  in.y = (int64_t) uy;
  return in;
}

bool parse_bound(const std::string& s, int64_t& v)
{
  if (s.empty() || s.size() > 19 || s[0] == '-') return false;
  uint128_t u = parse_u128(s);
  if (u > (uint128_t) I64MAX) return false;
  v = (int64_t) u;
  return true;
}

// one chunk on the real code; kind 'P' = P2_thread, 'B' = B_thread
std::string chunk(char kind, const In& in, int64_t low, int64_t high)
{
  if (low <= 0) return "ERR:assertLow";
  if (!(low < high)) return "ERR:assertOrder";
  if (kind == 'P')
  {
    if (in.wide) return i128s(P2_thread<int128_t>(in.x, in.y, low, high));
    return i128s((int128_t) P2_thread<int64_t>((int64_t) in.x, in.y, low, high));
  }
  if (in.wide) return u128s(B_thread<uint128_t>((uint128_t) in.x, in.y, low, high));
  return u128s((uint128_t) B_thread<uint64_t>((uint64_t) in.x, in.y, low, high));
}

std::string one(char kind, const Args& a)
{
  In in = parse_in(a);
  if (!in.err.empty()) return in.err;
  int64_t low, high;
  if (!parse_bound(a.at(3), low) || !parse_bound(a.at(4), high)) return "ERR:domain";
  return chunk(kind, in, low, high);
}

std::string chain(char kind, const Args& a)
{
  In in = parse_in(a);
  if (!in.err.empty()) return in.err;
  std::vector<int64_t> b;
  for (size_t i = 3; i < a.size(); i++)
  {
    int64_t v;
    if (!parse_bound(a[i], v)) return "ERR:domain";
    b.push_back(v);
  }
  if (b.size() < 2) return "ERR:proto";
  std::string out;
  for (size_t i = 0; i + 1 < b.size(); i++)
    out += (i ? " " : "") + chunk(kind, in, b[i], b[i + 1]);
  return out;
}

std::string row(char kind, const Args& a)
{
  In in = parse_in(a);
  if (!in.err.empty()) return in.err;
  int64_t low, hmax;
  if (!parse_bound(a.at(3), low) || !parse_bound(a.at(4), hmax)) return "ERR:domain";
  if (hmax - low > 100000) return "ERR:domain";
  std::string out = "-";
  for (int64_t h = low + 1; h <= hmax; h++)
    out += (h == low + 1 ? "" : " ") + chunk(kind, in, low, h);
  if (out.size() > 1) out = out.substr(1);
  return out;
}

uint64_t mix(uint64_t& s)
{
  s += 0x9E3779B97F4A7C15ull;
  uint64_t z = s;
  z = (z ^ (z >> 30)) * 0xBF58476D1CE4E5B9ull;
  z = (z ^ (z >> 27)) * 0x94D049BB133111EBull;
  return z ^ (z >> 31);
}

std::string run(char kind, const Args& a)
{
  In in = parse_in(a);
  if (!in.err.empty()) return in.err;
  int threads = (int) parse_i64(a.at(3));
  bool print = parse_i64(a.at(4)) != 0;
  uint64_t seed = parse_u64(a.at(5)) * 0x9E3779B97F4A7C15ull + 777;
  size_t cap = (size_t) parse_u64(a.at(6));
  if (threads < 1 || threads > 4096) return "ERR:domain";
  // (int64_t)(x / max(y, 1)) must be representable: the caller's obligation in the real code
  int128_t xy128 = in.x / std::max<int64_t>(in.y, 1);
  if (xy128 > I64MAX) return "ERR:narrow";
  int64_t xy = (int64_t) xy128;

  MuteOut mute(print);
  int64_t a_ = primecount::pi_noprint(in.y, threads);
  std::string whole;
  if (kind == 'P')
    whole = in.wide ? i128s(primecount::P2(in.x, in.y, a_, threads, print))
                    : i128s(primecount::P2((int64_t) in.x, in.y, a_, threads, print));
  else
    whole = in.wide ? i128s(primecount::B(in.x, in.y, threads, print))
                    : i128s(primecount::B((int64_t) in.x, in.y, threads, print));

  // what P2_OpenMP / B_OpenMP do before the parallel region
  bool region = in.x >= 4;
  if (kind == 'P' && in.y >= (int64_t) isqrt(in.x)) region = false;
  if (!region)
    return "R " + whole + " 0 " + std::to_string(a_) + " 0 1 0";

  LoadBalancerP2 lb(in.x, xy, threads, print);
  int team = lb.get_threads();
  if (team < 1) return "R " + whole + " 0 " + std::to_string(a_) + " " + std::to_string(team) + " 0 0";

  struct W { int id = 0; };
  std::vector<size_t> active;
  for (size_t i = 0; i < (size_t) team; i++) active.push_back(i);
  std::string evs;
  size_t nev = 0;
  uint128_t total = 0;
  while (!active.empty() && nev < cap)
  {
    size_t ai = (size_t) (mix(seed) % active.size());
    size_t w = active[ai];
    int64_t low = -1, high = -1;
    bool is_work = lb.get_work(low, high);
    std::string val = "0";
    if (is_work)
    {
      val = chunk(kind, in, low, high);
      if (val.compare(0, 3, "ERR") != 0) total += parse_u128(val);
    }
    else
      active.erase(active.begin() + (long) ai);
    evs += " " + std::to_string(w) + ":" + (is_work ? "1" : "0") + ":" + i128s(low) + ":" + i128s(high) + ":" + val;
    nev++;
  }
  return "R " + whole + " " + u128s(total) + " " + std::to_string(a_) + " " + std::to_string(team) + " " +
         (active.empty() ? "1" : "0") + " " + std::to_string(nev) + evs;
}

} // namespace

PCV_OP(p2thread)  { return one('P', a); }
PCV_OP(bthread)   { return one('B', a); }
PCV_OP(p2threads) { return chain('P', a); }
PCV_OP(bthreads)  { return chain('B', a); }
PCV_OP(p2row)     { return row('P', a); }
PCV_OP(brow)      { return row('B', a); }
PCV_OP(p2run)     { return run('P', a); }
PCV_OP(brun)      { return run('B', a); }
