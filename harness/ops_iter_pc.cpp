// C18 (WP iter): primecount's own wrappers around the primesieve storage API (src/generate_primes.cpp).
//   pcgen <max>   primecount::generate_primes_i64(max)    -> count first last sum (1-indexed: primes[0] = 0)
//   pcgenn <n>    primecount::generate_n_primes_i32(n)
#include "common.hpp"
#include <generate_primes.hpp>
#include <Vector.hpp>
#include <string>
#include <vector>
#include <stdint.h>

using namespace pcv;

namespace {
std::string u64s(uint64_t v) { return u128s((uint128_t) v); }
template <typename T>
std::string summary(const std::vector<T>& v)
{
  uint64_t sum = 0;
  for (auto x : v) sum += (uint64_t) x;
  uint64_t first = v.empty() ? 0 : (uint64_t) v.front();
  uint64_t last = v.empty() ? 0 : (uint64_t) v.back();
  return u64s(v.size()) + " " + u64s(first) + " " + u64s(last) + " " + u64s(sum);
}
}

PCV_OP(pcgen)
{
  auto v = primecount::generate_primes_i64(parse_i64(a.at(0)));
  std::vector<int64_t> w(v.begin(), v.end());
  return summary(w);
}

PCV_OP(pcgenn)
{
  auto v = primecount::generate_n_primes_i32(parse_i64(a.at(0)));
  std::vector<int64_t> w(v.begin(), v.end());
  return summary(w);
}
