// C18 (core half, second part): what Erat::init / initAlgorithms computes — the quantities the end-to-end proof reads off
// `eratInit` (lean/PcProofs/PsCore2Init.lean) and the ONE bound that depends on `double` arithmetic (`FloatOk`:
// maxEratMedium_ < 2^25, lean/PcProofs/PsCore2RunD.lean).  Model side: lean/PcModel/Drv/PsCore2.lean.
//
//   pseratinit <start> <stop> <sieveKiB> <l1raw>
//       `low=<segmentLow_> high=<segmentHigh_> size=<sieve_.size()> small=<maxEratSmall_> medium=<maxEratMedium_>
//        l1=<eratSmall_.l1CacheSize_ | 0> log2=<eratBig_.log2SieveSize_ | 0> init=<s><m><b> floatok=<0|1>`
#include "common.hpp"

#include <string>
#include <stdint.h>

#define private public
#define protected public
#include <primesieve/CpuInfo.hpp>
#include <primesieve/Vector.hpp>
#include <primesieve/MemoryPool.hpp>
#include <primesieve/Wheel.hpp>
#include <primesieve/Erat.hpp>
#undef private
#undef protected

using namespace pcv;

PCV_OP(pseratinit)
{
  if (a.size() != 4) return "ERR:proto";
  uint128_t start = parse_u128(a[0]), stop = parse_u128(a[1]), kb = parse_u128(a[2]), l1 = parse_u128(a[3]);
  if (start < 7 || start > stop || stop >= ((uint128_t) 1 << 64) || start >= (((uint128_t) 1 << 64) - 1) || kb < 16 || kb > 8192)
    return "ERR:domain";
  const_cast<primesieve::CpuInfo&>(primesieve::cpuInfo).cacheSizes_[1] = (std::size_t) (uint64_t) l1;
  primesieve::MemoryPool pool;
  primesieve::Erat e;
  e.init((uint64_t) start, (uint64_t) stop, (uint64_t) kb, pool);
  bool si = e.eratSmall_.stop_ != 0, mi = e.eratMedium_.stop_ != 0, bi = e.eratBig_.stop_ != 0;
  std::string s = "low=" + std::to_string(e.segmentLow_) + " high=" + std::to_string(e.segmentHigh_) +
                  " size=" + std::to_string(e.sieve_.size()) + " small=" + std::to_string(e.maxEratSmall_) +
                  " medium=" + std::to_string(e.maxEratMedium_) +
                  " l1=" + std::to_string(si ? (uint64_t) e.eratSmall_.l1CacheSize_ : 0) +
                  " log2=" + std::to_string(bi ? (uint64_t) e.eratBig_.log2SieveSize_ : 0) +
                  " init=" + (si ? "1" : "0") + (mi ? "1" : "0") + (bi ? "1" : "0") +
                  " floatok=" + (e.maxEratMedium_ < (1ull << 25) ? "1" : "0");
  return s;
}
