// C14: the C API (src/api_c.cpp) — return values, the caller's buffer, diagnostics on stderr.
//
//   pistr_cpp <xhex>                          -> "ok <digitshex>" | "err"      (C++ primecount::pi(std::string))
//   cpistr <xhex|NULL> <NULL|fillbyte> <len>  -> "<ret> <bufhex|NULL> <canary_ok> <stderr lines> <prefix_ok>"
//   cppcall <pi|phi|nth|gt|maxx|ver> args..   -> "ok=<v>" | "err"              (C++ counterpart)
//   ccall   <pi|phi|nth|gt|st|maxx|ver> args..-> "<ret> <stderr lines> <prefix_ok>"
//   chist   <tok>,<tok>,...                   -> "<res>,<res>,..."  one process, one line; every token runs the
//                                                C++ counterpart first and then the C function:
//                                                "<cpp>/<c result fields joined by '/'>"
//
// The result buffer handed to primecount_pi_str is exactly `len` bytes inside one heap block, with a
// 64-byte canary on each side; under AddressSanitizer the canaries are poisoned during the call, so an
// out-of-bounds store is reported at the store, otherwise it is seen as a damaged canary afterwards.
// Library output on stdout is discarded, stderr is captured and only counted.
#include "common.hpp"
#include "capture.hpp"
#include <primecount.h>
#include <primecount.hpp>
#include <cstring>
#include <sstream>

#if defined(__SANITIZE_ADDRESS__)
  #include <sanitizer/asan_interface.h>
  #define PCV_POISON(p, n) ASAN_POISON_MEMORY_REGION(p, n)
  #define PCV_UNPOISON(p, n) ASAN_UNPOISON_MEMORY_REGION(p, n)
#else
  #define PCV_POISON(p, n) ((void) 0)
  #define PCV_UNPOISON(p, n) ((void) 0)
#endif

using namespace pcv;

namespace {

const size_t CANARY = 64;

unsigned char canary_byte(size_t i) { return (unsigned char) (0xA5 ^ (i * 7)); }

std::vector<std::string> split(const std::string& s, char sep)
{
  std::vector<std::string> v;
  std::string cur;
  for (char c : s) {
    if (c == sep) { v.push_back(cur); cur.clear(); }
    else cur += c;
  }
  v.push_back(cur);
  return v;
}

std::string diag_fields(const std::string& err, const char* fname, char sep)
{
  int n; bool ok;
  diag_lines(err, std::string(fname) + ": ", n, ok);
  return std::to_string(n) + sep + (ok ? "1" : "0");
}

/// C++ counterpart with stdout discarded; "ok=<v>" or "err"
template <typename F>
std::string cpp_value(F f)
{
  FdRedirect out(1, false);
  try { return "ok=" + f(); }
  catch (const std::exception&) { return "err"; }
}

std::string cpp_pistr(const std::string& xarg)
{
  if (xarg == "NULL") return "none";
  std::string x = unhex(xarg);
  return cpp_value([&] { return hex(primecount::pi(x)); });
}

/// the call of primecount_pi_str with canaries; fields joined by `sep`
std::string c_pistr(const std::string& xarg, const std::string& resarg, size_t len, char sep)
{
  bool xnull = (xarg == "NULL");
  bool rnull = (resarg == "NULL");
  std::string x = xnull ? std::string() : unhex(xarg);
  if (len > (1u << 20)) throw std::runtime_error("protocol: len");
  unsigned char fill = rnull ? 0 : (unsigned char) std::stoi(resarg, nullptr, 16);

  size_t total = CANARY + len + CANARY;
  unsigned char* block = (unsigned char*) std::malloc(total);
  if (!block) throw std::bad_alloc();
  unsigned char* buf = block + CANARY;
  for (size_t i = 0; i < CANARY; i++) { block[i] = canary_byte(i); buf[len + i] = canary_byte(CANARY + i); }
  std::memset(buf, fill, len);

  int ret;
  std::string errtext;
  {
    FdRedirect out(1, false);
    FdRedirect err(2, true);
    PCV_POISON(block, CANARY);
    PCV_POISON(buf + len, CANARY);
    ret = primecount_pi_str(xnull ? nullptr : x.c_str(), rnull ? nullptr : (char*) buf, len);
    PCV_UNPOISON(block, CANARY);
    PCV_UNPOISON(buf + len, CANARY);
    err.stop();
    errtext = err.text();
  }

  bool canary_ok = true;
  for (size_t i = 0; i < CANARY; i++)
    if (block[i] != canary_byte(i) || buf[len + i] != canary_byte(CANARY + i)) canary_ok = false;

  std::string bufhex = rnull ? "NULL" : hex(std::string((const char*) buf, len));
  std::free(block);

  std::string r = std::to_string(ret);
  r += sep; r += bufhex;
  r += sep; r += (canary_ok ? "1" : "0");
  r += sep; r += diag_fields(errtext, "primecount_pi_str", sep);
  return r;
}

std::string cpp_scalar(const std::string& fn, const Args& v, size_t i)
{
  if (fn == "pi")  { int64_t x = parse_i64(v.at(i)); return cpp_value([&] { return i128s(primecount::pi(x)); }); }
  if (fn == "phi") { int64_t x = parse_i64(v.at(i)), a = parse_i64(v.at(i + 1));
                     return cpp_value([&] { return i128s(primecount::phi(x, a)); }); }
  if (fn == "nth") { int64_t n = parse_i64(v.at(i)); return cpp_value([&] { return i128s(primecount::nth_prime(n)); }); }
  if (fn == "gt")  return cpp_value([&] { return i128s(primecount::get_num_threads()); });
  if (fn == "st")  return "-";
  if (fn == "maxx") return cpp_value([&] { return hex(primecount::get_max_x()); });
  if (fn == "ver")  return cpp_value([&] { return hex(primecount::primecount_version()); });
  throw std::runtime_error("protocol: function " + fn);
}

std::string c_scalar(const std::string& fn, const Args& v, size_t i, char sep)
{
  std::string ret, errtext;
  const char* cname = "";
  {
    FdRedirect out(1, false);
    FdRedirect err(2, true);
    if (fn == "pi")       { cname = "primecount_pi"; ret = i128s(primecount_pi(parse_i64(v.at(i)))); }
    else if (fn == "phi") { cname = "primecount_phi"; ret = i128s(primecount_phi(parse_i64(v.at(i)), parse_i64(v.at(i + 1)))); }
    else if (fn == "nth") { cname = "primecount_nth_prime"; ret = i128s(primecount_nth_prime(parse_i64(v.at(i)))); }
    else if (fn == "gt")  { cname = "primecount_get_num_threads"; ret = i128s(primecount_get_num_threads()); }
    else if (fn == "st")  { cname = "primecount_set_num_threads"; primecount_set_num_threads((int) parse_i64(v.at(i))); ret = "-"; }
    else if (fn == "maxx") { cname = "primecount_get_max_x"; const char* s = primecount_get_max_x(); ret = s ? hex(s) : "NULL"; }
    else if (fn == "ver")  { cname = "primecount_version"; const char* s = primecount_version(); ret = s ? hex(s) : "NULL"; }
    else throw std::runtime_error("protocol: function " + fn);
    err.stop();
    errtext = err.text();
  }
  return ret + sep + diag_fields(errtext, cname, sep);
}

} // namespace

PCV_OP(pistr_cpp)
{
  std::string r = cpp_pistr(a.at(0));
  if (r.compare(0, 3, "ok=") == 0) return "ok " + r.substr(3);
  return r;
}

PCV_OP(cpistr)
{
  return c_pistr(a.at(0), a.at(1), (size_t) parse_u64(a.at(2)), ' ');
}

PCV_OP(cppcall) { return cpp_scalar(a.at(0), a, 1); }

PCV_OP(ccall) { return c_scalar(a.at(0), a, 1, ' '); }

PCV_OP(chist)
{
  std::string out;
  for (const std::string& tok : split(a.at(0), ',')) {
    Args f = split(tok, ':');
    std::string r;
    if (f.at(0) == "pis") {
      r = cpp_pistr(f.at(1));
      r += "/" + c_pistr(f.at(1), f.at(2), (size_t) parse_u64(f.at(3)), '/');
    } else {
      r = cpp_scalar(f.at(0), f, 1);
      r += "/" + c_scalar(f.at(0), f, 1, '/');
    }
    if (!out.empty()) out += ",";
    out += r;
  }
  return out;
}
