// C17 (lookup-table half): PiTable, SegmentedPiTable, FactorTable(D), generate_*, BinaryIndexedTree
// on the real code.  Raw arrays are dumped (not only queried) so that the L2 model is compared bit for bit.
#include "common.hpp"

#include <algorithm>
#include <array>
#include <cstdint>
#include <cstdlib>
#include <cstring>
#include <iostream>
#include <limits>
#include <memory>
#include <sstream>
#include <string>
#include <type_traits>
#include <vector>
#include <new>
#include <omp.h>
#include <primesieve.hpp>
#include <primecount.hpp>
#include <primecount-internal.hpp>
#include <Vector.hpp>
#include <popcnt.hpp>
#include <macros.hpp>
#include <imath.hpp>
#include <isqrt.hpp>
#include <min.hpp>
#include <int128_t.hpp>

// The raw arrays (PiTable::pi_, SegmentedPiTable::pi_) are private and the pinned tree has no accessor
// hook for them: access specifiers are lifted for these three headers only (no effect on layout or on
// the names of the functions linked from libprimecount.a).
#define private public
#define protected public
#include <BitSieve240.hpp>
#include <PiTable.hpp>
#include <SegmentedPiTable.hpp>
#undef private
#undef protected

#include <BaseFactorTable.hpp>
#include <FactorTable.hpp>
#include <FactorTableD.hpp>
#include <generate_primes.hpp>
#include <BinaryIndexedTree.hpp>

using namespace pcv;
using namespace primecount;

static volatile bool pcv_dirty_heap = false;

namespace {

uint64_t mix_hash(uint64_t h, uint64_t v)
{
  return h * 6364136223846793005ull + v + 1442695040888963407ull;
}

template <typename V>
std::string join(const V& v)
{
  std::string s;
  for (std::size_t i = 0; i < v.size(); i++) {
    if (i) s += ' ';
    s += i128s((int128_t) v[i]);
  }
  return s;
}

std::string word_str(uint64_t c, uint64_t b)
{
  return u128s(c) + ":" + u128s(b);
}

} // namespace

// ---------------------------------------------------------------------------------------------- PiTable

PCV_OP(picache)
{
  uint64_t x = parse_u64(a.at(0));
  if (x > (uint64_t) PiTable::max_cached()) return "ERR:domain";
  return i128s(PiTable::pi_cache(x));
}

PCV_OP(picacher)
{
  uint64_t lo = parse_u64(a.at(0)), hi = parse_u64(a.at(1));
  if (hi > (uint64_t) PiTable::max_cached() + 1) return "ERR:domain";
  std::string s;
  for (uint64_t x = lo; x < hi; x++) {
    if (x > lo) s += ' ';
    s += i128s(PiTable::pi_cache(x));
  }
  return s;
}

PCV_OP(pit)
{
  uint64_t max_x = parse_u64(a.at(0));
  int threads = (int) parse_i64(a.at(1));
  PiTable pi(max_x, threads);
  std::string s;
  for (std::size_t i = 2; i < a.size(); i++) {
    uint64_t x = parse_u64(a[i]);
    if (i > 2) s += ' ';
    s += (x <= max_x) ? i128s(pi[x]) : std::string("U");   // x > max_x violates the ASSERT
  }
  return s;
}

PCV_OP(pitraw)
{
  uint64_t max_x = parse_u64(a.at(0));
  int threads = (int) parse_i64(a.at(1));
  PiTable pi(max_x, threads);
  std::string s = u128s(pi.pi_.size());
  for (std::size_t i = 0; i < pi.pi_.size(); i++)
    s += " " + word_str(pi.pi_[i].count, pi.pi_[i].bits);
  return s;
}

PCV_OP(pithash)
{
  uint64_t max_x = parse_u64(a.at(0));
  int threads = (int) parse_i64(a.at(1));
  PiTable pi(max_x, threads);
  uint64_t h = 0;
  for (std::size_t i = 0; i < pi.pi_.size(); i++)
    h = mix_hash(mix_hash(h, pi.pi_[i].count), pi.pi_[i].bits);
  return u128s(pi.pi_.size()) + " " + u128s(h);
}

// ------------------------------------------------------------------------------------- SegmentedPiTable
// tokens: "L:H" = init(L, H); "r" = raw dump of the current state; "n" = operator[](n)

PCV_OP(segpi)
{
  SegmentedPiTable seg;
  std::string s;
  auto emit = [&](const std::string& t) { if (!s.empty()) s += ' '; s += t; };
  for (const std::string& tok : a)
  {
    if (tok == "r") {
      std::string w = "[" + u128s(seg.low_) + "," + u128s(seg.high_) + ",";
      for (std::size_t i = 0; i < seg.pi_.size(); i++) {
        if (i) w += ',';
        w += word_str(seg.pi_[i].count, seg.pi_[i].bits);
      }
      emit(w + "]");
      continue;
    }
    auto colon = tok.find(':');
    if (colon != std::string::npos) {
      uint64_t low = parse_u64(tok.substr(0, colon));
      uint64_t high = parse_u64(tok.substr(colon + 1));
      // ASSERT(low < high); ASSERT(low % 240 == 0): not compiled into the release build
      if (!(low < high) || low % 240 != 0) { emit("ERR:assert"); return s; }
      seg.init(low, high);
    } else {
      uint64_t x = parse_u64(tok);
      if (x < seg.low_ || x >= seg.high_) { emit("ERR:assert"); return s; }
      emit(i128s(seg[x]));
    }
  }
  return s;
}

// ------------------------------------------------------------------------------------------ FactorTable

namespace {

// While a DirtyHeap object is alive, memory handed out by operator new is preset to 0xa5 so that
// entries a constructor never writes show up deterministically (glibc's M_PERTURB is not applied on
// the tcache fast path, hence the replaced allocation functions at the end of this file).
struct DirtyHeap {
  DirtyHeap() { pcv_dirty_heap = true; }
  ~DirtyHeap() { pcv_dirty_heap = false; }
};

template <typename T>
std::string ft_dump(int64_t y, int threads, bool hash)
{
  std::unique_ptr<FactorTable<T>> ft;
  {
    DirtyHeap dirty;
    ft.reset(new FactorTable<T>(y, threads));
  }
  int64_t size = BaseFactorTable::to_index(std::max<int64_t>(1, y)) + 1;
  if (hash) {
    uint64_t h = 0;
    for (int64_t i = 0; i < size; i++) h = mix_hash(h, (uint64_t) ft->mu_lpf(i));
    return i128s(size) + " " + u128s(h);
  }
  std::string s = i128s(size);
  for (int64_t i = 0; i < size; i++) s += " " + i128s(ft->mu_lpf(i));
  return s;
}

template <typename T>
std::string ftd_dump(int64_t y, int64_t z, int threads, bool hash)
{
  std::unique_ptr<FactorTableD<T>> ft;
  {
    DirtyHeap dirty;
    ft.reset(new FactorTableD<T>(y, z, threads));
  }
  int64_t size = BaseFactorTable::to_index(std::max<int64_t>(1, z)) + 1;
  if (hash) {
    uint64_t h = 0;
    for (int64_t i = 0; i < size; i++) h = mix_hash(h, (uint64_t) ft->is_leaf(i));
    return i128s(size) + " " + u128s(h);
  }
  std::string s = i128s(size);
  for (int64_t i = 0; i < size; i++) s += " " + i128s(ft->is_leaf(i));
  return s;
}

std::string ft_op(const Args& a, bool hash)
{
  int64_t y = parse_i64(a.at(0));
  int threads = (int) parse_i64(a.at(1));
  int bits = (int) parse_i64(a.at(2));
  if (bits == 16) return ft_dump<uint16_t>(y, threads, hash);
  if (bits == 32) return ft_dump<uint32_t>(y, threads, hash);
  return "ERR:proto";
}

std::string ftd_op(const Args& a, bool hash)
{
  int64_t y = parse_i64(a.at(0));
  int64_t z = parse_i64(a.at(1));
  int threads = (int) parse_i64(a.at(2));
  int bits = (int) parse_i64(a.at(3));
  if (bits == 16) return ftd_dump<uint16_t>(y, z, threads, hash);
  if (bits == 32) return ftd_dump<uint32_t>(y, z, threads, hash);
  return "ERR:proto";
}

} // namespace

PCV_OP(ft)      { return ft_op(a, false); }
PCV_OP(fthash)  { return ft_op(a, true); }
PCV_OP(ftd)     { return ftd_op(a, false); }
PCV_OP(ftdhash) { return ftd_op(a, true); }

PCV_OP(ftidx)
{
  uint64_t n = parse_u64(a.at(0));
  if (n == 0) return "ERR:assert";
  return i128s(BaseFactorTable::to_index(n));
}

PCV_OP(ftnum) { return i128s(BaseFactorTable::to_number(parse_u64(a.at(0)))); }

// ------------------------------------------------------------------------------------------- generate_*

PCV_OP(genpi)     { return join(generate_pi(parse_i64(a.at(0)))); }
PCV_OP(genlpf)    { return join(generate_lpf(parse_i64(a.at(0)))); }
PCV_OP(genmu)     { return join(generate_moebius(parse_i64(a.at(0)))); }
PCV_OP(genmpf)    { return join(generate_mpf(parse_i64(a.at(0)))); }
PCV_OP(genprimes) { return join(generate_primes<int32_t>(parse_i64(a.at(0)))); }

// ------------------------------------------------------------------------------------ BinaryIndexedTree
// bit <sieve as 0/1 string> tok... ; tok = "u:pos" (update) | "c:low:high" (count)

PCV_OP(bit)
{
  const std::string& sv = a.at(0);
  std::vector<int> sieve(sv.size());
  for (std::size_t i = 0; i < sv.size(); i++) sieve[i] = (sv[i] == '1');
  BinaryIndexedTree tree;
  tree.init(sieve);
  int64_t size = (int64_t) sieve.size() / 2;
  std::string s;
  auto emit = [&](const std::string& t) { if (!s.empty()) s += ' '; s += t; };
  for (std::size_t i = 1; i < a.size(); i++)
  {
    const std::string& tok = a[i];
    if (tok.size() > 2 && tok[0] == 'u' && tok[1] == ':') {
      int64_t pos = parse_i64(tok.substr(2));
      if ((pos >> 1) >= size) { emit("ERR:oob"); return s; }
      tree.update(pos);
    } else if (tok.size() > 2 && tok[0] == 'c' && tok[1] == ':') {
      auto c2 = tok.find(':', 2);
      if (c2 == std::string::npos) return "ERR:proto";
      int64_t low = parse_i64(tok.substr(2, c2 - 2));
      int64_t high = parse_i64(tok.substr(c2 + 1));
      if (high < low || ((high - low) >> 1) >= size) { emit("ERR:oob"); return s; }
      emit(i128s(tree.count(low, high)));
    } else
      return "ERR:proto";
  }
  return s;
}

// ------------------------------------------------------------------ replaceable allocation functions
// Same behaviour as the default ones (malloc / free, std::bad_alloc on failure) except for the 0xa5
// presetting while pcv_dirty_heap is on.

static void* pcv_alloc(std::size_t n)
{
  void* p = std::malloc(n ? n : 1);
  if (!p) throw std::bad_alloc();
  if (pcv_dirty_heap) std::memset(p, 0xa5, n);
  return p;
}

void* operator new(std::size_t n) { return pcv_alloc(n); }
void* operator new[](std::size_t n) { return pcv_alloc(n); }
void operator delete(void* p) noexcept { std::free(p); }
void operator delete[](void* p) noexcept { std::free(p); }
void operator delete(void* p, std::size_t) noexcept { std::free(p); }
void operator delete[](void* p, std::size_t) noexcept { std::free(p); }
