// Correspondence harness: reads one op per line, runs it on the real code, prints
// "<result>" per line. Unknown ops print "ERR:proto".
#include "common.hpp"
#include <primecount.hpp>
#include <iostream>
#include <sstream>
#include <csignal>
#include <cstdlib>
#include <unistd.h>

// An op that does not return within PCV_OP_TIMEOUT seconds (default 20) ends the process with
// exit status 3 after printing nothing for that op: the runner marks it HANG and restarts after it.
static void on_alarm(int) { _exit(3); }

namespace pcv {
std::map<std::string, Handler>& registry()
{
  static std::map<std::string, Handler> r;
  return r;
}
}

int main()
{
  std::ios::sync_with_stdio(false);
  unsigned op_timeout = 20;
  if (const char* t = std::getenv("PCV_OP_TIMEOUT")) op_timeout = (unsigned) std::atoi(t);
  std::signal(SIGALRM, on_alarm);
  std::string line;
  while (std::getline(std::cin, line))
  {
    if (line.empty() || line[0] == '#') { std::cout << line << "\n"; continue; }
    std::istringstream is(line);
    std::string op, tok;
    pcv::Args args;
    is >> op;
    while (is >> tok) args.push_back(tok);
    auto it = pcv::registry().find(op);
    std::string out;
    if (it == pcv::registry().end())
      out = "ERR:proto";
    else {
      std::cout.flush();
      alarm(op_timeout);
      try { out = it->second(args); }
      catch (const primecount::primecount_error& e) { out = "ERR:pc"; }
      catch (const std::bad_alloc&) { out = "ERR:alloc"; }
      catch (const std::exception& e) { out = std::string("ERR:exc"); }
      alarm(0);
    }
    std::cout << out << "\n";
  }
  std::cout.flush();
  return 0;
}
