// WP lmo: reaches the file-local S2(x, y, c, pi_y, primes, lpf, mu) of src/lmo/pi_lmo4.cpp by compiling that source
// file into this translation unit (its public function is renamed so that it does not clash with the library's).
#define pi_lmo4 pi_lmo4_pcv_copy
#include <lmo/pi_lmo4.cpp>
#undef pi_lmo4

#include "common.hpp"
#include <string>

std::string pcv_lmo4_S2(int64_t x, int64_t y, int64_t c)
{
  auto primes = primecount::generate_primes<int32_t>(y);
  auto lpf = primecount::generate_lpf(y);
  auto mu = primecount::generate_moebius(y);
  int64_t pi_y = primes.size() - 1;
  return pcv::i128s(S2(x, y, c, pi_y, primes, lpf, mu));
}
