// C08 / C02 / C03 / C11 (wp-s1phi0): the FILE-LOCAL functions of S1.cpp and Phi0.cpp (Sigma.cpp: ops_sigmaparts.cpp).
// They live in anonymous namespaces, so the sources are compiled into this translation unit; the public
// entry points they define are renamed (S1 -> S1_pcv_copy ...) so that nothing clashes with libprimecount.a and the
// ops S1 / Phi0 / Sigma of ops_alg.cpp keep calling the LIBRARY's functions.
#include "common.hpp"
#include <primecount.hpp>
#include <primecount-internal.hpp>
#include <S.hpp>
#include <PhiTiny.hpp>
#include <PiTable.hpp>
#include <generate_primes.hpp>
#include <imath.hpp>
#include <int128_t.hpp>
#include <min.hpp>
#include <Vector.hpp>
#include <print.hpp>
#include <primesieve.hpp>

// gourdon.hpp has no include guard: it is included exactly once, by Phi0.cpp itself (under the rename)
#define S1 S1_pcv_copy
#include <S1.cpp>
#undef S1
#define Phi0 Phi0_pcv_copy
#include <gourdon/Phi0.cpp>
#undef Phi0

using namespace pcv;

namespace {

template <typename T, typename P>
std::string run_s1thread(T x, int64_t y, int64_t c, int mu, uint64_t b, T sq)
{
  auto primes = generate_primes<P>(y);
  if (mu == 1) return i128s(S1_thread<1>(x, y, b, c, sq, primes));
  return i128s(S1_thread<-1>(x, y, b, c, sq, primes));
}

template <typename T, typename P>
std::string run_phi0thread(T x, int64_t y, int64_t z, int64_t k, int mu, uint64_t b, T sq)
{
  auto primes = generate_primes<P>(y);
  if (mu == 1) return i128s(Phi0_thread<1>(x, z, b, k, sq, primes));
  return i128s(Phi0_thread<-1>(x, z, b, k, sq, primes));
}

} // namespace

// s1thread <w> x y c mu b sq  ->  S1_thread<mu>(x, y, b, c, sq, generate_primes(y))
// (element type of the prime vector as S1() chooses it: int64_t for the 64-bit entry point, uint32_t / int64_t
//  for the 128-bit one)
PCV_OP(s1thread)
{
  int64_t y = parse_i64(a.at(2)), c = parse_i64(a.at(3));
  int mu = (int) parse_i64(a.at(4));
  uint64_t b = parse_u64(a.at(5));
  if (a.at(0) == "128") {
    int128_t x = parse_i128(a.at(1)), sq = parse_i128(a.at(6));
    if (y <= (int64_t) pstd::numeric_limits<uint32_t>::max())
      return run_s1thread<int128_t, uint32_t>(x, y, c, mu, b, sq);
    return run_s1thread<int128_t, int64_t>(x, y, c, mu, b, sq);
  }
  return run_s1thread<int64_t, int64_t>(parse_i64(a.at(1)), y, c, mu, b, parse_i64(a.at(6)));
}

// phi0thread <w> x y z k mu b sq  ->  Phi0_thread<mu>(x, z, b, k, sq, generate_primes(y))
PCV_OP(phi0thread)
{
  int64_t y = parse_i64(a.at(2)), z = parse_i64(a.at(3)), k = parse_i64(a.at(4));
  int mu = (int) parse_i64(a.at(5));
  uint64_t b = parse_u64(a.at(6));
  if (a.at(0) == "128") {
    int128_t x = parse_i128(a.at(1)), sq = parse_i128(a.at(7));
    if (y <= (int64_t) pstd::numeric_limits<uint32_t>::max())
      return run_phi0thread<int128_t, uint32_t>(x, y, z, k, mu, b, sq);
    return run_phi0thread<int128_t, int64_t>(x, y, z, k, mu, b, sq);
  }
  return run_phi0thread<int64_t, int64_t>(parse_i64(a.at(1)), y, z, k, mu, b, parse_i64(a.at(7)));
}
