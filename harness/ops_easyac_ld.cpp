// C08 / C11 (wp-easy): the FILE-LOCAL kernels of src/gourdon/AC_libdivide.cpp on the REAL code (see ops_easyac.cpp).
//
//   ac_a_ld  <64|128> <k64|k128> x y z b low high   A_64 / A_128 for prime = primes[b], xp = x / prime, segment [low, high)
//   ac_c2_ld <64|128> <k64|k128> x y z b low high   C2_64 / C2_128
// k128 on an operand that fits 64 bits is the "force wide" case: the library itself only takes that kernel for xp >= 2^64.
#include "common.hpp"
#include <primecount.hpp>
#include <primecount-internal.hpp>
#include <PiTable.hpp>
#include <SegmentedPiTable.hpp>
#include <generate_primes.hpp>
#include <imath.hpp>
#include <int128_t.hpp>
#include <min.hpp>
#include <Vector.hpp>
#include <print.hpp>

#define AC AC_pcv_ld
#include <gourdon/AC_libdivide.cpp>
#undef AC

using namespace pcv;

namespace {

template <typename T>
std::string run_ld(const std::string& what, bool k64, T x, int64_t y, int64_t z, uint64_t b, int64_t low, int64_t high)
{
  int64_t x_star = get_x_star_gourdon((maxint_t) x, y);
  int64_t max_a_prime = (int64_t) isqrt(x / x_star);
  auto primes = generate_primes<uint32_t>(max(max_a_prime, y));
  if (b < 1 || b >= primes.size()) return "ERR:domain";
  PiTable pi(max(z, max_a_prime), 1);
  SegmentedPiTable segmentedPi;
  segmentedPi.init(low, high);
  T xlow = x / max(low, 1);
  T xhigh = x / high;
  uint64_t prime = primes[b];
  T xp = x / prime;
  T r;
  if (k64) {
    if (xp > (T) pstd::numeric_limits<uint64_t>::max()) return "ERR:domain";
    Vector<libdivide::branchfree_divider<uint64_t>> lprimes;
    lprimes.resize(primes.size());
    for (std::size_t i = 1; i < lprimes.size(); i++)
      lprimes[i] = primes[i];
    r = (what == "a") ? A_64(xlow, xhigh, (uint64_t) xp, (uint64_t) y, prime, lprimes, pi, segmentedPi)
                      : C2_64(xlow, xhigh, (uint64_t) xp, (uint64_t) y, b, prime, lprimes, pi, segmentedPi);
  } else {
    r = (what == "a") ? A_128(xlow, xhigh, xp, (uint64_t) y, prime, primes, pi, segmentedPi)
                      : C2_128(xlow, xhigh, xp, (uint64_t) y, b, primes, pi, segmentedPi);
  }
  if (sizeof(T) == 8) return i128s((int64_t) r);
  return i128s((int128_t) r);
}

std::string seg_op_ld(const std::string& what, const Args& a)
{
  bool k64 = a.at(1) == "k64";
  if (!k64 && a.at(1) != "k128") return "ERR:proto";
  int64_t y = parse_i64(a.at(3)), z = parse_i64(a.at(4));
  uint64_t b = parse_u64(a.at(5));
  int64_t low = parse_i64(a.at(6)), high = parse_i64(a.at(7));
  if (y < 1 || z < 1 || low < 0 || low % 240 != 0 || high <= low) return "ERR:domain";
  if (a.at(0) == "128") {
    int128_t x = parse_i128(a.at(2));
    if (x < 0) return "ERR:domain";
    return run_ld<uint128_t>(what, k64, (uint128_t) x, y, z, b, low, high);
  }
  int64_t x = parse_i64(a.at(2));
  if (x < 0) return "ERR:domain";
  return run_ld<uint64_t>(what, k64, (uint64_t) x, y, z, b, low, high);
}

} // namespace

PCV_OP(ac_a_ld) { return seg_op_ld("a", a); }
PCV_OP(ac_c2_ld) { return seg_op_ld("c2", a); }
