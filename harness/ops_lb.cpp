// C09 / C03: the three work dispensers, REAL objects driven from one OS thread by k simulated workers.
//
//   lbs2 <x> <sieve_limit> <sum_approx> <threads> <print 0|1> <seed|sSCHEDULE> <nevents-cap> <alphabet> [<zthr>]
//   lbp2 <x> <sieve_limit> <threads> <print 0|1> <seed|sSCHEDULE> <nevents-cap> <alphabet> [<zthr>]
//   lbac <sqrtx> <y> <threads> <print 0|1> <seed|sSCHEDULE> <nevents-cap> <alphabet> [<zthr>]
//
// Every get_work call is recorded with all observable inputs and outputs; the whole history is ONE line:
//   lbs2: T <nev> <nchunks> <final get_sum()> <complete> <ev>...    ev = w:tlow:tsegs:tsize:tsum:secsbits:initbits:iswork:olow:osegs:osize:sumafter
//   lbp2: T <nev> <nchunks> <sum of worker sums> <complete> <get_threads()> <ev>...   ev = w:iswork:low:high
//   lbac: T <nev> <nchunks> <sum of worker sums> <complete> <ev>...  ev = w:tlow:tsegs:tsize:secsbits:iswork:olow:osegs:osize
// (secsbits/initbits = IEEE-754 bit patterns as decimal u64; floats are never printed as text).
//
// Workers: worker w is picked by the seeded scheduler (any return order); when it held a chunk it first
// "finishes" it: duration letters from the alphabet, contribution f[low,high) = G(high) - G(low),
// G(n) = F(max(n, zthr)), F(n) = n*n + n (additive over adjacent intervals, 0 below zthr).
// Virtual clock through verif_get_time_hook: worker-local readings (start, start+init, start+secs);
// the clock seen inside get_work is the global non-decreasing clock max(clock, start+secs) + stall.
// alphabet: 0 = {0, 1us, 1ms, 1s, 7h} uniform; 1 = physically consistent (init + len * rate);
//           2 = all zero; 3 = mostly tiny {0,1us} with rare large ones.
// SCHEDULE (bounded-exhaustive scopes): characters consumed in order, digit = worker pick (mod #active),
// letter a..e = duration letter; fixed width per step (lbs2: worker, secs, init; lbp2/lbac: worker, secs);
// after the string is used up a PRNG seeded by its hash continues.
#include "common.hpp"
#include <LoadBalancerS2.hpp>
#include <LoadBalancerP2.hpp>
#include <LoadBalancerAC.hpp>
#include <primecount-internal.hpp>

#include <cstring>
#include <fcntl.h>
#include <iostream>
#include <unistd.h>

namespace primecount { extern double (*verif_get_time_hook)(); }

using namespace pcv;
using namespace primecount;

namespace {

double g_now = 0;
double hook_now() { return g_now; }

struct HookGuard {
  HookGuard() { primecount::verif_get_time_hook = hook_now; }
  ~HookGuard() { primecount::verif_get_time_hook = nullptr; }
};

// The balancers print status lines to std::cout when is_print is set: send fd 1 to /dev/null
// while the real objects run, so that the line protocol stays clean.
struct Mute {
  int saved = -1;
  explicit Mute(bool on)
  {
    if (!on) return;
    std::cout.flush();
    fflush(stdout);
    saved = dup(1);
    int nul = open("/dev/null", O_WRONLY);
    dup2(nul, 1);
    close(nul);
  }
  ~Mute()
  {
    if (saved < 0) return;
    std::cout.flush();
    fflush(stdout);
    dup2(saved, 1);
    close(saved);
  }
};

uint64_t bits_of(double d) { uint64_t u; std::memcpy(&u, &d, 8); return u; }

struct Sched {
  std::string explicit_;
  size_t pos = 0;
  uint64_t s;
  int alpha;
  double rate = 0, init_base = 0;

  Sched(const std::string& seed, int alphabet) : alpha(alphabet)
  {
    if (!seed.empty() && seed[0] == 's') {
      explicit_ = seed.substr(1);
      uint64_t h = 1469598103934665603ull;
      for (char c : explicit_) { h ^= (unsigned char) c; h *= 1099511628211ull; }
      s = h;
    } else
      s = parse_u64(seed) * 0x9E3779B97F4A7C15ull + 12345;
    // physically consistent durations: seconds per number in [2^-34, 2^-24], init in {0, 1e-4, 1e-2, 1}
    int e = 24 + (int) (next() % 11);
    rate = 1.0;
    for (int i = 0; i < e; i++) rate /= 2;
    static const double inits[4] = {0.0, 1e-4, 1e-2, 1.0};
    init_base = inits[next() % 4];
  }
  uint64_t next()
  {
    s += 0x9E3779B97F4A7C15ull;
    uint64_t z = s;
    z = (z ^ (z >> 30)) * 0xBF58476D1CE4E5B9ull;
    z = (z ^ (z >> 27)) * 0x94D049BB133111EBull;
    return z ^ (z >> 31);
  }
  int explicit_char()
  {
    if (pos < explicit_.size()) return (unsigned char) explicit_[pos++];
    return -1;
  }
  // explicit schedules have a fixed number of characters per step: skip the unused ones
  void skip(size_t k) { pos = (pos + k < explicit_.size()) ? pos + k : explicit_.size(); }
  size_t pick(size_t n)
  {
    int c = explicit_char();
    if (c >= '0' && c <= '9') return (size_t) (c - '0') % n;
    return (size_t) (next() % n);
  }
  double letter(int i)
  {
    static const double L[5] = {0.0, 1e-6, 1e-3, 1.0, 7 * 3600.0};
    return L[i % 5];
  }
  // duration of a chunk of `len` numbers
  double dur(int64_t len)
  {
    int c = explicit_char();
    if (c >= 'a' && c <= 'e') return letter(c - 'a');
    switch (alpha) {
      case 1: return init_base + (double) len * rate * (1.0 + (double) (next() % 4));
      case 2: return 0.0;
      case 3: { uint64_t r = next() % 64; return r == 0 ? letter(2 + (int) (next() % 3)) : letter((int) (r % 2)); }
      default: return letter((int) (next() % 5));
    }
  }
  double init(double secs)
  {
    int c = explicit_char();
    double i;
    if (c >= 'a' && c <= 'e') i = letter(c - 'a');
    else if (alpha == 1) i = init_base;
    else if (alpha == 2) i = 0;
    else i = letter((int) (next() % 5));
    return i < secs ? i : secs;
  }
  double stall()
  {
    if (!explicit_.empty() || alpha == 2) return 0.0;
    uint64_t r = next() % 8;
    return r == 0 ? 1e-6 : (r == 1 ? 0.25 : 0.0);
  }
};

int128_t Gf(int128_t n, int128_t zthr)
{
  if (n < zthr) n = zthr;
  return n * n + n;
}
int128_t contribution(int64_t low, int64_t high, int128_t zthr) { return Gf(high, zthr) - Gf(low, zthr); }

std::string sep(const std::string& a, const std::string& b) { return a + ":" + b; }

} // namespace

PCV_OP(lbs2)
{
  maxint_t x = parse_i128(a.at(0));
  int64_t limit = parse_i64(a.at(1));
  maxint_t sum_approx = parse_i128(a.at(2));
  int threads = (int) parse_i64(a.at(3));
  bool print = parse_i64(a.at(4)) != 0;
  Sched sc(a.at(5), (int) parse_i64(a.at(7)));
  size_t cap = (size_t) parse_u64(a.at(6));
  int128_t zthr = a.size() > 8 ? parse_i128(a.at(8)) : 0;
  if (threads < 1 || threads > 4096 || limit < 0 || x < 0) return "ERR:domain";

  HookGuard hg;
  Mute mute(print);
  double clock = 1000.0;
  g_now = clock;
  LoadBalancerS2 lb(x, limit, sum_approx, threads, print);

  struct W { ThreadData t; bool has = false; int64_t low = 0, high = 0; double start = 0; int id = 0; };
  std::vector<W> ws((size_t) threads);
  std::vector<size_t> active;
  for (size_t i = 0; i < ws.size(); i++) { ws[i].id = (int) i; active.push_back(i); }

  std::string evs;
  size_t nev = 0, nchunks = 0;
  while (!active.empty() && nev < cap)
  {
    size_t ai = sc.pick(active.size());
    W& w = ws[active[ai]];
    if (w.has)
    {
      double d = sc.dur(w.high - w.low);
      double i = sc.init(d);
      g_now = w.start + i;
      w.t.init_finished();
      w.t.sum = contribution(w.low, w.high, zthr);
      g_now = w.start + d;
      w.t.stop_time();
      if (w.start + d > clock) clock = w.start + d;
    }
    else
      sc.skip(2);
    clock += sc.stall();
    g_now = clock;
    std::string ev = std::to_string(w.id);
    ev = sep(ev, i128s(w.t.low));
    ev = sep(ev, i128s(w.t.segments));
    ev = sep(ev, i128s(w.t.segment_size));
    ev = sep(ev, i128s(w.t.sum));
    ev = sep(ev, u128s(bits_of(w.t.secs)));
    ev = sep(ev, u128s(bits_of(w.t.init_secs)));
    bool is_work = lb.get_work(w.t);
    ev = sep(ev, is_work ? "1" : "0");
    ev = sep(ev, i128s(w.t.low));
    ev = sep(ev, i128s(w.t.segments));
    ev = sep(ev, i128s(w.t.segment_size));
    ev = sep(ev, i128s(lb.get_sum()));
    evs += " " + ev;
    nev++;
    if (is_work)
    {
      nchunks++;
      w.has = true;
      w.low = w.t.low;
      // the per-thread functions clip their chunk: high = min(low + segments * segment_size, limit)
      uint64_t hi = (uint64_t) w.t.low + (uint64_t) w.t.segments * (uint64_t) w.t.segment_size;
      w.high = (hi > (uint64_t) limit) ? limit : (int64_t) hi;
      w.start = clock;
      g_now = clock;
      w.t.start_time();
    }
    else
    {
      w.has = false;
      active.erase(active.begin() + (long) ai);
    }
  }
  std::string out = "T " + std::to_string(nev) + " " + std::to_string(nchunks) + " " + i128s(lb.get_sum()) +
                    " " + (active.empty() ? "1" : "0");
  return out + evs;
}

PCV_OP(lbp2)
{
  maxint_t x = parse_i128(a.at(0));
  int64_t limit = parse_i64(a.at(1));
  int threads = (int) parse_i64(a.at(2));
  bool print = parse_i64(a.at(3)) != 0;
  Sched sc(a.at(4), (int) parse_i64(a.at(6)));
  size_t cap = (size_t) parse_u64(a.at(5));
  int128_t zthr = a.size() > 7 ? parse_i128(a.at(7)) : 0;
  if (threads < 1 || threads > 4096 || limit < 0 || x < 0) return "ERR:domain";

  HookGuard hg;
  Mute mute(print);
  double clock = 1000.0;
  g_now = clock;
  LoadBalancerP2 lb(x, limit, threads, print);
  int team = lb.get_threads();
  if (team < 1) return "T 0 0 0 0 " + std::to_string(team);

  struct W { int128_t sum = 0; int id = 0; bool has = false; int64_t low = 0, high = 0; double start = 0; };
  std::vector<W> ws((size_t) team);
  std::vector<size_t> active;
  for (size_t i = 0; i < ws.size(); i++) { ws[i].id = (int) i; active.push_back(i); }

  std::string evs;
  size_t nev = 0, nchunks = 0;
  while (!active.empty() && nev < cap)
  {
    size_t ai = sc.pick(active.size());
    W& w = ws[active[ai]];
    if (w.has)
    {
      double d = sc.dur(w.high - w.low);
      w.sum += contribution(w.low, w.high, zthr);
      if (w.start + d > clock) clock = w.start + d;
    }
    else
      sc.skip(1);
    clock += sc.stall();
    g_now = clock;
    int64_t low = -1, high = -1;
    bool is_work = lb.get_work(low, high);
    std::string ev = std::to_string(w.id);
    ev = sep(ev, is_work ? "1" : "0");
    ev = sep(ev, i128s(low));
    ev = sep(ev, i128s(high));
    evs += " " + ev;
    nev++;
    if (is_work) { nchunks++; w.has = true; w.low = low; w.high = high; w.start = clock; }
    else { w.has = false; active.erase(active.begin() + (long) ai); }
  }
  // history cut at the cap: the workers still holding a chunk finish it
  for (W& w : ws) if (w.has) w.sum += contribution(w.low, w.high, zthr);
  // OpenMP reduction(+: sum): the partial sums of the team are added in some order
  int128_t total = 0;
  for (size_t i = ws.size(); i-- > 0;) total += ws[i].sum;
  std::string out = "T " + std::to_string(nev) + " " + std::to_string(nchunks) + " " + i128s(total) +
                    " " + (active.empty() ? "1" : "0") + " " + std::to_string(team);
  return out + evs;
}

PCV_OP(lbac)
{
  int64_t sqrtx = parse_i64(a.at(0));
  int64_t y = parse_i64(a.at(1));
  int threads = (int) parse_i64(a.at(2));
  bool print = parse_i64(a.at(3)) != 0;
  Sched sc(a.at(4), (int) parse_i64(a.at(6)));
  size_t cap = (size_t) parse_u64(a.at(5));
  int128_t zthr = a.size() > 7 ? parse_i128(a.at(7)) : 0;
  if (threads < 1 || threads > 4096 || sqrtx < 0 || y < 0) return "ERR:domain";

  HookGuard hg;
  Mute mute(print);
  double clock = 1000.0;
  g_now = clock;
  LoadBalancerAC lb(sqrtx, y, threads, print);

  struct W { ThreadDataAC t; int128_t sum = 0; int id = 0; bool has = false; int64_t low = 0, high = 0; double start = 0; };
  std::vector<W> ws((size_t) threads);
  std::vector<size_t> active;
  for (size_t i = 0; i < ws.size(); i++) { ws[i].id = (int) i; active.push_back(i); }

  std::string evs;
  size_t nev = 0, nchunks = 0;
  while (!active.empty() && nev < cap)
  {
    size_t ai = sc.pick(active.size());
    W& w = ws[active[ai]];
    if (w.has)
    {
      double d = sc.dur(w.high - w.low);
      w.sum += contribution(w.low, w.high, zthr);
      if (w.start + d > clock) clock = w.start + d;
    }
    else
      sc.skip(1);
    clock += sc.stall();
    g_now = clock;
    std::string ev = std::to_string(w.id);
    ev = sep(ev, i128s(w.t.low));
    ev = sep(ev, i128s(w.t.segments));
    ev = sep(ev, i128s(w.t.segment_size));
    bool is_work = lb.get_work(w.t);
    ev = sep(ev, u128s(bits_of(w.t.secs)));
    ev = sep(ev, is_work ? "1" : "0");
    ev = sep(ev, i128s(w.t.low));
    ev = sep(ev, i128s(w.t.segments));
    ev = sep(ev, i128s(w.t.segment_size));
    evs += " " + ev;
    nev++;
    if (is_work)
    {
      nchunks++;
      w.has = true;
      w.low = w.t.low;
      uint64_t hi = (uint64_t) w.t.low + (uint64_t) w.t.segments * (uint64_t) w.t.segment_size;
      w.high = (hi > (uint64_t) sqrtx) ? sqrtx : (int64_t) hi;   // AC.cpp: limit = min(low + segments * segment_size, sqrtx)
      w.start = clock;
      w.t.secs = clock;                                            // AC.cpp: thread.secs = get_time() in the first segment
    }
    else { w.has = false; active.erase(active.begin() + (long) ai); }
  }
  for (W& w : ws) if (w.has) w.sum += contribution(w.low, w.high, zthr);
  int128_t total = 0;
  for (size_t i = 0; i < ws.size(); i++) total += ws[i].sum;
  std::string out = "T " + std::to_string(nev) + " " + std::to_string(nchunks) + " " + i128s(total) +
                    " " + (active.empty() ? "1" : "0");
  return out + evs;
}
