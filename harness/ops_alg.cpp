// C02 / C04 / C08 / C11: counting algorithms, partial formulas with explicit parameters,
// parameter derivation. All calls with print = false. Tuning overrides are set and reset inside one op,
// so the protocol stays stateless.
#include "common.hpp"
#include <primecount.hpp>
#include <primecount-internal.hpp>
#include <gourdon.hpp>
#include <S.hpp>
#include <PhiTiny.hpp>
#include <PiTable.hpp>
#include <imath.hpp>
#include <cstring>

using namespace pcv;
using namespace primecount;

namespace {

struct AlphaGuard {
  ~AlphaGuard() { set_alpha(-1); set_alpha_y(-1); set_alpha_z(-1); }
};

// alpha values travel as integers in thousandths (3 decimals, like the CLI); -1 = default
void apply_alpha(const std::string& s, void (*setter)(double))
{
  int64_t m = parse_i64(s);
  if (m < 0) setter(-1);
  else setter((double) m / 1000.0);
}

std::string run_alg(const std::string& name, int128_t x, int threads)
{
  bool fits = x <= (int128_t) INT64_MAX && x >= (int128_t) INT64_MIN;
  int64_t x64 = (int64_t) x;
  if (name == "pi")          return i128s(pi(x, threads));
  if (name == "pi64")        { if (!fits) return "ERR:domain"; return i128s(pi(x64, threads)); }
  if (name == "dr128")       return i128s(pi_deleglise_rivat(x, threads));
  if (name == "gourdon128")  return i128s(pi_gourdon(x, threads));
  if (name == "dr128raw")    return i128s(pi_deleglise_rivat_128(x, threads, false));
  if (name == "gourdon128raw") return i128s(pi_gourdon_128(x, threads, false));
  if (!fits) return "ERR:domain";
  if (name == "cache")       { if (x64 > PiTable::max_cached()) return "ERR:domain"; return i128s(pi_cache(x64, false)); }
  if (name == "primesieve")  return i128s(pi_primesieve(x64));
  if (name == "legendre")    return i128s(pi_legendre(x64, threads, false));
  if (name == "meissel")     return i128s(pi_meissel(x64, threads, false));
  if (name == "lehmer")      return i128s(pi_lehmer(x64, threads, false));
  if (name == "lmo1")        return i128s(pi_lmo1(x64));
  if (name == "lmo2")        return i128s(pi_lmo2(x64));
  if (name == "lmo3")        return i128s(pi_lmo3(x64));
  if (name == "lmo4")        return i128s(pi_lmo4(x64));
  if (name == "lmo5")        return i128s(pi_lmo5(x64, false));
  if (name == "lmo_parallel") return i128s(pi_lmo_parallel(x64, threads, false));
  if (name == "dr64")        return i128s(pi_deleglise_rivat_64(x64, threads, false));
  if (name == "gourdon64")   return i128s(pi_gourdon_64(x64, threads, false));
  return "ERR:proto";
}

} // namespace

// alg <name> <x> <threads>
PCV_OP(alg) { return run_alg(a.at(0), parse_i128(a.at(1)), (int) parse_i64(a.at(2))); }

// algalpha <name> <x> <threads> <alpha_milli> <alpha_y_milli> <alpha_z_milli>
PCV_OP(algalpha)
{
  AlphaGuard g;
  apply_alpha(a.at(3), set_alpha);
  apply_alpha(a.at(4), set_alpha_y);
  apply_alpha(a.at(5), set_alpha_z);
  return run_alg(a.at(0), parse_i128(a.at(1)), (int) parse_i64(a.at(2)));
}

// params_gourdon <x> <alpha_y_milli> <alpha_z_milli>  ->  y z k x_star maxx_ok
PCV_OP(params_gourdon)
{
  AlphaGuard g;
  int128_t x = parse_i128(a.at(0));
  apply_alpha(a.at(1), set_alpha_y);
  apply_alpha(a.at(2), set_alpha_z);
  auto alpha = get_alpha_gourdon(x);
  double alpha_y = alpha.first, alpha_z = alpha.second;
  int128_t limit = get_max_x(alpha_y);
  int64_t x13 = iroot<3>(x);
  int64_t sqrtx = isqrt(x);
  int64_t y = (int64_t)(x13 * alpha_y);
  y = std::max(y, x13 + 1);
  y = std::min(y, sqrtx - 1);
  y = std::max(y, (int64_t) 1);
  int64_t k = PhiTiny::get_k(x);
  int64_t z = (int64_t)(y * alpha_z);
  z = std::max(z, y);
  z = std::min(z, sqrtx - 1);
  z = std::max(z, (int64_t) 1);
  int64_t xs = get_x_star_gourdon(x, y);
  uint64_t by, bz;
  std::memcpy(&by, &alpha_y, 8); std::memcpy(&bz, &alpha_z, 8);
  return i128s(y) + " " + i128s(z) + " " + i128s(k) + " " + i128s(xs) + " " + (x <= limit ? "1" : "0")
         + " " + u128s(by) + " " + u128s(bz);
}

// params_dr <x> <alpha_milli>  ->  y z c maxx_ok alpha_bits       (Deleglise-Rivat)
PCV_OP(params_dr)
{
  AlphaGuard g;
  int128_t x = parse_i128(a.at(0));
  apply_alpha(a.at(1), set_alpha);
  double alpha = get_alpha_deleglise_rivat(x);
  int128_t limit = get_max_x(alpha);
  int64_t y = (int64_t)(iroot<3>(x) * alpha);
  // pi_deleglise_rivat_128 throws before z is computed when x > limit: z is then reported as -2
  int64_t z = (x > limit) ? -2 : (y > 0 ? (int64_t)(x / y) : -1);
  int64_t c = PhiTiny::get_c(y);
  uint64_t b; std::memcpy(&b, &alpha, 8);
  return i128s(y) + " " + i128s(z) + " " + i128s(c) + " " + (x <= limit ? "1" : "0") + " " + u128s(b);
}

// params_lmo <x> <alpha_milli> -> y z c alpha_bits
PCV_OP(params_lmo)
{
  AlphaGuard g;
  int64_t x = parse_i64(a.at(0));
  apply_alpha(a.at(1), set_alpha);
  double alpha = get_alpha_lmo(x);
  int64_t x13 = iroot<3>(x);
  int64_t y = (int64_t)(x13 * alpha);
  int64_t z = y > 0 ? x / y : -1;
  int64_t c = PhiTiny::get_c(y);
  uint64_t b; std::memcpy(&b, &alpha, 8);
  return i128s(y) + " " + i128s(z) + " " + i128s(c) + " " + u128s(b);
}

PCV_OP(xstar) { return i128s(get_x_star_gourdon(parse_i128(a.at(0)), parse_i64(a.at(1)))); }
PCV_OP(get_k) { return i128s(PhiTiny::get_k(parse_i128(a.at(0)))); }
PCV_OP(get_c) { return i128s(PhiTiny::get_c(parse_u64(a.at(0)))); }

// maxx <alpha_y_milli> -> get_max_x(alpha)
PCV_OP(maxx) { return i128s(get_max_x((double) parse_i64(a.at(0)) / 1000.0)); }

// ---- partial formulas with explicit parameters: <term> <64|128> x y [z] [c|k] threads
#define WIDE(a0) ((a0) == "128")
PCV_OP(P2)
{
  int threads = (int) parse_i64(a.at(4));
  if (WIDE(a.at(0))) return i128s(P2(parse_i128(a.at(1)), parse_i64(a.at(2)), parse_i64(a.at(3)), threads, false));
  return i128s(P2(parse_i64(a.at(1)), parse_i64(a.at(2)), parse_i64(a.at(3)), threads, false));
}
PCV_OP(P3)
{
  return i128s(P3(parse_i64(a.at(1)), parse_i64(a.at(2)), parse_i64(a.at(3)), (int) parse_i64(a.at(4)), false));
}
PCV_OP(S1)
{
  int threads = (int) parse_i64(a.at(4));
  if (WIDE(a.at(0))) return i128s(S1(parse_i128(a.at(1)), parse_i64(a.at(2)), parse_i64(a.at(3)), threads, false));
  return i128s(S1(parse_i64(a.at(1)), parse_i64(a.at(2)), parse_i64(a.at(3)), threads, false));
}
PCV_OP(S2_trivial)
{
  int threads = (int) parse_i64(a.at(5));
  if (WIDE(a.at(0))) return i128s(S2_trivial(parse_i128(a.at(1)), parse_i64(a.at(2)), parse_i64(a.at(3)), parse_i64(a.at(4)), threads, false));
  return i128s(S2_trivial(parse_i64(a.at(1)), parse_i64(a.at(2)), parse_i64(a.at(3)), parse_i64(a.at(4)), threads, false));
}
PCV_OP(S2_easy)
{
  int threads = (int) parse_i64(a.at(5));
  if (WIDE(a.at(0))) return i128s(S2_easy(parse_i128(a.at(1)), parse_i64(a.at(2)), parse_i64(a.at(3)), parse_i64(a.at(4)), threads, false));
  return i128s(S2_easy(parse_i64(a.at(1)), parse_i64(a.at(2)), parse_i64(a.at(3)), parse_i64(a.at(4)), threads, false));
}
// S2_hard <w> x y z c approx threads
PCV_OP(S2_hard)
{
  int threads = (int) parse_i64(a.at(6));
  if (WIDE(a.at(0))) return i128s(S2_hard(parse_i128(a.at(1)), parse_i64(a.at(2)), parse_i64(a.at(3)), parse_i64(a.at(4)), parse_i128(a.at(5)), threads, false));
  return i128s(S2_hard(parse_i64(a.at(1)), parse_i64(a.at(2)), parse_i64(a.at(3)), parse_i64(a.at(4)), parse_i64(a.at(5)), threads, false));
}
PCV_OP(Sigma)
{
  int threads = (int) parse_i64(a.at(3));
  if (WIDE(a.at(0))) return i128s(Sigma(parse_i128(a.at(1)), parse_i64(a.at(2)), threads, false));
  return i128s(Sigma(parse_i64(a.at(1)), parse_i64(a.at(2)), threads, false));
}
PCV_OP(B)
{
  int threads = (int) parse_i64(a.at(3));
  if (WIDE(a.at(0))) return i128s(B(parse_i128(a.at(1)), parse_i64(a.at(2)), threads, false));
  return i128s(B(parse_i64(a.at(1)), parse_i64(a.at(2)), threads, false));
}
// Phi0 / AC <w> x y z k threads
PCV_OP(Phi0)
{
  int threads = (int) parse_i64(a.at(5));
  if (WIDE(a.at(0))) return i128s(Phi0(parse_i128(a.at(1)), parse_i64(a.at(2)), parse_i64(a.at(3)), parse_i64(a.at(4)), threads, false));
  return i128s(Phi0(parse_i64(a.at(1)), parse_i64(a.at(2)), parse_i64(a.at(3)), parse_i64(a.at(4)), threads, false));
}
PCV_OP(AC)
{
  int threads = (int) parse_i64(a.at(5));
  if (WIDE(a.at(0))) return i128s(AC(parse_i128(a.at(1)), parse_i64(a.at(2)), parse_i64(a.at(3)), parse_i64(a.at(4)), threads, false));
  return i128s(AC(parse_i64(a.at(1)), parse_i64(a.at(2)), parse_i64(a.at(3)), parse_i64(a.at(4)), threads, false));
}
// D <w> x y z k approx threads
PCV_OP(D)
{
  int threads = (int) parse_i64(a.at(6));
  if (WIDE(a.at(0))) return i128s(D(parse_i128(a.at(1)), parse_i64(a.at(2)), parse_i64(a.at(3)), parse_i64(a.at(4)), parse_i128(a.at(5)), threads, false));
  return i128s(D(parse_i64(a.at(1)), parse_i64(a.at(2)), parse_i64(a.at(3)), parse_i64(a.at(4)), parse_i64(a.at(5)), threads, false));
}

// ---- identities with explicit parameters (C08): all terms of one decomposition in one op
// ident_dr <w> x y c threads   (z = x / y)  ->  s1 s2_trivial s2_easy s2_hard p2 pi_y total
PCV_OP(ident_dr)
{
  int threads = (int) parse_i64(a.at(4));
  int64_t y = parse_i64(a.at(2)), c = parse_i64(a.at(3));
  int64_t pi_y = pi_noprint(y, threads);
  if (WIDE(a.at(0))) {
    int128_t x = parse_i128(a.at(1));
    int64_t z = (int64_t)(x / y);
    int128_t p2 = P2(x, y, pi_y, threads, false);
    int128_t s1 = S1(x, y, c, threads, false);
    int128_t s2a = S2_approx(x, pi_y, p2, s1);
    int128_t t = S2_trivial(x, y, z, c, threads, false);
    int128_t e = S2_easy(x, y, z, c, threads, false);
    int128_t h = S2_hard(x, y, z, c, s2a - (t + e), threads, false);
    return i128s(s1) + " " + i128s(t) + " " + i128s(e) + " " + i128s(h) + " " + i128s(p2) + " " + i128s(pi_y) + " " + i128s(s1 + t + e + h + pi_y - 1 - p2);
  }
  int64_t x = parse_i64(a.at(1));
  int64_t z = x / y;
  int64_t p2 = P2(x, y, pi_y, threads, false);
  int64_t s1 = S1(x, y, c, threads, false);
  int64_t s2a = S2_approx(x, pi_y, p2, s1);
  int64_t t = S2_trivial(x, y, z, c, threads, false);
  int64_t e = S2_easy(x, y, z, c, threads, false);
  int64_t h = S2_hard(x, y, z, c, s2a - (t + e), threads, false);
  return i128s(s1) + " " + i128s(t) + " " + i128s(e) + " " + i128s(h) + " " + i128s(p2) + " " + i128s(pi_y) + " " + i128s(s1 + t + e + h + pi_y - 1 - p2);
}

// ident_gourdon <w> x y z k threads  ->  sigma phi0 ac b d total
PCV_OP(ident_gourdon)
{
  int threads = (int) parse_i64(a.at(5));
  int64_t y = parse_i64(a.at(2)), z = parse_i64(a.at(3)), k = parse_i64(a.at(4));
  if (WIDE(a.at(0))) {
    int128_t x = parse_i128(a.at(1));
    int128_t sigma = Sigma(x, y, threads, false);
    int128_t phi0 = Phi0(x, y, z, k, threads, false);
    int128_t ac = AC(x, y, z, k, threads, false);
    int128_t b = B(x, y, threads, false);
    int128_t da = D_approx(x, sigma, phi0, ac, b);
    int128_t d = D(x, y, z, k, da, threads, false);
    return i128s(sigma) + " " + i128s(phi0) + " " + i128s(ac) + " " + i128s(b) + " " + i128s(d) + " " + i128s(ac - b + d + phi0 + sigma);
  }
  int64_t x = parse_i64(a.at(1));
  int64_t sigma = Sigma(x, y, threads, false);
  int64_t phi0 = Phi0(x, y, z, k, threads, false);
  int64_t ac = AC(x, y, z, k, threads, false);
  int64_t b = B(x, y, threads, false);
  int64_t da = D_approx(x, sigma, phi0, ac, b);
  int64_t d = D(x, y, z, k, da, threads, false);
  return i128s(sigma) + " " + i128s(phi0) + " " + i128s(ac) + " " + i128s(b) + " " + i128s(d) + " " + i128s(ac - b + d + phi0 + sigma);
}

// algrange <name> <lo> <hi> <threads> -> results for every x in [lo, hi], space separated
PCV_OP(algrange)
{
  int128_t lo = parse_i128(a.at(1)), hi = parse_i128(a.at(2));
  int threads = (int) parse_i64(a.at(3));
  std::string out;
  for (int128_t x = lo; x <= hi; x++) {
    if (!out.empty()) out += ' ';
    out += run_alg(a.at(0), x, threads);
  }
  return out;
}

// algall <x> <threads> <name1> <name2> ... -> result of every listed algorithm, space separated
PCV_OP(algall)
{
  int128_t x = parse_i128(a.at(0));
  int threads = (int) parse_i64(a.at(1));
  std::string out;
  for (size_t i = 2; i < a.size(); i++) {
    if (i > 2) out += ' ';
    out += run_alg(a[i], x, threads);
  }
  return out;
}

// algalpha_all <x> <threads> <alpha_milli> <alpha_y_milli> <alpha_z_milli> <names...>
PCV_OP(algalpha_all)
{
  AlphaGuard g;
  int128_t x = parse_i128(a.at(0));
  int threads = (int) parse_i64(a.at(1));
  apply_alpha(a.at(2), set_alpha);
  apply_alpha(a.at(3), set_alpha_y);
  apply_alpha(a.at(4), set_alpha_z);
  std::string out;
  for (size_t i = 5; i < a.size(); i++) {
    if (i > 5) out += ' ';
    try { out += run_alg(a[i], x, threads); }
    catch (const primecount_error&) { out += "ERR:pc"; }
  }
  return out;
}

// algagree = algall, but the model does not evaluate pi(x): the judge only requires mutual agreement
PCV_OP(algagree) { return op_algall(a); }
