// C12: integer roots and small integer helpers, on the real header-only functions.
#include "common.hpp"
#include <isqrt.hpp>
#include <imath.hpp>
#include <primecount-internal.hpp>

using namespace pcv;

PCV_OP(isqrt_i64)  { return i128s(isqrt<int64_t>(parse_i64(a.at(0)))); }
PCV_OP(isqrt_u64)  { return u128s(isqrt<uint64_t>(parse_u64(a.at(0)))); }
PCV_OP(isqrt_i128) { return i128s(isqrt<int128_t>(parse_i128(a.at(0)))); }
PCV_OP(isqrt_u128) { return u128s(isqrt<uint128_t>(parse_u128(a.at(0)))); }

template <int N> static std::string iroot_op(const Args& a)
{
  const std::string& ty = a.at(0);
  if (ty == "i64")  return i128s(iroot<N>(parse_i64(a.at(1))));
  if (ty == "u64")  return u128s(iroot<N>(parse_u64(a.at(1))));
  if (ty == "i128") return i128s(iroot<N>(parse_i128(a.at(1))));
  if (ty == "u128") return u128s(iroot<N>(parse_u128(a.at(1))));
  return "ERR:proto";
}
PCV_OP(iroot3) { return iroot_op<3>(a); }
PCV_OP(iroot4) { return iroot_op<4>(a); }
PCV_OP(iroot6) { return iroot_op<6>(a); }

PCV_OP(ctsqrt_i64)  { return i128s(ct_sqrt<int64_t>(parse_i64(a.at(0)))); }
PCV_OP(ctsqrt_i128) { return i128s(ct_sqrt<int128_t>(parse_i128(a.at(0)))); }
PCV_OP(ctsqrt_u128) { return u128s(ct_sqrt<uint128_t>(parse_u128(a.at(0)))); }

PCV_OP(ceil_div)   { return i128s(ceil_div(parse_i128(a.at(0)), parse_i128(a.at(1)))); }
PCV_OP(ilog2)      { return i128s(ilog2(parse_i64(a.at(0)))); }
PCV_OP(next_pow2)  { return u128s(next_power_of_2(parse_u64(a.at(0)))); }
PCV_OP(in_between) { return i128s(in_between(parse_i64(a.at(0)), parse_i64(a.at(1)), parse_i64(a.at(2)))); }
PCV_OP(ideal_threads) { return i128s(ideal_num_threads(parse_i64(a.at(0)), (int) parse_i64(a.at(1)), parse_i64(a.at(2)))); }
