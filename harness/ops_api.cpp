// C20: call histories on the public C++ API and the process-global settings behind it, and CLI runs.
//
//   hwinfo                       -> "<omp_get_max_threads> <primesieve max threads>"
//   history <tok>,<tok>,...      -> "<res>,<res>,..."   the whole sequence runs in ONE FRESH process
//                                   (the harness re-executes itself with `history_inproc`)
//   history_inproc <tok>,...     -> same, in this process (state left by earlier ops is visible)
//   cli <binary> <arg>...        -> "rc=<exit status> res=<number|none> sec=<0|1>"  (stdout of one CLI run)
//
// tokens (fields separated by ':'):
//   pi:<x>  pis:<xhex>  phi:<x>:<a>  nth:<n>          results: decimal | ERR
//   st:<t>  gt  gpt                                    set/get_num_threads, primesieve::get_num_threads
//   sa:<bits> say:<bits> saz:<bits>  ga                set_alpha*, observation of (alpha_, alpha_y_, alpha_z_)
//                                                      through get_alpha_lmo / get_alpha_gourdon at x = 10^36
//                                                      (doubles travel as 16 hex digits of their bit pattern)
//   sp:<0|1> spv:<0|1> gp                              set_print, set_print_variables, is_print/is_print_combined_result
//   ssp:<n> gsp                                        set_status_precision, get_status_precision at 3 sizes of x
// Everything the library prints to stdout during a call is discarded (fd 1 -> /dev/null around the call).
#include "common.hpp"
#include "capture.hpp"
#include <primecount.hpp>
#include <primecount-internal.hpp>
#include <primesieve.hpp>
#include <print.hpp>
#include <cstring>
#include <cstdio>
#include <sys/wait.h>

#ifdef _OPENMP
  #include <omp.h>
#endif

using namespace pcv;

namespace {

std::vector<std::string> split(const std::string& s, char sep)
{
  std::vector<std::string> v;
  std::string cur;
  for (char c : s) {
    if (c == sep) { v.push_back(cur); cur.clear(); }
    else cur += c;
  }
  v.push_back(cur);
  return v;
}

std::string bits_of(double d)
{
  uint64_t u;
  std::memcpy(&u, &d, 8);
  static const char* h = "0123456789abcdef";
  std::string s(16, '0');
  for (int i = 15; i >= 0; i--) { s[i] = h[u & 15]; u >>= 4; }
  return s;
}

double double_of(const std::string& s)
{
  if (s.size() != 16) throw std::runtime_error("protocol: double bits");
  uint64_t u = std::stoull(s, nullptr, 16);
  double d;
  std::memcpy(&d, &u, 8);
  return d;
}

primecount::maxint_t pow10(int e)
{
  primecount::maxint_t x = 1;
  for (int i = 0; i < e; i++) x *= 10;
  return x;
}

template <typename F>
std::string quiet(F f)
{
  FdRedirect out(1, false);
  try { return f(); }
  catch (const std::exception&) { return "ERR"; }
}

std::string plain(const std::string& s)
{
  if (s.empty()) return "BAD:-";
  for (char c : s)
    if (!((c >= '0' && c <= '9') || c == '-')) return "BAD:" + hex(s);
  return s;
}

std::string one_call(const std::string& tok)
{
  using namespace primecount;
  Args f = split(tok, ':');
  const std::string& k = f.at(0);
  if (k == "pi")  { int64_t x = parse_i64(f.at(1)); return quiet([&] { return i128s(pi(x)); }); }
  if (k == "pis") { std::string x = unhex(f.at(1)); return quiet([&] { return plain(pi(x)); }); }
  if (k == "phi") { int64_t x = parse_i64(f.at(1)), a = parse_i64(f.at(2)); return quiet([&] { return i128s(phi(x, a)); }); }
  if (k == "nth") { int64_t n = parse_i64(f.at(1)); return quiet([&] { return i128s(nth_prime(n)); }); }
  if (k == "st")  { int t = (int) parse_i64(f.at(1)); return quiet([&] { set_num_threads(t); return std::string("-"); }); }
  if (k == "gt")  return quiet([&] { return i128s(get_num_threads()); });
  if (k == "gpt") return quiet([&] { return i128s(primesieve::get_num_threads()); });
  if (k == "sa")  { double d = double_of(f.at(1)); return quiet([&] { set_alpha(d); return std::string("-"); }); }
  if (k == "say") { double d = double_of(f.at(1)); return quiet([&] { set_alpha_y(d); return std::string("-"); }); }
  if (k == "saz") { double d = double_of(f.at(1)); return quiet([&] { set_alpha_z(d); return std::string("-"); }); }
  if (k == "ga")  return quiet([&] {
      maxint_t x = pow10(36);
      double lmo = get_alpha_lmo(x);
      std::pair<double, double> g = get_alpha_gourdon(x);
      return bits_of(lmo) + "/" + bits_of(g.first) + "/" + bits_of(g.second); });
  if (k == "sp")  { bool b = f.at(1) == "1"; return quiet([&] { set_print(b); return std::string("-"); }); }
  if (k == "spv") { bool b = f.at(1) == "1"; return quiet([&] { set_print_variables(b); return std::string("-"); }); }
  if (k == "gp")  return quiet([&] { return std::string(is_print() ? "1" : "0") + "/" + (is_print_combined_result() ? "1" : "0"); });
  if (k == "ssp") { int p = (int) parse_i64(f.at(1)); return quiet([&] { set_status_precision(p); return std::string("-"); }); }
  if (k == "gsp") return quiet([&] {
      return i128s(get_status_precision(100)) + "/" + i128s(get_status_precision(3 * pow10(21))) + "/" +
             i128s(get_status_precision(pow10(24))); });
  throw std::runtime_error("protocol: token " + tok);
}

std::string run_history(const std::string& toks)
{
  std::string out;
  for (const std::string& tok : split(toks, ',')) {
    if (!out.empty()) out += ",";
    out += one_call(tok);
  }
  return out;
}

std::string shell_quote(const std::string& s)
{
  for (char c : s)
    if (c == '\'' || c == '\n' || c == '\0') throw std::runtime_error("protocol: argument");
  return "'" + s + "'";
}

std::string self_exe()
{
  char buf[4096];
  ssize_t n = readlink("/proc/self/exe", buf, sizeof buf - 1);
  if (n <= 0) throw std::runtime_error("harness: /proc/self/exe");
  return std::string(buf, (size_t) n);
}

/// runs a shell command, returns its stdout; rc = exit status (or 128+signal)
std::string run_command(const std::string& cmd, int& rc)
{
  std::cout.flush();
  FILE* p = popen(cmd.c_str(), "r");
  if (!p) throw std::runtime_error("harness: popen");
  std::string out;
  char buf[4096];
  size_t n;
  while ((n = fread(buf, 1, sizeof buf, p)) > 0) out.append(buf, n);
  int st = pclose(p);
  rc = WIFEXITED(st) ? WEXITSTATUS(st) : 128 + (WIFSIGNALED(st) ? WTERMSIG(st) : 0);
  return out;
}

} // namespace

PCV_OP(hwinfo)
{
  (void) a;
#ifdef _OPENMP
  int omp = omp_get_max_threads();
#else
  int omp = 1;
#endif
  // primesieve's default (num_threads == 0) is its hardware maximum; a fresh child reports it
  int rc;
  std::string line = "history_inproc gpt";
  std::string out = run_command("printf '%s\\n' " + shell_quote(line) + " | " + shell_quote(self_exe()), rc);
  while (!out.empty() && (out.back() == '\n' || out.back() == '\r')) out.pop_back();
  if (rc != 0 || out.empty()) return "CHILD-FAILED";
  return std::to_string(omp) + " " + out;
}

PCV_OP(history_inproc) { return run_history(a.at(0)); }

PCV_OP(history)
{
  int rc;
  std::string line = "history_inproc " + a.at(0);
  std::string out = run_command("printf '%s\\n' " + shell_quote(line) + " | " + shell_quote(self_exe()), rc);
  while (!out.empty() && (out.back() == '\n' || out.back() == '\r')) out.pop_back();
  if (rc != 0 || out.empty() || out.find('\n') != std::string::npos)
    return "CHILD-FAILED:rc=" + std::to_string(rc) + ":" + hex(out.substr(0, 200));
  return out;
}

PCV_OP(cli)
{
  std::string cmd = "timeout 18 " + shell_quote(a.at(0));
  for (size_t i = 1; i < a.size(); i++) cmd += " " + shell_quote(a[i]);
  cmd += " 2>/dev/null";
  int rc;
  std::string out = run_command(cmd, rc);
  // lines end with \n; the status display uses \r inside a line
  std::vector<std::string> lines;
  std::string cur;
  for (char c : out) {
    if (c == '\n' || c == '\r') { lines.push_back(cur); cur.clear(); }
    else cur += c;
  }
  lines.push_back(cur);
  bool sec = false;
  std::string last;
  for (std::string l : lines) {
    while (!l.empty() && l.back() == ' ') l.pop_back();
    if (l.empty()) continue;
    if (l.compare(0, 8, "Seconds:") == 0) { sec = true; continue; }
    last = l;
  }
  std::string res = "none";
  size_t eq = last.rfind(" = ");
  std::string num = (eq == std::string::npos) ? last : last.substr(eq + 3);
  bool digits = !num.empty();
  for (char c : num) if (c < '0' || c > '9') digits = false;
  if (digits && rc == 0) res = num;
  return "rc=" + std::to_string(rc) + " res=" + res + " sec=" + (sec ? "1" : "0");
}
