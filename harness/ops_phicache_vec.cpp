// C07/C17 (WP phicache): the SECOND copy of `class PhiCache` — the template in src/phi_vector.cpp (anonymous namespace) —
// and the file-local `phi_vector` template, reached by compiling phi_vector.cpp into this translation unit (same
// mechanism as ops_phicache.cpp: the headers it uses are included first, unmodified; `private` is lifted for the text
// of phi_vector.cpp only; the two public overloads primecount::phi_vector are renamed so that they do not clash with
// the library's).  The cache of this copy is sized with max_x = isqrt(x) instead of the float estimate of phi.cpp:76;
// the answers start with that value so that the model ops of ops_phicache.cpp (`phicache_dump_m E x a ...`) apply as is.
#include "common.hpp"

#include <phi_vector.hpp>
#include <primecount-internal.hpp>
#include <BitSieve240.hpp>
#include <generate_primes.hpp>
#include <fast_div.hpp>
#include <imath.hpp>
#include <macros.hpp>
#include <min.hpp>
#include <PhiTiny.hpp>
#include <PiTable.hpp>
#include <Vector.hpp>
#include <popcnt.hpp>

#include <stdint.h>
#include <algorithm>
#include <utility>
#include <string>
#include <vector>

#define phi_vector phi_vector_pcv_copy
#define private public
#include <phi_vector.cpp>
#undef private
#undef phi_vector

using namespace pcv;

namespace {

const uint64_t FNV_OFFSET_V = 14695981039346656037ull;
const uint64_t FNV_PRIME_V = 1099511628211ull;
inline uint64_t fnv_v(uint64_t h, uint64_t v) { return (h ^ v) * FNV_PRIME_V; }

std::string hex64_v(uint64_t v)
{
  static const char* d = "0123456789abcdef";
  std::string s;
  for (int i = 60; i >= 0; i -= 4) s += d[(v >> i) & 15];
  return s;
}

// same format as `dump` of ops_phicache.cpp
template <typename C>
std::string dump_v(const C& c, bool full)
{
  std::string out = "mac=" + u128s(c.max_a_cached_) + ";n=" + u128s(c.sieve_.size());
  for (std::size_t i = 0; i < c.sieve_.size(); i++)
  {
    const auto& row = c.sieve_[i];
    out += ";" + u128s(row.size()) + ":";
    if (full)
    {
      for (std::size_t j = 0; j < row.size(); j++)
      {
        if (j) out += ",";
        out += u128s(row[j].count) + "." + hex64_v(row[j].bits);
      }
    }
    else
    {
      uint64_t h = FNV_OFFSET_V;
      for (std::size_t j = 0; j < row.size(); j++)
      {
        h = fnv_v(h, row[j].count);
        h = fnv_v(h, row[j].bits);
      }
      out += "#" + hex64_v(h);
    }
  }
  return out;
}

// primes[0] = 0, primes[i] = i-th prime for 1 <= i <= n, in the element type of the two public overloads
template <typename T>
Vector<T> first_primes(int64_t n)
{
  auto p32 = generate_n_primes<int32_t>(n);
  Vector<T> out(p32.size());
  for (std::size_t i = 0; i < p32.size(); i++)
    out[i] = (T) p32[i];
  return out;
}

template <typename T>
std::string cache_op(const Args& a)
{
  int64_t x = parse_i64(a.at(0)), aa = parse_i64(a.at(1));
  bool full = a.at(3) == "full";
  if (x < 1 || aa < 1 || aa > 50000000) return "ERR:domain";
  auto primes = first_primes<T>(aa);
  PiTable pi(a.at(3) == "geom" ? 10 : isqrt(x), 1);     // the constructor only stores the reference
  PhiCache<Vector<T>> c(x, aa, primes, pi);
  for (std::size_t i = 4; i < a.size(); i++)
  {
    uint64_t k = parse_u64(a[i]);
    uint64_t mac = c.sieve_.empty() ? 3 : c.max_a_cached_;
    if (!(k > PhiTiny::max_a() && k <= c.max_a_ && k > mac && k > c.max_a_cached_)) return "ERR:domain";
    c.init_cache(k);
  }
  std::string head = u128s((uint64_t) isqrt(x)) + "|";
  if (a.at(3) == "geom")
    return head + u128s(c.max_x_) + "," + u128s(c.max_x_size_) + "," + u128s(c.max_a_) + "," + u128s(c.max_a_cached_) + "," +
           u128s(c.sieve_.size()) + "," + u128s(sizeof(typename PhiCache<Vector<T>>::sieve_t));
  return head + dump_v(c, full);
}

template <typename T>
std::string run_op(int64_t x, int64_t aa)
{
  auto primes = first_primes<T>(aa);
  int64_t top = std::max<int64_t>((int64_t) primes[aa], isqrt(x));
  PiTable pi(top, 1);
  auto v1 = ::phi_vector_pcv_copy(x, aa, primes, pi);          // the file-local template compiled into this TU
  auto v2 = primecount::phi_vector(x, aa, primes, pi);         // the library's
  std::string r1, r2;
  for (std::size_t i = 0; i < v1.size(); i++) r1 += (i ? "," : "") + i128s(v1[i]);
  for (std::size_t i = 0; i < v2.size(); i++) r2 += (i ? "," : "") + i128s(v2[i]);
  return u128s((uint64_t) top) + "|" + r1 + "|" + r2;
}

} // namespace

// phivec_cache x a u32|i64 full|sum|geom k1 k2 ... -> "isqrt(x)|" + (dump after init_cache(k1), init_cache(k2), ... | geometry)
//   of `PhiCache<Vector<T>>(x, a, primes, pi)` of src/phi_vector.cpp
PCV_OP(phivec_cache)
{
  if (a.at(2) == "u32") return cache_op<uint32_t>(a);
  if (a.at(2) == "i64") return cache_op<int64_t>(a);
  return "ERR:proto";
}

// phivec_run x a u32|i64 -> "top|phi[0],phi[1],...|phi[0],..." : phi_vector(x, a, first a primes, PiTable(top)),
//   top = max(primes[a], isqrt(x)); first the copy compiled into this TU, then the library's
PCV_OP(phivec_run)
{
  int64_t x = parse_i64(a.at(0)), aa = parse_i64(a.at(1));
  if (x < 0 || x >= ((int64_t) 1 << 62) || aa < 1 || aa > 2000000) return "ERR:domain";
  if (a.at(2) == "u32") return run_op<uint32_t>(x, aa);
  if (a.at(2) == "i64") return run_op<int64_t>(x, aa);
  return "ERR:proto";
}
