// C13: textual input -> maxint_t, on the real `to_maxint` (src/util.cpp) and `calculator.hpp`.
#include "common.hpp"
#include <primecount.hpp>
#include <primecount-internal.hpp>
#include <calculator.hpp>
#include <cstring>

using namespace pcv;

namespace {

std::string classify(const std::exception& e)
{
  const char* m = e.what();
  if (std::strstr(m, "Syntax error")) return "ERR:calc:syntax";
  if (std::strstr(m, "division by 0")) return "ERR:calc:div0";
  if (std::strstr(m, "integer overflow")) return "ERR:calc:overflow";
  if (std::strstr(m, "negative exponent")) return "ERR:calc:negexp";
  return "ERR:calc:other";
}

// error signal of the internal `to_maxint`: the calculator's diagnostics keep their kind whether they arrive as
// calculator::error (before the repair F7) or as primecount_error carrying the same message (after it)
std::string classify_pc(const primecount::primecount_error& e)
{
  std::string k = classify(e);
  return k == "ERR:calc:other" ? "ERR:pc" : k;
}

} // namespace

// toi <hex-encoded string> -> decimal value | ERR:calc:<kind> (calculator::error) | ERR:pc (primecount_error)
PCV_OP(toi)
{
  std::string s = unhex(a.at(0));
  try { return i128s(primecount::to_maxint(s)); }
  catch (const calculator::error& e) { return classify(e); }
  catch (const primecount::primecount_error& e) { return classify_pc(e); }
}

// same call, every documented error signal collapsed to ERR (compared with the reference parser)
PCV_OP(toiref)
{
  std::string s = unhex(a.at(0));
  try { return i128s(primecount::to_maxint(s)); }
  catch (const calculator::error&) { return "ERR"; }
  catch (const primecount::primecount_error&) { return "ERR"; }
}

// pistr <hex>: primecount::pi(const std::string&) when the value is small (guard: the value is first
// obtained with to_maxint so that the harness never starts a huge computation); BIG otherwise.
// primecount.hpp documents "Throws a primecount_error if an error occurs": any OTHER exception type that leaves the
// public function is reported as ERR:escaped:<kind> (never produced by the model).
PCV_OP(pistr)
{
  std::string s = unhex(a.at(0));
  try {
    int128_t v = primecount::to_maxint(s);
    if (v > 300000) return "BIG";
  }
  catch (const std::exception&) { }
  try { return primecount::pi(s); }
  catch (const primecount::primecount_error& e) { return classify_pc(e); }
  catch (const calculator::error& e) { return "ERR:escaped:" + classify(e).substr(4); }
  catch (const std::exception& e) { return "ERR:escaped:other"; }
}

// same call as `toi`; compared with the wrap-around model of the UNREPAIRED calculator (stream `toiwrap`,
// only generated while include/calculator.hpp has no overflow detection)
PCV_OP(toiwrap)
{
  std::string s = unhex(a.at(0));
  try { return i128s(primecount::to_maxint(s)); }
  catch (const calculator::error& e) { return classify(e); }
  catch (const primecount::primecount_error& e) { return classify_pc(e); }
}
