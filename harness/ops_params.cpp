// C12 / C11 / C04 (work package "params"): every derived parameter of a run, and the fast_div64 kernels.
//
// REAL RUNS (the variables the entry point itself computes, for ANY x up to the range limit):
//   gvars <64|128> <x> <ay_milli> <az_milli>   -> "y z k x_star" | ERR:pc | NOPRINT
//   dvars <64|128> <x> <a_milli>               -> "y z c"        | ERR:pc | NOPRINT
//   lvars <par|5>  <x> <a_milli>               -> "y z c"        | NOPRINT        (pi_lmo_parallel / pi_lmo5)
//     The entry point (pi_gourdon_64/128, pi_deleglise_rivat_64/128, pi_lmo_parallel, pi_lmo5) is called with
//     is_print = true in a forked child whose stdout is a pipe; it prints its variables BEFORE any heavy work.
//     The parent reads the "name = value" lines up to "threads = " and kills the child, so x = 10^31 costs a
//     fork. NOPRINT: the function returned without printing (x < 2); CRASH:<signal> if the child died.
//
// COMPONENTS (real get_alpha_*, get_max_x, iroot, isqrt, get_x_star_gourdon, PhiTiny, FactorTable*::max,
// ideal_num_threads; the three clamp lines are transcribed and tied to the real run by `gvars`):
//   gparams <64|128> <x> <ay_milli> <az_milli> <threads>  -> "ay=<bits> az=<bits> maxx=.. ok=.. x13=.. sqrtx=.. v=.. y=.. k=..
//                                                  w=.. z=.. xstar=.. xy=.. xz=.. sqrtz=.. sqrtxy=.. maxaprime=..
//                                                  ft16=.. prim32=.. mt=.. thrD=.. thrAC=.."
//   dparams <64|128> <x> <a_milli> <threads>   -> "a=<bits> maxx=.. ok=.. x13=.. v=.. y=.. z=.. c=.. sqrtz=.. ft16=.. mt=.. thr=.."
//   lparams <x> <a_milli>                      -> "a=<bits> x13=.. v=.. y=.. z=.. c=.."
//   alphas <x> <a_milli> <ay_milli> <az_milli> -> "<lmo bits> <dr bits> <gourdon ay bits> <gourdon az bits>"
//   maxx_bits <bits>                           -> get_max_x(double) | UB (the double does not fit int128_t)
//   setalpha <bits> [0|1|2]                    -> "<lmo | gourdon alpha_y | alpha_z bits at 10^36>" after set_alpha[_y|_z](double)
//   fdiv64 <x> <d>                             -> fast_div64((uint128_t) x, (uint64_t) d) in a forked child | TRAP (SIGFPE)
//   fdiv <x> <d>                               -> fast_div((uint128_t) x, (uint64_t) d)
// A float -> integer cast whose operand is out of range is undefined: such casts are NOT executed here, the field
// is printed as UB (the model prints UB for the same operands).
#include "common.hpp"
#include <primecount.hpp>
#include <primecount-internal.hpp>
#include <gourdon.hpp>
#include <PhiTiny.hpp>
#include <FactorTable.hpp>
#include <FactorTableD.hpp>
#include <fast_div.hpp>
#include <imath.hpp>
#include <isqrt.hpp>
#include <cmath>
#include <cstring>
#include <csignal>
#include <iostream>
#include <sstream>
#include <sys/resource.h>
#include <sys/wait.h>
#include <unistd.h>

using namespace pcv;
using namespace primecount;

namespace {

struct AlphaGuardP {
  ~AlphaGuardP() { set_alpha(-1); set_alpha_y(-1); set_alpha_z(-1); }
};

void apply_alpha_p(const std::string& s, void (*setter)(double))
{
  int64_t m = parse_i64(s);
  if (m < 0) setter(-1);
  else setter((double) m / 1000.0);
}

std::string dbits(double d)
{
  uint64_t u;
  std::memcpy(&u, &d, 8);
  return u128s(u);
}

double dfrom(const std::string& s)
{
  uint64_t u = parse_u64(s);
  double d;
  std::memcpy(&d, &u, 8);
  return d;
}

// (int64_t) d is defined iff the truncated value fits
bool fits_i64(double d) { return d > -9223372036854777856.0 && d < 9223372036854775808.0; }
bool fits_int(double d) { return d > -2147483649.0 && d < 2147483648.0; }
bool fits_i128(double d) { return d > -1.7014118346046925e38 && d < 1.7014118346046923e38; }

std::string cast_i64(double d) { return fits_i64(d) ? i128s((int64_t) d) : std::string("UB"); }
std::string cast_int(double d) { return fits_int(d) ? i128s((int) d) : std::string("UB"); }

/// Runs `f` (which prints to stdout) in a forked child, returns the "name = value" pairs printed before the line
/// "threads = ...", then kills the child.
template <typename F>
std::string real_vars(F f, const std::vector<std::string>& keys)
{
  std::cout.flush();
  std::fflush(stdout);
  int fds[2];
  if (pipe(fds) != 0) throw std::runtime_error("harness: pipe");
  pid_t pid = fork();
  if (pid < 0) throw std::runtime_error("harness: fork");
  if (pid == 0) {
    // child
    close(fds[0]);
    dup2(fds[1], 1);
    close(fds[1]);
    std::signal(SIGALRM, SIG_DFL);
    alarm(15);
    const char* msg = "@DONE\n";
    try { f(); std::cout.flush(); }
    catch (const primecount_error&) { msg = "@ERR:pc\n"; }
    catch (const std::exception&) { msg = "@ERR:exc\n"; }
    std::cout.flush();
    ssize_t w = write(1, msg, std::strlen(msg));
    (void) w;
    _exit(0);
  }
  close(fds[1]);
  std::map<std::string, std::string> vals;
  std::string buf, status;
  bool done = false;
  char tmp[4096];
  while (!done) {
    ssize_t n = read(fds[0], tmp, sizeof tmp);
    if (n <= 0) break;
    buf.append(tmp, (size_t) n);
    size_t pos;
    while ((pos = buf.find('\n')) != std::string::npos) {
      std::string line = buf.substr(0, pos);
      buf.erase(0, pos + 1);
      if (!line.empty() && line[0] == '@') { status = line.substr(1); done = true; break; }
      size_t eq = line.find(" = ");
      if (eq == std::string::npos) continue;
      std::string k = line.substr(0, eq), v = line.substr(eq + 3);
      if (k == "threads") { done = true; break; }
      if (!vals.count(k)) vals[k] = v;
    }
  }
  kill(pid, SIGKILL);
  close(fds[0]);
  int st = 0;
  waitpid(pid, &st, 0);
  if (status == "ERR:pc" || status == "ERR:exc") return status;
  if (vals.empty()) {
    if (status == "DONE") return "NOPRINT";
    if (WIFSIGNALED(st) && WTERMSIG(st) != SIGKILL) return "CRASH:" + std::to_string(WTERMSIG(st));
    return "NOPRINT";
  }
  std::string out;
  for (const std::string& k : keys) {
    if (!out.empty()) out += ' ';
    out += vals.count(k) ? vals[k] : std::string("?");
  }
  return out;
}

} // namespace

PCV_OP(gvars)
{
  AlphaGuardP g;
  bool wide = a.at(0) == "128";
  int128_t x = parse_i128(a.at(1));
  apply_alpha_p(a.at(2), set_alpha_y);
  apply_alpha_p(a.at(3), set_alpha_z);
  if (!wide && (x > (int128_t) INT64_MAX || x < (int128_t) INT64_MIN)) return "ERR:domain";
  return real_vars([&] {
      if (wide) pi_gourdon_128(x, 1, true);
      else pi_gourdon_64((int64_t) x, 1, true); },
    {"y", "z", "k", "x_star"});
}

PCV_OP(dvars)
{
  AlphaGuardP g;
  bool wide = a.at(0) == "128";
  int128_t x = parse_i128(a.at(1));
  apply_alpha_p(a.at(2), set_alpha);
  if (!wide && (x > (int128_t) INT64_MAX || x < (int128_t) INT64_MIN)) return "ERR:domain";
  return real_vars([&] {
      if (wide) pi_deleglise_rivat_128(x, 1, true);
      else pi_deleglise_rivat_64((int64_t) x, 1, true); },
    {"y", "z", "c"});
}

PCV_OP(lvars)
{
  AlphaGuardP g;
  int64_t x = parse_i64(a.at(1));
  apply_alpha_p(a.at(2), set_alpha);
  bool par = a.at(0) == "par";
  return real_vars([&] {
      if (par) pi_lmo_parallel(x, 1, true);
      else pi_lmo5(x, true); },
    {"y", "z", "c"});
}

// all derived quantities of Gourdon's algorithm from the real components (T = type of x in the entry point)
template <typename T>
static std::string gparams_t(T x, bool wide, int threads)
{
  auto alpha = get_alpha_gourdon(x);
  double alpha_y = alpha.first, alpha_z = alpha.second;
  std::string out = "ay=" + dbits(alpha_y) + " az=" + dbits(alpha_z);
  double mx = std::pow((1ull << 62) * alpha_y, 3.0 / 2.0);
  if (!fits_i128(mx)) return out + " maxx=UB";
  int128_t limit = get_max_x(alpha_y);
  bool ok = !wide || x <= limit;
  out += " maxx=" + i128s(limit) + " ok=" + (ok ? "1" : "0");
  if (!ok) return out;
  int64_t x13 = iroot<3>(x);
  int64_t sqrtx = (int64_t) isqrt(x);
  out += " x13=" + i128s(x13) + " sqrtx=" + i128s(sqrtx);
  double pv = x13 * alpha_y;
  out += " v=" + cast_i64(pv);
  if (!fits_i64(pv)) return out;
  int64_t y = (int64_t) pv;
  y = std::max(y, x13 + 1);
  y = std::min(y, sqrtx - 1);
  y = std::max(y, (int64_t) 1);
  int64_t k = PhiTiny::get_k(x);
  out += " y=" + i128s(y) + " k=" + i128s(k);
  double pw = y * alpha_z;
  out += " w=" + cast_i64(pw);
  if (!fits_i64(pw)) return out;
  int64_t z = (int64_t) pw;
  z = std::max(z, y);
  z = std::min(z, sqrtx - 1);
  z = std::max(z, (int64_t) 1);
  int64_t xs = get_x_star_gourdon(x, y);
  int128_t xy = x / y, xz = x / z;   // the callees narrow these to int64_t
  out += " z=" + i128s(z) + " xstar=" + i128s(xs) + " xy=" + i128s(xy) + " xz=" + i128s(xz);
  out += " sqrtz=" + i128s(isqrt(z)) + " sqrtxy=" + i128s((int64_t) isqrt(x / y));
  int128_t map_ = (int128_t) isqrt(x / xs);
  out += " maxaprime=" + i128s(map_);
  bool ft16 = wide ? (z <= FactorTableD<uint16_t>::max()) : true;
  bool ftok = wide ? true : (z <= FactorTableD<uint16_t>::max());
  int64_t max_prime = std::max((int64_t) map_, y);
  out += std::string(" ft16=") + (ft16 ? "1" : "0") + " ftok=" + (ftok ? "1" : "0") +
         " prim32=" + (max_prime <= (int64_t) UINT32_MAX ? "1" : "0");
  // thread counts of D_OpenMP / AC_OpenMP (xz as int64_t)
  if (xz > (int128_t) INT64_MAX) return out + " mt=UB";
  double mt = std::pow((int64_t) xz, 1 / 3.7);
  out += " mt=" + cast_int(mt);
  if (!fits_int(mt)) return out;
  int t1 = std::min(threads, (int) mt);
  out += " thrD=" + i128s(ideal_num_threads((int64_t) xz, t1, 1 << 20));
  out += " thrAC=" + i128s(ideal_num_threads(x13, t1, 1000));
  return out;
}

PCV_OP(gparams)
{
  AlphaGuardP g;
  bool wide = a.at(0) == "128";
  int128_t x = parse_i128(a.at(1));
  apply_alpha_p(a.at(2), set_alpha_y);
  apply_alpha_p(a.at(3), set_alpha_z);
  int threads = (int) parse_i64(a.at(4));
  if (x < 2) return "NOPRINT";
  if (!wide && x > (int128_t) INT64_MAX) return "ERR:domain";
  return wide ? gparams_t<int128_t>(x, true, threads) : gparams_t<int64_t>((int64_t) x, false, threads);
}

template <typename T>
static std::string dparams_t(T x, bool wide, int threads)
{
  double alpha = get_alpha_deleglise_rivat(x);
  std::string out = "a=" + dbits(alpha);
  double mx = std::pow((1ull << 62) * alpha, 3.0 / 2.0);
  if (!fits_i128(mx)) return out + " maxx=UB";
  int128_t limit = get_max_x(alpha);
  bool ok = !wide || x <= limit;
  out += " maxx=" + i128s(limit) + " ok=" + (ok ? "1" : "0");
  if (!ok) return out;
  int64_t x13 = iroot<3>(x);
  double pv = x13 * alpha;
  out += " x13=" + i128s(x13) + " v=" + cast_i64(pv);
  if (!fits_i64(pv)) return out;
  int64_t y = (int64_t) pv;
  if (y == 0) return out + " y=0 z=DIV0";
  int128_t zz = x / y;   // narrowed to int64_t by the 128-bit entry point
  out += " y=" + i128s(y) + " z=" + i128s(zz) + " c=" + i128s(PhiTiny::get_c(y));
  if (zz > (int128_t) INT64_MAX) return out;
  int64_t z = (int64_t) zz;
  out += " sqrtz=" + i128s(isqrt(z));
  bool ft16 = wide ? (y <= FactorTable<uint16_t>::max()) : true;
  bool ftok = wide ? true : (y <= FactorTable<uint16_t>::max());
  out += std::string(" ft16=") + (ft16 ? "1" : "0") + " ftok=" + (ftok ? "1" : "0");
  double mt = std::pow(z, 1 / 3.7);
  out += " mt=" + cast_int(mt);
  if (!fits_int(mt)) return out;
  int t1 = std::min(threads, (int) mt);
  out += " thr=" + i128s(ideal_num_threads(z, t1, 1 << 20));
  return out;
}

PCV_OP(dparams)
{
  AlphaGuardP g;
  bool wide = a.at(0) == "128";
  int128_t x = parse_i128(a.at(1));
  apply_alpha_p(a.at(2), set_alpha);
  int threads = (int) parse_i64(a.at(3));
  if (x < 2) return "NOPRINT";
  if (!wide && x > (int128_t) INT64_MAX) return "ERR:domain";
  return wide ? dparams_t<int128_t>(x, true, threads) : dparams_t<int64_t>((int64_t) x, false, threads);
}

PCV_OP(lparams)
{
  AlphaGuardP g;
  int64_t x = parse_i64(a.at(0));
  apply_alpha_p(a.at(1), set_alpha);
  if (x < 2) return "NOPRINT";
  double alpha = get_alpha_lmo(x);
  int64_t x13 = iroot<3>(x);
  double pv = x13 * alpha;
  std::string out = "a=" + dbits(alpha) + " x13=" + i128s(x13) + " v=" + cast_i64(pv);
  if (!fits_i64(pv)) return out;
  int64_t y = (int64_t) pv;
  if (y == 0) return out + " y=0 z=DIV0";
  return out + " y=" + i128s(y) + " z=" + i128s(x / y) + " c=" + i128s(PhiTiny::get_c(y));
}

PCV_OP(alphas)
{
  AlphaGuardP g;
  int128_t x = parse_i128(a.at(0));
  apply_alpha_p(a.at(1), set_alpha);
  apply_alpha_p(a.at(2), set_alpha_y);
  apply_alpha_p(a.at(3), set_alpha_z);
  auto gd = get_alpha_gourdon(x);
  return dbits(get_alpha_lmo(x)) + " " + dbits(get_alpha_deleglise_rivat(x)) + " " + dbits(gd.first) + " " + dbits(gd.second);
}

PCV_OP(maxx_bits)
{
  double al = dfrom(a.at(0));
  double mx = std::pow((1ull << 62) * al, 3.0 / 2.0);
  if (!fits_i128(mx)) return "UB";
  return i128s(get_max_x(al));
}

PCV_OP(setalpha)
{
  AlphaGuardP g;
  double d = dfrom(a.at(0));
  // every double is an input the public API accepts: the call is ALWAYS made (the sanitizer build reports a cast
  // that leaves int64_t; the release build shows what the override became). Optional 2nd arg: 0 = set_alpha,
  // 1 = set_alpha_y, 2 = set_alpha_z.
  int which = a.size() > 1 ? (int) parse_i64(a.at(1)) : 0;
  int128_t x = 1;
  for (int i = 0; i < 36; i++) x *= 10;
  if (which == 0) { set_alpha(d); return dbits(get_alpha_lmo(x)); }
  if (which == 1) { set_alpha_y(d); return dbits(get_alpha_gourdon(x).first); }
  set_alpha_z(d);
  return dbits(get_alpha_gourdon(x).second);
}

PCV_OP(fdiv)
{
  uint128_t x = parse_u128(a.at(0));
  uint64_t d = parse_u64(a.at(1));
  if (d == 0) return "ERR:div0";
  return u128s(fast_div(x, d));
}

// fast_div64 in a child: the `div` instruction raises #DE (SIGFPE) when the quotient does not fit 64 bits
PCV_OP(fdiv64)
{
  uint128_t x = parse_u128(a.at(0));
  uint64_t d = parse_u64(a.at(1));
  std::cout.flush();
  std::fflush(stdout);
  int fds[2];
  if (pipe(fds) != 0) throw std::runtime_error("harness: pipe");
  pid_t pid = fork();
  if (pid < 0) throw std::runtime_error("harness: fork");
  if (pid == 0) {
    close(fds[0]);
    struct rlimit nocore = {0, 0};
    setrlimit(RLIMIT_CORE, &nocore);
    std::signal(SIGFPE, SIG_DFL);
    volatile uint64_t dd = d;
    uint64_t q = fast_div64(x, (uint64_t) dd);
    ssize_t w = write(fds[1], &q, sizeof q);
    (void) w;
    _exit(0);
  }
  close(fds[1]);
  uint64_t q = 0;
  ssize_t n = read(fds[0], &q, sizeof q);
  close(fds[0]);
  int st = 0;
  waitpid(pid, &st, 0);
  if (WIFSIGNALED(st)) return WTERMSIG(st) == SIGFPE ? "TRAP" : "CRASH:" + std::to_string(WTERMSIG(st));
  if (n != (ssize_t) sizeof q) return "CRASH:short";
  return u128s(q);
}
