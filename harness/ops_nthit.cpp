// C06 (WP nth): the quantities nth_prime derives on its way (RiemannR_inverse, pi, ilog) next to its result, a search for
// n whose approximation is itself a prime, and the command line glue with arbitrary expressions.
#include "common.hpp"
#include <primecount.hpp>
#include <primecount-internal.hpp>
#include <imath.hpp>
#include <cstdio>
#include <cstring>
#include <cctype>
#include <sys/wait.h>
#include <unistd.h>

using namespace pcv;

namespace {

bool is_prime_td(int64_t x)
{
  if (x < 2) return false;
  if (x % 2 == 0) return x == 2;
  for (int64_t d = 3; d * d <= x; d += 2)
    if (x % d == 0) return false;
  return true;
}

} // namespace

// `nth_parts n` -> "q approx capprox lg": q = nth_prime(n) and what nth_prime.cpp:104-106 computes for this n
// (the same three calls; for n <= 3314 they are not used by nth_prime but reported all the same)
PCV_OP(nth_parts)
{
  int64_t n = parse_i64(a.at(0));
  int64_t q = primecount::nth_prime(n);
  int64_t approx = primecount::RiemannR_inverse(n);
  int64_t capprox = primecount::pi(approx);
  int64_t lg = ilog(approx);
  return i128s(q) + " " + i128s(approx) + " " + i128s(capprox) + " " + i128s(lg);
}

// `nth_from n approx capprox lg` -> nth_prime(n) (the three further arguments are what the MODEL op of the same name starts its walk
// from; the real function derives them itself)
PCV_OP(nth_from) { return i128s(primecount::nth_prime(parse_i64(a.at(0)))); }

// `nth_papprox n0 k` -> the first k values n >= n0 for which RiemannR_inverse(n) is a prime (trial division), each as
// "n,q,pi(q),approx,pi(approx),ilog(approx)" with q = nth_prime(n); at most 4000 candidates are scanned
PCV_OP(nth_papprox)
{
  int64_t n0 = parse_i64(a.at(0));
  int64_t k = parse_i64(a.at(1));
  std::string out;
  int64_t found = 0;
  for (int64_t n = n0; n < n0 + 4000 && found < k; n++)
  {
    int64_t approx = primecount::RiemannR_inverse(n);
    if (!is_prime_td(approx)) continue;
    int64_t q = primecount::nth_prime(n);
    if (found) out += " ";
    out += i128s(n) + "," + i128s(q) + "," + i128s(primecount::pi(q)) + "," + i128s(approx) + "," +
           i128s(primecount::pi(approx)) + "," + i128s((int64_t) ilog(approx));
    found++;
  }
  return out.empty() ? "-" : out;
}

// `cli_nth_expr <hex>` -> `primecount '<expr>' --nth-prime` of the same build: "0:<stdout>" | "nz:<stdout>"
PCV_OP(cli_nth_expr)
{
  std::string expr = unhex(a.at(0));
  for (char c : expr)
    if (!(isalnum((unsigned char) c) || strchr("+-*/%^()<> .eE", c))) return "ERR:proto";
  char self[4096];
  ssize_t len = readlink("/proc/self/exe", self, sizeof(self) - 1);
  if (len <= 0) return "ERR:proto";
  self[len] = 0;
  std::string dir(self);
  dir = dir.substr(0, dir.rfind('/'));
  std::string cmd = "'" + dir + "/primecount' '" + expr + "' --nth-prime 2>/dev/null";
  FILE* f = popen(cmd.c_str(), "r");
  if (!f) return "ERR:proto";
  std::string out;
  char buf[256];
  while (fgets(buf, sizeof(buf), f)) out += buf;
  int st = pclose(f);
  std::string clean;
  for (char c : out) if (c != '\n' && c != '\r' && c != ' ') clean += c;
  bool ok = WIFEXITED(st) && WEXITSTATUS(st) == 0;
  return std::string(ok ? "0:" : "nz:") + clean;
}
