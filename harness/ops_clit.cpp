// clit <timeout_s> <exe> <args...>: run the real command line with a time limit; "rc=<status> res=<last number printed>"
// (the value after " = " of the last non-empty line that is not "Seconds: ..."; negative values allowed: D, Sigma).
#include "common.hpp"
#include <cstdio>
#include <string>
#include <vector>

using namespace pcv;

namespace {
std::string quote(const std::string& s)
{
  std::string q = "'";
  for (char c : s) { if (c == '\'') q += "'\\''"; else q += c; }
  return q + "'";
}
} // namespace

PCV_OP(clit)
{
  std::string cmd = "timeout " + quote(a.at(0));
  for (size_t i = 1; i < a.size(); i++) cmd += " " + quote(a[i]);
  cmd += " 2>/dev/null";
  FILE* f = popen(cmd.c_str(), "r");
  if (!f) return "ERR:popen";
  std::string out;
  char buf[4096];
  size_t n;
  while ((n = fread(buf, 1, sizeof buf, f)) > 0) out.append(buf, n);
  int st = pclose(f);
  int rc = (st >= 0 && (st & 0x7f) == 0) ? ((st >> 8) & 0xff) : 255;
  std::vector<std::string> lines;
  std::string cur;
  for (char c : out) { if (c == '\n' || c == '\r') { lines.push_back(cur); cur.clear(); } else cur += c; }
  lines.push_back(cur);
  std::string last;
  for (std::string l : lines) {
    while (!l.empty() && l.back() == ' ') l.pop_back();
    if (l.empty() || l.compare(0, 8, "Seconds:") == 0) continue;
    last = l;
  }
  size_t eq = last.rfind(" = ");
  std::string num = (eq == std::string::npos) ? last : last.substr(eq + 3);
  bool ok = !num.empty();
  for (size_t i = 0; i < num.size(); i++)
    if (!((num[i] >= '0' && num[i] <= '9') || (i == 0 && num[i] == '-' && num.size() > 1))) ok = false;
  return "rc=" + std::to_string(rc) + " res=" + (ok && rc == 0 ? num : std::string("none"));
}
