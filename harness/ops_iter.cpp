// C18 (WP iter): the iterator / API layer of the bundled primesieve on the REAL code.
//
//   it <v|w> <start> <hint> <script…>      script tokens: n | p | g | G | n*K | p*K | j:<start>:<hint> | c
//        a primesieve::iterator(start, hint) driven through next_prime / prev_prime / generate_next_primes /
//        generate_prev_primes / jump_to / clear; one output token per op (the returned prime,
//        g:<size_>:<primes_[0]>:<primes_[size_-1]>, G:…, j, c); a primesieve_error ends the history with ERR:ps.
//        After " | ": the size_ of every non-empty batch generate_next_primes produced (the model cannot predict the
//        batching of the sieving core; it takes these as an admissible choice).
//        Mode w appends @i_/size_/start_/stop/dist/include_start_number/hasGenerator (IteratorData through memory_).
//   pscount <a> <b> <threads>              primesieve::count_primes with set_num_threads(threads)
//   psintervals <a> <b> <threads>          the [start, stop] intervals of ParallelSieve::sieve(), computed with the REAL
//                                          idealNumThreads / getThreadDistance / align (private: `#define private public`)
//   psgen <u64|i64|u32|i32> <a> <b>        primesieve::generate_primes(a, b, &vector<T>)  -> count first last sum
//   psgenn <type> <n> <start> [hint]       primesieve::generate_n_primes(n, start, &vector<T>)
//   psnth <n> <start>                      primesieve::nth_prime(n, start) -> "<prime> <primePiApprox(start)> <nthPrimeApprox(nApprox)>"
//   (pcgen / pcgenn: harness/ops_iter_pc.cpp — primecount's Vector.hpp and primesieve/Vector.hpp share an include guard)
#include "common.hpp"

#include <primesieve.hpp>
#include <primesieve/iterator.hpp>
#include <primesieve/IteratorHelper.hpp>
#include <primesieve/RiemannR.hpp>
#include <primesieve/primesieve_error.hpp>
#include <primesieve/pmath.hpp>

#include <algorithm>
#include <atomic>
#include <cmath>
#include <future>
#include <mutex>
#include <string>
#include <vector>
#include <stdint.h>

#define private public
#include <primesieve/ParallelSieve.hpp>
#undef private

using namespace pcv;

namespace {

std::string u64s(uint64_t v) { return u128s((uint128_t) v); }

std::string stateSuffix(const primesieve::iterator& it)
{
  uint64_t stop = it.start_, dist = 0;
  int incl = 1, gen = 0;
  if (it.memory_)
  {
    auto& d = *(primesieve::IteratorData*) it.memory_;
    stop = d.stop; dist = d.dist; incl = d.include_start_number ? 1 : 0; gen = d.primeGenerator ? 1 : 0;
  }
  return "@" + u64s(it.i_) + "/" + u64s(it.size_) + "/" + u64s(it.start_) + "/" + u64s(stop) + "/" + u64s(dist) + "/" +
         std::to_string(incl) + "/" + std::to_string(gen);
}

std::vector<std::string> expand(const Args& a, size_t from)
{
  std::vector<std::string> out;
  for (size_t k = from; k < a.size(); k++)
  {
    const std::string& t = a[k];
    size_t star = t.find('*');
    if (star != std::string::npos)
    {
      uint64_t n = parse_u64(t.substr(star + 1));
      for (uint64_t j = 0; j < n; j++) out.push_back(t.substr(0, star));
    }
    else
      out.push_back(t);
  }
  return out;
}

template <typename T>
std::string summary(const std::vector<T>& v)
{
  uint64_t sum = 0;
  for (auto x : v) sum += (uint64_t) x;
  uint64_t first = v.empty() ? 0 : (uint64_t) v.front();
  uint64_t last = v.empty() ? 0 : (uint64_t) v.back();
  return u64s(v.size()) + " " + u64s(first) + " " + u64s(last) + " " + u64s(sum);
}

template <typename T>
std::string genOp(uint64_t a, uint64_t b)
{
  std::vector<T> v;
  try { primesieve::generate_primes(a, b, &v); }
  catch (const primesieve::primesieve_error&) { return "ERR:ps"; }
  return summary(v);
}

template <typename T>
std::string gennOp(uint64_t n, uint64_t start)
{
  std::vector<T> v;
  try { primesieve::generate_n_primes(n, start, &v); }
  catch (const primesieve::primesieve_error&) { return "ERR:ps"; }
  return summary(v);
}

} // namespace

PCV_OP(it)
{
  bool w = a.at(0) == "w";
  uint64_t start = parse_u64(a.at(1)), hint = parse_u64(a.at(2));
  primesieve::iterator it(start, hint);
  std::string out, sizes;
  auto emit = [&](const std::string& tok) {
    if (!out.empty()) out += " ";
    out += tok;
    if (w) out += stateSuffix(it);
  };
  auto batch = [&]() { if (!sizes.empty()) sizes += " "; sizes += u64s(it.size_); };
  auto bufsum = [&](const char* tag) {
    return std::string(tag) + ":" + u64s(it.size_) + ":" + u64s(it.size_ ? it.primes_[0] : 0) + ":" +
           u64s(it.size_ ? it.primes_[it.size_ - 1] : 0);
  };
  try
  {
    for (const std::string& t : expand(a, 3))
    {
      if (t == "n")
      {
        uint64_t p = it.next_prime();
        if (it.i_ == 0) batch();          // i_ += 1 makes i_ >= 1 unless generate_next_primes() ran
        emit(u64s(p));
      }
      else if (t == "p") emit(u64s(it.prev_prime()));
      else if (t == "g") { it.generate_next_primes(); batch(); emit(bufsum("g")); }
      else if (t == "G") { it.generate_prev_primes(); emit(bufsum("G")); }
      else if (t == "c") { it.clear(); emit("c"); }
      else if (t.size() > 2 && t[0] == 'j' && t[1] == ':')
      {
        size_t c2 = t.find(':', 2);
        if (c2 == std::string::npos) throw std::runtime_error("protocol: bad jump token");
        it.jump_to(parse_u64(t.substr(2, c2 - 2)), parse_u64(t.substr(c2 + 1)));
        emit("j");
      }
      else throw std::runtime_error("protocol: bad script token " + t);
    }
  }
  catch (const primesieve::primesieve_error&)
  {
    if (!out.empty()) out += " ";
    out += "ERR:ps";
  }
  return out + " | " + sizes;
}

PCV_OP(pscount)
{
  uint64_t x = parse_u64(a.at(0)), y = parse_u64(a.at(1));
  int threads = (int) parse_u64(a.at(2));
  int old = primesieve::get_num_threads();
  primesieve::set_num_threads(threads);
  uint64_t c = primesieve::count_primes(x, y);
  primesieve::set_num_threads(old);
  return u64s(c);
}

// the loop of ParallelSieve::sieve() (ParallelSieve.cpp:113-138) with the real member functions
PCV_OP(psintervals)
{
  uint64_t x = parse_u64(a.at(0)), y = parse_u64(a.at(1));
  int numThreads = (int) parse_u64(a.at(2));
  primesieve::ParallelSieve ps;
  ps.numThreads_ = numThreads;            // bypass the hardware_concurrency clamp of setNumThreads
  ps.setStart(x);
  ps.setStop(y);
  if (x > y) return "-";
  int threads = ps.idealNumThreads();
  if (threads == 1) return u64s(x) + ":" + u64s(y);
  uint64_t dist = ps.getDistance();
  uint64_t threadDist = ps.getThreadDistance(threads);
  uint64_t iters = ((dist - 1) / threadDist) + 1;
  // long lists: N=<iters> td=<threadDist>, then the first 6 and the last 6 intervals
  std::string out;
  if (iters > 400) out = "N=" + u64s(iters) + " td=" + u64s(threadDist);
  for (uint64_t i = 0; i < iters; i++)
  {
    if (iters > 400 && i >= 6 && i + 6 < iters) { i = iters - 7; continue; }
    uint64_t start = x + threadDist * i;
    uint64_t stop = checkedAdd(start, threadDist);
    stop = ps.align(stop);
    if (start > x) start = ps.align(start) + 1;
    if (!out.empty()) out += " ";
    out += u64s(start) + ":" + u64s(stop);
  }
  return out;
}

PCV_OP(psgen)
{
  uint64_t x = parse_u64(a.at(1)), y = parse_u64(a.at(2));
  if (a.at(0) == "u64") return genOp<uint64_t>(x, y);
  if (a.at(0) == "i64") return genOp<int64_t>(x, y);
  if (a.at(0) == "u32") return genOp<uint32_t>(x, y);
  if (a.at(0) == "i32") return genOp<int32_t>(x, y);
  return "ERR:proto";
}

PCV_OP(psgenn)
{
  uint64_t n = parse_u64(a.at(1)), start = parse_u64(a.at(2));
  if (a.at(0) == "u64") return gennOp<uint64_t>(n, start);
  if (a.at(0) == "i64") return gennOp<int64_t>(n, start);
  if (a.at(0) == "u32") return gennOp<uint32_t>(n, start);
  if (a.at(0) == "i32") return gennOp<int32_t>(n, start);
  return "ERR:proto";
}

// `psnth n start` -> "<nth_prime(n, start)> <primePiApprox(start)> <nthPrimeApprox(nApprox)>" (the two float-derived
// approximations nthPrime.cpp uses, recomputed with its own formulas, for the model's admissible-choice replay)
PCV_OP(psnth)
{
  int64_t n = parse_i64(a.at(0));
  uint64_t start = parse_u64(a.at(1));
  const uint64_t max_n = 425656284035217743ull;
  uint64_t pa = primesieve::primePiApprox(start);
  uint64_t nApprox;
  if (n >= 0) nApprox = std::min(checkedAdd(pa, (uint64_t) (n == 0 ? 1 : n)), max_n);
  else nApprox = std::min(checkedSub(pa, (uint64_t) (-n)), max_n);
  uint64_t na = primesieve::nthPrimeApprox(nApprox);
  std::string r;
  try { r = u64s(primesieve::nth_prime(n, start)); }
  catch (const primesieve::primesieve_error&) { r = "ERR:ps"; }
  return r + " " + u64s(pa) + " " + u64s(na);
}

