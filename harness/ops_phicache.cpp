// C07 (WP phicache): the REAL `class PhiCache` of src/phi.cpp (anonymous namespace), reached by compiling that source
// file into this translation unit.  The public function primecount::phi defined at the end of phi.cpp is renamed by a
// macro so that it does not clash with the library's; the access specifier `private` is lifted for the text of phi.cpp
// only (every header phi.cpp includes is included BEFORE, unmodified, so that include guards keep the macros away
// from them; no effect on layout).  A changed phi.cpp therefore changes both the library and these ops.
#include "common.hpp"

#include <primecount.hpp>
#include <primecount-internal.hpp>
#include <BitSieve240.hpp>
#include <generate_primes.hpp>
#include <fast_div.hpp>
#include <imath.hpp>
#include <macros.hpp>
#include <min.hpp>
#include <PhiTiny.hpp>
#include <PiTable.hpp>
#include <print.hpp>
#include <Vector.hpp>
#include <popcnt.hpp>

#include <stdint.h>
#include <algorithm>
#include <cmath>
#include <utility>
#include <string>
#include <vector>

#define phi phi_pcv_copy
#define private public
#include <phi.cpp>
#undef private
#undef phi

using namespace pcv;

namespace {

// the expression of phi.cpp:76, verbatim
uint64_t pow_est(uint64_t x) { return (uint64_t) std::pow(x, 1 / 2.3); }

const uint64_t FNV_OFFSET = 14695981039346656037ull;
const uint64_t FNV_PRIME = 1099511628211ull;
inline uint64_t fnv(uint64_t h, uint64_t v) { return (h ^ v) * FNV_PRIME; }

std::string hex64(uint64_t v)
{
  static const char* d = "0123456789abcdef";
  std::string s;
  for (int i = 60; i >= 0; i -= 4) s += d[(v >> i) & 15];
  return s;
}

bool init_ok(const PhiCache& c, uint64_t k)
{
  uint64_t mac = c.sieve_.empty() ? 3 : c.max_a_cached_;
  return k > PhiTiny::max_a() && k <= c.max_a_ && k > mac && k > c.max_a_cached_;
}

// "mac=<max_a_cached_>;n=<sieve_.size()>;<size_0>:<words_0>;<size_1>:<words_1>;..."
// full: words = "count.bitshex,count.bitshex,...", sum: words = "#<fnv1a-64 over count, bits of every word>"
std::string dump(const PhiCache& c, bool full)
{
  std::string out = "mac=" + u128s(c.max_a_cached_) + ";n=" + u128s(c.sieve_.size());
  for (std::size_t i = 0; i < c.sieve_.size(); i++)
  {
    const auto& row = c.sieve_[i];
    out += ";" + u128s(row.size()) + ":";
    if (full)
    {
      for (std::size_t j = 0; j < row.size(); j++)
      {
        if (j) out += ",";
        out += u128s(row[j].count) + "." + hex64(row[j].bits);
      }
    }
    else
    {
      uint64_t h = FNV_OFFSET;
      for (std::size_t j = 0; j < row.size(); j++)
      {
        h = fnv(h, row[j].count);
        h = fnv(h, row[j].bits);
      }
      out += "#" + hex64(h);
    }
  }
  return out;
}

uint64_t dump_hash(const PhiCache& c)
{
  uint64_t h = fnv(FNV_OFFSET, c.max_a_cached_);
  for (std::size_t i = 0; i < c.sieve_.size(); i++)
  {
    const auto& row = c.sieve_[i];
    h = fnv(h, row.size());
    for (std::size_t j = 0; j < row.size(); j++)
    {
      h = fnv(h, row[j].count);
      h = fnv(h, row[j].bits);
    }
  }
  return h;
}

} // namespace

// phicache_geom x a -> "E|max_x_,max_x_size_,max_a_,max_a_cached_,sieve_.size(),sizeof(sieve_t)"
// (the constructor only stores the references to primes / pi: a small PiTable is enough here)
PCV_OP(phicache_geom)
{
  int64_t x = parse_i64(a.at(0)), aa = parse_i64(a.at(1));
  if (x < 1 || aa < 1 || aa > 50000000) return "ERR:domain";
  auto primes = generate_n_primes<int32_t>(aa);
  PiTable pi(10, 1);
  PhiCache c(x, aa, primes, pi);
  return u128s(pow_est(x)) + "|" + u128s(c.max_x_) + "," + u128s(c.max_x_size_) + "," + u128s(c.max_a_) + "," +
         u128s(c.max_a_cached_) + "," + u128s(c.sieve_.size()) + "," + u128s(sizeof(PhiCache::sieve_t));
}

// phicache_dump x a mode k1 k2 ... -> "E|" + dump after init_cache(k1), init_cache(k2), ...   (mode = full | sum)
PCV_OP(phicache_dump)
{
  int64_t x = parse_i64(a.at(0)), aa = parse_i64(a.at(1));
  bool full = a.at(2) == "full";
  if (x < 1 || aa < 1 || aa > 50000000) return "ERR:domain";
  auto primes = generate_n_primes<int32_t>(aa);
  PiTable pi(isqrt(x), 1);
  PhiCache c(x, aa, primes, pi);
  for (std::size_t i = 3; i < a.size(); i++)
  {
    uint64_t k = parse_u64(a[i]);
    if (!init_ok(c, k)) return "ERR:domain";
    c.init_cache(k);
  }
  return u128s(pow_est(x)) + "|" + dump(c, full);
}

// phicache_lookup x a k lo hi mode -> after init_cache(k): phi_cache(y, b) for b = 9..k, y = lo..hi (hi <= max_x_)
//   list: "E|b=9:v,v,v;b=10:..."   sum: "E|b=9:#fnv;b=10:#fnv;..."
PCV_OP(phicache_lookup)
{
  int64_t x = parse_i64(a.at(0)), aa = parse_i64(a.at(1));
  uint64_t k = parse_u64(a.at(2)), lo = parse_u64(a.at(3)), hi = parse_u64(a.at(4));
  bool list = a.at(5) == "list";
  if (x < 1 || aa < 1 || aa > 50000000) return "ERR:domain";
  auto primes = generate_n_primes<int32_t>(aa);
  PiTable pi(isqrt(x), 1);
  PhiCache c(x, aa, primes, pi);
  if (!init_ok(c, k) || hi > c.max_x_ || lo > hi) return "ERR:domain";
  c.init_cache(k);
  std::string out = u128s(pow_est(x)) + "|";
  for (uint64_t b = 9; b <= k; b++)
  {
    if (b > 9) out += ";";
    out += "b=" + u128s(b) + ":";
    uint64_t h = FNV_OFFSET;
    for (uint64_t y = lo; y <= hi; y++)
    {
      if (!c.is_cached(y, b)) return "ERR:not-cached";
      uint64_t v = (uint64_t) c.phi_cache(y, b);
      if (list) { if (y > lo) out += ","; out += u128s(v); }
      else h = fnv(h, v);
    }
    if (!list) out += "#" + hex64(h);
  }
  return out;
}

// phicache_rec x a y1:b1:s1 y2:b2:s2 ... -> ONE cache object, calls cache.phi<s_j>(y_j, b_j) in sequence (s = + | -),
//   "E|v1:mac1,v2:mac2,...|#fnv(whole cache at the end)";  domain: 0 <= y, 0 <= b < a (is_pix reads primes_[b + 1])
PCV_OP(phicache_rec)
{
  int64_t x = parse_i64(a.at(0)), aa = parse_i64(a.at(1));
  if (x < 1 || aa < 1 || aa > 50000000) return "ERR:domain";
  struct Call { int64_t y, b; bool plus; };
  std::vector<Call> calls;
  for (std::size_t i = 2; i < a.size(); i++)
  {
    const std::string& s = a[i];
    std::size_t p1 = s.find(':'), p2 = s.rfind(':');
    if (p1 == std::string::npos || p2 == p1) return "ERR:proto";
    Call c { parse_i64(s.substr(0, p1)), parse_i64(s.substr(p1 + 1, p2 - p1 - 1)), s.substr(p2 + 1) == "+" };
    if (c.y < 0 || c.b < 0 || c.b >= aa) return "ERR:domain";
    calls.push_back(c);
  }
  auto primes = generate_n_primes<int32_t>(aa);
  PiTable pi(isqrt(x), 1);
  PhiCache c(x, aa, primes, pi);
  std::string out = u128s(pow_est(x)) + "|";
  for (std::size_t i = 0; i < calls.size(); i++)
  {
    int64_t v = calls[i].plus ? c.phi_pcv_copy<1>(calls[i].y, calls[i].b) : c.phi_pcv_copy<-1>(calls[i].y, calls[i].b);
    if (i) out += ",";
    out += i128s(v) + ":" + u128s(c.max_a_cached_);
  }
  return out + "|#" + hex64(dump_hash(c));
}

// phicache_main x a -> the single-thread main loop of phi_OpenMP (phi.cpp:378-400) on ONE cache object, indices increasing:
//   "E|sum|primecount::phi(x, a)";  domain: 8 < a <= pi(sqrt x)
PCV_OP(phicache_main)
{
  int64_t x = parse_i64(a.at(0)), aa = parse_i64(a.at(1));
  if (x < 1 || aa <= (int64_t) PhiTiny::max_a() || aa > 50000000) return "ERR:domain";
  int64_t sqrtx = isqrt(x);
  PiTable pi(sqrtx, 1);
  if (aa > pi[sqrtx]) return "ERR:domain";
  auto primes = generate_n_primes<int32_t>(aa);
  int64_t c = min((int64_t) PhiTiny::max_a(), aa);
  int64_t sum = phi_tiny(x, c);
  PhiCache cache(x, aa, primes, pi);
  for (int64_t i = c + 1; i <= aa; i++)
    sum += cache.phi_pcv_copy<-1>(x / primes[i], i - 1);
  int64_t lib = primecount::phi(x, aa);
  return u128s(pow_est(x)) + "|" + i128s(sum) + "|" + i128s(lib);
}
