// C07: the partial sieve function phi(x, a) on the real code: public API, internal entry with a thread
// count, C API, and the header-only phi_tiny (PhiTiny.hpp) for 64- and 128-bit x.
#include "common.hpp"
#include <primecount.hpp>
#include <primecount.h>
#include <primecount-internal.hpp>
#include <PhiTiny.hpp>

using namespace pcv;

// phi x a            -> primecount::phi(x, a)
PCV_OP(phi) { return i128s(primecount::phi(parse_i64(a.at(0)), parse_i64(a.at(1)))); }

// phi_t x a threads  -> primecount::phi(x, a, threads, is_print = false)
PCV_OP(phi_t)
{
  return i128s(primecount::phi(parse_i64(a.at(0)), parse_i64(a.at(1)), (int) parse_i64(a.at(2)), false));
}

// cphi x a           -> primecount_phi(x, a) (C API, -1 on error)
PCV_OP(cphi) { return i128s(primecount_phi(parse_i64(a.at(0)), parse_i64(a.at(1)))); }

// phi_batch threads x a1 a2 ...  -> "v1,v2,..." (threads = 0: public API; otherwise the internal entry)
PCV_OP(phi_batch)
{
  int threads = (int) parse_i64(a.at(0));
  int64_t x = parse_i64(a.at(1));
  std::string out;
  for (size_t i = 2; i < a.size(); i++)
  {
    int64_t v = (threads == 0) ? primecount::phi(x, parse_i64(a[i]))
                               : primecount::phi(x, parse_i64(a[i]), threads, false);
    if (i > 2) out += ",";
    out += i128s(v);
  }
  return out;
}

// phitiny ty x a     -> phi_tiny((T) x, a) with T = i64 | u64 | i128 | u128, a <= 8
PCV_OP(phitiny)
{
  const std::string& ty = a.at(0);
  uint64_t aa = parse_u64(a.at(2));
  if (aa > primecount::PhiTiny::max_a()) return "ERR:domain";
  if (ty == "i64")  return i128s(primecount::phi_tiny(parse_i64(a.at(1)), aa));
  if (ty == "u64")  return u128s(primecount::phi_tiny(parse_u64(a.at(1)), aa));
  if (ty == "i128") return i128s(primecount::phi_tiny(parse_i128(a.at(1)), aa));
  if (ty == "u128") return u128s(primecount::phi_tiny(parse_u128(a.at(1)), aa));
  return "ERR:proto";
}

// phi3 threads x a q -> "phi(x,a),phi(x,a-1),phi(x/q,a-1)"  (q is claimed to be the a-th prime; the model checks it)
PCV_OP(phi3)
{
  int threads = (int) parse_i64(a.at(0));
  int64_t x = parse_i64(a.at(1)), aa = parse_i64(a.at(2)), q = parse_i64(a.at(3));
  if (q <= 0 || aa < 1) return "ERR:domain";
  auto f = [&](int64_t xx, int64_t k) {
    return threads == 0 ? primecount::phi(xx, k) : primecount::phi(xx, k, threads, false);
  };
  return i128s(f(x, aa)) + "," + i128s(f(x, aa - 1)) + "," + i128s(f(x / q, aa - 1));
}

// phi_pix x a        -> "phi(x,a),pi(x)"   (closed form phi = pi(x) - a + 1 for a >= pi(sqrt x))
PCV_OP(phi_pix)
{
  int64_t x = parse_i64(a.at(0)), aa = parse_i64(a.at(1));
  return i128s(primecount::phi(x, aa)) + "," + i128s(primecount::pi(x));
}

// get_c y -> PhiTiny::get_c(y);  get_k ty x -> PhiTiny::get_k(x)
PCV_OP(phitiny_get_c) { return u128s(primecount::PhiTiny::get_c(parse_u64(a.at(0)))); }
PCV_OP(phitiny_get_k)
{
  const std::string& ty = a.at(0);
  if (ty == "i64")  return u128s(primecount::PhiTiny::get_k(parse_i64(a.at(1))));
  if (ty == "i128") return u128s(primecount::PhiTiny::get_k(parse_i128(a.at(1))));
  return "ERR:proto";
}
