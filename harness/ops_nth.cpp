// C06: nth_prime on the real code (C++ API, C API) plus consistency ops for large n.
#include "common.hpp"
#include <primecount.hpp>
#include <primecount.h>
#include <primecount-internal.hpp>
#include <primesieve.hpp>

using namespace pcv;

// `nth n` -> primecount::nth_prime(n)   (primecount_error -> "ERR:pc" by main.cpp)
PCV_OP(nth)  { return i128s(primecount::nth_prime(parse_i64(a.at(0)))); }

// `cnth n` -> primecount_nth_prime(n) of the C API (-1 on error)
PCV_OP(cnth) { return i128s(primecount_nth_prime(parse_i64(a.at(0)))); }

// `nth_batch n1 n2 ...` -> comma separated nth_prime(n_i); an error of one element is "ERR:pc" in its slot
PCV_OP(nth_batch)
{
  std::string out;
  for (size_t i = 0; i < a.size(); i++)
  {
    if (i) out += ",";
    try { out += i128s(primecount::nth_prime(parse_i64(a[i]))); }
    catch (const primecount::primecount_error&) { out += "ERR:pc"; }
  }
  return out.empty() ? "-" : out;
}

// `nth_chk n` -> "q,pi(q),pi(q-1),approx,pi(approx)" with q = nth_prime(n), approx = RiemannR_inverse(n)
// (approx and pi(approx) are what nth_prime itself computes for n > 3314: they tell which walk was taken)
PCV_OP(nth_chk)
{
  int64_t n = parse_i64(a.at(0));
  int64_t q = primecount::nth_prime(n);
  int64_t approx = primecount::RiemannR_inverse(n);
  return i128s(q) + "," + i128s(primecount::pi(q)) + "," + i128s(primecount::pi(q - 1)) + "," +
         i128s(approx) + "," + i128s(primecount::pi(approx));
}

// `nth_ps n` -> "q,count" with count = primesieve::count_primes(0, q): a count that does not use primecount::pi
PCV_OP(nth_ps)
{
  int64_t n = parse_i64(a.at(0));
  int64_t q = primecount::nth_prime(n);
  if (q < 0) return i128s(q) + ",-1";
  return i128s(q) + "," + u128s(primesieve::count_primes(0, (uint64_t) q));
}

// `cli_nth n` -> runs the command line program built from the same tree (next to this executable):
// `primecount <n> --nth-prime`; prints "0:<stdout>" for exit status 0 and "nz:<stdout>" otherwise
// (a negative n is written `0-<|n|>` so that it reaches nth_prime instead of the option parser).
#include <cstdio>
#include <sys/wait.h>
#include <unistd.h>
PCV_OP(cli_nth)
{
  int64_t n = parse_i64(a.at(0));          // validates the argument: digits and an optional sign only
  std::string arg = (n < 0) ? "0" + i128s(n) : i128s(n);
  char self[4096];
  ssize_t len = readlink("/proc/self/exe", self, sizeof(self) - 1);
  if (len <= 0) return "ERR:proto";
  self[len] = 0;
  std::string dir(self);
  dir = dir.substr(0, dir.rfind('/'));
  std::string cmd = "'" + dir + "/primecount' " + arg + " --nth-prime 2>/dev/null";
  FILE* f = popen(cmd.c_str(), "r");
  if (!f) return "ERR:proto";
  std::string out;
  char buf[256];
  while (fgets(buf, sizeof(buf), f)) out += buf;
  int st = pclose(f);
  std::string clean;
  for (char c : out) if (c != '\n' && c != '\r' && c != ' ') clean += c;
  bool ok = WIFEXITED(st) && WEXITSTATUS(st) == 0;
  return std::string(ok ? "0:" : "nz:") + clean;
}
