// WP lmo (C02): the simple algorithms, answered on the model side by the L2 control-flow models of
// lean/PcModel/SimpleAlgs.lean (mirror ops, not the sieve oracle).
#include "common.hpp"
#include <primecount.hpp>
#include <primecount-internal.hpp>
#include <imath.hpp>

using namespace pcv;
using namespace primecount;

namespace {

struct AlphaGuard2 {
  ~AlphaGuard2() { set_alpha(-1); }
};

std::string run_fixed(const std::string& name, int64_t x)
{
  if (name == "legendre") return i128s(pi_legendre(x, 1, false));
  if (name == "meissel")  return i128s(pi_meissel(x, 1, false));
  if (name == "lehmer")   return i128s(pi_lehmer(x, 1, false));
  if (name == "lmo1")     return i128s(pi_lmo1(x));
  return "ERR:proto";
}

std::string run_lmo(const std::string& name, int64_t x)
{
  if (name == "lmo2") return i128s(pi_lmo2(x));
  if (name == "lmo3") return i128s(pi_lmo3(x));
  if (name == "lmo4") return i128s(pi_lmo4(x));
  return "ERR:proto";
}

} // namespace

// l2alg <name> <x>
PCV_OP(l2alg) { return run_fixed(a.at(0), parse_i64(a.at(1))); }

// l2range <name> <lo> <hi>
PCV_OP(l2range)
{
  int64_t lo = parse_i64(a.at(1)), hi = parse_i64(a.at(2));
  std::string out;
  for (int64_t x = lo; x <= hi; x++) {
    if (!out.empty()) out += ' ';
    out += run_fixed(a.at(0), x);
  }
  return out;
}

// l2lmo <name> <alpha_milli> <lo> <hi>  ->  "y:value" for every x in [lo, hi], where
// y = (int64_t)(iroot<3>(x) * get_alpha_lmo(x)) is the float product the algorithm derives its parameters from
// (alpha_milli = -1: default alpha)
PCV_OP(l2lmo)
{
  AlphaGuard2 g;
  int64_t m = parse_i64(a.at(1));
  if (m < 0) set_alpha(-1); else set_alpha((double) m / 1000.0);
  int64_t lo = parse_i64(a.at(2)), hi = parse_i64(a.at(3));
  std::string out;
  for (int64_t x = lo; x <= hi; x++) {
    if (!out.empty()) out += ' ';
    int64_t y = 0;
    if (x >= 2) {
      double alpha = get_alpha_lmo(x);
      int64_t x13 = iroot<3>(x);
      y = (int64_t)(x13 * alpha);
    }
    out += i128s(y) + ":" + run_lmo(a.at(0), x);
  }
  return out;
}

// l2P3 <x> <y> <a> <threads>
PCV_OP(l2P3)
{
  return i128s(P3(parse_i64(a.at(0)), parse_i64(a.at(1)), parse_i64(a.at(2)), (int) parse_i64(a.at(3)), false));
}

// implemented in ops_lmo2/3/4.cpp (each includes one src/lmo/pi_lmoN.cpp to reach its file-local S2)
std::string pcv_lmo2_S2(int64_t x, int64_t y, int64_t c);
std::string pcv_lmo3_S2(int64_t x, int64_t y, int64_t c);
std::string pcv_lmo4_S2(int64_t x, int64_t y, int64_t c);

// l2S2 <2|3|4> <x> <y> <c>
PCV_OP(l2S2)
{
  int64_t x = parse_i64(a.at(1)), y = parse_i64(a.at(2)), c = parse_i64(a.at(3));
  if (a.at(0) == "2") return pcv_lmo2_S2(x, y, c);
  if (a.at(0) == "3") return pcv_lmo3_S2(x, y, c);
  if (a.at(0) == "4") return pcv_lmo4_S2(x, y, c);
  return "ERR:proto";
}
