// C08 / C02 / C03 / C11 (wp-easy): the FILE-LOCAL functions of src/gourdon/AC.cpp on the REAL code (AC_libdivide.cpp: see
// ops_easyac_ld.cpp; two translation units because gourdon.hpp has no include guard and carries default arguments).
// AC.cpp is compiled into THIS translation unit with its public entry point renamed (AC -> AC_pcv_plain), so the op `AC` of
// ops_alg.cpp keeps calling the LIBRARY's function.
//
//   ac_a_p  <64|128> x y z b low high   A(x, xlow, xhigh, y, b, primes, pi, segmentedPi) for the segment [low, high)
//   ac_c2_p <64|128> x y z b low high   C2(...)
//   ac_c1   <64|128> x y z b mu i m minM maxM   C1<mu>(x / primes[b], b, i, pi[y], m, minM, maxM, primes, pi)
//   AC_plain <64|128> x y z k threads   AC.cpp's AC(x, y, z, k, threads, false)
// with primes = generate_primes(max(isqrt(x / x_star), y)), PiTable pi(max(z, isqrt(x / x_star))), segmentedPi.init(low, high),
// xlow = x / max(low, 1), xhigh = x / high exactly as AC_OpenMP derives them.
// Domain (checked here): 1 <= y, 1 <= z, low % 240 == 0, low < high, 1 <= b < primes.size().  The streams only send
// arguments for which every table read of the real code is in bounds (the model's traps say where that is not the case).
#include "common.hpp"
#include <primecount.hpp>
#include <primecount-internal.hpp>
#include <PiTable.hpp>
#include <SegmentedPiTable.hpp>
#include <generate_primes.hpp>
#include <imath.hpp>
#include <int128_t.hpp>
#include <min.hpp>
#include <Vector.hpp>
#include <print.hpp>

#define AC AC_pcv_plain
#include <gourdon/AC.cpp>
#undef AC

using namespace pcv;

namespace {

template <typename T>
std::string run_plain(const std::string& what, T x, int64_t y, int64_t z, uint64_t b, int64_t low, int64_t high)
{
  int64_t x_star = get_x_star_gourdon((maxint_t) x, y);
  int64_t max_a_prime = (int64_t) isqrt(x / x_star);
  auto primes = generate_primes<uint32_t>(max(max_a_prime, y));
  if (b < 1 || b >= primes.size()) return "ERR:domain";
  PiTable pi(max(z, max_a_prime), 1);
  SegmentedPiTable segmentedPi;
  segmentedPi.init(low, high);
  T xlow = x / max(low, 1);
  T xhigh = x / high;
  T r = (what == "a") ? A(x, xlow, xhigh, (uint64_t) y, b, primes, pi, segmentedPi)
                      : C2(x, xlow, xhigh, (uint64_t) y, b, primes, pi, segmentedPi);
  if (sizeof(T) == 8) return i128s((int64_t) r);
  return i128s((int128_t) r);
}

std::string seg_op(const std::string& what, const Args& a)
{
  int64_t y = parse_i64(a.at(2)), z = parse_i64(a.at(3));
  uint64_t b = parse_u64(a.at(4));
  int64_t low = parse_i64(a.at(5)), high = parse_i64(a.at(6));
  if (y < 1 || z < 1 || low < 0 || low % 240 != 0 || high <= low) return "ERR:domain";
  if (a.at(0) == "128") {
    int128_t x = parse_i128(a.at(1));
    if (x < 0) return "ERR:domain";
    return run_plain<uint128_t>(what, (uint128_t) x, y, z, b, low, high);
  }
  int64_t x = parse_i64(a.at(1));
  if (x < 0) return "ERR:domain";
  return run_plain<uint64_t>(what, (uint64_t) x, y, z, b, low, high);
}

template <typename T>
std::string run_c1(T x, int64_t y, int64_t z, uint64_t b, int mu, uint64_t i, uint64_t m, uint64_t min_m, uint64_t max_m)
{
  int64_t x_star = get_x_star_gourdon((maxint_t) x, y);
  int64_t max_a_prime = (int64_t) isqrt(x / x_star);
  auto primes = generate_primes<uint32_t>(max(max_a_prime, y));
  if (b < 1 || b >= primes.size()) return "ERR:domain";
  PiTable pi(max(z, max_a_prime), 1);
  uint64_t pi_y = pi[y];
  T xp = x / primes[b];
  T r = (mu == 1) ? C1<1>(xp, b, i, pi_y, m, min_m, max_m, primes, pi)
                  : C1<-1>(xp, b, i, pi_y, m, min_m, max_m, primes, pi);
  if (sizeof(T) == 8) return i128s((int64_t) r);
  return i128s((int128_t) r);
}

} // namespace

PCV_OP(ac_a_p) { return seg_op("a", a); }
PCV_OP(ac_c2_p) { return seg_op("c2", a); }

PCV_OP(ac_c1)
{
  int64_t y = parse_i64(a.at(2)), z = parse_i64(a.at(3));
  uint64_t b = parse_u64(a.at(4));
  int mu = (int) parse_i64(a.at(5));
  uint64_t i = parse_u64(a.at(6)), m = parse_u64(a.at(7)), min_m = parse_u64(a.at(8)), max_m = parse_u64(a.at(9));
  if (y < 1 || z < 1 || (mu != 1 && mu != -1)) return "ERR:domain";
  if (a.at(0) == "128") {
    int128_t x = parse_i128(a.at(1));
    if (x < 0) return "ERR:domain";
    return run_c1<uint128_t>((uint128_t) x, y, z, b, mu, i, m, min_m, max_m);
  }
  int64_t x = parse_i64(a.at(1));
  if (x < 0) return "ERR:domain";
  return run_c1<uint64_t>((uint64_t) x, y, z, b, mu, i, m, min_m, max_m);
}

PCV_OP(AC_plain)
{
  int threads = (int) parse_i64(a.at(5));
  int64_t y = parse_i64(a.at(2)), z = parse_i64(a.at(3)), k = parse_i64(a.at(4));
  if (y < 1 || z < 1) return "ERR:domain";
  if (a.at(0) == "128") return i128s(primecount::AC_pcv_plain(parse_i128(a.at(1)), y, z, k, threads, false));
  return i128s(primecount::AC_pcv_plain(parse_i64(a.at(1)), y, z, k, threads, false));
}
