// wp-safety / C16: whole-history int64 safety of the REAL LoadBalancerS2 under legal clock traces.
//
//   s2lb_peak <x> <sieve_limit> <sum_approx> <threads> <print 0|1> <policy> <nevents-cap> <zfrom> <rate_exp>
//
// Same recording as `lbs2` (harness/ops_lb.cpp), one line
//   T <nev> <nchunks> <final get_sum()> <complete> <ev>...
//   ev = w:tlow:tsegs:tsize:tsum:secsbits:initbits:iswork:olow:osegs:osize:sumafter
// so that the model-side acceptor `lbs2_check` (lean/PcModel/Drv/Dispenser.lean) evaluates S2.ok (incl. S2.noOvf,
// the exact-arithmetic peak) on it.  Differences to `lbs2`: a deterministic return-order policy that also works
// for more than 10 workers, and a clock that is physically consistent up to a position and stands still after it.
//
// Workers behave like `while (loadBalancer.get_work(thread))`: a worker never calls again after `false`.
// policy 0: FIFO  - the worker holding the chunk with the smallest low returns first (fresh workers first, by id):
//                   every call has thread.low > max_low_.
// policy 1: SOLO  - worker 0 cycles alone until it is told `false`; then workers 1..threads-1 make their first
//                   (and only) call with a fresh all-zero ThreadData.
// policy >= 2: seeded random return order (splitmix64 of the policy number).
// Clock (verif_get_time_hook, hook H1): a chunk [low, high) with low < zfrom takes (high - low) * 2^-rate_exp seconds
// (init_secs = 0); a chunk with low >= zfrom takes 0 seconds.  zfrom = 0: the clock never moves (constant clock;
// legal for std::chrono::steady_clock, which only promises monotone non-decreasing readings).
// The clock seen inside get_work is the global clock max over the finished chunks' end times (non-decreasing).
// Contribution of a chunk: f[low, high) = F(high) - F(low), F(n) = n*n + n (non-zero for every non-empty chunk,
// so sum_ != 0 after the first chunk comes back).
#include "common.hpp"
#include <LoadBalancerS2.hpp>
#include <primecount-internal.hpp>

#include <cstring>
#include <fcntl.h>
#include <iostream>
#include <unistd.h>

namespace primecount { extern double (*verif_get_time_hook)(); }

using namespace pcv;
using namespace primecount;

namespace {

double s_now = 0;
double s_hook_now() { return s_now; }

struct SHookGuard {
  SHookGuard() { primecount::verif_get_time_hook = s_hook_now; }
  ~SHookGuard() { primecount::verif_get_time_hook = nullptr; }
};

struct SMute {
  int saved = -1;
  explicit SMute(bool on)
  {
    if (!on) return;
    std::cout.flush();
    fflush(stdout);
    saved = dup(1);
    int nul = open("/dev/null", O_WRONLY);
    dup2(nul, 1);
    close(nul);
  }
  ~SMute()
  {
    if (saved < 0) return;
    std::cout.flush();
    fflush(stdout);
    dup2(saved, 1);
    close(saved);
  }
};

uint64_t s_bits_of(double d) { uint64_t u; std::memcpy(&u, &d, 8); return u; }

uint64_t s_mix(uint64_t& s)
{
  s += 0x9E3779B97F4A7C15ull;
  uint64_t z = s;
  z = (z ^ (z >> 30)) * 0xBF58476D1CE4E5B9ull;
  z = (z ^ (z >> 27)) * 0x94D049BB133111EBull;
  return z ^ (z >> 31);
}

} // namespace

PCV_OP(s2lb_peak)
{
  maxint_t x = parse_i128(a.at(0));
  int64_t limit = parse_i64(a.at(1));
  maxint_t sum_approx = parse_i128(a.at(2));
  int threads = (int) parse_i64(a.at(3));
  bool print = parse_i64(a.at(4)) != 0;
  uint64_t policy = parse_u64(a.at(5));
  size_t cap = (size_t) parse_u64(a.at(6));
  int64_t zfrom = parse_i64(a.at(7));
  int rate_exp = (int) parse_i64(a.at(8));
  if (threads < 1 || threads > 4096 || limit < 0 || x < 0 || rate_exp < 0 || rate_exp > 80) return "ERR:domain";

  double rate = 1.0;
  for (int i = 0; i < rate_exp; i++) rate /= 2;

  SHookGuard hg;
  SMute mute(print);
  double clock = 1000.0;
  s_now = clock;
  LoadBalancerS2 lb(x, limit, sum_approx, threads, print);

  struct W { ThreadData t; bool has = false; bool fresh = true; int64_t low = 0, high = 0; double start = 0; int id = 0; };
  std::vector<W> ws((size_t) threads);
  std::vector<size_t> active;
  for (size_t i = 0; i < ws.size(); i++) { ws[i].id = (int) i; active.push_back(i); }
  uint64_t rs = policy * 0x9E3779B97F4A7C15ull + 12345;

  std::string evs;
  size_t nev = 0, nchunks = 0;
  while (!active.empty() && nev < cap)
  {
    size_t ai = 0;
    if (policy == 0)
    {
      // fresh workers first (by id), then the holder of the smallest low
      bool found = false;
      for (size_t i = 0; i < active.size() && !found; i++)
        if (ws[active[i]].fresh) { ai = i; found = true; }
      if (!found)
        for (size_t i = 1; i < active.size(); i++)
          if (ws[active[i]].low < ws[active[ai]].low) ai = i;
    }
    else if (policy == 1)
      ai = 0;
    else
      ai = (size_t) (s_mix(rs) % active.size());

    W& w = ws[active[ai]];
    if (w.has)
    {
      double d = (w.low < zfrom) ? (double) ((int128_t) w.high - (int128_t) w.low) * rate : 0.0;
      s_now = w.start;            // init_secs = 0
      w.t.init_finished();
      int128_t h = w.high, l = w.low;
      w.t.sum = (h * h + h) - (l * l + l);
      s_now = w.start + d;
      w.t.stop_time();
      if (w.start + d > clock) clock = w.start + d;
    }
    s_now = clock;
    w.fresh = false;
    std::string ev = std::to_string(w.id);
    ev += ":" + i128s(w.t.low);
    ev += ":" + i128s(w.t.segments);
    ev += ":" + i128s(w.t.segment_size);
    ev += ":" + i128s(w.t.sum);
    ev += ":" + u128s(s_bits_of(w.t.secs));
    ev += ":" + u128s(s_bits_of(w.t.init_secs));
    bool is_work = lb.get_work(w.t);
    ev += std::string(":") + (is_work ? "1" : "0");
    ev += ":" + i128s(w.t.low);
    ev += ":" + i128s(w.t.segments);
    ev += ":" + i128s(w.t.segment_size);
    ev += ":" + i128s(lb.get_sum());
    evs += " " + ev;
    nev++;
    if (is_work)
    {
      nchunks++;
      w.has = true;
      w.low = w.t.low;
      // the per-thread functions clip their chunk: high = min(low + segments * segment_size, limit)
      uint64_t hi = (uint64_t) w.t.low + (uint64_t) w.t.segments * (uint64_t) w.t.segment_size;
      w.high = (hi > (uint64_t) limit) ? limit : (int64_t) hi;
      w.start = clock;
      s_now = clock;
      w.t.start_time();
    }
    else
    {
      w.has = false;
      active.erase(active.begin() + (long) ai);
    }
  }
  std::string out = "T " + std::to_string(nev) + " " + std::to_string(nchunks) + " " + i128s(lb.get_sum()) +
                    " " + (active.empty() ? "1" : "0");
  return out + evs;
}
