// Common helpers of the correspondence harness (line protocol, see DESIGN.md 3.2).
#ifndef PCV_COMMON_HPP
#define PCV_COMMON_HPP

#include <int128_t.hpp>
#include <cstdint>
#include <cstdio>
#include <cstdlib>
#include <functional>
#include <map>
#include <string>
#include <vector>
#include <stdexcept>

namespace pcv {

using primecount::int128_t;
using primecount::uint128_t;
using Args = std::vector<std::string>;
using Handler = std::function<std::string(const Args&)>;

std::map<std::string, Handler>& registry();

struct Reg {
  Reg(const char* name, Handler h)
  {
    // two ops with the same name would make the answer depend on static-initialisation order
    if (registry().count(name)) { fprintf(stderr, "duplicate harness op: %s\n", name); abort(); }
    registry()[name] = h;
  }
};

inline std::string u128s(uint128_t n)
{
  if (n == 0) return "0";
  std::string s;
  while (n > 0) { s += char('0' + (int)(n % 10)); n /= 10; }
  return std::string(s.rbegin(), s.rend());
}

inline std::string i128s(int128_t n)
{
  if (n >= 0) return u128s((uint128_t) n);
  return "-" + u128s((uint128_t) 0 - (uint128_t) n);
}

// exact decimal parser of the protocol itself (never the code under test)
inline uint128_t parse_u128(const std::string& s)
{
  uint128_t n = 0;
  if (s.empty()) throw std::runtime_error("protocol: empty number");
  for (char c : s) {
    if (c < '0' || c > '9') throw std::runtime_error("protocol: bad number " + s);
    n = n * 10 + (unsigned)(c - '0');
  }
  return n;
}

inline int128_t parse_i128(const std::string& s)
{
  if (!s.empty() && s[0] == '-')
    return (int128_t)((uint128_t) 0 - parse_u128(s.substr(1)));
  return (int128_t) parse_u128(s);
}

inline int64_t parse_i64(const std::string& s) { return (int64_t) parse_i128(s); }
inline uint64_t parse_u64(const std::string& s) { return (uint64_t) parse_u128(s); }

// strings travel hex-encoded ("-" = empty string) so that any byte can be sent
inline std::string unhex(const std::string& h)
{
  if (h == "-") return "";
  std::string s;
  for (size_t i = 0; i + 1 < h.size(); i += 2)
    s += (char) std::stoi(h.substr(i, 2), nullptr, 16);
  return s;
}

inline std::string hex(const std::string& s)
{
  if (s.empty()) return "-";
  static const char* d = "0123456789abcdef";
  std::string h;
  for (unsigned char c : s) { h += d[c >> 4]; h += d[c & 15]; }
  return h;
}

} // namespace pcv

#define PCV_OP(name) \
  static std::string op_##name(const pcv::Args& a); \
  static pcv::Reg reg_##name(#name, op_##name); \
  static std::string op_##name(const pcv::Args& a)

#endif
