// C08 (wp-s1phi0): the file-local Sigma0..Sigma3 / Sigma456 of Sigma.cpp, summand by summand (see ops_leafloops.cpp
// for the technique; a separate translation unit because gourdon.hpp has no include guard).
#include "common.hpp"
#include <primecount.hpp>
#include <primecount-internal.hpp>
#include <S.hpp>
#include <PhiTiny.hpp>
#include <PiTable.hpp>
#include <generate_primes.hpp>
#include <imath.hpp>
#include <int128_t.hpp>
#include <min.hpp>
#include <Vector.hpp>
#include <print.hpp>
#include <primesieve.hpp>

#define Sigma Sigma_pcv_copy
#include <gourdon/Sigma.cpp>
#undef Sigma

using namespace pcv;

namespace {

// the body of Sigma(x, y, threads) with the five summands kept apart
template <typename T>
std::string run_sigma_parts(T x, int64_t y)
{
  int threads = 1;
  T x_star = get_x_star_gourdon(x, y);
  int64_t max_pix_sigma4 = x / (x_star * y);
  int64_t max_pix_sigma5 = y;
  int64_t max_pix_sigma6 = isqrt(x / x_star);
  int64_t max_pix = max3(max_pix_sigma4, max_pix_sigma5, max_pix_sigma6);
  PiTable pi(max_pix, threads);
  T a = pi[y];
  T b = pi[iroot<3>(x)];
  T c = pi[isqrt(x / y)];
  T d = pi[x_star];
  return i128s(Sigma0(x, a, threads)) + " " + i128s(Sigma1(a, b)) + " " + i128s(Sigma2(a, b, c, d)) + " " +
         i128s(Sigma3(b, d)) + " " + i128s(Sigma456(x, y, a, x_star, pi));
}

} // namespace

// sigma_parts <w> x y  ->  Sigma0 Sigma1 Sigma2 Sigma3 Sigma456
PCV_OP(sigma_parts)
{
  int64_t y = parse_i64(a.at(2));
  if (a.at(0) == "128") return run_sigma_parts<int128_t>(parse_i128(a.at(1)), y);
  return run_sigma_parts<int64_t>(parse_i64(a.at(1)), y);
}
