// C17 (counting sieve) / C15 (bit counting paths): ops on the REAL primecount::Sieve object.
//
//   sieve <cfg> <low> <segment_size> <primes|-> <op> <op> ...
//     cfg: A = AVX512 path detected, P = POPCNT only, B = portable bit counting. The harness checks that
//          this is what the CPU detection of THIS process (incl. the H2 environment overrides) selected,
//          otherwise ERR:config.
//     ops: pre:c:low:high  x:prime:i  xc:prime:i  c:stop  cA:stop  cP:stop  r:start:stop  t  d  dw  dc
//   One line = one whole history on one Sieve object; see lean/PcModel/Drv/Sieve.lean for the output format.
//
// The private members are read through `#define private public` (layout unchanged; the library itself is
// compiled from the unmodified headers). Guards ("ERR:domain@k") reject exactly the calls for which the C++
// code has no defined behaviour (out-of-bounds reads, uninitialised memory); they mirror the guards of the model.
#include "common.hpp"

#include <algorithm>
#include <cmath>
#include <cstddef>
#include <memory>
#include <sstream>
#include <string>
#include <type_traits>
#include <utility>
#include <stdint.h>

#include <macros.hpp>
#include <cpu_arch_macros.hpp>
#include <popcnt.hpp>
#include <Vector.hpp>
#include <imath.hpp>
#if defined(ENABLE_AVX512_VPOPCNT) || defined(ENABLE_MULTIARCH_AVX512_VPOPCNT)
  #include <immintrin.h>
#endif
#if defined(ENABLE_MULTIARCH_AVX512_VPOPCNT)
  #include <cpu_supports_avx512_vpopcnt.hpp>
#endif

#define private public
#include <Sieve.hpp>
#undef private

#include <phi_vector.hpp>
#include <generate_primes.hpp>
#include <PiTable.hpp>

using namespace pcv;
using primecount::Sieve;
using primecount::Vector;

namespace {

// ---- what the CPU detection selected in this process
bool detected_avx512()
{
#if defined(ENABLE_AVX512_VPOPCNT)
  return true;
#elif defined(ENABLE_MULTIARCH_AVX512_VPOPCNT)
  return cpu_supports_avx512_vpopcnt;
#else
  return false;
#endif
}

// 1 = POPCNT instruction, 0 = SWAR, -1 = no runtime choice in this build (compiler builtin)
int detected_popcnt()
{
#if defined(ENABLE_MULTIARCH_x86_POPCNT) && (defined(__x86_64__) || defined(__i386__))
  return cpu_supports_popcnt ? 1 : 0;
#else
  return -1;
#endif
}

bool cfg_ok(const std::string& cfg)
{
  bool avx = detected_avx512();
  int pop = detected_popcnt();
  if (cfg == "A") return avx && pop != 0;
  if (cfg == "P") return !avx && pop != 0;
  if (cfg == "B") return !avx && pop != 1;
  return false;
}

#if defined(ENABLE_MULTIARCH_AVX512_VPOPCNT)
__attribute__ ((target ("avx512f,avx512vpopcntdq")))
uint64_t call_count_avx512(Sieve& s, uint64_t stop) { return s.count_avx512(stop); }
#elif defined(ENABLE_AVX512_VPOPCNT)
uint64_t call_count_avx512(Sieve& s, uint64_t stop) { return s.count_avx512(stop); }
#endif

// the function-level dispatch the callers of count(stop) use (S2_hard.cpp / D.cpp):
// cpu_supports_avx512_vpopcnt ? <kernel using count_avx512(stop)> : <kernel using count(stop)>
uint64_t count_dispatch(Sieve& s, uint64_t stop)
{
#if defined(ENABLE_MULTIARCH_AVX512_VPOPCNT)
  if (cpu_supports_avx512_vpopcnt)
    return call_count_avx512(s, stop);
#endif
  return s.count(stop);
}

std::vector<std::string> split(const std::string& s, char sep)
{
  std::vector<std::string> r;
  std::string cur;
  for (char c : s) { if (c == sep) { r.push_back(cur); cur.clear(); } else cur += c; }
  r.push_back(cur);
  return r;
}

bool is_num(const std::string& s)
{
  if (s.empty() || s.size() > 20) return false;
  for (char c : s) if (c < '0' || c > '9') return false;
  return true;
}

const uint64_t MAX_LOW = 1ull << 62, MAX_SEG = 1ull << 24, MAX_PRIME = 1ull << 32;

std::string hexbytes(const uint8_t* p, size_t n)
{
  static const char* d = "0123456789abcdef";
  std::string h;
  for (size_t i = 0; i < n; i++) { h += d[p[i] >> 4]; h += d[p[i] & 15]; }
  return h;
}

} // namespace

PCV_OP(sieve)
{
  if (a.size() < 4) return "ERR:proto";
  const std::string& cfg = a[0];
  if (cfg != "A" && cfg != "P" && cfg != "B") return "ERR:proto";
  if (!is_num(a[1]) || !is_num(a[2])) return "ERR:proto";
  uint64_t low = parse_u64(a[1]), seg = parse_u64(a[2]);
  Vector<int64_t> primes;
  if (a[3] != "-")
    for (auto& t : split(a[3], ',')) { if (!is_num(t)) return "ERR:proto"; primes.push_back((int64_t) parse_u64(t)); }
  if (low >= MAX_LOW || seg > MAX_SEG) return "ERR:domain";
  if (!cfg_ok(cfg)) return "ERR:config";

  Sieve s(low, seg, 8);
  bool inited = false;
  std::vector<std::string> out;
  auto fail = [&](size_t k) {
    out.push_back("ERR:domain@" + std::to_string(k));
    std::string r;
    for (size_t i = 0; i < out.size(); i++) r += (i ? " " : "") + out[i];
    return r;
  };

  for (size_t k = 4; k < a.size(); k++)
  {
    size_t opi = k - 4;
    auto f = split(a[k], ':');
    for (size_t j = 1; j < f.size(); j++) if (!is_num(f[j])) return fail(opi);
    const std::string& op = f[0];
    uint64_t segsize = s.sieve_.size() * 30;

    if (op == "pre" && f.size() == 4) {
      uint64_t c = parse_u64(f[1]), lo = parse_u64(f[2]), hi = parse_u64(f[3]);
      if (!(lo < hi && hi - lo <= segsize && (c < 4 || c < primes.size()))) return fail(opi);
      bool bad = false;
      for (uint64_t i = 4; i <= c; i++) if (primes[i] == 0 || (uint64_t) primes[i] >= MAX_PRIME) bad = true;
      if (bad) return fail(opi);
      s.pre_sieve(primes, c, lo, hi);
      inited = true;
    }
    else if ((op == "x" || op == "xc") && f.size() == 3) {
      uint64_t p = parse_u64(f[1]), i = parse_u64(f[2]);
      if (!(inited && 4 <= i && i <= s.wheel_.size() && 1 <= p && p < MAX_PRIME)) return fail(opi);
      if (op == "x") s.cross_off(p, i); else s.cross_off_count(p, i);
    }
    else if ((op == "c" || op == "cA" || op == "cP") && f.size() == 2) {
      uint64_t stop = parse_u64(f[1]);
      if (op == "cA" && cfg != "A") return fail(opi);
      if (!(inited && stop < segsize)) return fail(opi);
      uint64_t r;
      if (op == "c") r = count_dispatch(s, stop);
      else if (op == "cA") {
#if defined(ENABLE_AVX512_VPOPCNT) || defined(ENABLE_MULTIARCH_AVX512_VPOPCNT)
        r = call_count_avx512(s, stop);
#else
        return "ERR:config";
#endif
      }
      else {
#if defined(ENABLE_PORTABLE_POPCNT64)
        r = s.count_popcnt64(stop);
#else
        r = s.count(stop);   // -march=native style build: only one routine exists
#endif
      }
      out.push_back(std::to_string(r));
    }
    else if (op == "r" && f.size() == 3) {
      uint64_t x = parse_u64(f[1]), y = parse_u64(f[2]);
      if (!(inited && (x > y || y < segsize))) return fail(opi);
      out.push_back(std::to_string(((const Sieve&) s).count(x, y)));
    }
    else if (op == "t" && f.size() == 1) {
      if (!inited) return fail(opi);
      out.push_back(std::to_string(s.get_total_count()));
    }
    else if (op == "d" && f.size() == 1) {
      if (!inited) return fail(opi);
      out.push_back("b" + hexbytes(s.sieve_.data(), s.sieve_.size()));
    }
    else if (op == "dw" && f.size() == 1) {
      std::string w = "w";
      for (size_t i = 4; i < s.wheel_.size(); i++)
        w += (i > 4 ? "," : "") + std::to_string(s.wheel_[i].multiple) + "." + std::to_string(s.wheel_[i].index);
      out.push_back(w);
    }
    else if (op == "dc" && f.size() == 1) {
      if (!inited) return fail(opi);
      auto& c = s.counter_;
      uint64_t bytes = c.dist / 30;
      uint64_t n = (s.sieve_.size() + bytes - 1) / bytes;
      std::string w = "c" + std::to_string(c.stop) + "." + std::to_string(c.dist) + "." + std::to_string(c.log2_dist) + "." +
                      std::to_string(c.sum) + "." + std::to_string(c.i) + "." + std::to_string(s.prev_stop_) + "." +
                      std::to_string(s.count_) + "." + std::to_string(s.total_count_) + ":";
      for (uint64_t i = 0; i < n && i < c.counter.size(); i++)
        w += (i ? "," : "") + std::to_string(c.counter[i]);
      out.push_back(w);
    }
    else
      return fail(opi);
  }

  if (out.empty()) return "ok";
  std::string r;
  for (size_t i = 0; i < out.size(); i++) r += (i ? " " : "") + out[i];
  return r;
}

PCV_OP(sieve_masks)
{
  std::string r;
  for (int i = 0; i < 240; i++) r += (i ? "," : "") + std::to_string(Sieve::unset_smaller[i]);
  r += ";";
  for (int i = 0; i < 240; i++) r += (i ? "," : "") + std::to_string(Sieve::unset_larger[i]);
  return r;
}

PCV_OP(sieve_popcnt_swar)
{
#if defined(ENABLE_MULTIARCH_x86_POPCNT) && defined(__x86_64__)
  return std::to_string(popcnt64_bitwise_noinline(parse_u64(a.at(0))));
#else
  return "ERR:config";
#endif
}

// popcnt64 as selected by the CPU detection of this process
PCV_OP(sieve_popcnt64)
{
  return std::to_string(popcnt64(parse_u64(a.at(0))));
}

PCV_OP(sieve_align)
{
  uint128_t x = parse_u128(a.at(0));
  if (x >= ((uint128_t) 1 << 63)) return "ERR:domain";
  return std::to_string(Sieve::align_segment_size((uint64_t) x));
}

PCV_OP(sieve_cfg)
{
  return std::string(detected_avx512() ? "avx512" : "noavx512") + " popcnt=" + std::to_string(detected_popcnt());
}

// sieve_phivec <x> <a> <maxp> <u32|i64> : phi_vector(x, a, primes <= maxp, PiTable(maxp)) as "phi[0],phi[1],..."
// domain: a + 1 < primes.size() (PhiCache::is_pix reads primes[a + 1]), x < 2^62
PCV_OP(sieve_phivec)
{
  uint64_t x = parse_u64(a.at(0)), av = parse_u64(a.at(1)), maxp = parse_u64(a.at(2));
  if (x >= (1ull << 62) || maxp > (1ull << 26) || maxp < 2) return "ERR:domain";
  primecount::PiTable pi(maxp, 1);
  std::string r;
  if (a.at(3) == "u32") {
    auto primes = primecount::generate_primes<uint32_t>((int64_t) maxp);
    if (av + 1 >= primes.size()) return "ERR:domain";
    auto phi = primecount::phi_vector((int64_t) x, (int64_t) av, primes, pi);
    for (size_t i = 0; i < phi.size(); i++) r += (i ? "," : "") + std::to_string(phi[i]);
  } else {
    auto primes = primecount::generate_primes<int64_t>((int64_t) maxp);
    if (av + 1 >= primes.size()) return "ERR:domain";
    auto phi = primecount::phi_vector((int64_t) x, (int64_t) av, primes, pi);
    for (size_t i = 0; i < phi.size(); i++) r += (i ? "," : "") + std::to_string(phi[i]);
  }
  return r;
}
