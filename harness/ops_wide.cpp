// C11: the 128-bit instantiations of B and P2 at x >= 2^63 / 2^64 on ranges that are cheap to run (y just below sqrt(x)).
//   wide_bp2 <x> <y> <threads> -> "B=<B(int128 x, y)> P2=<P2(int128 x, y, a)> base=<pi64(x / pmax)> a=<pi64(y)>"
// `base` and `a` come from the 64-bit entry point pi(int64_t) (never from the 128-bit code under test); the model
// (op wide_bp2_chk) recomputes the two sums from them with the proved window sieve: primes of (y, sqrt x], pi(x/p) - base.
#include "common.hpp"
#include <primecount.hpp>
#include <primecount-internal.hpp>
#include <gourdon.hpp>
#include <isqrt.hpp>
#include <primesieve.hpp>

using namespace pcv;
using namespace primecount;

PCV_OP(wide_bp2)
{
  int128_t x = parse_i128(a.at(0));
  int64_t y = parse_i64(a.at(1));
  int threads = (int) parse_i64(a.at(2));
  if (x < 4 || y < 1) return "ERR:domain";
  int64_t sqrtx = (int64_t) isqrt(x);
  if (y >= sqrtx || sqrtx - y > 2000000) return "ERR:domain";       // cheap ranges only
  // largest prime <= sqrt(x) (independent of the code under test: primesieve's public iterator)
  primesieve::iterator it((uint64_t) sqrtx);      // prev_prime(): largest prime <= sqrtx
  uint64_t pmax = it.prev_prime();
  if ((int64_t) pmax <= y) return "B=0 P2=? base=0 a=" + i128s(pi(y));
  int128_t qmin = x / (int128_t) pmax;
  if (qmin > (int128_t) INT64_MAX) return "ERR:domain";
  int64_t base = pi((int64_t) qmin);
  int64_t pa = pi(y);
  int128_t b = B(x, y, threads, false);
  int128_t p2 = P2(x, y, pa, threads, false);
  return "B=" + i128s(b) + " P2=" + i128s(p2) + " base=" + i128s(base) + " a=" + i128s(pa);
}
