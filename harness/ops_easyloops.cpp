// C08 / C02 / C03 / C11 (wp-easy): the FILE-LOCAL functions of src/deleglise-rivat/S2_easy.cpp and
// S2_easy_libdivide.cpp on the REAL code.  Both files are compiled into THIS translation unit; their public entry
// point `S2_easy` and the file-local template `S2_easy_OpenMP` (which both files define) are renamed, so nothing
// clashes with libprimecount.a and the op `S2_easy` of ops_alg.cpp keeps calling the LIBRARY's function.
//
//   s2easy_b <64|128> <k64|k128> x y z b
//        S2_easy_64 / S2_easy_128 (S2_easy_libdivide.cpp) for prime = primes[b], xp = x / prime, primes = generate_primes(y)
//        (libdivide vector built exactly as S2_easy_OpenMP does), PiTable pi(y)  ->  "<clustered part> <sparse part>".
//        The clustered part is the same kernel called with z' = prime * y + prime (then min_sparse = y and the sparse loop
//        is empty; nothing in the clustered loop reads z), the sparse part the difference.
//   S2_easy_plain <64|128> x y z c threads    S2_easy.cpp's S2_easy(x, y, z, c, threads, false)
// Domain (checked here; the real functions are never called outside it): 1 <= y, b in [1, pi(y)], x / primes[b] < 2^64 for
// k64.  The streams only send (x, y, z) for which every `pi[.]` read stays inside PiTable pi(y) (x < (y+1)(z+1)).
#include "common.hpp"
#include <primecount.hpp>
#include <primecount-internal.hpp>
#include <PiTable.hpp>
#include <generate_primes.hpp>
#include <imath.hpp>
#include <int128_t.hpp>
#include <min.hpp>
#include <Vector.hpp>
#include <print.hpp>

#define S2_easy S2_easy_pcv_plain
#define S2_easy_OpenMP S2_easy_OpenMP_pcv_plain
#include <deleglise-rivat/S2_easy.cpp>
#undef S2_easy
#undef S2_easy_OpenMP
#define S2_easy S2_easy_pcv_ld
#define S2_easy_OpenMP S2_easy_OpenMP_pcv_ld
#include <deleglise-rivat/S2_easy_libdivide.cpp>
#undef S2_easy
#undef S2_easy_OpenMP

using namespace pcv;

namespace {

template <typename T>
std::string run_s2easy_b(bool k64, T x, int64_t y, int64_t z, uint64_t b)
{
  auto primes = generate_primes<uint32_t>(y);
  if (b < 1 || b >= primes.size()) return "ERR:domain";
  uint64_t prime = primes[b];
  T xp = x / prime;
  PiTable pi(y, 1);
  // z' with z' / prime >= y: the sparse loop is empty
  uint128_t zbig128 = (uint128_t) prime * (uint64_t) y + prime;
  if (zbig128 > (uint128_t) pstd::numeric_limits<int64_t>::max()) return "ERR:domain";
  uint64_t zbig = (uint64_t) zbig128;
  T tot, clu;
  if (k64) {
    if (xp > (T) pstd::numeric_limits<uint64_t>::max()) return "ERR:domain";
    Vector<libdivide::branchfree_divider<uint64_t>> lprimes;
    lprimes.resize(primes.size());
    for (std::size_t i = 1; i < lprimes.size(); i++)
      lprimes[i] = primes[i];
    tot = S2_easy_64(xp, (uint64_t) y, (uint64_t) z, b, prime, lprimes, pi);
    clu = S2_easy_64(xp, (uint64_t) y, zbig, b, prime, lprimes, pi);
  } else {
    tot = S2_easy_128(xp, (uint64_t) y, (uint64_t) z, b, prime, primes, pi);
    clu = S2_easy_128(xp, (uint64_t) y, zbig, b, prime, primes, pi);
  }
  // the sums are non-negative; print them as signed values of the operand width
  if (sizeof(T) == 8)
    return i128s((int64_t) clu) + " " + i128s((int64_t) (tot - clu));
  return i128s((int128_t) clu) + " " + i128s((int128_t) (tot - clu));
}

} // namespace

PCV_OP(s2easy_b)
{
  bool k64 = a.at(1) == "k64";
  if (!k64 && a.at(1) != "k128") return "ERR:proto";
  int64_t y = parse_i64(a.at(3)), z = parse_i64(a.at(4));
  uint64_t b = parse_u64(a.at(5));
  if (y < 1 || z < 0) return "ERR:domain";
  if (a.at(0) == "128") {
    int128_t x = parse_i128(a.at(2));
    if (x < 0) return "ERR:domain";
    return run_s2easy_b<uint128_t>(k64, (uint128_t) x, y, z, b);
  }
  int64_t x = parse_i64(a.at(2));
  if (x < 0) return "ERR:domain";
  return run_s2easy_b<uint64_t>(k64, (uint64_t) x, y, z, b);
}

PCV_OP(S2_easy_plain)
{
  int threads = (int) parse_i64(a.at(5));
  int64_t y = parse_i64(a.at(2)), z = parse_i64(a.at(3)), c = parse_i64(a.at(4));
  if (y < 1) return "ERR:domain";
  if (a.at(0) == "128") return i128s(primecount::S2_easy_pcv_plain(parse_i128(a.at(1)), y, z, c, threads, false));
  return i128s(primecount::S2_easy_pcv_plain(parse_i64(a.at(1)), y, z, c, threads, false));
}
