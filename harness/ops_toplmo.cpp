// WP top (item 3; C02 / C03): the two LMO algorithms whose S2 uses class Sieve, on the REAL code.
//
// The file-local S2 of src/lmo/pi_lmo5.cpp and S2_thread / S2 of src/lmo/pi_lmo_parallel.cpp live in anonymous
// namespaces: both .cpp files are compiled into THIS translation unit with their public functions renamed
// (pi_lmo5 -> pi_lmo5_pcv_copy, pi_lmo_parallel -> pi_lmo_parallel_pcv_copy) and the two file-local `S2` renamed
// apart (S2 -> toplmo5_local_S2 / toplmopar_local_S2); the whole-function ops call the LIBRARY's pi_lmo5 /
// pi_lmo_parallel.  Tables exactly as the callers build them:
//   pi_lmo5:         generate_primes<int32_t>(y), generate_lpf(y), generate_moebius(y)      (S2 builds generate_pi(y) itself)
//   pi_lmo_parallel: generate_primes<uint32_t>(y), generate_lpf(y), generate_moebius(y), PiTable pi(y, threads)
//
//   toplmo5_S2 x y c                                  -> S2(x, y, c, primes, lpf, mu, false) of pi_lmo5.cpp
//   toplmo5 alpha_milli lo hi                         -> "y:pi_lmo5(x)" for x in [lo, hi]; y = (int64_t)(iroot<3>(x) * get_alpha_lmo(x))
//   toplmopar_chunk x y z c low segments segment_size -> S2_thread on one work item
//   toplmopar_chain x y z c segment_size low0 segs0 segs1 ...   -> consecutive work items
//   toplmopar_row   x y z c low segment_size n        -> n adjacent work items of ONE segment each
//   toplmopar_run   x y z c threads print seed cap    -> R <whole> <get_sum()> <team> <complete> <nev> <ev>...
//        whole = the file-local S2(x, y, z, c, 0, primes, lpf, mu, threads, false) (real OpenMP threads); then the REAL
//        LoadBalancerS2(x, z, whole, team, print) driven from one OS thread by `team` simulated workers (seeded
//        return order, virtual clock through verif_get_time_hook), every work item evaluated by the real S2_thread.
//        ev = the lbs2 encoding of ops_lb.cpp / ops_hardloops.cpp.
//   toplmopar alpha_milli threads lo hi               -> "y:pi_lmo_parallel(x, threads)" for x in [lo, hi]
// Domain (ERR:domain otherwise): 1 <= x <= 10^15, 1 <= y <= 10^8, 1 <= z <= 2^50, c <= 10^6 with (c >= 3 or c >= pi(y))
// (class Sieve has 2, 3, 5 removed by construction: a level b <= 3 cannot be processed; the callers pass get_c(y));
// low % 30 == 0, segment_size % 240 == 0, segment_size >= 240, segments >= 1, all <= 2^40.
#include "common.hpp"

#include <primecount.hpp>
#include <primecount-internal.hpp>
#include <Sieve.hpp>
#include <generate_primes.hpp>
#include <phi_vector.hpp>
#include <LoadBalancerS2.hpp>
#include <min.hpp>
#include <imath.hpp>
#include <PhiTiny.hpp>
#include <PiTable.hpp>
#include <print.hpp>
#include <Vector.hpp>
#include <S.hpp>
#include <int128_t.hpp>

#include <stdint.h>
#include <cmath>
#include <cstring>
#include <fcntl.h>
#include <iostream>
#include <unistd.h>

#define pi_lmo5 pi_lmo5_pcv_copy
#define S2 toplmo5_local_S2
#include <lmo/pi_lmo5.cpp>
#undef S2
#undef pi_lmo5

#define pi_lmo_parallel pi_lmo_parallel_pcv_copy
#define S2 toplmopar_local_S2
#include <lmo/pi_lmo_parallel.cpp>
#undef S2
#undef pi_lmo_parallel

namespace primecount {
extern double (*verif_get_time_hook)();
}

using namespace pcv;

namespace {

double tl_now = 0;
double tl_hook() { return tl_now; }

struct TlHookGuard {
  TlHookGuard() { primecount::verif_get_time_hook = tl_hook; }
  ~TlHookGuard() { primecount::verif_get_time_hook = nullptr; }
};

struct TlMute {
  int saved = -1;
  explicit TlMute(bool on)
  {
    if (!on) return;
    std::cout.flush();
    fflush(stdout);
    saved = dup(1);
    int nul = open("/dev/null", O_WRONLY);
    dup2(nul, 1);
    close(nul);
  }
  ~TlMute()
  {
    if (saved < 0) return;
    std::cout.flush();
    fflush(stdout);
    dup2(saved, 1);
    close(saved);
  }
};

struct TlAlphaGuard {
  ~TlAlphaGuard() { primecount::set_alpha(-1); }
};

uint64_t tl_bits(double d) { uint64_t u; std::memcpy(&u, &d, 8); return u; }

const int64_t TL_BIG = (int64_t) 1 << 40;

bool tl_nat(const std::string& s, int64_t& v, int64_t max)
{
  if (s.empty() || s.size() > 18) return false;
  for (char ch : s) if (ch < '0' || ch > '9') return false;
  int64_t t = (int64_t) parse_u128(s);
  if (t > max) return false;
  v = t;
  return true;
}

int64_t tl_small_pi(int64_t n)
{
  int64_t cnt = 0;
  for (int64_t i = 2; i <= n; i++)
  {
    bool p = true;
    for (int64_t d = 2; d * d <= i; d++) if (i % d == 0) { p = false; break; }
    if (p) cnt++;
  }
  return cnt;
}

bool tl_c_ok(int64_t y, int64_t c)
{
  if (c >= 3) return true;
  // c < 3: only when there is no level, c >= pi(y) (needs y < 5)
  return y < 5 && c >= tl_small_pi(y);
}

struct TIn { int64_t x = 0, y = 0, z = 0, c = 0; std::string err; };

// x y z c
TIn tl_head(const Args& a)
{
  TIn in;
  if (a.size() < 4) { in.err = "ERR:proto"; return in; }
  if (!tl_nat(a.at(0), in.x, 1000000000000000ll) || !tl_nat(a.at(1), in.y, 100000000) ||
      !tl_nat(a.at(2), in.z, (int64_t) 1 << 50) || !tl_nat(a.at(3), in.c, 1000000)) { in.err = "ERR:domain"; return in; }
  if (in.x < 1 || in.y < 1 || in.z < 1 || !tl_c_ok(in.y, in.c)) { in.err = "ERR:domain"; return in; }
  return in;
}

struct Item { int64_t low, segments, segment_size; };

bool item_ok(const Item& it)
{
  return it.low >= 0 && it.low % 30 == 0 && it.segment_size >= 240 && it.segment_size % 240 == 0 && it.segments >= 1 &&
         it.low <= TL_BIG && it.segment_size <= TL_BIG && it.segments <= TL_BIG &&
         (int128_t) it.segment_size * it.segments <= (int128_t) TL_BIG;
}

// the tables of pi_lmo_parallel for one (x, y, z, c) and the real S2_thread on one work item
struct ParTables {
  int64_t x, y, z, c;
  Vector<uint32_t> primes;
  Vector<int32_t> lpf;
  Vector<int32_t> mu;
  PiTable pi;
  ParTables(int64_t x_, int64_t y_, int64_t z_, int64_t c_, int threads)
    : x(x_), y(y_), z(z_), c(c_), primes(generate_primes<uint32_t>(y_)), lpf(generate_lpf(y_)),
      mu(generate_moebius(y_)), pi(y_, threads) { }
  int64_t run(ThreadData& thread) { return S2_thread(x, y, z, c, pi, primes, lpf, mu, thread); }
};

std::string eval_items(ParTables& tab, const std::vector<Item>& items)
{
  TlHookGuard hg;
  std::string out;
  for (size_t i = 0; i < items.size(); i++)
  {
    ThreadData t;
    t.low = items[i].low;
    t.segments = items[i].segments;
    t.segment_size = items[i].segment_size;
    tl_now = 1000.0;
    t.start_time();
    int64_t v = tab.run(t);
    t.stop_time();
    out += (i ? " " : "") + i128s((int128_t) v);
  }
  return out;
}

uint64_t tl_mix(uint64_t& s)
{
  s += 0x9E3779B97F4A7C15ull;
  uint64_t z = s;
  z = (z ^ (z >> 30)) * 0xBF58476D1CE4E5B9ull;
  z = (z ^ (z >> 27)) * 0x94D049BB133111EBull;
  return z ^ (z >> 31);
}

struct TlClock {
  uint64_t s;
  int alpha;
  double rate = 0, init_base = 0;
  explicit TlClock(uint64_t seed) : s(seed)
  {
    alpha = (int) (tl_mix(s) % 3);
    int e = 24 + (int) (tl_mix(s) % 11);
    rate = 1.0;
    for (int i = 0; i < e; i++) rate /= 2;
    static const double inits[4] = {0.0, 1e-4, 1e-2, 1.0};
    init_base = inits[tl_mix(s) % 4];
  }
  double letter(int i)
  {
    static const double L[5] = {0.0, 1e-6, 1e-3, 1.0, 7 * 3600.0};
    return L[i % 5];
  }
  double dur(int64_t len)
  {
    if (alpha == 1) return init_base + (double) len * rate * (1.0 + (double) (tl_mix(s) % 4));
    if (alpha == 2) { uint64_t r = tl_mix(s) % 64; return r == 0 ? letter(2 + (int) (tl_mix(s) % 3)) : letter((int) (r % 2)); }
    return letter((int) (tl_mix(s) % 5));
  }
  double init(double secs)
  {
    double i = alpha == 1 ? init_base : letter((int) (tl_mix(s) % 5));
    return i < secs ? i : secs;
  }
  double stall()
  {
    uint64_t r = tl_mix(s) % 8;
    return r == 0 ? 1e-6 : (r == 1 ? 0.25 : 0.0);
  }
};

std::string run_lb(ParTables& tab, int64_t whole, int threads, bool print, uint64_t seed, size_t cap)
{
  int64_t limit = tab.z;
  // S2 of pi_lmo_parallel.cpp:189-192
  int64_t thread_threshold = 1 << 20;
  int max_threads = (int) std::pow(limit, 1 / 3.7);
  int team = std::min(threads, max_threads);
  team = ideal_num_threads(limit, team, thread_threshold);
  if (team < 1) return "R " + i128s((int128_t) whole) + " 0 " + std::to_string(team) + " 0 0";

  TlHookGuard hg;
  TlMute mute(print);
  TlClock ck(seed);
  double clock = 1000.0;
  tl_now = clock;
  LoadBalancerS2 lb((maxint_t) tab.x, limit, (maxint_t) whole, team, print);

  struct W { ThreadData t; bool has = false; int64_t len = 0; double start = 0; int id = 0; };
  std::vector<W> ws((size_t) team);
  std::vector<size_t> active;
  for (size_t i = 0; i < ws.size(); i++) { ws[i].id = (int) i; active.push_back(i); }

  std::string evs;
  size_t nev = 0;
  while (!active.empty() && nev < cap)
  {
    size_t ai = (size_t) (tl_mix(seed) % active.size());
    W& w = ws[active[ai]];
    if (w.has)
    {
      double d = ck.dur(w.len);
      double i = ck.init(d);
      tl_now = w.start + i;
      int64_t v = tab.run(w.t);
      w.t.sum = v;
      tl_now = w.start + d;
      w.t.stop_time();
      if (w.start + d > clock) clock = w.start + d;
    }
    clock += ck.stall();
    tl_now = clock;
    std::string ev = std::to_string(w.id);
    ev += ":" + i128s(w.t.low) + ":" + i128s(w.t.segments) + ":" + i128s(w.t.segment_size) + ":" + i128s(w.t.sum);
    ev += ":" + u128s(tl_bits(w.t.secs)) + ":" + u128s(tl_bits(w.t.init_secs));
    bool is_work = lb.get_work(w.t);
    ev += std::string(":") + (is_work ? "1" : "0");
    ev += ":" + i128s(w.t.low) + ":" + i128s(w.t.segments) + ":" + i128s(w.t.segment_size) + ":" + i128s(lb.get_sum());
    evs += " " + ev;
    nev++;
    if (is_work)
    {
      w.has = true;
      uint64_t hi = (uint64_t) w.t.low + (uint64_t) w.t.segments * (uint64_t) w.t.segment_size;
      w.len = ((hi > (uint64_t) limit) ? limit : (int64_t) hi) - w.t.low;
      w.start = clock;
      tl_now = clock;
      w.t.start_time();
    }
    else
    {
      w.has = false;
      active.erase(active.begin() + (long) ai);
    }
  }
  return "R " + i128s((int128_t) whole) + " " + i128s(lb.get_sum()) + " " + std::to_string(team) + " " +
         (active.empty() ? "1" : "0") + " " + std::to_string(nev) + evs;
}

} // namespace

PCV_OP(toplmo5_S2)
{
  if (a.size() != 3) return "ERR:proto";
  int64_t x, y, c;
  if (!tl_nat(a.at(0), x, 1000000000000000ll) || !tl_nat(a.at(1), y, 100000000) || !tl_nat(a.at(2), c, 1000000))
    return "ERR:domain";
  if (x < 1 || y < 1 || !tl_c_ok(y, c)) return "ERR:domain";
  auto primes = primecount::generate_primes<int32_t>(y);
  auto lpf = primecount::generate_lpf(y);
  auto mu = primecount::generate_moebius(y);
  return i128s(toplmo5_local_S2(x, y, c, primes, lpf, mu, false));
}

PCV_OP(toplmo5)
{
  if (a.size() != 3) return "ERR:proto";
  TlAlphaGuard g;
  int64_t m = parse_i64(a.at(0));
  if (m < 0) primecount::set_alpha(-1); else primecount::set_alpha((double) m / 1000.0);
  int64_t lo = parse_i64(a.at(1)), hi = parse_i64(a.at(2));
  if (hi - lo > 100000 || hi > 1000000000000ll) return "ERR:domain";
  std::string out;
  for (int64_t x = lo; x <= hi; x++) {
    if (!out.empty()) out += ' ';
    int64_t y = 0;
    if (x >= 2) {
      double alpha = primecount::get_alpha_lmo(x);
      int64_t x13 = iroot<3>(x);
      y = (int64_t)(x13 * alpha);
    }
    out += i128s(y) + ":" + i128s(primecount::pi_lmo5(x, false));
  }
  return out;
}

PCV_OP(toplmopar)
{
  if (a.size() != 4) return "ERR:proto";
  TlAlphaGuard g;
  int64_t m = parse_i64(a.at(0));
  if (m < 0) primecount::set_alpha(-1); else primecount::set_alpha((double) m / 1000.0);
  int64_t th = parse_i64(a.at(1));
  int64_t lo = parse_i64(a.at(2)), hi = parse_i64(a.at(3));
  if (th < 1 || th > 64 || hi - lo > 100000 || hi > 1000000000000ll) return "ERR:domain";
  std::string out;
  for (int64_t x = lo; x <= hi; x++) {
    if (!out.empty()) out += ' ';
    int64_t y = 0;
    if (x >= 2) {
      double alpha = primecount::get_alpha_lmo(x);
      int64_t x13 = iroot<3>(x);
      y = (int64_t)(x13 * alpha);
    }
    out += i128s(y) + ":" + i128s(primecount::pi_lmo_parallel(x, (int) th, false));
  }
  return out;
}

PCV_OP(toplmopar_chunk)
{
  TIn in = tl_head(a);
  if (!in.err.empty()) return in.err;
  if (a.size() != 7) return "ERR:proto";
  Item it;
  if (!tl_nat(a.at(4), it.low, TL_BIG) || !tl_nat(a.at(5), it.segments, TL_BIG) ||
      !tl_nat(a.at(6), it.segment_size, TL_BIG) || !item_ok(it)) return "ERR:domain";
  std::vector<Item> items{it};
  ParTables tab(in.x, in.y, in.z, in.c, 1);
  return eval_items(tab, items);
}

PCV_OP(toplmopar_chain)
{
  TIn in = tl_head(a);
  if (!in.err.empty()) return in.err;
  if (a.size() < 7) return "ERR:proto";
  int64_t size, low;
  if (!tl_nat(a.at(4), size, TL_BIG) || !tl_nat(a.at(5), low, TL_BIG)) return "ERR:domain";
  std::vector<Item> items;
  for (size_t i = 6; i < a.size(); i++)
  {
    Item it{low, 0, size};
    if (!tl_nat(a[i], it.segments, TL_BIG) || !item_ok(it)) return "ERR:domain";
    items.push_back(it);
    low += size * it.segments;
  }
  if (items.size() > 100000) return "ERR:domain";
  ParTables tab(in.x, in.y, in.z, in.c, 1);
  return eval_items(tab, items);
}

PCV_OP(toplmopar_row)
{
  TIn in = tl_head(a);
  if (!in.err.empty()) return in.err;
  if (a.size() != 7) return "ERR:proto";
  int64_t low, size, n;
  if (!tl_nat(a.at(4), low, TL_BIG) || !tl_nat(a.at(5), size, TL_BIG) || !tl_nat(a.at(6), n, 100000)) return "ERR:domain";
  if (n < 1) return "ERR:domain";
  std::vector<Item> items;
  for (int64_t i = 0; i < n; i++)
  {
    Item it{low + i * size, 1, size};
    if (!item_ok(it)) return "ERR:domain";
    items.push_back(it);
  }
  ParTables tab(in.x, in.y, in.z, in.c, 1);
  return eval_items(tab, items);
}

PCV_OP(toplmopar_run)
{
  TIn in = tl_head(a);
  if (!in.err.empty()) return in.err;
  if (a.size() != 8) return "ERR:proto";
  int64_t th, pr, cap, seed;
  if (!tl_nat(a.at(4), th, 4096) || !tl_nat(a.at(5), pr, 1) || !tl_nat(a.at(6), seed, (int64_t) 1 << 60) ||
      !tl_nat(a.at(7), cap, 10000000) || th < 1) return "ERR:domain";
  ParTables tab(in.x, in.y, in.z, in.c, (int) th);
  int64_t whole = toplmopar_local_S2(in.x, in.y, in.z, in.c, 0, tab.primes, tab.lpf, tab.mu, (int) th, false);
  return run_lb(tab, whole, (int) th, pr != 0, (uint64_t) seed * 0x9E3779B97F4A7C15ull + 4242, (size_t) cap);
}
