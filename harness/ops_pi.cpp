// C01 / C05: the prime counting function through every public entry point.
//   entry points:  pi64   primecount::pi(int64_t)
//                  pi128  primecount::pi(int128_t)          (primecount-internal.hpp)
//                  pistr  primecount::pi(const std::string&)
//                  cpi    primecount_pi(int64_t)            (C API)
//                  cpistr primecount_pi_str(const char*, char*, size_t)
//                  cli    <dir of this executable>/primecount <x>
// Everything the library writes to stdout/stderr during a call is discarded.
#include "common.hpp"
#include <primecount.hpp>
#include <primecount.h>
#include <primecount-internal.hpp>
#include <calculator.hpp>

#include <cstdio>
#include <iostream>
#include <cstring>
#include <fcntl.h>
#include <spawn.h>
#include <sys/wait.h>
#include <unistd.h>

extern char** environ;

using namespace pcv;

namespace {

// RAII: fd 1 and fd 2 point to /dev/null while alive (the main loop flushed std::cout before the op)
struct Quiet {
  int o1, o2;
  Quiet() {
    fflush(stdout); fflush(stderr);
    int n = open("/dev/null", O_WRONLY);
    o1 = dup(1); o2 = dup(2);
    dup2(n, 1); dup2(n, 2);
    close(n);
  }
  ~Quiet() {
    fflush(stdout); fflush(stderr);
    std::cout.flush(); std::cerr.flush();
    dup2(o1, 1); dup2(o2, 2);
    close(o1); close(o2);
  }
};

std::string exe_dir()
{
  char buf[4096];
  ssize_t n = readlink("/proc/self/exe", buf, sizeof(buf) - 1);
  if (n <= 0) return ".";
  buf[n] = 0;
  std::string p(buf);
  size_t k = p.rfind('/');
  return k == std::string::npos ? "." : p.substr(0, k);
}

struct CliResult { int status; std::string out; std::string err; };

// run <exe_dir>/primecount args..., capture stdout and stderr
CliResult run_cli(const std::vector<std::string>& args)
{
  CliResult r{-1, "", ""};
  std::string exe = exe_dir() + "/primecount";
  int po[2], pe[2];
  if (pipe(po) != 0 || pipe(pe) != 0) { r.err = "pipe"; return r; }
  posix_spawn_file_actions_t fa;
  posix_spawn_file_actions_init(&fa);
  posix_spawn_file_actions_adddup2(&fa, po[1], 1);
  posix_spawn_file_actions_adddup2(&fa, pe[1], 2);
  posix_spawn_file_actions_addclose(&fa, po[0]);
  posix_spawn_file_actions_addclose(&fa, pe[0]);
  posix_spawn_file_actions_addopen(&fa, 0, "/dev/null", O_RDONLY, 0);
  std::vector<char*> argv;
  argv.push_back(const_cast<char*>(exe.c_str()));
  for (auto& s : args) argv.push_back(const_cast<char*>(s.c_str()));
  argv.push_back(nullptr);
  pid_t pid;
  int rc = posix_spawn(&pid, exe.c_str(), &fa, nullptr, argv.data(), environ);
  posix_spawn_file_actions_destroy(&fa);
  close(po[1]); close(pe[1]);
  if (rc != 0) { close(po[0]); close(pe[0]); r.err = "spawn"; return r; }
  // outputs are small (a number / one error message): sequential reads cannot dead-lock below 64 KiB
  char buf[4096];
  ssize_t n;
  while ((n = read(po[0], buf, sizeof buf)) > 0) r.out.append(buf, (size_t) n);
  while ((n = read(pe[0], buf, sizeof buf)) > 0) r.err.append(buf, (size_t) n);
  close(po[0]); close(pe[0]);
  int st = 0;
  waitpid(pid, &st, 0);
  r.status = WIFEXITED(st) ? WEXITSTATUS(st) : 128 + (WIFSIGNALED(st) ? WTERMSIG(st) : 0);
  return r;
}

std::string trim(const std::string& s)
{
  size_t a = 0, b = s.size();
  while (a < b && (s[a] == '\n' || s[a] == ' ' || s[a] == '\r')) a++;
  while (b > a && (s[b - 1] == '\n' || s[b - 1] == ' ' || s[b - 1] == '\r')) b--;
  return s.substr(a, b - a);
}

std::string canon(std::string s)
{
  for (char& c : s) if (c == ' ' || c == '\n' || c == '\r' || c == '\t' || c == ',' || c == '/' || c == ':') c = '_';
  return s;
}

// "<exit status>:<stdout>:<stderr class>"   stderr class: "-" (empty) or "err"
std::string cli_line(const std::vector<std::string>& args)
{
  CliResult r = run_cli(args);
  return std::to_string(r.status) + ":" + canon(trim(r.out)) + ":" + (r.err.empty() ? "-" : "err");
}

// one value of pi through the named entry point, as text ("ERR:..." for a throw / -1 status)
std::string pi_entry(const std::string& entry, const std::string& x)
{
  try {
    if (entry == "pi64")  return i128s(primecount::pi(parse_i64(x)));
    if (entry == "pi128") return i128s(primecount::pi(parse_i128(x)));
    if (entry == "pistr") return primecount::pi(x);
    if (entry == "cpi")   return i128s(primecount_pi(parse_i64(x)));
    if (entry == "cpistr") {
      char buf[64];
      int n = primecount_pi_str(x.c_str(), buf, sizeof buf);
      if (n < 0) return "ERR:c";
      if ((size_t) n != strlen(buf)) return "ERR:len";
      return std::string(buf);
    }
    if (entry == "cli") {
      CliResult r = run_cli({x});
      if (r.status != 0 || !r.err.empty()) return "ERR:cli" + std::to_string(r.status);
      return canon(trim(r.out));
    }
  }
  catch (const primecount::primecount_error&) { return "ERR:pc"; }
  catch (const calculator::error&) { return "ERR:calc"; }
  catch (const std::bad_alloc&) { return "ERR:alloc"; }
  catch (const std::exception&) { return "ERR:exc"; }
  return "ERR:proto";
}

// protocol sugar: a token "lo..hi" stands for the integers lo, lo+1, ..., hi
std::vector<std::string> expand(const Args& a, size_t from)
{
  std::vector<std::string> r;
  for (size_t i = from; i < a.size(); i++) {
    size_t k = a[i].find("..");
    if (k == std::string::npos || k == 0) { r.push_back(a[i]); continue; }
    int128_t lo = parse_i128(a[i].substr(0, k)), hi = parse_i128(a[i].substr(k + 2));
    for (int128_t v = lo; v <= hi; v++) r.push_back(i128s(v));
  }
  return r;
}

bool is_err(const std::string& s) { return s.rfind("ERR", 0) == 0; }

// difference of two decimal results (both non-negative, second >= first expected); "ERR..." passes through
std::string diff(const std::string& hi, const std::string& lo)
{
  if (is_err(hi)) return hi;
  if (is_err(lo)) return lo;
  return i128s(parse_i128(hi) - parse_i128(lo));
}

} // namespace

// single calls --------------------------------------------------------------------------------
PCV_OP(pi64)  { Quiet q; return pi_entry("pi64", a.at(0)); }
PCV_OP(pi128) { Quiet q; return pi_entry("pi128", a.at(0)); }
PCV_OP(cpi)   { Quiet q; return pi_entry("cpi", a.at(0)); }
// string entry points: the argument travels hex-encoded
PCV_OP(pi_pistr)  { Quiet q; return pi_entry("pistr", unhex(a.at(0))); }
PCV_OP(pi_cpistr) { Quiet q; return pi_entry("cpistr", unhex(a.at(0))); }
// pi_cli <args...> : "<exit status>:<stdout>:<stderr class>"
PCV_OP(pi_cli) { return cli_line(a); }

// pi_batch <entry> x1 x2 lo..hi ... : comma separated results
PCV_OP(pi_batch)
{
  Quiet q;
  std::string r;
  std::vector<std::string> xs = expand(a, 1);
  for (size_t i = 0; i < xs.size(); i++) {
    if (i > 0) r += ",";
    r += pi_entry(a.at(0), xs[i]);
  }
  return r.empty() ? "-" : r;
}

// piwin <entry> a d1 d2 lo..hi ... : pi(a + d_i) - pi(a), comma separated
PCV_OP(piwin)
{
  Quiet q;
  const std::string& e = a.at(0);
  uint128_t lo = parse_u128(a.at(1));
  std::string v0 = pi_entry(e, u128s(lo));
  std::string r;
  std::vector<std::string> ds = expand(a, 2);
  for (size_t i = 0; i < ds.size(); i++) {
    if (i > 0) r += ",";
    r += diff(pi_entry(e, u128s(lo + parse_u128(ds[i]))), v0);
  }
  return r.empty() ? "-" : r;
}

// piall x : the value when every entry point that accepts x returns the same text, else all of them
PCV_OP(piall)
{
  Quiet q;
  const std::string& x = a.at(0);
  bool neg = !x.empty() && x[0] == '-';
  bool fits64 = neg ? (parse_u128(x.substr(1)) <= ((uint128_t) 1 << 63)) : (parse_u128(x) < ((uint128_t) 1 << 63));
  std::vector<std::pair<std::string, std::string>> rs;
  if (fits64) { rs.push_back({"pi64", pi_entry("pi64", x)}); rs.push_back({"cpi", pi_entry("cpi", x)}); }
  rs.push_back({"pi128", pi_entry("pi128", x)});
  if (!neg) {
    rs.push_back({"pistr", pi_entry("pistr", x)});
    rs.push_back({"cpistr", pi_entry("cpistr", x)});
    rs.push_back({"cli", pi_entry("cli", x)});
  }
  bool same = true;
  for (auto& p : rs) if (p.second != rs[0].second) same = false;
  if (same) return rs[0].second;
  std::string r = "DIFF";
  for (auto& p : rs) r += ";" + p.first + "=" + p.second;
  return r;
}
