// C08 / C03 (WP hard): the file-local thread functions of src/deleglise-rivat/S2_hard.cpp and src/gourdon/D.cpp
// on the REAL code.
//
// S2_hard_thread / S2_hard_OpenMP / D_thread / D_OpenMP live in anonymous namespaces, so the two .cpp files are
// compiled into THIS translation unit. Their extern entry points are renamed (S2_hard -> S2_hard_pcv_copy,
// S2_hard_default -> ..., D -> D_pcv_copy, D_default -> ...) so that they cannot clash with (or replace) the objects
// of libprimecount.a; the ops S2_hard / D of ops_alg.cpp and the `whole` value below are the LIBRARY's functions
// (which on an AVX512-VPOPCNT CPU dispatch to S2_hard_multiarch_avx512.cpp / D_multiarch_avx512.cpp, i.e. the
// SAME thread function text compiled with Sieve::count_avx512; the chunk ops below use the default Sieve::count).
// Tables exactly as S2_hard_default / D_default + S2_hard_OpenMP / D_OpenMP build them:
//   S2_hard: FactorTable<uint16_t> factor(y), max_prime = min(y, z / isqrt(y)), generate_primes<uint32_t>(max_prime),
//            PiTable pi(max_prime)            (128-bit entry: uint32_t table / int64_t primes when y > FactorTable<uint16_t>::max())
//   D:       FactorTableD<uint16_t> factor(y, z), generate_primes<uint32_t>(y), PiTable pi(y), xz = x / z,
//            x_star = get_x_star_gourdon(x, y)
// The thread function is called with the unsigned type (UT) x as S2_hard_OpenMP / D_OpenMP do, result cast to T.
//
//   s2hard_chunk <64|128> x y z c low segments segment_size              -> value
//   d_chunk      <64|128> x y z k low segments segment_size              -> value
//   s2hard_chain <64|128> x y z c segment_size low0 segs0 segs1 ...      -> values of the consecutive chunks
//   d_chain      <64|128> x y z k segment_size low0 segs0 segs1 ...         (chunk i: low_i = low_{i-1} + size*segs_{i-1})
//   s2hard_row   <64|128> x y z c low segment_size n                     -> n adjacent chunks of ONE segment each
//   d_row        <64|128> x y z k low segment_size n
//   s2hard_run   <64|128> x y z c threads print seed cap
//   d_run        <64|128> x y z k threads print seed cap
//        R <whole> <get_sum()> <team> <complete> <nev> <ev>...
//        whole = the library's S2_hard(x, y, z, c, approx = 0, threads, false) / D(x, y, z, k, 0, threads, false);
//        then the REAL LoadBalancerS2(x, z | xz, sum_approx = whole, team, print) driven from one OS thread by `team`
//        simulated workers (seeded return order, virtual clock through verif_get_time_hook, as ops_lb.cpp), every
//        work item evaluated by the real thread function; team = what S2_hard_OpenMP / D_OpenMP compute from
//        `threads` (min(threads, (int) pow(limit, 1/3.7)), ideal_num_threads(limit, ., 1 << 20)).
//        ev = w:tlow:tsegs:tsize:tsum:secsbits:initbits:iswork:olow:osegs:osize:sumafter   (the lbs2 encoding)
// Domain (checked here; the code is never called outside it): ERR:domain unless
//   1 <= x (< 2^63 | <= 10^30), 1 <= y <= z <= 2^62, low % 30 == 0, segment_size % 240 == 0, segment_size >= 240,
//   segments >= 1, low / segment_size / segments <= 2^40,
//   S2_hard: c >= 4 or c >= get_c(y) (then max_b <= pi(y) <= c: the b range is empty);
//   D: z <= x, isqrt(z) <= y, k >= 4 or k >= pi(x_star).
//   hardphi x a -> primecount::phi(x, a, 1)
//   (the Sieve has 2, 3, 5 removed by construction and FactorTable holds the numbers coprime to 2*3*5*7*11 only:
//    levels b <= 4 cannot be processed; the real callers pass c = get_c(y), k = get_k(x))
#include "common.hpp"

#include <primecount.hpp>

#include <primecount-internal.hpp>
#include <PiTable.hpp>
#include <FactorTable.hpp>
#include <FactorTableD.hpp>
#include <Sieve.hpp>
#include <fast_div.hpp>
#include <generate_primes.hpp>
#include <phi_vector.hpp>
#include <imath.hpp>
#include <int128_t.hpp>
#include <LoadBalancerS2.hpp>
#include <min.hpp>
#include <print.hpp>
#include <S.hpp>

#include <stdint.h>
#include <cmath>
#include <cstring>
#include <fcntl.h>
#include <iostream>
#include <unistd.h>

#define S2_hard S2_hard_pcv_copy
#define S2_hard_default S2_hard_default_pcv_copy
#include <deleglise-rivat/S2_hard.cpp>
#undef S2_hard
#undef S2_hard_default
// gourdon.hpp has no include guard: it is first seen inside D.cpp (where it declares D_pcv_copy), so the
// library's D is declared by hand afterwards
#define D D_pcv_copy
#define D_default D_default_pcv_copy
#include <gourdon/D.cpp>
#undef D
#undef D_default
namespace primecount {
int64_t D(int64_t x, int64_t y, int64_t z, int64_t k, int64_t d_approx, int threads, bool print);
int128_t D(int128_t x, int64_t y, int64_t z, int64_t k, int128_t d_approx, int threads, bool print);
extern double (*verif_get_time_hook)();
}

using namespace pcv;

namespace {

double hl_now = 0;
double hl_hook() { return hl_now; }

struct HlHookGuard {
  HlHookGuard() { primecount::verif_get_time_hook = hl_hook; }
  ~HlHookGuard() { primecount::verif_get_time_hook = nullptr; }
};

struct HlMute {
  int saved = -1;
  explicit HlMute(bool on)
  {
    if (!on) return;
    std::cout.flush();
    fflush(stdout);
    saved = dup(1);
    int nul = open("/dev/null", O_WRONLY);
    dup2(nul, 1);
    close(nul);
  }
  ~HlMute()
  {
    if (saved < 0) return;
    std::cout.flush();
    fflush(stdout);
    dup2(saved, 1);
    close(saved);
  }
};

uint64_t hl_bits(double d) { uint64_t u; std::memcpy(&u, &d, 8); return u; }

const int64_t HL_BIG = (int64_t) 1 << 40;

struct HIn {
  bool wide = false;
  bool isD = false;
  int128_t x = 0;
  int64_t y = 0, z = 0, c = 0;
  std::string err;
};

int64_t small_pi(int64_t n)
{
  int64_t cnt = 0;
  for (int64_t i = 2; i <= n; i++)
  {
    bool p = true;
    for (int64_t d = 2; d * d <= i; d++) if (i % d == 0) { p = false; break; }
    if (p) cnt++;
  }
  return cnt;
}

bool parse_nat(const std::string& s, int128_t& v, int maxlen)
{
  if (s.empty() || (int) s.size() > maxlen) return false;
  for (char ch : s) if (ch < '0' || ch > '9') return false;
  v = (int128_t) parse_u128(s);
  return true;
}

bool parse_nat64(const std::string& s, int64_t& v, int64_t max)
{
  int128_t t;
  if (!parse_nat(s, t, 19) || t > (int128_t) max) return false;
  v = (int64_t) t;
  return true;
}

// <64|128> x y z c|k
HIn parse_head(bool isD, const Args& a)
{
  HIn in;
  in.isD = isD;
  if (a.size() < 5 || (a.at(0) != "64" && a.at(0) != "128")) { in.err = "ERR:proto"; return in; }
  in.wide = a.at(0) == "128";
  int128_t x;
  int128_t xmax = in.wide ? (int128_t) 1000000000000000ll * (int128_t) 1000000000000000ll : (int128_t) INT64_MAX;
  if (!parse_nat(a.at(1), x, 31) || x < 1 || x > xmax) { in.err = "ERR:domain"; return in; }
  in.x = x;
  if (!parse_nat64(a.at(2), in.y, (int64_t) 1 << 62) || !parse_nat64(a.at(3), in.z, (int64_t) 1 << 62) ||
      !parse_nat64(a.at(4), in.c, 1000000)) { in.err = "ERR:domain"; return in; }
  if (in.y < 1 || in.z < in.y) { in.err = "ERR:domain"; return in; }
  if (!isD)
  {
    int64_t gc = in.y < 20 ? small_pi(in.y) : 8;
    if (!(in.c >= 4 || in.c >= gc)) { in.err = "ERR:domain"; return in; }
  }
  else
  {
    if ((int128_t) in.z > in.x || (int64_t) isqrt(in.z) > in.y) { in.err = "ERR:domain"; return in; }
    if (in.c < 4)
    {
      int64_t xs = get_x_star_gourdon(in.x, in.y);
      // pi(x_star) <= k needs x_star < 11 here
      if (xs >= 11 || small_pi(xs) > in.c) { in.err = "ERR:domain"; return in; }
    }
  }
  return in;
}

struct Item { int64_t low, segments, segment_size; };

bool item_ok(const Item& it)
{
  return it.low >= 0 && it.low % 30 == 0 && it.segment_size >= 240 && it.segment_size % 240 == 0 && it.segments >= 1 &&
         it.low <= HL_BIG && it.segment_size <= HL_BIG && it.segments <= HL_BIG &&
         (int128_t) it.segment_size * it.segments <= (int128_t) HL_BIG;
}

// the tables of one (x, y, z, c|k) and the real thread function on one work item
template <typename T, typename FT, typename P>
struct S2Tables {
  T x; int64_t y, z, c;
  FactorTable<FT> factor;
  Vector<P> primes;
  PiTable pi;
  S2Tables(T x_, int64_t y_, int64_t z_, int64_t c_, int threads)
    : x(x_), y(y_), z(z_), c(c_), factor(y_, threads),
      primes(generate_primes<P>(min(y_, z_ / (int64_t) isqrt(y_)))),
      pi(min(y_, z_ / (int64_t) isqrt(y_)), threads) { }
  int64_t limit() const { return z; }
  T run(ThreadData& thread)
  {
    using UT = typename pstd::make_unsigned<T>::type;
    UT sum = S2_hard_thread((UT) x, y, z, c, primes, pi, factor, thread);
    return (T) sum;
  }
};

template <typename T, typename FT, typename P>
struct DTables {
  T x; int64_t y, z, k, xz, x_star;
  FactorTableD<FT> factor;
  Vector<P> primes;
  PiTable pi;
  DTables(T x_, int64_t y_, int64_t z_, int64_t k_, int threads)
    : x(x_), y(y_), z(z_), k(k_), xz((int64_t) (x_ / z_)), x_star(get_x_star_gourdon(x_, y_)),
      factor(y_, z_, threads), primes(generate_primes<P>(y_)), pi(y_, threads) { }
  int64_t limit() const { return xz; }
  T run(ThreadData& thread)
  {
    using UT = typename pstd::make_unsigned<T>::type;
    UT sum = D_thread((UT) x, x_star, xz, y, z, k, primes, pi, factor, thread);
    return (T) sum;
  }
};

template <typename Tab>
std::string eval_items(Tab& tab, const std::vector<Item>& items)
{
  HlHookGuard hg;
  std::string out;
  for (size_t i = 0; i < items.size(); i++)
  {
    ThreadData t;
    t.low = items[i].low;
    t.segments = items[i].segments;
    t.segment_size = items[i].segment_size;
    hl_now = 1000.0;
    t.start_time();
    auto v = tab.run(t);
    t.stop_time();
    out += (i ? " " : "") + i128s((int128_t) v);
  }
  return out;
}

uint64_t hl_mix(uint64_t& s)
{
  s += 0x9E3779B97F4A7C15ull;
  uint64_t z = s;
  z = (z ^ (z >> 30)) * 0xBF58476D1CE4E5B9ull;
  z = (z ^ (z >> 27)) * 0x94D049BB133111EBull;
  return z ^ (z >> 31);
}

// durations: seeded choice of a "physically consistent" clock (init + len * rate) or letters {0, 1us, 1ms, 1s, 7h}
struct HlClock {
  uint64_t s;
  int alpha;
  double rate = 0, init_base = 0;
  explicit HlClock(uint64_t seed) : s(seed)
  {
    alpha = (int) (hl_mix(s) % 3);
    int e = 24 + (int) (hl_mix(s) % 11);
    rate = 1.0;
    for (int i = 0; i < e; i++) rate /= 2;
    static const double inits[4] = {0.0, 1e-4, 1e-2, 1.0};
    init_base = inits[hl_mix(s) % 4];
  }
  double letter(int i)
  {
    static const double L[5] = {0.0, 1e-6, 1e-3, 1.0, 7 * 3600.0};
    return L[i % 5];
  }
  double dur(int64_t len)
  {
    if (alpha == 1) return init_base + (double) len * rate * (1.0 + (double) (hl_mix(s) % 4));
    if (alpha == 2) { uint64_t r = hl_mix(s) % 64; return r == 0 ? letter(2 + (int) (hl_mix(s) % 3)) : letter((int) (r % 2)); }
    return letter((int) (hl_mix(s) % 5));
  }
  double init(double secs)
  {
    double i = alpha == 1 ? init_base : letter((int) (hl_mix(s) % 5));
    return i < secs ? i : secs;
  }
  double stall()
  {
    uint64_t r = hl_mix(s) % 8;
    return r == 0 ? 1e-6 : (r == 1 ? 0.25 : 0.0);
  }
};

template <typename T, typename Tab>
std::string run_lb(Tab& tab, T whole, int threads, bool print, uint64_t seed, size_t cap)
{
  int64_t limit = tab.limit();
  // S2_hard_OpenMP / D_OpenMP
  int64_t thread_threshold = 1 << 20;
  int max_threads = (int) std::pow(limit, 1 / 3.7);
  int team = std::min(threads, max_threads);
  team = ideal_num_threads(limit, team, thread_threshold);
  if (team < 1) return "R " + i128s((int128_t) whole) + " 0 " + std::to_string(team) + " 0 0";

  HlHookGuard hg;
  HlMute mute(print);
  HlClock ck(seed);
  double clock = 1000.0;
  hl_now = clock;
  LoadBalancerS2 lb((maxint_t) tab.x, limit, (maxint_t) whole, team, print);

  struct W { ThreadData t; bool has = false; int64_t len = 0; double start = 0; int id = 0; };
  std::vector<W> ws((size_t) team);
  std::vector<size_t> active;
  for (size_t i = 0; i < ws.size(); i++) { ws[i].id = (int) i; active.push_back(i); }

  std::string evs;
  size_t nev = 0;
  while (!active.empty() && nev < cap)
  {
    size_t ai = (size_t) (hl_mix(seed) % active.size());
    W& w = ws[active[ai]];
    if (w.has)
    {
      // the worker finishes the work item it holds: the real thread function (it calls thread.init_finished())
      double d = ck.dur(w.len);
      double i = ck.init(d);
      hl_now = w.start + i;
      T v = tab.run(w.t);
      w.t.sum = v;
      hl_now = w.start + d;
      w.t.stop_time();
      if (w.start + d > clock) clock = w.start + d;
    }
    clock += ck.stall();
    hl_now = clock;
    std::string ev = std::to_string(w.id);
    ev += ":" + i128s(w.t.low) + ":" + i128s(w.t.segments) + ":" + i128s(w.t.segment_size) + ":" + i128s(w.t.sum);
    ev += ":" + u128s(hl_bits(w.t.secs)) + ":" + u128s(hl_bits(w.t.init_secs));
    bool is_work = lb.get_work(w.t);
    ev += std::string(":") + (is_work ? "1" : "0");
    ev += ":" + i128s(w.t.low) + ":" + i128s(w.t.segments) + ":" + i128s(w.t.segment_size) + ":" + i128s(lb.get_sum());
    evs += " " + ev;
    nev++;
    if (is_work)
    {
      w.has = true;
      uint64_t hi = (uint64_t) w.t.low + (uint64_t) w.t.segments * (uint64_t) w.t.segment_size;
      w.len = ((hi > (uint64_t) limit) ? limit : (int64_t) hi) - w.t.low;
      w.start = clock;
      hl_now = clock;
      w.t.start_time();
    }
    else
    {
      w.has = false;
      active.erase(active.begin() + (long) ai);
    }
  }
  return "R " + i128s((int128_t) whole) + " " + i128s(lb.get_sum()) + " " + std::to_string(team) + " " +
         (active.empty() ? "1" : "0") + " " + std::to_string(nev) + evs;
}

// mode 0: items ; mode 1: whole run
struct RunArgs { int threads = 1; bool print = false; uint64_t seed = 0; size_t cap = 0; };

template <typename T, typename FT, typename P>
std::string dispatch2(const HIn& in, const std::vector<Item>* items, const RunArgs* ra)
{
  T x = (T) in.x;
  int threads = ra ? ra->threads : 1;
  if (!in.isD)
  {
    S2Tables<T, FT, P> tab(x, in.y, in.z, in.c, threads);
    if (items) return eval_items(tab, *items);
    T whole = primecount::S2_hard(x, in.y, in.z, in.c, (T) 0, ra->threads, false);
    return run_lb<T>(tab, whole, ra->threads, ra->print, ra->seed, ra->cap);
  }
  DTables<T, FT, P> tab(x, in.y, in.z, in.c, threads);
  if (items) return eval_items(tab, *items);
  T whole = primecount::D(x, in.y, in.z, in.c, (T) 0, ra->threads, false);
  return run_lb<T>(tab, whole, ra->threads, ra->print, ra->seed, ra->cap);
}

std::string dispatch(const HIn& in, const std::vector<Item>* items, const RunArgs* ra)
{
  if (!in.wide) return dispatch2<int64_t, uint16_t, uint32_t>(in, items, ra);
  // S2_hard_default(int128_t ...) / D_default(int128_t ...): "uses less memory"
  bool small = in.isD ? in.z <= FactorTableD<uint16_t>::max() : in.y <= FactorTable<uint16_t>::max();
  if (small) return dispatch2<int128_t, uint16_t, uint32_t>(in, items, ra);
  return dispatch2<int128_t, uint32_t, int64_t>(in, items, ra);
}

std::string op_chunk(bool isD, const Args& a)
{
  HIn in = parse_head(isD, a);
  if (!in.err.empty()) return in.err;
  if (a.size() != 8) return "ERR:proto";
  Item it;
  if (!parse_nat64(a.at(5), it.low, HL_BIG) || !parse_nat64(a.at(6), it.segments, HL_BIG) ||
      !parse_nat64(a.at(7), it.segment_size, HL_BIG) || !item_ok(it)) return "ERR:domain";
  std::vector<Item> items{it};
  return dispatch(in, &items, nullptr);
}

std::string op_chain(bool isD, const Args& a)
{
  HIn in = parse_head(isD, a);
  if (!in.err.empty()) return in.err;
  if (a.size() < 8) return "ERR:proto";
  int64_t size, low;
  if (!parse_nat64(a.at(5), size, HL_BIG) || !parse_nat64(a.at(6), low, HL_BIG)) return "ERR:domain";
  std::vector<Item> items;
  for (size_t i = 7; i < a.size(); i++)
  {
    Item it{low, 0, size};
    if (!parse_nat64(a[i], it.segments, HL_BIG) || !item_ok(it)) return "ERR:domain";
    items.push_back(it);
    low += size * it.segments;
  }
  if (items.size() > 100000) return "ERR:domain";
  return dispatch(in, &items, nullptr);
}

std::string op_row(bool isD, const Args& a)
{
  HIn in = parse_head(isD, a);
  if (!in.err.empty()) return in.err;
  if (a.size() != 8) return "ERR:proto";
  int64_t low, size, n;
  if (!parse_nat64(a.at(5), low, HL_BIG) || !parse_nat64(a.at(6), size, HL_BIG) || !parse_nat64(a.at(7), n, 100000))
    return "ERR:domain";
  if (n < 1) return "ERR:domain";
  std::vector<Item> items;
  for (int64_t i = 0; i < n; i++)
  {
    Item it{low + i * size, 1, size};
    if (!item_ok(it)) return "ERR:domain";
    items.push_back(it);
  }
  return dispatch(in, &items, nullptr);
}

std::string op_run(bool isD, const Args& a)
{
  HIn in = parse_head(isD, a);
  if (!in.err.empty()) return in.err;
  if (a.size() != 9) return "ERR:proto";
  RunArgs ra;
  int64_t th, pr, cap;
  int128_t seed;
  if (!parse_nat64(a.at(5), th, 4096) || !parse_nat64(a.at(6), pr, 1) || !parse_nat(a.at(7), seed, 19) ||
      !parse_nat64(a.at(8), cap, 10000000) || th < 1) return "ERR:domain";
  ra.threads = (int) th;
  ra.print = pr != 0;
  ra.seed = (uint64_t) seed * 0x9E3779B97F4A7C15ull + 4242;
  ra.cap = (size_t) cap;
  return dispatch(in, nullptr, &ra);
}

} // namespace

// hardphi x a -> primecount::phi(x, a) (ties the model side's φ evaluator `hlPhi` to the real phi)
PCV_OP(hardphi)
{
  int64_t x, av;
  if (a.size() != 2) return "ERR:proto";
  if (!parse_nat64(a.at(0), x, (int64_t) 1000000000000ll) || !parse_nat64(a.at(1), av, 3000)) return "ERR:domain";
  return i128s(primecount::phi(x, av, 1));
}

PCV_OP(s2hard_chunk) { return op_chunk(false, a); }
PCV_OP(d_chunk)      { return op_chunk(true, a); }
PCV_OP(s2hard_chain) { return op_chain(false, a); }
PCV_OP(d_chain)      { return op_chain(true, a); }
PCV_OP(s2hard_row)   { return op_row(false, a); }
PCV_OP(d_row)        { return op_row(true, a); }
PCV_OP(s2hard_run)   { return op_run(false, a); }
PCV_OP(d_run)        { return op_run(true, a); }
