// C19: Li, Li_inverse, RiemannR, RiemannR_inverse (64- and 128-bit overloads of
// primecount-internal.hpp) on the real code, plus S2_approx / D_approx (which call Li).
//
//   Li|Li_inv|R|R_inv <i64|i128> <x>   ->  "<result> <m> <e>"
//
// <m> <e> is logl((long double) v) printed EXACTLY as the binary fraction m * 2^e (m is the signed
// 64-bit significand of the x87 long double, "0 0" when v <= 0), where v = x for Li/R and v = result
// for the inverses. Floats are never printed as decimal text. The Lean side uses it to cross-check the
// libm logarithm against its own enclosure of log v (the trusted-base item "logl is within 1 ulp").
#include "common.hpp"
#include <primecount-internal.hpp>
#include <cmath>
#include <limits>

using namespace pcv;
using namespace primecount;

static_assert(std::numeric_limits<long double>::digits == 64, "x87 80-bit long double expected");

namespace {

std::string ld_exact(long double v)
{
  if (!(v == v) || v == std::numeric_limits<long double>::infinity() ||
      v == -std::numeric_limits<long double>::infinity())
    return "nan 0";
  if (v == 0)
    return "0 0";
  int e = 0;
  long double f = frexpl(v, &e);          // v = f * 2^e, 0.5 <= |f| < 1
  long double m = ldexpl(f, 64);          // |m| in [2^63, 2^64), an integer (64-bit significand)
  bool neg = m < 0;
  uint128_t mi = (uint128_t) (neg ? -m : m);
  e -= 64;
  while (mi != 0 && (mi & 1) == 0) { mi >>= 1; e++; }   // canonical: odd significand
  return std::string(neg ? "-" : "") + u128s(mi) + " " + std::to_string(e);
}

template <typename T>
std::string with_log(T result, T v)
{
  std::string s = i128s(result) + " ";
  if (v <= 0)
    return s + "0 0";
  return s + ld_exact(logl((long double) v));
}

template <typename T>
std::string run(int fn, T x)
{
  switch (fn) {
    case 0: { T r = Li(x); return with_log<T>(r, x); }
    case 1: { T r = Li_inverse(x); return with_log<T>(r, r); }
    case 2: { T r = RiemannR(x); return with_log<T>(r, x); }
    default: { T r = RiemannR_inverse(x); return with_log<T>(r, r); }
  }
}

std::string dispatch(int fn, const Args& a)
{
  const std::string& ty = a.at(0);
  if (ty == "i64") {
    int128_t v = parse_i128(a.at(1));
    if (v > (int128_t) std::numeric_limits<int64_t>::max() || v < (int128_t) std::numeric_limits<int64_t>::min())
      return "ERR:domain";
    return run<int64_t>(fn, (int64_t) v);
  }
  if (ty == "i128")
    return run<int128_t>(fn, parse_i128(a.at(1)));
  return "ERR:proto";
}

} // namespace

PCV_OP(Li)     { return dispatch(0, a); }
PCV_OP(Li_inv) { return dispatch(1, a); }
PCV_OP(R)      { return dispatch(2, a); }
PCV_OP(R_inv)  { return dispatch(3, a); }

// S2_approx<T>(x, pi_y, p2, s1) and D_approx<T>(x, sigma, phi0, ac, b) of primecount-internal.hpp:
// prints "<Li(x)> <value>"; the model recomputes <value> from <Li(x)> (exact integer arithmetic).
PCV_OP(S2_approx)
{
  const std::string& ty = a.at(0);
  if (ty == "i64") {
    int64_t x = parse_i64(a.at(1));
    return i128s(Li(x)) + " " + i128s(S2_approx<int64_t>(x, parse_i64(a.at(2)), parse_i64(a.at(3)), parse_i64(a.at(4))));
  }
  int128_t x = parse_i128(a.at(1));
  return i128s(Li(x)) + " " + i128s(S2_approx<int128_t>(x, parse_i64(a.at(2)), parse_i128(a.at(3)), parse_i128(a.at(4))));
}

PCV_OP(D_approx)
{
  const std::string& ty = a.at(0);
  if (ty == "i64") {
    int64_t x = parse_i64(a.at(1));
    return i128s(Li(x)) + " " + i128s(D_approx<int64_t>(x, parse_i64(a.at(2)), parse_i64(a.at(3)), parse_i64(a.at(4)), parse_i64(a.at(5))));
  }
  int128_t x = parse_i128(a.at(1));
  return i128s(Li(x)) + " " + i128s(D_approx<int128_t>(x, parse_i128(a.at(2)), parse_i128(a.at(3)), parse_i128(a.at(4)), parse_i128(a.at(5))));
}

// build configuration of the library that matters for C19
PCV_OP(lir_config)
{
#if defined(HAVE_FLOAT128)
  return "f128=1";
#else
  return "f128=0";
#endif
}

// model-only consistency check of the literals gamma and li2 (the harness has nothing to add)
PCV_OP(lir_consts) { return "ok"; }
