// WP top (C02 / C01): the composing functions pi_deleglise_rivat_64/128, pi_gourdon_64/128 and the size dispatcher of
// api.cpp, answered on the model side by lean/PcModel/TopAlgs.lean with EVERY term computed by its L2 loop model
// (Drv/TopAlgs.lean).  The float-derived parameters (y, z) travel from the implementation to the model.
#include "common.hpp"
#include <primecount.hpp>
#include <primecount-internal.hpp>
#include <gourdon.hpp>
#include <imath.hpp>
#include <algorithm>

using namespace pcv;
using namespace primecount;

namespace {

struct TopAlphaGuard {
  ~TopAlphaGuard() { set_alpha(-1); set_alpha_y(-1); set_alpha_z(-1); }
};

void set_milli(void (*f)(double), int64_t m) { if (m < 0) f(-1); else f((double) m / 1000.0); }

// y = (int64_t)(iroot<3>(x) * alpha) as pi_deleglise_rivat_64/128 derive it (pi_deleglise_rivat.cpp 73-75, 112-118)
template <typename T>
int64_t dr_y(T x)
{
  double alpha = get_alpha_deleglise_rivat(x);
  return (int64_t)(iroot<3>(x) * alpha);
}

// (y, z) as pi_gourdon_64/128 derive them (pi_gourdon.cpp 44-62, 107-130)
template <typename T>
std::pair<int64_t, int64_t> gourdon_yz(T x)
{
  auto alpha = get_alpha_gourdon(x);
  double alpha_y = alpha.first;
  double alpha_z = alpha.second;
  int64_t x13 = iroot<3>(x);
  int64_t sqrtx = isqrt(x);
  int64_t y = (int64_t)(x13 * alpha_y);
  y = std::max(y, x13 + 1);
  y = std::min(y, sqrtx - 1);
  y = std::max(y, (int64_t) 1);
  int64_t z = (int64_t)(y * alpha_z);
  z = std::max(z, y);
  z = std::min(z, sqrtx - 1);
  z = std::max(z, (int64_t) 1);
  return { y, z };
}

} // namespace

// top_dr <64|128> x alpha_milli threads  ->  "y result"   (x < 2: "0 result")
PCV_OP(top_dr)
{
  TopAlphaGuard g;
  set_milli(set_alpha, parse_i64(a.at(2)));
  int threads = (int) parse_i64(a.at(3));
  try {
    if (a.at(0) == "64") {
      int64_t x = parse_i64(a.at(1));
      int64_t y = x < 2 ? 0 : dr_y(x);
      return i128s(y) + " " + i128s(pi_deleglise_rivat_64(x, threads, false));
    }
    int128_t x = parse_i128(a.at(1));
    int64_t y = x < 2 ? 0 : dr_y(x);
    return i128s(y) + " " + i128s(pi_deleglise_rivat_128(x, threads, false));
  } catch (const primecount_error&) { return "ERR:pc"; }
}

// top_gourdon <64|128> x alpha_y_milli alpha_z_milli threads  ->  "y z result"
PCV_OP(top_gourdon)
{
  TopAlphaGuard g;
  set_milli(set_alpha_y, parse_i64(a.at(2)));
  set_milli(set_alpha_z, parse_i64(a.at(3)));
  int threads = (int) parse_i64(a.at(4));
  try {
    if (a.at(0) == "64") {
      int64_t x = parse_i64(a.at(1));
      auto yz = x < 2 ? std::make_pair((int64_t) 0, (int64_t) 0) : gourdon_yz(x);
      return i128s(yz.first) + " " + i128s(yz.second) + " " + i128s(pi_gourdon_64(x, threads, false));
    }
    int128_t x = parse_i128(a.at(1));
    auto yz = x < 2 ? std::make_pair((int64_t) 0, (int64_t) 0) : gourdon_yz(x);
    return i128s(yz.first) + " " + i128s(yz.second) + " " + i128s(pi_gourdon_128(x, threads, false));
  } catch (const primecount_error&) { return "ERR:pc"; }
}

// top_api <64|128> x threads  ->  "y z result": pi(int64_t x, threads) / pi(int128_t x, threads);
// (y, z) = Gourdon's parameters when the dispatcher takes that route (x > 1e8), else "0 0"
PCV_OP(top_api)
{
  TopAlphaGuard g;
  int threads = (int) parse_i64(a.at(2));
  try {
    if (a.at(0) == "64") {
      int64_t x = parse_i64(a.at(1));
      auto yz = x <= (int64_t) 1e8 ? std::make_pair((int64_t) 0, (int64_t) 0) : gourdon_yz(x);
      return i128s(yz.first) + " " + i128s(yz.second) + " " + i128s(pi(x, threads));
    }
    int128_t x = parse_i128(a.at(1));
    auto yz = x <= (int128_t) 1e8 ? std::make_pair((int64_t) 0, (int64_t) 0) : gourdon_yz(x);
    return i128s(yz.first) + " " + i128s(yz.second) + " " + i128s(pi(x, threads));
  } catch (const primecount_error&) { return "ERR:pc"; }
}

// top_noprint x threads -> pi_noprint(x, threads) with the same header
PCV_OP(top_noprint)
{
  TopAlphaGuard g;
  int threads = (int) parse_i64(a.at(1));
  int64_t x = parse_i64(a.at(0));
  auto yz = x <= (int64_t) 1e8 ? std::make_pair((int64_t) 0, (int64_t) 0) : gourdon_yz(x);
  return i128s(yz.first) + " " + i128s(yz.second) + " " + i128s(pi_noprint(x, threads));
}
