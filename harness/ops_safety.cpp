// C16 (WP safety): the closed form of P2.cpp:109 at magnitudes where `(a - 2) * (a + 1)` (both operands int64_t)
// leaves int64_t although T = int128_t.
//
//   p2wide x y a b  -> P2((int128_t) x, y, a, threads = 1)   for y < isqrt(x), a = pi(y), b = pi(isqrt(x))
//
// `a` and `b` are part of the op so that the model side (which cannot count primes up to 10^11) can answer; they
// are checked here against the library's own pi() and `ERR:proto` is returned when they are not what the op
// claims (the generator only uses tabulated values of pi(10^k)).  The generator chooses y such that the
// interval (y, isqrt(x)] holds no prime, so the sieved range [isqrt(x), x / y) is a few numbers long and the
// call is instantaneous even for x = 10^24.
#include "common.hpp"

#include <primecount.hpp>
#include <primecount-internal.hpp>
#include <int128_t.hpp>
#include <isqrt.hpp>

using namespace primecount;
using namespace pcv;

PCV_OP(p2wide)
{
  int128_t x = parse_i128(a.at(0));
  int64_t y = parse_i64(a.at(1));
  int64_t pa = parse_i64(a.at(2));
  int64_t pb = parse_i64(a.at(3));
  if (x < 4 || y < 1 || x > (((int128_t) 1) << 100)) return "ERR:domain";
  int64_t sqrtx = (int64_t) isqrt(x);
  if (y >= sqrtx || sqrtx - y > 64) return "ERR:domain";
  if (pi(y) != pa || pi(sqrtx) != pb) return "ERR:proto";
  return i128s(P2(x, y, pa, 1, false));
}
