// Whole command lines on the REAL executable (WP cli, property C13/C20; model: lean/PcModel/Cli.lean).
//
//   cliexec <hex argv[1]> <hex argv[2]> ...   ("-" = empty string; no argument = bare `primecount`)
//       -> "rc=<exit status> err=<class of the stderr message|-> out=<canonical stdout|->"
//          stdout: HELP (the help menu), VERSION, else the non-empty lines ('\r' counts as a line end) with blanks
//          replaced by '_', joined by '|' (at most the last 6 lines)
//   clicall <fn> <x> <a|-> <al> <ay> <az>
//       -> the value `fn(x[, a])` of the library function main's switch calls, computed IN THIS PROCESS (threads = 1),
//          "ERR:pc" when it throws. For the ten formula wrappers (which live in main.cpp, not in the library) the
//          reference is the canonical command line `primecount --number=<x> --<formula> [--alpha=..] [--alpha-y=..] [--alpha-z=..]`
//          (al/ay/az in thousandths, "-" = not set), which the stream cli_terms of C08 ties to the defining sums.
#include "common.hpp"
#include <primecount.hpp>
#include <primecount-internal.hpp>
#include <gourdon.hpp>
#include <cstdio>
#include <cstring>
#include <iostream>
#include <string>
#include <vector>
#include <fcntl.h>
#include <signal.h>
#include <spawn.h>
#include <sys/wait.h>
#include <unistd.h>

extern char** environ;
using namespace pcv;

namespace {

std::string self_dir()
{
  char buf[4096];
  ssize_t n = readlink("/proc/self/exe", buf, sizeof(buf) - 1);
  if (n <= 0) return ".";
  buf[n] = 0;
  std::string p(buf);
  size_t k = p.rfind('/');
  return k == std::string::npos ? "." : p.substr(0, k);
}

struct Run { int status; std::string out, err; };

Run run_exe(const std::vector<std::string>& args)
{
  Run r{-1, "", ""};
  std::string exe = self_dir() + "/primecount";
  int po[2], pe[2];
  if (pipe(po) != 0 || pipe(pe) != 0) { r.err = "pipe"; return r; }
  posix_spawn_file_actions_t fa;
  posix_spawn_file_actions_init(&fa);
  posix_spawn_file_actions_adddup2(&fa, po[1], 1);
  posix_spawn_file_actions_adddup2(&fa, pe[1], 2);
  posix_spawn_file_actions_addclose(&fa, po[0]);
  posix_spawn_file_actions_addclose(&fa, pe[0]);
  posix_spawn_file_actions_addopen(&fa, 0, "/dev/null", O_RDONLY, 0);
  // the child runs under coreutils `timeout` (SIGKILL after 40 s): a command line that starts an endless computation on a
  // changed tree must not survive the harness as an orphan (status 137 is then reported and disagrees with the model)
  static const std::string t0 = "timeout", t1 = "-s", t2 = "KILL", t3 = "40";
  std::vector<char*> argv;
  for (const std::string* t : {&t0, &t1, &t2, &t3}) argv.push_back(const_cast<char*>(t->c_str()));
  argv.push_back(const_cast<char*>(exe.c_str()));
  for (auto& s : args) argv.push_back(const_cast<char*>(s.c_str()));
  argv.push_back(nullptr);
  pid_t pid;
  int rc = posix_spawnp(&pid, "timeout", &fa, nullptr, argv.data(), environ);
  posix_spawn_file_actions_destroy(&fa);
  close(po[1]); close(pe[1]);
  if (rc != 0) { close(po[0]); close(pe[0]); r.err = "spawn"; return r; }
  char buf[4096];
  ssize_t n;
  // outputs are small (help menu 3 KiB, status lines): sequential reads cannot dead-lock below the pipe capacity
  while ((n = read(po[0], buf, sizeof buf)) > 0) { if (r.out.size() < (1u << 20)) r.out.append(buf, (size_t) n); }
  while ((n = read(pe[0], buf, sizeof buf)) > 0) { if (r.err.size() < (1u << 16)) r.err.append(buf, (size_t) n); }
  close(po[0]); close(pe[0]);
  int st = 0;
  waitpid(pid, &st, 0);
  r.status = WIFEXITED(st) ? WEXITSTATUS(st) : 128 + (WIFSIGNALED(st) ? WTERMSIG(st) : 0);
  return r;
}

bool starts(const std::string& s, const char* p) { return s.compare(0, strlen(p), p) == 0; }

std::string err_class(const std::string& e)
{
  if (e.empty()) return "-";
  if (!starts(e, "primecount: ")) return "nomsg";
  std::string m = e.substr(12);
  if (starts(m, "unrecognized option ''")) return "emptyArg";
  if (starts(m, "unrecognized option")) return "unrecognized";
  if (starts(m, "missing value for option")) return "missingValue";
  if (starts(m, "invalid option")) return "invalidOption";
  if (starts(m, "incompatible options")) return "incompatible";
  if (starts(m, "option --phi requires 2 numbers")) return "phiNeeds2";
  if (starts(m, "missing x number")) return "missingX";
  if (starts(m, "x must be < 2^63") || starts(m, "x must be >= -2^63")) return "toInt64";
  return "lib";
}

std::string canon_out(const std::string& o)
{
  if (o.empty()) return "-";
  if (starts(o, "Usage: primecount")) return "HELP";
  if (starts(o, "primecount ") && o.find("BSD 2-Clause License") != std::string::npos) return "VERSION";
  std::vector<std::string> lines;
  std::string cur;
  auto push = [&]() {
    while (!cur.empty() && cur.back() == ' ') cur.pop_back();
    size_t a = 0;
    while (a < cur.size() && cur[a] == ' ') a++;
    cur = cur.substr(a);
    if (!cur.empty()) lines.push_back(cur);
    cur.clear();
  };
  for (char c : o) { if (c == '\n' || c == '\r') push(); else cur += (c == ' ' || c == '|') ? '_' : c; }
  push();
  if (lines.empty()) return "-";
  std::string r;
  size_t from = lines.size() > 6 ? lines.size() - 6 : 0;
  for (size_t i = from; i < lines.size(); i++) { if (!r.empty()) r += "|"; r += lines[i]; }
  return r;
}

std::string fmt_alpha(const std::string& k)
{
  long long v = std::stoll(k);
  char b[64];
  snprintf(b, sizeof b, "%lld.%03lld", v / 1000, v % 1000);
  return b;
}

struct QuietOut {
  int o1;
  QuietOut() { fflush(stdout); std::cout.flush(); int n = open("/dev/null", O_WRONLY); o1 = dup(1); dup2(n, 1); close(n); }
  ~QuietOut() { fflush(stdout); std::cout.flush(); dup2(o1, 1); close(o1); }
};

} // namespace

PCV_OP(cliexec)
{
  std::vector<std::string> args;
  for (auto& h : a) args.push_back(unhex(h));
  Run r = run_exe(args);
  return "rc=" + std::to_string(r.status) + " err=" + err_class(r.err) + " out=" + canon_out(r.out);
}

PCV_OP(clicall)
{
  using namespace primecount;
  const std::string& fn = a.at(0);
  static const char* formulas[] = {"P2", "S1", "S2_trivial", "S2_easy", "S2_hard", "AC", "B", "D", "Phi0", "Sigma"};
  for (const char* f : formulas)
    if (fn == f) {
      std::string o = std::string("--") + f;
      for (char& c : o) if (c == '_') c = '-';
      std::vector<std::string> args = {"--number=" + a.at(1), o};
      if (a.at(3) != "-") args.push_back("--alpha=" + fmt_alpha(a[3]));
      if (a.at(4) != "-") args.push_back("--alpha-y=" + fmt_alpha(a[4]));
      if (a.at(5) != "-") args.push_back("--alpha-z=" + fmt_alpha(a[5]));
      args.push_back("-t1");
      Run r = run_exe(args);
      if (r.status != 0) return "ERR:pc";
      return canon_out(r.out);
    }
  QuietOut q;
  try {
    int128_t x = parse_i128(a.at(1));
    int t = 1;
    bool fits = x >= INT64_MIN && x <= INT64_MAX;
    auto need64 = [&]() { if (!fits) throw std::runtime_error("protocol: 64-bit function called with a wide value"); return (int64_t) x; };
    if (fn == "pi") return i128s(pi(x, t));
    if (fn == "pi_deleglise_rivat") return i128s(pi_deleglise_rivat(x, t));
    if (fn == "pi_deleglise_rivat_64") return i128s(pi_deleglise_rivat_64(need64(), t));
    if (fn == "pi_deleglise_rivat_128") return i128s(pi_deleglise_rivat_128(x, t));
    if (fn == "pi_gourdon") return i128s(pi_gourdon(x, t));
    if (fn == "pi_gourdon_64") return i128s(pi_gourdon_64(need64(), t));
    if (fn == "pi_gourdon_128") return i128s(pi_gourdon_128(x, t));
    if (fn == "pi_legendre") return i128s(pi_legendre(need64(), t));
    if (fn == "pi_lehmer") return i128s(pi_lehmer(need64(), t));
    if (fn == "pi_lmo_parallel") return i128s(pi_lmo_parallel(need64(), t));
    if (fn == "pi_lmo1") return i128s(pi_lmo1(need64()));
    if (fn == "pi_lmo2") return i128s(pi_lmo2(need64()));
    if (fn == "pi_lmo3") return i128s(pi_lmo3(need64()));
    if (fn == "pi_lmo4") return i128s(pi_lmo4(need64()));
    if (fn == "pi_lmo5") return i128s(pi_lmo5(need64()));
    if (fn == "pi_meissel") return i128s(pi_meissel(need64(), t));
    if (fn == "pi_primesieve") return i128s(pi_primesieve(need64()));
    if (fn == "Li") return i128s(Li(x));
    if (fn == "Li_inverse") return i128s(Li_inverse(x));
    if (fn == "RiemannR") return i128s(RiemannR(x));
    if (fn == "RiemannR_inverse") return i128s(RiemannR_inverse(x));
    if (fn == "nth_prime") return i128s(nth_prime(need64(), t));
    if (fn == "phi") return i128s(phi(need64(), parse_i64(a.at(2)), t));
  }
  catch (const primecount_error&) { return "ERR:pc"; }
  catch (const std::bad_alloc&) { return "ERR:alloc"; }
  catch (const std::exception& e) { return std::string("ERR:exc"); }
  return "ERR:proto";
}
