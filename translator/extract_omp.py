"""C10: access summary of every OpenMP region of primecount -> lean/PcGen/OmpRegions.lean (data) and
lean/PcGen/OmpObl.lean (`decide` obligations).  DESIGN.md 6.10.

What is read
  * every `#pragma omp` line under /repo/src and /repo/include (token scan; `_Pragma` is refused),
    the function that contains it (brace/paren scan), and the clang-14 AST of that function
    (`-fopenmp -Xclang -ast-dump=json -Xclang -ast-dump-filter=<function>`): the scan PROPOSES the
    sites, the AST must CONFIRM every one of them (an OMP*Directive node starting at the same file
    offset) and must contain no directive the scan did not see — otherwise the extractor raises.
  * for a function template only the instantiations are analysed (they are fully typed); a site
    without any instantiation in its translation unit raises.
  * in the body of each region every reference to an object declared OUTSIDE the region
    (DeclRefExpr to a VarDecl/ParmVarDecl not declared inside, or `this`) is classified by its
    context, walking up the AST:
        read      under an lvalue-to-rvalue conversion; object of a const member function / const
                  operator; bound to a const reference
        write     operand of = op= ++ -- (also through .field, [index], *p)
        call      object of a non-const member function / operator
        refarg    bound to a non-const reference parameter;  addr: operand of unary &
        alias     initialiser of a non-const reference variable
    anything else raises (the extractor never guesses).
  * protection of every outer object with at least one non-read use (rule, in this order):
        reduction       named in a reduction clause of the region
        private-copy    named in a private/firstprivate/lastprivate clause
        atomic          its type is RelaxedAtomic<..> and its only uses are `operator++`
        lock            its class owns an OmpLock, only public non-const methods are called on it and
                        each of them starts with `LockGuard <x>(lock_)` before touching `*this`
        master          every use (reads too) lies inside `#pragma omp master`
        thread-indexed  members of `*this` written only as array elements (`m_[i]`, `&m_[i]`,
                        `m_[i].f`), directly or in member functions called from the loop, inside
                        `for (int t = 0; t < threads; t++)` work-sharing loops
        UNPROTECTED     otherwise
  * schema tag (rule): thread-indexed object + two `omp for` loops -> twoPhase; thread-indexed
    object + `parallel for` -> disj; a RelaxedAtomic object AND a lock-owning object used -> atomDisp;
    a RelaxedAtomic object -> atom; a lock-owning object -> disp; otherwise -> red.
  * the three lock-owning classes (every class under include/ with an `OmpLock` field): each
    method's access, constness, and whether its body starts with the LockGuard; the expression the
    constructor passes to `lock_.init(..)`; and per region whether `num_threads(v)` is the same `v`
    the dispenser was constructed with (or `v = dispenser.get_threads()`).
  * pinned text (tokens, comments/layout removed, locals renamed v1, v2, ...) of the code the arithmetic
    side conditions were read from: PiTable::init/init_bits/init_count, the FactorTable and
    FactorTableD constructors, LockGuard, OmpLock::init, RelaxedAtomic::operator++.
  * files `*_multiarch_arm_sve.cpp` cannot be parsed on this platform: the function containing the
    pragma must be token-identical to the one in the `*_multiarch_avx512.cpp` sibling (else raise).
"""
import hashlib
import json
import os
import re
import subprocess

CLANG = "clang++-14"
ASSIGN_OPS = {"=", "+=", "-=", "*=", "/=", "%=", "<<=", ">>=", "&=", "|=", "^="}
PASS_CASTS = {"NoOp", "DerivedToBase", "UncheckedDerivedToBase", "ArrayToPointerDecay"}
PASS_NODES = {"ParenExpr", "ExprWithCleanups", "MaterializeTemporaryExpr", "CXXBindTemporaryExpr", "ConstantExpr"}
STMT_NODES = {"CompoundStmt", "IfStmt", "ForStmt", "WhileStmt", "DoStmt", "CapturedDecl", "CapturedStmt", "SwitchStmt",
              "CaseStmt", "DefaultStmt", "OMPMasterDirective", "OMPForDirective", "OMPParallelDirective",
              "OMPParallelForDirective", "CXXForRangeStmt", "LabelStmt", "AttributedStmt"}
FUNC_KINDS = {"FunctionDecl", "CXXMethodDecl", "CXXConstructorDecl", "CXXDestructorDecl", "CXXConversionDecl"}
DEPENDENT_KINDS = {"UnresolvedLookupExpr", "CXXDependentScopeMemberExpr", "UnresolvedMemberExpr",
                   "DependentScopeDeclRefExpr", "CXXUnresolvedConstructExpr"}
KNOWN_DIRECTIVES = {"OMPParallelDirective": "parallel", "OMPParallelForDirective": "parallel for",
                    "OMPForDirective": "for", "OMPMasterDirective": "master"}
KNOWN_CLAUSES = {"num_threads", "reduction", "schedule", "nowait", "private", "firstprivate", "lastprivate", "shared", "default"}
PINNED = [("src/PiTable.cpp", "PiTable::init"), ("src/PiTable.cpp", "PiTable::init_bits"), ("src/PiTable.cpp", "PiTable::init_count"),
          ("include/FactorTable.hpp", "FactorTable::FactorTable"), ("include/FactorTableD.hpp", "FactorTableD::FactorTableD")]


class Shape(ValueError):
    pass


def rd(path):
    """one byte = one character, so that clang's byte offsets index the string"""
    return open(path, "rb").read().decode("latin-1")


# ----------------------------------------------------------------------------- text level

def blank_comments(src):
    """comments, string and character literals replaced by spaces (offsets and newlines kept)"""
    out = list(src)
    i, n = 0, len(src)
    while i < n:
        c = src[i]
        if src.startswith("//", i):
            j = src.find("\n", i)
            j = n if j < 0 else j
            for k in range(i, j):
                out[k] = " "
            i = j
        elif src.startswith("/*", i):
            j = src.find("*/", i + 2)
            if j < 0:
                raise Shape("unterminated comment")
            for k in range(i, j + 2):
                if out[k] != "\n":
                    out[k] = " "
            i = j + 2
        elif c == '"' or c == "'":
            j = i + 1
            while j < n and src[j] != c:
                j += 2 if src[j] == "\\" else 1
            for k in range(i + 1, j):
                if out[k] != "\n":
                    out[k] = " "
            i = j + 1
        else:
            i += 1
    return "".join(out)


TOK = re.compile(r"[A-Za-z_]\w*|\d[\w.]*|::|->|<<=|>>=|<=|>=|==|!=|\+\+|--|\+=|-=|\*=|/=|%=|&=|\|=|\^=|&&|\|\||<<|\S")


def pragma_sites(src):
    """[(offset of '#', pragma text with continuation lines joined)] from comment-free text"""
    if "_Pragma" in src:
        raise Shape("_Pragma operator is not supported")
    sites = []
    for m in re.finditer(r"^[ \t]*#[ \t]*pragma[ \t]+omp\b", src, re.M):
        start = src.index("#", m.start())
        end = start
        while True:
            nl = src.find("\n", end)
            nl = len(src) if nl < 0 else nl
            if src[start:nl].rstrip().endswith("\\"):
                end = nl + 1
                continue
            end = nl
            break
        text = " ".join(src[start:end].replace("\\\n", " ").split())
        sites.append((start, text))
    return sites


def blank_preprocessor(src):
    out = []
    cont = False
    for line in src.split("\n"):
        if cont or line.lstrip().startswith("#"):
            cont = line.rstrip().endswith("\\")
            out.append(" " * len(line))
        else:
            cont = False
            out.append(line)
    return "\n".join(out)


def _strip_template(hdr):
    while hdr and hdr[0] == "template":
        if len(hdr) < 2 or hdr[1] != "<":
            raise Shape("template header not recognised")
        d, k = 0, 1
        while k < len(hdr):
            if hdr[k] == "<":
                d += 1
            elif hdr[k] == ">":
                d -= 1
                if d == 0:
                    break
            elif hdr[k] == ">>":
                d -= 2
                if d <= 0:
                    break
            k += 1
        hdr = hdr[k + 1:]
    return hdr


def enclosing_functions(src_nocomment, offsets):
    """for every offset: qualified name of the function whose body contains it"""
    src = blank_preprocessor(src_nocomment)
    toks = [(m.group(0), m.start()) for m in TOK.finditer(src)]
    stack = []          # (kind, name)
    last_boundary = 0   # index in toks after the last ; { }
    res = {}
    want = sorted(offsets)
    wi = 0
    for idx, (t, off) in enumerate(toks):
        while wi < len(want) and want[wi] < off:
            res[want[wi]] = _innermost(stack, want[wi])
            wi += 1
        if t == "{":
            hdr = _strip_template([x for x, _ in toks[last_boundary:idx]])
            in_func = any(k == "function" for k, _ in stack)
            if in_func:
                stack.append(("block", None))
            elif hdr and hdr[0] == "namespace":
                stack.append(("namespace", None))
            elif hdr and hdr[0] == "extern":
                stack.append(("namespace", None))
            elif hdr and hdr[0] in ("class", "struct", "union", "enum"):
                names = [x for x in hdr[1:] if re.fullmatch(r"[A-Za-z_]\w*", x)]
                if not names:
                    stack.append(("class", "<anonymous>"))
                else:
                    stack.append(("class", names[0]))
            elif "(" in hdr:
                p = hdr.index("(")
                k = p - 1
                parts = []
                while k >= 0 and (re.fullmatch(r"[A-Za-z_]\w*", hdr[k]) or hdr[k] in ("::", "~")):
                    parts.append(hdr[k])
                    if len(parts) >= 2 and re.fullmatch(r"[A-Za-z_]\w*", parts[-1]) and re.fullmatch(r"[A-Za-z_]\w*", parts[-2]):
                        parts.pop()   # return type identifier directly before the name
                        break
                    k -= 1
                name = "".join(reversed(parts)).lstrip(":")
                if not name:
                    raise Shape("function header not recognised near offset %d" % off)
                cls = [n for kk, n in stack if kk == "class"]
                if cls and "::" not in name:
                    name = "::".join(cls) + "::" + name
                stack.append(("function", name))
            else:
                stack.append(("block", None))
            last_boundary = idx + 1
        elif t == "}":
            if not stack:
                raise Shape("unbalanced braces")
            stack.pop()
            last_boundary = idx + 1
        elif t == ";":
            last_boundary = idx + 1
    while wi < len(want):
        res[want[wi]] = _innermost(stack, want[wi])
        wi += 1
    return res


def _innermost(stack, off):
    f = [n for k, n in stack if k == "function"]
    if not f:
        raise Shape("pragma at offset %d is not inside a function body" % off)
    return f[-1]


def parse_pragma(text):
    """'#pragma omp parallel for num_threads(x) reduction(+: s)' -> ('parallel for', [('num_threads','x'),...])"""
    m = re.match(r"#\s*pragma\s+omp\s+(.*)$", text)
    if not m:
        raise Shape("pragma not recognised: " + text)
    rest = m.group(1).strip()
    words = []
    while True:
        mm = re.match(r"([a-z_]+)\b\s*(?!\()", rest)
        if mm and mm.group(1) in ("parallel", "for", "master") and not (mm.group(1) in KNOWN_CLAUSES):
            words.append(mm.group(1))
            rest = rest[mm.end():].strip()
        else:
            break
    directive = " ".join(words)
    if directive not in ("parallel", "parallel for", "for", "master"):
        raise Shape("unsupported OpenMP directive: " + text)
    clauses = []
    while rest:
        mm = re.match(r"([a-z_]+)\s*", rest)
        if not mm or mm.group(1) not in KNOWN_CLAUSES:
            raise Shape("unsupported OpenMP clause in: " + text)
        name = mm.group(1)
        rest = rest[mm.end():]
        arg = None
        if rest.startswith("("):
            d, k = 0, 0
            while k < len(rest):
                if rest[k] == "(":
                    d += 1
                elif rest[k] == ")":
                    d -= 1
                    if d == 0:
                        break
                k += 1
            if d != 0:
                raise Shape("unbalanced clause in: " + text)
            arg = "".join(rest[1:k].split())
            rest = rest[k + 1:]
        rest = rest.lstrip(" ,")
        clauses.append((name, arg))
    return directive, clauses


def norm_tokens(text, local_names=()):
    toks = [m.group(0) for m in TOK.finditer(blank_comments(text))]
    ren = {}
    out = []
    for k, t in enumerate(toks):
        if t in local_names and not (k > 0 and toks[k - 1] in (".", "->", "::")):
            if t not in ren:
                ren[t] = "v%d" % (len(ren) + 1)
            out.append(ren[t])
        else:
            out.append(t)
    return out


# ----------------------------------------------------------------------------- clang AST

_RAW = {}


def _clang_raw(repo, relfile, filt):
    path = os.path.join(repo, relfile)
    cmd = [CLANG, "-std=gnu++17", "-fopenmp", "-Wno-everything", "-Xclang", "-ast-dump=json", "-Xclang",
           "-ast-dump-filter=" + filt, "-fsyntax-only", "-I" + os.path.join(repo, "include"),
           "-I" + os.path.join(repo, "lib/primesieve/include"), "-I" + os.path.join(repo, "src")]
    if "multiarch_avx512" in relfile:
        cmd.append("-DENABLE_MULTIARCH_AVX512_VPOPCNT")
    cmd.append(path)
    p = subprocess.run(cmd, capture_output=True, text=True, timeout=300)
    return p.returncode, p.stdout, p.stderr


def prefetch(repo, pairs):
    """run the clang invocations of `pairs` = [(file, filter)] concurrently"""
    import concurrent.futures as cf
    todo = [pr for pr in sorted(set(pairs)) if (repo,) + pr not in _RAW]
    with cf.ThreadPoolExecutor(max_workers=min(8, max(1, len(todo)))) as ex:
        for pr, res in zip(todo, ex.map(lambda q: _clang_raw(repo, q[0], q[1]), todo)):
            _RAW[(repo,) + pr] = res


def clang_dump(repo, relfile, filt):
    key = (repo, relfile, filt)
    if key not in _RAW:
        _RAW[key] = _clang_raw(repo, relfile, filt)
    rc, txt, err = _RAW[key]
    if rc != 0:
        raise Shape("clang failed on %s: %s" % (relfile, err[-600:]))
    dec = json.JSONDecoder()
    pos, objs = 0, []
    while pos < len(txt):
        while pos < len(txt) and txt[pos] in " \n\r\t":
            pos += 1
        if pos >= len(txt):
            break
        if txt[pos] != "{":
            nl = txt.find("\n", pos)
            pos = len(txt) if nl < 0 else nl + 1
            continue
        o, pos = dec.raw_decode(txt, pos)
        objs.append(o)
    state = {"file": None}
    for o in objs:
        _resolve_files(o, state)
    return objs


def _resolve_files(n, state):
    """clang prints "file" only when it changes: replay the dump order and store the file in every location"""
    if isinstance(n, dict):
        if "offset" in n or "spellingLoc" in n or "expansionLoc" in n:
            if "file" in n:
                state["file"] = n["file"]
            if "offset" in n:
                n["_file"] = state["file"]
        for k, v in n.items():
            if isinstance(v, (dict, list)):
                _resolve_files(v, state)
    elif isinstance(n, list):
        for v in n:
            _resolve_files(v, state)


def begin_loc(n):
    b = n.get("range", {}).get("begin", {})
    if "expansionLoc" in b:
        b = b["expansionLoc"]
    return b.get("_file"), b.get("offset")


def pragma_hash_offset(raw, off):
    """clang reports the start of a directive at `#` or at the `pragma` token: normalise to the `#`"""
    k = off
    while k >= 0 and raw[k] != "\n":
        if raw[k] == "#":
            if raw[k:off].strip("# \t") == "":
                return k
            break
        k -= 1
    raise Shape("no # before directive at offset %d" % off)


def end_off(n):
    e = n.get("range", {}).get("end", {})
    if "expansionLoc" in e:
        e = e["expansionLoc"]
    return e.get("offset", 0) + e.get("tokLen", 0)


def qt(n):
    return n.get("type", {}).get("qualType", "")


def is_const(t):
    return t.startswith("const ")


def kids(n):
    return [c for c in n.get("inner", []) if isinstance(c, dict)]


def contains_kind(n, pred):
    if pred(n):
        return True
    return any(contains_kind(c, pred) for c in kids(n))


def collect(n, pred, out, stop=None):
    if pred(n):
        out.append(n)
        if stop is None or stop(n):
            return
    for c in kids(n):
        collect(c, pred, out, stop)


def functions_with_body(objs):
    """all function-like decls that have a body, with the class they belong to"""
    res = []

    def rec(n, cls):
        k = n.get("kind")
        if k in FUNC_KINDS:
            body = [c for c in kids(n) if c.get("kind") == "CompoundStmt"]
            if body:
                res.append((n, body[-1], cls))
            return
        if k in ("CXXRecordDecl", "ClassTemplateSpecializationDecl"):
            cls = n.get("name")
        for c in kids(n):
            rec(c, cls)
    for o in objs:
        rec(o, None)
    return res


def is_dependent(fn):
    return contains_kind(fn, lambda x: x.get("kind") in DEPENDENT_KINDS or qt(x) == "<dependent type>")


# ----------------------------------------------------------------------------- use classification

def classify_use(stack):
    """stack[-1] is a DeclRefExpr / CXXThisExpr, stack[:-1] its ancestors. -> (kind, detail, path)"""
    cur = stack[-1]
    root_t = qt(cur)
    if cur.get("kind") == "CXXThisExpr":
        constq = is_const(root_t.rstrip("*").strip()) or root_t.startswith("const ")
    else:
        constq = is_const(root_t)
    path = []
    i = len(stack) - 2
    while i >= 0:
        p = stack[i]
        k = p.get("kind")
        ch = kids(p)
        if k in ("ImplicitCastExpr", "CStyleCastExpr", "CXXStaticCastExpr", "CXXFunctionalCastExpr"):
            ck = p.get("castKind")
            if ck == "LValueToRValue":
                return ("read", "", path)
            if ck in PASS_CASTS:
                if is_const(qt(p)):
                    constq = True
                cur, i = p, i - 1
                continue
            raise Shape("cast %s applied to an lvalue of an outer object" % ck)
        if k in PASS_NODES:
            cur, i = p, i - 1
            continue
        if k == "MemberExpr":
            if qt(p) == "<bound member function type>":
                call = stack[i - 1] if i >= 1 else {}
                if call.get("kind") != "CXXMemberCallExpr" or kids(call)[0] is not p:
                    raise Shape("bound member function not called")
                return ("call-const" if constq else "call", p.get("name", "?"), path)
            path.append("." + p.get("name", "?"))
            if is_const(qt(p)):
                constq = True
            cur, i = p, i - 1
            continue
        if k == "CXXOperatorCallExpr":
            callee, args = ch[0], ch[1:]
            dres = []
            collect(callee, lambda x: x.get("kind") == "DeclRefExpr", dres)
            if not dres:
                raise Shape("operator call without resolved callee")
            op = dres[0].get("referencedDecl", {}).get("name", "?")
            member = dres[0].get("referencedDecl", {}).get("kind") == "CXXMethodDecl"
            fconst = bool(re.search(r"\)\s*const\b", qt(callee)))
            if args and args[0] is cur and member:
                if op == "operator[]":
                    if fconst or constq or p.get("valueCategory") != "lvalue":
                        return ("read", "", path + ["[]"])
                    path.append("[]")
                    cur, i = p, i - 1
                    continue
                return ("call-const" if (fconst or constq) else "call", op, path)
            if constq or is_const(qt(cur)):
                return ("read", "", path)
            return ("refarg", op, path)
        if k in ("CallExpr", "CXXMemberCallExpr", "CXXConstructExpr", "CXXTemporaryObjectExpr"):
            if constq or is_const(qt(cur)):
                return ("read", "", path)
            name = "?"
            if ch:
                dres = []
                collect(ch[0], lambda x: x.get("kind") in ("DeclRefExpr", "MemberExpr"), dres)
                if dres:
                    name = dres[0].get("referencedDecl", {}).get("name") or dres[0].get("name", "?")
            if k in ("CXXConstructExpr", "CXXTemporaryObjectExpr"):
                name = "constructor of " + qt(p)
            return ("refarg", name, path)
        if k == "ArraySubscriptExpr":
            if ch and ch[0] is cur:
                path.append("[]")
                cur, i = p, i - 1
                continue
            raise Shape("outer object used as a subscript lvalue")
        if k == "UnaryOperator":
            op = p.get("opcode")
            if op in ("++", "--"):
                return ("write", op, path)
            if op == "&":
                return ("addr", "&", path)
            if op == "*":
                path.append("*")
                cur, i = p, i - 1
                continue
            raise Shape("unary %s on an lvalue of an outer object" % op)
        if k in ("BinaryOperator", "CompoundAssignOperator"):
            op = p.get("opcode")
            if op in ASSIGN_OPS and ch and ch[0] is cur:
                return ("write", op, path)
            if op == ",":
                if ch[-1] is cur:
                    cur, i = p, i - 1
                    continue
                return ("none", "", path)
            raise Shape("operator %s on an lvalue of an outer object" % op)
        if k == "VarDecl":
            t = qt(p)
            if t.endswith("&") or t.endswith("&&"):
                if is_const(t) or constq:
                    return ("read", "", path)
                return ("alias", p.get("name", "?"), path)
            raise Shape("outer lvalue initialises a non-reference variable without conversion")
        if k in STMT_NODES or k == "DeclStmt" or k == "ReturnStmt":
            return ("none", "", path)
        raise Shape("unrecognised context %s of an outer object" % k)
    return ("none", "", path)


WRITE_KINDS = {"write", "call", "refarg", "addr", "alias"}


def analyse_body(body, local_ids):
    """uses of outer objects in `body`: {name: {type, uses:[(kind, detail, path, in_master)]}}; nested directives"""
    uses = {}
    nested = []

    def rec(n, stack, in_master, in_for):
        k = n.get("kind")
        stack = stack + [n]
        if k in ("OMPParallelDirective", "OMPParallelForDirective") and len(stack) > 1:
            raise Shape("nested parallel region")
        if k and k.startswith("OMP") and k.endswith("Directive") and k not in KNOWN_DIRECTIVES:
            raise Shape("unsupported directive " + k)
        if k == "OMPMasterDirective":
            nested.append(("master", begin_loc(n)[1], n))
            for c in kids(n):
                rec(c, stack, True, in_for)
            return
        if k == "OMPForDirective":
            nested.append(("for", begin_loc(n)[1], n))
            for c in kids(n):
                if c.get("kind") == "CapturedStmt":
                    rec(c, stack, in_master, n)
            return
        if k == "CapturedStmt":
            cd = [c for c in kids(n) if c.get("kind") == "CapturedDecl"]
            if len(cd) != 1:
                raise Shape("CapturedStmt shape")
            rec(kids(cd[0])[0], stack + [cd[0]], in_master, in_for)
            return
        if k == "LambdaExpr":
            raise Shape("lambda inside a parallel region")
        if k == "DeclRefExpr":
            rd = n.get("referencedDecl", {})
            if rd.get("kind") in ("VarDecl", "ParmVarDecl") and rd.get("id") not in local_ids:
                kind, detail, path = classify_use(stack)
                u = uses.setdefault(rd.get("name"), {"type": qt(n), "uses": [], "id": rd.get("id")})
                u["uses"].append((kind, detail, path, in_master, id(in_for) if in_for else None))
            elif rd.get("kind") not in ("VarDecl", "ParmVarDecl", "FunctionDecl", "CXXMethodDecl", "EnumConstantDecl",
                                        "NonTypeTemplateParmDecl", "CXXConstructorDecl", "BindingDecl"):
                raise Shape("reference to a %s" % rd.get("kind"))
        if k == "CXXThisExpr":
            kind, detail, path = classify_use(stack)
            root = "this->" + path[0][1:] if path and path[0].startswith(".") else "*this"
            u = uses.setdefault(root, {"type": qt(n), "uses": [], "id": "this"})
            u["uses"].append((kind, detail, path, in_master, id(in_for) if in_for else None))
        for c in kids(n):
            rec(c, stack, in_master, in_for)

    rec(body, [], False, None)
    return uses, nested


def local_decl_ids(n):
    """declarations inside `n` that every thread has its own instance of (block-scope `static` objects are shared)"""
    out = []
    collect(n, lambda x: x.get("kind") in ("VarDecl", "ParmVarDecl", "BindingDecl"), out, stop=lambda x: False)
    return set(x.get("id") for x in out if not (x.get("storageClass") in ("static", "extern") and not x.get("tls")))


def local_decl_names(n):
    out = []
    collect(n, lambda x: x.get("kind") in ("VarDecl", "ParmVarDecl"), out, stop=lambda x: False)
    return set(x.get("name") for x in out if x.get("name"))


def canonical_thread_loop(forstmt, threads_name):
    """for (int t = 0; t < threads; t++)"""
    ch = forstmt.get("inner", [])
    if forstmt.get("kind") != "ForStmt" or len(ch) != 5:
        return False
    init, _, cond, inc, _ = ch
    try:
        v = kids(init)[0]
        if v.get("kind") != "VarDecl" or qt(v) != "int" or kids(v)[0].get("kind") != "IntegerLiteral" or kids(v)[0].get("value") != "0":
            return False
        if cond.get("opcode") != "<":
            return False
        l, r = kids(cond)
        ld, rdd = [], []
        collect(l, lambda x: x.get("kind") == "DeclRefExpr", ld)
        collect(r, lambda x: x.get("kind") == "DeclRefExpr", rdd)
        if len(ld) != 1 or len(rdd) != 1 or ld[0]["referencedDecl"]["id"] != v["id"] or rdd[0]["referencedDecl"]["name"] != threads_name:
            return False
        if inc.get("kind") != "UnaryOperator" or inc.get("opcode") != "++":
            return False
        idr = []
        collect(inc, lambda x: x.get("kind") == "DeclRefExpr", idr)
        return len(idr) == 1 and idr[0]["referencedDecl"]["id"] == v["id"]
    except (IndexError, KeyError, ValueError):
        return False


# ----------------------------------------------------------------------------- lock-owning classes

def lock_classes(repo):
    """{class: {file, methods:[...], lockInit, getThreads}} for every class under include/ with an OmpLock field"""
    res = {}
    inc = os.path.join(repo, "include")
    for f in sorted(os.listdir(inc)):
        if not f.endswith(".hpp") or f == "OmpLock.hpp":
            continue
        src = blank_comments(rd(os.path.join(inc, f)))
        if not re.search(r"\bOmpLock\s+\w+\s*;", src):
            continue
        for m in re.finditer(r"\b(class|struct)\s+(\w+)[^;{]*\{", src):
            d, k = 0, m.end() - 1
            while k < len(src):
                if src[k] == "{":
                    d += 1
                elif src[k] == "}":
                    d -= 1
                    if d == 0:
                        break
                k += 1
            if re.search(r"\bOmpLock\s+\w+\s*;", src[m.end():k]):
                res[m.group(2)] = {"header": "include/" + f}
    if not res:
        raise Shape("no class with an OmpLock member found")
    # implementation files
    for cls in sorted(res):
        cands = []
        for base, _, files in os.walk(os.path.join(repo, "src")):
            for fn in files:
                if fn == cls + ".cpp":
                    cands.append(os.path.relpath(os.path.join(base, fn), repo))
        if len(cands) != 1:
            raise Shape("implementation file of %s not found" % cls)
        res[cls]["file"] = cands[0]
    prefetch(repo, [(res[cls]["file"], cls) for cls in res])
    for cls in sorted(res):
        res[cls].update(analyse_lock_class(repo, res[cls]["file"], cls))
    return res


def touches_this(n):
    return contains_kind(n, lambda x: x.get("kind") == "CXXThisExpr")


def analyse_lock_class(repo, relfile, cls):
    objs = clang_dump(repo, relfile, cls)
    rec = None
    for o in objs:
        if o.get("kind") == "CXXRecordDecl" and o.get("name") == cls and any(c.get("kind") == "FieldDecl" for c in kids(o)):
            rec = o
    if rec is None:
        raise Shape("class %s not found in AST" % cls)
    access = "public" if rec.get("tagUsed") == "struct" else "private"
    decls = {}
    lock_fields = []
    for c in kids(rec):
        k = c.get("kind")
        if k == "AccessSpecDecl":
            access = c.get("access")
        elif k == "FieldDecl" and qt(c).endswith("OmpLock"):
            lock_fields.append(c.get("name"))
        elif k == "CXXMethodDecl" and not c.get("isImplicit"):
            if c.get("name", "").startswith("operator="):
                continue
            decls[c["id"]] = dict(name=c["name"], public=(access == "public"),
                                  const=bool(re.search(r"\)\s*const\b", qt(c))), body=None,
                                  static=c.get("storageClass") == "static")
            body = [x for x in kids(c) if x.get("kind") == "CompoundStmt"]
            if body:
                decls[c["id"]]["body"] = body[-1]
    if len(lock_fields) != 1:
        raise Shape("%s: expected exactly one OmpLock field" % cls)
    lockf = lock_fields[0]
    ctor_bodies = []
    for o in objs:
        if o.get("kind") == "CXXMethodDecl" and o.get("previousDecl") in decls:
            body = [x for x in kids(o) if x.get("kind") == "CompoundStmt"]
            if body:
                decls[o["previousDecl"]]["body"] = body[-1]
        if o.get("kind") == "CXXConstructorDecl" and o.get("name") == cls:
            body = [x for x in kids(o) if x.get("kind") == "CompoundStmt"]
            if body:
                ctor_bodies.append((o, body[-1]))
    for c in kids(rec):
        if c.get("kind") == "CXXConstructorDecl" and not c.get("isImplicit"):
            body = [x for x in kids(c) if x.get("kind") == "CompoundStmt"]
            if body:
                ctor_bodies.append((c, body[-1]))
    methods = []
    get_threads = None
    for d in decls.values():
        if d["static"]:
            continue
        if d["body"] is None:
            raise Shape("%s::%s has no body in %s" % (cls, d["name"], relfile))
        starts = False
        for st in kids(d["body"]):
            if st.get("kind") == "DeclStmt":
                vs = [v for v in kids(st) if v.get("kind") == "VarDecl"]
                if len(vs) == 1 and qt(vs[0]).endswith("LockGuard"):
                    me = []
                    collect(vs[0], lambda x: x.get("kind") == "MemberExpr", me)
                    if len(me) == 1 and me[0].get("name") == lockf and kids(me[0]) and kids(me[0])[0].get("kind") == "CXXThisExpr":
                        starts = True
                    break
            if touches_this(st):
                break
        methods.append(dict(name=d["name"], public=d["public"], const=d["const"], lockguard=starts))
        if d["name"] == "get_threads" and d["const"]:
            sts = kids(d["body"])
            me = []
            collect(d["body"], lambda x: x.get("kind") == "MemberExpr", me)
            if len(sts) == 1 and sts[0].get("kind") == "ReturnStmt" and len(me) == 1:
                get_threads = me[0].get("name")
    if len(ctor_bodies) != 1:
        raise Shape("%s: expected exactly one user-provided constructor" % cls)
    ctor, cbody = ctor_bodies[0]
    params = [p.get("name") for p in kids(ctor) if p.get("kind") == "ParmVarDecl"]
    inits = []
    collect(cbody, lambda x: x.get("kind") == "CXXMemberCallExpr" and kids(x) and kids(x)[0].get("name") == "init"
            and kids(kids(x)[0]) and kids(kids(x)[0])[0].get("name") == lockf, inits)
    if len(inits) != 1:
        raise Shape("%s: expected exactly one %s.init(..) in the constructor" % (cls, lockf))
    arg = kids(inits[0])[1:]
    if len(arg) != 1:
        raise Shape("%s: %s.init takes one argument" % (cls, lockf))
    ad, am = [], []
    collect(arg[0], lambda x: x.get("kind") == "DeclRefExpr", ad)
    collect(arg[0], lambda x: x.get("kind") == "MemberExpr", am)
    nodes = []
    collect(arg[0], lambda x: x.get("kind") not in ("ImplicitCastExpr", "CXXThisExpr"), nodes, stop=lambda x: False)
    if len(nodes) != 1:
        raise Shape("%s: argument of %s.init is not a plain variable" % (cls, lockf))
    if ad and ad[0]["referencedDecl"]["kind"] == "ParmVarDecl":
        lock_init = "param:%d" % params.index(ad[0]["referencedDecl"]["name"])
    elif am and kids(am[0]) and kids(am[0])[0].get("kind") == "CXXThisExpr":
        lock_init = "field:" + am[0].get("name")
    else:
        raise Shape("%s: argument of %s.init not recognised" % (cls, lockf))
    return dict(methods=sorted(methods, key=lambda m: m["name"]), lockInit=lock_init, getThreads=get_threads, lockField=lockf)


# ----------------------------------------------------------------------------- regions

def written_by_this_calls(objs, cls, names, seen=None):
    """element-only writes of member functions `names` of `cls` to *this: returns list of (member, path) or raises"""
    seen = seen or set()
    res = []
    for fn, body, c in functions_with_body(objs):
        if fn.get("kind") != "CXXMethodDecl" or fn.get("name") not in names or (fn.get("name"), fn.get("id")) in seen:
            continue
        seen.add((fn.get("name"), fn.get("id")))
        uses, nested = analyse_body(body, local_decl_ids(fn))
        if nested:
            raise Shape("directive inside callee " + fn.get("name"))
        for name, u in uses.items():
            if u["id"] != "this":
                continue
            for kind, detail, path, _, _ in u["uses"]:
                if kind in WRITE_KINDS:
                    if kind == "call":
                        raise Shape("callee %s calls non-const member %s" % (fn.get("name"), detail))
                    res.append((name, path, kind))
    return res


def tie_team_to_lock(fn_body, directive_node, lb_var_ids, classes, num_threads_var):
    """the variable in num_threads(..) is the one the dispenser's lock was initialised with"""
    if num_threads_var is None:
        return False
    tied = False
    for st in kids(fn_body):
        if st is directive_node or contains_kind(st, lambda x: x is directive_node):
            return tied
        # construction of a dispenser
        vds = []
        collect(st, lambda x: x.get("kind") == "VarDecl", vds)
        for v in vds:
            cname = qt(v).replace("primecount::", "")
            if cname in classes:
                li = classes[cname]["lockInit"]
                ce = [c for c in kids(v) if c.get("kind") == "CXXConstructExpr"]
                if len(ce) != 1:
                    raise Shape("construction of %s not recognised" % cname)
                if li.startswith("param:"):
                    a = kids(ce[0])[int(li[6:])]
                    dr = []
                    collect(a, lambda x: x.get("kind") == "DeclRefExpr", dr)
                    nn = []
                    collect(a, lambda x: x.get("kind") != "ImplicitCastExpr", nn, stop=lambda x: False)
                    tied = len(nn) == 1 and len(dr) == 1 and dr[0]["referencedDecl"]["name"] == num_threads_var
                else:
                    tied = False
                continue
        # writes to the variable
        if st.get("kind") in ("BinaryOperator", "CompoundAssignOperator") and st.get("opcode") in ASSIGN_OPS:
            l, r = kids(st)
            if l.get("kind") == "DeclRefExpr" and l["referencedDecl"]["name"] == num_threads_var:
                tied = False
                if st.get("opcode") == "=" and r.get("kind") == "CXXMemberCallExpr":
                    me = kids(r)[0]
                    dr = []
                    collect(me, lambda x: x.get("kind") == "DeclRefExpr", dr)
                    if me.get("name") == "get_threads" and len(dr) == 1:
                        cname = qt(dr[0]).replace("primecount::", "").replace("const ", "")
                        if cname in classes and classes[cname]["lockInit"] == "field:" + str(classes[cname]["getThreads"]):
                            tied = True
        elif contains_kind(st, lambda x: x.get("kind") in ("BinaryOperator", "CompoundAssignOperator", "UnaryOperator")
                           and x.get("opcode") in (ASSIGN_OPS | {"++", "--"}) and kids(x)
                           and kids(x)[0].get("kind") == "DeclRefExpr" and kids(x)[0]["referencedDecl"]["name"] == num_threads_var):
            tied = False
    raise Shape("directive not found among the statements of its function")


def analyse_region(fn, fn_body, dnode, pragma_text, classes, objs, cls_name, src_text):
    directive, clauses = parse_pragma(pragma_text)
    if KNOWN_DIRECTIVES.get(dnode["kind"]) != directive:
        raise Shape("pragma text %r and AST node %s disagree" % (pragma_text, dnode["kind"]))
    ch = kids(dnode)
    cap = [c for c in ch if c.get("kind") == "CapturedStmt"]
    nclause_ast = len([c for c in dnode.get("inner", []) if isinstance(c, dict) and "kind" not in c])
    nclause_txt = len([c for c in clauses if c[1] is not None])
    if len(cap) != 1 or nclause_ast != nclause_txt:
        raise Shape("clauses of %r: AST has %d, text has %d" % (pragma_text, nclause_ast, nclause_txt))
    cd = [c for c in kids(cap[0]) if c.get("kind") == "CapturedDecl"][0]
    body = kids(cd)[0]
    uses, nested = analyse_body(body, local_decl_ids(body))
    red_vars, priv_vars, nt_var = set(), set(), None
    for name, arg in clauses:
        if name == "reduction":
            m = re.fullmatch(r"([-+*&|^]|&&|\|\||min|max):([\w,]+)", arg or "")
            if not m:
                raise Shape("reduction clause not recognised: %s" % arg)
            red_vars |= set(m.group(2).split(","))
        elif name in ("private", "firstprivate", "lastprivate"):
            priv_vars |= set((arg or "").split(","))
        elif name == "num_threads":
            if re.fullmatch(r"[A-Za-z_]\w*", arg or ""):
                nt_var = arg
        elif name in ("shared", "default"):
            raise Shape("clause %s is not handled" % name)
    # nested directives: pragma text from the source
    nested_out = []
    for kind, off, node in nested:
        off = pragma_hash_offset(src_text, off)
        line_end = src_text.find("\n", off)
        txt = " ".join(src_text[off:line_end].split())
        k = off
        while src_text[k:line_end].rstrip().endswith("\\"):
            k = line_end + 1
            line_end = src_text.find("\n", k)
            txt = " ".join(src_text[off:line_end].replace("\\\n", " ").split())
        nd, ncl = parse_pragma(txt)
        if nd != kind:
            raise Shape("nested pragma text %r and AST node disagree" % txt)
        for cn, ca in ncl:
            if cn in ("reduction", "private", "firstprivate", "lastprivate", "shared", "default", "num_threads"):
                raise Shape("clause %s on a nested directive is not handled" % cn)
        nested_out.append((kind, [c[0] + ("(" + c[1] + ")" if c[1] else "") for c in ncl], off, node))
    # work-sharing loops
    loops = []
    if directive == "parallel for":
        loops.append(body)
    for kind, _, off, node in nested_out:
        if kind == "for":
            c2 = [c for c in kids(node) if c.get("kind") == "CapturedStmt"][0]
            cd2 = [c for c in kids(c2) if c.get("kind") == "CapturedDecl"][0]
            loops.append(kids(cd2)[0])
    canonical = bool(loops) and nt_var is not None and all(canonical_thread_loop(l, nt_var) for l in loops)
    for l in loops:
        if l.get("kind") != "ForStmt":
            raise Shape("work-sharing construct is not a for loop")
    # protections
    written = []
    lb_calls = set()
    has_atomic = has_lock = has_tidx = False
    for name in sorted(uses):
        u = uses[name]
        t = u["type"].replace("primecount::", "")
        t_nc = re.sub(r"^const ", "", t)
        w = [x for x in u["uses"] if x[0] in WRITE_KINDS]
        is_atomic_t = bool(re.match(r"(\(anonymous namespace\)::)?RelaxedAtomic<", t_nc)) or t_nc.startswith("std::atomic<")
        is_lock_t = t_nc in classes
        has_atomic |= is_atomic_t
        has_lock |= is_lock_t
        if is_lock_t:
            for x in u["uses"]:
                if x[0] in ("call", "call-const"):
                    lb_calls.add((t_nc, x[1]))
        if not w:
            if is_lock_t and u["uses"]:
                written.append(dict(name=name, type=t, prot="unprotected",
                                    how="reads the dispenser without its lock: " + ", ".join(sorted(set(x[1] or x[0] for x in u["uses"])))))
            continue
        how = ", ".join(sorted(set((x[0] + " " + x[1]).strip() + ("" if not x[2] else " via " + "".join(x[2])) for x in w)))
        if name in red_vars:
            prot = "reduction"
        elif name in priv_vars:
            prot = "privateCopy"
        elif is_atomic_t:
            prot = "atomic" if all(x[0] == "call" and x[1] == "operator++" and not x[2] for x in u["uses"]) else "unprotected"
        elif is_lock_t:
            ok = True
            for x in u["uses"]:
                if x[0] != "call" or x[2]:
                    ok = False
                    continue
                ms = [m for m in classes[t_nc]["methods"] if m["name"] == x[1]]
                if not ms or not all(m["public"] and not m["const"] and m["lockguard"] for m in ms):
                    ok = False
            prot = "lock" if ok else "unprotected"
            if not ok:
                badm = sorted(set((x[0] + " " + x[1]).strip() for x in u["uses"] if x[0] != "call" or x[2] or not all(
                    m["public"] and not m["const"] and m["lockguard"] for m in classes[t_nc]["methods"] if m["name"] == x[1])))
                how += " (not a public non-const method starting with LockGuard: %s)" % ", ".join(badm)
        elif all(x[3] for x in u["uses"]):
            prot = "master"
        elif u["id"] == "this" and canonical and (directive == "parallel for" or all(x[4] is not None for x in w)):
            elems = []
            ok = True
            for x in w:
                if x[0] == "call":
                    try:
                        sub = written_by_this_calls(objs, cls_name, {x[1]})
                    except Shape as e:
                        sub = [("?", [], str(e))]
                    for (mn, pth, kd) in sub:
                        if not (len(pth) >= 2 and pth[0].startswith(".") and pth[1] == "[]"):
                            ok = False
                        elems.append(mn)
                elif not (len(x[2]) >= 2 and x[2][0].startswith(".") and x[2][1] == "[]"):
                    ok = False
            prot = "threadIndexed" if ok else "unprotected"
            if elems:
                how += " -> elements of " + ", ".join(sorted(set(elems)))
            has_tidx |= ok
        else:
            prot = "unprotected"
        written.append(dict(name=name, type=t, prot=prot, how=how))
    nfor = len([1 for k, _, _, _ in nested_out if k == "for"])
    if has_tidx and directive == "parallel" and nfor == 2:
        schema = "twoPhase"
    elif has_tidx and directive == "parallel for":
        schema = "disj"
    elif has_atomic and has_lock:
        schema = "atomDisp"
    elif has_atomic:
        schema = "atom"
    elif has_lock:
        schema = "disp"
    else:
        schema = "red"
    tied = tie_team_to_lock(fn_body, dnode, None, classes, nt_var) if has_lock else False
    return dict(directive=directive, clauses=[c[0] + ("(" + c[1] + ")" if c[1] is not None else "") for c in clauses],
                clauseNames=[c[0] for c in clauses], schema=schema, written=written,
                nested=[(k, cl) for k, cl, _, _ in nested_out], lbCalls=sorted(lb_calls), tied=tied)


def source_files(repo):
    out = []
    for top in ("src", "include"):
        for base, dirs, files in os.walk(os.path.join(repo, top)):
            dirs.sort()
            for f in sorted(files):
                if f.endswith((".cpp", ".hpp", ".h")):
                    out.append(os.path.relpath(os.path.join(base, f), repo))
    return out


def including_tu(repo, header):
    """a translation unit that includes the header and (textually) instantiates its class template `<stem><...>`"""
    name = os.path.basename(header)
    c = []
    for f in source_files(repo):
        if f.startswith("src/") and f.endswith(".cpp") and "arm_sve" not in f and "/app/" not in f:
            if re.search(r'#\s*include\s*[<"]%s[>"]' % re.escape(name), rd(os.path.join(repo, f))):
                c.append(f)
    if not c:
        raise Shape("no translation unit includes " + header)
    stem = os.path.splitext(name)[0]
    inst = [f for f in sorted(c) if re.search(r"\b%s\s*<" % re.escape(stem), blank_comments(rd(os.path.join(repo, f))))]
    return (inst or sorted(c))[0]


def fn_text_tokens(repo, relfile, fn_node, alpha=True):
    f, b = begin_loc(fn_node)
    e = end_off(fn_node)
    text = rd(os.path.join(repo, relfile))[b:e]
    return norm_tokens(text, local_decl_names(fn_node) if alpha else ())


def merge_regions(recs):
    """same region seen in several instantiations: identical structure required, uses united"""
    base = recs[0]
    for r in recs[1:]:
        for key in ("directive", "clauses", "schema", "nested", "lbCalls", "tied"):
            if r[key] != base[key]:
                raise Shape("instantiations of one region disagree on %s" % key)
        names = {w["name"]: w for w in base["written"]}
        for w in r["written"]:
            if w["name"] not in names:
                base["written"].append(w)
            elif names[w["name"]]["prot"] != w["prot"]:
                raise Shape("instantiations disagree on the protection of %s" % w["name"])
    base["written"].sort(key=lambda w: w["name"])
    return base


def extract_regions(repo):
    classes = lock_classes(repo)
    regions, aliases, pinned = [], [], {}
    sites_total = 0
    by_file = {}
    for rel in source_files(repo):
        raw = rd(os.path.join(repo, rel))
        nc = blank_comments(raw)
        sites = pragma_sites(nc)
        if sites:
            by_file[rel] = (raw, nc, sites)
            sites_total += len(sites)
    def filter_of(fname):
        return fname.split("::")[0] if (fname.split("::")[0] == fname.split("::")[-1] and "::" in fname) else fname
    pairs = []
    for rel in sorted(by_file):
        if "arm_sve" not in rel:
            raw, nc, sites = by_file[rel]
            tu = rel if rel.endswith(".cpp") else including_tu(repo, rel)
            for fname in set(enclosing_functions(nc, [o for o, _ in sites]).values()):
                pairs.append((tu, filter_of(fname)))
    prefetch(repo, pairs)
    for rel in sorted(by_file):
        raw, nc, sites = by_file[rel]
        encl = enclosing_functions(nc, [o for o, _ in sites])
        funcs = sorted(set(encl.values()))
        if "arm_sve" in rel:
            sib = rel.replace("arm_sve", "avx512")
            if sib not in by_file:
                raise Shape("%s has no avx512 sibling" % rel)
            for fname in funcs:
                a = _function_tokens_textual(nc, fname)
                b = _function_tokens_textual(by_file[sib][1], fname)
                if a != b:
                    raise Shape("%s: %s differs from its sibling in %s" % (rel, fname, sib))
                aliases.append(dict(file=rel, function=fname, sameAs=sib, sites=len([1 for o, _ in sites if encl[o] == fname])))
            continue
        tu = rel if rel.endswith(".cpp") else including_tu(repo, rel)
        # byte offsets (clang) vs character offsets (python): sources must be ASCII up to the pragma, else map
        boff = {o: o for o, _ in sites}
        for fname in funcs:
            objs = clang_dump(repo, tu, filter_of(fname))
            fsites = [(o, t) for o, t in sites if encl[o] == fname]
            per_site = {o: [] for o, _ in fsites}
            seen_dirs = 0
            short = fname.split("::")[-1]
            for fn, body, cls in functions_with_body(objs):
                if fn.get("name") != short:
                    continue
                ff, fb = begin_loc(fn)
                if ff is None or os.path.relpath(ff, repo) != rel:
                    continue
                dirs = []
                collect(body, lambda x: str(x.get("kind", "")).startswith("OMP") and str(x.get("kind", "")).endswith("Directive"),
                        dirs, stop=lambda x: False)
                if not dirs:
                    continue
                if is_dependent(fn):
                    continue
                tops = []
                collect(body, lambda x: x.get("kind") in ("OMPParallelDirective", "OMPParallelForDirective"), tops)
                for d in dirs:
                    df, do = begin_loc(d)
                    do = pragma_hash_offset(raw, do)
                    if do not in [boff[o] for o, _ in fsites]:
                        raise Shape("%s: AST directive at offset %s was not seen by the text scan" % (rel, do))
                    if d.get("kind") not in KNOWN_DIRECTIVES:
                        raise Shape("unsupported directive %s" % d.get("kind"))
                    if d not in tops and d.get("kind") in ("OMPParallelDirective", "OMPParallelForDirective"):
                        raise Shape("nested parallel")
                seen_dirs = max(seen_dirs, len(dirs))
                for d in tops:
                    _, do = begin_loc(d)
                    do = pragma_hash_offset(raw, do)
                    site = [(o, t) for o, t in fsites if boff[o] == do][0]
                    r = analyse_region(fn, body, d, site[1], classes, objs, cls, raw)
                    r.update(file=rel, function=fname, line=raw.count("\n", 0, site[0]) + 1)
                    per_site[site[0]].append(r)
                # pinned texts
                for (pf, pn) in PINNED:
                    if pf == rel and pn == fname:
                        pinned[pn] = fn_text_tokens(repo, rel, fn)
            if seen_dirs != len(fsites):
                raise Shape("%s %s: text scan found %d pragma(s), the AST of an instantiation has %d directive(s)"
                            % (rel, fname, len(fsites), seen_dirs))
            got = [o for o in per_site if per_site[o]]
            if not got:
                raise Shape("%s %s: no analysable instantiation" % (rel, fname))
            for o in sorted(got):
                regions.append(merge_regions(per_site[o]))
            # callee members pinned (PiTable::init_bits / init_count)
            for (pf, pn) in PINNED:
                if pf == rel and pn.split("::")[0] == fname.split("::")[0] and pn not in pinned:
                    for fn, body, cls in functions_with_body(objs):
                        if fn.get("name") == pn.split("::")[-1] and not is_dependent(fn):
                            ff, _ = begin_loc(fn)
                            if ff and os.path.relpath(ff, repo) == rel:
                                pinned[pn] = fn_text_tokens(repo, rel, fn)
    nsites = sum(1 + len(r["nested"]) for r in regions) + sum(a["sites"] for a in aliases)
    nested_in_alias = 0
    if nsites + nested_in_alias != sites_total:
        raise Shape("pragma sites: text scan %d, accounted for %d" % (sites_total, nsites))
    for (pf, pn) in PINNED:
        if pn not in pinned:
            raise Shape("pinned function %s not found" % pn)
    return classes, regions, aliases, pinned, sites_total


def _function_tokens_textual(nc, fname):
    """tokens of the definition of `fname` (header + body) found by the brace scan"""
    src = blank_preprocessor(nc)
    short = fname.split("::")[-1]
    best = None
    for m in re.finditer(r"\b%s\s*\(" % re.escape(short), src):
        # find matching ) then optional stuff then {
        d, k = 0, m.end() - 1
        while k < len(src):
            if src[k] == "(":
                d += 1
            elif src[k] == ")":
                d -= 1
                if d == 0:
                    break
            k += 1
        rest = src[k + 1:]
        mm = re.match(r"\s*(const\s*)?(noexcept\s*)?\{", rest)
        if not mm:
            continue
        b = k + 1 + mm.end() - 1
        d, e = 0, b
        while e < len(src):
            if src[e] == "{":
                d += 1
            elif src[e] == "}":
                d -= 1
                if d == 0:
                    break
            e += 1
        if best is not None:
            raise Shape("several definitions of %s" % fname)
        best = [t.group(0) for t in TOK.finditer(src[m.start():e + 1])]
    if best is None:
        raise Shape("definition of %s not found" % fname)
    return best


def small_texts(repo):
    """LockGuard ctor/dtor, OmpLock::init, RelaxedAtomic::operator++ as normalised token strings"""
    lock = blank_preprocessor(blank_comments(rd(os.path.join(repo, "include/OmpLock.hpp"))))
    atom = blank_preprocessor(blank_comments(rd(os.path.join(repo, "include/RelaxedAtomic.hpp"))))

    def body_after(src, pat, what):
        ms = list(re.finditer(pat, src))
        if len(ms) != 1:
            raise Shape("%s: expected one match, found %d" % (what, len(ms)))
        b = src.index("{", ms[0].end() - 1)
        d, e = 0, b
        while e < len(src):
            if src[e] == "{":
                d += 1
            elif src[e] == "}":
                d -= 1
                if d == 0:
                    break
            e += 1
        return " ".join(t.group(0) for t in TOK.finditer(src[b + 1:e]))
    return dict(
        lockGuardCtor=body_after(lock, r"\bLockGuard\s*\(\s*OmpLock\s*&\s*lock\s*\)\s*\{", "LockGuard constructor"),
        lockGuardDtor=body_after(lock, r"~\s*LockGuard\s*\(\s*\)\s*\{", "LockGuard destructor"),
        ompLockInit=body_after(lock, r"\bvoid\s+init\s*\(\s*int\s+threads\s*\)\s*\{", "OmpLock::init"),
        relaxedAtomicInc=body_after(atom, r"\bT\s+operator\s*\+\+\s*\(\s*int\s*\)\s*\{", "RelaxedAtomic::operator++"),
        relaxedAtomicField=" ".join(re.findall(r"std\s*::\s*atomic\s*<\s*T\s*>\s*\w+\s*;", atom)).replace(" ", ""),
    )


# ----------------------------------------------------------------------------- Lean output

def lstr(s):
    return '"' + s.replace("\\", "\\\\").replace('"', '\\"') + '"'


def llist(xs):
    return "[" + ", ".join(xs) + "]"


def lbool(b):
    return "true" if b else "false"


def sha(tokens):
    return hashlib.sha256(" ".join(tokens).encode()).hexdigest()[:16]


def extract(repo, outdir, write_if_changed):
    _RAW.clear()
    classes, regions, aliases, pinned, nsites = extract_regions(repo)
    _RAW.clear()
    texts = small_texts(repo)
    regions.sort(key=lambda r: (r["file"], r["line"]))
    pt = pinned
    align = {}
    for key, pat, names in (("piTableAlign", r"(\w+) \+= (\d+) - \1 % (\d+) ;", ["PiTable::init"]),
                            ("factorTableAlign", r"(\w+) \+= coprime_indexes_ \. size \( \) - \1 % coprime_indexes_ \. size \( \) ;", ["FactorTable::FactorTable"]),
                            ("factorTableDAlign", r"(\w+) \+= coprime_indexes_ \. size \( \) - \1 % coprime_indexes_ \. size \( \) ;", ["FactorTableD::FactorTableD"])):
        ms = re.findall(pat, " ".join(pt[names[0]]))
        if len(ms) != 1:
            raise Shape("%s: alignment statement not recognised" % key)
        if key == "piTableAlign":
            if ms[0][1] != ms[0][2]:
                raise Shape("piTableAlign: two different constants")
            align[key] = int(ms[0][1])
    base = blank_comments(rd(os.path.join(repo, "include/BaseFactorTable.hpp")))
    m = re.findall(r"static\s+const\s+Array\s*<\s*int16_t\s*,\s*(\d+)\s*>\s*coprime_indexes_\s*;", base)
    if len(m) != 1:
        raise Shape("declaration of coprime_indexes_ not recognised")
    align["coprimeIndexesSize"] = int(m[0])
    m = re.findall(r"return\s+(\d+)\s*\*\s*q\s*\+\s*coprime_indexes_\s*\[\s*r\s*\]\s*;", base)
    m2 = re.findall(r"uint64_t\s+q\s*=\s*number\s*/\s*(\d+)\s*;\s*uint64_t\s+r\s*=\s*number\s*%\s*(\d+)\s*;", base)
    if len(m) != 1 or len(m2) != 1 or m2[0][0] != m2[0][1]:
        raise Shape("BaseFactorTable::to_index not recognised")
    align["toIndexMul"] = int(m[0])
    align["toIndexPeriod"] = int(m2[0][0])

    L = []
    L.append("/- GENERATED by translator/extract_omp.py — access summary of every OpenMP region of /repo/src and\n"
             "   /repo/include (clang-14 AST + token scan; rules in the extractor's docstring) — do not edit. -/")
    L.append("import PcModel.HB")
    L.append("namespace Pc.Gen")
    L.append("open Pc.HB")
    L.append("")
    L.append("/-- number of `#pragma omp` lines found by the token scan -/")
    L.append("def ompPragmaSites : Nat := %d" % nsites)
    L.append("")
    L.append("def ompRegions : List RegionRec := [")
    items = []
    for r in regions:
        ws = ",\n      ".join("{ name := %s, type := %s, prot := .%s, how := %s }" % (lstr(w["name"]), lstr(w["type"]), w["prot"], lstr(w["how"]))
                              for w in r["written"])
        items.append("  { file := %s, function := %s, line := %d, directive := %s,\n    clauses := %s, schema := .%s,\n    written := [%s],\n"
                     "    nested := %s, lbCalls := %s, teamTiedToLock := %s }" % (
                         lstr(r["file"]), lstr(r["function"]), r["line"], lstr(r["directive"]), llist([lstr(c) for c in r["clauses"]]),
                         r["schema"], ("\n      " + ws) if ws else "",
                         llist(["(%s, %s)" % (lstr(k), llist([lstr(c) for c in cl])) for k, cl in r["nested"]]),
                         llist(["(%s, %s)" % (lstr(a), lstr(b)) for a, b in r["lbCalls"]]), lbool(r["tied"])))
    L.append(",\n".join(items))
    L.append("]")
    L.append("")
    L.append("/-- regions of files that cannot be parsed on this platform; their function is token-identical to the sibling's -/")
    L.append("def ompAliasRegions : List (String × String × String) := " +
             llist(["(%s, %s, %s)" % (lstr(a["file"]), lstr(a["function"]), lstr(a["sameAs"])) for a in aliases]))
    L.append("")
    L.append("def ompLockClasses : List LockClassRec := [")
    items = []
    for cls in sorted(classes):
        c = classes[cls]
        ms = ",\n      ".join("{ name := %s, isPublic := %s, isConst := %s, startsWithLockGuard := %s }" % (
            lstr(m["name"]), lbool(m["public"]), lbool(m["const"]), lbool(m["lockguard"])) for m in c["methods"])
        items.append("  { cls := %s, file := %s, lockInit := %s,\n    methods := [\n      %s] }" % (lstr(cls), lstr(c["file"]), lstr(c["lockInit"]), ms))
    L.append(",\n".join(items))
    L.append("]")
    L.append("")
    L.append("/-- key of a region as compared with `Pc.HB.expectedRegions` (no line numbers, no variable names) -/")
    L.append("def ompRegionKeys : List (String × String × String × Schema × List String) :=")
    L.append("  " + llist(["(%s, %s, %s, .%s, %s)" % (lstr(r["file"]), lstr(r["function"]), lstr(r["directive"]), r["schema"],
                                                     llist([lstr(c) for c in r["clauseNames"] + ["/" + k for k, _ in r["nested"]]])) for r in regions]))
    L.append("")
    for k in ("lockGuardCtor", "lockGuardDtor", "ompLockInit", "relaxedAtomicInc", "relaxedAtomicField"):
        L.append("def %s : String := %s" % (k, lstr(texts[k])))
    L.append("")
    L.append("/-- sha256 (first 16 hex digits) of the token text of the functions the index-range model was read from -/")
    L.append("def pinnedBodies : List (String × String) := " + llist(["(%s, %s)" % (lstr(n), lstr(sha(pt[n]))) for _, n in PINNED]))
    for k in sorted(align):
        L.append("def %s : Nat := %d" % (k, align[k]))
    L.append("")
    L.append("end Pc.Gen")
    data = "\n".join(L) + "\n"

    O = []
    O.append("/- GENERATED by translator/extract_omp.py — obligations over PcGen/OmpRegions.lean, do not edit. -/")
    O.append("import PcGen.OmpRegions")
    O.append("import PcModel.OmpExpected")
    O.append("namespace Pc.Gen")
    O.append("open Pc.HB")
    O.append("set_option maxRecDepth 16384")
    O.append("")
    O.append("/-- the regions found are exactly the expected ones (file, function, directive, schema, clause names, nested directives) -/")
    O.append("theorem omp_regions_expected : ompRegionKeys = expectedRegions := by decide")
    O.append("theorem omp_alias_regions_expected : ompAliasRegions = expectedAliasRegions := by decide")
    O.append("theorem omp_pragma_sites_expected : ompPragmaSites = expectedPragmaSites := by decide")
    O.append("")
    O.append("/-- every region carries a proved schema tag, every outer object written in it has a protection that the\n"
             "    schema allows (in particular none is UNPROTECTED), and the team size is tied to the lock's thread count -/")
    for i, r in enumerate(regions):
        O.append("theorem omp_region_%d_ok : (ompRegions[%d]?.map RegionRec.ok) = some true := by decide  -- %s %s:%d"
                 % (i, i, r["function"], r["file"], r["line"]))
    O.append("theorem omp_regions_count : ompRegions.length = %d := by decide" % len(regions))
    O.append("")
    O.append("/-- two-phase regions: two work-sharing loops, the first one keeps its implicit barrier -/")
    O.append("theorem omp_twoPhase_barrier : ompRegions.all (fun r => r.schema != .twoPhase ||\n"
             "    (r.nested.map (·.1) == [\"for\", \"for\"] && r.nested.all (fun n => !n.2.contains \"nowait\"))) = true := by decide")
    O.append("")
    O.append("/-- every public non-const method of a lock-owning class starts with LockGuard -/")
    O.append("theorem omp_lock_classes_ok : ompLockClasses.all LockClassRec.ok = true := by decide")
    O.append("theorem omp_lock_classes_expected : ompLockClasses.map (fun c => (c.cls, c.lockInit)) = expectedLockClasses := by decide")
    O.append("theorem omp_get_work_locked : ompLockClasses.all (fun c => c.methods.any (fun m => m.name == \"get_work\" && m.isPublic && m.startsWithLockGuard)) = true := by decide")
    O.append("")
    O.append("/-- the code the models of LockGuard / RelaxedAtomic / the index ranges were read from is unchanged -/")
    O.append("theorem omp_lockGuardCtor : lockGuardCtor = expectedLockGuardCtor := by decide")
    O.append("theorem omp_lockGuardDtor : lockGuardDtor = expectedLockGuardDtor := by decide")
    O.append("theorem omp_ompLockInit : ompLockInit = expectedOmpLockInit := by decide")
    O.append("theorem omp_relaxedAtomicInc : relaxedAtomicInc = expectedRelaxedAtomicInc := by decide")
    O.append("theorem omp_relaxedAtomicField : relaxedAtomicField = expectedRelaxedAtomicField := by decide")
    O.append("theorem omp_pinnedBodies : pinnedBodies = expectedPinnedBodies := by decide")
    O.append("theorem omp_piTableAlign : piTableAlign = 240 := by decide")
    O.append("theorem omp_factorTable_period : coprimeIndexesSize = 2310 ∧ toIndexPeriod = 2310 ∧ toIndexMul = 480 := by decide")
    O.append("")
    O.append("end Pc.Gen")
    obl = "\n".join(O) + "\n"

    ch1 = write_if_changed(os.path.join(outdir, "OmpRegions.lean"), data)
    ch2 = write_if_changed(os.path.join(outdir, "OmpObl.lean"), obl)
    problems = []
    for r in regions:
        for w in r["written"]:
            if w["prot"] == "unprotected":
                problems.append(dict(region="%s %s:%d (#pragma omp %s)" % (r["function"], r["file"], r["line"], r["directive"]),
                                     variable=w["name"], type=w["type"], how=w["how"]))
        if r["lbCalls"] and not r["tied"]:
            problems.append(dict(region="%s %s:%d" % (r["function"], r["file"], r["line"]), variable="num_threads clause",
                                 type="", how="team size is not tied to the thread count the dispenser's lock was initialised with"))
    for cls in sorted(classes):
        for m in classes[cls]["methods"]:
            if m["public"] and not m["const"] and not m["lockguard"]:
                problems.append(dict(region="%s::%s (%s)" % (cls, m["name"], classes[cls]["file"]), variable="*this", type=cls,
                                     how="public non-const method does not start with LockGuard"))
    return dict(regions=len(regions), pragma_sites=nsites, aliases=len(aliases), obligations=len(regions) + 17,
                changed=bool(ch1 or ch2), problems=problems,
                region_keys=[[r["file"], r["function"], r["directive"], r["schema"], r["clauseNames"] + ["/" + k for k, _ in r["nested"]]] for r in regions],
                pinned={n: sha(pt[n]) for _, n in PINNED}, texts=texts, align=align,
                lock_classes={c: classes[c]["lockInit"] for c in classes})


if __name__ == "__main__":
    import sys
    import pprint

    def w(path, text):
        print("----", path)
        print(text)
        return True
    pprint.pprint(extract(sys.argv[1] if len(sys.argv) > 1 else "/repo", "/tmp", w), width=160)
