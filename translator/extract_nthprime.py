"""Extractor for C06: reads src/nth_prime.cpp (table `primes`, `max_n`, regime tests, walk loops) and
include/PiTable.hpp (`max_cached`, size of `pi_cache_`) and writes

  lean/PcGen/NthPrimeData.lean   the data (core Lean)
  lean/PcGen/NthPrimeObl.lean    the kernel-checked obligation "the table is the chain of consecutive primes"

Never guesses: every shape the Lean model `PcModel/NthPrime.lean` relies on is matched by a regex and an
exception is raised when it is not found (the runner then reports `extractor_shape_changed`)."""
import os
import re


class Shape(Exception):
    pass


def _need(pat, txt, what, flags=re.S):
    m = re.search(pat, txt, flags)
    if not m:
        raise Shape("nth_prime extractor: cannot find " + what)
    return m


def _strip_comments(src):
    src = re.sub(r"/\*.*?\*/", " ", src, flags=re.S)
    return re.sub(r"//[^\n]*", " ", src)


def parse(repo):
    src = _strip_comments(open(os.path.join(repo, "src", "nth_prime.cpp")).read())
    pit = _strip_comments(open(os.path.join(repo, "include", "PiTable.hpp")).read())

    m = _need(r"constexpr\s+int64_t\s+max_n\s*=\s*(\d+)(?:ll|LL)?\s*;", src, "constexpr int64_t max_n = <digits>ll;")
    max_n = int(m.group(1))

    m = _need(r"const\s+Array\s*<\s*int16_t\s*,\s*(\d+)\s*>\s+primes\s*=\s*\{([^{}]*)\}\s*;", src,
              "const Array<int16_t, N> primes = { ... };")
    size = int(m.group(1))
    body = m.group(2)
    if not re.fullmatch(r"[\s\d,]*", body):
        raise Shape("nth_prime extractor: table `primes` contains something else than decimal literals")
    toks = [t.strip() for t in body.split(",")]
    if toks and toks[-1] == "":
        toks.pop()
    if any(not re.fullmatch(r"\d+", t) for t in toks):
        raise Shape("nth_prime extractor: malformed entry in table `primes`")
    table = [int(t) for t in toks]
    if len(table) != size:
        raise Shape("nth_prime extractor: table `primes` has %d initialisers for Array<int16_t, %d>" % (len(table), size))
    if any(v >= 2 ** 15 for v in table):
        raise Shape("nth_prime extractor: table entry does not fit int16_t")

    # domain checks, in this order
    _need(r"if_unlikely\s*\(\s*n\s*<\s*1\s*\)\s*throw\s+primecount_error\s*\(.*?\)\s*;\s*"
          r"if_unlikely\s*\(\s*n\s*>\s*max_n\s*\)\s*throw\s+primecount_error\s*\(", src,
          "domain checks `n < 1` / `n > max_n` throwing primecount_error")
    # regimes
    _need(r"if\s*\(\s*n\s*<\s*\(int64_t\)\s*primes\.size\(\)\s*\)\s*return\s+primes\[n\]\s*;", src,
          "table regime `if (n < (int64_t) primes.size()) return primes[n];`")
    _need(r"if\s*\(\s*n\s*<=\s*PiTable::pi_cache\s*\(\s*PiTable::max_cached\(\)\s*\)\s*\)\s*"
          r"return\s+binary_search_nth_prime\s*\(\s*n\s*\)\s*;", src,
          "binary search regime `if (n <= PiTable::pi_cache(PiTable::max_cached()))`")
    # binary search
    _need(r"int64_t\s+low\s*=\s*n\s*\*\s*2\s*;\s*int64_t\s+hi\s*=\s*PiTable::max_cached\(\)\s*;", src,
          "binary search bounds `low = n * 2; hi = PiTable::max_cached();`")
    _need(r"while\s*\(\s*low\s*<\s*hi\s*\)\s*\{\s*int64_t\s+mid\s*=\s*low\s*\+\s*\(\s*hi\s*-\s*low\s*\)\s*/\s*2\s*;\s*"
          r"if\s*\(\s*PiTable::pi_cache\s*\(\s*mid\s*\)\s*<\s*n\s*\)\s*low\s*=\s*mid\s*\+\s*1\s*;\s*else\s+hi\s*=\s*mid\s*;\s*\}"
          r"\s*return\s+low\s*;", src, "binary search loop")
    # approximation + walk
    _need(r"int64_t\s+prime_approx\s*=\s*RiemannR_inverse\s*\(\s*n\s*\)\s*;\s*"
          r"int64_t\s+count_approx\s*=\s*pi\s*\(\s*prime_approx\s*,\s*threads\s*\)\s*;", src,
          "`prime_approx = RiemannR_inverse(n); count_approx = pi(prime_approx, threads);`")
    _need(r"int64_t\s+prime\s*=\s*-\s*1\s*;", src, "`int64_t prime = -1;`")
    _need(r"if\s*\(\s*count_approx\s*<\s*n\s*\)\s*\{\s*uint64_t\s+start\s*=\s*prime_approx\s*\+\s*1\s*;[^{}]*?"
          r"primesieve::iterator\s+iter\s*\(\s*start\s*,\s*stop\s*\)\s*;\s*"
          r"for\s*\(\s*int64_t\s+i\s*=\s*count_approx\s*;\s*i\s*<\s*n\s*;\s*i\+\+\s*\)\s*"
          r"prime\s*=\s*iter\.next_prime\(\)\s*;\s*\}", src, "forward walk")
    _need(r"else\s*\{\s*uint64_t\s+start\s*=\s*prime_approx\s*;[^{}]*?"
          r"primesieve::iterator\s+iter\s*\(\s*start\s*,\s*stop\s*\)\s*;\s*"
          r"for\s*\(\s*int64_t\s+i\s*=\s*count_approx\s*;\s*i\s*>=\s*n\s*;\s*i--\s*\)\s*"
          r"prime\s*=\s*iter\.prev_prime\(\)\s*;\s*\}\s*return\s+prime\s*;", src, "backward walk")

    # PiTable::max_cached() = pi_cache_.size() * 240 - 1 with Array<pi_t, N> pi_cache_
    _need(r"static\s+int64_t\s+max_cached\s*\(\s*\)\s*\{\s*return\s+pi_cache_\.size\(\)\s*\*\s*240\s*-\s*1\s*;\s*\}", pit,
          "PiTable::max_cached() = pi_cache_.size() * 240 - 1")
    m = _need(r"static\s+const\s+Array\s*<\s*pi_t\s*,\s*(\d+)\s*>\s+pi_cache_\s*;", pit, "Array<pi_t, N> pi_cache_")
    max_cached = int(m.group(1)) * 240 - 1
    return dict(max_n=max_n, size=size, table=table, max_cached=max_cached)


def render_data(d):
    rows = []
    t = d["table"]
    for i in range(0, len(t), 10):
        rows.append("  " + ", ".join("%d" % v for v in t[i:i + 10]))
    return """/-
GENERATED by translator/extract_nthprime.py from src/nth_prime.cpp and include/PiTable.hpp — do not edit.
-/
namespace Pc.Gen

/-- `max_n` of src/nth_prime.cpp ("number of primes < 2^63") -/
def nthPrimeMaxN : Nat := %(max_n)d

/-- `primes.size()` of src/nth_prime.cpp -/
def nthPrimeTableSize : Nat := %(size)d

/-- `PiTable::max_cached()` = pi_cache_.size() * 240 - 1 -/
def nthPrimeMaxCached : Nat := %(max_cached)d

/-- the table `primes` of src/nth_prime.cpp (`primes[0] = 0`, `primes[1] = 2`, ...) -/
def nthPrimeTable : List Nat := [
%(rows)s]

end Pc.Gen
""" % dict(max_n=d["max_n"], size=d["size"], max_cached=d["max_cached"], rows=",\n".join(rows))


OBL = """/-
GENERATED by translator/extract_nthprime.py — do not edit.
Kernel-checked obligations about the generated table of src/nth_prime.cpp:
the table has `nthPrimeTableSize` entries and is a chain `0, 2, 3, 5, ...` in which every entry is the
smallest prime (trial division `Pc.primeB`) above its predecessor.
-/
import PcModel.NthPrime
namespace Pc.Gen

theorem nthPrimeTable_length : nthPrimeTable.length = nthPrimeTableSize := by decide +kernel

theorem nthPrimeTable_head : nthPrimeTable.head? = some 0 := by decide +kernel

theorem nthPrimeTable_chain : Pc.chainOk nthPrimeTable = true := by decide +kernel

end Pc.Gen
"""


def extract(repo, outdir, write_if_changed):
    d = parse(repo)
    c1 = write_if_changed(os.path.join(outdir, "NthPrimeData.lean"), render_data(d))
    c2 = write_if_changed(os.path.join(outdir, "NthPrimeObl.lean"), OBL)
    return dict(max_n=d["max_n"], table_size=d["size"], table_last=d["table"][-1], max_cached=d["max_cached"],
                rewritten=bool(c1 or c2), obligations=3)
