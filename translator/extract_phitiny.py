"""Extractor for C07: the PhiTiny lookup tables and the BitSieve240 masks.

The tables of PhiTiny are built by its constructor at program start (src/PhiTiny.cpp), so they are DUMPED
from the real object: a tiny C++ program that includes <PhiTiny.hpp> (private members opened with a
macro, nothing else changed) is compiled against /repo's headers and linked with the libprimecount.a of
the cached `rel` build; its output is turned into lean/PcGen/PhiTinyData.lean (core Lean data) and
lean/PcGen/PhiTinyObl.lean (the kernel-checked obligations about that data).
The hard-coded constants of phi7 / phi_recursive (include/PhiTiny.hpp) and of the PhiCache constructor
(src/phi.cpp) are read with regexes. Never guesses: raises when a shape is not recognised.
"""
import hashlib
import os
import re
import subprocess

DUMPER = r'''
#define private public
#define protected public
#include <PhiTiny.hpp>
#include <BitSieve240.hpp>
#undef private
#undef protected
#include <cstdio>
using namespace primecount;
int main() {
  const PhiTiny& t = phiTiny;
  printf("max_a %llu\n", (unsigned long long) PhiTiny::max_a());
  printf("primes"); for (auto v : PhiTiny::primes) printf(" %llu", (unsigned long long) v); printf("\n");
  printf("prime_products"); for (auto v : PhiTiny::prime_products) printf(" %llu", (unsigned long long) v); printf("\n");
  printf("totients"); for (auto v : PhiTiny::totients) printf(" %llu", (unsigned long long) v); printf("\n");
  printf("pi"); for (auto v : PhiTiny::pi) printf(" %llu", (unsigned long long) v); printf("\n");
  printf("phi_size %zu\n", (size_t) t.phi_.size());
  for (size_t a = 0; a < t.phi_.size(); a++) { printf("phi %zu", a); for (auto v : t.phi_[a]) printf(" %llu", (unsigned long long) v); printf("\n"); }
  printf("sieve_size %zu\n", (size_t) t.sieve_.size());
  for (size_t a = 0; a < t.sieve_.size(); a++) { printf("sieve %zu", a); for (auto& e : t.sieve_[a]) printf(" %llu:%llu", (unsigned long long) e.count, (unsigned long long) e.bits); printf("\n"); }
  printf("unset_larger"); for (auto v : BitSieve240::unset_larger_) printf(" %llu", (unsigned long long) v); printf("\n");
  return 0;
}
'''


def _dump(repo):
    from pcv import core
    bdir = core.ensure_build("rel")
    key = hashlib.sha256(DUMPER.encode()).hexdigest()[:12]
    outp = os.path.join(bdir, "phitiny_dump_%s.out" % key)
    if os.path.exists(outp):
        return open(outp).read()
    with core.Lock("phitiny-dump"):
        if os.path.exists(outp):
            return open(outp).read()
        src = os.path.join(bdir, "phitiny_dump.cpp")
        exe = os.path.join(bdir, "phitiny_dump")
        open(src, "w").write(DUMPER)
        defs, flags = core.build_flags(bdir)
        cmd = ["g++", "-std=gnu++17"] + flags.split() + defs.split() + [
            "-I" + os.path.join(repo, "include"), src,
            os.path.join(bdir, "libprimecount.a"), os.path.join(bdir, "lib/primesieve/libprimesieve.a"),
            "-fopenmp", "-o", exe]
        p = subprocess.run(cmd, capture_output=True, text=True, timeout=600)
        if p.returncode != 0:
            raise RuntimeError("phitiny dumper does not compile: " + (p.stdout + p.stderr)[-1500:])
        p = subprocess.run(["timeout", "60", exe], capture_output=True, text=True)
        if p.returncode != 0:
            raise RuntimeError("phitiny dumper failed rc=%d %s" % (p.returncode, p.stderr[-500:]))
        open(outp + ".tmp", "w").write(p.stdout)
        os.replace(outp + ".tmp", outp)
        return p.stdout


def _one(pattern, text, what):
    m = re.findall(pattern, text, re.S)
    if len(m) != 1:
        raise RuntimeError("extract_phitiny: %s: expected exactly one match, found %d" % (what, len(m)))
    return m[0]


def _natlist(xs):
    return "[" + ", ".join(str(x) for x in xs) + "]"


def extract(repo, outdir, write_if_changed):
    txt = _dump(repo)
    d = {}
    phi, sieve = {}, {}
    for line in txt.splitlines():
        w = line.split()
        if not w:
            continue
        if w[0] == "phi":
            phi[int(w[1])] = [int(v) for v in w[2:]]
        elif w[0] == "sieve":
            sieve[int(w[1])] = [tuple(int(u) for u in v.split(":")) for v in w[2:]]
        else:
            d[w[0]] = [int(v) for v in w[1:]]
    for k in ("max_a", "primes", "prime_products", "totients", "pi", "phi_size", "sieve_size", "unset_larger"):
        if k not in d:
            raise RuntimeError("extract_phitiny: dumper output lacks " + k)
    max_a = d["max_a"][0]
    nphi, nsieve = d["phi_size"][0], d["sieve_size"][0]
    if not (len(d["primes"]) == len(d["prime_products"]) == len(d["totients"]) == max_a == nsieve):
        raise RuntimeError("extract_phitiny: array sizes disagree")
    if len(d["unset_larger"]) != 240 or sorted(phi) != list(range(nphi)) or sorted(sieve) != list(range(nsieve)):
        raise RuntimeError("extract_phitiny: table shapes not recognised")

    # hard-coded constants of phi7 / phi_recursive
    hpp = open(os.path.join(repo, "include", "PhiTiny.hpp")).read()
    body7 = _one(r"T phi7\(T x\) const\s*\{(.*?)\n  \}", hpp, "phi7 body")
    a7 = int(_one(r"constexpr uint32_t a = (\d+);", body7, "phi7 a"))
    pp7 = int(_one(r"constexpr uint32_t pp = (\d+);", body7, "phi7 pp"))
    tot7 = int(_one(r"constexpr uint32_t totient = (\d+);", body7, "phi7 totient"))
    _one(r"auto remainder = \(uint64_t\)\(x % pp\);\s*T xpp = x / pp;\s*T sum = xpp \* totient;", body7, "phi7 arithmetic")
    _one(r"uint64_t count = sieve_\[a\]\[remainder / 240\]\.count;\s*uint64_t bits = sieve_\[a\]\[remainder / 240\]\.bits;\s*"
         r"uint64_t bitmask = unset_larger_\[remainder % 240\];\s*sum \+= \(T\)\(count \+ popcnt64\(bits & bitmask\)\);", body7, "phi7 lookup")
    rec = _one(r"T phi_recursive\(T x, uint64_t a\) const\s*\{(.*?)\n  \}", hpp, "phi_recursive body")
    _one(r"if \(a < max_a\(\)\)\s*return phi\(\(UT\) x, a\);", rec, "phi_recursive a < max_a branch")
    p8 = int(_one(r"return phi7\(\(UT\) x\) - phi7\(\(UT\) x / (\d+)\);", rec, "phi_recursive a = 8 branch"))
    bodyphi = _one(r"T phi\(T x, uint64_t a\) const\s*\{(.*?)\n  \}", hpp, "phi body")
    _one(r"auto pp = prime_products\[a\];\s*auto remainder = \(uint64_t\)\(x % pp\);\s*T xpp = x / pp;\s*T sum = xpp \* totients\[a\];",
         bodyphi, "phi arithmetic")
    _one(r"if \(a < phi_\.size\(\)\)\s*sum \+= phi_\[a\]\[remainder\];", bodyphi, "phi small table branch")
    _one(r"return a <= PhiTiny::max_a\(\);", hpp, "is_phi_tiny")

    # constants of the PhiCache constructor and guards of phi_OpenMP
    cpp = open(os.path.join(repo, "src", "phi.cpp")).read()
    cache_max_a = int(_one(r"uint64_t max_a = (\d+);", cpp, "PhiCache max_a"))
    cache_sub = int(_one(r"a = a - min\(a, (\d+)\);", cpp, "PhiCache a - min(a, 30)"))
    cache_mb = int(_one(r"uint64_t max_megabytes = (\d+);", cpp, "PhiCache max_megabytes"))
    _one(r"std::pow\(x, 1 / 2\.3\)", cpp, "PhiCache max_x exponent")
    cache_min_size = int(_one(r"if \(max_x_size_ < (\d+)\)\s*return;", cpp, "PhiCache tiny cut-off"))
    _one(r"if \(x < 1\) return 0;\s*if \(a < 1\) return x;", cpp, "phi_OpenMP guards 1")
    _one(r"if \(x > 0 && a > x / 2\)\s*return 1;", cpp, "phi_OpenMP guard a > x/2")
    _one(r"if \(is_phi_tiny\(a\)\)\s*return phi_tiny\(x, a\);", cpp, "phi_OpenMP tiny")
    _one(r"if \(a >= pix_upper\(x\)\)\s*return 1;", cpp, "phi_OpenMP guard pix_upper")
    _one(r"if \(a > pix_upper\(sqrtx\)\)\s*return phi_pix\(x, a, threads\);", cpp, "phi_OpenMP phi_pix 1")
    _one(r"if \(a > pi_sqrtx\)\s*return phi_pix\(x, a, threads\);", cpp, "phi_OpenMP phi_pix 2")
    _one(r"for \(int64_t i = c \+ 1; i <= a; i\+\+\)\s*sum \+= cache\.phi<-1>\(x / primes\[i\], i - 1\);", cpp, "phi_OpenMP loop")

    L = []
    L.append("/-\nGENERATED by translator/extract_phitiny.py from the PhiTiny object of /repo (dumped through a compiled\n"
             "program that includes <PhiTiny.hpp>) — do not edit. Core Lean only (imports the table structure of the model).\n-/")
    L.append("import PcModel.PhiTiny\nnamespace Pc.Gen.PhiTiny\n")
    L.append("/-- PhiTiny::max_a() -/\ndef maxA : Nat := %d" % max_a)
    L.append("/-- PhiTiny::primes (primes[0] = 0) -/\ndef primes : List Nat := " + _natlist(d["primes"]))
    L.append("def primeProducts : List Nat := " + _natlist(d["prime_products"]))
    L.append("def totients : List Nat := " + _natlist(d["totients"]))
    L.append("/-- PhiTiny::pi (get_c) -/\ndef piSmall : List Nat := " + _natlist(d["pi"]))
    L.append("/-- phi_.size(): a below this uses the plain tables phi_[a] -/\ndef phiSize : Nat := %d" % nphi)
    for a in range(nphi):
        L.append("def phiTab%d : List Nat := %s" % (a, _natlist(phi[a])))
    L.append("def phiTabs : List (List Nat) := [" + ", ".join("phiTab%d" % a for a in range(nphi)) + "]")
    for a in range(nsieve):
        ents = sieve[a]
        # long list literals exceed Lean's elaborator recursion depth: chunks of 256 entries, appended
        chunks = [ents[i:i + 256] for i in range(0, len(ents), 256)] or [[]]
        names = []
        for ci, ch in enumerate(chunks):
            rows = []
            for i in range(0, len(ch), 8):
                rows.append("  " + ", ".join("(%d, %d)" % e for e in ch[i:i + 8]))
            nm = "sieve%d_%d" % (a, ci)
            names.append(nm)
            L.append("def %s : List (Nat × Nat) := [\n%s]" % (nm, ",\n".join(rows)))
        L.append("/-- sieve_[%d]: (count, bits) per block of 240 numbers -/\ndef sieve%d : List (Nat × Nat) := %s" % (
            a, a, " ++ ".join(names)))
    L.append("def sieves : List (List (Nat × Nat)) := [" + ", ".join("sieve%d" % a for a in range(nsieve)) + "]")
    L.append("/-- BitSieve240::unset_larger_ -/\ndef unsetLarger : List Nat := " + _natlist(d["unset_larger"]))
    L.append("/-- constants hard-coded in phi7 and phi_recursive -/\ndef phi7A : Nat := %d\ndef phi7PP : Nat := %d\n"
             "def phi7Totient : Nat := %d\ndef prime8 : Nat := %d" % (a7, pp7, tot7, p8))
    L.append("/-- constants of the PhiCache constructor (src/phi.cpp) -/\ndef cacheMaxA : Nat := %d\ndef cacheSubA : Nat := %d\n"
             "def cacheMegabytes : Nat := %d\ndef cacheMinSize : Nat := %d" % (cache_max_a, cache_sub, cache_mb, cache_min_size))
    L.append("/-- the tables as the structure the model reads -/\ndef tables : Pc.PhiTinyTables :=\n"
             "  { primes := primes, primeProducts := primeProducts, totients := totients, phiTabs := phiTabs,\n"
             "    sieves := sieves, unsetLarger := unsetLarger, phi7A := phi7A, phi7PP := phi7PP,\n"
             "    phi7Totient := phi7Totient, prime8 := prime8 }")
    L.append("\nend Pc.Gen.PhiTiny\n")
    ch1 = write_if_changed(os.path.join(outdir, "PhiTinyData.lean"), "\n".join(L))

    # obligations: kernel-evaluated checks of the generated data (functions live in PcModel/PhiTiny.lean)
    O = []
    O.append("/-\nGENERATED by translator/extract_phitiny.py — do not edit.\n"
             "Kernel-checked obligations about the dumped PhiTiny tables: every table answers with the naive count.\n"
             "(`decide +kernel` evaluates the core-Lean Bool checks of PcModel/PhiTiny.lean; no extra axioms.)\n"
             "`triplesA` repeats sieveA with the literal block start 240*j in front (the check compares it with sieveA).\n-/")
    O.append("import PcModel.PhiTiny\nimport PcGen.PhiTinyData\nnamespace Pc.Gen.PhiTiny\nopen Pc\n")
    O.append("theorem unsetLarger_ok : checkUnsetLarger unsetLarger = true := by decide +kernel")
    O.append("theorem shape_ok : checkShape tables = true := by decide +kernel")
    for a in range(nphi):
        O.append("theorem phiTab%d_ok : checkPhiTab tables %d = true := by decide +kernel" % (a, a))
    for a in range(nphi, nsieve):
        ents = sieve[a]
        tr = [(240 * j, ents[j][0], ents[j][1]) for j in range(len(ents))]
        chunks = [tr[i:i + 256] for i in range(0, len(tr), 256)] or [[]]
        names = []
        for ci, ch in enumerate(chunks):
            rows = []
            for i in range(0, len(ch), 6):
                rows.append("  " + ", ".join("(%d, %d, %d)" % e for e in ch[i:i + 6]))
            nm = "triples%d_%d" % (a, ci)
            names.append(nm)
            O.append("def %s : List (Nat × Nat × Nat) := [\n%s]" % (nm, ",\n".join(rows)))
        O.append("def triples%d : List (Nat × Nat × Nat) := %s" % (a, " ++ ".join(names)))
        m = 1
        for q in d["primes"][4:a + 1]:
            m *= q
        O.append("theorem sieve%d_ok : checkSieveTab tables %d %d triples%d = true := by decide +kernel" % (a, a, m, a))
    O.append("\nend Pc.Gen.PhiTiny\n")
    ch2 = write_if_changed(os.path.join(outdir, "PhiTinyObl.lean"), "\n".join(O))
    return dict(max_a=max_a, phi_tables=nphi, sieve_sizes=[len(sieve[a]) for a in range(nsieve)],
                phi7=dict(a=a7, pp=pp7, totient=tot7, prime8=p8),
                cache=dict(max_a=cache_max_a, sub=cache_sub, megabytes=cache_mb, min_size=cache_min_size),
                obligations=2 + nsieve, changed=bool(ch1 or ch2))
