"""Source shape of the P2 / B loops -> lean/PcGen/P2LoopSrc.lean (data) and lean/PcGen/P2LoopObl.lean (obligations).

The L2 model PcModel/P2Loop.lean was written against the statement sequence of `P2_thread` (src/P2.cpp), models
`B_thread` (src/gourdon/B.cpp) by the same function, and hard-codes the early exits and the closed form of
`P2_OpenMP` / `B_OpenMP`. This extractor re-reads those regions on every run and emits
  * the normalised statement list of `P2_thread`'s body,
  * whether `B_thread`'s body is the same text (after renaming the function),
  * the statements of `P2_OpenMP` / `B_OpenMP` before and inside the parallel region.
The obligations compare them with the literal text the model mirrors: when the C++ changes, `lake build` of the
property files fails at the obligation that names the changed statement (and the correspondence streams decide whether
the change matters). Never guesses: a function that cannot be located raises.
"""
import hashlib
import os
import re


def _strip_comments(src):
    src = re.sub(r"/\*.*?\*/", " ", src, flags=re.S)
    return re.sub(r"//[^\n]*", "", src)


def _body(src, name, what):
    """text between the braces of the definition `T name(...) { ... }`"""
    ms = list(re.finditer(r"\bT\s+" + re.escape(name) + r"\s*\(", src))
    if len(ms) != 1:
        raise ValueError("%s: expected exactly one definition of %s, found %d" % (what, name, len(ms)))
    i = src.index("(", ms[0].start())
    depth = 0
    while True:
        if src[i] == "(":
            depth += 1
        elif src[i] == ")":
            depth -= 1
            if depth == 0:
                break
        i += 1
    j = i + 1
    while src[j].isspace():
        j += 1
    if src[j] != "{":
        raise ValueError("%s: body of %s not found" % (what, name))
    depth, k = 0, j
    while True:
        if src[k] == "{":
            depth += 1
        elif src[k] == "}":
            depth -= 1
            if depth == 0:
                break
        k += 1
    return src[j + 1:k]


def _statements(body):
    """whitespace-normalised pieces, cut after every ';', '{', '}' (a `for (a; b; c)` header stays in one piece)"""
    toks = re.findall(r"\"[^\"\n]*\"|[A-Za-z_][A-Za-z0-9_]*|\d+|::|<=|>=|==|!=|\+=|-=|\+\+|--|->|&&|\|\||\S", body)
    out, cur, paren = [], [], 0
    for t in toks:
        cur.append(t)
        if t == "(":
            paren += 1
        elif t == ")":
            paren -= 1
        if paren == 0 and t in (";", "{", "}"):
            out.append(" ".join(cur))
            cur = []
    if cur:
        out.append(" ".join(cur))
    return out


EXPECTED_THREAD = [
    "ASSERT ( low > 0 ) ;",
    "ASSERT ( low < high ) ;",
    "int64_t sqrtx = isqrt ( x ) ;",
    "int64_t start = max ( y , min ( x / high , sqrtx ) ) ;",
    "int64_t stop = min ( x / low , sqrtx ) ;",
    "primesieve :: iterator it1 ( stop , start ) ;",
    "int64_t prime = it1 . prev_prime ( ) ;",
    "if ( prime <= start ) return 0 ;",
    "int threads = 1 ;",
    "uint64_t xp = ( uint64_t ) ( x / prime ) ;",
    "int64_t pi_xp = pi_noprint ( xp , threads ) ;",
    "T sum = pi_xp ;",
    "prime = it1 . prev_prime ( ) ;",
    "primesieve :: iterator it2 ( xp + 1 , high ) ;",
    "it2 . generate_next_primes ( ) ;",
    "for ( ; prime > start ; prime = it1 . prev_prime ( ) ) {",
    "xp = ( uint64_t ) ( x / prime ) ;",
    "for ( ; it2 . primes_ [ it2 . size_ - 1 ] <= xp ; it2 . generate_next_primes ( ) ) pi_xp += it2 . size_ - it2 . i_ ;",
    "for ( ; it2 . primes_ [ it2 . i_ ] <= xp ; it2 . i_ ++ ) pi_xp += 1 ;",
    "sum += pi_xp ;",
    "}",
    "return sum ;",
]

EXPECTED_P2_OPENMP = [
    "ASSERT ( a == pi_noprint ( y , threads ) ) ;",
    "if ( x < 4 ) return 0 ;",
    "int64_t sqrtx = isqrt ( x ) ;",
    "if ( y >= sqrtx ) return 0 ;",
    "T b = pi_noprint ( sqrtx , threads ) ;",
    "T pi_y = a ;",
    "T sum = ( pi_y - 2 ) * ( pi_y + 1 ) / 2 - ( b - 2 ) * ( b + 1 ) / 2 ;",
    "static_assert ( pstd :: is_signed < T > :: value , \"T must be signed integer type\" ) ;",
    "int64_t xy = ( int64_t ) ( x / max ( y , 1 ) ) ;",
    "LoadBalancerP2 loadBalancer ( x , xy , threads , is_print ) ;",
    "threads = loadBalancer . get_threads ( ) ;",
    "# pragma omp parallel num_threads ( threads ) reduction ( + : sum ) {",
    "int64_t low , high ;",
    "while ( loadBalancer . get_work ( low , high ) ) sum += P2_thread ( x , y , low , high ) ;",
    "}",
    "return sum ;",
]

EXPECTED_B_OPENMP = [
    "if ( x < 4 ) return 0 ;",
    "T sum = 0 ;",
    "int64_t xy = ( int64_t ) ( x / max ( y , 1 ) ) ;",
    "LoadBalancerP2 loadBalancer ( x , xy , threads , is_print ) ;",
    "threads = loadBalancer . get_threads ( ) ;",
    "# pragma omp parallel num_threads ( threads ) reduction ( + : sum ) {",
    "int64_t low , high ;",
    "while ( loadBalancer . get_work ( low , high ) ) sum += B_thread ( x , y , low , high ) ;",
    "}",
    "return sum ;",
]


def _lean_list(name, items):
    esc = lambda s: s.replace("\\", "\\\\").replace("\"", "\\\"")
    return ["def %s : List String := [" % name] + \
           ["  \"%s\"%s" % (esc(s), "," if i + 1 < len(items) else "") for i, s in enumerate(items)] + ["]", ""]


def extract(repo, outdir, write_if_changed):
    files = ["src/P2.cpp", "src/gourdon/B.cpp"]
    src = {f: _strip_comments(open(os.path.join(repo, f)).read()) for f in files}
    p2t = _statements(_body(src["src/P2.cpp"], "P2_thread", "src/P2.cpp"))
    bt = _statements(_body(src["src/gourdon/B.cpp"], "B_thread", "src/gourdon/B.cpp"))
    p2o = _statements(_body(src["src/P2.cpp"], "P2_OpenMP", "src/P2.cpp"))
    bo = _statements(_body(src["src/gourdon/B.cpp"], "B_OpenMP", "src/gourdon/B.cpp"))
    data = ["/-", "GENERATED by translator/extract_p2loop.py from /repo/src/P2.cpp and /repo/src/gourdon/B.cpp - do not edit.",
            "Normalised statements of the functions that PcModel/P2Loop.lean mirrors.", "-/",
            "namespace Pc.P2LoopSrc", ""]
    data += _lean_list("p2Thread", p2t) + _lean_list("bThread", bt) + _lean_list("p2OpenMP", p2o) + _lean_list("bOpenMP", bo)
    data += ["end Pc.P2LoopSrc", ""]
    ch1 = write_if_changed(os.path.join(outdir, "P2LoopSrc.lean"), "\n".join(data))
    obl = ["/-", "GENERATED by translator/extract_p2loop.py - the statement sequences PcModel/P2Loop.lean was written against.",
           "A failing obligation names the function of /repo whose text no longer is what the model mirrors.", "-/",
           "import PcGen.P2LoopSrc", "namespace Pc.P2LoopSrc", ""]
    obl += _lean_list("p2ThreadModelled", EXPECTED_THREAD) + _lean_list("p2OpenMPModelled", EXPECTED_P2_OPENMP) + \
        _lean_list("bOpenMPModelled", EXPECTED_B_OPENMP)
    obl += ["/-- `P2_thread` (src/P2.cpp) is the statement sequence mirrored by `Pc.P2L.p2Thread` -/",
            "theorem p2Thread_text : p2Thread = p2ThreadModelled := by decide",
            "/-- `B_thread` (src/gourdon/B.cpp) is the same text: `Pc.P2L.bThread := p2Thread` -/",
            "theorem bThread_text : bThread = p2Thread := by decide",
            "/-- `P2_OpenMP`: early exits `x < 4`, `y >= sqrtx`, the closed form, `xy`, the dispenser loop, the reduction -/",
            "theorem p2OpenMP_text : p2OpenMP = p2OpenMPModelled := by decide",
            "/-- `B_OpenMP`: early exit `x < 4` only, `sum = 0`, the same region with `B_thread` -/",
            "theorem bOpenMP_text : bOpenMP = bOpenMPModelled := by decide",
            "", "end Pc.P2LoopSrc", ""]
    ch2 = write_if_changed(os.path.join(outdir, "P2LoopObl.lean"), "\n".join(obl))
    h = hashlib.sha256("".join(src[f] for f in files).encode()).hexdigest()[:16]
    return {"files": files, "source_hash": h, "changed": bool(ch1 or ch2), "obligations": 4,
            "same_thread_text": bt == p2t, "thread_text_known": p2t == EXPECTED_THREAD,
            "p2_openmp_known": p2o == EXPECTED_P2_OPENMP, "b_openmp_known": bo == EXPECTED_B_OPENMP}
