"""Constants of the three load balancers and of align_segment_size -> lean/PcGen/LbConst.lean (data)
and lean/PcGen/LbConstObl.lean (the `decide` obligations the C09 theorems need about them).

Sources: include/primecount-config.hpp, src/LoadBalancerS2.cpp, src/LoadBalancerP2.cpp,
src/gourdon/LoadBalancerAC.cpp, src/Sieve.cpp, include/SegmentedPiTable.hpp.
Never guesses: every item is matched by its own pattern; a pattern that does not match exactly the
expected number of times raises (the runner records extractor_shape_changed and keeps the last file).
"""
import hashlib
import os
import re


def _strip_comments(src):
    src = re.sub(r"/\*.*?\*/", " ", src, flags=re.S)
    return re.sub(r"//[^\n]*", "", src)


def _eval(expr):
    """decimal, a << b, with optional parentheses"""
    e = expr.strip()
    while e.startswith("(") and e.endswith(")"):
        e = e[1:-1].strip()
    m = re.fullmatch(r"(\d+)\s*<<\s*(\d+)", e)
    if m:
        return int(m.group(1)) << int(m.group(2))
    m = re.fullmatch(r"(\d+)", e)
    if m:
        return int(m.group(1))
    raise ValueError("unrecognised constant expression %r" % expr)


def _one(src, pat, what, count=1, flags=re.S):
    ms = re.findall(pat, src, flags)
    if len(ms) != count:
        raise ValueError("%s: expected %d match(es) of /%s/, found %d" % (what, count, pat, len(ms)))
    return ms


def _align(src, head, what):
    """body of an align_segment_size: max(size, A) ; if (size % B) size += C - size % D"""
    m = _one(src, head + r"\s*\{\s*size\s*=\s*(?:std::)?max(?:<uint64_t>)?\(\s*([\w]+)\s*,\s*([\w]+)\s*\);\s*"
             r"if\s*\(\s*size\s*%\s*(\d+)\s*\)\s*size\s*\+=\s*(\d+)\s*-\s*size\s*%\s*(\d+)\s*;\s*return\s+size\s*;\s*\}", what)[0]
    a = [t for t in m[:2] if t != "size"]
    if len(a) != 1 or not a[0].isdigit():
        raise ValueError(what + ": max(size, N) not recognised")
    vals = set([int(a[0]), int(m[2]), int(m[3]), int(m[4])])
    if len(vals) != 1:
        raise ValueError(what + ": inconsistent alignment constants %s" % sorted(vals))
    return vals.pop()


def extract(repo, outdir, write_if_changed):
    def rd(rel):
        return _strip_comments(open(os.path.join(repo, rel)).read())
    files = ["include/primecount-config.hpp", "src/LoadBalancerS2.cpp", "src/LoadBalancerP2.cpp",
             "src/gourdon/LoadBalancerAC.cpp", "src/Sieve.cpp", "include/SegmentedPiTable.hpp"]
    src = {f: rd(f) for f in files}
    c = {}
    cfg = src["include/primecount-config.hpp"]
    c["l1Cache"] = _eval(_one(cfg, r"#ifndef\s+L1_CACHE_SIZE\s+#define\s+L1_CACHE_SIZE\s+([^\n]+)\n", "L1_CACHE_SIZE")[0])
    c["l2Cache"] = _eval(_one(cfg, r"#ifndef\s+L2_CACHE_SIZE\s+#define\s+L2_CACHE_SIZE\s+([^\n]+)\n", "L2_CACHE_SIZE")[0])

    s2 = src["src/LoadBalancerS2.cpp"]
    c["s2NumbersPerByte"] = _eval(_one(s2, r"constexpr\s+int64_t\s+numbers_per_byte\s*=\s*([^;]+);", "S2 numbers_per_byte")[0])
    _one(s2, r"L1_segment_size\s*=\s*L1_CACHE_SIZE\s*\*\s*numbers_per_byte\s*;", "S2 L1_segment_size")
    _one(s2, r"L2_segment_size\s*=\s*L2_CACHE_SIZE\s*\*\s*numbers_per_byte\s*;", "S2 L2_segment_size")
    c["s2MinSize"] = _eval(_one(s2, r"segment_size_\s*=\s*max\(\s*segment_size_\s*,\s*([^;]+)\);\s*segment_size_\s*=\s*Sieve::align_segment_size",
                                "S2 minimum segment size")[0])
    c["s2InitSegs1"] = _eval(_one(s2, r"segment_size_\s*=\s*L1_segment_size\s*;.*?Sieve::align_segment_size\(segment_size_\);\s*segments_\s*=\s*(\d+)\s*;",
                                  "S2 single-thread segments")[0])
    _one(s2, r"segment_size_\s*=\s*Sieve::align_segment_size\(segment_size_\);\s*segments_\s*=\s*1\s*;", "S2 initial segments_ = 1")
    g = _one(s2, r"segment_size_\s*\+=\s*segment_size_\s*/\s*(\d+)\s*;", "S2 growth divisors", count=3)
    c["s2Grow1"], c["s2Grow2"], c["s2Grow3"] = [int(v) for v in g]
    c["sieveAlign"] = _align(src["src/Sieve.cpp"], r"uint64_t\s+Sieve::align_segment_size\(\s*uint64_t\s+size\s*\)", "Sieve::align_segment_size")

    sp = src["include/SegmentedPiTable.hpp"]
    c["piAlign"] = _align(sp, r"static\s+int64_t\s+align_segment_size\(\s*uint64_t\s+size\s*\)", "SegmentedPiTable::align_segment_size")
    num = int(_one(sp, r"numbers_per_byte\(\)\s*\{\s*return\s+(\d+)\s*/\s*sizeof\(pi_t\)\s*;\s*\}", "SegmentedPiTable::numbers_per_byte")[0])
    fields = _one(sp, r"struct\s+pi_t\s*\{([^}]*)\}", "SegmentedPiTable::pi_t")[0]
    fl = [f.strip() for f in fields.split(";") if f.strip()]
    if not fl or any(not re.fullmatch(r"uint64_t\s+\w+", f) for f in fl):
        raise ValueError("pi_t: fields not all uint64_t: %r" % fl)
    c["acNumbersPerByte"] = num // (8 * len(fl))

    p2 = src["src/LoadBalancerP2.cpp"]
    c["p2MinDist"] = _eval(_one(p2, r"min_thread_dist_\s*=\s*([^;]+<<[^;]+);", "P2 min_thread_dist_")[0])
    c["p2ChunksPerThread"] = _eval(_one(p2, r"int64_t\s+chunks_per_thread\s*=\s*([^;]+);", "P2 chunks_per_thread")[0])

    ac = src["src/gourdon/LoadBalancerAC.cpp"]
    c["acMinBytes"] = _eval(_one(ac, r"min_segment_size\s*=\s*(\([^;]+?\))\s*\*\s*SegmentedPiTable::numbers_per_byte\(\)\s*;", "AC min_segment_size")[0])
    _one(ac, r"L1_segment_size\s*=\s*L1_CACHE_SIZE\s*\*\s*SegmentedPiTable::numbers_per_byte\(\)\s*;", "AC L1_segment_size")
    c["acThreadsFactor"] = _eval(_one(ac, r"segment_size_\s*\*\s*segments_\s*\*\s*\(\s*threads_\s*\*\s*(\d+)\s*\)\s*<\s*remaining_dist", "AC threads factor")[0])
    c["acIncrease"] = _eval(_one(ac, r"int64_t\s+increase_factor\s*=\s*([^;]+);", "AC increase_factor")[0])

    order = ["sieveAlign", "piAlign", "l1Cache", "l2Cache", "s2NumbersPerByte", "s2MinSize", "s2InitSegs1",
             "s2Grow1", "s2Grow2", "s2Grow3", "p2MinDist", "p2ChunksPerThread", "acMinBytes", "acNumbersPerByte",
             "acThreadsFactor", "acIncrease"]
    data = ["/-", "GENERATED by translator/extract_lbconst.py from /repo (load balancer constants) - do not edit.", "-/",
            "namespace Pc.LbConst", ""]
    for k in order:
        data.append("def %s : Nat := %d" % (k, c[k]))
    data += ["", "end Pc.LbConst", ""]
    ch1 = write_if_changed(os.path.join(outdir, "LbConst.lean"), "\n".join(data))
    obl = ["/-", "GENERATED by translator/extract_lbconst.py - obligations about the generated constants that the",
           "C09 theorems rely on (the sieve needs segment sizes that are multiples of 240 = 8 bytes * 30 numbers;",
           "every divisor is non-zero; every growth factor is at least 1).", "-/",
           "import PcGen.LbConst", "namespace Pc.LbConst", "",
           "theorem sieveAlign_eq : sieveAlign = 240 := by decide",
           "theorem piAlign_eq : piAlign = 240 := by decide",
           "theorem s2InitSegs1_pos : 1 ≤ s2InitSegs1 := by decide",
           "theorem s2Grow_pos : 1 ≤ s2Grow1 ∧ 1 ≤ s2Grow2 ∧ 1 ≤ s2Grow3 := by decide",
           "theorem p2MinDist_pos : 1 ≤ p2MinDist := by decide",
           "theorem p2ChunksPerThread_pos : 1 ≤ p2ChunksPerThread := by decide",
           "theorem acIncrease_pos : 1 ≤ acIncrease := by decide",
           "theorem acL1_pos : 1 ≤ l1Cache * acNumbersPerByte := by decide",
           "", "end Pc.LbConst", ""]
    ch2 = write_if_changed(os.path.join(outdir, "LbConstObl.lean"), "\n".join(obl))
    h = hashlib.sha256("".join(src[f] for f in files).encode()).hexdigest()[:16]
    return {"constants": c, "files": files, "source_hash": h, "changed": bool(ch1 or ch2), "obligations": 8}
