"""C19: the data of src/RiemannR.cpp and src/LogarithmicIntegral.cpp that the models of Li, R and their
inverses depend on:

  * the two zeta(n) tables (long double and __float128; they must be literal-identical) as exact rationals
    num / 10^digits (the decimal literals are parsed digit by digit, never through a float),
  * the precision switches of the eight integer entry points (`x > 1e14` under HAVE_FLOAT128, `x > 1e8`),
  * the series term caps (`k < 1000`, `n < 1000`), the iteration caps of the inverses (`i < 10`),
  * the stop rules (`<= epsilon`, `>= |old_term|`), the zeta fallback (`k + 1 < zeta.size()`),
  * the guards (`x < 1e-5`, `x < 1`, `x <= 1`, `x <= 2`) and Cesaro's initial guess (branches and thresholds),
  * the literals gamma and li(2), and the comparison operator of the `*_inverse_overflow_check` templates.

Writes lean/PcGen/ZetaData.lean (data) and lean/PcGen/ZetaObl.lean (kernel-checked obligations: one rational
enclosure per table entry, the table decreases towards 1, the control constants are the documented ones).
Never guesses: raises ValueError when a region does not have the recognised shape."""
import os
import re
from fractions import Fraction

MMAX = 10000          # largest number of explicitly summed terms in an enclosure obligation
EXTRA_DIGITS = 6      # the enclosure arithmetic carries this many decimal digits more than the literals


def strip_comments(src):
    src = re.sub(r"/\*.*?\*/", lambda m: "\n" * m.group(0).count("\n"), src, flags=re.S)
    return re.sub(r"//[^\n]*", "", src)


def match_brace(t, i, open_="{", close="}"):
    assert t[i] == open_
    d = 0
    for j in range(i, len(t)):
        if t[j] == open_:
            d += 1
        elif t[j] == close:
            d -= 1
            if d == 0:
                return j + 1
    raise ValueError("unbalanced braces")


def dec_literal(s):
    """exact value of a C decimal floating literal (optionally with exponent) as (Fraction, frac_digits)"""
    m = re.fullmatch(r"(-?)(\d+)(?:\.(\d*))?(?:[eE]([+-]?\d+))?", s)
    if not m:
        raise ValueError("not a decimal literal: %r" % s)
    sign, ip, fp, ex = m.group(1), m.group(2), m.group(3) or "", int(m.group(4) or 0)
    v = Fraction(int(ip + fp), 10 ** len(fp)) * Fraction(10) ** ex
    return (-v if sign else v), len(fp)


def int_literal(s, what):
    v, _ = dec_literal(s)
    if v.denominator != 1:
        raise ValueError("%s: %s is not an integer" % (what, s))
    return int(v)


def zeta_table(code, decl_re, suffix, inf_token, what):
    m = re.search(decl_re + r"\s*=\s*\{", code)
    if not m:
        raise ValueError("%s: table declaration not found" % what)
    e = match_brace(code, m.end() - 1)
    items = [x.strip() for x in code[m.end():e - 1].split(",") if x.strip()]
    if len(items) != 128:
        raise ValueError("%s: expected 128 entries, found %d" % (what, len(items)))
    if items[1] != inf_token:
        raise ValueError("%s: entry 1 is %r, expected %r" % (what, items[1], inf_token))
    vals = []
    for i, it in enumerate(items):
        if i == 1:
            vals.append(None)
            continue
        if not it.endswith(suffix):
            raise ValueError("%s: entry %d lacks the %s suffix: %r" % (what, i, suffix, it))
        vals.append(it[:-len(suffix)])
    return vals


def function_body(code, sig_re, what, nth=0):
    ms = list(re.finditer(sig_re + r"\s*\{", code))
    if len(ms) <= nth:
        raise ValueError("%s: definition not found" % what)
    m = ms[nth]
    e = match_brace(code, m.end() - 1)
    return code[m.end():e - 1], m.start(), e


ENTRY_SHAPE = (r"\s*#if defined\(HAVE_FLOAT128\)\s*if \(x > (?P<t2>[0-9.eE+]+)\)\s*return (?P<f>[^;]*__float128[^;]*);\s*#endif\s*"
               r"if \(x > (?P<t1>[0-9.eE+]+)\)\s*return (?P<l>[^;]*long double[^;]*);\s*else\s*return (?P<d>[^;]*\bdouble\b[^;]*);\s*")


def entry_points(code, fname, kern, inverse, what):
    """the int64_t and int128_t overloads of `fname`; returns (t_ld, t_f128) after checking the shape"""
    res = []
    for ty in ("int64_t", "int128_t"):
        body, _, _ = function_body(code, r"\b%s\s+%s\s*\(\s*%s\s+x\s*\)" % (ty, fname, ty), "%s %s" % (ty, fname))
        m = re.fullmatch(ENTRY_SHAPE, body)
        if not m:
            raise ValueError("%s(%s): body shape not recognised" % (fname, ty))
        for g, fl in (("f", "__float128"), ("l", "long double"), ("d", "double")):
            got = re.sub(r"\s+", " ", m.group(g).strip())
            if inverse:
                want = "%s_overflow_check<%s>(x)" % (kern, fl)
            else:
                want = "(%s) ::%s((%s) x)" % (ty, kern, fl)
            if got != want:
                raise ValueError("%s(%s): %r, expected %r" % (fname, ty, got, want))
        res.append((int_literal(m.group("t1"), what), int_literal(m.group("t2"), what)))
    if res[0] != res[1]:
        raise ValueError("%s: 64- and 128-bit overloads use different switches %r" % (fname, res))
    return res[0]


def all_equal(xs, what):
    if len(set(xs)) != 1:
        raise ValueError("%s differ: %r" % (what, xs))
    return xs[0]


def cesaro(code, what):
    """shape of every initialNthPrimeApprox in `code` (template and __float128 copy)"""
    shape = (r"\s*if \(x < 1\)\s*return 0;\s*else if \(x >= 1 && x < 2\)\s*return 2;\s*else if \(x >= 2 && x < 3\)\s*return 3;\s*"
             r"(?:T|__float128) logx = (?:std::log|logq)\(x\);\s*(?:T|__float128) loglogx = (?:std::log|logq)\(logx\);\s*"
             r"(?:T|__float128) t = logx \+ \(loglogx / 2\);\s*"
             r"if \(x > (?P<a>\d+)\)\s*t \+= \(loglogx / 2\) - 1 \+ \(loglogx - 2\) / logx;\s*"
             r"if \(x > (?P<b>\d+)\)\s*t -= \(loglogx \* loglogx - 6 \* loglogx \+ 11\) / \(2 \* logx \* logx\);\s*"
             r"return x \* t;\s*")
    out = []
    for n in range(2):
        body, _, _ = function_body(code, r"\b(?:T|__float128)\s+initialNthPrimeApprox\s*\(\s*(?:T|__float128)\s+x\s*\)", what, n)
        m = re.fullmatch(shape, body)
        if not m:
            raise ValueError("%s: initialNthPrimeApprox #%d: shape not recognised" % (what, n))
        out.append((int(m.group("a")), int(m.group("b"))))
    return all_equal(out, what + " Cesaro thresholds")


def lean_nat_array(name, vals, doc):
    L = ["/-- %s -/" % doc, "def %s : Array Nat := #[" % name]
    L.append(",\n".join("  %d" % v for v in vals))
    L.append("]")
    return "\n".join(L)


def extract(repo, outdir, write_if_changed):
    rr = strip_comments(open(os.path.join(repo, "src", "RiemannR.cpp")).read())
    li = strip_comments(open(os.path.join(repo, "src", "LogarithmicIntegral.cpp")).read())

    # ---- zeta tables
    t_ld = zeta_table(rr, r"const\s+primecount::Array<long double,\s*128>\s+zeta", "L",
                      "pstd::numeric_limits<long double>::infinity()", "zeta")
    t_q = zeta_table(rr, r"const\s+primecount::Array<__float128,\s*128>\s+zeta_f128", "Q", "HUGE_VALQ", "zeta_f128")
    if t_ld != t_q:
        bad = [i for i in range(128) if t_ld[i] != t_q[i]]
        raise ValueError("zeta and zeta_f128 differ at entries %r" % bad)
    v0, d0 = dec_literal(t_ld[0])
    if v0 != Fraction(-1, 2):
        raise ValueError("zeta[0] is %s, expected -0.5" % t_ld[0])
    digits = None
    nums = [0, 0]
    for i in range(2, 128):
        v, d = dec_literal(t_ld[i])
        if digits is None:
            digits = d
        if d != digits:
            raise ValueError("zeta[%d] has %d fractional digits, others %d" % (i, d, digits))
        nums.append(int(v * 10 ** digits))

    # ---- series loops (template + __float128 copies)
    caps_r = re.findall(r"for \(unsigned k = 1; k < (\d+); k\+\+\)", rr)
    caps_li = re.findall(r"for \(int n = 1; n < (\d+); n\+\+\)", li)
    if len(caps_r) != 2 or len(caps_li) != 2:
        raise ValueError("series loops: expected 2+2 loop headers, found %r %r" % (caps_r, caps_li))
    cap_r = int(all_equal(caps_r, "RiemannR term caps"))
    cap_li = int(all_equal(caps_li, "li term caps"))
    inv_r = re.findall(r"for \(int i = 0; i < (\d+); i\+\+\)", rr)
    inv_li = re.findall(r"for \(int i = 0; i < (\d+); i\+\+\)", li)
    if len(inv_r) != 2 or len(inv_li) != 2:
        raise ValueError("inverse loops: expected 2+2 loop headers, found %r %r" % (inv_r, inv_li))
    it_r = int(all_equal(inv_r, "RiemannR_inverse iteration caps"))
    it_li = int(all_equal(inv_li, "Li_inverse iteration caps"))

    # Gram series body (term recurrence, zeta fallback, stop rule)
    gram_shape = (r"term \*= logx / k;\s*(?:T|__float128) old_sum = sum;\s*"
                  r"if \(k \+ 1 < (?:zeta|zeta_f128)\.size\(\)\)\s*sum \+= term / \((?:T\(zeta\[k \+ 1\]\)|zeta_f128\[k \+ 1\]) \* k\);\s*"
                  r"else\s*sum \+= term / k;\s*"
                  r"if \((?:std::abs|fabsq)\(sum - old_sum\) <= (?:epsilon|FLT128_EPSILON)\)\s*break;")
    if len(re.findall(gram_shape, rr)) != 2:
        raise ValueError("RiemannR: Gram series loop body not recognised")
    if len(re.findall(r"T epsilon = pstd::numeric_limits<T>::epsilon\(\);\s*T sum = 1;\s*T term = 1;\s*T logx = std::log\(x\);", rr)) != 1 or \
       len(re.findall(r"__float128 sum = 1;\s*__float128 term = 1;\s*__float128 logx = logq\(x\);", rr)) != 1:
        raise ValueError("RiemannR: initialisation of the Gram series not recognised")
    rmin = re.findall(r"if \(x < (?:T\()?([0-9.eE+-]+)\)?\)\s*return 0;\s*(?:T epsilon|__float128 sum)", rr)
    if len(rmin) != 2:
        raise ValueError("RiemannR: small-argument guard not recognised")
    rmin_v, _ = dec_literal(all_equal(rmin, "RiemannR guards"))

    # Ramanujan series body
    li_shape = (r"p \*= -logx;\s*factorial \*= n;\s*q = factorial \* power2;\s*power2 \*= 2;\s*"
                r"for \(; k <= \(n - 1\) / 2; k\+\+\)\s*inner_sum \+= (?:T\(1\.0\)|1\.0Q) / \(2 \* k \+ 1\);\s*"
                r"auto old_sum = sum;\s*sum \+= \(p / q\) \* inner_sum;\s*"
                r"if \((?:std::abs|fabsq)\(sum - old_sum\) <= (?:pstd::numeric_limits<T>::epsilon\(\)|FLT128_EPSILON)\)\s*break;")
    if len(re.findall(li_shape, li)) != 2:
        raise ValueError("li: Ramanujan series loop body not recognised")
    if len(re.findall(r"sum = 0;\s*(?:T|__float128) inner_sum = 0;\s*(?:T|__float128) factorial = 1;\s*(?:T|__float128) p = -1;\s*"
                      r"(?:T|__float128) q = 0;\s*(?:T|__float128) power2 = 1;\s*(?:T|__float128) logx = (?:std::log|logq)\(x\);\s*int k = 0;", li)) != 2:
        raise ValueError("li: initialisation of the Ramanujan series not recognised")
    if len(re.findall(r"return gamma \+ (?:std::log|logq)\(logx\) \+ (?:std::sqrt|sqrtq)\(x\) \* sum;", li)) != 2:
        raise ValueError("li: result expression not recognised")
    if len(re.findall(r"if \(x <= 1\)\s*return 0;", li)) != 2 or len(re.findall(r"if \(x <= 2\)\s*return 0;\s*else\s*return li\(x\) - li2;", li)) != 2:
        raise ValueError("li/Li: guards not recognised")
    gam = re.findall(r"gamma = (?:\(T\) )?(\d\.\d+)[LQ];", li)
    li2 = re.findall(r"li2 = (?:\(T\) )?(\d\.\d+)[LQ];", li)
    if len(gam) != 2 or len(li2) != 2:
        raise ValueError("li: gamma / li2 literals not recognised")
    gam_v, gam_d = dec_literal(all_equal(gam, "gamma literals"))
    li2_v, li2_d = dec_literal(all_equal(li2, "li2 literals"))

    # inverses: guard, loop body
    newton = (r"if \(x < 1\)\s*return 0;\s*(?:T|__float128) t = initialNthPrimeApprox\(x\);\s*"
              r"(?:T|__float128) old_term = (?:pstd::numeric_limits<T>::infinity\(\)|HUGE_VALQ);\s*"
              r"for \(int i = 0; i < \d+; i\+\+\)\s*\{\s*"
              r"(?:T|__float128) term = \(RiemannR\(t\) - x\) \* (?:std::log|logq)\(t\);\s*"
              r"if \((?:std::abs|fabsq)\(term\) >= (?:std::abs|fabsq)\(old_term\)\)\s*break;\s*t -= term;\s*old_term = term;\s*\}\s*return t;")
    halley = (r"if \(x < 1\)\s*return 0;\s*(?:T|__float128) t = initialNthPrimeApprox\(x\);\s*"
              r"(?:T|__float128) old_term = (?:pstd::numeric_limits<T>::infinity\(\)|HUGE_VALQ);\s*"
              r"for \(int i = 0; i < \d+; i\+\+\)\s*\{\s*"
              r"(?:T|__float128) delta = Li\(t\) - x;\s*"
              r"(?:T|__float128) term = delta \* (?:std::log|logq)\(t\) / \(1 \+ delta / \(2 \* t\)\);\s*"
              r"if \((?:std::abs|fabsq)\(term\) >= (?:std::abs|fabsq)\(old_term\)\)\s*break;\s*t -= term;\s*old_term = term;\s*\}\s*return t;")
    if len(re.findall(newton, rr)) != 2:
        raise ValueError("RiemannR_inverse: Newton loop not recognised")
    if len(re.findall(halley, li)) != 2:
        raise ValueError("Li_inverse: Halley loop not recognised")
    ces = all_equal([cesaro(rr, "RiemannR.cpp"), cesaro(li, "LogarithmicIntegral.cpp")], "Cesaro thresholds of the two files")

    # saturating conversion
    cmps = []
    for code, kern in ((rr, "RiemannR_inverse"), (li, "Li_inverse")):
        m = re.search(r"template <typename FLOAT, typename T>\s*T %s_overflow_check\(T x\)\s*\{\s*FLOAT res = %s\(\(FLOAT\) x\);\s*"
                      r"if \(res (>=|>) \(FLOAT\) pstd::numeric_limits<T>::max\(\)\)\s*return pstd::numeric_limits<T>::max\(\);\s*"
                      r"else\s*return \(T\) res;\s*\}" % (kern, kern), code)
        if not m:
            raise ValueError("%s_overflow_check: shape not recognised (saturating conversion missing or changed)" % kern)
        cmps.append(m.group(1))
    cmp_op = all_equal(cmps, "comparison operators of the overflow checks")

    # precision switches
    sw = [entry_points(rr, "RiemannR", "RiemannR", False, "RiemannR"),
          entry_points(rr, "RiemannR_inverse", "RiemannR_inverse", True, "RiemannR_inverse"),
          entry_points(li, "Li", "Li", False, "Li"),
          entry_points(li, "Li_inverse", "Li_inverse", True, "Li_inverse")]
    names = ["RiemannR", "RiemannR_inverse", "Li", "Li_inverse"]

    # ---- data file
    D = []
    D.append("/- GENERATED by translator/extract_zeta.py from src/RiemannR.cpp and src/LogarithmicIntegral.cpp — do not edit. -/")
    D.append("namespace Pc.Gen")
    D.append("")
    D.append("/-- number of fractional decimal digits of every zeta literal -/")
    D.append("def zetaDigits : Nat := %d" % digits)
    D.append("/-- common denominator of the zeta literals -/")
    D.append("def zetaDen : Nat := 10 ^ %d" % digits)
    D.append(lean_nat_array("zetaNum", nums,
                            "`zeta[k] = zetaNum[k] / zetaDen` for `2 ≤ k < 128` (the long double and the __float128 tables are "
                            "literal-identical); entries 0 (`-0.5`) and 1 (`infinity`) are never read by the series and are stored as 0"))
    D.append("")
    D.append("/-- the Gram series stops at `k < gramCap`, the Ramanujan series at `n < liCap` -/")
    D.append("def gramCap : Nat := %d" % cap_r)
    D.append("def liCap : Nat := %d" % cap_li)
    D.append("/-- `for (int i = 0; i < …; i++)` of RiemannR_inverse / Li_inverse -/")
    D.append("def rInvIters : Nat := %d" % it_r)
    D.append("def liInvIters : Nat := %d" % it_li)
    D.append("/-- RiemannR(x) returns 0 for `x < rMinNum / rMinDen` -/")
    D.append("def rMinNum : Nat := %d" % rmin_v.numerator)
    D.append("def rMinDen : Nat := %d" % rmin_v.denominator)
    D.append("/-- Cesàro's initial guess adds its 2nd order term for `x > cesaro1`, the 3rd order term for `x > cesaro2` -/")
    D.append("def cesaro1 : Nat := %d" % ces[0])
    D.append("def cesaro2 : Nat := %d" % ces[1])
    D.append("/-- literal `gamma` of li() = gammaNum / gammaDen, literal `li2` of Li() = li2Num / li2Den -/")
    D.append("def gammaNum : Nat := %d" % (gam_v * 10 ** gam_d))
    D.append("def gammaDen : Nat := 10 ^ %d" % gam_d)
    D.append("def li2Num : Nat := %d" % (li2_v * 10 ** li2_d))
    D.append("def li2Den : Nat := 10 ^ %d" % li2_d)
    D.append("/-- `res >= (FLOAT) max` (true) or `res > (FLOAT) max` (false) in the *_inverse_overflow_check templates -/")
    D.append("def satCmpGe : Bool := %s" % ("true" if cmp_op == ">=" else "false"))
    D.append("/-- precision switches (function, `x > …` selects long double, `x > …` selects __float128 under HAVE_FLOAT128) -/")
    D.append("def precisionSwitches : List (String × Nat × Nat) := [")
    D.append(",\n".join('  ("%s", %d, %d)' % (n, a, b) for n, (a, b) in zip(names, sw)))
    D.append("]")
    D.append("")
    D.append("end Pc.Gen")
    ch1 = write_if_changed(os.path.join(outdir, "ZetaData.lean"), "\n".join(D) + "\n")

    # ---- obligations
    def terms_for(n):
        # smallest M with M^-n <= 10^-(digits+2), capped
        M = 2
        while M < MMAX and M ** n < 10 ** (digits + 2):
            M += 1
        return M
    O = []
    O.append("/- GENERATED by translator/extract_zeta.py — kernel-checked obligations over PcGen/ZetaData.lean, do not edit.")
    O.append("   `zetaEntryOk k M`: the literal zeta[k] lies, up to one unit of its last decimal, in the rational enclosure")
    O.append("   Σ_{m≤M} m^-k + [ (M+1)^(1-k)/(k-1), M^(1-k)/(k-1) ] of ζ(k) (PcModel/Zeta.lean; soundness of the enclosure:")
    O.append("   PcProofs/Zeta.lean). Resolution of the enclosure ≈ M^-k. -/")
    O.append("import PcGen.ZetaData")
    O.append("import PcModel.Zeta")
    O.append("namespace Pc.Gen")
    O.append("")
    O.append("/-- number of explicitly summed terms of the enclosure used for zeta[k] -/")
    Ms = [0, 0] + [terms_for(n) for n in range(2, 128)]
    O.append("def zetaTerms : Array Nat := #[%s]" % ", ".join(str(m) for m in Ms))
    # width of each enclosure (same integer arithmetic as PcModel/Zeta.lean) -> number of decimal digits it resolves
    S = 10 ** (digits + EXTRA_DIGITS)
    good = [0, 0]
    for n in range(2, 128):
        M = Ms[n]
        lo = sum(S // m ** n for m in range(1, M + 1)) + S // ((n - 1) * (M + 1) ** (n - 1))
        hi = sum(S // m ** n + 1 for m in range(1, M + 1)) + S // ((n - 1) * M ** (n - 1)) + 1
        d = 0
        while (hi - lo) * 10 ** (d + 1) <= S:
            d += 1
        good.append(d)
    O.append("/-- the enclosure used for zeta[k] is narrower than 10^-zetaGoodDigits[k] -/")
    O.append("def zetaGoodDigits : Array Nat := #[%s]" % ", ".join(str(d) for d in good))
    O.append("")
    O.append("/-- the k-th obligation -/")
    O.append("def zetaObl (k : Nat) : Bool :=")
    O.append("  Pc.zetaEntryOk (zetaNum.getD k 0) zetaDen (10 ^ %d) k (zetaTerms.getD k 0) (zetaGoodDigits.getD k 0)" % EXTRA_DIGITS)
    O.append("")
    for n in range(2, 128):
        O.append("set_option maxRecDepth 200000 in")
        O.append("theorem zeta_obl_%d : zetaObl %d = true := by decide +kernel" % (n, n))
    O.append("")
    O.append("/-- all entries at once (used by PcProofs/LiR.lean) -/")
    O.append("theorem zeta_obl_all : ∀ k, 2 ≤ k → k < 128 → zetaObl k = true := by")
    O.append("  intro k h2 h128")
    O.append("  have : k ∈ List.range' 2 126 := List.mem_range'_1.mpr ⟨h2, by omega⟩")
    O.append("  revert k")
    O.append("  have h : (List.range' 2 126).all (fun k => zetaObl k) = true := by")
    O.append("    simp only [List.range', List.all_cons, List.all_nil, Bool.and_true, Bool.and_eq_true]")
    O.append("    exact ⟨" + ", ".join("zeta_obl_%d" % n for n in range(2, 128)) + "⟩")
    O.append("  intro k _ _ hk")
    O.append("  exact List.all_eq_true.mp h k hk")
    O.append("")
    O.append("/-- the table has 128 entries, decreases strictly from k = 2 on and stays above 1 -/")
    O.append("theorem zeta_table_shape : zetaNum.size = 128 ∧ Pc.zetaDecreasingOk zetaNum zetaDen = true := by decide +kernel")
    O.append("")
    O.append("/-- control constants are the documented ones (C19: term caps, iteration caps, precision switches at 10^8 and")
    O.append("    10^14 for all four functions, guards, saturating comparison `>=`) -/")
    O.append("theorem control_constants :")
    O.append("    gramCap = 1000 ∧ liCap = 1000 ∧ rInvIters = 10 ∧ liInvIters = 10 ∧ rMinNum = 1 ∧ rMinDen = 100000 ∧")
    O.append("    cesaro1 = 1600 ∧ cesaro2 = 1200000 ∧ satCmpGe = true ∧")
    O.append("    precisionSwitches = [(\"RiemannR\", 10 ^ 8, 10 ^ 14), (\"RiemannR_inverse\", 10 ^ 8, 10 ^ 14),")
    O.append("                         (\"Li\", 10 ^ 8, 10 ^ 14), (\"Li_inverse\", 10 ^ 8, 10 ^ 14)] := by decide +kernel")
    O.append("")
    O.append("end Pc.Gen")
    ch2 = write_if_changed(os.path.join(outdir, "ZetaObl.lean"), "\n".join(O) + "\n")
    return dict(zeta_entries=126, digits=digits, resolved_digits=good[2:], gram_cap=cap_r, li_cap=cap_li, inv_iters=(it_r, it_li),
                switches=dict(zip(names, sw)), sat_cmp=cmp_op, obligations=126 + 2, changed=[ch1, ch2])


N_OBLIGATIONS = 126 + 2
