"""C20: inventory of mutable objects with static storage duration (namespace scope, class `static`, function-local
`static`) in primecount (src/, include/) and the bundled primesieve (lib/primesieve/src, include), the functions
that write them and the library-internal call sites of those functions.

Writes lean/PcGen/GlobalsData.lean and lean/PcGen/GlobalsObl.lean (`decide`: lists equal the modelled ones).
Purely textual (comments/strings stripped, brace structure tracked); raises when a namespace-scope statement
cannot be classified."""
import os
import re

SCAN = [("src", True), ("include", True), ("lib/primesieve/src", True), ("lib/primesieve/include", True)]
APP_DIRS = ("src/app/", "lib/primesieve/src/app/")
HOOK_GUARD = "PRIMECOUNT_VERIF"


def strip_code(src):
    out, i, n = [], 0, len(src)
    while i < n:
        c = src[i]
        if src.startswith("//", i):
            while i < n and src[i] != "\n":
                i += 1
        elif src.startswith("/*", i):
            j = src.find("*/", i + 2)
            j = n if j < 0 else j + 2
            out.append("\n" * src.count("\n", i, j))
            i = j
        elif c == '"' or (c == "'" and not (i > 0 and src[i - 1].isalnum())):   # 1'000 digit separators
            j = i + 1
            while j < n and src[j] != c:
                j += 2 if src[j] == "\\" else 1
            out.append(c + c)
            i = j + 1
        else:
            out.append(c)
            i += 1
    return "".join(out)


def preprocess(src):
    """blank preprocessor lines; the text inside `#ifdef PRIMECOUNT_VERIF ... #endif` (verification hooks,
    add-only) is collected separately and removed"""
    lines = src.split("\n")
    res, hook, depth_hook, stack, cont = [], [], None, [], False
    for l in lines:
        st = l.lstrip()
        if cont:
            cont = l.rstrip().endswith("\\")
            res.append("")
            continue
        if st.startswith("#"):
            cont = l.rstrip().endswith("\\")
            d = st[1:].lstrip()
            if re.match(r"(if|ifdef|ifndef)\b", d):
                stack.append(d)
                if depth_hook is None and re.match(r"(ifdef\s+%s\b|if\s+defined\s*\(?\s*%s\b)" % (HOOK_GUARD, HOOK_GUARD), d):
                    depth_hook = len(stack)
            elif re.match(r"endif\b", d):
                if depth_hook is not None and len(stack) == depth_hook:
                    depth_hook = None
                if stack:
                    stack.pop()
            elif re.match(r"(else|elif)\b", d) and depth_hook is not None and len(stack) == depth_hook:
                depth_hook = None     # the #else branch of a hook block is ordinary code
            res.append("")
            continue
        if depth_hook is not None:
            hook.append(l)
            res.append("")
        else:
            res.append(l)
    return "\n".join(res), "\n".join(hook)


KEYWORD_SKIP = re.compile(r"^(using|typedef|friend|static_assert|extern\b(?!\s*\"\")|namespace\s+\w+\s*=|return|goto|public|private|protected)\b")
DECL_ONLY = re.compile(r"^(?:template\s*<[^;]*>\s*)?(class|struct|union|enum(?:\s+class)?)\s+[\w:]+\s*$")


class Found:
    def __init__(self):
        self.vars = []        # dict(file, name, type, mutable, kind, anon)
        self.funcs = []       # dict(file, name, body)
        self.unclassified = []


def classify_statement(stmt, file, anon, found, kind="namespace"):
    s = re.sub(r"\s+", " ", stmt).strip()
    if not s or s == "{}":
        return
    s = re.sub(r"^template\s*<[^{};]*?>\s*(?=\w)", "", s)
    s = re.sub(r"\[\[[^\]]*\]\]\s*", "", s)
    s = re.sub(r"\balignas\s*\([^)]*\)\s*", "", s)
    if KEYWORD_SKIP.match(s) or DECL_ONLY.match(s):
        return
    if s.startswith("extern "):
        return
    # class/struct/enum definition possibly followed by declarators: `struct X {} v;`
    m = re.match(r"^(?:typedef\s+)?(?:class|struct|union|enum(?:\s+class)?)\b[^{}]*\{\}\s*(.*)$", s)
    if m:
        rest = m.group(1).strip()
        if rest:
            found.vars.append(dict(file=file, name=rest.split("=")[0].strip(" *&"), type="(inline class type)", mutable=True,
                                   kind=kind, anon=anon))
        return
    head = s.split("=")[0] if "=" in s else s
    head_noinit = head.replace("{}", "").strip()
    # function pointer variable:  T (*name)(args)
    mfp = re.search(r"\(\s*\*\s*(\w+)\s*\)\s*\(", head_noinit)
    if mfp:
        found.vars.append(dict(file=file, name=mfp.group(1), type="function pointer", mutable="const" not in head_noinit.split(")")[0].split("*")[-1],
                               kind=kind, anon=anon))
        return
    if "operator" in head_noinit:
        return
    if "(" in head_noinit:
        # function declaration, unless the parenthesis holds only literals (constructor-style initialiser)
        args = head_noinit[head_noinit.index("(") + 1: head_noinit.rindex(")")] if ")" in head_noinit else ""
        toks = [a.strip() for a in args.split(",")] if args.strip() else []
        if toks and all(re.fullmatch(r"[-+]?(0x[0-9a-fA-F]+|\d[\d.eE+-]*\w*|true|false|nullptr|\"\"|'')", t) for t in toks):
            pass  # variable with constructor arguments: falls through to the variable analysis below
        else:
            return
        head_noinit = head_noinit[:head_noinit.index("(")].strip()
    # variable definition:  [specifiers] type name [array]
    decl = re.sub(r"\[[^\]]*\]", "", head_noinit).strip()
    m = re.match(r"^(.*?)([\w:]+)$", decl)
    if not m or not m.group(1).strip():
        found.unclassified.append("%s: %s" % (file, s[:120]))
        return
    typ, name = m.group(1).strip(), m.group(2)
    tnt = typ
    while re.search(r"<[^<>]*>", tnt):          # template arguments are not part of the cv/pointer structure
        tnt = re.sub(r"<[^<>]*>", "", tnt)
    if "*" in tnt:
        after = tnt[tnt.rindex("*") + 1:]
        mutable = not (re.search(r"\bconst\b", after) or re.search(r"\bconstexpr\b", tnt))
    else:
        mutable = not re.search(r"\b(const|constexpr)\b", tnt)
    found.vars.append(dict(file=file, name=name, type=typ, mutable=bool(mutable), kind=kind, anon=anon))


def scan_text(text, file, found):
    """walk the brace structure; statements at namespace scope are classified, function bodies are kept"""
    stack = []          # entries: dict(kind= ns|class|func|init, anon=bool, start=int, name=str)
    stmt = []
    i, n = 0, len(text)

    def at_ns():
        return all(e["kind"] == "ns" for e in stack)

    def in_anon():
        return any(e["kind"] == "ns" and e["anon"] for e in stack)

    while i < n:
        c = text[i]
        if c == "{":
            pre = re.sub(r"\s+", " ", "".join(stmt)).strip()
            if at_ns():
                if re.search(r"(^|\s)namespace(\s+[\w:]+)?\s*$", pre) or re.search(r'extern\s*""\s*$', pre):
                    anon = bool(re.search(r"(^|\s)namespace\s*$", pre))
                    stack.append(dict(kind="ns", anon=anon))
                    stmt = []
                elif re.search(r"=\s*$", pre) or re.search(r"[\w>\]]\s*$", pre) and not re.search(r"\)\s*(const|noexcept|override|final|->[^{]*)?\s*$", pre) \
                        and not re.search(r"\b(class|struct|union|enum)\b", pre):
                    stack.append(dict(kind="init"))
                elif re.search(r"\b(class|struct|union|enum)\b[^()]*$", pre) and "(" not in pre.split("class")[-1]:
                    stack.append(dict(kind="class", start=i + 1, pre=pre))
                else:
                    # function definition (possibly with ctor initialiser list)
                    m = re.search(r"([\w:~]+|operator\s*[^\s(]+)\s*\(", pre)
                    stack.append(dict(kind="func", start=i + 1, name=m.group(1) if m else "?", pre=pre))
            else:
                stack.append(dict(kind="blk"))
        elif c == "}":
            if not stack:
                raise ValueError("%s: unbalanced '}'" % file)
            e = stack.pop()
            if e["kind"] == "ns":
                stmt = []
            elif at_ns():
                if e["kind"] == "init":
                    stmt.append("{}")
                elif e["kind"] == "class":
                    body = text[e["start"]:i]
                    scan_class_body(body, file, found, e["pre"])
                    stmt.append("{}")
                elif e["kind"] == "func":
                    found.funcs.append(dict(file=file, name=e["name"], body=text[e["start"]:i], pre=e["pre"]))
                    stmt = []
        elif c == ";" and at_ns():
            classify_statement("".join(stmt), file, in_anon(), found)
            stmt = []
        elif at_ns():
            stmt.append(c)
        i += 1
    if stack:
        raise ValueError("%s: unbalanced '{'" % file)


def scan_class_body(body, file, found, pre):
    """static data members declared inside a class body (nested bodies flattened away)"""
    # remove nested braces (member function bodies, nested classes are scanned recursively)
    out, depth, start = [], 0, 0
    for j, c in enumerate(body):
        if c == "{":
            if depth == 0:
                start = j
            depth += 1
        elif c == "}":
            depth -= 1
            if depth == 0:
                inner_pre = re.sub(r"\s+", " ", "".join(out)).split(";")[-1]
                if re.search(r"\b(class|struct|union)\b[^()]*$", inner_pre):
                    scan_class_body(body[start + 1:j], file, found, inner_pre)
                else:
                    found.funcs.append(dict(file=file, name=(re.findall(r"([\w~]+)\s*\(", inner_pre) or ["?"])[0],
                                            body=body[start + 1:j], pre=inner_pre))
                out.append("{}")
        elif depth == 0:
            out.append(c)
    flat = "".join(out)
    for st in flat.split(";"):
        s = re.sub(r"\s+", " ", st).strip()
        s = re.sub(r"^(public|private|protected)\s*:\s*", "", s)
        if re.match(r"^(inline\s+)?static\b", s) or re.match(r"^(inline\s+)?thread_local\b", s):
            if "(" in s.split("=")[0]:
                continue            # static member function
            s2 = re.sub(r"^(inline\s+)?(static|thread_local)\s+", "", s)
            classify_statement(s2, file, False, found, kind="class-static")


def local_statics(found):
    res = []
    for f in found.funcs:
        for m in re.finditer(r"(?:^|[;{}])\s*((?:static|thread_local)\b[^;(){}]*(?:\([^;{}]*\))?[^;{}]*);", f["body"]):
            s = re.sub(r"\s+", " ", m.group(1)).strip()
            if s.startswith("static_assert"):
                continue
            mutable = not re.search(r"\b(const|constexpr)\b", s.split("=")[0])
            name = re.sub(r"\[[^\]]*\]", "", s.split("=")[0].split("(")[0]).strip().split(" ")[-1].strip("*&")
            res.append(dict(file=f["file"], name=name, type=s[:60], mutable=mutable, kind="local-static in " + f["name"], anon=True))
    return res


def lean_str(s):
    return '"' + s.replace("\\", "\\\\").replace('"', '\\"') + '"'


def extract(repo, outdir, write_if_changed):
    found = Found()
    hooks = Found()
    nfiles = 0
    for d, _ in SCAN:
        for base, dirs, fs in os.walk(os.path.join(repo, d)):
            dirs.sort()
            for fn in sorted(fs):
                if not fn.endswith((".cpp", ".hpp", ".h")) or fn == "libdivide.h":
                    continue
                p = os.path.join(base, fn)
                rel = os.path.relpath(p, repo)
                code, hook = preprocess(strip_code(open(p, errors="replace").read()))
                scan_text(code, rel, found)
                if hook.strip():
                    try:
                        scan_text(hook, rel, hooks)
                    except ValueError:
                        pass
                nfiles += 1
    if found.unclassified:
        raise ValueError("unclassified namespace-scope statements: %r" % found.unclassified[:5])
    allvars = found.vars + local_statics(found)
    mutable = [v for v in allvars if v["mutable"]]
    consts = [v for v in allvars if not v["mutable"]]

    def is_app(f):
        return f.startswith(APP_DIRS)
    lib_mut = sorted((v for v in mutable if not is_app(v["file"])), key=lambda v: (v["file"], v["name"]))
    app_mut = sorted((v for v in mutable if is_app(v["file"])), key=lambda v: (v["file"], v["name"]))

    # writers: functions (same file for internal linkage, any file otherwise) assigning to a mutable global
    writers = []
    for v in lib_mut:
        pat = re.compile(r"(?<![\w.>:])%s\s*(=(?!=)|\+=|-=|\*=|/=|\|=|&=|\^=|<<=|>>=|\+\+|--)|(\+\+|--)\s*%s\b|&\s*%s\b(?!\s*\()" %
                         (re.escape(v["name"]), re.escape(v["name"]), re.escape(v["name"])))
        for f in found.funcs:
            if (v["anon"] or v["kind"] != "namespace") and f["file"] != v["file"]:
                continue
            if pat.search(f["body"]):
                # a local variable of the same name shadows the global: skip when the body declares it
                if re.search(r"\b(int|double|bool|auto|int64_t|uint64_t|std::size_t|size_t)\s+%s\b" % re.escape(v["name"]), f["body"]):
                    continue
                writers.append((v["file"], v["name"], f["name"].split("::")[-1]))
    writers = sorted(set(writers))
    setter_names = sorted(set(w[2] for w in writers))
    # call sites of the writer functions inside library (non-app) function bodies
    calls = []
    for f in found.funcs:
        if is_app(f["file"]) or f["file"].startswith("lib/primesieve/"):
            continue
        for sname in setter_names:
            for m in re.finditer(r"((?:\w+\s*::\s*)*)\b%s\s*\(" % re.escape(sname), f["body"]):
                calls.append((f["file"], f["name"].split("::")[-1], re.sub(r"\s+", "", m.group(1)) + sname))
    calls = sorted(set(calls))
    app_calls = []
    for f in found.funcs:
        if is_app(f["file"]) and not f["file"].startswith("lib/primesieve/"):
            for sname in setter_names:
                if re.search(r"\b%s\s*\(" % re.escape(sname), f["body"]):
                    app_calls.append((f["file"], f["name"].split("::")[-1], sname))
    app_calls = sorted(set(app_calls))
    hook_vars = sorted((v["file"], v["name"]) for v in hooks.vars if v["mutable"])

    L = []
    L.append("/- GENERATED by translator/extract_globals.py: objects with static storage duration in src/, include/,")
    L.append("   lib/primesieve/{src,include} (libdivide.h excluded); `#ifdef %s` hook blocks listed apart — do not edit. -/" % HOOK_GUARD)
    L.append("namespace Pc.Gen")
    L.append("")
    L.append("/-- mutable (non-const) objects of the libraries: (file, name) -/")
    L.append("def mutableGlobals : List (String × String) := [")
    L.append(",\n".join("  (%s, %s)" % (lean_str(v["file"]), lean_str(v["name"])) for v in lib_mut))
    L.append("]")
    L.append("")
    L.append("/-- mutable objects of the command-line applications (src/app, lib/primesieve/src/app) -/")
    L.append("def appMutableGlobals : List (String × String) := [")
    L.append(",\n".join("  (%s, %s)" % (lean_str(v["file"]), lean_str(v["name"])) for v in app_mut))
    L.append("]")
    L.append("")
    L.append("/-- functions containing a write (assignment, increment or decrement, address-of) to a mutable global: (file, global, function) -/")
    L.append("def globalWriters : List (String × String × String) := [")
    L.append(",\n".join("  (%s, %s, %s)" % tuple(lean_str(x) for x in w) for w in writers))
    L.append("]")
    L.append("")
    L.append("/-- calls of those writer functions from primecount library code (not src/app): (file, caller, callee) -/")
    L.append("def librarySetterCalls : List (String × String × String) := [")
    L.append(",\n".join("  (%s, %s, %s)" % tuple(lean_str(x) for x in w) for w in calls))
    L.append("]")
    L.append("")
    L.append("/-- calls of the writer functions from the primecount CLI (src/app): (file, caller, callee) -/")
    L.append("def appSetterCalls : List (String × String × String) := [")
    L.append(",\n".join("  (%s, %s, %s)" % tuple(lean_str(x) for x in w) for w in app_calls))
    L.append("]")
    L.append("")
    L.append("/-- mutable objects inside `#ifdef %s` blocks (verification hooks) -/" % HOOK_GUARD)
    L.append("def hookGlobals : List (String × String) := [%s]" % ", ".join("(%s, %s)" % (lean_str(a), lean_str(b)) for a, b in hook_vars))
    L.append("")
    L.append("def constGlobalCount : Nat := %d" % len(consts))
    L.append("def scannedFiles : Nat := %d" % nfiles)
    L.append("")
    L.append("end Pc.Gen")
    ch1 = write_if_changed(os.path.join(outdir, "GlobalsData.lean"), "\n".join(L) + "\n")

    O = []
    O.append("/- GENERATED by translator/extract_globals.py — obligations over PcGen/GlobalsData.lean, do not edit. -/")
    O.append("import PcGen.GlobalsData")
    O.append("import PcModel.ApiState")
    O.append("namespace Pc.Gen")
    O.append("")
    O.append("/-- the mutable process-global state of the libraries is exactly the modelled state σ -/")
    O.append("theorem mutableGlobals_eq_modelled : mutableGlobals = Pc.modelledGlobals := by decide")
    O.append("")
    O.append("/-- each component of σ is written by exactly the modelled setter -/")
    O.append("theorem globalWriters_eq_modelled : globalWriters = Pc.modelledWriters := by decide")
    O.append("")
    O.append("/-- library code never calls a setter, except the two forwarding calls of set_num_threads -/")
    O.append("theorem librarySetterCalls_eq_modelled : librarySetterCalls = Pc.modelledSetterCalls := by decide")
    O.append("")
    O.append("end Pc.Gen")
    ch2 = write_if_changed(os.path.join(outdir, "GlobalsObl.lean"), "\n".join(O) + "\n")
    return {"files": nfiles, "mutable": [(v["file"], v["name"], v["kind"]) for v in lib_mut],
            "app_mutable": [(v["file"], v["name"]) for v in app_mut], "const_objects": len(consts),
            "writers": writers, "library_setter_calls": calls, "app_setter_calls": app_calls, "hook_globals": hook_vars,
            "changed": [ch1, ch2], "obligations": 3}
