"""Extracts the constants and the SHAPE of the size dispatcher of primecount::pi from
src/api.cpp, include/PiTable.hpp and src/PiTable.cpp into lean/PcGen/ApiConst.lean.

What is read (and required to be there, otherwise the extractor raises = `extractor_shape_changed`):
  * `int64_t pi(int64_t x, int threads)`: the chain
        if (x <= PiTable::max_cached()) return pi_cache(x);
        if (x <= (int64_t) <lit>)       return pi_legendre(x, threads);
        if (x <= (int64_t) <lit>)       return pi_meissel(x, threads);
        return pi_gourdon_64(x, threads);
    (route order and comparison operator are part of the shape; the two literals are the output)
  * `int64_t pi_cache(int64_t x, bool is_print)`: `if (x < <lit>) return 0;`
  * `int128_t pi(int128_t x, int threads)`: `if (x < 0) return 0;`,
    `if (x <= pstd::numeric_limits<int64_t>::max()) return pi((int64_t) x, threads); else return pi_gourdon_128(x, threads);`
  * `PiTable::max_cached()`: `return pi_cache_.size() * <lit> - <lit>;` and the declared size of `pi_cache_`.
"""
import os
import re
from fractions import Fraction


def strip_comments(src):
    src = re.sub(r"/\*.*?\*/", " ", src, flags=re.S)
    src = re.sub(r"//[^\n]*", " ", src)
    return src


def norm(s):
    return re.sub(r"\s+", " ", s).strip()


def literal_value(tok):
    """exact value of a C++ integer / floating literal that denotes an integer (1e5, 100000, 1e8)"""
    t = tok.strip().rstrip("uUlL")
    if re.fullmatch(r"\d+", t):
        return int(t)
    m = re.fullmatch(r"(\d+)(?:\.(\d*))?[eE]\+?(\d+)", t)
    if m:
        v = Fraction(int(m.group(1) + (m.group(2) or "")), 10 ** len(m.group(2) or "")) * 10 ** int(m.group(3))
        if v.denominator != 1:
            raise ValueError("literal %r is not an integer" % tok)
        return int(v)
    raise ValueError("unrecognised literal %r" % tok)


def function_body(src, header_re):
    m = re.search(header_re, src)
    if not m:
        raise ValueError("function not found: " + header_re)
    i = src.index("{", m.end() - 1)
    depth, j = 0, i
    while True:
        if src[j] == "{":
            depth += 1
        elif src[j] == "}":
            depth -= 1
            if depth == 0:
                return src[i + 1:j]
        j += 1


def extract(repo, outdir, write_if_changed):
    api = strip_comments(open(os.path.join(repo, "src/api.cpp")).read())
    hpp = strip_comments(open(os.path.join(repo, "include/PiTable.hpp")).read())
    cpp = strip_comments(open(os.path.join(repo, "src/PiTable.cpp")).read())

    # ---- 64-bit dispatcher
    body = norm(function_body(api, r"int64_t\s+pi\s*\(\s*int64_t\s+x\s*,\s*int\s+threads\s*\)\s*\{"))
    m = re.fullmatch(
        r"if \(x <= PiTable::max_cached\(\)\) return pi_cache\(x\); "
        r"if \(x <= \(int64_t\) ([0-9.eE+]+)\) return pi_legendre\(x, threads\); "
        r"if \(x <= \(int64_t\) ([0-9.eE+]+)\) return pi_meissel\(x, threads\); "
        r"return pi_gourdon_64\(x, threads\);", body)
    if not m:
        raise ValueError("pi(int64_t, int): dispatcher shape not recognised: " + body[:300])
    leg, mei = literal_value(m.group(1)), literal_value(m.group(2))

    # ---- pi_cache(int64_t, bool)
    body = norm(function_body(api, r"int64_t\s+pi_cache\s*\(\s*int64_t\s+x\s*,\s*bool\s+is_print\s*\)\s*\{"))
    m = re.match(r"if \(x < (\d+)\) return 0; ", body)
    if not m or not body.endswith("return PiTable::pi_cache(x);"):
        raise ValueError("pi_cache(int64_t, bool): shape not recognised: " + body[:300])
    cache_zero_below = int(m.group(1))

    # ---- 128-bit dispatcher
    body = norm(function_body(api, r"int128_t\s+pi\s*\(\s*int128_t\s+x\s*,\s*int\s+threads\s*\)\s*\{"))
    if not re.fullmatch(
            r"if \(x < 0\) return 0; "
            r"if \(x <= pstd::numeric_limits<int64_t>::max\(\)\) return pi\(\(int64_t\) x, threads\); "
            r"else return pi_gourdon_128\(x, threads\);", body):
        raise ValueError("pi(int128_t, int): shape not recognised: " + body[:300])

    # ---- string entry
    body = norm(function_body(api, r"std::string\s+pi\s*\(\s*const\s+std::string&\s+x\s*,\s*int\s+threads\s*\)\s*\{"))
    if body != "maxint_t n = to_maxint(x); maxint_t res = pi(n, threads); return to_string(res);":
        raise ValueError("pi(const std::string&, int): shape not recognised: " + body[:300])

    # ---- max_cached
    body = norm(function_body(hpp, r"static\s+int64_t\s+max_cached\s*\(\s*\)\s*\{"))
    m = re.fullmatch(r"return pi_cache_\.size\(\) \* (\d+) - (\d+);", body)
    if not m:
        raise ValueError("PiTable::max_cached(): shape not recognised: " + body)
    mul, sub = int(m.group(1)), int(m.group(2))
    m1 = re.search(r"static\s+const\s+Array<\s*pi_t\s*,\s*(\d+)\s*>\s+pi_cache_\s*;", hpp)
    m2 = re.search(r"const\s+Array<\s*PiTable::pi_t\s*,\s*(\d+)\s*>\s+PiTable::pi_cache_\s*=", cpp)
    if not m1 or not m2 or m1.group(1) != m2.group(1):
        raise ValueError("pi_cache_ declaration / definition sizes not recognised or different")
    words = int(m1.group(1))

    text = """/-
GENERATED by translator/extract_api.py from src/api.cpp, include/PiTable.hpp, src/PiTable.cpp — do not edit.
Constants of the size dispatcher `primecount::pi(int64_t x, int threads)` (the extractor also checks the
shape: route order cache / Legendre / Meissel / Gourdon, `<=` comparisons, `x < 0 -> 0` and the narrowing
to 64 bit in the int128 overload).
-/
namespace PcGen.ApiConst

/-- number of 240-blocks of `PiTable::pi_cache_` -/
def piCacheWords : Nat := %d
/-- `PiTable::max_cached() = pi_cache_.size() * %d - %d` -/
def maxCached : Nat := piCacheWords * %d - %d
/-- `pi_cache(x)` returns 0 for `x <` this -/
def cacheZeroBelow : Nat := %d
/-- `if (x <= (int64_t) ...) return pi_legendre(x, threads);` -/
def legendreMax : Nat := %d
/-- `if (x <= (int64_t) ...) return pi_meissel(x, threads);` -/
def meisselMax : Nat := %d

end PcGen.ApiConst
""" % (words, mul, sub, mul, sub, cache_zero_below, leg, mei)
    changed = write_if_changed(os.path.join(outdir, "ApiConst.lean"), text)
    return dict(piCacheWords=words, maxCached=words * mul - sub, cacheZeroBelow=cache_zero_below,
                legendreMax=leg, meisselMax=mei, changed=changed)


if __name__ == "__main__":
    import sys

    def w(path, text):
        os.makedirs(os.path.dirname(path), exist_ok=True)
        old = open(path).read() if os.path.exists(path) else None
        if old != text:
            open(path, "w").write(text)
        return old != text
    print(extract(sys.argv[1], sys.argv[2], w))
