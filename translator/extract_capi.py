"""C14: shape of the C entry points (src/api_c.cpp vs include/primecount.h) and inventory of `throw` expressions.

Writes lean/PcGen/CApiData.lean (data) and lean/PcGen/CApiObl.lean (`decide` obligations).
Never guesses: raises when a construct is not recognised."""
import os
import re


def strip_code(src, keep_strings=False):
    """remove // and /* */ comments; string/char literals are replaced by "" (or kept)."""
    out, i, n = [], 0, len(src)
    while i < n:
        c = src[i]
        if src.startswith("//", i):
            while i < n and src[i] != "\n":
                i += 1
        elif src.startswith("/*", i):
            j = src.find("*/", i + 2)
            j = n if j < 0 else j + 2
            out.append("\n" * src.count("\n", i, j))
            i = j
        elif c == '"' or c == "'":
            j = i + 1
            while j < n and src[j] != c:
                j += 2 if src[j] == "\\" else 1
            out.append(src[i:j + 1] if keep_strings else c + c)
            i = j + 1
        else:
            out.append(c)
            i += 1
    return "".join(out)


def drop_preprocessor(src):
    """blank out preprocessor lines (all conditional branches are kept: a superset of every configuration)"""
    lines = src.split("\n")
    res, cont = [], False
    for l in lines:
        if cont or l.lstrip().startswith("#"):
            cont = l.rstrip().endswith("\\")
            res.append("")
        else:
            res.append(l)
    return "\n".join(res)


def match_brace(s, i, open_c="{", close_c="}"):
    """s[i] == open_c; returns index just after the matching close"""
    assert s[i] == open_c
    depth = 0
    for j in range(i, len(s)):
        if s[j] == open_c:
            depth += 1
        elif s[j] == close_c:
            depth -= 1
            if depth == 0:
                return j + 1
    raise ValueError("unbalanced braces")


def lean_str(s):
    return '"' + s.replace("\\", "\\\\").replace('"', '\\"') + '"'


def c_declarations(header):
    txt = drop_preprocessor(strip_code(header))
    m = re.search(r'extern\s*""\s*\{', txt)
    # the header wraps its declarations in `#ifdef __cplusplus extern "C" { #endif`, which is a preprocessor line:
    # after dropping those lines all remaining prototypes are the C API
    decls = []
    for mm in re.finditer(r"(?m)^\s*((?:const\s+)?\w+(?:\s*\*)?)\s+(primecount_\w+)\s*\(([^)]*)\)\s*;", txt):
        decls.append((mm.group(2), mm.group(1).replace(" ", "")))
    if not decls:
        raise ValueError("primecount.h: no C declarations recognised")
    if 'extern "C"' not in header:
        raise ValueError('primecount.h: no extern "C" block')
    return decls


def body_shape(name, rettype, body, macros):
    """classify the body text (comments stripped, strings kept)"""
    b = body.strip()
    assert b[0] == "{" and b[-1] == "}"
    inner = b[1:-1].strip()
    m = re.match(r"try\s*\{", inner)
    if m:
        e = match_brace(inner, m.end() - 1)
        rest = inner[e:].strip()
        mc = re.match(r"catch\s*\(\s*const\s+std\s*::\s*exception\s*&\s*\w*\s*\)\s*\{", rest)
        if not mc:
            return "other", False
        e2 = match_brace(rest, mc.end() - 1)
        if rest[e2:].strip() != "":
            return "other", False       # a second handler or code after the try block
        cblock = rest[mc.end():e2 - 1].strip()
        if re.search(r"\bthrow\b", cblock):
            return "other", False
        if rettype == "void":
            ok = not re.search(r"\breturn\b\s*[^;\s]", cblock)
        else:
            stmts = [s.strip() for s in cblock.split(";") if s.strip()]
            ok = bool(stmts) and re.fullmatch(r"return\s*-\s*1", stmts[-1]) is not None
            # every return in the handler must be -1
            for s in stmts:
                if re.search(r"\breturn\b", s) and not re.fullmatch(r"(?:.*\s)?return\s*-\s*1", s, re.S):
                    ok = False
        return "tryCatchStdException", ok
    # literal returns only
    stmts = [s.strip() for s in inner.split(";") if s.strip()]
    if stmts and all(re.fullmatch(r'return\s+("(?:[^"\\]|\\.)*"|[A-Z_][A-Z0-9_]*)', s) for s in stmts):
        for s in stmts:
            mm = re.fullmatch(r"return\s+([A-Z_][A-Z0-9_]*)", s)
            if mm and mm.group(1) not in macros:
                return "other", False
        return "literalReturn", True
    return "other", False


THROW_DIRS = ["src", "include", "lib/primesieve/src", "lib/primesieve/include"]
STD_ROOTS = {"std::exception", "std::runtime_error", "std::logic_error", "std::bad_alloc", "std::invalid_argument",
             "std::out_of_range", "std::overflow_error", "std::range_error", "std::length_error", "std::domain_error",
             "std::bad_cast", "std::underflow_error", "std::system_error"}


def scan_throws(repo):
    classes = {}     # class name -> base
    throws = []      # (file, line, kind, type)
    files = []
    for d in THROW_DIRS:
        for base, dirs, fs in os.walk(os.path.join(repo, d)):
            dirs.sort()
            for f in sorted(fs):
                if f.endswith((".cpp", ".hpp", ".h")):
                    files.append(os.path.join(base, f))
    texts = {}
    for p in files:
        t = strip_code(open(p, errors="replace").read())
        texts[p] = t
        for m in re.finditer(r"\b(?:class|struct)\s+(\w+)\s*(?:final\s*)?:\s*(?:public\s+|private\s+|protected\s+)?((?:\w+\s*::\s*)*\w+)", t):
            classes.setdefault(m.group(1), re.sub(r"\s+", "", m.group(2)))
    for p in files:
        t = texts[p]
        rel = os.path.relpath(p, repo)
        for m in re.finditer(r"\bthrow\b", t):
            line = t.count("\n", 0, m.start()) + 1
            rest = t[m.end():m.end() + 200]
            if re.match(r"\s*\(\s*\)", rest):
                continue                                  # `throw()` exception specification
            if re.match(r"\s*;", rest):
                # bare rethrow: what is rethrown is what the nearest enclosing handler caught
                cs = list(re.finditer(r"\bcatch\s*\(([^)]*)\)", t[:m.start()]))
                cty = cs[-1].group(1) if cs else "..."
                cty = re.sub(r"\bconst\b", "", cty).strip()
                mm = re.match(r"((?:\w+\s*::\s*)*\w+)\s*&?\s*\w*$", cty)
                if mm:
                    throws.append((rel, line, "rethrow", re.sub(r"\s+", "", mm.group(1))))
                else:
                    throws.append((rel, line, "nonclass", "throw; inside catch (%s)" % cty))
                continue
            mm = re.match(r"\s+((?:\w+\s*::\s*)*\w+)\s*[({]", rest)
            if mm:
                ty = re.sub(r"\s+", "", mm.group(1))
                throws.append((rel, line, "class", ty))
            else:
                throws.append((rel, line, "nonclass", rest.split(";")[0].strip()[:60]))

    def root(ty):
        seen = set()
        cur = ty
        while True:
            if cur in STD_ROOTS:
                return "stdException"
            short = cur.split("::")[-1]
            if short in seen or short not in classes:
                return "unknown"
            seen.add(short)
            cur = classes[short]
    types = {}
    for (_, _, kind, ty) in throws:
        if kind in ("class", "rethrow"):
            types[ty] = root(ty)
    return throws, types


def extract(repo, outdir, write_if_changed):
    header = open(os.path.join(repo, "include", "primecount.h")).read()
    api_c_raw = open(os.path.join(repo, "src", "api_c.cpp")).read()
    decls = c_declarations(header)
    macros = set(re.findall(r'(?m)^\s*#\s*define\s+([A-Z_][A-Z0-9_]*)\s+"', header))
    code = drop_preprocessor(strip_code(api_c_raw, keep_strings=True))
    fns = []
    for name, rettype in decls:
        m = re.search(r"\b" + re.escape(name) + r"\s*\(([^)]*)\)\s*\{", code)
        if not m:
            raise ValueError("api_c.cpp: no definition of %s" % name)
        e = match_brace(code, m.end() - 1)
        shape, ok = body_shape(name, rettype, code[m.end() - 1:e], macros)
        fns.append((name, shape, ok))
    # definitions in api_c.cpp that the header does not declare would not have C linkage: report them
    defined = re.findall(r"(?m)^[\w\s\*]*?\b(primecount_\w+)\s*\([^;{)]*\)\s*\{", code)
    extra = sorted(set(defined) - set(n for n, _ in decls))

    def max_x_literals(text, fname):
        t = strip_code(text, keep_strings=True)
        m = re.search(r"\b" + fname + r"\s*\(\s*(?:void)?\s*\)\s*\{", t)
        if not m:
            raise ValueError("no definition of %s()" % fname)
        e = match_brace(t, m.end() - 1)
        return re.findall(r'return\s+"(\d+)"', t[m.end():e])
    c_lits = max_x_literals(api_c_raw, "primecount_get_max_x")
    cpp_lits = max_x_literals(open(os.path.join(repo, "src", "api.cpp")).read(), r"(?<!_)get_max_x")
    if len(c_lits) != 2 or len(cpp_lits) != 2:
        raise ValueError("get_max_x: expected two literals, got %r / %r" % (c_lits, cpp_lits))

    throws, types = scan_throws(repo)
    nonclass = [t for t in throws if t[2] == "nonclass"]
    rethrows = [t for t in throws if t[2] == "rethrow"]

    L = []
    L.append("/- GENERATED by translator/extract_capi.py from include/primecount.h, src/api_c.cpp, src/api.cpp and")
    L.append("   every `throw` under %s — do not edit. -/" % ", ".join(THROW_DIRS))
    L.append("import PcModel.CApi")
    L.append("namespace Pc.Gen")
    L.append("")
    L.append("/-- the functions declared in the `extern \"C\"` block of primecount.h with the shape of their definition -/")
    L.append("def cApiFns : List CFn := [")
    L.append(",\n".join("  ⟨%s, .%s, %s⟩" % (lean_str(n), s, "true" if ok else "false") for n, s, ok in fns))
    L.append("]")
    L.append("")
    L.append("/-- definitions named primecount_* in api_c.cpp without a declaration in primecount.h -/")
    L.append("def cApiUndeclared : List String := [%s]" % ", ".join(lean_str(x) for x in extra))
    L.append("")
    L.append("/-- class types constructed in `throw` expressions, with the root of their inheritance chain -/")
    L.append("def thrownTypes : List ThrownType := [")
    L.append(",\n".join("  ⟨%s, .%s⟩" % (lean_str(t), types[t]) for t in sorted(types)))
    L.append("]")
    L.append("")
    L.append("/-- `throw` expressions whose operand is not the construction of a class type (file:line text) -/")
    L.append("def nonClassThrows : List String := [%s]" % ", ".join(lean_str("%s:%d %s" % (f, l, x)) for f, l, _, x in nonclass))
    L.append("")
    L.append("/-- bare `throw;` sites with the type caught by the enclosing handler (that type is part of thrownTypes) -/")
    L.append("def rethrowSites : List String := [%s]" % ", ".join(lean_str("%s:%d %s" % (f, l, x)) for f, l, _, x in rethrows))
    L.append("")
    L.append("def throwSiteCount : Nat := %d" % len(throws))
    L.append("")
    L.append("/-- literals returned by primecount_get_max_x() (api_c.cpp) and primecount::get_max_x() (api.cpp) -/")
    L.append("def cMaxXLiterals : List String := [%s]" % ", ".join(lean_str(x) for x in c_lits))
    L.append("def cppMaxXLiterals : List String := [%s]" % ", ".join(lean_str(x) for x in cpp_lits))
    L.append("")
    L.append("end Pc.Gen")
    ch1 = write_if_changed(os.path.join(outdir, "CApiData.lean"), "\n".join(L) + "\n")

    O = []
    O.append("/- GENERATED by translator/extract_capi.py — obligations over PcGen/CApiData.lean, do not edit. -/")
    O.append("import PcGen.CApiData")
    O.append("namespace Pc.Gen")
    O.append("")
    O.append("/-- every C entry point is `try { ... } catch (const std::exception&) { ...; return -1; }` (or returns literals only) -/")
    O.append("theorem cApiFns_shape : cApiFns.all CFn.shapeOk = true := by decide")
    O.append("")
    # independent count: identifiers primecount_* followed by "(" in the header (comments stripped)
    n_header = len(set(re.findall(r"\b(primecount_\w+)\s*\(", drop_preprocessor(strip_code(header)))))
    O.append("/-- as many entries as the header has `primecount_*(` prototypes -/")
    O.append("theorem cApiFns_count : cApiFns.length = %d := by decide" % n_header)
    O.append("")
    O.append("theorem cApiUndeclared_nil : cApiUndeclared = [] := by decide")
    O.append("")
    O.append("/-- every class thrown anywhere in primecount or the bundled primesieve derives from std::exception -/")
    O.append("theorem thrownTypes_std : thrownTypes.all (fun t => t.base == .stdException) = true := by decide")
    O.append("")
    O.append("/-- no `throw` of a non-class operand (a bare `throw;` counts as one unless its handler names a class type) -/")
    O.append("theorem nonClassThrows_nil : nonClassThrows = [] := by decide")
    O.append("")
    O.append("/-- the C and the C++ get_max_x return the same literals -/")
    O.append("theorem maxX_literals_agree : cMaxXLiterals = cppMaxXLiterals := by decide")
    O.append("")
    O.append("end Pc.Gen")
    ch2 = write_if_changed(os.path.join(outdir, "CApiObl.lean"), "\n".join(O) + "\n")
    return {"functions": [(n, s, ok) for n, s, ok in fns], "undeclared": extra, "throw_sites": len(throws),
            "thrown_types": types, "nonclass_throws": len(nonclass), "rethrows": len(rethrows),
            "max_x_literals": c_lits, "changed": [ch1, ch2], "obligations": 6}
