// Dumps the lookup tables of BitSieve240 / PiTable / Sieve / BaseFactorTable exactly as the
// library that was just built contains them (the static data members are read from
// libprimecount.a at link time, NOT re-evaluated from the headers: the headers only
// declare them).  Output: one line per table: "<name> <n> v0 v1 ...".
#include <cstdint>
#include <cstdio>
#include <cstddef>
#include <algorithm>
#include <array>
#include <memory>
#include <vector>
#include <string>
#include <type_traits>
#include <utility>
#include <limits>
#include <cstring>
#include <cstdlib>
#include <stdexcept>
#include <new>
#include <iterator>
#include <cassert>
#include <cmath>
#include <exception>
#include <iostream>
#include <sstream>

// Access specifiers do not change the names of static data members; this only lets the
// dumper name the private/protected tables.
#define private public
#define protected public
#include <BitSieve240.hpp>
#include <PiTable.hpp>
#include <Sieve.hpp>
#include <BaseFactorTable.hpp>
#undef private
#undef protected

using namespace primecount;

template <typename A>
static void dump(const char* name, const A& a)
{
  std::printf("%s %zu", name, (size_t) a.size());
  for (size_t i = 0; i < a.size(); i++)
    std::printf(" %lld", (long long) a[i]);
  std::printf("\n");
}

template <typename A>
static void dumpu(const char* name, const A& a)
{
  std::printf("%s %zu", name, (size_t) a.size());
  for (size_t i = 0; i < a.size(); i++)
    std::printf(" %llu", (unsigned long long) a[i]);
  std::printf("\n");
}

int main()
{
  dumpu("pi_tiny", BitSieve240::pi_tiny_);
  dumpu("set_bit", BitSieve240::set_bit_);
  dumpu("unset_bit", BitSieve240::unset_bit_);
  dumpu("unset_larger", BitSieve240::unset_larger_);
  dumpu("sieve_unset_smaller", Sieve::unset_smaller);
  dumpu("sieve_unset_larger", Sieve::unset_larger);
  std::printf("pi_cache %zu", (size_t) PiTable::pi_cache_.size());
  for (size_t i = 0; i < PiTable::pi_cache_.size(); i++)
    std::printf(" %llu %llu", (unsigned long long) PiTable::pi_cache_[i].count,
                (unsigned long long) PiTable::pi_cache_[i].bits);
  std::printf("\n");
  dumpu("coprime", BaseFactorTable::coprime_);
  dump("coprime_indexes", BaseFactorTable::coprime_indexes_);
  return 0;
}
