"""Extractor for the wheel-factorisation tables of src/Sieve.cpp (DESIGN.md 5.5 "Wheel step table").

Reads the RAW source text (comments stripped) of /repo/src/Sieve.cpp and produces

  lean/PcGen/WheelData.lean   data only (core Lean): the 64 `case` lines of Sieve::cross_off and of
                              Sieve::cross_off_count as (bit, k, c, next-case), the 8 unrolled fast loops
                              of Sieve::cross_off, the arrays wheel_init / wheel_offsets
  lean/PcGen/WheelObl.lean    `decide` obligations: every entry equals its defining formula
                              (PcModel/WheelSpec.lean) and the two switch tables agree.

The extractor never guesses: every region is matched by an anchored grammar that must consume the whole
region; anything unexpected raises (-> `extractor_shape_changed` in the evidence, last committed file kept).
The two helper macros CHECK_FINISHED / COUNT_UNSET_BIT are compared (whitespace-normalised) with the text
the hand-written model PcModel/Sieve.lean mirrors.
"""
import os
import re


class Shape(Exception):
    pass


def strip_comments(src):
    src = re.sub(r"/\*.*?\*/", " ", src, flags=re.S)
    src = re.sub(r"//[^\n]*", "", src)
    return src


def norm(s):
    return re.sub(r"\s+", " ", s.replace("\\\n", " ")).strip()


def match_brace(src, i):
    """src[i] == '{' -> index just after the matching '}'"""
    if src[i] != "{":
        raise Shape("expected '{' at %d" % i)
    depth = 0
    for j in range(i, len(src)):
        if src[j] == "{":
            depth += 1
        elif src[j] == "}":
            depth -= 1
            if depth == 0:
                return j + 1
    raise Shape("unbalanced braces")


def function_body(src, header_re):
    m = re.search(header_re, src)
    if not m:
        raise Shape("function header not found: " + header_re)
    i = src.index("{", m.end() - 1)
    return src[i:match_brace(src, i)]


EXPECT_CHECK_FINISHED_PLAIN = norm("""#define CHECK_FINISHED(wheel_index) if_unlikely(m >= sieve_size) {
  wheel.index = wheel_index; wheel.multiple = (uint32_t) (m - sieve_size); return; }""")
EXPECT_CHECK_FINISHED_COUNT = norm("""#define CHECK_FINISHED(wheel_index) if_unlikely(m >= sieve_size) {
  wheel.index = wheel_index; wheel.multiple = (uint32_t) (m - sieve_size); total_count_ = total_count; return; }""")
EXPECT_COUNT_UNSET_BIT = norm("""#define COUNT_UNSET_BIT(bit_index) { std::size_t sieve_byte = sieve[m];
  std::size_t is_bit = (sieve_byte >> bit_index) & 1; sieve[m] &= ~(1 << bit_index);
  counter[m >> counter_log2_dist] -= (uint32_t) is_bit; total_count -= (uint64_t) is_bit; }""")


def macro_text(body, name):
    m = re.search(r"#define\s+" + name + r"\((?:[^\n]*\\\n)*[^\n]*", body)
    if not m:
        raise Shape("macro %s not found" % name)
    return norm(m.group(0))


NUM = r"(\d+)"
WS = r"\s*"


def parse_fast_block(txt, label):
    """`{ uint64_t max_offset = m + prime * 28 [+ C]; uint64_t limit = std::max(max_offset, sieve_size) - max_offset;
         for (; m < limit; m += prime * 30 + R) { sieve[m + prime * K [+ C]] &= ~(1 << B); x8 } }`"""
    pat = (r"\{" + WS + r"uint64_t max_offset = m \+ prime \* " + NUM + r"(?: \+ " + NUM + r")?;" + WS +
           r"uint64_t limit = std::max\(max_offset, sieve_size\) - max_offset;" + WS +
           r"for \(; m < limit; m \+= prime \* " + NUM + r" \+ " + NUM + r"\)" + WS + r"\{(.*?)\}" + WS + r"\}")
    m = re.fullmatch(pat, txt.strip(), flags=re.S)
    if not m:
        raise Shape("fast loop of case %d not recognised" % label)
    max_k, max_c, step_k, step_c, inner = int(m.group(1)), int(m.group(2) or 0), int(m.group(3)), int(m.group(4)), m.group(5)
    epat = r"sieve\[m \+ prime \*\s*" + NUM + r"(?: \+\s*" + NUM + r")?\] &= ~\(1 << " + NUM + r"\);"
    entries, pos = [], 0
    inner_n = inner.strip()
    for em in re.finditer(epat, inner_n):
        if inner_n[pos:em.start()].strip():
            raise Shape("unexpected text in fast loop of case %d: %r" % (label, inner_n[pos:em.start()]))
        entries.append((int(em.group(1)), int(em.group(2) or 0), int(em.group(3))))
        pos = em.end()
    if inner_n[pos:].strip():
        raise Shape("unexpected trailing text in fast loop of case %d" % label)
    if len(entries) != 8:
        raise Shape("fast loop of case %d has %d statements, expected 8" % (label, len(entries)))
    return (max_k, max_c, step_k, step_c, entries)


def parse_switch(body, count_variant):
    """returns (table[64] of (bit,k,c,next), fast[8] or None)"""
    m = re.search(r"switch \(wheel\.index\)\s*", body)
    if not m:
        raise Shape("switch (wheel.index) not found")
    i = body.index("{", m.end() - 1)
    sw = body[i + 1:match_brace(body, i) - 1]
    # the switch body must be: (for (;;) { group })* default: UNREACHABLE;
    pos, groups = 0, []
    while True:
        g = re.compile(r"\s*for \(;;\)\s*").match(sw, pos)
        if not g:
            break
        j = sw.index("{", g.end() - 1) if sw[g.end() - 1] == "{" else g.end()
        if sw[j] != "{":
            raise Shape("for (;;) without block")
        e = match_brace(sw, j)
        groups.append(sw[j + 1:e - 1])
        pos = e
    if norm(sw[pos:]) != "default: UNREACHABLE;":
        raise Shape("unexpected tail of switch: %r" % norm(sw[pos:])[:80])
    if len(groups) != 8:
        raise Shape("expected 8 for(;;) groups, found %d" % len(groups))
    table, fast = {}, []
    if count_variant:
        stmt = r"CHECK_FINISHED\(\s*" + NUM + r"\);" + WS + r"COUNT_UNSET_BIT\(" + NUM + r"\);"
    else:
        stmt = r"CHECK_FINISHED\(\s*" + NUM + r"\);" + WS + r"sieve\[m\] &= ~\(1 << " + NUM + r"\);"
    stmt += WS + r"m \+= prime \* " + NUM + r" \+ " + NUM + r";" + WS + r"(FALLTHROUGH;)?"
    for gi, gtxt in enumerate(groups):
        parts = re.split(r"case\s+(\d+)\s*:", gtxt)
        if parts[0].strip():
            raise Shape("text before first case in group %d" % gi)
        labels = [int(x) for x in parts[1::2]]
        bodies = parts[2::2]
        if labels != list(range(8 * gi, 8 * gi + 8)):
            raise Shape("group %d has case labels %s" % (gi, labels))
        for li, (lab, btxt) in enumerate(zip(labels, bodies)):
            btxt = btxt.strip()
            if li == 0 and not count_variant:
                if not btxt.startswith("{"):
                    raise Shape("case %d: unrolled loop block missing" % lab)
                e = match_brace(btxt, 0)
                fast.append(parse_fast_block(btxt[:e], lab))
                btxt = btxt[e:].strip()
            sm = re.fullmatch(stmt, btxt, flags=re.S)
            if not sm:
                raise Shape("case %d line not recognised: %r" % (lab, btxt[:100]))
            chk, bit, k, c, ft = int(sm.group(1)), int(sm.group(2)), int(sm.group(3)), int(sm.group(4)), sm.group(5)
            if chk != lab:
                raise Shape("case %d uses CHECK_FINISHED(%d)" % (lab, chk))
            last = (li == 7)
            if last and ft:
                raise Shape("case %d: FALLTHROUGH at the end of a for(;;) group" % lab)
            if not last and not ft:
                raise Shape("case %d: missing FALLTHROUGH" % lab)
            nxt = labels[0] if last else lab + 1
            table[lab] = (bit, k, c, nxt)
    return [table[i] for i in range(64)], (fast if not count_variant else None)


def parse_wheel_arrays(src):
    m = re.search(r"const Array<uint8_t, 30> wheel_offsets =\s*\{(.*?)\};", src, flags=re.S)
    if not m:
        raise Shape("wheel_offsets not found")
    items = [norm(x) for x in m.group(1).split(",")]
    offs = []
    for it in items:
        mm = re.fullmatch(r"(\d+)(?: \* (\d+))?", it)
        if not mm:
            raise Shape("wheel_offsets entry %r" % it)
        offs.append(int(mm.group(1)) * (int(mm.group(2)) if mm.group(2) else 1))
    if len(offs) != 30:
        raise Shape("wheel_offsets has %d entries" % len(offs))
    m = re.search(r"const Array<WheelInit, 30> wheel_init\s*\{\{(.*?)\}\};", src, flags=re.S)
    if not m:
        raise Shape("wheel_init not found")
    txt = m.group(1)
    ents = re.findall(r"\{\s*(\d+)\s*,\s*(\d+)\s*\}", txt)
    if re.sub(r"\{\s*\d+\s*,\s*\d+\s*\}|[,\s]", "", txt):
        raise Shape("wheel_init: unexpected text")
    if len(ents) != 30:
        raise Shape("wheel_init has %d entries" % len(ents))
    sm = re.search(r"struct WheelInit\s*\{\s*uint8_t factor;\s*uint8_t index;\s*\};", src)
    if not sm:
        raise Shape("struct WheelInit {factor; index} not recognised")
    return offs, [(int(a), int(b)) for a, b in ents]


SWAR_BODY = re.compile(
    r"uint64_t m1 = (0x[0-9A-Fa-f]+)ull;\s*uint64_t m2 = (0x[0-9A-Fa-f]+)ull;\s*uint64_t m4 = (0x[0-9A-Fa-f]+)ull;\s*"
    r"uint64_t h01 = (0x[0-9A-Fa-f]+)ull;\s*x -= \(x >> 1\) & m1;\s*x = \(x & m2\) \+ \(\(x >> 2\) & m2\);\s*"
    r"x = \(x \+ \(x >> 4\)\) & m4;\s*return \(x \* h01\) >> 56;")


def parse_popcnt(repo):
    """all copies of the portable SWAR popcount in include/popcnt.hpp must have the shape the model mirrors and the
    same constants; the AVX512 tail mask must occur textually in both count_avx512 routines"""
    src = strip_comments(open(os.path.join(repo, "include", "popcnt.hpp")).read())
    copies = SWAR_BODY.findall(src)
    n_m1 = len(re.findall(r"uint64_t m1 =", src))
    if not copies or len(copies) != n_m1:
        raise Shape("popcnt.hpp: %d SWAR bodies recognised, %d declared" % (len(copies), n_m1))
    if len(set(copies)) != 1:
        raise Shape("popcnt.hpp: SWAR copies differ: %s" % sorted(set(copies)))
    consts = [int(c, 16) for c in copies[0]]
    tails = 0
    for f in ("include/Sieve.hpp", "src/Sieve_count.hpp"):
        t = strip_comments(open(os.path.join(repo, f)).read())
        k = len(re.findall(r"__mmask8 mask = \(__mmask8\) \(0xff >> \(i \+ 8 - stop_idx\)\);", t))
        n = len(re.findall(r"__mmask8 mask", t))
        if k != n or k != 1:
            raise Shape("%s: AVX512 tail mask: %d of %d occurrences have the expected shape" % (f, k, n))
        if len(re.findall(r"for \(; i \+ 8 < stop_idx; i \+= 8\)", t)) != 1:
            raise Shape("%s: AVX512 8-lane loop header not recognised" % f)
        tails += k
    return consts, len(copies), tails


def lean_list(xs, per=4, indent="  "):
    rows = [", ".join(xs[i:i + per]) for i in range(0, len(xs), per)]
    return "[\n" + ",\n".join(indent + r for r in rows) + "]"


def extract(repo, outdir, write_if_changed):
    path = os.path.join(repo, "src", "Sieve.cpp")
    raw = open(path).read()
    src = strip_comments(raw)
    b1 = function_body(src, r"void Sieve::cross_off\(uint64_t prime, uint64_t i\)\s*\{")
    b2 = function_body(src, r"void Sieve::cross_off_count\(uint64_t prime, uint64_t i\)\s*\{")
    if macro_text(b1, "CHECK_FINISHED") != EXPECT_CHECK_FINISHED_PLAIN:
        raise Shape("CHECK_FINISHED of cross_off changed: " + macro_text(b1, "CHECK_FINISHED"))
    if macro_text(b2, "CHECK_FINISHED") != EXPECT_CHECK_FINISHED_COUNT:
        raise Shape("CHECK_FINISHED of cross_off_count changed: " + macro_text(b2, "CHECK_FINISHED"))
    if macro_text(b2, "COUNT_UNSET_BIT") != EXPECT_COUNT_UNSET_BIT:
        raise Shape("COUNT_UNSET_BIT changed: " + macro_text(b2, "COUNT_UNSET_BIT"))
    tab1, fast = parse_switch(b1, False)
    tab2, _ = parse_switch(b2, True)
    offs, init = parse_wheel_arrays(src)
    swar, swar_copies, tails = parse_popcnt(repo)

    def q(t):
        return "(" + ", ".join(str(x) for x in t) + ")"

    data = []
    data.append("/-\nGENERATED by translator/extract_wheel.py from src/Sieve.cpp — do not edit.\n"
                "Data only (core Lean). Obligations over these tables: PcGen/WheelObl.lean.\n-/\n")
    data.append("namespace Pc.Gen\n")
    data.append("/-- `case i:` of `Sieve::cross_off`: `(bit, k, c, next)` of\n"
                "    `CHECK_FINISHED(i); sieve[m] &= ~(1 << bit); m += prime * k + c;` followed by case `next`. -/")
    data.append("def wheelTab : List (Nat × Nat × Nat × Nat) := " + lean_list([q(t) for t in tab1]) + "\n")
    data.append("/-- `case i:` of `Sieve::cross_off_count`: `(bit, k, c, next)` of\n"
                "    `CHECK_FINISHED(i); COUNT_UNSET_BIT(bit); m += prime * k + c;` followed by case `next`. -/")
    data.append("def wheelTabCount : List (Nat × Nat × Nat × Nat) := " + lean_list([q(t) for t in tab2]) + "\n")
    data.append("/-- the unrolled loop in front of `case 8g` of `Sieve::cross_off`, head:\n"
                "    `(maxK, maxC, stepK, stepC)` of `max_offset = m + prime * maxK + maxC`,\n"
                "    `for (; m < limit; m += prime * stepK + stepC) { … }`. -/")
    data.append("def wheelFastHead : List (Nat × Nat × Nat × Nat) := " +
                lean_list(["(%d, %d, %d, %d)" % f[:4] for f in fast], per=4) + "\n")
    data.append("/-- the 8 statements `sieve[m + prime * k + c] &= ~(1 << bit);` of each unrolled loop as `(k, c, bit)` -/")
    data.append("def wheelFastBody : List (List (Nat × Nat × Nat)) := " +
                lean_list(["[%s]" % ", ".join(q(e) for e in f[4]) for f in fast], per=1) + "\n")
    data.append("/-- `wheel_init[q % 30] = {factor, index}` -/")
    data.append("def wheelInit : List (Nat × Nat) := " + lean_list([q(t) for t in init], per=5) + "\n")
    data.append("/-- `wheel_offsets[prime % 30]` -/")
    data.append("def wheelOffsets : List Nat := " + lean_list([str(x) for x in offs], per=6) + "\n")
    data.append("/-- `m1, m2, m4, h01` of the portable SWAR popcount (include/popcnt.hpp, all %d copies identical) -/" % swar_copies)
    data.append("def swarConsts : List Nat := [" + ", ".join("0x%016X" % c for c in swar) + "]\n")
    data.append("end Pc.Gen\n")
    ch1 = write_if_changed(os.path.join(outdir, "WheelData.lean"), "\n".join(data))

    obl = '''/-
GENERATED by translator/extract_wheel.py — do not edit.
Obligations (kernel `decide`) over the tables of PcGen/WheelData.lean: every entry extracted from
src/Sieve.cpp equals its defining formula (PcModel/WheelSpec.lean, DESIGN.md 5.5).
-/
import PcGen.WheelData
import PcModel.WheelSpec
import PcModel.Sieve

namespace Pc.Gen
open Pc.WheelSpec

/-- the 64 `case` lines of `Sieve::cross_off`: bit = bitOf((ρ·w_j) mod 30), k = w_{j+1} − w_j,
    c = ⌊ρ·w_{j+1}/30⌋ − ⌊ρ·w_j/30⌋ (w_8 = 31), next case = 8g + (j+1) mod 8 -/
theorem wheelTab_ok : wheelTab = expectedTab := by decide

/-- `Sieve::cross_off_count` uses the same 64 entries -/
theorem wheelTabCount_eq : wheelTabCount = wheelTab := by decide

theorem wheelTabCount_ok : wheelTabCount = expectedTab := by decide

/-- the 8 unrolled loops: offsets prime·(w_j − 1) + ⌊ρ·w_j/30⌋, bit = bitOf((ρ·w_j) mod 30),
    bound offset = the last offset, step = prime·30 + ρ -/
theorem wheelFastHead_ok : wheelFastHead = expectedFastHead := by decide

theorem wheelFastBody_ok : wheelFastBody = expectedFastBody := by decide

/-- `wheel_init[q]`: distance to the next factor coprime to 30 and its wheel position -/
theorem wheelInit_ok : wheelInit = expectedInit := by decide

/-- `wheel_offsets[r]` = 8 · (position of r in the wheel), 0 for residues not coprime to 30 -/
theorem wheelOffsets_ok : wheelOffsets = expectedOffsets := by decide

/-- the constants of `popcnt64_bitwise_noinline` are the ones `PcModel/Sieve.lean` (`popcntSwar`) uses -/
theorem swarConsts_ok : swarConsts = Pc.Sieve.swarConstsModel := by decide

end Pc.Gen
'''
    ch2 = write_if_changed(os.path.join(outdir, "WheelObl.lean"), obl)
    return {"source": "src/Sieve.cpp", "cases_cross_off": len(tab1), "cases_cross_off_count": len(tab2),
            "fast_loops": len(fast), "wheel_init": len(init), "wheel_offsets": len(offs),
            "macros_checked": ["CHECK_FINISHED(cross_off)", "CHECK_FINISHED(cross_off_count)", "COUNT_UNSET_BIT"],
            "swar_copies": swar_copies, "avx512_tail_masks": tails,
            "changed": bool(ch1 or ch2), "obligations": 8}


if __name__ == "__main__":
    import sys

    def w(path, text):
        os.makedirs(os.path.dirname(path), exist_ok=True)
        if os.path.exists(path) and open(path).read() == text:
            return False
        open(path, "w").write(text)
        return True
    print(extract(sys.argv[1], sys.argv[2], w))
