"""Extractor for the sieving core of the bundled primesieve (lib/primesieve), property C18 (core half).

Reads the RAW source text (comments stripped) and produces

  lean/PcGen/PsWheelData.lean     data only (core Lean):
      psSmallTab      the 64 `case` lines of EratSmall::crossOff(uint8_t*, size_t)  as (bit, k, c, next)
      psSmallFastHead / psSmallFastBody   the 8 unrolled loops of EratSmall::crossOff
      psMediumTab     the 64 `case` lines of EratMedium::crossOff_7 .. crossOff_31 (dist variables resolved)
      psWheel210      the 384 WheelElement entries of EratBig.cpp  as (bit, nextMultipleFactor, correct, next)
      psWheel30Init / psWheel210Init / psBitValues / psBruijnBitValues      (LookupTables.cpp)
      psWheelOffsetsPattern, psWheel30Params, psWheel210Params               (Wheel.hpp)
      psUnsetSmaller / psUnsetLarger                                          (Erat.cpp)
      psPrimeBits, psPreSieveMaxPrime                                         (PreSieve.cpp)
      psSmallPrimes / psPrimePi                                               (PrimeGenerator.cpp)
      psBitMasks (BIT0..BIT7, bits.hpp), psPackBits (Bucket.hpp), psConfig (config.hpp)
  lean/PcGen/PsPreSieveData.lean  the 16 pre-sieve buffers of PreSieveTables.hpp, each as ONE little-endian
                                  natural number (byte j = (N >>> 8j) % 256) + its length + its prime set
  lean/PcGen/PsWheelObl.lean      `decide` obligations: every entry equals its closed formula (PcModel/PsWheelSpec.lean)
  lean/PcGen/PsPreSieveObl.lean   one obligation per buffer: length = product of its primes and byte j has exactly the
                                  bits whose number 30 j + {7,11,13,17,19,23,29,31} is divisible by none of them

It also compares (whitespace-normalised) the bodies of the functions that the hand-written model
PcModel/PsCore.lean mirrors line by line with the text they had when the model was written (sha256).
The extractor never guesses: anything unexpected raises Shape (-> `extractor_shape_changed`).
"""
import hashlib
import os
import re


class Shape(Exception):
    pass


def strip_comments(src):
    src = re.sub(r"/\*.*?\*/", " ", src, flags=re.S)
    src = re.sub(r"//[^\n]*", "", src)
    return src


def norm(s):
    return re.sub(r"\s+", " ", s.replace("\\\n", " ")).strip()


def match_brace(src, i):
    if src[i] != "{":
        raise Shape("expected '{' at %d" % i)
    depth = 0
    for j in range(i, len(src)):
        if src[j] == "{":
            depth += 1
        elif src[j] == "}":
            depth -= 1
            if depth == 0:
                return j + 1
    raise Shape("unbalanced braces")


def function_body(src, header_re):
    ms = list(re.finditer(header_re, src))
    if len(ms) != 1:
        raise Shape("function header found %d times: %s" % (len(ms), header_re))
    m = ms[0]
    i = src.index("{", m.end() - 1)
    return src[i:match_brace(src, i)]


def read(repo, rel):
    return strip_comments(open(os.path.join(repo, "lib", "primesieve", rel)).read())


NUM = r"(\d+)"
WS = r"\s*"

# --------------------------------------------------------------------------------------------- EratSmall

EXPECT_CHECK_FINISHED_SMALL = norm("""#define CHECK_FINISHED(wheelIndex) if (i >= sieveSize) {
  std::size_t multipleIndex = i - sieveSize; prime.set(multipleIndex, wheelIndex); goto next_iteration; }""")

EXPECT_CHECK_FINISHED_MEDIUM = norm("""#define CHECK_FINISHED(wheelIndex) if_unlikely(i >= sieveSize) { i -= sieveSize;
  if (Bucket::isFull(buckets[wheelIndex])) memoryPool.addBucket(buckets[wheelIndex]);
  buckets[wheelIndex]++->set(sievingPrime, i, wheelIndex); break; }""")


def macro_text(body, name):
    m = re.search(r"#define\s+" + name + r"\((?:[^\n]*\\\n)*[^\n]*", body)
    if not m:
        raise Shape("macro %s not found" % name)
    return norm(m.group(0))


def parse_small_fast(txt, label):
    pat = (r"\{" + WS + r"std::size_t maxOffset = sievingPrime \* " + NUM + r" \+ " + NUM + r";" + WS +
           r"std::size_t limit = std::max\(sieveSize, maxOffset\) - maxOffset;" + WS +
           r"for \(; i < limit; i \+= sievingPrime \* " + NUM + r" \+ " + NUM + r"\)" + WS + r"\{(.*?)\}" + WS + r"\}")
    m = re.fullmatch(pat, txt.strip(), flags=re.S)
    if not m:
        raise Shape("EratSmall: fast loop of case %d not recognised" % label)
    max_k, max_c, step_k, step_c, inner = int(m.group(1)), int(m.group(2)), int(m.group(3)), int(m.group(4)), m.group(5)
    epat = r"sieve\[i \+ sievingPrime \*\s*" + NUM + r" \+\s*" + NUM + r"\] &= BIT" + NUM + r";"
    entries, pos = [], 0
    inner_n = inner.strip()
    for em in re.finditer(epat, inner_n):
        if inner_n[pos:em.start()].strip():
            raise Shape("EratSmall: unexpected text in fast loop of case %d" % label)
        entries.append((int(em.group(1)), int(em.group(2)), int(em.group(3))))
        pos = em.end()
    if inner_n[pos:].strip():
        raise Shape("EratSmall: unexpected trailing text in fast loop of case %d" % label)
    if len(entries) != 8:
        raise Shape("EratSmall: fast loop of case %d has %d statements" % (label, len(entries)))
    return (max_k, max_c, step_k, step_c, entries)


def split_groups(sw, what):
    """switch body -> list of the for(;;) group bodies; the rest must be `default: UNREACHABLE;`"""
    rest = sw
    groups = []
    out = ""
    pos = 0
    for g in re.finditer(r"for \(;;\)\s*\{", sw):
        if g.start() < pos:
            continue
        out += sw[pos:g.start()]
        j = g.end() - 1
        e = match_brace(sw, j)
        groups.append(sw[j + 1:e - 1])
        pos = e
    out += sw[pos:]
    if norm(out) != "default: UNREACHABLE;":
        raise Shape("%s: unexpected text in switch outside the for(;;) groups: %r" % (what, norm(out)[:80]))
    return groups


def parse_small(repo):
    src = read(repo, "src/EratSmall.cpp")
    outer = function_body(src, r"void EratSmall::crossOff\(Vector<uint8_t>& sieve\)\s*\{")
    if norm(outer) != norm("""{ for (std::size_t i = 0; i < sieve.size(); i += l1CacheSize_) {
          std::size_t sieveSize = std::min(l1CacheSize_, sieve.size() - i); crossOff(&sieve[i], sieveSize); } }"""):
        raise Shape("EratSmall::crossOff(Vector&) changed: " + norm(outer))
    store = function_body(src, r"void EratSmall::storeSievingPrime\(uint64_t prime,\s*uint64_t multipleIndex,\s*uint64_t wheelIndex\)\s*\{")
    if norm(store) != norm("""{ ASSERT(prime <= maxPrime_); uint64_t sievingPrime = prime / 30;
          primes_.emplace_back(sievingPrime, multipleIndex, wheelIndex); }"""):
        raise Shape("EratSmall::storeSievingPrime changed: " + norm(store))
    body = function_body(src, r"void EratSmall::crossOff\(uint8_t\* sieve, std::size_t sieveSize\)\s*\{")
    if macro_text(body, "CHECK_FINISHED") != EXPECT_CHECK_FINISHED_SMALL:
        raise Shape("CHECK_FINISHED of EratSmall changed: " + macro_text(body, "CHECK_FINISHED"))
    head = re.search(r"for \(auto& prime : primes_\)\s*\{\s*std::size_t sievingPrime = prime\.getSievingPrime\(\);\s*"
                     r"std::size_t i = prime\.getMultipleIndex\(\);\s*std::size_t wheelIndex = prime\.getWheelIndex\(\);\s*"
                     r"ASSERT\(wheelIndex <= 63\);\s*switch \(wheelIndex\)\s*", body)
    if not head:
        raise Shape("EratSmall: loop head not recognised")
    i = body.index("{", head.end() - 1)
    e = match_brace(body, i)
    sw = body[i + 1:e - 1]
    if norm(body[e:]) != "next_iteration:; } }":
        raise Shape("EratSmall: unexpected tail after the switch: %r" % norm(body[e:]))
    groups = split_groups(sw, "EratSmall")
    if len(groups) != 8:
        raise Shape("EratSmall: expected 8 for(;;) groups, found %d" % len(groups))
    stmt = (r"CHECK_FINISHED\(\s*" + NUM + r"\);" + WS + r"sieve\[i\] &= BIT" + NUM + r";" + WS +
            r"i \+= sievingPrime \* " + NUM + r" \+ " + NUM + r";" + WS + r"(FALLTHROUGH;)?")
    table, fast = {}, []
    for gi, gtxt in enumerate(groups):
        parts = re.split(r"case\s+(\d+)\s*:", gtxt)
        if parts[0].strip():
            raise Shape("EratSmall: text before first case in group %d" % gi)
        labels = [int(x) for x in parts[1::2]]
        bodies = parts[2::2]
        if labels != list(range(8 * gi, 8 * gi + 8)):
            raise Shape("EratSmall: group %d has case labels %s" % (gi, labels))
        for li, (lab, btxt) in enumerate(zip(labels, bodies)):
            btxt = btxt.strip()
            if li == 0:
                if not btxt.startswith("{"):
                    raise Shape("EratSmall case %d: unrolled loop block missing" % lab)
                e2 = match_brace(btxt, 0)
                fast.append(parse_small_fast(btxt[:e2], lab))
                btxt = btxt[e2:].strip()
            sm = re.fullmatch(stmt, btxt, flags=re.S)
            if not sm:
                raise Shape("EratSmall case %d line not recognised: %r" % (lab, btxt[:100]))
            chk, bit, k, c, ft = int(sm.group(1)), int(sm.group(2)), int(sm.group(3)), int(sm.group(4)), sm.group(5)
            if chk != lab:
                raise Shape("EratSmall case %d uses CHECK_FINISHED(%d)" % (lab, chk))
            last = (li == 7)
            if last and ft:
                raise Shape("EratSmall case %d: FALLTHROUGH at the end of a group" % lab)
            if not last and not ft:
                raise Shape("EratSmall case %d: missing FALLTHROUGH" % lab)
            table[lab] = (bit, k, c, labels[0] if last else lab + 1)
    return [table[i] for i in range(64)], fast


# --------------------------------------------------------------------------------------------- EratMedium

MEDIUM_NAMES = ["7", "11", "13", "17", "19", "23", "29", "31"]


def parse_medium(repo):
    src = read(repo, "src/EratMedium.cpp")
    m = re.search(r"#define\s+CHECK_FINISHED\((?:[^\n]*\\\n)*[^\n]*", src)
    if not m or norm(m.group(0)) != EXPECT_CHECK_FINISHED_MEDIUM:
        raise Shape("CHECK_FINISHED of EratMedium changed: " + (norm(m.group(0)) if m else "missing"))
    # dispatcher: switch (wheelIndex / 8) { case g: crossOff_<name>(...) }
    outer = function_body(src, r"void EratMedium::crossOff\(Vector<uint8_t>& sieve\)\s*\{")
    disp = re.findall(r"case (\d): crossOff_(\d+)\s*\(sieve\.data\(\), sieve\.size\(\), bucket\); break;", outer)
    if [(int(a), b) for a, b in disp] != list(enumerate(MEDIUM_NAMES)):
        raise Shape("EratMedium::crossOff dispatch changed: %s" % disp)
    if "switch (wheelIndex / 8)" not in outer or "for (std::size_t i = 0; i < 64; i++)" not in outer:
        raise Shape("EratMedium::crossOff loop changed")
    store = function_body(src, r"void EratMedium::storeSievingPrime\(uint64_t prime,\s*uint64_t multipleIndex,\s*uint64_t wheelIndex\)\s*\{")
    if "uint64_t sievingPrime = prime / 30;" not in norm(store) or \
       "buckets_[wheelIndex]++->set(sievingPrime, multipleIndex, wheelIndex);" not in norm(store):
        raise Shape("EratMedium::storeSievingPrime changed")
    table = {}
    for g, name in enumerate(MEDIUM_NAMES):
        body = function_body(src, r"void EratMedium::crossOff_" + name + r"\(uint8_t\* sieve, std::size_t sieveSize, Bucket\* bucket\)\s*\{")
        head = re.search(r"\{\s*auto buckets = buckets_\.data\(\);\s*MemoryPool& memoryPool = \*memoryPool_;\s*"
                         r"SievingPrime\* prime = bucket->begin\(\);\s*SievingPrime\* end = bucket->end\(\);\s*"
                         r"std::size_t wheelIndex = prime->getWheelIndex\(\);\s*for \(; prime != end; prime\+\+\)\s*\{\s*"
                         r"std::size_t sievingPrime = prime->getSievingPrime\(\);\s*std::size_t i = prime->getMultipleIndex\(\);", body)
        if not head:
            raise Shape("EratMedium::crossOff_%s: head not recognised" % name)
        rest = body[head.end():]
        dists = {}
        pos = 0
        while True:
            dm = re.compile(r"\s*std::size_t dist(\d) = sievingPrime \* (\d+) \+ (\d+);").match(rest, pos)
            if not dm:
                break
            dists[int(dm.group(1))] = (int(dm.group(2)), int(dm.group(3)))
            pos = dm.end()
        rest = rest[pos:]
        rest = re.sub(r"\s*ASSERT\(wheelIndex [<>]= \d+\);", "", rest)
        sm = re.match(r"\s*switch \(wheelIndex\)\s*", rest)
        if not sm:
            raise Shape("EratMedium::crossOff_%s: switch not found" % name)
        i = rest.index("{", sm.end() - 1)
        e = match_brace(rest, i)
        if norm(rest[e:]) != "} }":
            raise Shape("EratMedium::crossOff_%s: unexpected tail %r" % (name, norm(rest[e:])))
        groups = split_groups(rest[i + 1:e - 1], "EratMedium::crossOff_" + name)
        if len(groups) != 1:
            raise Shape("EratMedium::crossOff_%s: %d for(;;) groups" % (name, len(groups)))
        parts = re.split(r"case\s+(\d+)\s*:", groups[0])
        if parts[0].strip():
            raise Shape("EratMedium::crossOff_%s: text before first case" % name)
        labels = [int(x) for x in parts[1::2]]
        if labels != list(range(8 * g, 8 * g + 8)):
            raise Shape("EratMedium::crossOff_%s has case labels %s" % (name, labels))
        stmt = (r"CHECK_FINISHED\(\s*" + NUM + r"\);" + WS + r"sieve\[i\] &= BIT" + NUM + r";" + WS +
                r"i \+= dist(\d);" + WS + r"(FALLTHROUGH;)?")
        for li, (lab, btxt) in enumerate(zip(labels, parts[2::2])):
            mm = re.fullmatch(stmt, btxt.strip(), flags=re.S)
            if not mm:
                raise Shape("EratMedium case %d line not recognised: %r" % (lab, btxt.strip()[:100]))
            chk, bit, d, ft = int(mm.group(1)), int(mm.group(2)), int(mm.group(3)), mm.group(4)
            if chk != lab:
                raise Shape("EratMedium case %d uses CHECK_FINISHED(%d)" % (lab, chk))
            if d not in dists:
                raise Shape("EratMedium case %d uses undefined dist%d" % (lab, d))
            last = (li == 7)
            if bool(ft) == last:
                raise Shape("EratMedium case %d: FALLTHROUGH structure" % lab)
            table[lab] = (bit, dists[d][0], dists[d][1], labels[0] if last else lab + 1)
    return [table[i] for i in range(64)]


# --------------------------------------------------------------------------------------------- EratBig

EXPECT_BIG_CROSSOFF = norm("""{ auto buckets = buckets_.data(); MemoryPool& memoryPool = *memoryPool_;
  std::size_t moduloSieveSize = moduloSieveSize_; std::size_t log2SieveSize = log2SieveSize_;
  for (; prime != end; prime++) { std::size_t multipleIndex = prime->getMultipleIndex();
  std::size_t wheelIndex = prime->getWheelIndex(); std::size_t sievingPrime = prime->getSievingPrime();
  sieve[multipleIndex] &= wheel210[wheelIndex].unsetBit;
  multipleIndex += wheel210[wheelIndex].nextMultipleFactor * sievingPrime;
  multipleIndex += wheel210[wheelIndex].correct; wheelIndex = wheel210[wheelIndex].next;
  std::size_t segment = multipleIndex >> log2SieveSize; multipleIndex &= moduloSieveSize;
  if (Bucket::isFull(buckets[segment])) memoryPool.addBucket(buckets[segment]);
  buckets[segment]++->set(sievingPrime, multipleIndex, wheelIndex); } }""")

EXPECT_BIG_CROSSOFF_OUTER = norm("""{ while (buckets_[0]) { Bucket* bucket = Bucket::get(buckets_[0]);
  bucket->setEnd(buckets_[0]); buckets_[0] = nullptr; while (bucket) {
  crossOff(sieve.data(), bucket->begin(), bucket->end()); Bucket* processed = bucket; bucket = bucket->next();
  memoryPool_->freeBucket(processed); } } auto* bucket = buckets_[0];
  std::copy(buckets_.begin() + 1, buckets_.end(), buckets_.begin()); buckets_.back() = bucket; }""")

EXPECT_BIG_STORE = norm("""{ uint64_t sieveSize = 1ull << log2SieveSize_; uint64_t sievingPrime = prime / 30;
  uint64_t maxNextMultiple = sievingPrime * getMaxFactor() + getMaxFactor();
  uint64_t maxMultipleIndex = sieveSize - 1 + maxNextMultiple;
  uint64_t maxSegmentIndex = maxMultipleIndex >> log2SieveSize_; uint64_t newSize = maxSegmentIndex + 1;
  uint64_t segment = multipleIndex >> log2SieveSize_; multipleIndex &= moduloSieveSize_;
  while (buckets_.size() < newSize) buckets_.push_back(nullptr); ASSERT(prime <= maxPrime_);
  ASSERT(segment < buckets_.size()); if (Bucket::isFull(buckets_[segment])) memoryPool_->addBucket(buckets_[segment]);
  buckets_[segment]++->set(sievingPrime, multipleIndex, wheelIndex); }""")


def parse_big(repo):
    src = read(repo, "src/EratBig.cpp")
    sm = re.search(r"struct WheelElement\s*\{\s*uint8_t unsetBit;\s*uint8_t nextMultipleFactor;\s*uint8_t correct;\s*uint32_t next;\s*\};", src)
    if not sm:
        raise Shape("struct WheelElement {unsetBit; nextMultipleFactor; correct; next} not recognised")
    m = re.search(r"const primesieve::Array<WheelElement, 8\*48> wheel210 =\s*\{\{(.*?)\}\};", src, flags=re.S)
    if not m:
        raise Shape("wheel210 not found")
    txt = m.group(1)
    ent = re.findall(r"\{\s*BIT(\d)\s*,\s*(\d+)\s*,\s*(\d+)\s*,\s*(\d+)\s*\}", txt)
    if re.sub(r"\{\s*BIT\d\s*,\s*\d+\s*,\s*\d+\s*,\s*\d+\s*\}|[,\s]", "", txt):
        raise Shape("wheel210: unexpected text")
    if len(ent) != 384:
        raise Shape("wheel210 has %d entries" % len(ent))
    b = function_body(src, r"void EratBig::crossOff\(uint8_t\* sieve,\s*SievingPrime\* prime,\s*SievingPrime\* end\)\s*\{")
    if norm(b) != EXPECT_BIG_CROSSOFF:
        raise Shape("EratBig::crossOff(uint8_t*, SievingPrime*, SievingPrime*) changed: " + norm(b))
    b = function_body(src, r"void EratBig::crossOff\(Vector<uint8_t>& sieve\)\s*\{")
    if norm(b) != EXPECT_BIG_CROSSOFF_OUTER:
        raise Shape("EratBig::crossOff(Vector&) changed: " + norm(b))
    b = function_body(src, r"void EratBig::storeSievingPrime\(uint64_t prime,\s*uint64_t multipleIndex,\s*uint64_t wheelIndex\)\s*\{")
    if norm(b) != EXPECT_BIG_STORE:
        raise Shape("EratBig::storeSievingPrime changed: " + norm(b))
    b = function_body(src, r"void EratBig::init\(uint64_t stop,\s*uint64_t sieveSize,\s*uint64_t maxPrime,\s*MemoryPool& memoryPool\)\s*\{")
    for need in ["log2SieveSize_ = ilog2(sieveSize);", "moduloSieveSize_ = sieveSize - 1;", "stop_ = stop;"]:
        if need not in norm(b):
            raise Shape("EratBig::init changed: missing " + need)
    return [tuple(int(x) for x in e) for e in ent]


# --------------------------------------------------------------------------------------------- small tables

def int_list(txt, what):
    items = [x.strip() for x in txt.split(",")]
    if items and items[-1] == "":
        items = items[:-1]
    out = []
    for it in items:
        if re.fullmatch(r"0x[0-9a-fA-F]+", it):
            out.append(int(it, 16))
        elif re.fullmatch(r"\d+", it):
            out.append(int(it))
        else:
            raise Shape("%s: entry %r" % (what, it))
    return out


def parse_lookup(repo):
    src = read(repo, "src/LookupTables.cpp")
    m = re.search(r"const Array<uint64_t, 65> bitValues =\s*\{(.*?)\};", src, flags=re.S)
    if not m:
        raise Shape("bitValues not found")
    bv = int_list(m.group(1), "bitValues")
    m = re.search(r"const Array<uint64_t, 64> bruijnBitValues =\s*\{(.*?)\};", src, flags=re.S)
    if not m:
        raise Shape("bruijnBitValues not found")
    br = int_list(m.group(1), "bruijnBitValues")
    res = {}
    for name, n in (("wheel30Init", 30), ("wheel210Init", 210)):
        m = re.search(r"const WheelInit " + name + r"\[" + str(n) + r"\] =\s*\{(.*?)\};", src, flags=re.S)
        if not m:
            raise Shape(name + " not found")
        txt = m.group(1)
        ents = re.findall(r"\{\s*(\d+)\s*,\s*(\d+)\s*\}", txt)
        if re.sub(r"\{\s*\d+\s*,\s*\d+\s*\}|[,\s]", "", txt):
            raise Shape(name + ": unexpected text")
        if len(ents) != n:
            raise Shape("%s has %d entries" % (name, len(ents)))
        res[name] = [(int(a), int(b)) for a, b in ents]
    if len(bv) != 65 or len(br) != 64:
        raise Shape("bitValues/bruijnBitValues sizes %d/%d" % (len(bv), len(br)))
    return bv, br, res["wheel30Init"], res["wheel210Init"]


EXPECT_ADD_SIEVING_PRIME = norm("""{ ASSERT(segmentLow % 30 == 0); segmentLow += 6;
  uint64_t quotient = (segmentLow / prime) + 1; quotient = std::max(prime, quotient);
  uint64_t multiple = prime * quotient; if (multiple > stop_ || multiple < segmentLow) return;
  uint64_t nextMultipleFactor = INIT[quotient % MODULO].nextMultipleFactor;
  uint64_t nextMultiple = prime * nextMultipleFactor; if (nextMultiple > stop_ - multiple) return;
  multiple += nextMultiple;
  #if defined(ENABLE_ASSERT) if (MODULO >= 2) ASSERT(multiple % 2 != 0); if (MODULO >= 6) ASSERT(multiple % 3 != 0);
  if (MODULO >= 30) ASSERT(multiple % 5 != 0); if (MODULO >= 210) ASSERT(multiple % 7 != 0);
  if (MODULO >= 2310) ASSERT(multiple % 11 != 0); #endif
  uint64_t multipleIndex = (multiple - segmentLow) / 30;
  uint64_t wheelIndex = wheelOffsets_[prime % 30] + INIT[quotient % MODULO].wheelIndex;
  storeSievingPrime(prime, multipleIndex, wheelIndex); }""")


def parse_wheel_hpp(repo):
    src = read(repo, "include/primesieve/Wheel.hpp")
    b = function_body(src, r"void addSievingPrime\(uint64_t prime, uint64_t segmentLow\)\s*\{")
    if norm(b) != EXPECT_ADD_SIEVING_PRIME:
        raise Shape("Wheel::addSievingPrime changed: " + norm(b))
    m = re.search(r"wheelOffsets_\[30\] =\s*\{(.*?)\};", src, flags=re.S)
    if not m:
        raise Shape("wheelOffsets_ not found")
    offs = []
    for it in [norm(x) for x in m.group(1).split(",")]:
        mm = re.fullmatch(r"(?:SIZE \* (\d+)|0)", it)
        if not mm:
            raise Shape("wheelOffsets_ entry %r" % it)
        offs.append(-1 if mm.group(1) is None else int(mm.group(1)))
    if len(offs) != 30:
        raise Shape("wheelOffsets_ has %d entries" % len(offs))
    m30 = re.search(r"using Wheel30_t = Wheel<(\d+), (\d+), (\d+), wheel30Init>;", src)
    m210 = re.search(r"using Wheel210_t = Wheel<(\d+), (\d+), (\d+), wheel210Init>;", src)
    if not m30 or not m210:
        raise Shape("Wheel30_t / Wheel210_t not recognised")
    # which Erat class uses which wheel
    for f, cls, wh in (("EratSmall.hpp", "EratSmall", "Wheel30_t"), ("EratMedium.hpp", "EratMedium", "Wheel30_t"),
                       ("EratBig.hpp", "EratBig", "Wheel210_t")):
        h = read(repo, "include/primesieve/" + f)
        if not re.search(r"class " + cls + r" : public " + wh + r"\b", h):
            raise Shape("%s no longer derives from %s" % (cls, wh))
    return offs, tuple(int(x) for x in m30.groups()), tuple(int(x) for x in m210.groups())


ERAT_EXPECT = {
    "byteRemainder": (r"uint64_t Erat::byteRemainder\(uint64_t n\)\s*\{", "{ ASSERT(n >= 7); return (n - 7) % 30 + 7; }"),
    "hasNextSegment": (r"bool Erat::hasNextSegment\(\) const\s*\{", "{ return segmentLow_ < stop_; }"),
    "sieveSegment": (r"void Erat::sieveSegment\(\)\s*\{", """{ if (segmentHigh_ < stop_) { preSieve(); crossOff();
        uint64_t dist = sieve_.size() * 30; segmentLow_ = checkedAdd(segmentLow_, dist);
        segmentHigh_ = checkedAdd(segmentHigh_, dist); segmentHigh_ = std::min(segmentHigh_, stop_); }
        else sieveLastSegment(); }"""),
    "sieveLastSegment": (r"void Erat::sieveLastSegment\(\)\s*\{", """{ uint64_t rem = byteRemainder(stop_);
        uint64_t dist = (stop_ - rem) - segmentLow_; sieve_.resize(dist / 30 + 1); preSieve(); crossOff();
        sieve_.back() &= unsetLarger[rem]; auto* sieve = sieve_.data(); auto i = sieve_.size();
        ASSERT(sieve_.capacity() % sizeof(uint64_t) == 0); for (; i % sizeof(uint64_t); i++) sieve[i] = 0;
        segmentLow_ = stop_; }"""),
    "preSieve": (r"void Erat::preSieve\(\)\s*\{", """{ PreSieve::preSieve(sieve_, segmentLow_);
        if (segmentLow_ <= start_) { uint64_t rem = byteRemainder(start_); sieve_[0] &= unsetSmaller[rem]; } }"""),
    "crossOff": (r"void Erat::crossOff\(\)\s*\{", """{ if (eratSmall_.hasSievingPrimes()) eratSmall_.crossOff(sieve_);
        if (eratMedium_.hasSievingPrimes()) eratMedium_.crossOff(sieve_);
        if (eratBig_.hasSievingPrimes()) eratBig_.crossOff(sieve_); }"""),
    "init": (r"void Erat::init\(uint64_t start,\s*uint64_t stop,\s*uint64_t maxSieveSize,\s*MemoryPool& memoryPool\)\s*\{",
             """{ if_unlikely(start > stop || start >= std::numeric_limits<uint64_t>::max()) return;
        ASSERT(start >= 7); ASSERT(maxSieveSize >= 16); ASSERT(maxSieveSize <= 8192); start_ = start; stop_ = stop;
        maxSieveSize <<= 10; initAlgorithms(maxSieveSize, memoryPool); }"""),
}

# sha256 of the whitespace-normalised body of Erat::initAlgorithms the model `PsCore.eratInit` mirrors
EXPECT_INITALG_SHA = None  # filled below by _initalg_expected()

EXPECT_INITALG = norm("""{ uint64_t sqrtStop = isqrt(stop_); uint64_t l1CacheSize = getL1CacheSize();
  l1CacheSize = inBetween(16 << 10, l1CacheSize, 8192 << 10);
  l1CacheSize = ceilDiv(l1CacheSize, sizeof(uint64_t)) * sizeof(uint64_t);
  maxSieveSize = ceilDiv(maxSieveSize, sizeof(uint64_t)) * sizeof(uint64_t);
  uint64_t minSieveSize = std::min(l1CacheSize, maxSieveSize);
  uint64_t sieveSize = uint64_t(sqrtStop * config::FACTOR_SIEVESIZE);
  if (sieveSize > minSieveSize) sieveSize -= sieveSize % minSieveSize;
  sieveSize = inBetween(minSieveSize, sieveSize, maxSieveSize); sieveSize = inBetween(16 << 10, sieveSize, 8192 << 10);
  sieveSize = ceilDiv(sieveSize, sizeof(uint64_t)) * sizeof(uint64_t); minSieveSize = std::min(l1CacheSize, sieveSize);
  maxEratSmall_ = (uint64_t) (minSieveSize * config::FACTOR_ERATSMALL);
  maxEratMedium_ = (uint64_t) (sieveSize * config::FACTOR_ERATMEDIUM);
  if (sqrtStop > maxEratMedium_) { sieveSize = floorPow2(sieveSize); minSieveSize = std::min(l1CacheSize, sieveSize);
  maxEratSmall_ = (uint64_t) (minSieveSize * config::FACTOR_ERATSMALL);
  maxEratMedium_ = (uint64_t) (sieveSize * config::FACTOR_ERATMEDIUM); }
  maxEratSmall_ = std::min(maxEratSmall_, sqrtStop); maxEratMedium_ = std::min(maxEratMedium_, sqrtStop);
  uint64_t rem = byteRemainder(start_); uint64_t dist = sieveSize * 30 + 6; segmentLow_ = start_ - rem;
  segmentHigh_ = checkedAdd(segmentLow_, dist); segmentHigh_ = std::min(segmentHigh_, stop_);
  if (segmentHigh_ >= stop_ && sqrtStop <= maxEratMedium_) { uint64_t rem = byteRemainder(stop_);
  uint64_t dist = (stop_ - rem) - segmentLow_; sieveSize = dist / 30 + 1;
  sieveSize = ceilDiv(sieveSize, sizeof(uint64_t)) * sizeof(uint64_t); }
  ASSERT(sieveSize % sizeof(uint64_t) == 0); sieve_.resize(sieveSize);
  if (sqrtStop > PreSieve::getMaxPrime()) eratSmall_.init(stop_, l1CacheSize, maxEratSmall_);
  if (sqrtStop > maxEratSmall_) eratMedium_.init(stop_, maxEratMedium_, memoryPool);
  if (sqrtStop > maxEratMedium_) eratBig_.init(stop_, sieve_.size(), sqrtStop, memoryPool); }""")


def parse_erat(repo):
    src = read(repo, "src/Erat.cpp")
    tabs = {}
    for name in ("unsetSmaller", "unsetLarger"):
        m = re.search(r"const primesieve::Array<uint8_t, 37> " + name + r" =\s*\{(.*?)\};", src, flags=re.S)
        if not m:
            raise Shape(name + " not found")
        tabs[name] = int_list(m.group(1), name)
        if len(tabs[name]) != 37:
            raise Shape("%s has %d entries" % (name, len(tabs[name])))
    for k, (hdr, exp) in ERAT_EXPECT.items():
        b = function_body(src, hdr)
        if norm(b) != norm(exp):
            raise Shape("Erat::%s changed: %s" % (k, norm(b)))
    b = function_body(src, r"void Erat::initAlgorithms\(uint64_t maxSieveSize,\s*MemoryPool& memoryPool\)\s*\{")
    if norm(b) != EXPECT_INITALG:
        raise Shape("Erat::initAlgorithms changed: " + norm(b))
    hpp = read(repo, "include/primesieve/Erat.hpp")
    b = function_body(hpp, r"inline void Erat::addSievingPrime\(uint64_t prime\)\s*\{")
    if norm(b) != norm("""{ if (prime > maxEratMedium_) eratBig_.addSievingPrime(prime, segmentLow_);
        else if (prime > maxEratSmall_) eratMedium_.addSievingPrime(prime, segmentLow_);
        else eratSmall_.addSievingPrime(prime, segmentLow_); }"""):
        raise Shape("Erat::addSievingPrime changed: " + norm(b))
    cfg = read(repo, "include/primesieve/config.hpp")
    consts = {}
    for name, pat in (("L1D_CACHE_BYTES", r"constexpr uint64_t L1D_CACHE_BYTES = (\d+) << (\d+);"),
                      ("FACTOR_SIEVESIZE", r"constexpr double FACTOR_SIEVESIZE = (\d+)\.(\d+);"),
                      ("FACTOR_ERATSMALL", r"constexpr double FACTOR_ERATSMALL = (\d+)\.(\d+);"),
                      ("FACTOR_ERATMEDIUM", r"constexpr double FACTOR_ERATMEDIUM = (\d+)\.(\d+);")):
        m = re.search(pat, cfg)
        if not m:
            raise Shape("config::%s not recognised" % name)
        consts[name] = (int(m.group(1)), int(m.group(2)), len(m.group(2)))
    return tabs["unsetSmaller"], tabs["unsetLarger"], consts


EXPECT_PRESIEVE_SHA_NOTE = "PreSieve::preSieve"


def parse_presieve(repo):
    src = read(repo, "src/PreSieve.cpp")
    b = norm(function_body(src, r"void PreSieve::preSieve\(Vector<uint8_t>& sieve, uint64_t segmentLow\)\s*\{"))
    m = re.search(r"Array<uint8_t, 8> primeBits = \{(.*?)\};", b)
    if not m:
        raise Shape("primeBits not found")
    prime_bits = int_list(m.group(1), "primeBits")
    if len(prime_bits) != 8:
        raise Shape("primeBits has %d entries" % len(prime_bits))
    # the structure the model mirrors: algo 1 over tables 0..3 (store), algo 2 over i = 4, 8, 12 (AND), then primeBits
    need = [
        "pos0 = (segmentLow % (preSieveTables[0].size() * 30)) / 30;",
        "pos3 = (segmentLow % (preSieveTables[3].size() * 30)) / 30;",
        "while (offset < sieve.size()) { uint64_t bytesToCopy = sieve.size() - offset;",
        "bytesToCopy = std::min(bytesToCopy, uint64_t(preSieveTables[0].size() - pos0));",
        "presieve1(&*(preSieveTables[0].begin() + pos0), &*(preSieveTables[1].begin() + pos1), "
        "&*(preSieveTables[2].begin() + pos2), &*(preSieveTables[3].begin() + pos3), &sieve[offset], bytesToCopy);",
        "pos0 = (pos0 + bytesToCopy) * (pos0 < preSieveTables[0].size());",
        "for (std::size_t i = 4; i < preSieveTables.size(); i += 4) { offset = 0;",
        "pos0 = (segmentLow % (preSieveTables[i+0].size() * 30)) / 30;",
        "presieve2(&*(preSieveTables[i+0].begin() + pos0), &*(preSieveTables[i+1].begin() + pos1), "
        "&*(preSieveTables[i+2].begin() + pos2), &*(preSieveTables[i+3].begin() + pos3), &sieve[offset], bytesToCopy);",
        "pos3 = (pos3 + bytesToCopy) * (pos3 < preSieveTables[i+3].size());",
        "if (segmentLow <= getMaxPrime()) { uint64_t i = segmentLow / 30; uint8_t* sieveArray = sieve.data();",
        "for (std::size_t j = 0; i + j < primeBits.size(); j++) sieveArray[j] = primeBits[i + j]; } }",
    ]
    for n in need:
        if n not in b:
            raise Shape("PreSieve::preSieve changed: missing %r" % n)
    sha = hashlib.sha256(b.encode()).hexdigest()
    hpp = read(repo, "include/primesieve/PreSieve.hpp")
    m = re.search(r"static uint64_t getMaxPrime\(\) \{ return (\d+); \}", hpp)
    if not m:
        raise Shape("PreSieve::getMaxPrime not recognised")
    # the portable kernels: presieve1 = store of the AND of four buffers, presieve2 = AND into the sieve
    d = read(repo, "src/PreSieve_default.hpp")
    if "sieve[i] = preSieved0[i] & preSieved1[i] & preSieved2[i] & preSieved3[i];" not in norm(d) or \
       "sieve[i] &= preSieved0[i] & preSieved1[i] & preSieved2[i] & preSieved3[i];" not in norm(d):
        raise Shape("PreSieve_default.hpp kernels changed")
    return prime_bits, int(m.group(1)), sha


def parse_presieve_tables(repo):
    raw = open(os.path.join(repo, "lib", "primesieve", "include/primesieve/PreSieveTables.hpp")).read()
    src = strip_comments(raw)
    m = re.search(r"const primesieve::Array<std::initializer_list<uint8_t>, 16> preSieveTables =\s*\{\{(.*?)\}\};", src, flags=re.S)
    if not m:
        raise Shape("preSieveTables not found")
    body = m.group(1)
    tabs = re.findall(r"\{([^{}]*)\}", body)
    if re.sub(r"\{[^{}]*\}|[,\s]", "", body):
        raise Shape("preSieveTables: unexpected text between the tables")
    if len(tabs) != 16:
        raise Shape("preSieveTables has %d tables" % len(tabs))
    tables = []
    for k, t in enumerate(tabs):
        vals = int_list(t, "preSieveTables[%d]" % k)
        if any(v > 255 for v in vals):
            raise Shape("preSieveTables[%d]: entry > 255" % k)
        tables.append(vals)
    # the prime sets: the generator program embedded in the header (documentation; the OBLIGATIONS check them)
    pm = re.search(r"preSievePrimes =\s*\{\{(.*?)\}\};", src, flags=re.S)
    if not pm:
        raise Shape("preSievePrimes (generator program) not found")
    sets = [[int(x) for x in re.findall(r"\d+", s)] for s in re.findall(r"\{([^{}]*)\}", pm.group(1))]
    if len(sets) != 16:
        raise Shape("preSievePrimes has %d sets" % len(sets))
    return tables, sets


def parse_primegen(repo):
    src = read(repo, "src/PrimeGenerator.cpp")
    m = re.search(r"const primesieve::Array<uint64_t, 128> smallPrimes =\s*\{(.*?)\};", src, flags=re.S)
    if not m:
        raise Shape("smallPrimes not found")
    sp = int_list(m.group(1), "smallPrimes")
    m = re.search(r"const primesieve::Array<uint8_t, 720> primePi =\s*\{(.*?)\};", src, flags=re.S)
    if not m:
        raise Shape("primePi not found")
    pp = int_list(m.group(1), "primePi")
    if len(sp) != 128 or len(pp) != 720:
        raise Shape("smallPrimes/primePi sizes %d/%d" % (len(sp), len(pp)))
    b = function_body(src, r"void PrimeGenerator::initErat\(\)\s*\{")
    if norm(b) != norm("""{ ASSERT(maxCachedPrime() >= 5); uint64_t startErat = maxCachedPrime() + 2;
        startErat = std::max(startErat, start_); isInit_ = true;
        if (startErat <= stop_ && startErat < std::numeric_limits<uint64_t>::max()) { int sieveSize = get_sieve_size();
        Erat::init(startErat, stop_, sieveSize, memoryPool_); sievingPrimes_.init(this, sieveSize, memoryPool_); } }"""):
        raise Shape("PrimeGenerator::initErat changed: " + norm(b))
    b = function_body(src, r"void PrimeGenerator::sieveSegment\(\)\s*\{")
    if norm(b) != norm("""{ uint64_t sqrtHigh = isqrt(segmentHigh_); sieveIdx_ = 0; low_ = segmentLow_;
        if (!prime_) prime_ = sievingPrimes_.next(); while (prime_ <= sqrtHigh) { addSievingPrime(prime_);
        prime_ = sievingPrimes_.next(); } Erat::sieveSegment(); }"""):
        raise Shape("PrimeGenerator::sieveSegment changed: " + norm(b))
    b = function_body(src, r"std::size_t PrimeGenerator::getStartIdx\(\) const\s*\{")
    if norm(b) != norm("{ std::size_t startIdx = 0; if (start_ > 1) startIdx = primePi[start_ - 1]; return startIdx; }"):
        raise Shape("PrimeGenerator::getStartIdx changed")
    b = function_body(src, r"std::size_t PrimeGenerator::getStopIdx\(\) const\s*\{")
    if norm(b) != norm("""{ std::size_t stopIdx = 0; if (stop_ < maxCachedPrime()) stopIdx = primePi[stop_];
        else stopIdx = smallPrimes.size(); return stopIdx; }"""):
        raise Shape("PrimeGenerator::getStopIdx changed")
    sv = read(repo, "src/SievingPrimes.cpp")
    b = function_body(sv, r"bool SievingPrimes::sieveSegment\(\)\s*\{")
    if norm(b) != norm("""{ if (hasNextSegment()) { sieveIdx_ = 0; uint64_t high = segmentHigh_;
        for (uint64_t& i = tinyIdx_; i * i <= high; i += 2) if (tinySieve_[i]) addSievingPrime(i);
        Erat::sieveSegment(); return true; } else { i_ = 0; size_ = 1; primes_[0] = ~0ull; return false; } }"""):
        raise Shape("SievingPrimes::sieveSegment changed: " + norm(b))
    b = function_body(sv, r"void SievingPrimes::tinySieve\(\)\s*\{")
    if norm(b) != norm("""{ uint64_t n = isqrt(stop_); tinySieve_.resize(n + 1);
        std::fill(tinySieve_.begin(), tinySieve_.end(), true); for (uint64_t i = 3; i * i <= n; i += 2)
        if (tinySieve_[i]) for (uint64_t j = i * i; j <= n; j += i * 2) tinySieve_[j] = false; }"""):
        raise Shape("SievingPrimes::tinySieve changed: " + norm(b))
    b = function_body(sv, r"void SievingPrimes::init\(Erat\* erat,\s*uint64_t sieveSize,\s*MemoryPool& memoryPool\)\s*\{")
    if norm(b) != norm("""{ ASSERT(PreSieve::getMaxPrime() >= 7); uint64_t start = PreSieve::getMaxPrime() + 2;
        uint64_t stop = isqrt(erat->getStop()); Erat::init(start, stop, sieveSize, memoryPool);
        ASSERT(start % 2 == 1); tinyIdx_ = start; low_ = segmentLow_; if (start * start <= stop) tinySieve(); }"""):
        raise Shape("SievingPrimes::init changed: " + norm(b))
    cp = read(repo, "src/CountPrintPrimes.cpp")
    b = function_body(cp, r"void CountPrintPrimes::sieve\(\)\s*\{")
    if "for (; prime <= sqrtHigh; prime = sievingPrimes.next()) addSievingPrime(prime); sieveSegment();" not in norm(b) or \
       "while (hasNextSegment()) { low_ = segmentLow_; uint64_t sqrtHigh = isqrt(segmentHigh_);" not in norm(b):
        raise Shape("CountPrintPrimes::sieve changed: " + norm(b))
    b = function_body(cp, r"void CountPrintPrimes::countPrimes\(\)\s*\{")
    if norm(b) != norm("""{ ASSERT(sieve_.capacity() % sizeof(uint64_t) == 0); uint64_t size = ceilDiv(sieve_.size(), 8);
        counts_[0] += popcount((const uint64_t*) sieve_.data(), size); }"""):
        raise Shape("CountPrintPrimes::countPrimes changed: " + norm(b))
    return sp, pp


def parse_bits(repo):
    src = read(repo, "include/primesieve/bits.hpp")
    vals = []
    for k in range(8):
        m = re.search(r"BIT%d = (0x[0-9a-fA-F]+)" % k, src)
        if not m:
            raise Shape("BIT%d not found" % k)
        vals.append(int(m.group(1), 16))
    b = read(repo, "include/primesieve/Bucket.hpp")
    m = re.search(r"MAX_MULTIPLEINDEX = \(1 << (\d+)\) - 1,\s*MAX_WHEELINDEX\s*= \(1 << \((\d+) - (\d+)\)\) - 1", b)
    if not m or m.group(1) != m.group(3):
        raise Shape("SievingPrime packing constants not recognised")
    for need in ["indexes_ = (uint32_t) (multipleIndex | (wheelIndex << %s));" % m.group(1),
                 "return indexes_ & MAX_MULTIPLEINDEX;", "return indexes_ >> %s;" % m.group(1),
                 "sievingPrime_ = (uint32_t) sievingPrime;"]:
        if need not in norm(b):
            raise Shape("SievingPrime::set/get changed: missing " + need)
    return vals, (int(m.group(1)), int(m.group(2)))


# --------------------------------------------------------------------------------------------- output

def lean_list(xs, per=4, indent="  "):
    rows = [", ".join(xs[i:i + per]) for i in range(0, len(xs), per)]
    return "[\n" + ",\n".join(indent + r for r in rows) + "]"


def q(t):
    return "(" + ", ".join(str(x) for x in t) + ")"


N_OBL_WHEEL = 21


def extract(repo, outdir, write_if_changed):
    small, fast = parse_small(repo)
    medium = parse_medium(repo)
    big = parse_big(repo)
    bv, br, w30i, w210i = parse_lookup(repo)
    offs, p30, p210 = parse_wheel_hpp(repo)
    us, ul, consts = parse_erat(repo)
    prime_bits, max_pre, presha = parse_presieve(repo)
    tables, sets = parse_presieve_tables(repo)
    sp, pp = parse_primegen(repo)
    bits, pack = parse_bits(repo)

    d = []
    d.append("/-\nGENERATED by translator/extract_pswheel.py from lib/primesieve — do not edit.\n"
             "Data only (core Lean). Obligations over these tables: PcGen/PsWheelObl.lean.\n-/\n")
    d.append("namespace Pc.Gen\n")
    d.append("/-- `case i:` of `EratSmall::crossOff(uint8_t*, size_t)`: `(bit, k, c, next)` of\n"
             "    `CHECK_FINISHED(i); sieve[i] &= BIT<bit>; i += sievingPrime * k + c;` followed by case `next`. -/")
    d.append("def psSmallTab : List (Nat × Nat × Nat × Nat) := " + lean_list([q(t) for t in small]) + "\n")
    d.append("/-- `case i:` of `EratMedium::crossOff_7 … crossOff_31` (`i += dist<n>` resolved): `(bit, k, c, next)` -/")
    d.append("def psMediumTab : List (Nat × Nat × Nat × Nat) := " + lean_list([q(t) for t in medium]) + "\n")
    d.append("/-- unrolled loop in front of `case 8g` of EratSmall: `(maxK, maxC, stepK, stepC)` of\n"
             "    `maxOffset = sievingPrime * maxK + maxC`, `for (; i < limit; i += sievingPrime * stepK + stepC)` -/")
    d.append("def psSmallFastHead : List (Nat × Nat × Nat × Nat) := " +
             lean_list(["(%d, %d, %d, %d)" % f[:4] for f in fast], per=4) + "\n")
    d.append("/-- the 8 statements `sieve[i + sievingPrime * k + c] &= BIT<bit>;` of each unrolled loop as `(k, c, bit)` -/")
    d.append("def psSmallFastBody : List (List (Nat × Nat × Nat)) := " +
             lean_list(["[%s]" % ", ".join(q(e) for e in f[4]) for f in fast], per=1) + "\n")
    d.append("/-- `wheel210[i] = { BIT<bit>, nextMultipleFactor, correct, next }` of EratBig.cpp as `(bit, factor, correct, next)` -/")
    d.append("def psWheel210 : List (Nat × Nat × Nat × Nat) := " + lean_list([q(t) for t in big], per=6) + "\n")
    d.append("/-- `wheel30Init[q % 30] = { nextMultipleFactor, wheelIndex }` -/")
    d.append("def psWheel30Init : List (Nat × Nat) := " + lean_list([q(t) for t in w30i], per=10) + "\n")
    d.append("/-- `wheel210Init[q % 210] = { nextMultipleFactor, wheelIndex }` -/")
    d.append("def psWheel210Init : List (Nat × Nat) := " + lean_list([q(t) for t in w210i], per=10) + "\n")
    d.append("/-- `Wheel::wheelOffsets_[prime % 30]` as the multiplier of `SIZE` (`none` where the source says plain `0`) -/")
    d.append("def psWheelOffsetsPattern : List (Option Nat) := " +
             lean_list([("none" if o < 0 else "some %d" % o) for o in offs], per=6) + "\n")
    d.append("/-- `Wheel30_t = Wheel<MODULO, SIZE, MAXMULTIPLEFACTOR, wheel30Init>` -/")
    d.append("def psWheel30Params : Nat × Nat × Nat := %s" % q(p30))
    d.append("/-- `Wheel210_t = Wheel<MODULO, SIZE, MAXMULTIPLEFACTOR, wheel210Init>` -/")
    d.append("def psWheel210Params : Nat × Nat × Nat := %s\n" % q(p210))
    d.append("/-- `bitValues[65]` (LookupTables.cpp) -/")
    d.append("def psBitValues : List Nat := " + lean_list([str(x) for x in bv], per=8) + "\n")
    d.append("/-- `bruijnBitValues[64]` (LookupTables.cpp) -/")
    d.append("def psBruijnBitValues : List Nat := " + lean_list([str(x) for x in br], per=8) + "\n")
    d.append("/-- `unsetSmaller[37]` (Erat.cpp): unset bits < start -/")
    d.append("def psUnsetSmaller : List Nat := " + lean_list([str(x) for x in us], per=8) + "\n")
    d.append("/-- `unsetLarger[37]` (Erat.cpp): unset bits > stop -/")
    d.append("def psUnsetLarger : List Nat := " + lean_list([str(x) for x in ul], per=8) + "\n")
    d.append("/-- `primeBits[8]` of `PreSieve::preSieve` -/")
    d.append("def psPrimeBits : List Nat := [" + ", ".join(str(x) for x in prime_bits) + "]")
    d.append("/-- `PreSieve::getMaxPrime()` -/")
    d.append("def psPreSieveMaxPrime : Nat := %d\n" % max_pre)
    d.append("/-- `smallPrimes[128]` (PrimeGenerator.cpp) -/")
    d.append("def psSmallPrimes : List Nat := " + lean_list([str(x) for x in sp], per=10) + "\n")
    d.append("/-- `primePi[720]` (PrimeGenerator.cpp) -/")
    d.append("def psPrimePi : List Nat := " + lean_list([str(x) for x in pp], per=15) + "\n")
    d.append("/-- `BIT0 … BIT7` (bits.hpp) -/")
    d.append("def psBitMasks : List Nat := [" + ", ".join(str(x) for x in bits) + "]")
    d.append("/-- `SievingPrime`: `indexes_ = multipleIndex | (wheelIndex << %d)` in a %d-bit word -/" % pack)
    d.append("def psPackBits : Nat × Nat := %s" % q(pack))
    d.append("/-- config.hpp: `L1D_CACHE_BYTES` and the factors as (integer part, fraction digits, number of fraction digits) -/")
    d.append("def psL1Default : Nat := %d" % (consts["L1D_CACHE_BYTES"][0] << consts["L1D_CACHE_BYTES"][1]))
    for nm in ("FACTOR_SIEVESIZE", "FACTOR_ERATSMALL", "FACTOR_ERATMEDIUM"):
        d.append("def ps%s : Nat × Nat × Nat := %s" % (nm.title().replace("_", ""), q(consts[nm])))
    d.append("\nend Pc.Gen\n")
    ch1 = write_if_changed(os.path.join(outdir, "PsWheelData.lean"), "\n".join(d))

    t = []
    t.append("/-\nGENERATED by translator/extract_pswheel.py from lib/primesieve/include/primesieve/PreSieveTables.hpp — do not edit.\n"
             "Data only (core Lean): each of the 16 pre-sieve buffers as ONE little-endian natural number\n"
             "(byte j of the buffer = (N >>> (8 j)) % 256), its length, and the primes its generator program names.\n"
             "Obligations: PcGen/PsPreSieveObl.lean.\n-/\n")
    t.append("-- the big literals must not become start-up initialised constants of every executable that links this module\n"
             "-- (0.4 s per process): they are functions of a unit argument and closed-term extraction is off in this file\n"
             "set_option compiler.extract_closed false\n")
    t.append("namespace Pc.Gen\n")
    for k, vals in enumerate(tables):
        n = int.from_bytes(bytes(vals), "little")
        t.append("def psPreTab%d (_u : Unit) : Nat := 0x%x" % (k, n))
    t.append("")
    t.append("/-- `(buffer as a number, buffer length in bytes, primes of the buffer)` for the 16 buffers -/")
    t.append("def psPreTabs (u : Unit) : List (Nat × Nat × List Nat) := [\n" + ",\n".join(
        "  (psPreTab%d u, %d, [%s])" % (k, len(tables[k]), ", ".join(str(p) for p in sets[k])) for k in range(16)) + "]\n")
    t.append("end Pc.Gen\n")
    ch2 = write_if_changed(os.path.join(outdir, "PsPreSieveData.lean"), "\n".join(t))

    obl = '''/-
GENERATED by translator/extract_pswheel.py — do not edit.
Obligations (kernel `decide`) over the tables of PcGen/PsWheelData.lean: every entry extracted from
lib/primesieve equals its defining formula (PcModel/PsWheelSpec.lean).
-/
import PcGen.PsWheelData
import PcModel.PsWheelSpec

namespace Pc.Gen
open Pc.PsWheelSpec

/-- the 64 `case` lines of EratSmall: bit = bitOf(ρ·w_j), k = w_{j+1} − w_j,
    c = ⌊(ρ·w_{j+1}+23)/30⌋ − ⌊(ρ·w_j+23)/30⌋, next = 8g + (j+1) mod 8 -/
theorem psSmallTab_ok : psSmallTab = expected30 := by decide +kernel

/-- EratMedium's eight functions use the same 64 entries -/
theorem psMediumTab_eq : psMediumTab = psSmallTab := by decide +kernel

theorem psMediumTab_ok : psMediumTab = expected30 := by decide +kernel

/-- the 8 unrolled loops of EratSmall -/
theorem psSmallFastHead_ok : psSmallFastHead = expectedFastHead := by decide +kernel

theorem psSmallFastBody_ok : psSmallFastBody = expectedFastBody := by decide +kernel

/-- the 384 elements of `wheel210` -/
theorem psWheel210_ok : psWheel210 = expected210 := by decide +kernel

/-- `wheel30Init[q]` / `wheel210Init[q]`: distance to the next factor coprime to 30 / 210 and its wheel position -/
theorem psWheel30Init_ok : psWheel30Init = expectedInit 30 := by decide +kernel

theorem psWheel210Init_ok : psWheel210Init = expectedInit 210 := by decide +kernel

/-- `wheelOffsets_[r]` = SIZE · (group of residue r), plain 0 for residues not coprime to 30 -/
theorem psWheelOffsetsPattern_ok : psWheelOffsetsPattern = expectedOffsetsPattern := by decide +kernel

theorem psWheel30Params_ok : psWheel30Params = (30, 8, 6) := by decide +kernel

theorem psWheel210Params_ok : psWheel210Params = (210, 48, 10) := by decide +kernel

/-- `bitValues[i] = 30·(i/8) + {7,11,13,17,19,23,29,31}[i%8]`, `bitValues[64] = 0` -/
theorem psBitValues_ok : psBitValues = expectedBitValues := by decide +kernel

/-- De Bruijn fallback of `Erat::nextPrime`: `bruijnBitValues[hash(1 << i)] = bitValues[i]` for all 64 bits -/
theorem psBruijnBitValues_ok : (List.range 64).all (fun i => psBruijnBitValues.getD (bruijnHash i) 0 == psBitValues.getD i 0) = true := by
  decide +kernel

/-- `unsetSmaller[r]` keeps the bits with value ≥ r, `unsetLarger[r]` those with value ≤ r (r = 0..36) -/
theorem psUnsetSmaller_ok : psUnsetSmaller = expectedUnsetSmaller := by decide +kernel

theorem psUnsetLarger_ok : psUnsetLarger = expectedUnsetLarger := by decide +kernel

/-- `primeBits[k]`: bit i set iff `30k + B_i` is prime (k < 8) -/
theorem psPrimeBits_ok : psPrimeBits = expectedPrimeBits := by decide +kernel

theorem psPreSieveMaxPrime_ok : psPreSieveMaxPrime = 163 := by decide +kernel

/-- `smallPrimes` = the primes below 720 (128 of them), `primePi[n]` = number of primes ≤ n -/
theorem psSmallPrimes_ok : psSmallPrimes = expectedSmallPrimes := by decide +kernel

theorem psPrimePi_ok : psPrimePi = expectedPrimePi := by decide +kernel

/-- `BIT<n> = ~(1 << n)` on a byte; 23 + 9 bit packing of `SievingPrime::indexes_` -/
theorem psBitMasks_ok : psBitMasks = (List.range 8).map (fun n => 255 - 2 ^ n) := by decide +kernel

theorem psPackBits_ok : psPackBits = (23, 32) := by decide +kernel

end Pc.Gen
'''
    ch3 = write_if_changed(os.path.join(outdir, "PsWheelObl.lean"), obl)

    po = []
    po.append("/-\nGENERATED by translator/extract_pswheel.py — do not edit.\n"
              "Obligations over the 16 pre-sieve buffers (PcGen/PsPreSieveData.lean): buffer k has length ∏ primes_k and equals\n"
              "the little-endian encoding of `j ↦ byte whose bit i is set iff 30 j + B_i is divisible by none of primes_k`,\n"
              "computed as the AND over p of the p-periodic single-prime buffers (PcModel/PsWheelSpec.lean `preBufPeriodic`;\n"
              "PcProofs/PsCorePre.lean proves byte j of it is `preByte primes_k j`).  `decide +kernel`, big-number arithmetic.\n-/")
    po.append("import PcGen.PsPreSieveData\nimport PcModel.PsWheelSpec\n")
    po.append("namespace Pc.Gen\nopen Pc.PsWheelSpec\n")
    for k in range(16):
        ps = ", ".join(str(p) for p in sets[k])
        po.append("theorem psPreTab%d_ok : psPreTab%d () = preBufPeriodic [%s] %d ∧ %d = [%s].foldl (· * ·) 1 := by decide +kernel"
                  % (k, k, ps, len(tables[k]), len(tables[k]), ps))
    po.append("")
    po.append("/-- the prime sets are pairwise disjoint and together are exactly the primes 7 … 163 -/")
    po.append("theorem psPreTabs_primes_ok : isort ((psPreTabs ()).flatMap (·.2.2)) = expectedPreSievePrimes := by decide +kernel")
    po.append("\nend Pc.Gen\n")
    ch4 = write_if_changed(os.path.join(outdir, "PsPreSieveObl.lean"), "\n".join(po))

    return {"source": "lib/primesieve/{src/EratSmall.cpp, EratMedium.cpp, EratBig.cpp, LookupTables.cpp, Erat.cpp, PreSieve.cpp, "
                      "PrimeGenerator.cpp, SievingPrimes.cpp, CountPrintPrimes.cpp, include/primesieve/{Wheel,Erat,Bucket,bits,config,"
                      "PreSieve,PreSieveTables}.hpp}",
            "cases_small": len(small), "cases_medium": len(medium), "fast_loops": len(fast), "wheel210": len(big),
            "wheel30Init": len(w30i), "wheel210Init": len(w210i), "presieve_tables": [len(x) for x in tables],
            "presieve_body_sha256": presha,
            "bodies_checked": sorted(["Wheel::addSievingPrime", "EratSmall::crossOff(Vector&)", "EratSmall::storeSievingPrime",
                                      "EratMedium::crossOff", "EratMedium::storeSievingPrime", "EratBig::crossOff x2",
                                      "EratBig::storeSievingPrime", "EratBig::init", "Erat::init", "Erat::initAlgorithms",
                                      "Erat::addSievingPrime", "PreSieve::preSieve", "PreSieve_default kernels",
                                      "PrimeGenerator::initErat/sieveSegment/getStartIdx/getStopIdx",
                                      "SievingPrimes::init/tinySieve/sieveSegment", "CountPrintPrimes::sieve/countPrimes",
                                      "SievingPrime::set/get"] + ["Erat::" + k for k in ERAT_EXPECT]),
            "changed": bool(ch1 or ch2 or ch3 or ch4), "obligations": N_OBL_WHEEL + 17}


def count_obligations():
    return N_OBL_WHEEL + 17


if __name__ == "__main__":
    import sys

    def w(path, text):
        os.makedirs(os.path.dirname(path), exist_ok=True)
        if os.path.exists(path) and open(path).read() == text:
            return False
        open(path, "w").write(text)
        return True
    print(extract(sys.argv[1], sys.argv[2], w))
