"""Source mirror: the normalised statement sequence of every C++ function that has a hand-written L2 model.

    /repo sources  ->  lean/PcGen/SrcMirror<Group>Data.lean   (what the code says NOW)
                       lean/PcGen/SrcMirror<Group>Obl.lean    (what the models were written against + obligations)

The hand-written models in lean/PcModel/*.lean mirror the control flow of specific functions. The correspondence
streams compare behaviour on sampled inputs; this extractor closes the other half of the tie: on every run it re-reads
the functions, normalises them (comments and layout removed, tokens separated by one blank, one entry per statement /
block header) and the kernel checks `current = recorded` (`rfl` on string lists). A change to a modelled function
therefore breaks a named obligation in the property file(s) that use the model; the check then searches for a failing
input with its streams and reports `no-failing-input-found` if the change turns out to be harmless (the model has to be
re-read against the new text and the recording refreshed with `python3 translator/extract_srcmirror.py --record`).

Never guesses: a registered file that cannot be split into definitions raises.
"""
import hashlib
import json
import os
import re
import sys

HERE = os.path.dirname(os.path.abspath(__file__))
EXPECTED = os.path.join(HERE, "srcmirror_expected.json")

# group -> list of (file, include) ; include = None: every function definition of the file, else a list of names
# (names as produced by the splitter: `f`, `Class::f`, a second definition of the same name is `f#2`)
REGISTRY = {
    # C02 / C01: PcModel/SimpleAlgs.lean
    "SimpleAlgs": [
        ("src/pi_legendre.cpp", None), ("src/pi_meissel.cpp", None), ("src/pi_lehmer.cpp", None), ("src/P3.cpp", None),
        ("src/lmo/pi_lmo1.cpp", None), ("src/lmo/pi_lmo2.cpp", None), ("src/lmo/pi_lmo3.cpp", None),
        ("src/lmo/pi_lmo4.cpp", None), ("include/BinaryIndexedTree.hpp", None),
    ],
    # C08: PcModel/LeafLoops.lean, PcModel/P2Loop.lean (P2/B also have extract_p2loop.py)
    "LeafLoops": [
        ("src/S1.cpp", None), ("src/gourdon/Phi0.cpp", None), ("src/gourdon/Sigma.cpp", None),
        ("src/deleglise-rivat/S2_trivial.cpp", None), ("src/P2.cpp", None), ("src/gourdon/B.cpp", None),
    ],
    # C12 / C04 / C11: PcModel/ParamsL2.lean, Params.lean
    "Params": [
        ("src/gourdon/pi_gourdon.cpp", None), ("src/deleglise-rivat/pi_deleglise_rivat.cpp", None),
        ("src/util.cpp", ["truncate3", "set_alpha", "set_alpha_y", "set_alpha_z", "get_alpha_lmo",
                          "get_alpha_deleglise_rivat", "get_alpha_gourdon", "get_x_star_gourdon", "get_alpha", "get_alpha_y",
                          "get_alpha_z"]),
        # the CLI wrappers of the partial formulas re-derive (y, z, k) / (y, z, c) from the tuning options
        ("src/app/main.cpp", ["AC", "B", "D", "Phi0", "Sigma", "P2", "S1", "S2_trivial", "S2_easy", "S2_hard"]),
        ("src/api.cpp", ["get_max_x"]),
        ("include/fast_div.hpp", None),
        ("include/PhiTiny.hpp", ["PhiTiny::get_c", "PhiTiny::get_k"]),
    ],
    # C12: PcModel/Roots.lean
    "Roots": [("include/isqrt.hpp", None), ("include/imath.hpp", None)],
    # C09 / C03: PcModel/Dispenser.lean
    "Balancers": [("src/LoadBalancerS2.cpp", None), ("src/LoadBalancerP2.cpp", None),
                  ("src/gourdon/LoadBalancerAC.cpp", None)],
    # C07: PcModel/PhiAlg.lean, PhiTiny.lean, PhiVector.lean
    "Phi": [("src/phi.cpp", None), ("src/PhiTiny.cpp", None), ("src/phi_vector.cpp", None),
            ("include/PhiTiny.hpp", None)],
    # C17: PcModel/PiTable.lean, Sieve.lean, BitSieve240.lean (wheel tables: extract_wheel.py)
    "Tables": [("src/PiTable.cpp", None), ("include/PiTable.hpp", None), ("src/gourdon/SegmentedPiTable.cpp", None),
               ("include/SegmentedPiTable.hpp", None), ("include/FactorTable.hpp", None),
               ("include/FactorTableD.hpp", None), ("include/BaseFactorTable.hpp", None),
               ("src/generate_primes.cpp", None), ("include/generate_primes.hpp", None), ("src/BitSieve240.cpp", None),
               ("include/Sieve.hpp", None), ("src/Sieve_count.hpp", None),
               ("src/Sieve.cpp", None)],
    # C06: PcModel/NthPrime.lean
    "NthPrime": [("src/nth_prime.cpp", None)],
    # C01 / C13 / C20: PcModel/Api.lean, ApiState.lean, Calc.lean
    "Api": [("src/api.cpp", None),
            ("src/util.cpp", ["to_maxint", "to_string", "to_string#2"])],
    # C13: PcModel/Calc.lean
    "Calc": [("include/calculator.hpp", None), ("src/util.cpp", ["to_maxint"]),
             ("src/app/main.cpp", ["to_int64"]), ("src/app/CmdOptions.cpp", ["isOption", "parseOption"])],
    # C15: PcModel/Sieve.lean (bit-count paths)
    "BitCount": [("include/popcnt.hpp", None), ("src/Sieve_count.hpp", None)],
    # C20: PcModel/ApiState.lean
    "ApiState": [("src/print.cpp", None), ("src/api.cpp", ["get_num_threads", "set_num_threads"]),
                 ("src/util.cpp", ["get_status_precision", "set_status_precision", "set_alpha", "set_alpha_y",
                                   "set_alpha_z", "get_alpha", "get_alpha_y", "get_alpha_z"])],
    # C08 / C03: PcModel/HardLoops.lean (S2_hard_thread / D_thread / the two OpenMP regions)
    "HardLoops": [("src/deleglise-rivat/S2_hard.cpp", None), ("src/gourdon/D.cpp", None)],
    # C08: PcModel/EasyLoops.lean, EasyAC.lean
    "EasyLoops": [("src/deleglise-rivat/S2_easy.cpp", None), ("src/deleglise-rivat/S2_easy_libdivide.cpp", None),
                  ("src/gourdon/AC.cpp", None), ("src/gourdon/AC_libdivide.cpp", None)],
    # C18: PcModel/Iter.lean (iterator / API layer of the bundled primesieve; the sieving core has its own extractor extract_pswheel.py)
    "PsIter": [("lib/primesieve/src/iterator.cpp", ["iterator::iterator#3", "iterator::jump_to", "iterator::clear",
                                                    "iterator::generate_next_primes", "iterator::generate_prev_primes"]),
               ("lib/primesieve/src/IteratorHelper.cpp", None),
               ("lib/primesieve/include/primesieve/iterator.hpp", None),
               ("lib/primesieve/include/primesieve/pmath.hpp", ["checkedAdd", "checkedSub", "inBetween", "maxPrimeGap"]),
               ("lib/primesieve/src/PrimeGenerator.cpp", ["PrimeGenerator::maxCachedPrime", "PrimeGenerator::getStartIdx",
                                                          "PrimeGenerator::getStopIdx", "PrimeGenerator::initPrevPrimes",
                                                          "PrimeGenerator::initNextPrimes", "PrimeGenerator::initErat"]),
               ("lib/primesieve/src/nthPrime.cpp", None),
               ("lib/primesieve/src/ParallelSieve.cpp", ["ParallelSieve::idealNumThreads", "ParallelSieve::getThreadDistance",
                                                         "ParallelSieve::align", "ParallelSieve::sieve"]),
               ("lib/primesieve/src/PrimeSieve.cpp", ["PrimeSieve::processSmallPrimes", "PrimeSieve::sieve#3"]),
               ("lib/primesieve/include/primesieve/StorePrimes.hpp", ["store_primes", "store_n_primes"]),
               ("lib/primesieve/src/api.cpp", ["nth_prime", "count_primes"])],
    # C14: PcModel/CApi.lean
    "CApi": [("src/api_c.cpp", None)],
    # C19: PcModel/LiR.lean
    "LiR": [("src/RiemannR.cpp", None), ("src/LogarithmicIntegral.cpp", None)],
}

# twin translation units: (group, twin file, default file, [(regex, replacement)] applied to the twin's statements and
# names). The models mirror the DEFAULT file; the twin (the one the CPU dispatch really runs on AVX512 / SVE machines)
# must be the same text up to the counting primitive. Obligation: renamed twin function = default function.
TWINS = [
    ("HardLoops", "src/deleglise-rivat/S2_hard_multiarch_avx512.cpp", "src/deleglise-rivat/S2_hard.cpp",
     [(r"count_avx512", "count")], ["S2_hard_thread", "S2_hard_OpenMP"]),
    ("HardLoops", "src/deleglise-rivat/S2_hard_multiarch_arm_sve.cpp", "src/deleglise-rivat/S2_hard.cpp",
     [(r"count_arm_sve", "count")], ["S2_hard_thread", "S2_hard_OpenMP"]),
    ("HardLoops", "src/gourdon/D_multiarch_avx512.cpp", "src/gourdon/D.cpp",
     [(r"count_avx512", "count")], ["D_thread", "D_OpenMP"]),
    ("HardLoops", "src/gourdon/D_multiarch_arm_sve.cpp", "src/gourdon/D.cpp",
     [(r"count_arm_sve", "count")], ["D_thread", "D_OpenMP"]),
]

TOK = re.compile(r"\"(?:[^\"\\\n]|\\.)*\"|'(?:[^'\\\n]|\\.)*'|[A-Za-z_][A-Za-z0-9_]*|\d[0-9A-Za-z_.']*|::|<<=|>>=|<=|>=|==|!=|\+=|-=|\*=|/=|%=|&=|\|=|\^=|\+\+|--|->|&&|\|\||\S")


def strip_comments(src):
    out, i, n = [], 0, len(src)
    while i < n:
        c = src[i]
        if src.startswith("//", i):
            while i < n and src[i] != "\n":
                i += 1
        elif src.startswith("/*", i):
            j = src.find("*/", i + 2)
            seg = src[i:(j + 2 if j >= 0 else n)]
            out.append("\n" * seg.count("\n") or " ")
            i = j + 2 if j >= 0 else n
        elif c == '"' or c == "'":
            j = i + 1
            while j < n and src[j] != c:
                j += 2 if src[j] == "\\" else 1
            out.append(src[i:j + 1])
            i = j + 1
        else:
            out.append(c)
            i += 1
    return "".join(out)


def tokens(src):
    """token list; a preprocessor line becomes ONE token `#...` (continuation lines joined)"""
    src = strip_comments(src)
    toks = []
    lines = src.split("\n")
    i = 0
    while i < len(lines):
        ln = lines[i]
        if ln.lstrip().startswith("#"):
            txt = ln.strip()
            while txt.endswith("\\") and i + 1 < len(lines):
                i += 1
                txt = txt[:-1].rstrip() + " " + lines[i].strip()
            toks.append("#" + " ".join(TOK.findall(txt[1:])))
        else:
            toks.extend(TOK.findall(ln))
        i += 1
    return toks


def statements(toks):
    """cut after every `;`, `{`, `}` at parenthesis depth 0 and around preprocessor tokens"""
    out, cur, paren = [], [], 0
    for t in toks:
        if paren == 0 and re.match(r"#\s*[a-z]", t):
            if cur:
                out.append(" ".join(cur))
                cur = []
            out.append(t)
            continue
        cur.append(t)
        if t == "(":
            paren += 1
        elif t == ")":
            paren -= 1
        if paren == 0 and t in (";", "{", "}"):
            out.append(" ".join(cur))
            cur = []
    if cur:
        out.append(" ".join(cur))
    return out


def _balanced(toks, i, open_, close):
    """index just after the group that opens at toks[i]"""
    depth = 0
    while i < len(toks):
        if toks[i] == open_:
            depth += 1
        elif toks[i] == close:
            depth -= 1
            if depth == 0:
                return i + 1
        i += 1
    raise ValueError("unbalanced %s" % open_)


def _clean_header(h):
    """drop attributes / template heads that contain parentheses but are not the declarator"""
    out, i = [], 0
    while i < len(h):
        t = h[i]
        if t in ("__attribute__", "alignas", "__declspec") and i + 1 < len(h) and h[i + 1] == "(":
            i = _balanced(h, i + 1, "(", ")")
            continue
        if t == "template" and i + 1 < len(h) and h[i + 1] == "<":
            depth, j = 0, i + 1
            while j < len(h):
                if h[j] == "<":
                    depth += 1
                elif h[j] == ">":
                    depth -= 1
                    if depth == 0:
                        break
                elif h[j] == ">>":
                    depth -= 2
                    if depth <= 0:
                        break
                j += 1
            i = j + 1
            continue
        if t.startswith("#"):
            i += 1
            continue
        out.append(t)
        i += 1
    return out


def _func_name(h):
    """name of the function whose declarator starts at the first top-level `(` of header h (None: not a function)"""
    # the declarator's `(`: the first one at parenthesis depth 0 AND template-angle depth 0 (return types such as
    # `std::enable_if<(sizeof(X) > 8), X>::type` contain parentheses inside angle brackets)
    k, p, a = None, 0, 0
    for idx, t in enumerate(h):
        if t == "(":
            if p == 0 and a == 0 and idx > 0:
                k = idx
                break
            p += 1
        elif t == ")":
            p -= 1
        elif p == 0 and t == "<" and idx > 0 and (re.fullmatch(r"[A-Za-z_][A-Za-z0-9_]*", h[idx - 1]) or a > 0):
            a += 1
        elif p == 0 and t == ">" and a > 0:
            a -= 1
        elif p == 0 and t == ">>" and a > 0:
            a = max(0, a - 2)
    if k is None:
        return None
    j = k - 1
    if h[j] in ("]", ")") and j >= 2 and h[j - 2] == "operator":      # operator[] / operator()
        name = ["operator" + h[j - 1] + h[j]]
        j -= 3
    elif j >= 1 and h[j - 1] == "operator":
        name = ["operator" + h[j]]
        j -= 2
    elif re.fullmatch(r"[A-Za-z_][A-Za-z0-9_]*", h[j]):
        if h[j] in ("if", "for", "while", "switch", "catch", "return", "sizeof", "decltype"):
            return None
        name = [h[j]]
        j -= 1
    else:
        return None
    while j >= 1 and h[j] == "::" and re.fullmatch(r"[A-Za-z_][A-Za-z0-9_]*|>", h[j - 1]):
        if h[j - 1] == ">":       # Class<T>::f
            d, q = 0, j - 1
            while q >= 0:
                if h[q] == ">":
                    d += 1
                elif h[q] == "<":
                    d -= 1
                    if d == 0:
                        break
                q -= 1
            if q < 1:
                break
            name.insert(0, h[q - 1])
            j = q - 2
        else:
            name.insert(0, h[j - 1])
            j -= 2
    return "::".join(name)


def split_functions(src, what):
    """[(qualified name, [statements of the body])] of every function definition in the translation unit"""
    toks = tokens(src)
    res = []

    def walk(i, end, scope):
        header = []
        while i < end:
            t = toks[i]
            if t.startswith("#") and re.match(r"#\s*[a-z]", t):
                i += 1
                continue
            if t == ";":
                header = []
                i += 1
                continue
            if t == "}":
                raise ValueError("%s: unexpected '}' at token %d" % (what, i))
            if t != "{":
                header.append(t)
                i += 1
                continue
            close = _balanced(toks, i, "{", "}")
            h = _clean_header(header)
            if "namespace" in h and "(" not in h:
                walk(i + 1, close - 1, scope)
            elif h[:2] == ["extern", '"C"'] and "(" not in h:
                walk(i + 1, close - 1, scope)
            elif ("(" not in h or ("(" in h and any(k in h[:h.index("(")] for k in ("class", "struct")) and "=" not in h
                                   and _func_name(h) is None)) and any(k in h for k in ("class", "struct", "union")):
                kw = max(idx for idx, tk in enumerate(h) if tk in ("class", "struct", "union"))
                cname = h[kw + 1] if kw + 1 < len(h) else "?"
                walk(i + 1, close - 1, scope + [cname])
                # `};` follows
            elif "enum" in h and "(" not in h:
                pass
            else:
                name = None
                if "(" in h and "=" not in h[:h.index("(")]:
                    name = _func_name(h)
                if name is None:
                    # brace initialiser (`static const T a[] = { ... };`) or something that is not a definition
                    pass
                else:
                    q = "::".join(scope + [name]) if scope and "::" not in name else name
                    res.append((q, statements(toks[i + 1:close - 1])))
            header = []
            i = close
            # a definition inside a class may be followed by `;`
        return

    walk(0, len(toks), [])
    # number repeated names
    seen, out = {}, []
    for q, st in res:
        seen[q] = seen.get(q, 0) + 1
        out.append((q if seen[q] == 1 else "%s#%d" % (q, seen[q]), st))
    return out


def read_all(repo):
    """group -> file -> [(name, statements)] restricted to the registry"""
    cache, out = {}, {}
    for group, entries in REGISTRY.items():
        out[group] = {}
        for f, include in entries:
            if f not in cache:
                p = os.path.join(repo, f)
                if not os.path.exists(p):
                    raise ValueError("registered file %s does not exist" % f)
                cache[f] = split_functions(open(p).read(), f)
            funcs = cache[f]
            if not funcs:
                raise ValueError("%s: no function definition found" % f)
            if include is not None:
                inc = [n[:-2] if n.endswith("#0") else n for n in include]
                names = {n for n, _ in funcs}
                missing = [n for n in inc if n not in names]
                sel = [(n, st) for n, st in funcs if n in inc]
                # a registered function that disappeared is reported as an EMPTY body (the obligation fails, named)
                sel += [(n, []) for n in missing]
                funcs = sel
            out[group].setdefault(f, [])
            out[group][f] = funcs
    return out


def ident(f, n):
    s = re.sub(r"[^A-Za-z0-9]+", "_", os.path.splitext(f)[0].replace("src/", "").replace("include/", "h_")) + "__" + \
        re.sub(r"[^A-Za-z0-9]+", "_", n.replace("#", "_n").replace("operator[]", "op_index").replace("operator()", "op_call"))
    return s.strip("_")


def lean_list(name, items):
    esc = lambda s: s.replace("\\", "\\\\").replace("\"", "\\\"")
    if not items:
        return ["def %s : List String := []" % name, ""]
    return ["def %s : List String := [" % name] + \
           ["  \"%s\"%s" % (esc(s), "," if i + 1 < len(items) else "") for i, s in enumerate(items)] + ["]", ""]


def extract(repo, outdir, write_if_changed):
    cur = read_all(repo)
    if not os.path.exists(EXPECTED):
        raise ValueError("translator/srcmirror_expected.json missing (run with --record on the tree the models mirror)")
    exp = json.load(open(EXPECTED))
    info = {"groups": {}, "changed_functions": [], "obligations": 0, "changed": False}
    for group in REGISTRY:
        data = ["/-", "GENERATED by translator/extract_srcmirror.py from /repo - do not edit.",
                "Normalised statements of the C++ functions mirrored by the hand-written models (group %s)." % group, "-/",
                "namespace Pc.SrcMirror.%s.Cur" % group, ""]
        obl = ["/-", "GENERATED by translator/extract_srcmirror.py - the statement sequences the models of group %s were" % group,
               "written against (translator/srcmirror_expected.json) and one obligation per function: the text in /repo is",
               "still that text. A failing obligation names the function whose model has to be re-read.", "-/",
               "import PcGen.SrcMirror%sData" % group, "namespace Pc.SrcMirror.%s" % group, ""]
        names, twin_names = [], []
        egroup = exp.get(group, {})
        for f in cur[group]:
            cfun = dict(cur[group][f])
            efun = dict(egroup.get(f, []))
            order = [n for n, _ in egroup.get(f, [])] + [n for n in cfun if n not in efun]
            for n in order:
                idn = ident(f, n)
                c, e = cfun.get(n, []), efun.get(n)
                data += lean_list(idn, c)
                if e is None:
                    # a function that did not exist when the models were written: reported, not an obligation by itself
                    info["changed_functions"].append("%s: %s (new)" % (f, n))
                    e = []
                obl += lean_list("Rec." + idn, e)
                obl += ["/-- `%s` in %s -/" % (n, f), "theorem %s_text : Cur.%s = Rec.%s := rfl" % (idn, idn, idn), ""]
                names.append(idn)
                if c != e:
                    info["changed_functions"].append("%s: %s" % (f, n))
        # twin translation units of this group
        for tg, tf, df, subs, only in TWINS:
            if tg != group:
                continue
            tp = os.path.join(repo, tf)
            if not os.path.exists(tp):
                raise ValueError("registered twin file %s does not exist" % tf)
            dfun = dict(cur[group][df])

            def ren(x):
                for a, b in subs:
                    x = re.sub(a, b, x)
                return x
            tfun = [(ren(n), [ren(st) for st in sts]) for n, sts in split_functions(open(tp).read(), tf)]
            for n in only:
                if n not in dict(tfun):
                    tfun.append((n, []))        # a twin function that disappeared: empty body, the obligation fails
            for n, sts in tfun:
                if n not in only:
                    continue
                idn = ident(tf, n) + "_twin"
                data += lean_list(idn, sts)
                obl += ["/-- `%s` of %s is `%s` of %s up to the counting primitive -/" % (n, tf, n, df),
                        "theorem %s_text : Cur.%s = Cur.%s := rfl" % (idn, idn, ident(df, n)), ""]
                twin_names.append((idn, ident(df, n)))
                if sts != dfun[n]:
                    info["changed_functions"].append("%s: %s differs from %s" % (tf, n, df))
        data += ["end Pc.SrcMirror.%s.Cur" % group, ""]
        obl += ["/-- every mirrored function of this group still has the recorded text -/",
                "def AllText : Prop :=", "  " + " ∧\n  ".join(["Cur.%s = Rec.%s" % (n, n) for n in names] +
                                                               ["Cur.%s = Cur.%s" % t for t in twin_names]), "",
                "theorem all_text : AllText :=", "  ⟨" + ",\n   ".join("%s_text" % n for n in names + [t[0] for t in twin_names]) + "⟩", "",
                "/-- number of mirrored functions in this group -/",
                "def count : Nat := %d" % len(names), "", "end Pc.SrcMirror.%s" % group, ""]
        ch1 = write_if_changed(os.path.join(outdir, "SrcMirror%sData.lean" % group), "\n".join(data))
        ch2 = write_if_changed(os.path.join(outdir, "SrcMirror%sObl.lean" % group), "\n".join(obl))
        info["groups"][group] = len(names) + len(twin_names)
        info["obligations"] += len(names) + len(twin_names)
        info["changed"] = info["changed"] or bool(ch1 or ch2)
    info["source_hash"] = hashlib.sha256(json.dumps(cur, sort_keys=True).encode()).hexdigest()[:16]
    return info


def record(repo):
    cur = read_all(repo)
    json.dump(cur, open(EXPECTED, "w"), indent=0, sort_keys=True)
    n = sum(len(v) for g in cur.values() for v in g.values())
    print("recorded %d functions of %d files" % (n, sum(len(g) for g in cur.values())))


if __name__ == "__main__":
    repo = os.environ.get("PCV_REPO", "/repo")
    if "--record" in sys.argv:
        record(repo)
    elif "--list" in sys.argv:
        for g, files in read_all(repo).items():
            for f, funcs in files.items():
                print(g, f, [(n, len(st)) for n, st in funcs])
    else:
        def wic(p, t):
            os.makedirs(os.path.dirname(p), exist_ok=True)
            if os.path.exists(p) and open(p).read() == t:
                return False
            open(p, "w").write(t)
            return True
        print(json.dumps(extract(repo, os.path.join(HERE, "..", "lean", "PcGen"), wic), indent=1))
