"""Command-line glue of src/app: the option table, the two switches and the text of the functions mirrored by
lean/PcModel/Cli.lean.

    /repo/src/app/CmdOptions.cpp, CmdOptions.hpp, main.cpp, help.cpp
        -> lean/PcGen/CliOptData.lean   (what the code says NOW: every key of `optionMap` with its OptionID and IsParam kind,
                                         `enum OptionID` / `enum IsParam`, the `case` lists of the switch in parseOptions and of
                                         the switch in main, the remaining statements of the mirrored functions)
        -> lean/PcGen/CliOptObl.lean    (obligations: these equal `Pc.Cli.modelledOptTable`, `modelledOptionIds`,
                                         `modelledParseSwitch`, `modelledMainSwitch` and the recorded skeleton texts
                                         translator/cli_expected.json, refreshed with `python3 translator/extract_cli.py --record`)

Uses the statement splitter of extract_srcmirror.py. Never guesses: a table row, a `case` or an enumerator that does not
have the recognised shape raises."""
import json
import os
import re
import sys

HERE = os.path.dirname(os.path.abspath(__file__))
if HERE not in sys.path:
    sys.path.insert(0, HERE)
import extract_srcmirror as sm  # noqa: E402

EXPECTED = os.path.join(HERE, "cli_expected.json")

ROW = re.compile(r'^"(-[^"]+)" , std :: make_pair \( (OPTION_\w+) , (NO_PARAM|REQUIRED_PARAM|OPTIONAL_PARAM) \) \}$')
CASE = re.compile(r"^case (OPTION_\w+) : (.*)$")
# functions whose remaining text (after the table rows / case lines were taken out as data) is pinned
SKELETONS = [("src/app/CmdOptions.cpp", "parseOptions"), ("src/app/CmdOptions.cpp", "CmdOptions::setMainOption"),
             ("src/app/CmdOptions.cpp", "CmdOptions::optionStatus"), ("src/app/CmdOptions.hpp", "Option::to"),
             ("src/app/main.cpp", "main"), ("src/app/help.cpp", "help"), ("src/app/help.cpp", "version")]


def enum_body(src, name):
    m = re.search(r"enum\s+%s\s*\{(.*?)\}\s*;" % name, sm.strip_comments(src), re.S)
    if not m:
        raise ValueError("enum %s not found" % name)
    items = [t.strip() for t in m.group(1).split(",") if t.strip()]
    for t in items:
        if not re.fullmatch(r"[A-Z][A-Z0-9_]*", t):
            raise ValueError("enum %s: enumerator with an initialiser or unknown shape: %r" % (name, t))
    return items


def read(repo):
    funcs = {}
    for f in sorted({f for f, _ in SKELETONS}):
        p = os.path.join(repo, f)
        if not os.path.exists(p):
            raise ValueError("%s does not exist" % f)
        funcs[f] = dict(sm.split_functions(open(p).read(), f))
    for f, n in SKELETONS:
        if n not in funcs[f]:
            raise ValueError("%s: function %s not found" % (f, n))
    ids = enum_body(open(os.path.join(repo, "src/app/CmdOptions.hpp")).read(), "OptionID")
    kinds = enum_body(open(os.path.join(repo, "src/app/CmdOptions.cpp")).read(), "IsParam")

    # ---- parseOptions: table rows and switch cases
    po = funcs["src/app/CmdOptions.cpp"]["parseOptions"]
    table, pswitch, skel_po = [], [], []
    in_table = in_switch = False
    i = 0
    while i < len(po):
        s = po[i]
        if re.match(r"^const std :: map < std :: string , std :: pair < OptionID , IsParam > > optionMap = \{$", s):
            in_table = True
            skel_po.append(s)
        elif in_table:
            if s in ("{", ", {"):
                pass
            elif s == "}":
                in_table = False
                skel_po.append("<%d rows> }" % len(table))
            else:
                m = ROW.match(s)
                if not m:
                    raise ValueError("optionMap: unrecognised row %r" % s)
                table.append(m.groups())
        elif s == "switch ( optionID ) {":
            in_switch = True
            skel_po.append(s)
        elif in_switch:
            m = CASE.match(s)
            if m:
                if i + 1 >= len(po) or po[i + 1] != "break ;":
                    raise ValueError("parseOptions switch: case %s does not end with `break;` (fall-through)" % m.group(1))
                pswitch.append((m.group(1), m.group(2)))
                i += 1
            elif s.startswith("default : "):
                pswitch.append(("default", s[len("default : "):]))
            elif s == "}":
                in_switch = False
                skel_po.append("<%d cases> }" % len(pswitch))
            else:
                raise ValueError("parseOptions switch: unrecognised statement %r" % s)
        else:
            skel_po.append(s)
        i += 1
    if in_table or in_switch or not table or not pswitch:
        raise ValueError("parseOptions: optionMap / switch not recognised")
    src_keys = re.findall(r'\{\s*"(-[^"]+)"\s*,\s*std::make_pair', open(os.path.join(repo, "src/app/CmdOptions.cpp")).read())
    if src_keys != [r[0] for r in table]:
        raise ValueError("optionMap: rows found by the tokeniser differ from the rows in the text")

    # ---- main: switch cases
    mn = funcs["src/app/main.cpp"]["main"]
    mswitch, skel_mn, guarded = [], [], []
    in_switch, guard = False, None
    i = 0
    while i < len(mn):
        s = mn[i]
        if s == "switch ( opts . option ) {":
            in_switch = True
            skel_mn.append(s)
        elif in_switch:
            m = CASE.match(s)
            if m:
                mm = re.fullmatch(r"res = (.*) ;", m.group(2))
                if not mm or i + 1 >= len(mn) or mn[i + 1] != "break ;":
                    raise ValueError("main switch: case %s is not `res = <call>; break;`" % m.group(1))
                mswitch.append((m.group(1), mm.group(1)))
                if guard:
                    guarded.append((m.group(1), guard))
                i += 1
            elif s.startswith("#ifdef ") or s.startswith("#if "):
                guard = s
            elif s.startswith("#endif"):
                guard = None
            elif s.startswith("default"):
                raise ValueError("main switch: a default label appeared (the model has none)")
            elif s == "}":
                in_switch = False
                skel_mn.append("<%d cases> }" % len(mswitch))
            else:
                raise ValueError("main switch: unrecognised statement %r" % s)
        else:
            skel_mn.append(s)
        i += 1
    if in_switch or not mswitch:
        raise ValueError("main: switch not recognised")

    skel = {}
    for f, n in SKELETONS:
        skel["%s:%s" % (f, n)] = skel_po if n == "parseOptions" else (skel_mn if n == "main" else funcs[f][n])
    return dict(ids=ids, kinds=kinds, table=table, pswitch=pswitch, mswitch=mswitch, guarded=guarded, skeleton=skel)


def esc(s):
    return s.replace("\\", "\\\\").replace("\"", "\\\"")


def extract(repo, outdir, write_if_changed):
    cur = read(repo)
    if not os.path.exists(EXPECTED):
        raise ValueError("translator/cli_expected.json missing (run extract_cli.py --record on the tree the model mirrors)")
    exp = json.load(open(EXPECTED))
    L = ["/- GENERATED by translator/extract_cli.py from src/app/CmdOptions.cpp, CmdOptions.hpp, main.cpp, help.cpp — do not edit. -/",
         "namespace Pc.Gen", "",
         "/-- `enum OptionID` (CmdOptions.hpp), in declaration order -/",
         "def cliOptionIds : List String := [" + ", ".join('"%s"' % t for t in cur["ids"]) + "]", "",
         "/-- `enum IsParam` (CmdOptions.cpp) -/",
         "def cliIsParamKinds : List String := [" + ", ".join('"%s"' % t for t in cur["kinds"]) + "]", "",
         "/-- every entry of `optionMap` in `parseOptions`: (key, OptionID, IsParam), in source order -/",
         "def cliOptTable : List (String × String × String) := [",
         ",\n".join('  ("%s", "%s", "%s")' % r for r in cur["table"]) + "]", "",
         "/-- the `switch (optionID)` of `parseOptions`: (case label, statement); every case ends with `break` -/",
         "def cliParseSwitch : List (String × String) := [",
         ",\n".join('  ("%s", "%s")' % (a, esc(b)) for a, b in cur["pswitch"]) + "]", "",
         "/-- the `switch (opts.option)` of `main`: (case label, right-hand side of `res = …`); no `default` label -/",
         "def cliMainSwitch : List (String × String) := [",
         ",\n".join('  ("%s", "%s")' % (a, esc(b)) for a, b in cur["mswitch"]) + "]", "",
         "/-- cases of main's switch inside a preprocessor conditional: (case label, directive) -/",
         "def cliMainGuarded : List (String × String) := [" +
         ", ".join('("%s", "%s")' % (a, esc(b)) for a, b in cur["guarded"]) + "]", ""]
    O = ["/- GENERATED by translator/extract_cli.py — obligations tying PcModel/Cli.lean to PcGen/CliOptData.lean, and the",
         "   recorded text (translator/cli_expected.json) of the functions the model mirrors. Do not edit. -/",
         "import PcGen.CliOptData", "import PcModel.Cli", "namespace Pc.Gen", "",
         "/-- the model's option table IS the `optionMap` of the source: every key, its id and its parameter kind -/",
         "theorem cliOptTable_eq_modelled : cliOptTable = Pc.Cli.modelledOptTable := by decide", "",
         "/-- `enum OptionID` is the model's `OptId` -/",
         "theorem cliOptionIds_eq_modelled : cliOptionIds = Pc.Cli.modelledOptionIds := by decide", "",
         "theorem cliIsParamKinds_eq_modelled : cliIsParamKinds = [Pc.Cli.IsParam.noParam.cname, Pc.Cli.IsParam.required.cname, "
         "Pc.Cli.IsParam.optional.cname] := by decide", "",
         "/-- the switch of `parseOptions` has exactly the modelled cases (everything else is a main option) -/",
         "theorem cliParseSwitch_eq_modelled : cliParseSwitch = Pc.Cli.modelledParseSwitch := by decide", "",
         "/-- main's switch: every case calls the modelled function on the modelled (narrowed) arguments -/",
         "theorem cliMainSwitch_eq_modelled : cliMainSwitch = Pc.Cli.modelledMainSwitch := by decide", "",
         "/-- only the two `_128` cases are conditional (HAVE_INT128_T, an assumption of the whole family) -/",
         "theorem cliMainGuarded_eq : cliMainGuarded = [(\"OPTION_DELEGLISE_RIVAT_128\", \"#ifdef HAVE_INT128_T\"), "
         "(\"OPTION_GOURDON_128\", \"#ifdef HAVE_INT128_T\")] := by decide", ""]
    changed = []
    names = []
    for key in ["%s:%s" % fn for fn in SKELETONS]:
        idn = "cli_" + re.sub(r"[^A-Za-z0-9]+", "_", key.split(":", 1)[1]).strip("_")
        c, e = cur["skeleton"][key], exp.get(key)
        L += ["/-- `%s` (table rows and `case` lines replaced by a count) -/" % key] + sm.lean_list("Cur." + idn, c)
        if e is None:
            e = []
        O += sm.lean_list("Rec." + idn, e)
        O += ["/-- `%s` still has the text PcModel/Cli.lean was written against -/" % key,
              "theorem %s_text : Cur.%s = Rec.%s := rfl" % (idn, idn, idn), ""]
        names.append(idn)
        if c != e:
            changed.append(key)
    L += ["end Pc.Gen", ""]
    O += ["end Pc.Gen", ""]
    w1 = write_if_changed(os.path.join(outdir, "CliOptData.lean"), "\n".join(L))
    w2 = write_if_changed(os.path.join(outdir, "CliOptObl.lean"), "\n".join(O))
    return {"keys": len(cur["table"]), "option_ids": len(cur["ids"]), "parse_cases": len(cur["pswitch"]),
            "main_cases": len(cur["mswitch"]), "skeletons": len(names), "changed_functions": changed,
            "obligations": 6 + len(names), "rewritten": [w1, w2]}


if __name__ == "__main__":
    repo = os.environ.get("PCV_REPO", "/repo")
    if "--record" in sys.argv:
        cur = read(repo)
        json.dump(cur["skeleton"], open(EXPECTED, "w"), indent=0, sort_keys=True)
        print("recorded %d function texts" % len(cur["skeleton"]))
    else:
        def w(path, text):
            if os.path.exists(path) and open(path).read() == text:
                return False
            open(path, "w").write(text)
            return True
        print(extract(repo, os.path.join(os.path.dirname(HERE), "lean", "PcGen"), w))
