"""Extractor for the constants of the bundled primesieve that the iterator-layer model PcModel/Iter.lean (namespace
`Pc.It`, property C18) contains as HAND-COPIED literals.

Reads the RAW source text (comments stripped) of

  lib/primesieve/src/PrimeGenerator.cpp           `smallPrimes` (Array<uint64_t, N>), `primePi` (Array<uint8_t, M>),
                                                  `maxCachedPrime() { return smallPrimes.back(); }`
  lib/primesieve/src/IteratorHelper.cpp           the integer literals of `getNextDist` / `getPrevDist`
                                                  (`1ull << 60`, `dist *= 4`, `maxCachedPrime() * 4`, `/ sizeof(uint64_t)`,
                                                  and the float literals `10.0`, `* 2` as documentation of `Floats`)
  lib/primesieve/include/primesieve/config.hpp    `MIN_CACHE_ITERATOR`, `MAX_CACHE_ITERATOR` (evaluated `a << b`)
  lib/primesieve/src/nthPrime.cpp                 `max_n`
  lib/primesieve/include/primesieve/StorePrimes.hpp   `maxPrime64bits`
  lib/primesieve/src/PrimeSieve.cpp               `smallPrimes` (Array<SmallPrime, 8> of {first, last, index, str})

and produces

  lean/PcGen/PsIterData.lean   data only (core Lean, namespace Pc.Gen): psiSmallPrimes, psiPrimePi, psi* constants
  lean/PcGen/PsIterObl.lean    `decide` / `rfl` obligations: the literals of PcModel/Iter.lean ARE the extracted ones, the
                               tables are the primes < 720 by trial division / their counting function
                               (PcModel/PsWheelSpec.lean `expectedSmallPrimes`, `expectedPrimePi`)

The bodies of `getNextDist` / `getPrevDist` are matched as a whole (whitespace-normalised) with the integer literals as
the only free positions, so any other change of these two functions raises Shape. The TEXT of the remaining functions the
model mirrors (updateNext / updatePrev, iterator::generate_next_primes / generate_prev_primes, next_prime / prev_prime,
maxCachedPrime, getStartIdx / getStopIdx, nthPrime, processSmallPrimes, store_primes, ...) is already pinned statement by
statement by translator/extract_srcmirror.py (group `PsIter`, obligations PcGen/SrcMirrorPsIterObl.lean, property file
PcProps/C18Src.lean) and is deliberately NOT hashed a second time here.

The extractor never guesses: anything unexpected raises Shape (-> `extractor_shape_changed`).
"""
import os
import re


class Shape(Exception):
    pass


def strip_comments(src):
    src = re.sub(r"/\*.*?\*/", " ", src, flags=re.S)
    src = re.sub(r"//[^\n]*", "", src)
    return src


def norm(s):
    return re.sub(r"\s+", " ", s.replace("\\\n", " ")).strip()


def match_brace(src, i):
    if src[i] != "{":
        raise Shape("expected '{' at %d" % i)
    depth = 0
    for j in range(i, len(src)):
        if src[j] == "{":
            depth += 1
        elif src[j] == "}":
            depth -= 1
            if depth == 0:
                return j + 1
    raise Shape("unbalanced braces")


def function_body(src, header_re):
    ms = list(re.finditer(header_re, src))
    if len(ms) != 1:
        raise Shape("function header found %d times: %s" % (len(ms), header_re))
    m = ms[0]
    i = src.index("{", m.end() - 1)
    return src[i:match_brace(src, i)]


def read(repo, rel):
    path = os.path.join(repo, "lib", "primesieve", rel)
    if not os.path.exists(path):
        raise Shape("missing source file lib/primesieve/" + rel)
    return strip_comments(open(path).read())


def one(pat, src, what, flags=0):
    ms = list(re.finditer(pat, src, flags))
    if len(ms) != 1:
        raise Shape("%s: found %d times (expected exactly once)" % (what, len(ms)))
    return ms[0]


def dec_list(txt, what):
    items = [x.strip() for x in txt.split(",")]
    out = []
    for it in items:
        if not re.fullmatch(r"\d+", it):
            raise Shape("%s: entry %r is not a decimal literal" % (what, it))
        out.append(int(it))
    return out


def rx(template):
    """whitespace-normalised C++ text with `@` at the positions of decimal integer literals -> regex for fullmatch"""
    return r"(\d+)".join(re.escape(part) for part in norm(template).split("@"))


# ------------------------------------------------------------------------------------------- PrimeGenerator.cpp

def parse_primegen(repo):
    src = read(repo, "src/PrimeGenerator.cpp")
    m = one(r"const primesieve::Array<uint64_t, (\d+)> smallPrimes =\s*\{(.*?)\};", src, "PrimeGenerator.cpp smallPrimes", re.S)
    sp_n, sp = int(m.group(1)), dec_list(m.group(2), "smallPrimes")
    m = one(r"const primesieve::Array<uint8_t, (\d+)> primePi =\s*\{(.*?)\};", src, "PrimeGenerator.cpp primePi", re.S)
    pp_n, pp = int(m.group(1)), dec_list(m.group(2), "primePi")
    if len(sp) != sp_n:
        raise Shape("smallPrimes: declared size %d, %d initialisers (the rest would be zero-initialised)" % (sp_n, len(sp)))
    if len(pp) != pp_n:
        raise Shape("primePi: declared size %d, %d initialisers (the rest would be zero-initialised)" % (pp_n, len(pp)))
    if any(v > 255 for v in pp):
        raise Shape("primePi: entry does not fit uint8_t")
    # the one-line accessor that makes `maxCached` the LAST table entry (its text is also pinned by extract_srcmirror)
    b = function_body(src, r"uint64_t PrimeGenerator::maxCachedPrime\(\)\s*\{")
    if norm(b) != "{ return smallPrimes.back(); }":
        raise Shape("PrimeGenerator::maxCachedPrime changed: " + norm(b))
    return sp_n, sp, pp_n, pp


# ------------------------------------------------------------------------------------------- IteratorHelper.cpp / config.hpp

NEXT_DIST = rx("""{ uint64_t minDist = (uint64_t) std::sqrt(start); uint64_t maxDist = @ull << @;
  dist *= @; minDist = std::max(minDist, PrimeGenerator::maxCachedPrime()); return inBetween(minDist, dist, maxDist); }""")

PREV_DIST = rx("""{ double x = std::max(@.@, (double) stop); uint64_t logx = (uint64_t) std::log(x);
  uint64_t minDist = (config::MIN_CACHE_ITERATOR / sizeof(uint64_t)) * logx;
  uint64_t maxDist = (config::MAX_CACHE_ITERATOR / sizeof(uint64_t)) * logx;
  uint64_t tinyDist = PrimeGenerator::maxCachedPrime() * @; uint64_t defaultDist = (uint64_t) (std::sqrt(stop) * @);
  dist *= @; minDist = inBetween(tinyDist, dist, minDist); return inBetween(minDist, defaultDist, maxDist); }""")


def parse_helper(repo):
    src = read(repo, "src/IteratorHelper.cpp")
    b = norm(function_body(src, r"uint64_t getNextDist\(uint64_t start, uint64_t dist\)\s*\{"))
    m = re.fullmatch(NEXT_DIST, b)
    if not m:
        raise Shape("IteratorHelper.cpp getNextDist changed: " + b)
    base, shift, next_mul = (int(x) for x in m.groups())
    if shift >= 64 or (base << shift) >= 2 ** 64:
        raise Shape("getNextDist: %dull << %d does not fit uint64_t" % (base, shift))
    b = norm(function_body(src, r"uint64_t getPrevDist\(uint64_t stop, uint64_t dist\)\s*\{"))
    m = re.fullmatch(PREV_DIST, b)
    if not m:
        raise Shape("IteratorHelper.cpp getPrevDist changed: " + b)
    x_int, x_frac, tiny_mul, sqrt_mul, prev_mul = m.groups()
    if int(x_frac) != 0:
        raise Shape("getPrevDist: std::max(%s.%s, ...) is not an integral float literal" % (x_int, x_frac))
    cfg = read(repo, "include/primesieve/config.hpp")
    consts = {}
    for name in ("MIN_CACHE_ITERATOR", "MAX_CACHE_ITERATOR"):
        cm = one(r"constexpr uint64_t " + name + r" = (\d+) << (\d+);", cfg, "config::" + name)
        a, s = int(cm.group(1)), int(cm.group(2))
        # `a << s` is an `int` expression in C++: it must not overflow int before the conversion to uint64_t
        if s >= 31 or (a << s) >= 2 ** 31:
            raise Shape("config::%s = %d << %d overflows int" % (name, a, s))
        consts[name] = (a, s)
    return dict(next_max=(base, shift), next_mul=next_mul, log_floor=int(x_int), tiny_mul=int(tiny_mul),
                sqrt_mul=int(sqrt_mul), prev_mul=int(prev_mul), cfg=consts)


# ------------------------------------------------------------------------------------------- nthPrime.cpp / StorePrimes.hpp

def parse_limits(repo):
    src = read(repo, "src/nthPrime.cpp")
    m = one(r"const uint64_t max_n = (\d+)ull;", src, "nthPrime.cpp max_n")
    max_n = int(m.group(1))
    hpp = read(repo, "include/primesieve/StorePrimes.hpp")
    m = one(r"uint64_t maxPrime64bits = (\d+)ull;", hpp, "StorePrimes.hpp maxPrime64bits")
    max_p = int(m.group(1))
    if max_n >= 2 ** 64 or max_p >= 2 ** 64:
        raise Shape("max_n / maxPrime64bits does not fit uint64_t")
    return max_n, max_p


# ------------------------------------------------------------------------------------------- PrimeSieve.cpp

def parse_tuplets(repo):
    src = read(repo, "src/PrimeSieve.cpp")
    one(r"struct SmallPrime\s*\{\s*uint64_t first;\s*uint64_t last;\s*int index;\s*const char\* str;\s*\};", src,
        "PrimeSieve.cpp struct SmallPrime {first; last; index; str}")
    m = one(r"const primesieve::Array<SmallPrime, (\d+)> smallPrimes\s*\{\{(.*?)\}\};", src, "PrimeSieve.cpp smallPrimes", re.S)
    n, txt = int(m.group(1)), m.group(2)
    ent_re = r"\{\s*(\d+)\s*,\s*(\d+)\s*,\s*(\d+)\s*,\s*\"([^\"{}]*)\"\s*\}"
    ents = re.findall(ent_re, txt)
    if re.sub(ent_re + r"|[,\s]", "", txt):
        raise Shape("PrimeSieve.cpp smallPrimes: unexpected text")
    if len(ents) != n:
        raise Shape("PrimeSieve.cpp smallPrimes: declared size %d, %d initialisers" % (n, len(ents)))
    return [(int(a), int(b), int(c)) for a, b, c, _ in ents], [s for _, _, _, s in ents]


# ------------------------------------------------------------------------------------------- output

def lean_list(xs, per, indent="  "):
    rows = [", ".join(xs[i:i + per]) for i in range(0, len(xs), per)]
    return "[\n" + ",\n".join(indent + r for r in rows) + "]"


OBL = '''/-
GENERATED by translator/extract_psiter.py — do not edit.
Obligations (kernel `decide` / `rfl`): the literals hand-copied into the iterator-layer model PcModel/Iter.lean
(namespace `Pc.It`) ARE the ones lib/primesieve contains now (PcGen/PsIterData.lean), and the two tables of
PrimeGenerator.cpp are the primes below 720 by trial division and their counting function (PcModel/PsWheelSpec.lean).
-/
import PcModel.Iter
import PcModel.PsWheelSpec
import PcGen.PsIterData

namespace Pc.Gen
open Pc.PsWheelSpec

/-- the model's copy of `smallPrimes` (PrimeGenerator.cpp) is the table in the source -/
theorem psi_smallPrimes_model : Pc.It.smallPrimes = psiSmallPrimes := by decide +kernel

/-- `smallPrimes` = the primes below 720 by trial division, increasing (128 of them) -/
theorem psiSmallPrimes_ok : psiSmallPrimes = expectedSmallPrimes := by decide +kernel

/-- `primePi[n]` = number of primes `<= n` for every index of the table -/
theorem psiPrimePi_ok : psiPrimePi = expectedPrimePi := by decide +kernel

/-- declared `Array` sizes = numbers of initialisers (nothing zero-filled); `primePi` is indexed by `0 … maxCachedPrime()` -/
theorem psi_sizes_ok : psiSmallPrimes.length = psiSmallPrimesSize ∧ psiPrimePi.length = psiPrimePiSize ∧
    psiPrimePiSize = psiSmallPrimes.getLastD 0 + 1 := by decide +kernel

-- NOTE the model DEFINES `Pc.It.primePi n` as `(Pc.It.smallPrimes.filter (· ≤ n)).length` while the source has the table
-- `primePi`. With the three obligations above their agreement on ALL 720 indices is a THEOREM (no 720 x 128 kernel
-- evaluation, which costs ~25 s CPU): `Pc.ItTables.primePi_eq_table` in PcProofs/IterTables.lean, stated in
-- PcProps/C18Tables.lean (`prime_pi_table`).

/-- `maxCachedPrime() = smallPrimes.back()` -/
theorem psi_maxCached_model : Pc.It.maxCached = psiSmallPrimes.getLastD 0 := by decide +kernel

/-- `getNextDist`: `maxDist = 1ull << 60`, `dist *= 4` -/
theorem psi_nextDist_consts : (2 ^ 60 : Nat) = psiNextMaxDist ∧ (4 : Nat) = psiNextDistMul := by decide +kernel

/-- `getNextDist` of the model IS the function of the source with the extracted literals -/
theorem psi_getNextDist_model (f : Pc.It.Floats) (start dist : Nat) :
    Pc.It.getNextDist f start dist =
      Pc.It.inBetween (max (f.sqrtN start) (psiSmallPrimes.getLastD 0)) ((dist * psiNextDistMul) % 2 ^ 64) psiNextMaxDist := by
  have h1 := psi_maxCached_model
  have h2 := psi_nextDist_consts
  unfold Pc.It.getNextDist Pc.It.two64
  rw [← h1, ← h2.1, ← h2.2]

/-- `getPrevDist`: `MIN_CACHE_ITERATOR / sizeof(uint64_t)`, `MAX_CACHE_ITERATOR / sizeof(uint64_t)`, `maxCachedPrime() * 4`,
    `dist *= 4` -/
theorem psi_prevDist_consts : (524288 : Nat) = psiMinCacheIterator / psiSizeofUint64 ∧
    (134217728 : Nat) = psiMaxCacheIterator / psiSizeofUint64 ∧ (4 : Nat) = psiPrevTinyMul ∧ (4 : Nat) = psiPrevDistMul := by
  decide +kernel

/-- `getPrevDist` of the model IS the function of the source with the extracted literals -/
theorem psi_getPrevDist_model (f : Pc.It.Floats) (stop dist : Nat) :
    Pc.It.getPrevDist f stop dist =
      (let logx := f.logP stop
       let minDist := ((psiMinCacheIterator / psiSizeofUint64) * logx) % 2 ^ 64
       let maxDist := ((psiMaxCacheIterator / psiSizeofUint64) * logx) % 2 ^ 64
       let tinyDist := psiSmallPrimes.getLastD 0 * psiPrevTinyMul
       let minDist := Pc.It.inBetween tinyDist ((dist * psiPrevDistMul) % 2 ^ 64) minDist
       Pc.It.inBetween minDist (f.sqrt2 stop) maxDist) := by
  have h1 := psi_maxCached_model
  have h2 := psi_prevDist_consts
  unfold Pc.It.getPrevDist Pc.It.two64
  rw [← h1, ← h2.1, ← h2.2.1, ← h2.2.2.1, ← h2.2.2.2]

/-- the float literals of `getPrevDist` that `Pc.It.Floats.logP` / `sqrt2` are documented with (and IterExec.lean computes
    with): `std::log(std::max(10.0, stop))`, `std::sqrt(stop) * 2` -/
theorem psi_prevDist_floatLits : psiPrevLogFloor = 10 ∧ psiPrevSqrtMul = 2 := by decide +kernel

/-- no wrap-around in the products with constants: `tinyDist` and the `1ull << 60` cap fit `uint64_t` -/
theorem psi_consts_fit : psiSmallPrimes.getLastD 0 * psiPrevTinyMul < 2 ^ 64 ∧ psiNextMaxDist < 2 ^ 64 := by decide +kernel

/-- nthPrime.cpp `max_n` -/
theorem psi_maxN_model : Pc.It.maxN = psiMaxN := by decide +kernel

/-- StorePrimes.hpp `maxPrime64bits` -/
theorem psi_maxPrime64_model : Pc.It.maxPrime64 = psiMaxPrime64 := by decide +kernel

/-- PrimeSieve.cpp `smallPrimes` as `(first, last, index)` -/
theorem psi_smallTuplets_model : Pc.It.smallTuplets = psiSmallTuplets := by decide +kernel

end Pc.Gen
'''

N_OBL = len(re.findall(r"^theorem ", OBL, flags=re.M))


def extract(repo, outdir, write_if_changed):
    sp_n, sp, pp_n, pp = parse_primegen(repo)
    h = parse_helper(repo)
    max_n, max_p = parse_limits(repo)
    tup, strs = parse_tuplets(repo)

    d = []
    d.append("/-\nGENERATED by translator/extract_psiter.py from lib/primesieve — do not edit.\n"
             "Data only (core Lean): the constants of the iterator / API layer that PcModel/Iter.lean copies by hand.\n"
             "Obligations: PcGen/PsIterObl.lean.\n-/\n")
    d.append("namespace Pc.Gen\n")
    d.append("/-- `smallPrimes` (src/PrimeGenerator.cpp) -/")
    d.append("def psiSmallPrimes : List Nat := " + lean_list([str(x) for x in sp], per=10) + "\n")
    d.append("/-- the `N` of `Array<uint64_t, N> smallPrimes` -/")
    d.append("def psiSmallPrimesSize : Nat := %d\n" % sp_n)
    d.append("/-- `primePi` (src/PrimeGenerator.cpp) -/")
    d.append("def psiPrimePi : List Nat := " + lean_list([str(x) for x in pp], per=15) + "\n")
    d.append("/-- the `N` of `Array<uint8_t, N> primePi` -/")
    d.append("def psiPrimePiSize : Nat := %d\n" % pp_n)
    d.append("/-- `getNextDist`: `uint64_t maxDist = %dull << %d;` (src/IteratorHelper.cpp) -/" % h["next_max"])
    d.append("def psiNextMaxDist : Nat := %d" % (h["next_max"][0] << h["next_max"][1]))
    d.append("/-- `getNextDist`: `dist *= %d;` -/" % h["next_mul"])
    d.append("def psiNextDistMul : Nat := %d" % h["next_mul"])
    d.append("/-- `getPrevDist`: `tinyDist = PrimeGenerator::maxCachedPrime() * %d` -/" % h["tiny_mul"])
    d.append("def psiPrevTinyMul : Nat := %d" % h["tiny_mul"])
    d.append("/-- `getPrevDist`: `dist *= %d;` -/" % h["prev_mul"])
    d.append("def psiPrevDistMul : Nat := %d" % h["prev_mul"])
    d.append("/-- `getPrevDist`: `std::max(%d.0, (double) stop)` -/" % h["log_floor"])
    d.append("def psiPrevLogFloor : Nat := %d" % h["log_floor"])
    d.append("/-- `getPrevDist`: `(uint64_t) (std::sqrt(stop) * %d)` -/" % h["sqrt_mul"])
    d.append("def psiPrevSqrtMul : Nat := %d" % h["sqrt_mul"])
    d.append("/-- the divisor of `config::M??_CACHE_ITERATOR / sizeof(uint64_t)` in `getPrevDist`: the source says\n"
             "    `sizeof(uint64_t)`, which is 8 wherever `uint64_t` exists with `CHAR_BIT == 8` (not a literal of the source) -/")
    d.append("def psiSizeofUint64 : Nat := 8")
    for name in ("MIN_CACHE_ITERATOR", "MAX_CACHE_ITERATOR"):
        a, s = h["cfg"][name]
        d.append("/-- `constexpr uint64_t %s = %d << %d;` (include/primesieve/config.hpp) -/" % (name, a, s))
        d.append("def psi%s : Nat := %d" % ("".join(w.title() for w in name.split("_")), a << s))
    d.append("")
    d.append("/-- `max_n` (src/nthPrime.cpp) -/")
    d.append("def psiMaxN : Nat := %d" % max_n)
    d.append("/-- `maxPrime64bits` (include/primesieve/StorePrimes.hpp) -/")
    d.append("def psiMaxPrime64 : Nat := %d\n" % max_p)
    d.append("/-- `smallPrimes` of src/PrimeSieve.cpp as `(first, last, index)`; the `str` fields are " +
             ", ".join('"%s"' % s for s in strs) + " -/")
    d.append("def psiSmallTuplets : List (Nat × Nat × Nat) := [" + ", ".join("(%d, %d, %d)" % t for t in tup) + "]")
    d.append("\nend Pc.Gen\n")
    ch1 = write_if_changed(os.path.join(outdir, "PsIterData.lean"), "\n".join(d))
    ch2 = write_if_changed(os.path.join(outdir, "PsIterObl.lean"), OBL)
    return {"source": "lib/primesieve/{src/PrimeGenerator.cpp, src/IteratorHelper.cpp, include/primesieve/config.hpp, "
                      "src/nthPrime.cpp, include/primesieve/StorePrimes.hpp, src/PrimeSieve.cpp}",
            "smallPrimes": len(sp), "primePi": len(pp), "smallTuplets": len(tup),
            "constants": {"nextMaxDist": "%d << %d" % h["next_max"], "nextDistMul": h["next_mul"], "prevTinyMul": h["tiny_mul"],
                          "prevDistMul": h["prev_mul"], "prevLogFloor": h["log_floor"], "prevSqrtMul": h["sqrt_mul"],
                          "MIN_CACHE_ITERATOR": "%d << %d" % h["cfg"]["MIN_CACHE_ITERATOR"],
                          "MAX_CACHE_ITERATOR": "%d << %d" % h["cfg"]["MAX_CACHE_ITERATOR"], "max_n": max_n,
                          "maxPrime64bits": max_p},
            "bodies_matched": ["getNextDist", "getPrevDist", "PrimeGenerator::maxCachedPrime"],
            "bodies_pinned_elsewhere": "extract_srcmirror group PsIter (updateNext, updatePrev, iterator::generate_next_primes, "
                                       "iterator::generate_prev_primes, next_prime, prev_prime, ...)",
            "changed": bool(ch1 or ch2), "obligations": N_OBL}


def count_obligations():
    return N_OBL


if __name__ == "__main__":
    import sys

    def w(path, text):
        os.makedirs(os.path.dirname(path), exist_ok=True)
        if os.path.exists(path) and open(path).read() == text:
            return False
        open(path, "w").write(text)
        return True
    print(extract(sys.argv[1], sys.argv[2], w))
