#!/bin/sh
# MANIFEST.hooks.baseline_off_cmd: build /repo WITHOUT the hook guard and run its own test suite.
set -e
cd "$(dirname "$0")"
python3 - <<'PY'
import sys, os, subprocess
sys.path.insert(0, os.getcwd())
from pcv import core
d = core.ensure_build("baseline_off")
rc = subprocess.call(["ctest", "--test-dir", d, "-j8", "--timeout", "900", "--output-junit", os.path.join(d, "junit.xml")])
sys.exit(rc)
PY
