#!/bin/sh
# usage: ./runall.sh [tier] [ids...]  — runs checks sequentially, one summary line each
tier=${1:-quick}; shift
ids=${@:-$(python3 -c "import json;print(' '.join(c['property_id'] for c in json.load(open('MANIFEST.json'))['checks']))")}
for id in $ids; do
  s=$(date +%s)
  out=$(timeout 7200 ./check $id --tier $tier 2>/dev/null | grep -E "^(OK|VIOLATION|KNOWN-FINDING)" | head -5 | tr '\n' ';')
  e=$(date +%s)
  echo "$id $((e-s))s $out"
done
