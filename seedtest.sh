#!/bin/bash
# usage: seedtest.sh <worktree> <id> <check ids...>      (SEED_VERIF=<clone of /verif to run the checks from>, default /verif)
# Confirms a seeded change (tests pass with it, demo fails with it and passes without it), then runs the given
# checks against the changed tree (PCV_REPO=<worktree>) and stores everything under /verif/seeded/<id>/.
wd=$1; id=$2; shift 2
out=/verif/seeded/$id; mkdir -p $out
cp $wd/_seed/patch.diff $out/patch.diff
for f in demo.cpp demo.sh README.md; do [ -f $wd/_seed/$f ] && cp $wd/_seed/$f $out/; done
log=$out/confirm.log; : > $log
build() { cmake -G Ninja -S $wd -B $wd/$1 -DCMAKE_BUILD_TYPE=RelWithDebInfo -DBUILD_TESTS=ON -DCMAKE_CXX_FLAGS=-Wno-error >/dev/null 2>&1 && cmake --build $wd/$1 -j16 >/dev/null 2>&1; }
rundemo() { # $1 = build dir
  if [ -f $wd/_seed/demo.cpp ]; then
    g++ -std=gnu++17 -O1 -fopenmp -I$wd/include -I$wd/lib/primesieve/include -I$wd/src $wd/_seed/demo.cpp $wd/$1/libprimecount.a $wd/$1/lib/primesieve/libprimesieve.a -o $wd/$1/demo_bin 2>>$log || { echo "demo compile failed" >>$log; return 99; }
    (cd $wd && timeout 300 $wd/$1/demo_bin $wd/$1/primecount) >>$log 2>&1; return $?
  else
    (cd $wd && BUILD=$wd/$1 timeout 300 bash $wd/_seed/demo.sh $wd/$1/primecount) >>$log 2>&1; return $?
  fi
}
git -C $wd apply --check -R $wd/_seed/patch.diff 2>/dev/null || { git -C $wd checkout -- . ; git -C $wd apply $wd/_seed/patch.diff; }
echo "== changed tree: build + ctest" >>$log
build _b || echo "BUILD FAILED" >>$log
ctest --test-dir $wd/_b -j8 --timeout 900 2>&1 | tail -3 >>$log
tests=$(grep -o "[0-9]*% tests passed, [0-9]* tests failed out of [0-9]*" $log | tail -1)
echo "== demo WITH change" >>$log; rundemo _b; with=$?
git -C $wd apply -R $wd/_seed/patch.diff
echo "== unchanged tree: build + demo" >>$log
build _b0; rundemo _b0; without=$?
git -C $wd apply $wd/_seed/patch.diff
rm -rf $wd/_b0
echo "tests: $tests | demo exit with change: $with | without: $without" | tee -a $log
res=""
for c in "$@"; do
  r=$(cd ${SEED_VERIF:-/verif} && PCV_REPO=$wd timeout 3600 ./check $c --tier quick 2>/dev/null | grep -E "^(OK|VIOLATION|KNOWN)" | head -3 | tr '\n' ';')
  echo "check $c: $r" | tee -a $log
  res="$res $c=[${r:0:160}]"
  mkdir -p $out/replays; cp ${SEED_VERIF:-/verif}/evidence/replay/$c-0.json $out/replays/ 2>/dev/null
done
python3 - "$out" "$id" "$tests" "$with" "$without" "$res" <<'PY'
import json, sys
out, id, tests, w, wo, res = sys.argv[1:7]
json.dump({"id": id, "property": id.split("-")[0], "tests_with_change": tests, "demo_exit_with_change": int(w),
           "demo_exit_without_change": int(wo), "checks_run_against_changed_tree": res.strip(),
           "needs_to_manifest": "see README.md", "how_run": "seedtest.sh: PCV_REPO=<worktree with patch> ./check <id> --tier quick"},
          open(out + "/meta.json", "w"), indent=1)
PY
# restore evidence of the unchanged tree is the caller's job (re-run the checks on /repo)
