#!/bin/sh
# MANIFEST.setup_cmd: build the framework from files on disk only (offline).
# 1. the Lean library + driver (cold: several minutes; Mathlib oleans are preinstalled)
# 2. /repo's working tree with the hook guard on (rel + san) and the correspondence harness
set -e
cd "$(dirname "$0")"
python3 - <<'PY'
import sys, os
sys.path.insert(0, os.getcwd())
from pcv import core, gendriver, translate
core.ensure_harness("rel")
translate.run_all()
gendriver.generate()
rc, log, secs = core.lake_build([], timeout=7200)
sys.stdout.write(log[-3000:])
print("lake build: rc=%d %.0fs" % (rc, secs))
if rc != 0:
    sys.exit(1)
core.ensure_harness("san")
PY
