#include <primecount.hpp>
#include <primecount-internal.hpp>
#include <cstdio>
#include <cmath>
int main() {
  using namespace primecount;
  set_alpha_y(1e16);                       // override far above x^(1/6): should be clamped (or rejected)
  auto a = get_alpha_gourdon((maxint_t) 1e20);
  std::printf("alpha_y after set_alpha_y(1e16)  = %.3f\n", a.first);
  set_alpha_y(9e15);
  a = get_alpha_gourdon((maxint_t) 1e20);
  std::printf("alpha_y after set_alpha_y(9e15)  = %.3f\n", a.first);
  set_alpha_y(NAN);
  a = get_alpha_gourdon((maxint_t) 1e20);
  std::printf("alpha_y after set_alpha_y(NAN)   = %.3f\n", a.first);
  set_alpha_y(-1);
  a = get_alpha_gourdon((maxint_t) 1e20);
  std::printf("alpha_y default                  = %.3f\n", a.first);
}
