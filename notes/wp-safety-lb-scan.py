#!/usr/bin/env python3
"""wp-safety: scan the REAL LoadBalancerS2 (harness op s2lb_peak) under a constant clock and let the Lean model
(pcdrv op lbs2_check = S2.ok incl. S2.noOvf, exact arithmetic) decide where the first int64 overflow happens.
Run from the verif root after any ./check (so that .cache/<hash>/{rel,san}/pcharness contain the op):
    python3 notes/wp-safety-lb-scan.py            # table: threads x policy x limit
Investigation aid only - not part of any ./check stream."""
import os, re, subprocess, sys
ROOT = os.path.dirname(os.path.dirname(os.path.abspath(__file__)))
sys.path.insert(0, ROOT)
from pcv import core
BDIR = os.path.join(core.CACHE, core.tree_hash())
REL, SAN, DRV = BDIR + "/rel/pcharness", BDIR + "/san/pcharness", core.pcdrv_path()

def harness(op, exe, timeout=300):
    p = subprocess.run(["timeout", str(timeout), exe], input=op + "\n", capture_output=True, text=True)
    return p.stdout.strip(), p.stderr.strip()

def model(line, timeout=300):
    p = subprocess.run(["timeout", str(timeout), DRV], input=line + "\n", capture_output=True, text=True)
    return p.stdout.strip()

def neg_index(evs):
    for i, e in enumerate(evs):
        f = e.split(':')
        if any(f[j].startswith('-') for j in (1, 2, 3, 8, 9, 10)):
            return i
    return len(evs)

def verdict(op, exe=REL):
    """(#events, index of the first event with a negative (wrapped) field, model verdict on the prefix before it)"""
    out, err = harness(op, exe)
    t = out.split()
    if not t or t[0] != "T":
        return None, None, out[:200] + " | " + err[-300:], []
    evs = t[5:]
    k = neg_index(evs)
    a = op.split()
    return len(evs), k, model("lbs2_check %s %s %s %s %s" % (a[1], a[2], a[4], a[5], " ".join(evs[:k]))), evs

def san_msg(op):
    out, err = harness(op, SAN)
    m = re.search(r"(\S+:\d+:\d+: runtime error: [^\n]*)", err)
    return m.group(1) if m else "no-ubsan-report (%s) - if the op is unknown, build the san harness: python3 -c 'from pcv import core; core.ensure_harness(\"san\")'" % out[:40]

if __name__ == "__main__":
    for thr, pr in [(1, 0), (1, 1), (2, 0), (8, 0), (64, 0), (1024, 0)]:
        for pol in [0, 1, 2, 3]:
            if thr == 1 and pol > 0:
                continue
            for e in range(63, 44, -1):
                lim = 2 ** 62 + 2 ** 33 if e == 63 else 2 ** e
                op = "s2lb_peak %d %d 12345 %d %d %d 400000 0 0" % (min(10 ** 31, lim * lim), lim, thr, pr, pol)
                n, k, m, evs = verdict(op)
                print("threads=%d print=%d policy=%d limit=%s events=%s first-wrapped=%s model: %s" % (
                    thr, pr, pol, "2^62+2^33" if e == 63 else "2^%d" % e, n, k, m[:60]), flush=True)
                if m.startswith("ok") and e < 52:
                    break
