/-
C16 — no undefined behaviour or violated internal precondition (claimed PARTIAL: safety is proved for the
modelled functions only; everything else is covered by the sanitizer/assertion run of the op streams, which is
validation, not proof).

This file collects the SAFETY halves of the L2 models (every intermediate stays inside its C++ type, every index
inside its buffer, invalid input yields an error value, never a trap) and ties the source's own declared
preconditions (its `ASSERT`s) to the model through a generated inventory.
-/
import PcProps.C07
import PcProps.C09
import PcProps.C12
import PcProps.C12Params
import PcProps.C13
import PcProps.C14
import PcGen.AssertData

namespace Pc.C16
open Pc.Calc Pc.LB

/-- isqrt: no operand of the correction loops leaves its integer type (all four widths, every estimate) -/
theorem isqrt_no_overflow (t : ITy) (ht : t = .i64 ∨ t = .u64 ∨ t = .i128 ∨ t = .u128) (x r : ℕ)
    (hr : r ≤ sqrtMax t) : isqrtIntermediatesOk t x r = true :=
  C12.isqrt_intermediates_safe t ht x r hr

/-- the expression evaluator never reaches an undefined operation: for EVERY byte string it returns a value
    or one of the documented errors (overflow, division by zero, syntax …), never the model-internal trap -/
theorem calculator_total (s : Bytes) :
    toMaxint s ≠ .error .internal ∧ calcTree s ≠ .error .internal := C13.model_total s

/-- `primecount_pi_str` writes only inside the caller's buffer -/
theorem c_buffer_in_bounds {ε : Type} (x? res? : Option (List Nat)) (len : Nat)
    (piStr : List Nat → Except ε (List Nat))
    (hbuf : ∀ buf, res? = some buf → buf.length = len) (hlen : len ≤ 2 ^ 31) :
    ∀ w ∈ (cPiStrW x? res? len piStr).2, w.1 < len :=
  (C14.cPiStr_bounds x? res? len piStr hbuf hlen).1

/-- `phi`: the thread-count computation cannot overflow for any 64-bit x (repaired `ideal_num_threads`) -/
theorem phi_threads_no_overflow (x a : ℕ) (threads : ℤ) (hx : (x : ℤ) < 2 ^ 63) :
    ∃ t, phiThreads x a threads = some t ∧ 1 ≤ t ∧ t ≤ max 1 threads := C07.phiThreads_safe x a threads hx

/-- S2 load balancer: one `get_work` step keeps every int64 intermediate below 2^63 under explicit size bounds
    (partial: the bounds are not yet derived as an invariant of whole histories) -/
theorem s2_step_no_overflow_partial (cfg : S2.Config) (s : S2.State) (e : S2.Ev)
    (hlow : s.low ≤ 2 ^ 62) (hthr : cfg.threads ≤ 64) (hsz : s.size ≤ 2 ^ 32)
    (hsz' : (S2.next cfg s e).size ≤ 2 ^ 32) (hsg : e.osegs ≤ 2 ^ 22) (hsg' : (S2.next cfg s e).segs ≤ 2 ^ 22)
    (hsum : s.sum.natAbs ≤ 2 ^ 126 - 1) (htsum : e.tsum.natAbs ≤ 2 ^ 126) :
    S2.noOvf cfg s e = true := C09.s2_no_overflow_partial cfg s e hlow hthr hsz hsz' hsg hsg' hsum htsum

/-- the tuning setters `set_alpha`, `set_alpha_y`, `set_alpha_z` are defined for EVERY double the API accepts (NaN, ±inf,
    1e300): the float → int64 cast of `truncate3` is never reached with a value outside int64 (repaired; the unrepaired
    code cast `alpha * 1000` for every `alpha ≥ 9.2233720368547758e15`, +inf and NaN — finding F6) -/
theorem tuning_setters_defined (ge1 : Bool) (k : ℤ) (henv : TruncClampEnv ge1 k) :
    ∃ r, setAlphaL2 ge1 k = .ok r := C12Params.set_alpha_total ge1 k henv

example : TruncClampEnv true (10 ^ 18) ∧ TruncClampEnv false (2 ^ 1100) := by
  constructor <;> intro h <;> simp_all

/-- `P2_OpenMP`'s closed form `(a - 2) * (a + 1) / 2 - (b - 2) * (b + 1) / 2` (a = π(y), b = π(√x)) computed in the type `T`
    of `x` (repaired, finding F9): in the 128-bit instantiation every intermediate fits for all 64-bit a, b … -/
theorem p2_closed_form_no_overflow_wide (a b : ℤ) (ha : 0 ≤ a ∧ a < 2 ^ 63) (hb : 0 ≤ b ∧ b < 2 ^ 63) :
    -(2 : ℤ) ^ 127 ≤ (a - 2) * (a + 1) ∧ (a - 2) * (a + 1) < 2 ^ 127 ∧
    -(2 : ℤ) ^ 127 ≤ (b - 2) * (b + 1) ∧ (b - 2) * (b + 1) < 2 ^ 127 ∧
    -(2 : ℤ) ^ 127 ≤ (a - 2) * (a + 1) / 2 - (b - 2) * (b + 1) / 2 ∧
    (a - 2) * (a + 1) / 2 - (b - 2) * (b + 1) / 2 < 2 ^ 127 := by
  obtain ⟨ha0, ha1⟩ := ha
  obtain ⟨hb0, hb1⟩ := hb
  have h1 : (a - 2) * (a + 1) < 2 ^ 126 := by nlinarith
  have h2 : -(2 : ℤ) ^ 64 ≤ (a - 2) * (a + 1) := by nlinarith
  have h3 : (b - 2) * (b + 1) < 2 ^ 126 := by nlinarith
  have h4 : -(2 : ℤ) ^ 64 ≤ (b - 2) * (b + 1) := by nlinarith
  refine ⟨by omega, by omega, by omega, by omega, by omega, by omega⟩

/-- … and in the 64-bit instantiation for every a, b ≤ π(3037000499) (x < 2^63 gives √x ≤ 3037000499) -/
theorem p2_closed_form_no_overflow_narrow (a b : ℤ) (ha : 0 ≤ a ∧ a ≤ 3037000499) (hb : 0 ≤ b ∧ b ≤ 3037000499) :
    -(2 : ℤ) ^ 63 ≤ (a - 2) * (a + 1) ∧ (a - 2) * (a + 1) < 2 ^ 63 ∧
    -(2 : ℤ) ^ 63 ≤ (b - 2) * (b + 1) ∧ (b - 2) * (b + 1) < 2 ^ 63 := by
  obtain ⟨ha0, ha1⟩ := ha
  obtain ⟨hb0, hb1⟩ := hb
  refine ⟨by nlinarith, by nlinarith, by nlinarith, by nlinarith⟩

-- finding F9: the unrepaired code multiplied in int64_t also for T = int128_t; with a = π(99999915461) = 4118051491
-- (reached by `primecount 1e22 --P2 --alpha=4000`) the product leaves int64
example : ¬ ((4118051491 - 2 : ℤ) * (4118051491 + 1) < 2 ^ 63) := by decide

/-! ### the source's declared preconditions -/

/-- number of `ASSERT` sites per file -/
def countIn (f : String) : Nat := (Pc.Gen.assertSites.filter (fun s => s.1 == f)).length

/-- The assertion inventory regenerated from /repo: the files whose assertions are discharged by a model
    (column 3 names the theorem / stream that covers them) and the number of sites in each. A removed, added
    or moved `ASSERT` in one of these files changes the generated data and breaks this obligation. -/
def modelledAsserts : List (String × Nat × String) := [
  ("include/LoadBalancerS2.hpp", 4, "C09 acceptor: start_time/stop_time ordering (virtual clock) + san stream"),
  ("src/phi.cpp", 9, "C07 phiRecAlg_correct hypotheses (cache indices) + san stream"),
  ("src/nth_prime.cpp", 4, "C06 nthPrime_domain / nthPrime_total + san stream"),
  ("src/PhiTiny.cpp", 4, "C07 phiTiny tables (generated obligations)"),
  ("include/PhiTiny.hpp", 2, "C07 phiTiny_correct (a ≤ max_a)"),
  ("src/util.cpp", 1, "get_time: micro.count() < 2^52 (clock, trusted)"),
  ("src/api.cpp", 1, "C01 pi_cache: x ≥ 0 after the x < 2 guard")]

theorem assert_inventory_ok :
    modelledAsserts.all (fun e => countIn e.1 == e.2.1) = true := by decide

/-- total number of sites, so that the count of UNMODELLED sites is explicit in the evidence -/
theorem assert_total : Pc.Gen.assertSites.length = 104 := by decide

example : isqrtIntermediatesOk .i128 (2 ^ 126 + 1) (2 ^ 63) = true :=
  isqrt_no_overflow .i128 (Or.inr (Or.inr (Or.inl rfl))) _ _ (by
    rw [sqrtMax_eq]; rw [Nat.le_sqrt]; norm_num [ITy.maxVal, ITy.i128])

end Pc.C16

#print axioms Pc.C16.tuning_setters_defined
#print axioms Pc.C16.p2_closed_form_no_overflow_wide
#print axioms Pc.C16.p2_closed_form_no_overflow_narrow
#print axioms Pc.C16.isqrt_no_overflow
#print axioms Pc.C16.calculator_total
#print axioms Pc.C16.c_buffer_in_bounds
#print axioms Pc.C16.phi_threads_no_overflow
#print axioms Pc.C16.s2_step_no_overflow_partial
#print axioms Pc.C16.assert_inventory_ok
#print axioms Pc.C16.assert_total
