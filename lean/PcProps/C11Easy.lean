/-
C11 (wp-ac2) — width / kernel independence of the easy-leaf formulas through their REAL control flow: the `uint64_t` and the
`uint128_t` instantiation of `AC_OpenMP` (AC.cpp), the libdivide file with its per-`b` dispatch between `A_64` / `C2_64`
(branchfree libdivide division) and `A_128` / `C2_128` (`fast_div64`, the x86 `div`), and the two instantiations of `S2_easy_OpenMP`
return the same value wherever the narrow one is defined — in particular `div` never traps (`divq`) and no fixed-width product
(`prime * prime`, `(T) m * primes[i]`) overflows in either.  Only property theorems, non-vacuity examples, axiom audit.
-/
import PcProofs.EasyAC8

namespace Pc.C11Easy
open Pc.Spec Pc.Easy

/-- **`AC`: the 64-bit and the 128-bit instantiation, AC.cpp and AC_libdivide.cpp all agree** for every `x` the narrow type
    holds (`x ≤ 2^64 - 1`), every admissible `(y, z, k)`, every run -/
theorem ac_width_file_irrelevant (f f' : ACFile) {t : NT} (hv : t.Valid) {x y z k : ℕ} (hy : irootN 3 x < y)
    (hy2 : y * y ≤ x) (hyz : y ≤ z) (hz : z * z ≤ x) (hk : k ≤ Nat.primeCounting (irootN 4 x))
    (hxw : x ≤ ITy.u64.maxVal) (hxy63 : x / y ≤ ITy.i64.maxVal) (hs : Nat.sqrt x ≤ t.bound) (hzb : z ≤ t.bound)
    (h63 : t.bound ≤ ITy.i64.maxVal) {c1sched : List (List ℕ)} (hsched : IsSchedule (c1Lo t x z k) (c1Hi t z) c1sched)
    (l : List ℕ) (hl : (0 :: l).Pairwise (· < ·)) (hlast : (0 :: l).getLast (List.cons_ne_nil _ _) = Nat.sqrt x)
    {segs : List (ℕ × ℕ)} (hsegs : segs.Perm (chainPairs (0 :: l))) :
    acEntry f t .u64 x y z k c1sched segs = acEntry f' t .u128 x y z k c1sched segs := by
  have g := gparams_xStar hy hy2 hyz hz hk
  have hx : x < 2 ^ 127 := lt_of_le_of_lt hxw (by decide)
  have hb := acBounds_of (w := .u64) (xs := xStar x y) hv hx hxw hxy63 hs hzb h63
  have hb' := acBounds_of (w := .u128) (xs := xStar x y) hv hx (le_trans hxw (by decide)) hxy63 hs hzb h63
  rw [c1Lo_eq hv g hzb, c1Hi_eq hv hzb] at hsched
  rw [acEntry_eq f g hb hsched l hl hlast hsegs, acEntry_eq f' g hb' hsched l hl hlast hsegs]

/-- per kernel call: any two division kernels (`fast_div64` 64 / 128-bit, libdivide) give the same `A` and `C2` value for one
    (segment, level) -/
theorem ac_kernels_agree (kk kk' : Kern) {t : NT} {w : ITy} {x y z k xs maxAPrime : ℕ}
    (g : GParams x y z k xs (irootN 3 x)) (hb : ACBounds t w x y z xs maxAPrime) {low high b : ℕ} (hlh : low < high)
    (hhs : high ≤ Nat.sqrt x) :
    (Nat.primeCounting xs < b → b ≤ Nat.primeCounting (irootN 3 x) →
      acAKernel kk t (Nat.primeCounting (max maxAPrime y) + 1) (max z maxAPrime) low high (x / max low 1) (x / high) (x / p b) y (p b)
        = acAKernel kk' t (Nat.primeCounting (max maxAPrime y) + 1) (max z maxAPrime) low high (x / max low 1) (x / high)
            (x / p b) y (p b)) ∧
    (1 ≤ b → b ≤ Nat.primeCounting xs → ∃ sc ss sc' ss' : ℤ,
      acC2Kernel kk t (Nat.primeCounting (max maxAPrime y) + 1) (max z maxAPrime) low high (x / max low 1) (x / high) (x / p b) y b
        (p b) = .ok (sc, ss) ∧
      acC2Kernel kk' t (Nat.primeCounting (max maxAPrime y) + 1) (max z maxAPrime) low high (x / max low 1) (x / high) (x / p b) y b
        (p b) = .ok (sc', ss') ∧ sc + ss = sc' + ss') := by
  constructor
  · intro h1 h2
    rw [aCall_eq kk g hb hlh hhs h1 h2, aCall_eq kk' g hb hlh hhs h1 h2]
  · intro h1 h2
    obtain ⟨sc, ss, e1, e2⟩ := c2Call_eq kk g hb hlh hhs h1 h2
    obtain ⟨sc', ss', e1', e2'⟩ := c2Call_eq kk' g hb hlh hhs h1 h2
    exact ⟨sc, ss, sc', ss', e1, e1', by rw [e2, e2']⟩

/-- **`S2_easy`: width and file independence** -/
theorem s2_easy_width_file_irrelevant {t : NT} (hv : t.Valid) {x y c : ℕ} (hy1 : 1 ≤ y) (hy : y ≤ t.bound)
    (hy63 : y ≤ ITy.i64.maxVal) (hx : x < 2 ^ 127) (hc3 : irootN 3 x ≤ y) {sched : List (List ℕ)}
    (hs : IsSchedule (max c (Nat.primeCounting (Nat.sqrt y)) + 1) (Nat.primeCounting (irootN 3 x)) sched) :
    s2EasyOpenMP t .i64 x y (x / y) c sched = s2EasyOpenMP t .i128 x y (x / y) c sched ∧
    s2EasyOpenMP t .i64 x y (x / y) c sched = s2EasyLibdivide t x y (x / y) c sched := by
  rw [s2EasyOpenMP_eq hv hy1 hy hy63 hx hc3 hs, s2EasyOpenMP_eq hv hy1 hy hy63 hx hc3 hs,
    s2EasyLibdivide_eq hv hy1 hy hy63 hx hc3 hs]
  exact ⟨rfl, rfl⟩

/-! ### non-vacuity -/

example := ac_width_file_irrelevant .plain .libdivide (NT.build_valid 2000) (x := 100000) (y := 60) (z := 100) (k := 2)
  (by rw [irootN_eq_of (r := 46) (by norm_num) (by norm_num) (by norm_num)]; norm_num)
  (by norm_num) (by norm_num) (by norm_num)
  (by rw [irootN_eq_of (r := 17) (by norm_num) (by norm_num) (by norm_num),
        show Nat.primeCounting 17 = 7 by decide]; norm_num)
  (by decide) (by decide)
  (by show Nat.sqrt 100000 ≤ 2000; exact (Nat.sqrt_lt.2 (by norm_num)).le) (by show 100 ≤ 2000; norm_num)
  (by show 2000 ≤ _; decide) (staticSched1_isSchedule _ _ (nt := 3) (by norm_num))
  [240, 316] (by simp) (by show 316 = Nat.sqrt 100000; exact Nat.eq_sqrt.2 ⟨by norm_num, by norm_num⟩)
  (segs := [(0, 240), (240, 316)]) (List.Perm.refl _)
example := s2_easy_width_file_irrelevant (NT.build_valid 100) (x := 100000) (y := 60) (c := 2) (by norm_num)
  (by show 60 ≤ 100; norm_num) (by decide) (by norm_num)
  (by rw [irootN_eq_of (r := 46) (by norm_num) (by norm_num) (by norm_num)]; norm_num)
  (staticSched1_isSchedule _ _ (nt := 3) (by norm_num))

end Pc.C11Easy

#print axioms Pc.C11Easy.ac_width_file_irrelevant
#print axioms Pc.C11Easy.ac_kernels_agree
#print axioms Pc.C11Easy.s2_easy_width_file_irrelevant
