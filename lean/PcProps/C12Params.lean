/-
C12, magnitude half — "for every x up to 10^31 and every tuning override the parameters derived from x satisfy the
ordering and magnitude bounds the algorithms assume; whenever x passes the range check every such quantity fits its
integer type; every x ≤ 10^31 passes the check under default tuning" (work package "params").

Model: `PcModel/ParamsL2.lean` (checked derivation, both widths), envelopes and range predicates:
`PcModel/ParamsEnv.lean` (the SAME decidable definitions are evaluated by the driver on the real doubles of every sample
of the streams `params_gourdon_range`, `params_dr_lmo_range`, `maxx_default`). Lemmas: `PcProofs/ParamsL2*.lean`.
Only property theorems, non-vacuity examples and the axiom audit live here.

All theorems quantify over EVERY value the float-derived quantities may take inside the named envelopes
(`GourdonEnv`, `DrEnv`: relative slack 2^-40 on the two products and on `pow`, the clamps `1 ≤ alpha ≤ x^(1/6)` that
`in_between` enforces, IEEE monotonicity for the unclamped `y` of Deleglise-Rivat); `x` is unbounded except for the
width of the entry point's argument type.
-/
import PcProofs.ParamsL2Dr
import PcProofs.ParamsL2Tight

namespace Pc.C12Params

/-! ## Gourdon -/

/-- `pi_gourdon_128(x)` for EVERY `2 ≤ x < 2^127`, every float outcome in the envelope:
    * `x > get_max_x(alpha_y)` ⇒ the explicit error `range` (primecount_error), nothing else happens;
    * otherwise NO check of the derivation fails (no cast is UB, no narrowing loses bits, no FactorTable throw) and the
      result satisfies `GourdonRange`: `1 ≤ x⋆ ≤ y ≤ z`, `k = get_k(x) ≤ 8`, `1 ≤ x/z ≤ x/y ≤ 2^63 − 1`, every cast value and
      `√x`, `max_a_prime` within int64, `z ≤ FactorTableD<uint32>::max()` (and `≤ FactorTableD<uint16>::max()` when that
      table is chosen), `uint32` primes only when `y`, `max_a_prime < 2^32`, `(int) pow(xz, 1/3.7)` within `int`, thread
      counts in `[1, max(1, threads)]`, `x⋆ ≤ max(1, √(x/y))`, and for `x ≥ 64`: `x^(1/3) < y < √x`, `z < √x`,
      `x^(1/4) ≤ x⋆ ≤ √(x/y)`, `x < (x⋆+1)^4`, `x < (x⋆+1)·y²`. -/
theorem gourdon_params_in_range (x : ℕ) (threads : ℤ) (ay az : ℚ) (fo : GFloats)
    (hx2 : 2 ≤ x) (hx : x < 2 ^ 127) (henv : GourdonEnv x ay az fo) :
    (fo.maxX < (x : ℤ) → gourdonL2 true x threads fo = .error .range) ∧
    ((x : ℤ) ≤ fo.maxX → ∃ o, gourdonL2 true x threads fo = .ok o ∧ GourdonRange x threads o) := by
  refine ⟨fun h => gourdon128_reject x threads fo hx henv.2.2.2.2.2.2.1.1 h, fun h => ?_⟩
  exact ⟨_, gourdon128_accept x threads ay az fo hx2 hx henv h⟩

/-- the range check alone bounds `x`: whatever the tuning, an accepted `x` is below `2^125` -/
theorem gourdon_accepted_x_bound (x : ℕ) (ay az : ℚ) (fo : GFloats) (henv : GourdonEnv x ay az fo)
    (h : (x : ℤ) ≤ fo.maxX) : x < 2 ^ 125 :=
  x_lt_of_range_check (by linarith [henv.1]) henv.2.1 henv.2.2.2.2.2.2.1 h

/-- THE EXACT GUARANTEE OF THE RANGE CHECK (api.cpp 181-196 promises "x / y <= 2^62"): for every accepted `x`, every tuning
    and every float outcome in the envelope, `⌊√x⌋ < 2^62 + 2^22` and the sieve limit satisfies `x / y ≤ 2^62 + 2^33`
    — NOT `≤ 2^62`: the streams observe `x / y = 2^62 + 3.5·10^9` on the real code (alpha_y = 1.042, x ≈ 1.05·10^28), because
    `y = ⌊⌊x^(1/3)⌋·alpha_y⌋` is rounded down twice while `get_max_x` is computed from the unrounded `x^(1/3)·alpha_y`. -/
theorem range_check_guarantee (x : ℕ) (ay az : ℚ) (fo : GFloats) (hx2 : 2 ≤ x) (henv : GourdonEnv x ay az fo)
    (h : (x : ℤ) ≤ fo.maxX) :
    isqrtN x < 2 ^ 62 + 2 ^ 22 ∧ (x : ℤ) / gY x fo.v ≤ 2 ^ 62 + 2 ^ 33 :=
  ⟨isqrt_lt_of_range_check (by linarith [henv.1]) henv.2.1 henv.2.2.2.2.2.2.1 h,
   xy_le_of_range_check hx2 henv.1 henv.2.1 henv.2.2.2.2.1 henv.2.2.2.2.2.2.1 h⟩

/-- `pi_gourdon_64(x)` (no range check) for EVERY `2 ≤ x < 2^63`: no check fails — in particular the unconditional
    `FactorTableD<uint16_t>` of the 64-bit `D` never throws — and the same ranges hold. -/
theorem gourdon64_params_in_range (x : ℕ) (threads : ℤ) (ay az : ℚ) (fo : GFloats)
    (hx2 : 2 ≤ x) (hx : x < 2 ^ 63) (henv : GourdonEnv x ay az fo) :
    ∃ o, gourdonL2 false x threads fo = .ok o ∧ GourdonRange x threads o :=
  ⟨_, gourdon64_accept x threads ay az fo hx2 hx henv⟩

/-- both widths derive the same parameters on a common argument (C11 for the parameter derivation) -/
theorem gourdon_params_wide_eq_narrow (x : ℕ) (threads : ℤ) (ay az : ℚ) (fo : GFloats)
    (hx2 : 2 ≤ x) (hx : x < 2 ^ 63) (henv : GourdonEnv x ay az fo) (h : (x : ℤ) ≤ fo.maxX) :
    ∃ o₁ o₂, gourdonL2 false x threads fo = .ok o₁ ∧ gourdonL2 true x threads fo = .ok o₂ ∧
      o₁.y = o₂.y ∧ o₁.z = o₂.z ∧ o₁.k = o₂.k ∧ o₁.xStar = o₂.xStar ∧ o₁.xy = o₂.xy ∧ o₁.xz = o₂.xz := by
  refine ⟨_, _, (gourdon64_accept x threads ay az fo hx2 hx henv).1,
    (gourdon128_accept x threads ay az fo hx2 (lt_trans hx (by norm_num)) henv h).1, ?_⟩
  simp [gOutPure]

/-! ## x⋆ -/

/-- `get_x_star_gourdon(x, y)` (util.cpp 421-445) for `1 ≤ y < 2^63`, `x < 2^125` and `⌈x/y²⌉` representable (x < 64 or
    x < y³; the callers have x^(1/3) < y): no intermediate overflows and `1 ≤ x⋆ ≤ y`, `x⋆ ≤ max(1, √(x/y))`; when moreover
    `y² ≤ x < y³`: `x^(1/4) ≤ x⋆ ≤ √(x/y)`, `x < (x⋆+1)^4`, `x < (x⋆+1)·y²` — the bounds Σ0..Σ6, A, C, D rely on. -/
theorem xstar_range (x y : ℕ) (hy1 : 1 ≤ y) (hy : (y : ℤ) ≤ i64Max) (hx : x < 2 ^ 125) (hxy : x < 64 ∨ x < y ^ 3) :
    ∃ xs : ℕ, xStarL2 x (y : ℤ) = .ok (xs : ℤ) ∧ 1 ≤ xs ∧ xs ≤ y ∧ xs ≤ max 1 (Nat.sqrt (x / y)) ∧
      (x < y ^ 3 → y * y ≤ x → irootN 4 x ≤ xs ∧ xs ≤ Nat.sqrt (x / y) ∧ x < (xs + 1) ^ 4 ∧ x < (xs + 1) * (y * y)) := by
  refine ⟨_, xStarL2_ok hy1 hy hx hxy, (xstar_basic x y _ hy1).1, (xstar_basic x y _ hy1).2.1, (xstar_basic x y _ hy1).2.2, ?_⟩
  intro h3 h2
  have hx1 : 1 ≤ x := by
    have : 1 ≤ y * y := Nat.mul_pos hy1 hy1
    omega
  obtain ⟨q1, q2, q3⟩ := Spec.xstar_spec h3 h2 (one_le_iroot x 4 (by norm_num) hx1) (lt_r4_succ_pow x)
  exact ⟨Spec.r4_le_xstar h3 h2 (r4_pow_le x), q3, q1, q2⟩

/-! ## get_k -/

/-- `PhiTiny::get_k(x) ≤ 8 = max_a()`, it is a monotone step function of `x`, and equals 8 from `19^4` on -/
theorem get_k_range (x x' : ℕ) : getK x ≤ 8 ∧ (x ≤ x' → getK x ≤ getK x') ∧ (19 ^ 4 ≤ x → getK x = 8) :=
  ⟨getK_le x, fun h => getK_mono h, fun h => getK_eq_eight h⟩

/-! ## Deleglise-Rivat and LMO -/

/-- `pi_deleglise_rivat_128(x)` for EVERY `2 ≤ x < 2^127` and every float outcome in `DrEnv`: rejected with `range`
    iff `x > get_max_x(alpha)`; otherwise no check fails (`y ≠ 0`, casts and the narrowing `(int64_t)(x / y)` exact,
    FactorTable never throws) and `1 ≤ x13 ≤ y`, `1 ≤ z = x / y ≤ 2^63 − 1`, `c ≤ 8`, thread counts in range; and when
    `x13·x16 < 2^53` (every `x < 2^106`): `y² ≤ x` and `y ≤ z`, i.e. `x^(1/3) ≤ y ≤ √x`. -/
theorem dr_params_in_range (x : ℕ) (threads : ℤ) (a : ℚ) (fo : DFloats)
    (hx2 : 2 ≤ x) (hx : x < 2 ^ 127) (henv : DrEnv x a fo) :
    (fo.maxX < (x : ℤ) → drL2 true x threads fo = .error .range) ∧
    ((x : ℤ) ≤ fo.maxX → ∃ o, drL2 true x threads fo = .ok o ∧ DrRange x threads o) :=
  ⟨fun h => dr128_reject x threads fo hx henv.2.2.2.2.2.1.1 h, fun h => ⟨_, dr128_accept x threads a fo hx2 hx henv h⟩⟩

/-- `pi_deleglise_rivat_64(x)`, every `2 ≤ x < 2^63` (the unconditional `FactorTable<uint16_t>` never throws) -/
theorem dr64_params_in_range (x : ℕ) (threads : ℤ) (a : ℚ) (fo : DFloats)
    (hx2 : 2 ≤ x) (hx : x < 2 ^ 63) (henv : DrEnv x a fo) :
    ∃ o, drL2 false x threads fo = .ok o ∧ DrRange x threads o :=
  ⟨_, dr64_accept x threads a fo hx2 hx henv⟩

/-- `pi_lmo_parallel(x)` / `pi_lmo5(x)`, every `2 ≤ x < 2^63`: `y = (int64_t)(x13·alpha) ≥ 1` (no division by zero),
    the cast is in range, `c ≤ 8` -/
theorem lmo_params_in_range (x : ℕ) (a : ℚ) (v : ℤ) (hx2 : 2 ≤ x) (hx : x < 2 ^ 63)
    (ha1 : 1 ≤ a) (ha : a ≤ (irootN 6 x : ℚ)) (hvN : TruncNear ((irootN 3 x : ℚ) * a) v) (hcv : (irootN 3 x : ℤ) ≤ v) :
    ∃ o, lmoL2 x v = .ok o ∧ 1 ≤ o.x13 ∧ o.x13 ≤ o.y ∧ o.y ≤ i64Max ∧ o.z = (x : ℤ) / o.y ∧ o.c ≤ 8 := by
  obtain ⟨h1, h2, h3, h4, h5⟩ := lmo_accept x a v hx2 hx ha1 ha hvN hcv
  exact ⟨_, h1, h4, hcv, h3, rfl, h5⟩

/-! ## the range check under default tuning -/

/-- FULL STATEMENT (target): `∀ x ≤ 10^31, x ≤ get_max_x(alpha_y)` for the `alpha_y` that `get_alpha_gourdon(x)` returns
    without overrides.
    PROVED HERE (`_partial`): the statement for EVERY pair `(alpha_y, maxX)` inside two named float envelopes —
    `MaxXNear` (libm `pow` within 2^-40) and `DefaultAlphaYAtLeast110` (`110 ≤ alpha_y` for `2^93 − 2^54 < x`; the
    cubic in `log x` gives 118.5 at 2^93 and 195.6 at 10^31) — plus the clamp `alpha_y ≥ 1` (an `in_between`, not a
    float fact). For `x ≤ 2^93 − 2^54` only `alpha_y ≥ 1` is used.
    MISSING for the full statement: a proof that libm's `log`/`pow` keep the real doubles inside those envelopes —
    no float lemma library exists here; the stream `maxx_default` evaluates both envelopes and the conclusion on the real
    `get_alpha_gourdon` / `get_max_x` over log-uniform `x ∈ [10^27, 10^31]`, the root transitions and the end points. -/
theorem maxx_default_partial (x : ℕ) (ay : ℚ) (maxX : ℤ) (hx : x ≤ 10 ^ 31) (hay1 : 1 ≤ ay)
    (hpow : MaxXNear ay maxX) (hcubic : DefaultAlphaYAtLeast110 x ay) : (x : ℤ) ≤ maxX :=
  le_maxX_default hx hay1 hpow hcubic

/-! ## thread counts -/

/-- `1 ≤ ideal_num_threads(limit, threads, threshold) ≤ max(1, threads)` for ALL int64 arguments
    (primecount-internal.hpp 101-107) -/
theorem ideal_num_threads_range (limit threads threshold : ℤ) :
    1 ≤ idealNumThreads limit threads threshold ∧ idealNumThreads limit threads threshold ≤ max 1 threads :=
  idealNumThreads_range limit threads threshold

/-! ## the tuning setters -/

/-- `set_alpha*(a)` is defined (no UB in `truncate3`'s cast) exactly when `a >= 1.0` is false (a < 1 or NaN) or
    `min(a, 1e15)·1000` truncates into int64 -/
theorem set_alpha_defined_iff (ge1 : Bool) (k : ℤ) :
    (∃ r, setAlphaL2 ge1 k = .ok r) ↔ (ge1 = false ∨ (i64Min ≤ k ∧ k ≤ i64Max)) := by
  unfold setAlphaL2 castI64
  cases ge1
  · simp
  · by_cases h : i64Min ≤ k ∧ k ≤ i64Max
    · simp [h, bind, Except.bind, pure, Except.pure]
    · simp [h, bind, Except.bind]

/-- `set_alpha`, `set_alpha_y`, `set_alpha_z` are defined for EVERY double (NaN, ±inf, 1e300 included): with the clamp
    `min(a, 1e15)` of the repaired `truncate3` the cast operand lies in `[1000, 10^18] ⊂ int64` whenever the cast is
    reached. `TruncClampEnv` is the float envelope (monotone, exact at 1e15·1000). -/
theorem set_alpha_total (ge1 : Bool) (k : ℤ) (henv : TruncClampEnv ge1 k) :
    ∃ r, setAlphaL2 ge1 k = .ok r := by
  rw [set_alpha_defined_iff]
  cases ge1
  · exact Or.inl rfl
  · refine Or.inr ?_
    have h := henv rfl
    unfold i64Min i64Max
    constructor <;> omega

/-! ## non-vacuity: concrete non-trivial instances (tests, labelled as such) -/

section examples

/-- the real run at x = 10^31 under default tuning (alpha_y = 195.564, alpha_z = 2; values printed by the harness op
    `gparams 128 10000000000000000000000000000000 -1 -1 16`) lies inside the envelope -/
def fo31 : GFloats :=
  { maxX := 27084633556417196214828654395392, v := 4213298657151, w := fun _ => 8426597314302, mt := fun _ => 76728 }

example : GourdonEnv (10 ^ 31) (195564 / 1000) 2 fo31 := by
  unfold GourdonEnv gY gZ clampY clampZ TruncNear MaxXNear PowThreadsNear fo31
  rw [iroot3_1e31, iroot6_1e31, isqrt_1e31, relEps_eq]
  norm_num

example : ∃ o, gourdonL2 true (10 ^ 31) 16 fo31 = .ok o ∧ GourdonRange (10 ^ 31) 16 o :=
  (gourdon_params_in_range (10 ^ 31) 16 (195564 / 1000) 2 fo31 (by norm_num) (by norm_num) (by
    unfold GourdonEnv gY gZ clampY clampZ TruncNear MaxXNear PowThreadsNear fo31
    rw [iroot3_1e31, iroot6_1e31, isqrt_1e31, relEps_eq]
    norm_num)).2 (by unfold fo31; norm_num)

example : (10 ^ 31 : ℤ) ≤ 27084633556417196214828654395392 :=
  maxx_default_partial (10 ^ 31) (195564 / 1000) _ (by norm_num) (by norm_num)
    (by unfold MaxXNear; rw [relEps_eq]; norm_num) (by unfold DefaultAlphaYAtLeast110; norm_num)

example : idealNumThreads 0 5 100 = 1 ∧ idealNumThreads (10 ^ 9) 64 (2 ^ 20) = 64 := by decide

example : ∃ xs : ℕ, xStarL2 (10 ^ 12) (20000 : ℕ) = .ok (xs : ℤ) ∧ 1 ≤ xs ∧ xs ≤ 20000 :=
  let ⟨xs, h1, h2, h3, _⟩ := xstar_range (10 ^ 12) 20000 (by norm_num) (by unfold i64Max; norm_num) (by norm_num)
    (Or.inr (by norm_num))
  ⟨xs, h1, h2, h3⟩

end examples

end Pc.C12Params

#print axioms Pc.C12Params.gourdon_params_in_range
#print axioms Pc.C12Params.gourdon_accepted_x_bound
#print axioms Pc.C12Params.range_check_guarantee
#print axioms Pc.C12Params.gourdon64_params_in_range
#print axioms Pc.C12Params.gourdon_params_wide_eq_narrow
#print axioms Pc.C12Params.xstar_range
#print axioms Pc.C12Params.get_k_range
#print axioms Pc.C12Params.dr_params_in_range
#print axioms Pc.C12Params.dr64_params_in_range
#print axioms Pc.C12Params.lmo_params_in_range
#print axioms Pc.C12Params.maxx_default_partial
#print axioms Pc.C12Params.ideal_num_threads_range
#print axioms Pc.C12Params.set_alpha_defined_iff
#print axioms Pc.C12Params.set_alpha_total
