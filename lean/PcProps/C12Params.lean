/-
C12, magnitude half — derived parameters stay in range (work package "params").
Only property theorems, non-vacuity examples and the axiom audit live here; lemmas: PcProofs/ParamsL2*.lean.
-/
import PcProofs.ParamsL2

namespace Pc.C12Params

/-- `1 ≤ ideal_num_threads(limit, threads, threshold) ≤ max(1, threads)` for ALL int64 arguments
    (primecount-internal.hpp 101-107) -/
theorem ideal_num_threads_range (limit threads threshold : ℤ) :
    1 ≤ idealNumThreads limit threads threshold ∧ idealNumThreads limit threads threshold ≤ max 1 threads :=
  idealNumThreads_range limit threads threshold

example : idealNumThreads 0 5 100 = 1 ∧ idealNumThreads (10 ^ 9) 64 (2 ^ 20) = 64 := by decide

end Pc.C12Params

#print axioms Pc.C12Params.ideal_num_threads_range
