/-
C08, closed (WP close, item 2b) — `P2_refines`, `B_refines`, `pi_meissel_glue` of PcProps/C08P2.lean with the hypothesis
`IterSpec it` (the contract of `primesieve::iterator`, assumed there about an abstract `it`) DISCHARGED for the real iterator:

  `Pc.It.realIter e hp hn : P2L.Iter`  (PcProofs/CloseIter2.lean): `prev n` = the first `prev_prime()` of the iterator MODEL
  (PcModel/Iter.lean: iterator.cpp / IteratorHelper.cpp / PrimeGenerator.cpp) constructed as `iterator(n, hp n)`, `next n` = the
  buffer its first `generate_next_primes()` leaves when constructed as `iterator(n, hn n)`; `hp`, `hn` = the stop hints (any).

`_real`: over any core `e` meeting `GenSpec` (floats, batch sizes arbitrary); `_core`: over the REAL sieving-core model
(`Pc.It.coreEnv`, `GenSpec` discharged by WP core2's `generator_contract`; the float assumption `CoreFloatOk` is what remains).
`IterSpec` at ALL positions is false of the real object (`generate_next_primes()` throws beyond the last 64-bit prime), so the
contract is proved as `IterSpecTo … N`; `N = 2^63` suffices because `P2_thread` never asks for a position above
`max(√x, ⌊x/(y+1)⌋ + 1) ≤ 2^63` (`⌊x/max(y,1)⌋ < 2^63` is a hypothesis of the theorems already: the `int64_t` narrowing).
`pi_legendre_glue` does not involve an iterator (pi_legendre.cpp has none): nothing to discharge there.
That one running object behaves like the position-indexed abstraction (k-th call): PcProps/C18Closed2.lean.
Only property theorems, non-vacuity examples and the axiom audit live here.
-/
import PcProofs.CloseIterPrime
import PcProps.C08P2

namespace Pc.C08Closed
open Pc.P2L Pc.LB Pc.It

/-- **the real iterator meets the contract P2.cpp / B.cpp rely on**, at every position `≤ N`, for every `N ≤ 2^64-1` below
    which a prime `≤ 2^64-1` still exists (largest such `N`: the last 64-bit prime 18446744073709551557): `prev_prime()` = the
    largest prime `≤ n` (0 if none); `generate_next_primes()` leaves a non-empty, strictly increasing buffer holding exactly the
    primes from `n` to its last entry — for every stop hint, float outcome, batching -/
theorem real_iterator_meets_contract (e : Env) (he : GenSpec e) (hp hn : ℕ → ℕ) (hhn : ∀ n, hn n ≤ umax) (N : ℕ)
    (hN : N ≤ umax) (hprime : ∃ p, p.Prime ∧ N ≤ p ∧ p ≤ umax) : IterSpecTo (realIter e hp hn) N :=
  realIter_specTo e he hp hn hhn N hN hprime

/-- … in particular up to `2^63` with no hypothesis on primes (Bertrand) -/
theorem real_iterator_meets_contract_two63 (e : Env) (he : GenSpec e) (hp hn : ℕ → ℕ) (hhn : ∀ n, hn n ≤ umax) :
    IterSpecTo (realIter e hp hn) two63 := realIter_specTo_two63 e he hp hn hhn

/-- … and up to the LAST 64-bit prime `18446744073709551557 = 2^64 - 59` (proved prime by a Pratt certificate,
    PcProofs/CloseIterPrime.lean): the largest honest bound — -/
theorem real_iterator_meets_contract_max (e : Env) (he : GenSpec e) (hp hn : ℕ → ℕ) (hhn : ∀ n, hn n ≤ umax) :
    IterSpecTo (realIter e hp hn) 18446744073709551557 := realIter_specTo_maxPrime64 e he hp hn hhn

/-- — because one position further `generate_next_primes()` throws (no prime is left below 2^64; the adapter then has the empty
    buffer): the contract up to `18446744073709551558`, a fortiori the unbounded `IterSpec`, is FALSE of the real iterator -/
theorem real_iterator_contract_bound_is_sharp (e : Env) (he : GenSpec e) (hp hn : ℕ → ℕ) (hhn : ∀ n, hn n ≤ umax) :
    ¬ IterSpecTo (realIter e hp hn) 18446744073709551558 ∧ ¬ IterSpec (realIter e hp hn) := by
  have h0 : (realIter e hp hn).next 18446744073709551558 = [] :=
    realIter_next_beyond e he hp hn hhn 18446744073709551558 (by decide) (by decide)
  exact ⟨fun h => h.next_ne 18446744073709551558 (le_refl _) h0, fun h => h.next_ne 18446744073709551558 h0⟩

/-- **`P2_OpenMP(x, y, a) = P2(x, a)` over the real iterator model** (`C08.P2_refines`, every other hypothesis verbatim) -/
theorem P2_refines_real (e : Env) (he : GenSpec e) (hp hn : ℕ → ℕ) (hhn : ∀ n, hn n ≤ umax) {pi : ℕ → ℕ} {x y a : ℕ}
    (hpi : ∀ n, n < x → pi n = Nat.primeCounting n) (ha : a = Nat.primeCounting y) (hya : pi y = a)
    (c : Consts) (hc : c.WF) (hxy : x / max y 1 < two63) (r : Run)
    (hv : 4 ≤ x → y < Nat.sqrt x → r.valid c x (x / max y 1) = true) :
    p2OpenMP c (realIter e hp hn) pi x y a r = .ok (Spec.P2 x a : ℤ) :=
  p2OpenMP_to (realIter_specTo_two63 e he hp hn hhn) (le_refl _) hpi ha hya c hc hxy r hv

/-- **`B_OpenMP(x, y) = B(x, y)` over the real iterator model** (`C08.B_refines`; the added `y < 2^63` is the range of `y`'s
    C++ type `int64_t`, needed only because `B_OpenMP` has no `y ≥ √x` exit) -/
theorem B_refines_real (e : Env) (he : GenSpec e) (hp hn : ℕ → ℕ) (hhn : ∀ n, hn n ≤ umax) {pi : ℕ → ℕ} {x : ℕ}
    (hpi : ∀ n, n < x → pi n = Nat.primeCounting n) (y : ℕ) (hy : y < two63) (c : Consts) (hc : c.WF)
    (hxy : x / max y 1 < two63) (r : Run) (hv : 4 ≤ x → r.valid c x (x / max y 1) = true) :
    bOpenMP c (realIter e hp hn) pi x y r = .ok (Spec.B x y) :=
  bOpenMP_to (realIter_specTo_two63 e he hp hn hhn) (le_refl _) hpi y hy c hc hxy r hv

/-- **`pi_meissel(x) = π(x)` over the real iterator model** (`C08.pi_meissel_glue`, every other hypothesis verbatim) -/
theorem pi_meissel_glue_real (e : Env) (he : GenSpec e) (hp hn : ℕ → ℕ) (hhn : ∀ n, hn n ≤ umax) {phi : ℕ → ℕ → ℕ}
    {pi : ℕ → ℕ} {x : ℕ} (hpi : ∀ n, n < x → pi n = Nat.primeCounting n)
    (hphi : phi x (Nat.primeCounting (irootN 3 x)) = Spec.phi x (Nat.primeCounting (irootN 3 x)))
    (c : Consts) (hc : c.WF) (hxy : x / max (irootN 3 x) 1 < two63) (r : Run)
    (hv : 4 ≤ x → irootN 3 x < Nat.sqrt x → r.valid c x (x / max (irootN 3 x) 1) = true) :
    piMeissel c (realIter e hp hn) phi pi x r = .ok (Nat.primeCounting x : ℤ) :=
  piMeissel_to (realIter_specTo_two63 e he hp hn hhn) (le_refl _) hpi hphi c hc hxy r hv

/-- `P2_refines` over the real iterator over the REAL sieving core: only the float assumption of WP core2 is left of the whole
    primesieve stack -/
theorem P2_refines_core (fl : Floats) (batch : ℕ → ℕ) (l1raw kib : ℕ) (hfl : CoreFloatOk l1raw kib) (hk : 16 ≤ kib)
    (hk2 : kib ≤ 8192) (hp hn : ℕ → ℕ) (hhn : ∀ n, hn n ≤ umax) {pi : ℕ → ℕ} {x y a : ℕ}
    (hpi : ∀ n, n < x → pi n = Nat.primeCounting n) (ha : a = Nat.primeCounting y) (hya : pi y = a)
    (c : Consts) (hc : c.WF) (hxy : x / max y 1 < two63) (r : Run)
    (hv : 4 ≤ x → y < Nat.sqrt x → r.valid c x (x / max y 1) = true) :
    p2OpenMP c (realIter (coreEnv fl batch l1raw kib) hp hn) pi x y a r = .ok (Spec.P2 x a : ℤ) :=
  P2_refines_real _ (coreEnv_genSpec fl batch l1raw kib hfl hk hk2) hp hn hhn hpi ha hya c hc hxy r hv

theorem B_refines_core (fl : Floats) (batch : ℕ → ℕ) (l1raw kib : ℕ) (hfl : CoreFloatOk l1raw kib) (hk : 16 ≤ kib)
    (hk2 : kib ≤ 8192) (hp hn : ℕ → ℕ) (hhn : ∀ n, hn n ≤ umax) {pi : ℕ → ℕ} {x : ℕ}
    (hpi : ∀ n, n < x → pi n = Nat.primeCounting n) (y : ℕ) (hy : y < two63) (c : Consts) (hc : c.WF)
    (hxy : x / max y 1 < two63) (r : Run) (hv : 4 ≤ x → r.valid c x (x / max y 1) = true) :
    bOpenMP c (realIter (coreEnv fl batch l1raw kib) hp hn) pi x y r = .ok (Spec.B x y) :=
  B_refines_real _ (coreEnv_genSpec fl batch l1raw kib hfl hk hk2) hp hn hhn hpi y hy c hc hxy r hv

theorem pi_meissel_glue_core (fl : Floats) (batch : ℕ → ℕ) (l1raw kib : ℕ) (hfl : CoreFloatOk l1raw kib) (hk : 16 ≤ kib)
    (hk2 : kib ≤ 8192) (hp hn : ℕ → ℕ) (hhn : ∀ n, hn n ≤ umax) {phi : ℕ → ℕ → ℕ}
    {pi : ℕ → ℕ} {x : ℕ} (hpi : ∀ n, n < x → pi n = Nat.primeCounting n)
    (hphi : phi x (Nat.primeCounting (irootN 3 x)) = Spec.phi x (Nat.primeCounting (irootN 3 x)))
    (c : Consts) (hc : c.WF) (hxy : x / max (irootN 3 x) 1 < two63) (r : Run)
    (hv : 4 ≤ x → irootN 3 x < Nat.sqrt x → r.valid c x (x / max (irootN 3 x) 1) = true) :
    piMeissel c (realIter (coreEnv fl batch l1raw kib) hp hn) phi pi x r = .ok (Nat.primeCounting x : ℤ) :=
  pi_meissel_glue_real _ (coreEnv_genSpec fl batch l1raw kib hfl hk hk2) hp hn hhn hpi hphi c hc hxy r hv

/-! ### non-vacuity (tests, labelled as such) -/

/-! `fl0` (floats that always answer 0) with single-prime batches is a legal, extreme behaviour of the abstract parts -/
local notation "fl0" => (⟨fun _ => 0, fun _ => 0, fun _ => 0, fun _ => 0⟩ : Floats)

/-- `GenSpec` is satisfiable: by the reference core, and — without any hypothesis — by the real core below 2^50 -/
example : GenSpec (refEnv fl0 (fun _ => 1)) := refEnv_spec _ _
example : GenSpec (coreEnvTo fl0 (fun _ => 1) 32768 256 (2 ^ 50)) := coreEnv50_genSpec _ _ _ _ (by norm_num) (by norm_num)
/-- hints as P2.cpp passes them are `uint64_t` values -/
example : ∀ n : ℕ, (fun _ : ℕ => umax) n ≤ umax := fun _ => le_refl _
/-- the adapter computes: the model's iterator started at 10 returns 7 backwards and `[11]` (single-prime batch) forwards -/
example : (realIter (refEnv fl0 (fun _ => 1)) (fun _ => 0) (fun _ => umax)).prev 10 = 7 := by decide +kernel
example : (realIter (refEnv fl0 (fun _ => 1)) (fun _ => 0) (fun _ => 30)).next 10 = [11] := by decide +kernel
/-- all hypotheses of `P2_refines_real` / `B_refines_real` at once, on the recorded run of C08P2 -/
example : p2OpenMP genConsts (realIter (refEnv fl0 (fun _ => 1)) (fun _ => 0) (fun _ => umax)) Nat.primeCounting 1000 3 2
    C08.run1000 = .ok (Spec.P2 1000 2 : ℤ) :=
  P2_refines_real _ (refEnv_spec _ _) _ _ (fun _ => le_refl _) (fun _ _ => rfl) (by decide) (by decide) genConsts
    genConsts_wf (by decide) C08.run1000 (fun _ _ => by decide)
example : bOpenMP genConsts (realIter (coreEnvTo fl0 (fun _ => 7) 32768 256 (2 ^ 50)) (fun _ => 0) (fun _ => umax))
    Nat.primeCounting 1000 3 C08.run1000 = .ok (Spec.B 1000 3) :=
  B_refines_real _ (coreEnv50_genSpec _ _ _ _ (by norm_num) (by norm_num)) _ _ (fun _ => le_refl _) (fun _ _ => rfl) 3
    (by decide) genConsts genConsts_wf (by decide) C08.run1000 (fun _ => by decide)

end Pc.C08Closed

#print axioms Pc.C08Closed.real_iterator_meets_contract
#print axioms Pc.C08Closed.real_iterator_meets_contract_two63
#print axioms Pc.C08Closed.real_iterator_meets_contract_max
#print axioms Pc.C08Closed.real_iterator_contract_bound_is_sharp
#print axioms Pc.C08Closed.P2_refines_real
#print axioms Pc.C08Closed.B_refines_real
#print axioms Pc.C08Closed.pi_meissel_glue_real
#print axioms Pc.C08Closed.P2_refines_core
#print axioms Pc.C08Closed.B_refines_core
#print axioms Pc.C08Closed.pi_meissel_glue_core
