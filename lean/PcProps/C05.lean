/-
C05 — pi(b) - pi(a) equals the number of primes in (a, b].
Only property theorems, non-vacuity examples and the axiom audit live here.

At the level of the specification this is Mathlib arithmetic about `π`; the content of the property is that
the IMPLEMENTATION is `π` (corollaries `piApi128_diff`, `piApi_mono` of C01, under the same named route
hypotheses, discharged by the packages named in PcProps/C01.lean) and that the ORACLE used to judge the
real code is exact: `windowPrimes_correct` and its variants are unconditional.
-/
import PcProofs.Api
import PcProofs.OracleWindow
import PcProps.C01

namespace Pc.C05
open PcGen.ApiConst Pc.PiApi Pc.Oracle

/-- number of primes in `(a, b]` -/
def primesIn (a b : ℕ) : ℕ := ((Finset.Ioc a b).filter Nat.Prime).card

theorem primeCounting_diff (a b : ℕ) (h : a ≤ b) : Nat.primeCounting b - Nat.primeCounting a = primesIn a b :=
  primeCounting_sub_eq_card a b h

/-- the count grows by exactly one at each prime and not otherwise -/
theorem primeCounting_step (n : ℕ) : Nat.primeCounting (n + 1) = Nat.primeCounting n + if Nat.Prime (n + 1) then 1 else 0 := by
  show Nat.count Nat.Prime (n + 1 + 1) = Nat.count Nat.Prime (n + 1) + _
  rw [Nat.count_succ]

/-- ORACLE (unconditional): the segmented sieve with base primes `≤ √b` from the proved sieve counts
    the primes of `(a, b]` — independent of primecount, primesieve and of any probabilistic test. -/
theorem windowPrimes_correct (a b : ℕ) (h : a ≤ b) : windowPrimes a b = primesIn a b := by
  rw [windowPrimes_eq a b h]; exact primeCounting_sub_eq_card a b h

/-- ORACLE (unconditional), table-free wheel base — the variant `pcdrv` runs for `piwin` -/
theorem windowPrimesWheel_correct (a b : ℕ) (h : a ≤ b) : windowPrimesWheel a b = primesIn a b := by
  rw [windowPrimesWheel_eq a b h]; exact primeCounting_sub_eq_card a b h

/-- ORACLE (unconditional): what `pcdrv` prints for `piwin a d1 d2 …` / `piwins` is the list of
    `π(a + d) - π(a)`, for the wheel base and for any base read off a correct sieve table -/
theorem windowDeltas_correct (isBase : ℕ → Bool) (a : ℕ) (ds : List ℕ)
    (hc : BaseComplete isBase (a + ds.foldl max 0)) :
    windowDeltasWith isBase a ds = ds.map (fun d => primesIn a (a + d)) := by
  rw [windowDeltasWith_eq isBase a ds hc]
  apply List.map_congr_left
  intro d _
  exact primeCounting_sub_eq_card a (a + d) (by omega)

theorem windowDeltas_wheel (a : ℕ) (ds : List ℕ) :
    windowDeltasWith wheelBase a ds = ds.map (fun d => primesIn a (a + d)) :=
  windowDeltas_correct wheelBase a ds (wheelBase_complete _)

theorem windowDeltas_sieve (m a : ℕ) (ds : List ℕ) (hm : a + ds.foldl max 0 < (m + 1) * (m + 1)) :
    windowDeltasWith (baseOfSieve (sieveArr m)) a ds = ds.map (fun d => primesIn a (a + d)) :=
  windowDeltas_correct _ a ds (baseOfSieve_complete (sieveArr_spec m) hm)

/-- the listed primes of a window (used by the witness search to bisect) -/
theorem windowList_correct (a b q : ℕ) : q ∈ windowListWith wheelBase a b ↔ a < q ∧ q ≤ b ∧ Nat.Prime q :=
  (windowListWith_spec (wheelBase_complete b)).2 q

/-- IMPLEMENTATION (corollary of C01 under the same route hypotheses): for `a ≤ b ≤ maxX` — on either side
    of `2^63`, `piApi128` being one total function — both calls succeed and the difference of the two
    results is the number of primes in `(a, b]`. -/
theorem piApi128_diff (r : Routes) (maxX : ℕ)
    (hcache : RouteCorrect r.cache cacheZeroBelow maxCached)
    (hlegendre : RouteCorrect r.legendre (maxCached + 1) legendreMax)
    (hmeissel : RouteCorrect r.meissel (legendreMax + 1) meisselMax)
    (hgourdon : RouteCorrect r.gourdon64 (meisselMax + 1) int64Max)
    (hgourdon128 : Route128Correct r.gourdon128 maxX)
    (a b : ℤ) (hlo : -2 ^ 127 ≤ a) (hab : a ≤ b) (hb : b ≤ maxX) :
    ∃ va vb : ℤ, piApi128 r a = .ok va ∧ piApi128 r b = .ok vb ∧ vb - va = primesIn a.toNat b.toNat := by
  refine ⟨_, _, C01.piApi_correct r maxX hcache hlegendre hmeissel hgourdon hgourdon128 a hlo (by omega),
    C01.piApi_correct r maxX hcache hlegendre hmeissel hgourdon hgourdon128 b (by omega) hb, ?_⟩
  have hle : a.toNat ≤ b.toNat := Int.toNat_le_toNat hab
  rw [← primeCounting_diff _ _ hle]
  have := Nat.monotone_primeCounting hle
  omega

/-- the count never decreases -/
theorem piApi_mono (r : Routes) (maxX : ℕ)
    (hcache : RouteCorrect r.cache cacheZeroBelow maxCached)
    (hlegendre : RouteCorrect r.legendre (maxCached + 1) legendreMax)
    (hmeissel : RouteCorrect r.meissel (legendreMax + 1) meisselMax)
    (hgourdon : RouteCorrect r.gourdon64 (meisselMax + 1) int64Max)
    (hgourdon128 : Route128Correct r.gourdon128 maxX)
    (a b : ℤ) (hlo : -2 ^ 127 ≤ a) (hab : a ≤ b) (hb : b ≤ maxX) :
    ∃ va vb : ℤ, piApi128 r a = .ok va ∧ piApi128 r b = .ok vb ∧ va ≤ vb := by
  obtain ⟨va, vb, h1, h2, h3⟩ := piApi128_diff r maxX hcache hlegendre hmeissel hgourdon hgourdon128 a b hlo hab hb
  exact ⟨va, vb, h1, h2, by have : (0 : ℤ) ≤ primesIn a.toNat b.toNat := Int.natCast_nonneg _; omega⟩

/-! non-vacuity / concrete instances (tests, labelled as such) -/
example : primesIn 10 20 = 4 := by decide
example : windowPrimes 100 130 = 6 := by rw [windowPrimes_correct _ _ (by norm_num)]; decide
example : windowDeltasWith wheelBase 1000 [10, 20, 30] = [1, 3, 4] := by decide

end Pc.C05

#print axioms Pc.C05.primeCounting_diff
#print axioms Pc.C05.primeCounting_step
#print axioms Pc.C05.windowPrimes_correct
#print axioms Pc.C05.windowPrimesWheel_correct
#print axioms Pc.C05.windowDeltas_correct
#print axioms Pc.C05.windowDeltas_wheel
#print axioms Pc.C05.windowDeltas_sieve
#print axioms Pc.C05.windowList_correct
#print axioms Pc.C05.piApi128_diff
#print axioms Pc.C05.piApi_mono
