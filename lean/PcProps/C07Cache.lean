/-
C07 (WP phicache) — the cache of `class PhiCache` (src/phi.cpp, second copy in src/phi_vector.cpp) at the bit level.
Only property theorems, non-vacuity examples and the axiom audit live here.
Model: PcModel/PhiCache.lean (`State`, `State.new`, `State.initCache`, `State.phiCache`, `phiRecS`, `phiCpp`,
`phiVectorS`).  Proofs: PcProofs/PhiCacheBits / Inv / Rec / Top / Vec.
Spec: `Pc.Spec.phi x a` (Legendre sum), `Pc.Spec.p i` (i-th prime).
-/
import PcProofs.PhiCacheTop
import PcProofs.PhiCacheVec
import PcProps.C17Sieve
import PcProps.C07

namespace Pc.C07Cache
open Pc.Spec Pc.PhiCacheL2 Pc.PhiCacheProofs Pc.PhiAlgProofs
open scoped Nat.Prime

/-- **constructor** (phi.cpp:50-97): for every `a` and every value `est` of the float estimate
    `(uint64_t) std::pow(x, 1 / 2.3)` (phi_vector.cpp: `isqrt(x)`) the object satisfies the cache invariant; in
    particular caching is either off (`max_a_ = 0`) or `max_x_ + 1 = 240 · max_x_size_`, `8 < max_a_`, and
    `240 · max_x_size_ ≤ 2^32` (the 16 MiB cap: `max_x_size_ ≤ 1398102`) -/
theorem cache_constructor_inv (a est : ℕ) : Inv (State.new a est) := new_inv a est

/-- the L2 constructor computes the geometry of the L1 model `phiCacheGeometry` (PcModel/PhiAlg.lean) -/
theorem cache_constructor_geometry (a est : ℕ) :
    ((State.new a est).maxX, (State.new a est).maxA) = phiCacheGeometry a est := new_geometry_eq a est

/-- **invariant of `init_cache(k)`** (phi.cpp:222-274) for every call satisfying its ASSERTs, on any object
    satisfying the invariant, with a prime vector correct up to index `k`; geometry untouched,
    `max_a_cached_ = k` afterwards -/
theorem init_cache_invariant (prime : ℕ → ℕ) (st : State) (k : ℕ) (h : Inv st) (h8 : 8 < k) (hk : k ≤ st.maxA)
    (hmac : st.maxACached < k) (hp : ∀ i, 4 ≤ i → i ≤ k → prime i = p i) :
    Inv (st.initCache prime k) ∧ (st.initCache prime k).maxACached = k ∧
      (st.initCache prime k).maxX = st.maxX ∧ (st.initCache prime k).maxXSize = st.maxXSize ∧
      (st.initCache prime k).maxA = st.maxA := initCache_inv h h8 hk hmac hp

/-- the invariant spelled out: for every sieved level `9 ≤ l ≤ max_a_cached_` and word `w`, bit `k` of
    `sieve_[l][w].bits` is set iff `240 w + wheelNum k` is divisible by none of p_1 … p_l (BitSieve240's bit order),
    and `sieve_[l][w].count = φ(240 w − 1, l) < 2^32` (the `(uint32_t)` cast of phi.cpp:269 never truncates) -/
theorem cache_bits_counts (st : State) (h : Inv st) (l w : ℕ) (h9 : 9 ≤ l) (hl : l ≤ st.maxACached)
    (hw : w < st.maxXSize) :
    (∀ k, k < 64 → ((bitsAt (st.sieve.getD l #[]) w).testBit k = true ↔
        ∀ j, 1 ≤ j → j ≤ l → ¬ p j ∣ 240 * w + wheelNum k)) ∧
    cntAt (st.sieve.getD l #[]) w = phi (240 * w - 1) l ∧ cntAt (st.sieve.getD l #[]) w < 2 ^ 32 :=
  Pc.PhiCacheProofs.cache_bits_counts h h9 hl hw

/-- every `bits` member of a sieved level fits `uint64_t` (the model's naturals are the machine words) -/
theorem cache_bits_fit_u64 (st : State) (h : Inv st) (l w : ℕ) (h9 : 9 ≤ l) (hl : l ≤ st.maxACached)
    (hw : w < st.maxXSize) : bitsAt (st.sieve.getD l #[]) w < 2 ^ 64 :=
  Pc.PhiCacheProofs.cache_bits_fit_u64 h h9 hl hw

/-- **`phi_cache(x, a) = φ(x, a)` for every cached `(x, a)`** (phi.cpp:205-212) -/
theorem phi_cache_correct (st : State) (h : Inv st) (x a : ℕ) (hc : st.isCached x a = true) :
    st.phiCache x a = phi x a := phiCache_correct h hc

/-- the two array reads of `phi_cache` are in bounds whenever `is_cached(x, a)` -/
theorem phi_cache_in_range (st : State) (h : Inv st) (x a : ℕ) (hc : st.isCached x a = true) :
    a < st.sieve.size ∧ x / 240 < (st.sieve.getD a #[]).size := phiCache_in_range h hc

/-- `uint64_t` arithmetic and indices of the cross-off loop (phi.cpp:255-259) -/
theorem cross_off_no_overflow (maxX S prime n : ℕ) (hmax : maxX + 1 = 240 * S) (hcap : 240 * S ≤ 2 ^ 32)
    (hp : prime < 2 ^ 31) (hn : n ≤ maxX) :
    prime * prime < 2 ^ 64 ∧ prime * 2 < 2 ^ 64 ∧ n + prime * 2 < 2 ^ 64 ∧ n / 240 < S :=
  crossOff_no_overflow hmax hcap hp hn

/-- `is_pix(x, a)` (phi.cpp:192-196) is sound from the `PiTable` contract `pi_[v] = π(v)` -/
theorem is_pix_sound (E : PhiEnv) (A : ℕ) (hE : BaseOK E A) (x a : ℕ) (ha1 : 1 ≤ a) (haA : a + 1 ≤ A)
    (hx : 1 ≤ x) (hpa : p a ≤ x) (h : E.isPix x a = true) : ((E.piTab x : ℤ) - a + 1) = phi x a :=
  isPix_sound hE ha1 haA hx hpa h

/-- `phi_pix(x, a)` (phi.cpp:312-320) with `pi_noprint(x) = π(x)` (C01), for `a > π(√x)` -/
theorem phi_pix_correct (x a : ℕ) (hx : 1 ≤ x) (h : π (Nat.sqrt x) < a) : phiPix (π x) a = phi x a :=
  phiPix_correct hx h

/-- **refinement**: `PhiCache::phi<SIGN>` on the real cache computes what the L1 algorithm `phiRecAlg` computes
    with the abstract cache `val = φ` — same value, same `max_a_cached_`, invariant kept.  This discharges the
    hypothesis `EnvOK.val` / `CacheOK` of `C07.phiRecAlg_correct` / `C07.phiOpenMP_correct`. -/
theorem phi_real_cache_refines (E : PhiEnv) (A : ℕ) (hE : BaseOK E A) (fuel : ℕ) (sign : ℤ) (x a : ℕ) (st : State)
    (hinv : Inv st) (ha : a < A) :
    Rel st.maxX st.maxA (phiRecS E fuel sign x a st)
      (phiRecAlg (envL1 E st.maxX st.maxA) fuel sign x a st.maxACached) :=
  phiRecS_refines hE st.maxX st.maxA fuel sign x a st hinv rfl rfl ha

/-- **`PhiCache::phi<SIGN>(x, a)` on the real cache is exact** for every sign, `x ≥ 1`, `a`, and every state of
    the object that satisfies the invariant (every state reachable from the constructor) -/
theorem phi_real_cache_correct (E : PhiEnv) (A : ℕ) (hE : BaseOK E A) (fuel : ℕ) (sign : ℤ) (x a : ℕ) (st : State)
    (hinv : Inv st) (hf : a < fuel) (ha : a < A) (hx : 1 ≤ x) :
    (phiRecS E fuel sign x a st).1 = sign * phi x a ∧ Inv (phiRecS E fuel sign x a st).2 ∧
      (phiRecS E fuel sign x a st).2.maxX = st.maxX ∧ (phiRecS E fuel sign x a st).2.maxA = st.maxA :=
  phiRecS_correct hE fuel sign x a st hinv hf ha hx

/-- **`phi(x, a, threads)` of src/phi.cpp = Legendre sum on all of int64 × int64** (in particular every
    `x < 2^63`, every `a`): the full control flow of `phi_OpenMP` with the REAL bit-level caches, one fresh
    `PhiCache` per thread, for every value of the float estimate `est`, every thread count and every
    distribution `works` of the loop indices over the threads.  `TopOK` holds the remaining named hypotheses:
    `π(x) ≤ pix_upper(x)`, `π(√x) ≤ pix_upper(√x)` (literature inequality behind the double formula; used ONLY by
    the guards phi.cpp:355 and phi.cpp:361), `pi_noprint = π` (C01), prime vector, `PiTable` (C17), `phi_tiny`. -/
theorem phi_cpp_correct (P : PhiTop) (x a : ℤ) (hP : TopOK P x.toNat a.toNat) (est : ℕ)
    (works : List (List ℕ)) (hworks : works.flatten.Perm (List.range' 9 (a.toNat - 8))) :
    phiCpp P est works x a = phiZ x a := phiCpp_correct P x a hP est works hworks

/-- **`phi_vector(x, a, primes, pi)` with its real cache**: `phi[i] = φ(x, i − 1)` for `1 ≤ i ≤ a`
    (connects `C17Sieve.phiVector_correct`, whose inner function was a parameter, to the bit-level cache) -/
theorem phiVector_cpp_correct (E : PhiEnv) (hprime0 : E.prime 0 = 0) (hprimes : ∀ i, 1 ≤ i → E.prime i = p i)
    (hpi : ∀ v, v < E.piSize → E.piTab v = π v) (htiny : ∀ y b, b ≤ 8 → E.tiny y b = phi y b)
    (x a i : ℕ) (hi1 : 1 ≤ i) (hia : i ≤ a) :
    (phiVectorS E (π x) (Nat.sqrt x) x a).getD i 0 = (phi x (i - 1) : ℤ) := by
  rw [phiVectorS_eq (A := a + π x) ⟨hprime0, fun i h1 _ => hprimes i h1, hpi, htiny⟩ (π x) x a (by omega) (by omega)]
  exact Pc.C17Sieve.phiVector_correct E.prime _ x hprimes (fun _ _ => rfl) a i hi1 hia

/-! non-vacuity (tests, labelled as such) -/

/-- a concrete constructor result: `a = 139`, estimate 2000 → `max_a_ = 100`, 9 words, `max_x_ = 2159` -/
example : ((State.new 139 2000).maxX, (State.new 139 2000).maxXSize, (State.new 139 2000).maxA) = (2159, 9, 100) := by
  decide

/-- the 16 MiB clamp: `a = 10^6`, huge estimate → 92 levels, 182361 bytes·… : `max_x_size_ = 15197` words -/
example : ((State.new 1000000 (10 ^ 12)).maxXSize, (State.new 1000000 (10 ^ 12)).maxA) = (15197, 100) := by
  decide

/-- the hypotheses of `init_cache_invariant` are satisfiable on a non-trivial object (levels 4..12 sieved) -/
noncomputable example : Inv ((State.new 139 2000).initCache (fun i => p i) 12) :=
  (init_cache_invariant (fun i => p i) (State.new 139 2000) 12 (cache_constructor_inv _ _) (by norm_num)
    (by decide) (by decide) (fun _ _ _ => rfl)).1

/-- and a second call on top of it -/
noncomputable example : Inv (((State.new 139 2000).initCache (fun i => p i) 12).initCache (fun i => p i) 40) := by
  obtain ⟨h1, h2, _, _, h5⟩ := init_cache_invariant (fun i => p i) (State.new 139 2000) 12
    (cache_constructor_inv _ _) (by norm_num) (by decide) (by decide) (fun _ _ _ => rfl)
  exact (init_cache_invariant (fun i => p i) _ 40 h1 (by norm_num) (by rw [h5]; decide) (by rw [h2]; norm_num)
    (fun _ _ _ => rfl)).1

/-- the environment hypotheses of the recursion theorems are satisfiable (ideal prime vector, π table, phi_tiny) -/
noncomputable def exEnv (n : ℕ) : PhiEnv :=
  { prime := fun i => if i = 0 then 0 else p i, piSize := n, piTab := fun v => π v, tiny := fun y b => phi y b,
    cache := { maxX := 0, maxA := 0, val := fun _ _ => 0 } }

example (n A : ℕ) : BaseOK (exEnv n) A :=
  ⟨by simp [exEnv], fun i hi _ => by simp [exEnv]; omega, fun _ _ => rfl, fun _ _ _ => rfl⟩

/-- `phi_cpp_correct` instantiated: two threads splitting the indices 9..a in an interleaved way, any estimate -/
example (x a : ℤ) (est : ℕ) (w1 w2 : List ℕ) (h : (w1 ++ w2).Perm (List.range' 9 (a.toNat - 8))) :
    phiCpp Pc.C07.exTop est [w1, w2] x a = phiZ x a :=
  phi_cpp_correct Pc.C07.exTop x a
    { pixUpperX := le_rfl, pixUpperSqrt := le_rfl, piFn := rfl, prime0 := by simp [Pc.C07.exTop],
      prime := fun i hi _ => by simp [Pc.C07.exTop]; omega, piTab := fun _ _ => rfl, tiny := fun _ _ _ => rfl }
    est [w1, w2] (by simpa using h)

/-- executable instance: the model's cache for the first primes answers φ(1000, 9) = 163, φ(2159, 10) = 335 -/
def exPrimes (i : ℕ) : ℕ := [0, 2, 3, 5, 7, 11, 13, 17, 19, 23, 29, 31, 37].getD i 0
example : ((State.new 139 2000).initCache exPrimes 10).phiCache 1000 9 = 163 := by decide +kernel
example : ((State.new 139 2000).initCache exPrimes 10).phiCache 2159 10 = 335 := by decide +kernel
example : ((State.new 139 2000).initCache exPrimes 10).isCached 2159 10 = true := by decide +kernel

end Pc.C07Cache

#print axioms Pc.C07Cache.cache_constructor_inv
#print axioms Pc.C07Cache.cache_constructor_geometry
#print axioms Pc.C07Cache.init_cache_invariant
#print axioms Pc.C07Cache.cache_bits_counts
#print axioms Pc.C07Cache.cache_bits_fit_u64
#print axioms Pc.C07Cache.phi_cache_correct
#print axioms Pc.C07Cache.phi_cache_in_range
#print axioms Pc.C07Cache.cross_off_no_overflow
#print axioms Pc.C07Cache.is_pix_sound
#print axioms Pc.C07Cache.phi_pix_correct
#print axioms Pc.C07Cache.phi_real_cache_refines
#print axioms Pc.C07Cache.phi_real_cache_correct
#print axioms Pc.C07Cache.phi_cpp_correct
#print axioms Pc.C07Cache.phiVector_cpp_correct
