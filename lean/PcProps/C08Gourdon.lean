/-
C08 / C02 (wp-ac2) — **the modelled control flow of `pi_gourdon`'s five terms computes π(x)**.

`gourdon_total_all_loops`: Φ0 (`Phi0_OpenMP`, gourdon/Phi0.cpp), Σ (`Sigma`, gourdon/Sigma.cpp), B (`B_OpenMP`, gourdon/B.cpp),
A + C (`AC`, gourdon/AC.cpp and AC_libdivide.cpp) and D (`D_OpenMP`, gourdon/D.cpp), ALL by the loop mirrors of their real control
flow (PcModel/LeafLoops.lean, P2Loop.lean, EasyAC.lean, HardLoops.lean), add up to π(x) for every admissible `(y, z, k)` and every
run / schedule of the five parallel regions.  The per-term theorems are `phi0_loop_eq_def`, `sigma_loop_eq_def` (C08Leaf),
`B_refines` (C08P2), `ac_entry_eq_def` (C08EasyAC), `d_region_eq_spec` (C08HardD); the arithmetic is `GParams.pi_gourdon`
(PcProofs/Spec/GourdonMain.lean).  Only property theorems, non-vacuity examples and the axiom audit live here.
-/
import PcProps.C08HardD
import PcProofs.EasyAC8
import PcProofs.LeafSigma
import PcProofs.P2LoopEx

namespace Pc.C08Gourdon
open Pc.Spec

/-- **Gourdon's formula through the real control flow of all five terms.**
    Parameters: every `x < 2^127` held by the operand type `w`, every `(y, z)` with `x^(1/3) < y ≤ z ≤ √x`, every `k` with
    `4 ≤ k ≤ 8` (`PhiTiny`'s range; `D` needs `k ≥ 4`), `k ≤ π ⌊x^(1/4)⌋`; `x⋆ = get_x_star_gourdon(x, y)` (model `xStar`).
    Tables: `t` valid up to `t.bound ≥ x / y, √x, z` (`≤ 2^63 - 1`).
    Runs: EVERY distribution `sched0` of the Φ0 iterations; EVERY iterator meeting `IterSpec` and EVERY valid run `r` of
    `B_OpenMP` (`pi_noprint` assumed correct below `x` only); EVERY distribution `c1sched` of the C1 iterations and EVERY
    chain of segments `0 = l₀ < … < lₙ = ⌊√x⌋` processed in any order `segs`, for both files `f` of A + C; EVERY accepted complete
    history `es` of `D_OpenMP` (any sieve object meeting the counting contract, tables as `D` builds them).
    Conclusion: the five mirrors return values (none traps, no read out of bounds) with `A + C - B + D + Φ0 + Σ = π(x)`. -/
theorem gourdon_total_all_loops {t : NT} (hv : t.Valid) {w : ITy} {x y z k : ℕ} (hcov : t.Covers x y)
    (hy : irootN 3 x < y) (hy2 : y * y ≤ x) (hyz : y ≤ z) (hz : z * z ≤ x)
    (hk : k ≤ Nat.primeCounting (irootN 4 x)) (hk4 : 4 ≤ k) (hk8 : k ≤ 8)
    (hx : x < 2 ^ 127) (hxw : x ≤ w.maxVal) (hzb : z ≤ t.bound) (h63 : t.bound ≤ ITy.i64.maxVal)
    -- Φ0
    {sched0 : List (List ℕ)} (hs0 : IsSchedule (k + 1) (Nat.primeCounting y) sched0)
    -- B
    {it : P2L.Iter} (hit : P2L.IterSpec it) {pi : ℕ → ℕ} (hpi : ∀ n, n < x → pi n = Nat.primeCounting n)
    (cB : LB.Consts) (hcB : cB.WF) (r : P2L.Run) (hr : 4 ≤ x → r.valid cB x (x / max y 1) = true)
    -- A + C
    (f : Easy.ACFile) {c1sched : List (List ℕ)} (hsched : IsSchedule (Easy.c1Lo t x z k) (Easy.c1Hi t z) c1sched)
    (l : List ℕ) (hl : (0 :: l).Pairwise (· < ·)) (hlast : (0 :: l).getLast (List.cons_ne_nil _ _) = Nat.sqrt x)
    {segs : List (ℕ × ℕ)} (hsegs : segs.Perm (Easy.chainPairs (0 :: l)))
    -- D
    {σ : Type} (S : Hard.SieveOps σ) {e : Hard.Env} {tmax : ℕ}
    (hS : ∀ K, K ≤ Nat.primeCounting y →
      ∃ H : Hard.SieveSpec S K, ∀ low seg, 240 ∣ low → 240 ∣ seg → 0 < seg → H.segOK low seg)
    (lc : LB.Consts) (hlc : lc.WF) (threads : ℕ) (print : Bool) (hE : Hard.EnvOK e y) (hF : Hard.FactorDOK e tmax y z)
    (es : List LB.S2.Ev) (dv : ℤ) (hD : Hard.dOpenMP S e lc x y z k threads print es = .ok dv) :
    ∃ p0 sg bv acv : ℤ,
      phi0OpenMP t w x y z k sched0 = .ok p0 ∧ sigma t w x y = .ok sg ∧ P2L.bOpenMP cB it pi x y r = .ok bv ∧
      Easy.acEntry f t w x y z k c1sched segs = .ok acv ∧
      acv - bv + dv + p0 + sg = (Nat.primeCounting x : ℤ) := by
  have g := Easy.gparams_xStar hy hy2 hyz hz hk
  have hy1 : 1 ≤ y := g.y_pos
  have hxs1 := one_le_xStar x y
  have hzy : z * y ≤ w.maxVal := le_trans (le_trans (Nat.mul_le_mul_left z hyz) hz) hxw
  have hxy63 : x / y ≤ ITy.i64.maxVal := le_trans hcov.hxy h63
  have hm4 : x / (xStar x y * y) ≤ t.bound :=
    le_trans (Nat.div_le_div_left (Nat.le_mul_of_pos_left y hxs1) hy1) hcov.hxy
  have hxyB : x / max y 1 < LB.two63 := by
    rw [max_eq_left hy1]
    have : ITy.i64.maxVal < LB.two63 := by decide
    omega
  refine ⟨Phi0 x y z k, _, Spec.B x y, _,
    phi0OpenMP_eq hv hy1 hcov.hy hk8 hyz hzy hs0,
    sigma_eq hv hy1 hy.le g.s_le_c3 hcov.hy hcov.hs hm4 (le_trans (Nat.mul_le_mul_right y hyz) hzy) h63,
    P2L.bOpenMP_eq hit hpi y cB hcB hxyB r hr,
    Easy.acEntry_eq f g (Easy.acBounds_of hv hx hxw hxy63 hcov.hs hzb h63)
      (by rwa [Easy.c1Lo_eq hv g hzb, Easy.c1Hi_eq hv hzb] at hsched) l hl hlast hsegs, ?_⟩
  rw [C08HardD.d_region_eq_spec S g hS lc hlc threads print hE hF hk4 es dv hD]
  have := g.pi_gourdon
  linarith

/-! ### non-vacuity -/

/-- a complete accepted history of `B_OpenMP(100000, 60)`: one thread, chunk `[316, 1666)` -/
def runB : P2L.Run := { team := 1, print := false, es := [⟨0, true, 316, 1666⟩, ⟨0, false, 1666, 1666⟩], order := [0] }

example : runB.valid LB.genConsts 100000 (100000 / max 60 1) = true := by decide

/-- `x = 100000`, `y = 60`, `z = 100`, `k = 4`: every hypothesis about Φ0, Σ, B, A + C is met by a concrete state (static schedules
    with 3 / 2 threads, the recorded B run, AC_libdivide.cpp over the segments `[240, 316)`, `[0, 240)`); the D region enters
    through its own hypotheses (sieve contract, tables, an accepted history — `d_region_eq_spec`, C08HardD) -/
example {σ : Type} (S : Hard.SieveOps σ) {e : Hard.Env} {tmax : ℕ}
    (hS : ∀ K, K ≤ Nat.primeCounting 60 →
      ∃ H : Hard.SieveSpec S K, ∀ low seg, 240 ∣ low → 240 ∣ seg → 0 < seg → H.segOK low seg)
    (lc : LB.Consts) (hlc : lc.WF) (threads : ℕ) (print : Bool) (hE : Hard.EnvOK e 60) (hF : Hard.FactorDOK e tmax 60 100)
    (es : List LB.S2.Ev) (dv : ℤ) (hD : Hard.dOpenMP S e lc 100000 60 100 4 threads print es = .ok dv) :=
  gourdon_total_all_loops (NT.build_valid 2000) (w := .u128) (x := 100000) (y := 60) (z := 100) (k := 4)
    (covers_build (by norm_num) (by norm_num) (by norm_num))
    (by rw [irootN_eq_of (r := 46) (by norm_num) (by norm_num) (by norm_num)]; norm_num)
    (by norm_num) (by norm_num) (by norm_num)
    (by rw [irootN_eq_of (r := 17) (by norm_num) (by norm_num) (by norm_num),
          show Nat.primeCounting 17 = 7 by decide]; norm_num)
    (by norm_num) (by norm_num) (by norm_num) (by decide) (by show 100 ≤ 2000; norm_num) (by show 2000 ≤ _; decide)
    (staticSched1_isSchedule _ _ (nt := 3) (by norm_num))
    P2L.refIter_spec (pi := Nat.primeCounting) (fun _ _ => rfl) LB.genConsts LB.genConsts_wf runB (fun _ => by decide)
    .libdivide (staticSched1_isSchedule _ _ (nt := 2) (by norm_num))
    [240, 316] (by simp) (by show 316 = Nat.sqrt 100000; exact Nat.eq_sqrt.2 ⟨by norm_num, by norm_num⟩)
    (segs := [(240, 316), (0, 240)]) (List.Perm.swap _ _ _)
    S hS lc hlc threads print hE hF es dv hD

end Pc.C08Gourdon

#print axioms Pc.C08Gourdon.gourdon_total_all_loops
