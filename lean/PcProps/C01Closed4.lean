/-
C01 / C02 (WP close3, item 2): the Gourdon entry points over `W : Pc.Close.World2` for EVERY `x` of the type — `pi_gourdon_eq_pi3` / `pi_gourdon_64_eq_pi3`
of PcProps/C01Closed3.lean WITHOUT the side condition `x < 8 ∨ 16 ≤ x` (the eight arguments `8 ≤ x ≤ 15` are closed in PcProps/C02ClosedAll.lean).
World, hypotheses and their classification (F) / (O) / (L) / (S): exactly those of PcProps/C01Closed3.lean — nothing added, `hsmall` removed.
Only property theorems, non-vacuity examples and the axiom audit live here.
-/
import PcProofs.Close3Final
import PcProofs.Close3Ex
import PcProofs.Close2PhiEx
import PcProofs.Close2SmallEx

namespace Pc.C01Closed4
open Pc.Top Pc.Close Nat PcGen.ApiConst
open scoped Nat.Prime

/-- **`pi_gourdon_eq_pi4`** — `pi_gourdon_64(x)` (`wide = false`) / `pi_gourdon_128(x)` (`wide = true`) for EVERY `x` of the type: the result is π(x), or
    `badRun` for a recorded D history that is not a run of the dispenser -/
theorem pi_gourdon_eq_pi4 (W : World2) {B : ℕ} (h : W.OKmin B) (hB : B < 2 ^ 32) (c : Sieve.Cfg) (f : Sieve.StopFn) (pi : ℕ → ℕ)
    (wide : Bool) (x : ℤ) (hx : InType wide x) (threads : ℤ) (isPrint : Bool) (r : GRun)
    (hphi : ∀ n : ℕ, (n : ℤ) < x → maxCached < n → n ≤ meisselMax → W.PhiRunOK2 n)
    (hrec : W.NestedS2 c f B pi x)
    (hex : 2 ≤ x → GExecC (W.toWorld.tablesS c f wide) B wide x.toNat r) :
    piGourdon (W.toWorld.tablesS c f wide) pi wide x threads isPrint r = .ok (π x.toNat : ℤ) ∨
      piGourdon (W.toWorld.tablesS c f wide) pi wide x threads isPrint r = .error (.hard .badRun) :=
  W.pi_gourdon_s_all (W.ok_of_min h) hB c f pi wide x hx threads isPrint r hphi hrec hex

/-- **`pi_gourdon_64_eq_pi4`** — `pi_gourdon_64(x)` for EVERY int64 `x` -/
theorem pi_gourdon_64_eq_pi4 (W : World2) {B : ℕ} (h : W.OKmin B) (hB : B < 2 ^ 32) (c : Sieve.Cfg) (f : Sieve.StopFn) (pi : ℕ → ℕ)
    (x : ℤ) (hx : x < 2 ^ 63) (threads : ℤ) (isPrint : Bool) (r : GRun)
    (hphi : ∀ n : ℕ, (n : ℤ) < x → maxCached < n → n ≤ meisselMax → W.PhiRunOK2 n)
    (hrec : W.NestedS2 c f B pi x)
    (hex : 2 ≤ x → GExecC (W.toWorld.tablesS c f false) B false x.toNat r) :
    piGourdon (W.toWorld.tablesS c f false) pi false x threads isPrint r = .ok (π x.toNat : ℤ) ∨
      piGourdon (W.toWorld.tablesS c f false) pi false x threads isPrint r = .error (.hard .badRun) :=
  W.pi_gourdon_s_all (W.ok_of_min h) hB c f pi false x (by unfold InType; simpa using hx) threads isPrint r hphi hrec hex

/-! ### non-vacuity (tests, labelled as such): `exWorld3` (sieving core below 2^50, `phiNeg = phiNegIdeal`, caches enabled, two threads; its minimal
    world hypotheses hold with NO assumption — the first argument of every example) -/

/-- Gourdon at `x = 10` (degenerate parameters `y = z = 2`, `k = 0`; AC segment `[0, 3)` in which the C2 loop runs): complete execution over the world,
    every hypothesis instantiated -/
example (c : Sieve.Cfg) (f : Sieve.StopFn) :=
  pi_gourdon_64_eq_pi4 exWorld3 (exWorld3.okmin_of_bnd50 rfl (by show 16 ≤ 256; norm_num) (by show 256 ≤ 8192; norm_num) (by show 2 ^ 50 ≤ 2 ^ 50; exact le_rfl)
      (fun _ => Nat.zero_le _) (by show 100 ≤ 3000; norm_num) : exWorld3.OKmin 100) (by norm_num) c f Nat.primeCounting 10 (by norm_num) 1 false
    (ex10GRun (exWorld3.toWorld.tablesS c f false).t) (fun n _ _ _ => exWorld3_phiRunOK2 n)
    (fun n hn h63 => exWorld3_nestedS2 c f n (lt_trans hn (by norm_num)) h63)
    (fun _ => ex10GExecC_of _ rfl (by show 5 ≤ 3000; norm_num) (by show 3000 ≤ _; decide))

/-- Gourdon at `x = 8` (`y = z = 1 < x^(1/3) = 2`): complete execution over the world, every hypothesis instantiated -/
example (c : Sieve.Cfg) (f : Sieve.StopFn) :=
  pi_gourdon_64_eq_pi4 exWorld3 (exWorld3.okmin_of_bnd50 rfl (by show 16 ≤ 256; norm_num) (by show 256 ≤ 8192; norm_num) (by show 2 ^ 50 ≤ 2 ^ 50; exact le_rfl)
      (fun _ => Nat.zero_le _) (by show 100 ≤ 3000; norm_num) : exWorld3.OKmin 100) (by norm_num) c f Nat.primeCounting 8 (by norm_num) 1 false
    (ex8GRun (exWorld3.toWorld.tablesS c f false).t) (fun n _ _ _ => exWorld3_phiRunOK2 n)
    (fun n hn h63 => exWorld3_nestedS2 c f n (lt_trans hn (by norm_num)) h63)
    (fun _ => ex8GExecC_of _ rfl (by show 8 ≤ 3000; norm_num) (by show 3000 ≤ _; decide))

/-- … and on the arguments that were covered before (2400, 5), now without a side condition to discharge -/
example (c : Sieve.Cfg) (f : Sieve.StopFn) :=
  pi_gourdon_64_eq_pi4 exWorld3 (exWorld3.okmin_of_bnd50 rfl (by show 16 ≤ 256; norm_num) (by show 256 ≤ 8192; norm_num) (by show 2 ^ 50 ≤ 2 ^ 50; exact le_rfl)
      (fun _ => Nat.zero_le _) (by show 100 ≤ 3000; norm_num) : exWorld3.OKmin 100) (by norm_num) c f Nat.primeCounting 2400 (by norm_num) 1 false
    (exsGRun (exWorld3.toWorld.tablesS c f false).t) (fun n _ _ _ => exWorld3_phiRunOK2 n)
    (fun n hn h63 => exWorld3_nestedS2 c f n (lt_trans hn (by norm_num)) h63)
    (fun _ => exsGExecC_of _ rfl (by show 171 ≤ 3000; norm_num) (by show 3000 ≤ _; decide))

end Pc.C01Closed4

#print axioms Pc.C01Closed4.pi_gourdon_eq_pi4
#print axioms Pc.C01Closed4.pi_gourdon_64_eq_pi4
