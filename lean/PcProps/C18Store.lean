/-
C18 — API-level functions of the bundled primesieve on top of the iterator (WP iter2): `store_primes`, `store_n_primes`
(StorePrimes.hpp; primecount's generate_primes / generate_n_primes call them) and the instantiation of the iterator contract
`IterSpecTo` that P2.cpp / B.cpp rely on (PcProofs/P2Loop.lean).
Only property theorems, non-vacuity examples and the axiom audit live here. Proofs: PcProofs/IterStore.lean, IterStoreN.lean,
IterP2.lean.
-/
import PcProofs.IterStoreN
import PcProofs.IterP2

namespace Pc.C18
open Pc.It

/-- `store_primes_correct`: `store_primes(start, stop, v)` for `start ≤ stop < 18446744073709551557`, a value type that can hold
    `stop`, EVERY core meeting `GenSpec`, every float outcome and batching: terminates without error and appends exactly the
    primes of `[start, stop]`, strictly increasing. `hp` (a 64-bit prime above `stop` exists) is Bertrand's postulate for
    `stop ≤ 2^63` (`store_primes_correct_two63`); above that it is the primality of 18446744073709551557, which is not
    proved in Lean (so is the branch `stop ≥ 18446744073709551557`, which appends that literal). -/
theorem store_primes_correct (e : Env) (he : GenSpec e) (vmax start stop : ℕ) (hle : start ≤ stop) (hv : stop ≤ vmax)
    (hstop : stop < maxPrime64) (hp : ∃ p, p.Prime ∧ stop < p ∧ p ≤ umax) :
    ∃ l, storePrimes e vmax start stop = .ok l ∧ PrimesIn l start stop :=
  storePrimes_spec e he vmax start stop hle hv hstop hp

theorem store_primes_correct_two63 (e : Env) (he : GenSpec e) (vmax start stop : ℕ) (hle : start ≤ stop) (hv : stop ≤ vmax)
    (hstop : stop ≤ 2 ^ 63) : ∃ l, storePrimes e vmax start stop = .ok l ∧ PrimesIn l start stop :=
  storePrimes_spec_two63 e he vmax start stop hle hv hstop

/-- the guards of `store_primes`: empty interval / start above the last 64-bit prime store nothing; a `stop` the value type
    cannot hold is rejected (`primesieve_error`) before any sieving -/
theorem store_primes_guards (e : Env) (vmax start stop : ℕ) :
    (start > stop → storePrimes e vmax start stop = .ok []) ∧
    (start ≤ stop → start > maxPrime64 → storePrimes e vmax start stop = .ok []) ∧
    (start ≤ stop → start ≤ maxPrime64 → stop > vmax → storePrimes e vmax start stop = .error .narrow) :=
  storePrimes_guards e vmax start stop

/-- `store_n_primes_correct`: `store_n_primes(n, start, v)`, `n ≥ 1`, EVERY core meeting `GenSpec`, every float outcome and
    batching, ANY value of the stop hint (`start + nthPrime` is an unchecked add and may wrap): when at least `n` primes
    `≥ start` exist below 2^64 (witness `w`, last entry `W`) and `W` fits the value type, the call terminates without error
    and stores exactly `n` values — the primes of `[start, last stored]`, strictly increasing, i.e. the first `n` primes `≥ start` -/
theorem store_n_primes_correct (e : Env) (he : GenSpec e) (vmax n start nthHint : ℕ) (hn : 1 ≤ n) (hs : start ≤ umax)
    (w : List ℕ) (W : ℕ) (hw : PrimesIn w start W) (hwl : w.getLast? = some W) (hWu : W ≤ umax) (hWv : W ≤ vmax)
    (hN : n ≤ w.length) :
    ∃ r Lr, storeNPrimes e vmax n start nthHint = .ok r ∧ r.length = n ∧ r.getLast? = some Lr ∧ PrimesIn r start Lr :=
  storeNPrimes_spec e he vmax n start nthHint hn hs w W hw hwl hWu hWv hN

/-- **`iter_satisfies_IterSpec`** (`buffer_contract` as P2.cpp / B.cpp consume it): the model of the real iterator, constructed
    at position `n` with any stop hints, meets `IterSpecTo` for all positions `≤ N` whenever a 64-bit prime `≥ N` exists
    (every `N ≤ 2^63` by Bertrand: `iter_satisfies_IterSpec_two63`) — `prev` is the largest prime `≤ n` (0 if none), `next` a
    non-empty strictly increasing buffer holding exactly the primes of `[n, last]` -/
theorem iter_satisfies_IterSpec (e : Env) (he : GenSpec e) (hintP hintN : ℕ → ℕ) (hH : ∀ n, hintN n ≤ umax) (N : ℕ)
    (hN : ∃ p, p.Prime ∧ N ≤ p ∧ p ≤ umax) : P2L.IterSpecTo (modelIter e hintP hintN) N :=
  Pc.It.iter_satisfies_IterSpec e he hintP hintN hH N hN

theorem iter_satisfies_IterSpec_two63 (e : Env) (he : GenSpec e) (hintP hintN : ℕ → ℕ) (hH : ∀ n, hintN n ≤ umax) :
    P2L.IterSpecTo (modelIter e hintP hintN) (2 ^ 63) :=
  Pc.It.iter_satisfies_IterSpec_two63 e he hintP hintN hH

/-- the two iterator objects of one `P2_thread` call behave like this `Iter` along their whole life: the successive
    `prev_prime()` values of `it1(stop, hint)` are `it.prev stop, it.prev (v₀ - 1), …` (exactly `P2L.outer`'s use), and every
    buffer of `it2(start, hint)` driven by `generate_next_primes()` (with `i_` written by the client) satisfies the `next_*`
    clauses at `n₀ = start`, `n_{k+1} = last_k + 1` (exactly `P2L.loop1`'s use) -/
theorem iterator_objects_follow_IterSpec (e : Env) (he : GenSpec e) (hintP hintN : ℕ → ℕ) (a hint : ℕ) (ha : a ≤ umax)
    (hh : hint ≤ umax) (js : ℕ → ℕ) (k : ℕ) :
    run e (init a hint) (List.replicate k .prev) = (prevRun (modelIter e hintP hintN) a k, none) ∧
    ∀ s, genRun e a hint js k = .ok s →
      ∃ n L, Batch s n L ∧ s.i = 0 ∧ (k = 0 → n = a) ∧
        (∀ k' s0, k = k' + 1 → genRun e a hint js k' = .ok s0 → ∃ L0, s0.buf.getLast? = some L0 ∧ n = L0 + 1) :=
  ⟨prev_run_is_Iter e he hintP hintN a hint ha hh k, next_run_is_Iter e he a hint ha hh js k⟩

/-! non-vacuity -/
example : ∃ p, p.Prime ∧ 30 < p ∧ p ≤ umax := exists_prime_two63 30 (by norm_num)
example : storePrimes (refEnv ⟨fun _ => 0, fun _ => 0, fun _ => 0, fun _ => 0⟩ (fun _ => 2)) umax 10 30
    = .ok [11, 13, 17, 19, 23, 29] := by decide +kernel
example : PrimesIn (refPrimes 10 17) 10 17 := refPrimes_spec 10 17
example : (refPrimes 10 17).getLast? = some 17 ∧ 3 ≤ (refPrimes 10 17).length := by decide +kernel
example : storeNPrimes (refEnv ⟨fun _ => 0, fun _ => 0, fun _ => 0, fun _ => 0⟩ (fun _ => 2)) umax 3 10 5
    = .ok [11, 13, 17] := by decide +kernel
example : ∀ n, (fun _ : ℕ => umax) n ≤ umax := fun _ => le_refl _

end Pc.C18

#print axioms Pc.C18.store_primes_correct
#print axioms Pc.C18.store_primes_correct_two63
#print axioms Pc.C18.store_primes_guards
#print axioms Pc.C18.store_n_primes_correct
#print axioms Pc.C18.iter_satisfies_IterSpec
#print axioms Pc.C18.iter_satisfies_IterSpec_two63
#print axioms Pc.C18.iterator_objects_follow_IterSpec
