/-
C18 (core half, second part) — the sieving core of the bundled primesieve, closed: from the building blocks of `C18Core.lean` to the
end-to-end contract.  Only property theorems, non-vacuity examples and the axiom audit live here.

Vocabulary (PcProofs/PsCore2Defs.lean, PsCore2NT.lean, PsCore2Inv.lean):
`Adv M q L n u u'` — over a segment of `n` bytes the cofactor advanced from `u` to `u'` without skipping a cofactor coprime to `M` whose
multiple lies beyond the segment; `PreOk x` — no prime `7 … 163` divides `x` properly; `Stored` / `BStored` / `BigHas` / `BigOk` — ghost
description of the sieving primes held by EratSmall / EratMedium / EratBig; `Pending M q L u` — the stored cofactor is not beyond any
multiple that still has to be crossed off; `EInv e P` — object invariant of `class Erat` between two segments, `P` = sieving numbers
added so far; `SegOk start stop L s` — bit `p` of the array `s` is set iff `numOf L p` is a prime of `[start, stop]` (and all bytes `< 256`);
`svPrimes n` — the primes of `(163, n]`, increasing; `SvpAt eratStop v k` — the `SievingPrimes` object `v` has delivered its first `k` primes;
`FloatOk l1raw start stop kib` — `maxEratMedium_ < 2^25` for the `Erat` of that run (the one fact about `double` arithmetic that is assumed).
-/
import PcProofs.PsCore2RunD

namespace Pc.C18CoreContract
open Pc.PsCore Pc.PsWheelSpec
open Pc.Sieve (Bytes bitAt)

/-- **EratSmall's unrolled loops** (`for (; i < limit; i += sievingPrime*30 + ρ) { 8 × sieve[i + sievingPrime*k + c] &= BIT; }` in front of
    `case 8g:`) are eight single wheel steps: the `switch` WITH the unrolled loops (`fast = true`) satisfies the same specification as
    without — exactly the multiples `q·t`, `u ≤ t < u'`, `t` coprime to 30, are cleared on the block, the state for the next block is
    returned, no cofactor is skipped. -/
theorem small_unrolled_loops_correct (P q Lseg base n : ℕ) (hP : 1 ≤ P) (hL : 30 ∣ Lseg) (fuel m idx : ℕ) (s : Bytes) (u : ℕ)
    (hpos : Pos 30 8 P q (Lseg + 30 * base) m idx u) (hfuel : n - m < fuel) :
    ∃ u', u ≤ u' ∧
      Pos 30 8 P q (Lseg + 30 * base + 30 * n) (crossLoop Gen.psSmallTab true P base n fuel m idx s).1
        (crossLoop Gen.psSmallTab true P base n fuel m idx s).2.1 u' ∧
      (∀ p, bitAt (crossLoop Gen.psSmallTab true P base n fuel m idx s).2.2 p = true ↔
        (bitAt s p = true ∧ ¬ Hit 30 q Lseg u u' p)) ∧
      (crossLoop Gen.psSmallTab true P base n fuel m idx s).2.2.size = s.size ∧
      ((crossLoop Gen.psSmallTab true P base n fuel m idx s).1 < P * 6 + 6 + 1 ∨
        (n ≤ m ∧ (crossLoop Gen.psSmallTab true P base n fuel m idx s).1 = m - n)) ∧
      (∀ t, u ≤ t → t < u' → Nat.Coprime t 30 → q * t < Lseg + 30 * base + 30 * n + 7) :=
  crossLoop_fast_spec P q Lseg base n hP hL fuel m idx s u hpos hfuel

/-- **EratSmall on a whole segment** (`EratSmall::crossOff(Vector&)`: L1-sized blocks, every stored prime per block, state re-packed
    between blocks): with the ghost list `gs` of the stored primes, a bit is set afterwards iff it was set and is no multiple `q·t`
    (`u ≤ t < u'`, `t` coprime to 30) of a stored prime; the states written back are `Stored` for the NEXT segment; no cofactor is skipped. -/
theorem small_segment_correct (L l1 : ℕ) (hL : 30 ∣ L) (hl1 : 0 < l1) (ps : Array SPrime) (gs : List (ℕ × ℕ)) (s : Bytes)
    (hs : s.size ≤ 2 ^ 23) (h : List.Forall₂ (Stored L) ps.toList gs) :
    ∃ gs' : List (ℕ × ℕ),
      List.Forall₂ (fun g g' => g'.1 = g.1 ∧ Adv 30 g.1 L s.size g.2 g'.2) gs gs' ∧
      List.Forall₂ (Stored (L + 30 * s.size)) (smallCrossOff l1 (s.size / l1 + 1) 0 ps s).1.toList gs' ∧
      (∀ b, bitAt (smallCrossOff l1 (s.size / l1 + 1) 0 ps s).2 b = true ↔
        (bitAt s b = true ∧ ∀ i, i < gs.length → ¬ Hit 30 (gs.getD i (0, 0)).1 L (gs.getD i (0, 0)).2 (gs'.getD i (0, 0)).2 b)) ∧
      (smallCrossOff l1 (s.size / l1 + 1) 0 ps s).2.size = s.size :=
  smallCrossOff_spec L l1 hL hl1 ps gs s hs h

/-- **EratMedium on a whole segment, with "no cofactor skipped"** (strengthens `C18Core.medium_segment_correct` by `Adv`). -/
theorem medium_segment_correct_adv (L : ℕ) (hL : 30 ∣ L) (ps : Array SPrime) (gs : List (ℕ × ℕ)) (s : Bytes) (hs : s.size ≤ 2 ^ 23)
    (h : List.Forall₂ (Stored L) ps.toList gs) :
    ∃ gs' : List (ℕ × ℕ),
      List.Forall₂ (fun g g' => g'.1 = g.1 ∧ Adv 30 g.1 L s.size g.2 g'.2) gs gs' ∧
      List.Forall₂ (Stored (L + 30 * s.size)) (mediumCrossOff ps s).1.toList gs' ∧
      (∀ b, bitAt (mediumCrossOff ps s).2 b = true ↔
        (bitAt s b = true ∧ ∀ i, i < gs.length → ¬ Hit 30 (gs.getD i (0, 0)).1 L (gs.getD i (0, 0)).2 (gs'.getD i (0, 0)).2 b)) ∧
      (mediumCrossOff ps s).2.size = s.size :=
  mediumCrossOff_spec2 L hL ps gs s hs h

/-- **EratBig on a whole segment** (`while (buckets_[0])` incl. primes that re-enter list 0, then the rotation of the bucket lists):
    for ANY array of at most `2^log2` bytes (the last segment is shorter) a bit is set afterwards iff it was set and is no multiple `q·t`,
    `t ≥ u` coprime to 210, of a held prime `(q, u)`; for a full segment the lists are valid for the next segment (list 0 was emptied,
    every prime sits in the list of the segment of its next multiple), every prime is still held, and no cofactor was skipped. -/
theorem big_segment_correct (L log2 : ℕ) (hL : 30 ∣ L) (hlog : log2 ≤ 23) (b : Buckets) (s : Bytes) (hs : s.size ≤ 2 ^ log2)
    (hok : BigOk L log2 b) :
    (bigCrossOff log2 b s).2.size = s.size ∧
    (∀ p, bitAt (bigCrossOff log2 b s).2 p = true ↔
      (bitAt s p = true ∧ ¬ ∃ q u t, BigHas L log2 b q u ∧ u ≤ t ∧ Nat.Coprime t 210 ∧ q * t = numOf L p)) ∧
    (s.size = 2 ^ log2 →
      BigOk (L + 30 * 2 ^ log2) log2 (bigCrossOff log2 b s).1 ∧
      (∀ q u, BigHas L log2 b q u → ∃ u', BigHas (L + 30 * 2 ^ log2) log2 (bigCrossOff log2 b s).1 q u' ∧ Adv 210 q L (2 ^ log2) u u') ∧
      (∀ q u', BigHas (L + 30 * 2 ^ log2) log2 (bigCrossOff log2 b s).1 q u' → ∃ u, BigHas L log2 b q u ∧ u ≤ u')) :=
  bigCrossOff_spec L log2 hL hlog b s hs hok

/-- **`EratBig::storeSievingPrime`**: when `multipleIndex ≤ sieveSize − 1 + maxNextMultiple` (its `ASSERT(segment < buckets_.size())`;
    proved from `q² ≤ segmentHigh_` in `first_mi_bound`) the prime is held afterwards with the right cofactor, nothing else changes. -/
theorem big_store_correct (L log2 : ℕ) (hL : 30 ∣ L) (b : Buckets) (q mi wi u : ℕ) (hq : 30 ≤ q) (hq32 : q < 2 ^ 32)
    (hpos : Pos 210 48 (q / 30) q L mi wi u) (hmi : mi ≤ 2 ^ log2 - 1 + (q / 30 * 10 + 10)) (hlog : log2 ≤ 23) (hok : BigOk L log2 b) :
    BigOk L log2 (bigStore log2 b q mi wi) ∧ BigHas L log2 (bigStore log2 b q mi wi) q u ∧
    (∀ q' u', BigHas L log2 b q' u' → BigHas L log2 (bigStore log2 b q mi wi) q' u') ∧
    (∀ q' u', BigHas L log2 (bigStore log2 b q mi wi) q' u' → BigHas L log2 b q' u' ∨ (q' = q ∧ u' = u)) :=
  bigStore_spec L log2 hL b q mi wi u hq hq32 hpos hmi hlog hok

/-- **Pre-sieve, byte lemma**: byte `j` of the periodic buffer of the primes `ps` (the big-number formula the generated obligations
    compare the 16 extracted buffers with) has bit `i` set iff no `p ∈ ps` divides `30 j + B_i`. -/
theorem presieve_byte (ps : List ℕ) (len j : ℕ) (hps : ∀ p ∈ ps, 0 < p ∧ p ∣ len) (hj : j < len) :
    byteOfNat (preBufPeriodic ps len) j = preByte ps j ∧
    ∀ i, (preByte ps j).testBit i = (decide (i < 8) && ps.all fun p => (30 * j + bitVals.getD i 0) % p != 0) :=
  ⟨preBufPeriodic_byte ps len j hps hj, preByte_testBit ps j⟩

/-- **`PreSieve::preSieve`** (16 buffers in 4 groups, position wrap-around, `primeBits` for `segmentLow ≤ 163`), for every segment low and
    every array: the result does not depend on the old content; bit `p` is set iff no prime `7 … 163` divides its number properly. -/
theorem presieve_correct (L : ℕ) (hL : 30 ∣ L) (s : Bytes) :
    (preSieve (preTabsDecoded ()) s L).size = s.size ∧
    (∀ i, (preSieve (preTabsDecoded ()) s L).getD i 0 < 256) ∧
    (∀ p, bitAt (preSieve (preTabsDecoded ()) s L) p = true ↔ (p < 8 * s.size ∧ PreOk (numOf L p))) :=
  preSieve_spec L hL s

/-- **`unsetSmaller` / `unsetLarger`**: `sieve[k] &= unsetSmaller[r]` keeps exactly the bits of byte `k` whose value is `≥ r`, `unsetLarger[r]`
    those `≤ r` (`7 ≤ r ≤ 36`, the range of `byteRemainder`). -/
theorem unset_masks_correct (s : Bytes) (k r p : ℕ) (hr : 7 ≤ r) (hr' : r ≤ 36) :
    bitAt (s.modify k (· &&& Gen.psUnsetSmaller.getD r 0)) p = (bitAt s p && (decide (p / 8 ≠ k) || decide (r ≤ bitVals.getD (p % 8) 0))) ∧
    bitAt (s.modify k (· &&& Gen.psUnsetLarger.getD r 0)) p = (bitAt s p && (decide (p / 8 ≠ k) || decide (bitVals.getD (p % 8) 0 ≤ r))) :=
  ⟨bitAt_unsetSmaller s k r p hr hr', bitAt_unsetLarger s k r p hr hr'⟩

/-- **`Wheel::addSievingPrime`, every segment low below 2^64** (removes the hypothesis `L + 6 + q < 2^64` of
    `C18Core.add_sieving_prime_first_multiple_*`: when `prime * quotient` wraps around 2^64 the check `multiple < segmentLow` drops the prime). -/
theorem add_sieving_prime_total_210 (stop q L : ℕ) (hq7 : 7 ≤ q) (hq32 : q < 2 ^ 32) (hq : Nat.gcd q 30 = 1)
    (hL : 30 ∣ L) (hL64 : L + 6 < 2 ^ 64) (hstop : stop < 2 ^ 64) :
    let u0 := firstFactor Gen.psWheel210Init 210 (max q ((L + 6) / q + 1))
    (q * u0 ≤ stop → ∃ mi wi, wheelAdd wheel210 stop q L = some (mi, wi) ∧ Pos 210 48 (q / 30) q L mi wi u0) ∧
    (stop < q * u0 → wheelAdd wheel210 stop q L = none) :=
  wheelAdd_total wheel210 10 Gen.psWheel210 tabOk_210 initOk_210 (by decide) (by decide) stop q L hq7 hq32 hq hL hL64 hstop

theorem add_sieving_prime_total_30 (stop q L : ℕ) (hq7 : 7 ≤ q) (hq32 : q < 2 ^ 32) (hq : Nat.gcd q 30 = 1)
    (hL : 30 ∣ L) (hL64 : L + 6 < 2 ^ 64) (hstop : stop < 2 ^ 64) :
    let u0 := firstFactor Gen.psWheel30Init 30 (max q ((L + 6) / q + 1))
    (q * u0 ≤ stop → ∃ mi wi, wheelAdd wheel30 stop q L = some (mi, wi) ∧ Pos 30 8 (q / 30) q L mi wi u0) ∧
    (stop < q * u0 → wheelAdd wheel30 stop q L = none) :=
  wheelAdd_total wheel30 6 Gen.psSmallTab tabOk_small initOk_30 (by decide) (by decide) stop q L hq7 hq32 hq hL hL64 hstop

/-- **`Erat::init` / `initAlgorithms`**: everything the proofs need about the sieve size / threshold arithmetic, derived from the code's own
    clamps for EVERY value of the three `double` products (`mulFactor` is never unfolded): `sieveSize ≤ 2^23` bytes, a multiple of 8,
    `log2 ≤ 23`, power of two whenever EratBig is used, thresholds `≤ √stop`, `segmentHigh_` arithmetic without `checkedAdd` saturation in a
    non-last segment, the last segment fits. -/
theorem erat_init_facts (l1raw start stop kib : ℕ) (h7 : 7 ≤ start) (hss : start ≤ stop) (hstop : stop < 2 ^ 64)
    (hsu : start < 2 ^ 64 - 1) (hk : 16 ≤ kib) (hk2 : kib ≤ 8192) :
    InitFacts start stop (eratInit l1raw start stop kib) :=
  eratInit_facts l1raw start stop kib h7 hss hstop hsu hk hk2

/-- the only bound that depends on the `double` product `sieveSize * 3.0` holds unconditionally below `2^50` (`maxEratMedium_ ≤ √stop`) -/
theorem erat_init_medium_lt (l1raw start stop kib : ℕ) (h7 : 7 ≤ start) (hss : start ≤ stop) (hstop : stop < 2 ^ 64)
    (hsu : start < 2 ^ 64 - 1) (hk : 16 ≤ kib) (hk2 : kib ≤ 8192) (h50 : stop < 2 ^ 50) :
    (eratInit l1raw start stop kib).maxEratMedium < 2 ^ 25 :=
  eratInit_medium_lt l1raw start stop kib h7 hss hstop hsu hk hk2 h50

/-- **`Erat::init` establishes the object invariant.** -/
theorem erat_invariant_init (l1raw start stop kib : ℕ) (h7 : 7 ≤ start) (hss : start ≤ stop) (hstop : stop < 2 ^ 64)
    (hsu : start < 2 ^ 64 - 1) (hk : 16 ≤ kib) (hk2 : kib ≤ 8192)
    (hmed : (eratInit l1raw start stop kib).maxEratMedium < 2 ^ 25) :
    EInv (eratInit l1raw start stop kib) (fun _ => False) :=
  einv_init l1raw start stop kib h7 hss hstop hsu hk hk2 hmed

/-- **`Erat::addSievingPrime(q)` preserves the object invariant** for a sieving number `q > 163` coprime to 30 with `q² ≤ segmentHigh_`
    (the loop condition of both callers): dispatch by size class, first multiple, packing (`multipleIndex < 2^23` proved), bucket index. -/
theorem erat_invariant_add {e : Erat} {P : ℕ → Prop} (h : EInv e P) (q : ℕ) (hq : 163 < q) (hc : Nat.Coprime q 30)
    (hqq : q * q ≤ e.segmentHigh) : EInv (e.addSievingPrime q) (fun x => P x ∨ x = q) :=
  einv_add h q hq hc hqq

/-- **`segment_sieve_correct`**: for every segment of every run (any sieve size `Erat::init` can pick, any segment low up to 2^64): if every
    prime `q ∈ (163, √segmentHigh_]` has been added, then after `Erat::sieveSegment()` bit `p` of the sieve array is set iff its number is a prime
    of `[start, stop]` (composites are crossed off by the pre-sieve or by their least prime factor's wheel walk; primes are never touched;
    `unsetSmaller` / `unsetLarger` cut the range), all bytes are `< 256`; unless it was the last segment the invariant holds again with
    `segmentLow_ += 30·size`; after the last segment `segmentLow_ = stop` and the array ends with the byte of `stop`. -/
theorem segment_sieve_correct {e : Erat} {P : ℕ → Prop} (h : EInv e P)
    (hP : ∀ q, Nat.Prime q → 163 < q → q * q ≤ e.segmentHigh → P q) :
    SegOk e.start e.stop e.segmentLow (e.sieveSegment (preTabsDecoded ())).sieve ∧
    (e.sieveSegment (preTabsDecoded ())).start = e.start ∧ (e.sieveSegment (preTabsDecoded ())).stop = e.stop ∧
    (e.segmentHigh < e.stop →
      EInv (e.sieveSegment (preTabsDecoded ())) P ∧
      (e.sieveSegment (preTabsDecoded ())).segmentLow = e.segmentLow + 30 * e.sieve.size ∧
      (e.sieveSegment (preTabsDecoded ())).sieve.size = e.sieve.size ∧
      (e.sieveSegment (preTabsDecoded ())).segmentHigh = min (e.segmentHigh + 30 * e.sieve.size) e.stop) ∧
    (e.stop ≤ e.segmentHigh →
      (e.sieveSegment (preTabsDecoded ())).segmentLow = e.stop ∧
      (e.sieveSegment (preTabsDecoded ())).sieve.size = (e.stop - byteRemainder e.stop - e.segmentLow) / 30 + 1) :=
  einv_sieve h hP

/-- **`SievingPrimes::tinySieve`**: the odd sieve up to `√stop` marks exactly the odd primes. -/
theorem tiny_sieve_correct (stop i : ℕ) (hi : i ≤ Nat.sqrt stop) (h3 : 3 ≤ i) (hodd : i % 2 = 1) :
    ((tinySieve stop).getD i false = true ↔ Nat.Prime i) :=
  tinySieve_spec stop i hi h3 hodd

/-- **`SievingPrimes`** (an `Erat` over `[165, √stop]` fed by `tinySieve`, i.e. the recursion of the sieve on `√stop`): the `k`-th call of
    `next()` returns the `k`-th prime of `(163, √stop]`, and `~0ull` after the last one; the model's fuel for `next` / `fill` is sufficient. -/
theorem sieving_primes_correct (l1raw eratStop kib : ℕ) (hs : eratStop < 2 ^ 64) (hk : 16 ≤ kib) (hk2 : kib ≤ 8192) :
    SvpAt eratStop (svpInit l1raw eratStop kib) 0 ∧
    ∀ (v : SvP) (k : ℕ), SvpAt eratStop v k →
      (SvP.next (preTabsDecoded ()) v.nextFuel v).1 = (svPrimes (Nat.sqrt eratStop)).getD k u64Max ∧
      SvpAt eratStop (SvP.next (preTabsDecoded ()) v.nextFuel v).2 (k + 1) :=
  ⟨svp_init_at l1raw eratStop kib hs hk hk2, fun v k h => svp_next_at eratStop v k h⟩

/-- **One sieve run** (`Erat` + `SievingPrimes`, the segment loop of `CountPrintPrimes::sieve` / `PrimeGenerator::sieveSegment`, extraction of every
    segment): the numbers read from all segments of the run over `[start, stop]` (`start ≥ 7`) are exactly the primes of `[start, stop]`, increasing.
    `FloatOk` is the ONE assumption about `double` arithmetic (`maxEratMedium_ = (uint64)(sieveSize * 3.0) < 2^25`), see `float_ok_below_2_50`. -/
theorem sieve_run_correct (l1raw start stop kib : ℕ) (h7 : 7 ≤ start) (hstop : stop < 2 ^ 64) (hk : 16 ≤ kib) (hk2 : kib ≤ 8192)
    (hfl : FloatOk l1raw start stop kib) :
    runPrimes (sieveRun (preTabsDecoded ()) l1raw start stop kib) =
      (List.range (stop + 1)).filter (fun p => decide (start ≤ p) && decide (Nat.Prime p)) :=
  sieveRun_primes l1raw start stop kib h7 hstop hk hk2 hfl

/-- `FloatOk` holds unconditionally for `stop < 2^50` (then `maxEratMedium_ ≤ √stop < 2^25` whatever the product is). -/
theorem float_ok_below_2_50 (l1raw start stop kib : ℕ) (h7 : 7 ≤ start) (hss : start ≤ stop) (hk : 16 ≤ kib) (hk2 : kib ≤ 8192)
    (h50 : stop < 2 ^ 50) : FloatOk l1raw start stop kib :=
  floatOk_of_lt l1raw start stop kib h7 hss hk hk2 h50

/-- **`generator_contract`**: `PrimeGenerator(start, stop)` driven by `fillNextPrimes` until the end — the `smallPrimes` prefix (`primePi`
    indexing) followed by the sieve over `[max(start, 721), stop]` — yields, concatenated over all batches, exactly the primes of
    `[start, stop]` in increasing order, for every `0 ≤ start`, `stop < 2^64` (empty ranges and `start = 2^64 − 1` included). -/
theorem generator_contract (l1raw start stop kib : ℕ) (hstop : stop < 2 ^ 64) (hk : 16 ≤ kib) (hk2 : kib ≤ 8192)
    (hfl : FloatOk l1raw (max 721 start) stop kib) :
    generatePrimes (preTabsDecoded ()) l1raw start stop kib =
      (List.range (stop + 1)).filter (fun p => decide (start ≤ p) && decide (Nat.Prime p)) :=
  Pc.PsCore.generator_contract l1raw start stop kib hstop hk hk2 hfl

/-- **`count_contract`**: `PrimeSieve::countPrimes(start, stop)` (2, 3, 5 by `processSmallPrimes`, popcount over every segment of the sieve over
    `[max(start, 7), stop]`) is the number of primes of `[start, stop]`. -/
theorem count_contract (l1raw start stop kib : ℕ) (hstop : stop < 2 ^ 64) (hk : 16 ≤ kib) (hk2 : kib ≤ 8192)
    (hfl : FloatOk l1raw (max start 7) stop kib) :
    countPrimes (preTabsDecoded ()) l1raw start stop kib =
      ((List.range (stop + 1)).filter (fun p => decide (start ≤ p) && decide (Nat.Prime p))).length :=
  Pc.PsCore.count_contract l1raw start stop kib hstop hk hk2 hfl

/-- `generator_contract` in the shape of a generator specification (C17's `PrimeGenSpec`, WP iter's `GenSpec`): strictly increasing, and
    `p` is delivered iff it is a prime of `[start, stop]`. -/
theorem generator_contract_spec (l1raw start stop kib : ℕ) (hstop : stop < 2 ^ 64) (hk : 16 ≤ kib) (hk2 : kib ≤ 8192)
    (hfl : FloatOk l1raw (max 721 start) stop kib) :
    (generatePrimes (preTabsDecoded ()) l1raw start stop kib).Pairwise (· < ·) ∧
    ∀ p, p ∈ generatePrimes (preTabsDecoded ()) l1raw start stop kib ↔ (start ≤ p ∧ p ≤ stop ∧ Nat.Prime p) := by
  rw [generator_contract l1raw start stop kib hstop hk hk2 hfl]
  refine ⟨List.Pairwise.filter _ List.pairwise_lt_range, fun p => ?_⟩
  simp only [List.mem_filter, List.mem_range, Bool.and_eq_true, decide_eq_true_eq]
  constructor
  · rintro ⟨h1, h2, h3⟩; exact ⟨h2, by omega, h3⟩
  · rintro ⟨h1, h2, h3⟩; exact ⟨by omega, h1, h3⟩

/-- the contracts without any assumption, below `2^50` -/
theorem generator_contract_below_2_50 (l1raw start stop kib : ℕ) (h50 : stop < 2 ^ 50) (hk : 16 ≤ kib) (hk2 : kib ≤ 8192) :
    generatePrimes (preTabsDecoded ()) l1raw start stop kib =
      (List.range (stop + 1)).filter (fun p => decide (start ≤ p) && decide (Nat.Prime p)) := by
  have hstop : stop < 2 ^ 64 := lt_trans h50 (by norm_num)
  by_cases hss : max 721 start ≤ stop
  · exact generator_contract l1raw start stop kib hstop hk hk2
      (floatOk_of_lt l1raw (max 721 start) stop kib (by omega) hss hk hk2 h50)
  · -- the sieve part is not entered; `FloatOk` of an empty `Erat` (`maxEratMedium = 0`)
    refine generator_contract l1raw start stop kib hstop hk hk2 ?_
    unfold FloatOk eratInit
    rw [if_pos (Or.inl (by omega))]
    norm_num

theorem count_contract_below_2_50 (l1raw start stop kib : ℕ) (h50 : stop < 2 ^ 50) (hk : 16 ≤ kib) (hk2 : kib ≤ 8192) :
    countPrimes (preTabsDecoded ()) l1raw start stop kib =
      ((List.range (stop + 1)).filter (fun p => decide (start ≤ p) && decide (Nat.Prime p))).length := by
  have hstop : stop < 2 ^ 64 := lt_trans h50 (by norm_num)
  by_cases hss : max start 7 ≤ stop
  · exact count_contract l1raw start stop kib hstop hk hk2
      (floatOk_of_lt l1raw (max start 7) stop kib (by omega) hss hk hk2 h50)
  · refine count_contract l1raw start stop kib hstop hk hk2 ?_
    unfold FloatOk eratInit
    rw [if_pos (Or.inl (by omega))]
    norm_num

/-! non-vacuity (tests, labelled as such) -/

/-- the object invariant is satisfiable: a freshly initialised `Erat` over `[7, 10^6]` -/
example : EInv (eratInit 32768 7 1000000 16) (fun _ => False) :=
  erat_invariant_init 32768 7 1000000 16 (by norm_num) (by norm_num) (by norm_num) (by norm_num) (by norm_num) (by norm_num)
    (erat_init_medium_lt 32768 7 1000000 16 (by norm_num) (by norm_num) (by norm_num) (by norm_num) (by norm_num) (by norm_num) (by norm_num))
/-- … and its first segment can be sieved: the hypothesis `hP` of `segment_sieve_correct` is vacuous only when `segmentHigh < 167²`; here it is
    discharged for a run `[7, 20000]` (`√20000 < 167`) -/
example : SegOk 7 20000 0 ((eratInit 32768 7 20000 16).sieveSegment (preTabsDecoded ())).sieve := by
  have hinv := erat_invariant_init 32768 7 20000 16 (by norm_num) (by norm_num) (by norm_num) (by norm_num) (by norm_num) (by norm_num)
    (erat_init_medium_lt 32768 7 20000 16 (by norm_num) (by norm_num) (by norm_num) (by norm_num) (by norm_num) (by norm_num) (by norm_num))
  have hf := erat_init_facts 32768 7 20000 16 (by norm_num) (by norm_num) (by norm_num) (by norm_num) (by norm_num) (by norm_num)
  have h := (segment_sieve_correct hinv (fun q _ hq hqq => by
    have h1 : q * q ≤ 20000 := le_trans hqq hf.high_le
    have h2 : 164 * 164 ≤ q * q := Nat.mul_le_mul hq hq
    omega)).1
  rw [hf.start_eq, hf.stop_eq, hf.low_eq] at h
  exact h
example : ¬ PreOk 169 := by
  intro h; have := h 13 (by norm_num) (by norm_num) (by norm_num) (by norm_num); omega
example : Adv 30 7 0 3 7 11 := ⟨by norm_num, fun t h1 h2 _ => by omega⟩
/-- the contracts are about non-trivial runs: `FloatOk` of a real run, and the end-to-end statement instantiated -/
example : FloatOk 32768 721 1000000 16 := float_ok_below_2_50 32768 721 1000000 16 (by norm_num) (by norm_num) (by norm_num) (by norm_num) (by norm_num)
example : generatePrimes (preTabsDecoded ()) 32768 0 1000000 16 =
    (List.range 1000001).filter (fun p => decide (0 ≤ p) && decide (Nat.Prime p)) :=
  generator_contract_below_2_50 32768 0 1000000 16 (by norm_num) (by norm_num) (by norm_num)

end Pc.C18CoreContract

#print axioms Pc.C18CoreContract.small_unrolled_loops_correct
#print axioms Pc.C18CoreContract.small_segment_correct
#print axioms Pc.C18CoreContract.medium_segment_correct_adv
#print axioms Pc.C18CoreContract.big_segment_correct
#print axioms Pc.C18CoreContract.big_store_correct
#print axioms Pc.C18CoreContract.presieve_byte
#print axioms Pc.C18CoreContract.presieve_correct
#print axioms Pc.C18CoreContract.unset_masks_correct
#print axioms Pc.C18CoreContract.add_sieving_prime_total_210
#print axioms Pc.C18CoreContract.add_sieving_prime_total_30
#print axioms Pc.C18CoreContract.erat_init_facts
#print axioms Pc.C18CoreContract.erat_init_medium_lt
#print axioms Pc.C18CoreContract.erat_invariant_init
#print axioms Pc.C18CoreContract.erat_invariant_add
#print axioms Pc.C18CoreContract.segment_sieve_correct
#print axioms Pc.C18CoreContract.tiny_sieve_correct
#print axioms Pc.C18CoreContract.sieving_primes_correct
#print axioms Pc.C18CoreContract.sieve_run_correct
#print axioms Pc.C18CoreContract.float_ok_below_2_50
#print axioms Pc.C18CoreContract.generator_contract
#print axioms Pc.C18CoreContract.count_contract
#print axioms Pc.C18CoreContract.generator_contract_spec
#print axioms Pc.C18CoreContract.generator_contract_below_2_50
#print axioms Pc.C18CoreContract.count_contract_below_2_50
