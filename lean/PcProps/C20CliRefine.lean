/-
C20 (WP cli2) — the L2 command-line model refines the L1 API machine behind C20 `status_same_number`.
Only property theorems, non-vacuity examples and the axiom audit live here.

Vocabulary: PcModel/Cli.lean (`applyItem` = one iteration of the switch of `parseOptions`, `parseOptions`, `cliMain`),
PcModel/ApiState.lean (the L1 machine: `CliOpt`, `cliOption`, `cliRun`), PcProofs/CliRefine.lean (`itemCliOpt` = the L1
option a parsed item denotes, `stepL1` = `cliOption` or nothing, `cliOpts argv` = the L1 options of the items of argv in
order, `l1State` = their `cliOption`-fold from (σ₀, false), `apiOfCli alg` = `alg` seen as the L1 machine's `pi(string)`).
-/
import PcProofs.CliRefine

namespace Pc.C20CliRefine
open Pc.Calc Pc.Cli

/-- **Each parsed item's effect on the API state is `Pc.cliOption`.** One iteration of the switch of `parseOptions` that
    does not end the run maps (σ, opts.time) to `cliOption hw (σ, time) o` when the item denotes the L1 option `o`
    (`-t`, `-s[N]`, `--time`, `--alpha*` in any spelling) and leaves both unchanged otherwise (numbers, main options). -/
theorem item_effect_is_cliOption (hw : ApiHw) (stod : Bytes → Option AlphaArg) (s s' : PState) (it : Item)
    (h : applyItem hw stod s it = .cont s') :
    (s'.σ, s'.time) = stepL1 hw (s.σ, s.time) (itemCliOpt stod it) :=
  Pc.Cli.item_effect_is_cliOption h

/-- **State refinement.** The settings σ and `opts.time` with which main runs are the L1 fold of `cliOption` over the
    command line's options, in argv order, from the state of a fresh process. -/
theorem cli_state_refines_api_machine (hw : ApiHw) (stod : Bytes → Option AlphaArg) (argv : List Bytes) (o : CmdOpts)
    (h : parseOptions hw stod argv = .ok o) :
    (o.σ, o.time) = (cliOpts stod argv).foldl (cliOption hw) (ApiState.init, false) :=
  parseOptions_refines h

/-- **Every printed number is computed under the L1 machine's configuration** — for every main option (not only the
    default one): a result line `v` is the value of the call main made, under `config` of the L1 state, and `Seconds`
    follows iff the L1 machine's time flag is set. -/
theorem cli_result_under_api_machine_state (hw : ApiHw) (stod : Bytes → Option AlphaArg) (alg : CliAlg) (argv : List Bytes)
    (v : Int) (hv : OutItem.result v ∈ (cliMain hw stod alg argv).stdout) :
    ∃ c, (cliMain hw stod alg argv).call = some c ∧ alg ((l1State hw stod argv).1.config hw) c = some v ∧
      (OutItem.seconds ∈ (cliMain hw stod alg argv).stdout ↔ (l1State hw stod argv).2 = true) :=
  cliMain_result_l1 hw stod alg argv v hv

/-- **`cliMain` refines `cliRun`** (the machine C20 `status_same_number` is about). For an accepted command line without a
    main option and any text `xs` whose checked value is the run's `x`: the L1 run yields the number `v` iff the program
    exits 0 and prints the result line `v` (and no other result line); it yields an error iff the program exits 1 with
    the library's error; one of the two happens; `Seconds` is printed iff the L1 run says so. -/
theorem cli_run_refines_api_machine (hw : ApiHw) (stod : Bytes → Option AlphaArg) (alg : CliAlg) (argv : List Bytes)
    (o : CmdOpts) (h : parseOptions hw stod argv = .ok o) (hdef : o.option = .default) (xs : Bytes)
    (hxs : toMaxint xs = .ok o.x) :
    let out := cliRun hw (apiOfCli alg) (cliOpts stod argv) xs
    let r := cliMain hw stod alg argv
    (∀ v, out.number = some (.int v) ↔ (r.exit = 0 ∧ OutItem.result v ∈ r.stdout)) ∧
    (out.number = some .err ↔ (r.exit = 1 ∧ r.err = some .lib)) ∧
    (out.number = some .err ∨ ∃ v, out.number = some (.int v)) ∧
    (r.exit = 0 → (out.seconds = true ↔ OutItem.seconds ∈ r.stdout)) ∧
    (∀ v w, OutItem.result v ∈ r.stdout → OutItem.result w ∈ r.stdout → v = w) :=
  cliMain_refines_cliRun hw stod alg argv o h hdef xs hxs

/-- the text `xs` exists: it is the value text of the first number item of the command line -/
theorem cli_run_text_exists (hw : ApiHw) (stod : Bytes → Option AlphaArg) (argv : List Bytes) (o : CmdOpts)
    (h : parseOptions hw stod argv = .ok o) : ∃ it ∈ items argv, it.id = .number ∧ toMaxint it.val = .ok o.x := by
  obtain ⟨_, _, _, _, p4, _⟩ := parseOptions_ok h
  have hm : o.x ∈ numberValues (items argv) := by
    cases hn : numberValues (items argv) with
    | nil => rw [hn] at p4; cases p4
    | cons a l => rw [hn] at p4; cases p4; exact List.mem_cons_self ..
  obtain ⟨it, h1, h2, h3, _⟩ := numberValues_exact _ _ hm
  exact ⟨it, h1, h2, h3⟩

/-! non-vacuity (tests): the hypotheses are satisfiable and the L1 options are the expected ones -/
example : cliOpts stodDemo (["100", "-s3", "--time", "-t", "4294967297", "--alpha-y=2", "--lmo"].map ofStr) =
    [.status (some 3), .time, .threads 1, .alphaY ⟨false, 2000⟩] := by decide +kernel
example : parseOptions ⟨8, 8⟩ stodDemo (["1e2", "--status=2", "-t", "3"].map ofStr) =
    .ok ⟨setThreads ⟨8, 8⟩ (setStatusPrecision (setPrint ApiState.init true) 2) 3, .default, 100, -1, true⟩ := by decide +kernel
example : toMaxint (ofStr "1e2") = .ok 100 := by decide +kernel
example : cliRun ⟨8, 8⟩ (apiOfCli algDemo) (cliOpts stodDemo (["1e2", "--status=2", "-t", "3"].map ofStr)) (ofStr "1e2") =
    ⟨some (.int 100000), true⟩ := by decide +kernel
example : (run ["1e2", "--status=2", "-t", "3"]).stdout = [.statusOutput, .blank, .result 100000, .seconds] := by decide +kernel
example : applyItem ⟨8, 8⟩ stodDemo {} ⟨ofStr "-t", ofStr "-t", ofStr "5", .threads⟩ =
    .cont { σ := setThreads ⟨8, 8⟩ ApiState.init 5 } := by decide +kernel

end Pc.C20CliRefine

#print axioms Pc.C20CliRefine.item_effect_is_cliOption
#print axioms Pc.C20CliRefine.cli_state_refines_api_machine
#print axioms Pc.C20CliRefine.cli_result_under_api_machine_state
#print axioms Pc.C20CliRefine.cli_run_refines_api_machine
#print axioms Pc.C20CliRefine.cli_run_text_exists
