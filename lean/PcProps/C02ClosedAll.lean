/-
C02 (WP close3, item 2): `pi_gourdon_64/128(x)` = π(x) for EVERY `x` of the type — the domain restriction of the Gourdon theorems is gone.
History: WP close `x < 2 ∨ 2401 ≤ x`; WP close2 `x < 2 ∨ 16 ≤ x` (PcProps/C02ClosedSmall.lean), then `x < 8 ∨ 16 ≤ x` (PcProps/C02ClosedTiny.lean).
Here the last eight arguments, on which the clamps of pi_gourdon.cpp degenerate to `y = z ≤ x^(1/3)` so that Gourdon's identity is not available:
* `x = 8` (`y = z = 1`, `x^(1/3) = 2 > y`): the Sigma model unfolded over the abstract table, Σ = −2 (`sigma_at_eight`); AC = 0 (`ac_entry_eight`);
  `0 − 2 + 0 + 8 − 2 = 4 = π(8)`.
* `9 ≤ x ≤ 15` (`y = z = 2`, `x⋆ = 2`): Σ = 1, Φ0 = x − ⌊x/2⌋, B = π(x/3), AC = 0 (`ac_entry_two`; the C2 loop runs `b = 1` in the segment ending at 3 for
  `x = 9, 10, 11` and finds no leaf), D = 0; `0 − π(x/3) + 0 + x − ⌊x/2⌋ + 1 = π(x)`.
Each term by the model of its real control flow over generic tables `T` (`TablesOK`) and the closed execution structure `GExecC`.
Only property theorems, non-vacuity examples and the axiom audit live here.
-/
import PcProofs.Close3Ex

namespace Pc.C02ClosedAll
open Pc.Top Pc.Hard Pc.LB Nat
open scoped Nat.Prime

/-- **`sigma_at_eight`** — the model of `Sigma(x, y)` (Sigma.cpp) at `(8, 1)`, outside the hypothesis `x^(1/3) ≤ y` of `sigma_eq_NT`: no failing check, value −2 -/
theorem sigma_at_eight {t : NT} (hv : t.Valid) (hb : 8 ≤ t.bound) (w : ITy) (hw : 4 ≤ w.maxVal) : sigma t w 8 1 = .ok (-2) :=
  sigma_eight hv hb w hw

/-- **`ac_entry_eight`** — the model of `AC` at `x = 8`, `(y, z, k) = (1, 1, 0)`: 0 for every distribution of the (empty) C1 loop and every chain of segments -/
theorem ac_entry_eight (f : Easy.ACFile) {t : NT} (hv : t.Valid) (hb : 2 ≤ t.bound) (w : ITy)
    {c1sched : List (List ℕ)} (hs : IsSchedule (Easy.c1Lo t 8 1 0) (Easy.c1Hi t 1) c1sched)
    (l : List ℕ) (hl : (0 :: l).Pairwise (· < ·)) (hlast : (0 :: l).getLast (List.cons_ne_nil _ _) = Nat.sqrt 8)
    {segs : List (ℕ × ℕ)} (hsegs : segs.Perm (Easy.chainPairs (0 :: l))) :
    Easy.acEntry f t w 8 1 1 0 c1sched segs = .ok 0 :=
  Easy.acEntry_eight f hv hb w hs l hl hlast hsegs

/-- **`ac_entry_two`** — the model of `AC` for `9 ≤ x < 16`, `(y, z, k) = (2, 2, 0)`: 0 for every distribution of the (empty) C1 loop and every chain of segments
    `0 < … < 3` in any order, with no out-of-bounds read -/
theorem ac_entry_two (f : Easy.ACFile) {t : NT} (hv : t.Valid) (hb : 2 ≤ t.bound) (w : ITy) {x : ℕ} (h9 : 9 ≤ x) (h16 : x < 16)
    {c1sched : List (List ℕ)} (hs : IsSchedule (Easy.c1Lo t x 2 0) (Easy.c1Hi t 2) c1sched)
    (l : List ℕ) (hl : (0 :: l).Pairwise (· < ·)) (hlast : (0 :: l).getLast (List.cons_ne_nil _ _) = Nat.sqrt x)
    {segs : List (ℕ × ℕ)} (hsegs : segs.Perm (Easy.chainPairs (0 :: l))) :
    Easy.acEntry f t w x 2 2 0 c1sched segs = .ok 0 :=
  Easy.acEntry_two f hv hb w h9 h16 hs l hl hlast hsegs

/-- **`gourdon_clamps_lt16`** — the parameters `pi_gourdon_*` derives below 16 do not depend on the floats: `y = z = 1` for `2 ≤ x < 9`, `y = z = 2` for `9 ≤ x < 16`, `k = 0` -/
theorem gourdon_clamps_lt16 {x : ℕ} (h2 : 2 ≤ x) (h16 : x < 16) (v : ℤ) (w : ℤ → ℤ) :
    getK x = 0 ∧ ((x < 9 ∧ gY x v = 1 ∧ gZ x 1 (w 1) = 1) ∨ (9 ≤ x ∧ gY x v = 2 ∧ gZ x 2 (w 2) = 2)) := by
  refine ⟨getK_tiny (by omega) h16, ?_⟩
  by_cases h9 : x < 9
  · exact Or.inl ⟨h9, gY_tiny (by omega) h9 _, gZ_tiny (by omega) h9 _⟩
  · exact Or.inr ⟨by omega, gY_two (by omega) h16 _, gZ_two (by omega) h16 _⟩

/-- **`piGourdon_lt16_eq_pi`** — `pi_gourdon_64/128(x)` for every `2 ≤ x < 16`, generic tables `T`, from `TablesOK` and `GExecC` alone (no hook, no model
    hypothesis): the result is π(x), or `badRun` for a recorded D history that is not a run of the dispenser -/
theorem piGourdon_lt16_eq_pi {σ : Type} (T : Tables σ) {B : ℕ} (hT : TablesOK T B) (pi : ℕ → ℕ) (wide : Bool) (n : ℕ)
    (h2 : 2 ≤ n) (h16 : n < 16) (threads : ℤ) (isPrint : Bool) (r : GRun)
    (hpi : ∀ m : ℕ, m < n → pi m = π m) (hex : GExecC T B wide n r) :
    piGourdon T pi wide (n : ℤ) threads isPrint r = .ok (π n : ℤ) ∨
      piGourdon T pi wide (n : ℤ) threads isPrint r = .error (.hard .badRun) :=
  piGourdon_tiny_lt16 T hT pi wide n h2 h16 threads isPrint r hpi hex

/-- **`piGourdon_eq_pi`** — `piGourdon_eq_pi` of PcProps/C02Closed.lean for EVERY `x` of the type (`InType wide x`): NO domain restriction.
    Hypotheses = those of `piGourdon_eq_pi_lt8_or_ge16_partial` minus `hsmall`. -/
theorem piGourdon_eq_pi {σ : Type} (T : Tables σ) {B : ℕ} (hT : TablesOK T B) (pi : ℕ → ℕ) (wide : Bool) (x : ℤ)
    (hx : InType wide x) (threads : ℤ) (isPrint : Bool) (r : GRun)
    (hpi : ∀ n : ℕ, (n : ℤ) < x → n < 2 ^ 63 → pi n = π n) (hex : 2 ≤ x → GExecC T B wide x.toNat r) :
    piGourdon T pi wide x threads isPrint r = .ok (π x.toNat : ℤ) ∨
      piGourdon T pi wide x threads isPrint r = .error (.hard .badRun) :=
  piGourdon_total_closed_all T hT pi wide x hx threads isPrint r hpi hex

/-- **`piGourdon_eq_pi_to`** — the same with the iterator contract up to `N` only (the form the world theorems use) -/
theorem piGourdon_eq_pi_to {σ : Type} (T : Tables σ) {B N : ℕ} (hT : TablesOK (T.withIt (P2L.patch T.it N)) B)
    (hit : P2L.IterSpecTo T.it N) (hN : 2 ^ 64 - 2 ^ 32 ≤ N) (pi : ℕ → ℕ) (wide : Bool) (x : ℤ)
    (hx : InType wide x) (threads : ℤ) (isPrint : Bool) (r : GRun)
    (hpi : ∀ n : ℕ, (n : ℤ) < x → n < 2 ^ 63 → pi n = π n) (hex : 2 ≤ x → GExecC T B wide x.toNat r) :
    piGourdon T pi wide x threads isPrint r = .ok (π x.toNat : ℤ) ∨
      piGourdon T pi wide x threads isPrint r = .error (.hard .badRun) :=
  piGourdon_total_to_all T hT hit hN pi wide x hx threads isPrint r hpi hex

/-! non-vacuity (tests, labelled as such): complete executions of `pi_gourdon_64(10)` and `pi_gourdon_64(8)` -/

/-- the float envelope on the floats of `pi_gourdon_64(10)` (`alpha_y = alpha_z = 1`); the clamps give `y = z = 2`, `k = 0` -/
example : GourdonEnv 10 1 1 ex10GFloats := ex10GEnv
example : gY 10 ex10GFloats.v = 2 ∧ gZ 10 2 (ex10GFloats.w 2) = 2 ∧ getK 10 = 0 := ⟨ex10GY, ex10GZ, ex10GK⟩
/-- recorded valid runs of B's region: chunk `[3, 5)` for `x = 10`, `[2, 8)` for `x = 8` -/
example : ex10BRun.valid LB.genConsts 10 (10 / max 2 1) = true := by decide
example : ex8BRun.valid LB.genConsts 8 (8 / max 1 1) = true := by decide
/-- COMPLETE instances of the hypotheses at `x = 10` (AC segment `[0, 3)`: the C2 loop runs `b = 1`) and `x = 8`, and the theorems applied to them
    (empty D history ⇒ the model answers `badRun`) -/
example : GExecC (idealTables 3000) 100 false 10 (ex10GRun (idealTables 3000).t) :=
  ex10GExecC_of _ rfl (by show 5 ≤ 3000; norm_num) (by show 3000 ≤ _; decide)
example : GExecC (idealTables 3000) 100 false 8 (ex8GRun (idealTables 3000).t) :=
  ex8GExecC_of _ rfl (by show 8 ≤ 3000; norm_num) (by show 3000 ≤ _; decide)
example := piGourdon_lt16_eq_pi (idealTables 3000) (idealTables_ok 3000 100) Nat.primeCounting false 10 (by norm_num) (by norm_num) 1 false
  (ex10GRun (idealTables 3000).t) (fun _ _ => rfl) (ex10GExecC_of _ rfl (by show 5 ≤ 3000; norm_num) (by show 3000 ≤ _; decide))
example := piGourdon_eq_pi (idealTables 3000) (idealTables_ok 3000 100) Nat.primeCounting false 10
  (by unfold InType; norm_num) 1 false (ex10GRun (idealTables 3000).t) (fun _ _ _ => rfl)
  (fun _ => ex10GExecC_of _ rfl (by show 5 ≤ 3000; norm_num) (by show 3000 ≤ _; decide))
example := piGourdon_eq_pi (idealTables 3000) (idealTables_ok 3000 100) Nat.primeCounting false 8
  (by unfold InType; norm_num) 1 false (ex8GRun (idealTables 3000).t) (fun _ _ _ => rfl)
  (fun _ => ex8GExecC_of _ rfl (by show 8 ≤ 3000; norm_num) (by show 3000 ≤ _; decide))
/-- the AC model on the segment `[0, 3)` of `x = 10` really evaluates to 0 (the theorem applied to the concrete table) -/
example : Easy.acEntry .libdivide (idealTables 3000).t .i64 10 2 2 0
    (staticSched1 (Easy.c1Lo (idealTables 3000).t 10 2 0) (Easy.c1Hi (idealTables 3000).t 2) 3) [(0, 3)] = .ok 0 :=
  ac_entry_two .libdivide (idealTables_ok 3000 100).valid (by show 2 ≤ 3000; norm_num) .i64 (by norm_num) (by norm_num)
    (staticSched1_isSchedule _ _ (by decide)) [3] (by simp) (by rw [sqrt_10]; rfl) (List.Perm.refl _)

end Pc.C02ClosedAll

#print axioms Pc.C02ClosedAll.sigma_at_eight
#print axioms Pc.C02ClosedAll.ac_entry_eight
#print axioms Pc.C02ClosedAll.ac_entry_two
#print axioms Pc.C02ClosedAll.gourdon_clamps_lt16
#print axioms Pc.C02ClosedAll.piGourdon_lt16_eq_pi
#print axioms Pc.C02ClosedAll.piGourdon_eq_pi
#print axioms Pc.C02ClosedAll.piGourdon_eq_pi_to
