/-
C13 (WP cli2) — the theorems behind the verdicts on the recorded parser oddities (notes/wp-cli2.md, "Verdicts"): whatever
is silently discarded (surplus numbers, a value glued to an option that takes none, the high bits of a thread count), the
count that is printed is the count for a number that an argument of the command line denotes, under the function that the
key of its only main option denotes.
Only property theorems, non-vacuity examples and the axiom audit live here. Vocabulary: PcProps/C13Cli.lean.
-/
import PcProofs.CliRefine

namespace Pc.C13CliVerdict
open Pc.Calc Pc.Cli

/-- **No count for a number nobody wrote.** Every printed result `v` is `d.fn(x[, a])` where `d` is the `case` of the
    selected main option and `x` is the exact value (checked evaluator, syntax tree with every intermediate in int128) of
    the text of a number item that `parseOption` cut out of argv — the first one. -/
theorem printed_count_is_for_a_denoted_argument (hw : ApiHw) (stod : Bytes → Option AlphaArg) (alg : CliAlg)
    (argv : List Bytes) (v : Int) (hv : OutItem.result v ∈ (cliMain hw stod alg argv).stdout) :
    ∃ d x cfg a, dispatchOf (selected (items argv)) = some d ∧ alg cfg ⟨d.fn, x, a, d.threads⟩ = some v ∧
      (numberValues (items argv)).head? = some x ∧
      ∃ it ∈ items argv, it.id = .number ∧ toMaxint it.val = .ok x ∧
        ∃ e, calcTree it.val = .ok e ∧ evalExact e = some x ∧ InRange e := by
  obtain ⟨_, _, _, d, x, cfg, h1, h2, _, h4, h5⟩ := (cliMain_exact_or_error hw stod alg argv).2.2 v hv
  have hm : x ∈ numberValues (items argv) := by
    cases hn : numberValues (items argv) with
    | nil => rw [hn] at h2; cases h2
    | cons a l => rw [hn] at h2; cases h2; exact List.mem_cons_self ..
  obtain ⟨it, i1, i2, i3, i4⟩ := numberValues_exact _ _ hm
  by_cases hs : d.second = true ∧ d.narrow = true
  · obtain ⟨_, a, _, _, e3⟩ := h5 hs.1 hs.2
    exact ⟨d, x, cfg, some a, h1, e3, h2, it, i1, i2, i3, i4⟩
  · have hs' : d.second = false ∨ d.narrow = false := by
      cases k1 : d.second <;> cases k2 : d.narrow <;> simp_all
    exact ⟨d, x, cfg, none, h1, h4 hs', h2, it, i1, i2, i3, i4⟩

/-- **Surplus numbers are ignored, they never change the number**: under a configuration-independent library, two command
    lines with the same selected option and the same FIRST number (for `--phi`: the same first two) print the same number
    whenever both print one — whatever further numbers follow. -/
theorem surplus_numbers_do_not_change_the_number (hw₁ hw₂ : ApiHw) (stod₁ stod₂ : Bytes → Option AlphaArg) (alg : CliAlg)
    (spec : CliCall → Option Int) (hind : ∀ cfg c, alg cfg c = spec c) (argv₁ argv₂ : List Bytes)
    (hx : (numberValues (items argv₁)).head? = (numberValues (items argv₂)).head?)
    (ha : selected (items argv₁) = .phi → (numberValues (items argv₁))[1]? = (numberValues (items argv₂))[1]?)
    (hsel : selected (items argv₁) = selected (items argv₂)) (v₁ v₂ : Int)
    (h₁ : OutItem.result v₁ ∈ (cliMain hw₁ stod₁ alg argv₁).stdout)
    (h₂ : OutItem.result v₂ ∈ (cliMain hw₂ stod₂ alg argv₂).stdout) : v₁ = v₂ := by
  obtain ⟨_, _, _, d₁, x₁, c₁, a1, a2, _, a4, a5⟩ := (cliMain_exact_or_error hw₁ stod₁ alg argv₁).2.2 v₁ h₁
  obtain ⟨_, _, _, d₂, x₂, c₂, b1, b2, _, b4, b5⟩ := (cliMain_exact_or_error hw₂ stod₂ alg argv₂).2.2 v₂ h₂
  rw [hsel, b1] at a1
  cases a1
  rw [hx, b2] at a2
  cases a2
  by_cases hs : d₁.second = true ∧ d₁.narrow = true
  · obtain ⟨hphi, a, e1, _, e3⟩ := a5 hs.1 hs.2
    obtain ⟨_, b, f1, _, f3⟩ := b5 hs.1 hs.2
    rw [ha hphi, f1] at e1
    cases e1
    rw [hind] at e3 f3
    rw [e3] at f3
    exact Option.some.inj f3
  · have hs' : d₁.second = false ∨ d₁.narrow = false := by
      cases h1 : d₁.second <;> cases h2 : d₁.narrow <;> simp_all
    have e := a4 hs'
    have f := b4 hs'
    rw [hind] at e f
    rw [e] at f
    exact Option.some.inj f

/-- **A value glued to a main option is never looked at**: the switch of `parseOptions` treats a main-option item the
    same whatever its value text is (`--lmo6` = `--lmo`, `-n100` = `-n`, `--nth-prime=100` = `--nth-prime`): the value
    neither becomes a number of the command line nor changes the selected function. -/
theorem main_option_value_ignored (hw : ApiHw) (stod : Bytes → Option AlphaArg) (s : PState) (it : Item) (val' : Bytes)
    (h : isMainId it.id = true) : applyItem hw stod s { it with val := val' } = applyItem hw stod s it := by
  rcases it with ⟨str, opt, val, id⟩
  cases id <;> first | rfl | (exfalso; simp [isMainId, specialIds] at h)

/-! tests: the three oddities on the stand-in library (`run`: result = 1000 * x + a) -/
example : (run ["100", "200"]).stdout = [.result 100000] := by decide +kernel
example : (run ["--phi", "100", "3", "7"]).stdout = [.result 100003] := by decide +kernel
example : (run ["-n100", "5"]).call = some ⟨"nth_prime", 5, none, true⟩ := by decide +kernel
example : run ["-n100"] = ⟨1, [], some .missingX, none⟩ := by decide +kernel
example : (run ["10", "--nth-prime=100"]).call = some ⟨"nth_prime", 10, none, true⟩ := by decide +kernel
example : (run ["100", "-t", "4294967297"]).stdout = (run ["100", "-t", "1"]).stdout := by decide +kernel
example : cliOpts stodDemo (["100", "-t", "4294967297"].map ofStr) = [.threads 1] := by decide +kernel
example : (parseOption (ofStr "--lmo6") []).toOption.map (fun p => (p.1.id, p.1.val)) = some (.lmo, ofStr "6") := by decide +kernel

end Pc.C13CliVerdict

#print axioms Pc.C13CliVerdict.printed_count_is_for_a_denoted_argument
#print axioms Pc.C13CliVerdict.surplus_numbers_do_not_change_the_number
#print axioms Pc.C13CliVerdict.main_option_value_ignored
