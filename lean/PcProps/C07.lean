/-
C07 — phi(x, a) is the exact Legendre sum for all x and a.
Only property theorems, non-vacuity examples and the axiom audit live here.
Spec: `Pc.Spec.phi x a` = #{n ∈ [1, x] | no p i (1 ≤ i ≤ a) divides n}; `phiZ` extends it to int64 × int64
(0 for x < 1, x for a < 1).  Model: PcModel/PhiTiny.lean (tables dumped from /repo), PcModel/PhiAlg.lean.
-/
import PcProofs.PhiTiny
import PcProofs.PhiAlg

namespace Pc.C07
open Pc.Spec Pc.PhiFacts Pc.PhiAlgProofs Pc.PhiTinyProofs
open scoped Nat.Prime

/-- the Legendre recurrence holds everywhere (statement of the property; proved in the spec library) -/
theorem phi_recurrence (x a : ℕ) (ha : 1 ≤ a) : phi x a + phi (x / p a) (a - 1) = phi x (a - 1) :=
  phi_rec x a ha

/-- `phi x a = 1` once the a-th prime reaches `x` -/
theorem phi_one_of_prime_ge (x a : ℕ) (ha : 1 ≤ a) (hx : 1 ≤ x) (h : x ≤ p a) : phi x a = 1 :=
  phi_eq_one_of_le ha hx h

/-- periodicity behind PhiTiny: the pattern of the first `a` primes repeats with any period `P` they all
    divide, in particular `P = ∏_{i ≤ a} p i` (then `phi P a` is Euler's φ(P), stored in `totients`) -/
theorem phi_periodic (P a : ℕ) (hP : ∀ i, 1 ≤ i → i ≤ a → p i ∣ P) (x : ℕ) :
    phi (x + P) a = phi x a + phi P a := phi_add_period hP x

/-- the textbook form: period `P_a = ∏_{i ≤ a} p i`, increment `φ(P_a) = ∏_{i ≤ a} (p i - 1)` -/
theorem phi_periodic_primorial (x a : ℕ) :
    phi (x + primorial a) a = phi x a + ∏ i ∈ Finset.Icc 1 a, (p i - 1) := phi_add_primorial x a

/-- **phi_tiny is exact** on the tables dumped from /repo (kernel-checked obligations in PcGen/PhiTinyObl):
    for every natural `x` (64- or 128-bit makes no difference: no intermediate exceeds `x`) and `a ≤ 8` -/
theorem phiTiny_correct (x a : ℕ) (ha : a ≤ 8) : Pc.Gen.PhiTiny.tables.phiTiny x a = phi x a :=
  Pc.PhiTinyProofs.phiTiny_correct tables_ok ha x

/-- **guards** of phi_OpenMP (phi.cpp:344-376): every early return equals the spec value.
    `TopOK` carries the NAMED HYPOTHESES: `π x ≤ pixUpper x`, `π √x ≤ pixUpper √x` (a floating point formula
    from the literature above 30719), `pi_noprint x = π x` (C01), a correct prime vector / π table / phi_tiny. -/
theorem phi_guards (P : PhiTop) (x a : ℤ) (hP : TopOK P x.toNat a.toNat) :
    (phiGuards P x a = .zero → phiZ x a = 0) ∧
    (phiGuards P x a = .x → phiZ x a = x) ∧
    (phiGuards P x a = .one → phiZ x a = 1) ∧
    (phiGuards P x a = .tiny → phiZ x a = P.tiny x.toNat a.toNat) ∧
    (phiGuards P x a = .pixUpper → phiZ x a = 1) ∧
    (phiGuards P x a = .phiPix1 → phiZ x a = phiPix (P.piFn x.toNat) a.toNat) ∧
    (phiGuards P x a = .phiPix2 → phiZ x a = phiPix (P.piFn x.toNat) a.toNat) ∧
    (phiGuards P x a = .main → 1 ≤ x ∧ 9 ≤ a ∧ a.toNat ≤ π (Nat.sqrt x.toNat)) :=
  Pc.PhiAlgProofs.phi_guards P x a hP

/-- `2a - 1 ≤ p a`, the fact behind the guard `a > x / 2 → 1` -/
theorem two_a_le_p (a : ℕ) (ha : 1 ≤ a) : 2 * a - 1 ≤ p a := two_mul_sub_one_le_p ha

/-- **the recursive algorithm of `PhiCache::phi<SIGN>` is exact** for every sign, every cache content that
    agrees with the spec where it can be consulted, and every cache state (`mac` = `max_a_cached_`):
    `phi(x, a) = phi_tiny(x, c) − Σ phi(x / p_i, i − 1)` with the early exits `prime > √x`, `is_pix`, cached levels -/
theorem phiRecAlg_correct (E : PhiEnv) (A : ℕ) (hE : EnvOK E A) (fuel : ℕ) (sign : ℤ) (x a mac : ℕ)
    (hf : a < fuel) (ha : a < A) (hx : 1 ≤ x) (hm : mac ≤ E.cache.maxA) :
    (phiRecAlg E fuel sign x a mac).1 = sign * phi x a ∧ (phiRecAlg E fuel sign x a mac).2 ≤ E.cache.maxA :=
  Pc.PhiAlgProofs.phiRecAlg_correct hE fuel sign x a mac hf ha hx hm

/-- the two template instances differ by the sign only -/
theorem phi_sign (E : PhiEnv) (A : ℕ) (hE : EnvOK E A) (fuel x a mac : ℕ) (hf : a < fuel) (ha : a < A)
    (hx : 1 ≤ x) (hm : mac ≤ E.cache.maxA) :
    (phiRecAlg E fuel (-1) x a mac).1 = -(phiRecAlg E fuel 1 x a mac).1 :=
  Pc.PhiAlgProofs.phi_sign hE fuel x a mac hf ha hx hm

/-- **phi_OpenMP(x, a, threads) = phi(x, a) on int64 × int64, independent of thread count, schedule and
    caches**: `order` is any order in which the reduction adds the indices 9..a, `sched i` any valid cache
    object in any legal state for the thread evaluating index `i` -/
theorem phiOpenMP_correct (P : PhiTop) (x a : ℤ) (hP : TopOK P x.toNat a.toNat)
    (order : List ℕ) (horder : order.Perm (List.range' 9 (a.toNat - 8)))
    (sched : ℕ → PhiCacheL1 × ℕ) (hsched : ∀ i, CacheOK (sched i)) :
    phiOpenMP P order sched x a = phiZ x a :=
  Pc.PhiAlgProofs.phiOpenMP_correct P x a hP order horder sched hsched

/-- two schedules / thread counts / cache histories give the same value -/
theorem phiOpenMP_schedule_independent (P : PhiTop) (x a : ℤ) (hP : TopOK P x.toNat a.toNat)
    (o1 o2 : List ℕ) (h1 : o1.Perm (List.range' 9 (a.toNat - 8))) (h2 : o2.Perm (List.range' 9 (a.toNat - 8)))
    (s1 s2 : ℕ → PhiCacheL1 × ℕ) (hs1 : ∀ i, CacheOK (s1 i)) (hs2 : ∀ i, CacheOK (s2 i)) :
    phiOpenMP P o1 s1 x a = phiOpenMP P o2 s2 x a := by
  rw [phiOpenMP_correct P x a hP o1 h1 s1 hs1, phiOpenMP_correct P x a hP o2 h2 s2 hs2]

/-- L2 safety of the thread count of phi_OpenMP (phi.cpp:384-387, repaired `ideal_num_threads`): for every
    int64 `x ≥ 0` no signed overflow, and between 1 and `max 1 threads` threads -/
theorem phiThreads_safe (x a : ℕ) (threads : ℤ) (hx : (x : ℤ) < 2 ^ 63) :
    ∃ t, phiThreads x a threads = some t ∧ 1 ≤ t ∧ t ≤ max 1 threads :=
  Pc.PhiAlgProofs.phiThreads_safe x a threads hx

/-- the defect repaired in /repo 176f90f, kept as a regression note: the former `ceil_div(x, 1e10)` overflowed
    int64 for `2^63 - 10^10 < x` (observed: libgomp aborted the process on the main path 9 ≤ a ≤ π(√x));
    the stream `int64_edge` exercises exactly these inputs -/
theorem phiThreadsOld_overflow (x a : ℕ) (threads : ℤ) (hx : 2 ^ 63 - 1 < (x : ℤ) + 10000000000 - 1) :
    phiThreadsOld x a threads = none :=
  Pc.PhiAlgProofs.phiThreadsOld_overflow x a threads hx

/-! non-vacuity (these are tests, labelled as such): the hypotheses are satisfiable by a non-trivial state,
    and the tiny tables give a concrete value -/

noncomputable def exTop : PhiTop :=
  { pixUpper := fun y => π y, piFn := fun y => π y, prime := fun i => if i = 0 then 0 else p i,
    piTab := fun v => π v, tiny := fun y a => phi y a }

example (x A : ℕ) : TopOK exTop x A :=
  { pixUpperX := le_rfl, pixUpperSqrt := le_rfl, piFn := rfl, prime0 := by simp [exTop],
    prime := fun i hi _ => by simp [exTop]; omega, piTab := fun _ _ => rfl, tiny := fun _ _ _ => rfl }

noncomputable def exCache : PhiCacheL1 × ℕ := ({ maxX := 1919, maxA := 70, val := fun y b => phi y b }, 9)

example : CacheOK exCache := ⟨fun _ _ _ _ _ => rfl, by simp [exCache]⟩

example : phi 1000 5 = 207 := by
  rw [← phiTiny_correct 1000 5 (by norm_num)]; decide +kernel

example : phi (10 ^ 30) 8 = 171024022417211271700435787122 := by
  rw [← phiTiny_correct (10 ^ 30) 8 (by norm_num)]; decide +kernel

end Pc.C07

#print axioms Pc.C07.phi_recurrence
#print axioms Pc.C07.phi_one_of_prime_ge
#print axioms Pc.C07.phi_periodic
#print axioms Pc.C07.phi_periodic_primorial
#print axioms Pc.C07.phiTiny_correct
#print axioms Pc.C07.phi_guards
#print axioms Pc.C07.two_a_le_p
#print axioms Pc.C07.phiRecAlg_correct
#print axioms Pc.C07.phi_sign
#print axioms Pc.C07.phiOpenMP_correct
#print axioms Pc.C07.phiOpenMP_schedule_independent
#print axioms Pc.C07.phiThreads_safe
#print axioms Pc.C07.phiThreadsOld_overflow
