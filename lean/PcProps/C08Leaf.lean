/-
C08 (also C02 / C03 / C11), wp-s1phi0 — the REAL control flow of the cheap terms equals their definitions.

The models are the loop mirrors of PcModel/LeafLoops.lean (S1.cpp, gourdon/Phi0.cpp, gourdon/Sigma.cpp,
deleglise-rivat/S2_trivial.cpp: recursion with sign flip and early `break`, OpenMP `for` + `reduction`, the prime loops
with their `PiTable` reads, closed forms with truncating division, checked products / casts).  `t : NT` is the prime / π
table standing for `generate_primes(y)`, `PiTable`, `pi_noprint`, `nth_prime`, `primesieve::iterator`; `t.Valid` says it is
a correct table up to `t.bound` (`NT.build_valid`: the table the driver builds is).  `w` is the operand type of the C++
template (`ITy.i64` / `ITy.i128`).  The right-hand sides are the `Pc.Spec` definitions (PcProofs/Spec) the older
C08 theorems (`PcProps/C08.lean`: `dr_identity`, `gourdon_identity`) are about.
-/
import PcProofs.LeafLoops
import PcProofs.LeafSigma
import PcProofs.LeafTrivial
import PcModel.Drv.LeafLoops
import PcProofs.FormulasMain

namespace Pc.C08Leaf
open Pc.Spec

/-! ### S1 -/

/-- **S1_thread**: the recursion started at the node `(b, square_free)` with sign `MU` and accumulator `acc` returns
    `acc - MU * (Σ_{S ⊆ (b, π y], sq·∏S ≤ z} (-1)^|S| φ(x / (sq·∏S), c) - φ(x / sq, c))` — every square-free multiple
    `sq·∏S ≤ z` of `sq` by primes of larger index exactly once with the sign of `μ`, for EVERY `x`, cut-off `z`,
    `1 ≤ sq ≤ z`, `b`, `c ≤ 8`; no product leaves the operand type when `z * y` fits it.  The early `break`
    (`next > z`) loses no leaf (`Spec.ordG_break`). -/
theorem leaf_thread_eq {t : NT} (hv : t.Valid) {w : ITy} {x y z c : ℕ} (hy : y ≤ t.bound) (hc : c ≤ 8)
    (hw : z * y ≤ w.maxVal) (mu : ℤ) (b sq : ℕ) (acc : ℤ) (hsq1 : 1 ≤ sq) (hsq : sq ≤ z) :
    leafThread t w (Nat.primeCounting y + 1) x z c mu b sq acc
      = .ok (acc - mu * (ordG x z c (Nat.primeCounting y) b sq - (phi (x / sq) c : ℤ))) :=
  leafThread_eq hv hy hc hw _ b rfl mu sq acc hsq1 hsq

/-- **S1_OpenMP = S1** for every `x`, every `y ≥ 1`, every `c ≤ 8`, every operand type holding `y²`, and EVERY
    distribution `sched` of the iterations `b = c + 1 … π(y)` over the threads -/
theorem s1_loop_eq_def {t : NT} (hv : t.Valid) {w : ITy} {x y c : ℕ} (hy1 : 1 ≤ y) (hy : y ≤ t.bound) (hc : c ≤ 8)
    (hw : y * y ≤ w.maxVal) {sched : List (List ℕ)} (hs : IsSchedule (c + 1) (Nat.primeCounting y) sched) :
    s1OpenMP t w x y c sched = .ok (S1 x y c) := s1OpenMP_eq hv hy1 hy hc hw hs

/-- C03 for S1: any two distributions of the `omp for` iterations (any team size, any assignment, any order inside a
    thread) give the same value -/
theorem s1_threads_irrelevant {t : NT} (hv : t.Valid) {w : ITy} {x y c : ℕ} (hy1 : 1 ≤ y) (hy : y ≤ t.bound)
    (hc : c ≤ 8) (hw : y * y ≤ w.maxVal) {sched sched' : List (List ℕ)}
    (hs : IsSchedule (c + 1) (Nat.primeCounting y) sched) (hs' : IsSchedule (c + 1) (Nat.primeCounting y) sched') :
    s1OpenMP t w x y c sched = s1OpenMP t w x y c sched' := by
  rw [s1OpenMP_eq hv hy1 hy hc hw hs, s1OpenMP_eq hv hy1 hy hc hw hs']

/-- C11 for S1: the 64-bit and the 128-bit instantiation agree wherever the 64-bit one is defined -/
theorem s1_width_irrelevant {t : NT} (hv : t.Valid) {x y c : ℕ} (hy1 : 1 ≤ y) (hy : y ≤ t.bound) (hc : c ≤ 8)
    (hw : y * y ≤ ITy.i64.maxVal) {sched : List (List ℕ)} (hs : IsSchedule (c + 1) (Nat.primeCounting y) sched) :
    s1OpenMP t .i64 x y c sched = s1OpenMP t .i128 x y c sched := by
  rw [s1OpenMP_eq hv hy1 hy hc hw hs, s1OpenMP_eq hv hy1 hy hc (le_trans hw (by decide)) hs]

/-- the generic reduction lemma behind it: if every iteration `b` adds `v b` to the private copy it runs on, the region
    returns `init + Σ_{lo ≤ b ≤ hi} v b` whatever the distribution -/
theorem omp_reduction_total {body : ℕ → ℤ → LM ℤ} {v : ℕ → ℤ} {c a : ℕ} {sched : List (List ℕ)}
    (hs : IsSchedule (c + 1) a sched) (init : ℤ) (h : ∀ b, c < b → b ≤ a → ∀ s, body b s = .ok (s + v b)) :
    ompReduce init body sched = .ok (init + ∑ b ∈ Finset.Ioc c a, v b) := ompReduce_perm hs init h

/-- `schedule(static, 1)` with the team size the real code asks for is one of those distributions -/
theorem static_schedule_is_schedule (lo hi y : ℕ) (threads : ℤ) : IsSchedule lo hi (leafSched lo hi y threads) :=
  leafSched_isSchedule lo hi y threads

/-- what the op `S1_loop` of pcdrv prints is `S1 x y c` -/
theorem s1_loop_op {t : NT} {w : ITy} {x y c : ℕ} (ht : Drv.leafTable y = some t) (hy1 : 1 ≤ y) (hc : c ≤ 8)
    (hw : y * y ≤ w.maxVal) (threads : ℤ) :
    s1OpenMP t w x y c (leafSched (c + 1) (t.piOf y) y threads) = .ok (S1 x y c) := by
  unfold Drv.leafTable at ht
  split_ifs at ht with hb
  cases ht
  have hv := NT.build_valid (max y 19 + 1)
  have hy : y ≤ (NT.build (max y 19 + 1)).bound := by
    show y ≤ max y 19 + 1
    have := le_max_left y 19; omega
  rw [hv.piOf_eq y hy]
  exact s1OpenMP_eq hv hy1 hy hc hw (leafSched_isSchedule _ _ _ _)

/-! ### Φ0 -/

/-- **Phi0_OpenMP = Φ0** for every `x`, `1 ≤ y ≤ z`, `k ≤ 8`, every operand type holding `z * y`, every distribution of the
    iterations.  (`y ≤ z` is the precondition stated in Phi0.cpp; for `z < y` the real loop would add leaves `p_b > z`.) -/
theorem phi0_loop_eq_def {t : NT} (hv : t.Valid) {w : ITy} {x y z k : ℕ} (hy1 : 1 ≤ y) (hy : y ≤ t.bound) (hk : k ≤ 8)
    (hyz : y ≤ z) (hw : z * y ≤ w.maxVal) {sched : List (List ℕ)}
    (hs : IsSchedule (k + 1) (Nat.primeCounting y) sched) :
    phi0OpenMP t w x y z k sched = .ok (Phi0 x y z k) := phi0OpenMP_eq hv hy1 hy hk hyz hw hs

/-- C03 for Φ0 -/
theorem phi0_threads_irrelevant {t : NT} (hv : t.Valid) {w : ITy} {x y z k : ℕ} (hy1 : 1 ≤ y) (hy : y ≤ t.bound)
    (hk : k ≤ 8) (hyz : y ≤ z) (hw : z * y ≤ w.maxVal) {sched sched' : List (List ℕ)}
    (hs : IsSchedule (k + 1) (Nat.primeCounting y) sched) (hs' : IsSchedule (k + 1) (Nat.primeCounting y) sched') :
    phi0OpenMP t w x y z k sched = phi0OpenMP t w x y z k sched' := by
  rw [phi0OpenMP_eq hv hy1 hy hk hyz hw hs, phi0OpenMP_eq hv hy1 hy hk hyz hw hs']

/-- what the op `Phi0_loop` of pcdrv prints is `Φ0 x y z k` -/
theorem phi0_loop_op {t : NT} {w : ITy} {x y z k : ℕ} (ht : Drv.leafTable y = some t) (hy1 : 1 ≤ y) (hk : k ≤ 8)
    (hyz : y ≤ z) (hw : z * y ≤ w.maxVal) (threads : ℤ) :
    phi0OpenMP t w x y z k (leafSched (k + 1) (t.piOf y) y threads) = .ok (Phi0 x y z k) := by
  unfold Drv.leafTable at ht
  split_ifs at ht with hb
  cases ht
  have hv := NT.build_valid (max y 19 + 1)
  have hy : y ≤ (NT.build (max y 19 + 1)).bound := by
    show y ≤ max y 19 + 1
    have := le_max_left y 19; omega
  rw [hv.piOf_eq y hy]
  exact phi0OpenMP_eq hv hy1 hy hk hyz hw (leafSched_isSchedule _ _ _ _)

/-! ### Σ -/

/-- **Sigma = Σ0 + … + Σ6** (closed forms with C++'s truncating division, the prime loop with the Σ4/Σ5 split at
    `⌊√(x/y)⌋` and Σ6's `isqrt(x / q)`), for every `x` and every `y ≥ 1` with `⌊√(x/y)⌋ ≤ ⌊x^(1/3)⌋ ≤ y` (true for
    `x^(1/3) < y`), a table reaching `y`, `⌊√x⌋`, `x / (x⋆ y)`: every `pi[·]` read is inside `PiTable pi(max_pix)`, no
    product leaves the operand type -/
theorem sigma_loop_eq_def {t : NT} (hv : t.Valid) {w : ITy} {x y : ℕ} (hy1 : 1 ≤ y) (hc3y : irootN 3 x ≤ y)
    (hsc : Nat.sqrt (x / y) ≤ irootN 3 x) (hyb : y ≤ t.bound) (hs : Nat.sqrt x ≤ t.bound)
    (hm4 : x / (xStar x y * y) ≤ t.bound) (hw : y * y ≤ w.maxVal) (h63 : t.bound ≤ ITy.i64.maxVal) :
    sigma t w x y = .ok (Sigma0 x (Nat.primeCounting y) + Sigma1 (Nat.primeCounting y) (Nat.primeCounting (irootN 3 x))
      + Sigma2 (Nat.primeCounting y) (Nat.primeCounting (irootN 3 x)) (Nat.primeCounting (Nat.sqrt (x / y)))
          (Nat.primeCounting (xStar x y))
      + Sigma3 (Nat.primeCounting (irootN 3 x)) (Nat.primeCounting (xStar x y)) + Sigma4 x y (xStar x y)
      + Sigma5 x y (irootN 3 x) + Sigma6 x (xStar x y) (irootN 3 x)) :=
  sigma_eq hv hy1 hc3y hsc hyb hs hm4 hw h63

/-- the mirror and the executable defining sum `NT.Sigma` agree under the no-trap conditions alone -/
theorem sigma_loop_eq_executable {t : NT} (hv : t.Valid) {w : ITy} {x y : ℕ} (hy1 : 1 ≤ y) (hc3y : irootN 3 x ≤ y)
    (hyb : y ≤ t.bound) (hw : y * y ≤ w.maxVal) (h4 : x / (xStar x y * y) ≤ ITy.i64.maxVal)
    (h6 : Nat.sqrt (x / xStar x y) ≤ ITy.i64.maxVal) :
    sigma t w x y = .ok (t.Sigma x y) := sigma_eq_NT hv hy1 hc3y hyb hw h4 h6

/-- what the op `Sigma_loop` of pcdrv prints is `Σ0 + … + Σ6` (the driver's table reaches exactly what the theorem needs) -/
theorem sigma_loop_op {t : NT} {w : ITy} {x y : ℕ} (ht : Drv.leafTable (Drv.sigmaBound x y) = some t) (hy1 : 1 ≤ y)
    (hc3y : irootN 3 x ≤ y) (hsc : Nat.sqrt (x / y) ≤ irootN 3 x) (hw : y * y ≤ w.maxVal) :
    sigma t w x y = .ok (Sigma0 x (Nat.primeCounting y) + Sigma1 (Nat.primeCounting y) (Nat.primeCounting (irootN 3 x))
      + Sigma2 (Nat.primeCounting y) (Nat.primeCounting (irootN 3 x)) (Nat.primeCounting (Nat.sqrt (x / y)))
          (Nat.primeCounting (xStar x y))
      + Sigma3 (Nat.primeCounting (irootN 3 x)) (Nat.primeCounting (xStar x y)) + Sigma4 x y (xStar x y)
      + Sigma5 x y (irootN 3 x) + Sigma6 x (xStar x y) (irootN 3 x)) := by
  unfold Drv.leafTable at ht
  split_ifs at ht with hb
  cases ht
  set n := Drv.sigmaBound x y with hn
  have hv := NT.build_valid (max n 19 + 1)
  have hbound : ∀ m, m ≤ n → m ≤ (NT.build (max n 19 + 1)).bound := by
    intro m hm
    show m ≤ max n 19 + 1
    have := le_max_left n 19; omega
  have e1 : max y 1 = y := max_eq_left hy1
  have h1 : y ≤ n := by
    rw [hn]; unfold Drv.sigmaBound
    exact le_max_of_le_left (le_max_right _ _)
  have h2 : Nat.sqrt x ≤ n := by
    rw [hn, ← isqrtN_eq]; unfold Drv.sigmaBound
    exact le_max_of_le_right (le_max_right _ _)
  have h3 : x / (xStar x y * y) ≤ n := by
    rw [hn]; unfold Drv.sigmaBound
    simp only [e1]
    exact le_max_of_le_left (le_max_left _ _)
  refine sigma_eq hv hy1 hc3y hsc (hbound _ h1) (hbound _ h2) (hbound _ h3) hw ?_
  show max n 19 + 1 ≤ ITy.i64.maxVal
  have h19 : max n 19 ≤ 60000000 := max_le (not_lt.1 hb) (by norm_num)
  exact le_trans (Nat.succ_le_succ h19) (by decide)

/-! ### S2_trivial -/

/-- **S2_trivial = number of trivial leaves** for Deleglise-Rivat's call `S2_trivial(x, y, x / y, c)`: every `x`, every
    `y` with `y² ≤ x`, every `1 ≤ c ≤ π(y)`.  The loop's `break` at the first prime with `x / q² ≤ q` followed by the
    arithmetic-progression closed form counts exactly the remaining levels; `pi[x / q²]` stays inside `PiTable pi(y)`. -/
theorem s2_trivial_loop_eq_def {t : NT} (hv : t.Valid) {w : ITy} {x y c : ℕ} (hy1 : 1 ≤ y) (hyb : y ≤ t.bound)
    (hy2 : y * y ≤ x) (hc1 : 1 ≤ c) (hc : c ≤ Nat.primeCounting y) (hw : y * y ≤ w.maxVal)
    (hy63 : y ≤ ITy.i64.maxVal) :
    s2Trivial t w x y (x / y) c = .ok (S2_trivial x y c) := s2Trivial_eq hv hy1 hyb hy2 hc1 hc hw hy63

/-- for an arbitrary `z` the mirror equals the executable defining sum `NT.S2trivial x y z c` as soon as the first
    `pi[x / q²]` read is inside the table -/
theorem s2_trivial_loop_eq_executable {t : NT} (hv : t.Valid) {w : ITy} {x y z c : ℕ} (hyb : y ≤ t.bound) (hc1 : 1 ≤ c)
    (hcb : c ≤ Nat.primeCounting t.bound) (hw : y * y ≤ w.maxVal) (hy63 : y ≤ ITy.i64.maxVal)
    (hoob : x / ((max (p c) (Nat.sqrt z) + 1) * (max (p c) (Nat.sqrt z) + 1)) ≤ y) :
    s2Trivial t w x y z c = .ok (t.S2trivial x y z c) := s2Trivial_eq_NT hv hyb hc1 hcb hw hy63 hoob

/-- what the op `S2_trivial_loop` of pcdrv prints for Deleglise-Rivat's call is `S2_trivial x y c` -/
theorem s2_trivial_loop_op {t : NT} {w : ITy} {x y c : ℕ} (ht : Drv.leafTable y = some t) (hy1 : 1 ≤ y)
    (hy2 : y * y ≤ x) (hc1 : 1 ≤ c) (hc : c ≤ Nat.primeCounting y) (hw : y * y ≤ w.maxVal) :
    s2Trivial t w x y (x / y) c = .ok (S2_trivial x y c) := by
  unfold Drv.leafTable at ht
  split_ifs at ht with hb
  cases ht
  have hv := NT.build_valid (max y 19 + 1)
  have hy : y ≤ (NT.build (max y 19 + 1)).bound := by
    show y ≤ max y 19 + 1
    have := le_max_left y 19; omega
  exact s2Trivial_eq hv hy1 hy hy2 hc1 hc hw (le_trans (not_lt.1 hb) (by decide))

/-- what the real code rejects is an error of the model: `nth_prime(0)` throws (`y ≥ 2`; for `y < 2` the function
    has already returned 0) -/
theorem s2_trivial_rejects_c0 (t : NT) (w : ITy) (x z : ℕ) {y : ℕ} (hy2 : 2 ≤ y) :
    s2Trivial t w x y z 0 = .error .pc := s2Trivial_throws t w x z hy2

/-! ### the loop mirrors inside the two identities (C02: every decomposition adds up to π(x)) -/

/-- Deleglise-Rivat with S1 and S2_trivial computed by the REAL control flow (any thread distribution): for every `y` with
    `y² ≤ x < (y+1)³`, `1 ≤ c ≤ min(8, π y)`, the two mirrors return values which, with the remaining (executable
    defining-sum) terms, add up to π(x) -/
theorem dr_total_with_loops {t : NT} (hv : t.Valid) {w : ITy} {x y c : ℕ} (hcov : t.Covers x y) (hy1 : 1 ≤ y)
    (hy2 : y * y ≤ x) (hy3 : x < (y + 1) ^ 3) (hc1 : 1 ≤ c) (hc : c ≤ Nat.primeCounting y) (hc8 : c ≤ 8)
    (hw : y * y ≤ w.maxVal) (hy63 : y ≤ ITy.i64.maxVal) {sched : List (List ℕ)}
    (hs : IsSchedule (c + 1) (Nat.primeCounting y) sched) :
    ∃ s1v tv : ℤ, s1OpenMP t w x y c sched = .ok s1v ∧ s2Trivial t w x y (x / y) c = .ok tv ∧
      s1v + tv + t.S2easy x y (x / y) c + t.S2hard x y (x / y) c + (t.piOf y : ℤ) - 1 - t.P2 x y
        = (Nat.primeCounting x : ℤ) := by
  refine ⟨S1 x y c, S2_trivial x y c, s1OpenMP_eq hv hy1 hcov.hy hc8 hw hs,
    s2Trivial_eq hv hy1 hcov.hy hy2 hc1 hc hw hy63, ?_⟩
  have := NT_dr_total hv hcov hy1 hy2 hy3 hc
  rwa [NT.S1_eq hv (le_trans hc (Spec.pi_mono hcov.hy)), NT.S2trivial_eq hv hy1 hcov.hy hy2 hc] at this

/-- Gourdon with Φ0 and Σ computed by the REAL control flow: for every `(y, z)` with `x^(1/3) < y ≤ z ≤ √x`,
    `k ≤ min(8, π ⌊x^(1/4)⌋)`, the two mirrors return values which, with `A`, `B`, `C`, `D`, add up to π(x) -/
theorem gourdon_total_with_loops {t : NT} (hv : t.Valid) {w : ITy} {x y z k : ℕ} (hcov : t.Covers x y)
    (hy : irootN 3 x < y) (hy2 : y * y ≤ x) (hyz : y ≤ z) (hz : z * z ≤ x)
    (hk : k ≤ Nat.primeCounting (irootN 4 x)) (hk8 : k ≤ 8) (hw : z * y ≤ w.maxVal)
    (h63 : t.bound ≤ ITy.i64.maxVal) {sched : List (List ℕ)} (hs : IsSchedule (k + 1) (Nat.primeCounting y) sched) :
    ∃ p0 sg : ℤ, phi0OpenMP t w x y z k sched = .ok p0 ∧ sigma t w x y = .ok sg ∧
      t.A x y + t.C x y z k - t.B x y + t.D x y z k + p0 + sg = (Nat.primeCounting x : ℤ) := by
  have hy1 : 1 ≤ y := by omega
  have hxs1 := one_le_xStar x y
  have h4 : x / (xStar x y * y) ≤ ITy.i64.maxVal :=
    le_trans (le_trans (Nat.div_le_div_left (Nat.le_mul_of_pos_left y hxs1) hy1) hcov.hxy) h63
  have h6 : Nat.sqrt (x / xStar x y) ≤ ITy.i64.maxVal :=
    le_trans (le_trans (Nat.sqrt_le_sqrt (Nat.div_le_self _ _)) hcov.hs) h63
  have hk4 : irootN 4 x ≤ y := by
    have h1 := (irootN_spec 4 x (by omega)).1
    have h2 := (irootN_spec 3 x (by omega)).2
    have h3 : (irootN 3 x + 1) ^ 3 ≤ y ^ 3 := Nat.pow_le_pow_left hy 3
    have h4' : y ^ 3 ≤ y ^ 4 := Nat.pow_le_pow_right hy1 (by omega)
    by_contra h
    push Not at h
    have h5 : y ^ 4 < irootN 4 x ^ 4 := Nat.pow_lt_pow_left h (by omega)
    omega
  refine ⟨Phi0 x y z k, t.Sigma x y,
    phi0OpenMP_eq hv hy1 hcov.hy hk8 hyz hw hs,
    sigma_eq_NT hv hy1 hy.le hcov.hy (le_trans (Nat.mul_le_mul_right y hyz) hw) h4 h6, ?_⟩
  have := NT_gourdon_total hv hcov hy hy2 hyz hz hk
  rwa [NT.Phi0_eq hv (le_trans hk (Spec.pi_mono (le_trans hk4 hcov.hy)))] at this

/-! ### non-vacuity: the hypotheses are met by concrete non-trivial instances -/

example := s1_loop_eq_def (NT.build_valid 100) (w := .i64) (x := 1000) (y := 12) (c := 2) (by norm_num)
  (by show 12 ≤ 100; norm_num) (by norm_num) (by decide) (static_schedule_is_schedule 3 (Nat.primeCounting 12) 12 4)
example := leaf_thread_eq (NT.build_valid 100) (w := .i64) (x := 1000) (y := 12) (z := 20) (c := 2)
  (by show 12 ≤ 100; norm_num) (by norm_num) (by decide) (-1) 3 5 0 (by norm_num) (by norm_num)
example := s1_threads_irrelevant (NT.build_valid 100) (w := .i128) (x := 1000) (y := 12) (c := 2) (by norm_num)
  (by show 12 ≤ 100; norm_num) (by norm_num) (by decide) (static_schedule_is_schedule 3 _ 12 1)
  (static_schedule_is_schedule 3 _ 12 7)
example := phi0_loop_eq_def (NT.build_valid 100) (w := .i64) (x := 100000) (y := 60) (z := 100) (k := 2) (by norm_num)
  (by show 60 ≤ 100; norm_num) (by norm_num) (by norm_num) (by decide)
  (static_schedule_is_schedule 3 (Nat.primeCounting 60) 60 2)
example : ∃ t, Drv.leafTable 12 = some t := ⟨_, rfl⟩
example := sigma_loop_eq_def (NT.build_valid 2000) (w := .i64) (x := 100000) (y := 60) (by norm_num)
  (by rw [irootN_eq_of (r := 46) (by norm_num) (by norm_num) (by norm_num)]; norm_num)
  (by rw [irootN_eq_of (r := 46) (by norm_num) (by norm_num) (by norm_num)]
      exact Nat.lt_succ_iff.1 (Nat.sqrt_lt.2 (by norm_num)))
  (by show 60 ≤ 2000; norm_num) (by show Nat.sqrt 100000 ≤ 2000; exact (Nat.sqrt_lt.2 (by norm_num)).le)
  (by show 100000 / (xStar 100000 60 * 60) ≤ 2000
      exact le_trans (Nat.div_le_div_left (Nat.le_mul_of_pos_left 60 (one_le_xStar _ _)) (by norm_num)) (by norm_num))
  (by decide) (by show 2000 ≤ _; decide)
example := s2_trivial_loop_eq_def (NT.build_valid 100) (w := .i64) (x := 1000) (y := 12) (c := 2) (by norm_num)
  (by show 12 ≤ 100; norm_num) (by norm_num) (by norm_num)
  (by rw [show Nat.primeCounting 12 = 5 by decide]; norm_num) (by decide) (by decide)
example := dr_total_with_loops (NT.build_valid 100) (w := .i64) (x := 1000) (y := 12) (c := 2)
  (covers_build (by norm_num) (by norm_num) (by norm_num)) (by norm_num) (by norm_num) (by norm_num) (by norm_num)
  (by rw [show Nat.primeCounting 12 = 5 by decide]; norm_num) (by norm_num) (by decide) (by decide)
  (static_schedule_is_schedule 3 (Nat.primeCounting 12) 12 2)
example := gourdon_total_with_loops (NT.build_valid 2000) (w := .i128) (x := 100000) (y := 60) (z := 100) (k := 2)
  (covers_build (by norm_num) (by norm_num) (by norm_num))
  (by rw [irootN_eq_of (r := 46) (by norm_num) (by norm_num) (by norm_num)]; norm_num)
  (by norm_num) (by norm_num) (by norm_num)
  (by rw [irootN_eq_of (r := 17) (by norm_num) (by norm_num) (by norm_num),
        show Nat.primeCounting 17 = 7 by decide]; norm_num)
  (by norm_num) (by decide) (by show 2000 ≤ _; decide) (static_schedule_is_schedule 3 (Nat.primeCounting 60) 60 3)
example := s2_trivial_rejects_c0 (NT.build 10) .i64 1000 83 (y := 12) (by norm_num)

end Pc.C08Leaf

#print axioms Pc.C08Leaf.leaf_thread_eq
#print axioms Pc.C08Leaf.s1_loop_eq_def
#print axioms Pc.C08Leaf.s1_threads_irrelevant
#print axioms Pc.C08Leaf.s1_width_irrelevant
#print axioms Pc.C08Leaf.omp_reduction_total
#print axioms Pc.C08Leaf.static_schedule_is_schedule
#print axioms Pc.C08Leaf.s1_loop_op
#print axioms Pc.C08Leaf.phi0_loop_eq_def
#print axioms Pc.C08Leaf.phi0_threads_irrelevant
#print axioms Pc.C08Leaf.phi0_loop_op
#print axioms Pc.C08Leaf.sigma_loop_eq_def
#print axioms Pc.C08Leaf.sigma_loop_eq_executable
#print axioms Pc.C08Leaf.s2_trivial_loop_eq_def
#print axioms Pc.C08Leaf.s2_trivial_loop_eq_executable
#print axioms Pc.C08Leaf.s2_trivial_rejects_c0
#print axioms Pc.C08Leaf.sigma_loop_op
#print axioms Pc.C08Leaf.s2_trivial_loop_op
#print axioms Pc.C08Leaf.dr_total_with_loops
#print axioms Pc.C08Leaf.gourdon_total_with_loops
