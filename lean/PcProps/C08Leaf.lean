/-
C08 (wp-s1phi0) — the loop mirrors of S1 / Phi0 / Sigma / S2_trivial equal their definitions (placeholder: the
theorems are added below as they are proved).
-/
import PcModel.LeafLoops
namespace Pc.C08Leaf
end Pc.C08Leaf
