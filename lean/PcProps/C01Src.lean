/-
C01 — the tie between the hand-written models of this property and /repo's CURRENT source text.

`translator/extract_srcmirror.py` re-reads, on every run, each C++ function that a model of this property mirrors,
normalises it to a statement sequence (`PcGen/SrcMirror<Group>Data.lean`) and emits one obligation per function:
the sequence equals the one recorded when the model was written (`translator/srcmirror_expected.json`). A change to
a mirrored function breaks the obligation that names it; the check then searches for a failing input with the
property's correspondence streams and reports `no-failing-input-found` when the change is harmless (the model is
then re-read against the new text and the recording refreshed).
-/
import PcGen.SrcMirrorApiObl
import PcGen.SrcMirrorParamsObl
import PcGen.SrcMirrorHardLoopsObl
import PcGen.SrcMirrorLeafLoopsObl
import PcGen.SrcMirrorEasyLoopsObl
import PcGen.SrcMirrorPhiObl
import PcGen.SrcMirrorTablesObl
import PcGen.SrcMirrorBalancersObl

namespace Pc.C01Src

/-- every function of group `Api` mirrored by a model has, in /repo now, the text the model was written against -/
theorem models_mirror_source_Api : Pc.SrcMirror.Api.AllText := Pc.SrcMirror.Api.all_text

/-- `pi_gourdon_64/128`, `pi_deleglise_rivat_64/128`, the tuning getters and `get_x_star_gourdon` (group `Params`): the top-level
    compositions proved in C01Top / C01Closed mirror these texts -/
theorem models_mirror_source_Params : Pc.SrcMirror.Params.AllText := Pc.SrcMirror.Params.all_text

/-- group `HardLoops`: the closed end-to-end theorems (C01Closed*) rest on the models of these functions -/
theorem models_mirror_source_HardLoops : Pc.SrcMirror.HardLoops.AllText := Pc.SrcMirror.HardLoops.all_text

/-- group `LeafLoops`: the closed end-to-end theorems (C01Closed*) rest on the models of these functions -/
theorem models_mirror_source_LeafLoops : Pc.SrcMirror.LeafLoops.AllText := Pc.SrcMirror.LeafLoops.all_text

/-- group `EasyLoops`: the closed end-to-end theorems (C01Closed*) rest on the models of these functions -/
theorem models_mirror_source_EasyLoops : Pc.SrcMirror.EasyLoops.AllText := Pc.SrcMirror.EasyLoops.all_text

/-- group `Phi`: the closed end-to-end theorems (C01Closed*) rest on the models of these functions -/
theorem models_mirror_source_Phi : Pc.SrcMirror.Phi.AllText := Pc.SrcMirror.Phi.all_text

/-- group `Tables`: the closed end-to-end theorems (C01Closed*) rest on the models of these functions -/
theorem models_mirror_source_Tables : Pc.SrcMirror.Tables.AllText := Pc.SrcMirror.Tables.all_text

/-- group `Balancers`: the closed end-to-end theorems (C01Closed*) rest on the models of these functions -/
theorem models_mirror_source_Balancers : Pc.SrcMirror.Balancers.AllText := Pc.SrcMirror.Balancers.all_text

end Pc.C01Src

#print axioms Pc.C01Src.models_mirror_source_Api
#print axioms Pc.C01Src.models_mirror_source_Params
#print axioms Pc.C01Src.models_mirror_source_HardLoops
#print axioms Pc.C01Src.models_mirror_source_LeafLoops
#print axioms Pc.C01Src.models_mirror_source_EasyLoops
#print axioms Pc.C01Src.models_mirror_source_Phi
#print axioms Pc.C01Src.models_mirror_source_Tables
#print axioms Pc.C01Src.models_mirror_source_Balancers
