/-
C10 — parallel regions are free of data races (claimed PARTIAL: DESIGN.md 6.10).
Only property theorems, non-vacuity examples and the axiom audit live here.

What is proved: in the happens-before model of PcModel/HB.lean (executions = arbitrary lists of
events of arbitrarily many threads) every execution of each region schema that satisfies the
schema's side conditions is race free; the arithmetic side conditions of the thread-indexed
schemas hold for the index computations of PiTable::init and the FactorTable constructors; and
(generated obligations, `PcGen/OmpObl.lean`) every OpenMP region found in /repo carries one of
these schemas and no object written in a region is unprotected.
What is NOT proved: that the C++ code performs only the accesses the translator's summary lists.
-/
import PcProofs.HB
import PcGen.OmpObl
import Mathlib.Tactic.IntervalCases

namespace Pc.C10
open Pc.HB

/-- `schema_drf`: no execution of a region schema (S-disp, S-red, S-atom, S-atom+disp, S-2ph, S-disj,
    S-master) that satisfies the schema's side conditions contains a data race — for any number of
    threads and any interleaving, with relaxed atomics creating NO happens-before edges. -/
theorem schema_drf (S : Schema) {tr : Exec} {f j : Nat} (h : IsExecOf S tr f j) : ¬ Race false tr :=
  Pc.HB.schema_drf S h

/-- the same with the edges "atomic RMWs of one location are totally ordered" (the reading of DESIGN 6.10) -/
theorem schema_drf_rmw_edges (S : Schema) {tr : Exec} {f j : Nat} (h : IsExecOf S tr f j) : ¬ Race true tr :=
  fun hr => Pc.HB.schema_drf S h hr.anti

/-- the protection-map form: a well-formed execution in which every location has SOME protection
    (read-only | one thread | one lock | atomic | reduction | phased by a barrier) is race free -/
theorem region_drf {tr : Exec} {f j : Nat} (wf : RegionWF tr f j)
    (side : ∀ l, ∃ p, Respects tr f j l p) : ¬ Race false tr := Pc.HB.region_drf wf side

/-- GENERIC alignment lemma: chunks `[i·d, (i+1)·d)` with `P ∣ d` never share a `P`-block -/
theorem aligned_ranges_disjoint {P d i k x y : Nat} (hP : 0 < P) (hd : P ∣ d) (hik : i ≠ k)
    (hx : i * d ≤ x ∧ x < (i + 1) * d) (hy : k * d ≤ y ∧ y < (k + 1) * d) : x / P ≠ y / P :=
  Pc.HB.aligned_ranges_disjoint hP hd hik hx hy

/-- `thread_dist += P - thread_dist % P` makes `thread_dist` a positive multiple of `P` -/
theorem alignUp_spec (d P : Nat) (hP : 0 < P) : P ∣ alignUp d P ∧ d < alignUp d P :=
  ⟨alignUp_dvd d P hP, alignUp_gt d P hP⟩

/-- `PiTable::init` (P = 240): word ranges of different iterations are disjoint … -/
theorem piTable_word_ranges_disjoint {c d limit s t w : Nat} (hc : 240 ∣ c) (hd : 240 ∣ d) (hst : s ≠ t)
    (hs : piWordLo c d s ≤ w ∧ w < piWordHi c d limit s)
    (ht : piWordLo c d t ≤ w ∧ w < piWordHi c d limit t) : False :=
  Pc.HB.piTable_word_ranges_disjoint hc hd hst hs ht

/-- … and cover every word between `cache_limit/240` and `ceil_div(limit,240)` -/
theorem piTable_word_ranges_cover {c d limit n w : Nat} (hc : 240 ∣ c) (hd : 240 ∣ d) (hd0 : 0 < d)
    (hn : limit ≤ c + d * n) (hw : c / 240 ≤ w ∧ w < ceilDiv limit 240) :
    ∃ t, t < n ∧ piWordLo c d t ≤ w ∧ w < piWordHi c d limit t :=
  Pc.HB.piTable_word_ranges_cover hc hd hd0 hn hw

/-- FactorTable / FactorTableD constructors (period 2310, 480 indexes per period) -/
theorem factorTable_index_ranges_disjoint {ci : Nat → Int} (h0 : ci 0 = -1)
    (h1 : ∀ r, 1 ≤ r → r < 2310 → 0 ≤ ci r) (h2 : ∀ r, r < 2310 → ci r < 480)
    {d y s t a b : Nat} (hd : 2310 ∣ d) (hst : s ≠ t)
    (ha : ftLow d s ≤ a ∧ a ≤ ftHigh d y s) (hb : ftLow d t ≤ b ∧ b ≤ ftHigh d y t) :
    toIndex ci a ≠ toIndex ci b :=
  Pc.HB.factorTable_index_ranges_disjoint h0 h1 h2 hd hst ha hb

/-- S-2ph instantiated with the index ranges of `PiTable::init`: if, in an execution, the words of
    `pi_` (array `W`) and `counts_` (array `C`) are accessed as the access summary says — phase 1:
    iteration `it`, run by thread `a1 it`, touches words `[low/240, ceil_div(high,240))` and `counts_[it]`;
    phase 2: iteration `it`, run by `a2 it`, touches the same words and only reads `counts_` — and
    `cache_limit`, `thread_dist` are multiples of 240, there is no race, whatever the two schedules are. -/
theorem piTable_init_drf {tr : Exec} {f j : Nat} (wf : RegionWF tr f j) (W C B c d limit : Nat)
    (hc : 240 ∣ c) (hd : 240 ∣ d) (a1 a2 : Nat → Nat)
    (hW : ∀ (i : Nat) (e : Event) (k : Nat), f < i → i < j → tr[i]? = some e → e.kind.loc? = some (.elem W k) →
      (Phase1 tr B e.tid i ∧ ∃ it, (piWordLo c d it ≤ k ∧ k < piWordHi c d limit it) ∧ e.tid = a1 it) ∨
      (Phase2 tr B e.tid i ∧ ∃ it, (piWordLo c d it ≤ k ∧ k < piWordHi c d limit it) ∧ e.tid = a2 it))
    (hC : ∀ (i : Nat) (e : Event) (t : Nat), f < i → i < j → tr[i]? = some e → e.kind.loc? = some (.elem C t) →
      (Phase1 tr B e.tid i ∧ e.tid = a1 t) ∨ (Phase2 tr B e.tid i ∧ e.kind = .read (.elem C t)))
    (hrest : ∀ l, (∀ k, l ≠ .elem W k) → (∀ k, l ≠ .elem C k) →
      ∃ p, Schema.twoPhase.allows p = true ∧ Respects tr f j l p) :
    ¬ Race false tr :=
  twoPhase_drf wf W C B (fun it k => piWordLo c d it ≤ k ∧ k < piWordHi c d limit it) a1 a2
    (fun _ _ _ hs ht => Classical.byContradiction fun hne =>
      Pc.HB.piTable_word_ranges_disjoint hc hd hne hs ht) hW hC hrest

/-- S-disj instantiated with the index ranges of the FactorTable constructors -/
theorem factorTable_ctor_drf {tr : Exec} {f j : Nat} (wf : RegionWF tr f j) (A d y : Nat) (ci : Nat → Int)
    (h0 : ci 0 = -1) (h1 : ∀ r, 1 ≤ r → r < 2310 → 0 ≤ ci r) (h2 : ∀ r, r < 2310 → ci r < 480)
    (hd : 2310 ∣ d) (assign : Nat → Nat)
    (harr : ∀ (i : Nat) (e : Event) (k : Nat), f < i → i < j → tr[i]? = some e → e.kind.loc? = some (.elem A k) →
      ∃ it, (∃ n, ftLow d it ≤ n ∧ n ≤ ftHigh d y it ∧ toIndex ci n = (k : Int)) ∧ e.tid = assign it)
    (hrest : ∀ l, (∀ k, l ≠ .elem A k) → ∃ p, Schema.disj.allows p = true ∧ Respects tr f j l p) :
    ¬ Race false tr :=
  disj_drf wf A (fun it k => ∃ n, ftLow d it ≤ n ∧ n ≤ ftHigh d y it ∧ toIndex ci n = (k : Int)) assign
    (fun _ _ _ ⟨_, hn1, hn2, hn3⟩ ⟨_, hm1, hm2, hm3⟩ => Classical.byContradiction fun hne =>
      Pc.HB.factorTable_index_ranges_disjoint h0 h1 h2 hd hne ⟨hn1, hn2⟩ ⟨hm1, hm2⟩ (hn3.trans hm3.symm))
    harr hrest

/-- `LockGuard` skips the lock only when the lock was initialised for one thread, and then the team
    of a region with `num_threads(n)`, `n` = that thread count, has one member -/
theorem lock_skipped_only_if_one_thread (initThreads team : Nat) (hteam : team ≤ max 1 initThreads)
    (hskip : lockGuardLocks initThreads = false) : team ≤ 1 :=
  Pc.HB.lock_skipped_only_if_one_thread initThreads team hteam hskip

/-- … and a one-thread execution has no race -/
theorem single_thread_no_race {r : Bool} {tr : Exec} (h : ∀ (i : Nat) (e : Event), tr[i]? = some e → e.tid = 0) :
    ¬ Race r tr := Pc.HB.single_thread_no_race h

/-- TIE (generated from /repo on every run): every OpenMP region carries a proved schema, every outer
    object written in a region has a protection its schema allows, dispenser regions tie the team
    size to the lock; every public non-const method of the three dispensers starts with LockGuard -/
theorem regions_instantiate_schemas :
    Pc.Gen.ompRegions.all RegionRec.ok = true ∧ Pc.Gen.ompLockClasses.all LockClassRec.ok = true ∧
    Pc.Gen.ompRegionKeys = expectedRegions := by
  refine ⟨by decide, Pc.Gen.omp_lock_classes_ok, Pc.Gen.omp_regions_expected⟩

/-! ### non-vacuity (tests, labelled as such) -/

/-- a dispenser execution: two workers take the lock in turn and write the shared variable 0 -/
def exDisp : Exec :=
  [⟨0, .fork⟩, ⟨1, .acq 0⟩, ⟨1, .write (.var 0)⟩, ⟨1, .rel 0⟩,
   ⟨2, .acq 0⟩, ⟨2, .write (.var 0)⟩, ⟨2, .rel 0⟩, ⟨0, .join⟩]

/-- the same two writes without the lock -/
def exRacy : Exec := [⟨0, .fork⟩, ⟨1, .write (.var 0)⟩, ⟨2, .write (.var 0)⟩, ⟨0, .join⟩]

/-- the hypotheses of `schema_drf .disp` are satisfiable by a genuinely concurrent execution -/
example : IsExecOf .disp exDisp 0 7 := by
  have hlen : ∀ (i : Nat) (e : Event), exDisp[i]? = some e → i < 8 := by
    intro i e h
    have := (List.getElem?_eq_some_iff.1 h).1
    simpa [exDisp] using this
  refine ⟨⟨rfl, rfl, by decide, ?_, ?_, ?_, ?_⟩, ?_⟩
  · intro i e h; omega
  · intro i e h h2
    have := hlen i e h2
    omega
  · intro m i0 j0 s t hlt h1 h2
    have a := hlen _ _ h1
    have b := hlen _ _ h2
    interval_cases i0 <;> simp [exDisp] at h1 <;> interval_cases j0 <;> simp [exDisp] at h2 <;> try omega
    obtain ⟨rfl, rfl⟩ := h1
    exact ⟨3, by omega, by omega, rfl⟩
  · intro b jl t h
    have a := hlen _ _ h
    interval_cases jl <;> simp [exDisp] at h
  · intro l
    by_cases hl : l = .var 0
    · subst hl
      refine ⟨.lock 0, rfl, ?_⟩
      intro i e h1 h2 h3 h4
      interval_cases i <;> simp [exDisp] at h3 <;> subst h3 <;> simp [Kind.loc?] at h4
      · exact ⟨1, by omega, rfl, by intro k a b; omega⟩
      · exact ⟨4, by omega, rfl, by intro k a b; omega⟩
    · refine ⟨.ro, rfl, ?_⟩
      intro i e h1 h2 h3 h4
      interval_cases i <;> simp [exDisp] at h3 <;> subst h3 <;> simp [Kind.loc?] at h4 <;> exact absurd h4.symm hl

/-- … and `Race` is not vacuous: the unlocked variant IS a race in this model -/
example : Race false exRacy := by
  refine ⟨1, 2, ⟨1, .write (.var 0)⟩, ⟨2, .write (.var 0)⟩, by omega, rfl, rfl, ?_, ?_⟩
  · exact ⟨by decide, .var 0, rfl, rfl, Or.inl rfl, by simp [Kind.isAtomic]⟩
  · intro h
    obtain ⟨_, a, b, ha, hb, h⟩ := hb_adjacent h rfl
    simp [exRacy] at ha hb
    subst ha hb
    simp [sw] at h

/-- the alignment lemmas at the constants of the code -/
example : 240 ∣ alignUp 10000000 240 ∧ alignUp 10000000 240 = 10000080 := by decide
example : 2310 ∣ alignUp (ceilDiv 100000000 8) 2310 := by decide

end Pc.C10

#print axioms Pc.C10.schema_drf
#print axioms Pc.C10.schema_drf_rmw_edges
#print axioms Pc.C10.region_drf
#print axioms Pc.C10.aligned_ranges_disjoint
#print axioms Pc.C10.alignUp_spec
#print axioms Pc.C10.piTable_word_ranges_disjoint
#print axioms Pc.C10.piTable_word_ranges_cover
#print axioms Pc.C10.factorTable_index_ranges_disjoint
#print axioms Pc.C10.piTable_init_drf
#print axioms Pc.C10.factorTable_ctor_drf
#print axioms Pc.C10.lock_skipped_only_if_one_thread
#print axioms Pc.C10.single_thread_no_race
#print axioms Pc.C10.regions_instantiate_schemas
