/-
C04, closed (WP indep) — "results do not depend on the alpha tuning factors" as a COROLLARY of the closed end-to-end theorems
(PcProps/C01Closed.lean).  In `GExecC` / `DrExec` / `ApiExecC` the tuning factors are EXISTENTIALLY quantified (`∃ ay az, GourdonEnv x ay az fo`,
`∃ a, DrEnv x a fo`): the closed theorems hold for whatever `get_alpha_y(x)` / `get_alpha_z(x)` / `get_alpha(x)` returned.  Here they are
NAMED (`GExecAlpha`, `DrExecAlpha`, `ApiExecAlpha`, PcProofs/Indep.lean) and two executions under two tunings are compared.

What a tuning `(ay, az)` is: the exact value of the double after `in_between(1, alpha_y, x^(1/6))` (util.cpp), i.e. any user override
`set_alpha_y(v)` (ANY finite `v`: `any_override_is_admissible`) or the default formula; `GourdonEnv` then only says that the float products
`x^(1/3)·alpha_y`, `y·alpha_z`, `get_max_x(alpha_y)` were computed within relative error `2^-40` (C12's named envelopes).

THE ONE PLACE where the tuning changes the OUTCOME: the 128-bit range check `x ≤ get_max_x(alpha_y)` (`pi_gourdon_outcomes_under_any_alpha`:
π(x), or the range error exactly when `x` is above the tuning-dependent maximum, or `badRun`); a 64-bit entry point never answers the range error.

INHERITED HYPOTHESES, per execution: `Ctx.OK` (as in PcProps/C03Closed.lean: (S) configuration / size, (F) `FloatOk` below `W.bnd`,
(T) `phiVec` / `PhiRunOK.cache`, (L) `PhiRunOK.lit`, (O) `PhiRunOK.order`, `NestedS`); of `GExecAlpha` / `DrExecAlpha`: (F) `GourdonEnv` / `DrEnv`
at the named tuning, `h53`; (O) `IsSchedule`, `Run.valid`, `AcRunOK`; (S) `yB`, reach; Gourdon stand-alone: `x < 2 ∨ 2401 ≤ x`.
Only property theorems, non-vacuity examples and the axiom audit live here.
-/
import PcProofs.IndepEx
import PcProofs.Params

namespace Pc.C04Closed
open Pc.Top Pc.Close Pc.Indep Nat PcGen.ApiConst
open scoped Nat.Prime

/-- every user override is admissible: whatever `alpha_y_` holds (thousandths `k`, any integer — `set_alpha_y` of a value below 1, above
    `x^(1/6)`, huge), the value `in_between(1, alpha_y_, x16)` the run uses lies in `[1, x16]` — the first two conjuncts of `GourdonEnv` / `DrEnv` -/
theorem any_override_is_admissible (k x16 : ℤ) (h : 1 ≤ x16) :
    (1 : ℚ) ≤ (clampAlphaMilli k x16 : ℚ) / 1000 ∧ (clampAlphaMilli k x16 : ℚ) / 1000 ≤ (x16 : ℚ) := by
  have h1 : 1000 ≤ clampAlphaMilli k x16 ∧ clampAlphaMilli k x16 ≤ x16 * 1000 := by
    unfold clampAlphaMilli inBetween
    split <;> [skip; split] <;> simp_all
  have a : ((1000 : ℤ) : ℚ) ≤ (clampAlphaMilli k x16 : ℚ) := by exact_mod_cast h1.1
  have b : (clampAlphaMilli k x16 : ℚ) ≤ ((x16 * 1000 : ℤ) : ℚ) := by exact_mod_cast h1.2
  push_cast at a b
  constructor
  · rw [le_div_iff₀ (by norm_num)]; linarith
  · rw [div_le_iff₀ (by norm_num)]; linarith

/-- **every outcome of `pi_gourdon_64(x)` / `pi_gourdon_128(x)` under ANY tuning `(ay, az)`**: π(x); or — only for the 128-bit function and
    exactly when `x > get_max_x(alpha_y)` — the range error `primecount_error`; or `badRun` (a recorded D history that is not a run) -/
theorem pi_gourdon_outcomes_under_any_alpha (k : Ctx) (wide : Bool) (x : ℤ) (hx : InType wide x) (hsmall : x < 2 ∨ 2401 ≤ x) (r : GRun)
    (h : k.OK x) (ay az : ℚ) (hex : 2 ≤ x → GExecAlpha (k.W.tablesS k.c k.f wide) k.B x.toNat ay az r) :
    k.piGourdon wide x r = .ok (π x.toNat : ℤ) ∨ k.piGourdon wide x r = badRun ∨
      (wide = true ∧ r.fo.maxX < x ∧ k.piGourdon wide x r = .error (.params .range)) :=
  k.piGourdon_alpha wide x hx hsmall r h ay az hex

/-- **Gourdon: any two tuning settings** `(ay₁, az₁)`, `(ay₂, az₂)` (and any two executions otherwise): two counts that are returned are equal
    — a count returned under a user alpha is the count under the default alpha -/
theorem pi_gourdon_independent_of_alpha (k₁ k₂ : Ctx) (wide : Bool) (x : ℤ) (hx : InType wide x) (hsmall : x < 2 ∨ 2401 ≤ x)
    (r₁ r₂ : GRun) (h₁ : k₁.OK x) (h₂ : k₂.OK x) (ay₁ az₁ ay₂ az₂ : ℚ)
    (e₁ : 2 ≤ x → GExecAlpha (k₁.W.tablesS k₁.c k₁.f wide) k₁.B x.toNat ay₁ az₁ r₁)
    (e₂ : 2 ≤ x → GExecAlpha (k₂.W.tablesS k₂.c k₂.f wide) k₂.B x.toNat ay₂ az₂ r₂)
    (v₁ v₂ : ℤ) (hv₁ : k₁.piGourdon wide x r₁ = .ok v₁) (hv₂ : k₂.piGourdon wide x r₂ = .ok v₂) : v₁ = v₂ := by
  have o₁ : k₁.piGourdon wide x r₁ = .ok (π x.toNat : ℤ) ∨ k₁.piGourdon wide x r₁ = badRun := by
    rcases k₁.piGourdon_alpha wide x hx hsmall r₁ h₁ ay₁ az₁ e₁ with a | a | ⟨_, _, a⟩
    · exact Or.inl a
    · exact Or.inr a
    · cases a.symm.trans hv₁
  have o₂ : k₂.piGourdon wide x r₂ = .ok (π x.toNat : ℤ) ∨ k₂.piGourdon wide x r₂ = badRun := by
    rcases k₂.piGourdon_alpha wide x hx hsmall r₂ h₂ ay₂ az₂ e₂ with a | a | ⟨_, _, a⟩
    · exact Or.inl a
    · exact Or.inr a
    · cases a.symm.trans hv₂
  exact ok_unique o₁ o₂ hv₁ hv₂

/-- `pi_gourdon_64(x)` never answers the range error, whatever the tuning: π(x) or `badRun` -/
theorem pi_gourdon_64_total_under_any_alpha (k : Ctx) (x : ℤ) (hx : x < 2 ^ 63) (hsmall : x < 2 ∨ 2401 ≤ x) (r : GRun)
    (h : k.OK x) (ay az : ℚ) (hex : 2 ≤ x → GExecAlpha (k.W.tablesS k.c k.f false) k.B x.toNat ay az r) :
    k.piGourdon false x r = .ok (π x.toNat : ℤ) ∨ k.piGourdon false x r = badRun := by
  rcases k.piGourdon_alpha false x (by unfold InType; simpa using hx) hsmall r h ay az hex with a | a | ⟨a, _, _⟩
  · exact Or.inl a
  · exact Or.inr a
  · exact absurd a (by decide)

/-- **Deleglise-Rivat (64-bit), any two values of `alpha`**: two counts that are returned are equal -/
theorem pi_deleglise_rivat_independent_of_alpha (k₁ k₂ : Ctx) (x : ℤ) (hx : x < 2 ^ 63) (r₁ r₂ : DrRun)
    (h₁ : k₁.OK x) (h₂ : k₂.OK x) (a₁ a₂ : ℚ)
    (e₁ : 2 ≤ x → DrExecAlpha (k₁.W.tablesS k₁.c k₁.f false) k₁.B x.toNat a₁ r₁)
    (e₂ : 2 ≤ x → DrExecAlpha (k₂.W.tablesS k₂.c k₂.f false) k₂.B x.toNat a₂ r₂)
    (v₁ v₂ : ℤ) (hv₁ : k₁.piDr x r₁ = .ok v₁) (hv₂ : k₂.piDr x r₂ = .ok v₂) : v₁ = v₂ :=
  ok_unique (k₁.piDr_total x hx r₁ h₁ (fun h => (e₁ h).exec)) (k₂.piDr_total x hx r₂ h₂ (fun h => (e₂ h).exec)) hv₁ hv₂

/-- **`pi(x)` (the dispatcher, every int128 `x`), any two tuning settings**: the cache / Legendre / Meissel routes have no tuning factor, the
    Gourdon route runs under `(ay, az)`; two counts that are returned are equal, and equal to π(x) -/
theorem pi_independent_of_alpha (k₁ k₂ : Ctx) (x : ℤ) (hx : x < 2 ^ 127) (r₁ r₂ : ApiRun) (h₁ : k₁.OK x) (h₂ : k₂.OK x)
    (ay₁ az₁ ay₂ az₂ : ℚ)
    (e₁ : (maxCached : ℤ) < x → ApiExecAlpha (k₁.W.tablesS k₁.c k₁.f (isWide x)) k₁.B (isWide x) x.toNat ay₁ az₁ r₁)
    (e₂ : (maxCached : ℤ) < x → ApiExecAlpha (k₂.W.tablesS k₂.c k₂.f (isWide x)) k₂.B (isWide x) x.toNat ay₂ az₂ r₂)
    (v₁ v₂ : ℤ) (hv₁ : k₁.piApi x r₁ = .ok v₁) (hv₂ : k₂.piApi x r₂ = .ok v₂) : v₁ = v₂ ∧ v₁ = (π x.toNat : ℤ) := by
  have o₁ := k₁.piApi_total x hx r₁ h₁ (fun h => (e₁ h).toApiExecC)
  have o₂ := k₂.piApi_total x hx r₂ h₂ (fun h => (e₂ h).toApiExecC)
  refine ⟨ok_unique o₁ o₂ hv₁ hv₂, ?_⟩
  rcases o₁ with a | a
  · cases a.symm.trans hv₁; rfl
  · cases a.symm.trans hv₁

/-- Gourdon under one tuning against Deleglise-Rivat under another (the documented "verify by recomputing with another alpha / algorithm") -/
theorem gourdon_dr_independent_of_alpha (k₁ k₂ : Ctx) (x : ℤ) (hx : x < 2 ^ 63) (hsmall : x < 2 ∨ 2401 ≤ x) (r₁ : GRun) (r₂ : DrRun)
    (h₁ : k₁.OK x) (h₂ : k₂.OK x) (ay az a : ℚ)
    (e₁ : 2 ≤ x → GExecAlpha (k₁.W.tablesS k₁.c k₁.f false) k₁.B x.toNat ay az r₁)
    (e₂ : 2 ≤ x → DrExecAlpha (k₂.W.tablesS k₂.c k₂.f false) k₂.B x.toNat a r₂)
    (v₁ v₂ : ℤ) (hv₁ : k₁.piGourdon false x r₁ = .ok v₁) (hv₂ : k₂.piDr x r₂ = .ok v₂) : v₁ = v₂ :=
  ok_unique (pi_gourdon_64_total_under_any_alpha k₁ x hx hsmall r₁ h₁ ay az e₁) (k₂.piDr_total x hx r₂ h₂ (fun h => (e₂ h).exec)) hv₁ hv₂

/-! non-vacuity (tests, labelled as such) -/

/-- the tuning ranges over more than one value at the same `x = 10^5`: real float outcomes for `(alpha_y, alpha_z) = (1, 2)` (`y = 47`, `z = 94`)
    and for `(1.5, 1)` (`y = z = 69`) both meet the envelope; likewise `alpha = 1` (`y = 46`) and `alpha = 2` (`y = 92`) for Deleglise-Rivat -/
example : GourdonEnv 100000 1 2 exGFloats ∧ GourdonEnv 100000 (3 / 2) 1 exGFloats' := ⟨exGEnv, exGEnv'⟩
example : DrEnv 100000 1 exDrFloats ∧ DrEnv 100000 2 exDrFloats' := ⟨exDrEnv, exDrEnv'⟩
/-- complete executions with the tuning named: every hypothesis of `gourdon_dr_independent_of_alpha` holds together (no assumption left) -/
example (c₁ c₂ : Sieve.Cfg) (f₁ f₂ : Sieve.StopFn) (v₁ v₂ : ℤ)
    (hv₁ : (exCtx c₁ f₁ 3 false).piGourdon false 100000 (exGRun (exWorld.tablesS c₁ f₁ false).t) = .ok v₁)
    (hv₂ : (exCtx c₂ f₂ 1 true).piDr 100000 exDrRun = .ok v₂) : v₁ = v₂ :=
  gourdon_dr_independent_of_alpha _ _ 100000 (by norm_num) (Or.inr (by norm_num)) _ _
    (exCtx_ok _ _ _ _ _ (by norm_num)) (exCtx_ok _ _ _ _ _ (by norm_num)) 1 2 1
    (fun _ => exGExecAlpha c₁ f₁) (fun _ => exDrExecAlpha c₂ f₂) v₁ v₂ hv₁ hv₂
/-- overrides outside `[1, x^(1/6)]` are clamped: `set_alpha_y(-3)` and `set_alpha_y(10^6)` at `x16 = 7` -/
example : clampAlphaMilli (-3000) 7 = 1000 ∧ clampAlphaMilli 1000000000 7 = 7000 := by decide

end Pc.C04Closed

#print axioms Pc.C04Closed.any_override_is_admissible
#print axioms Pc.C04Closed.pi_gourdon_outcomes_under_any_alpha
#print axioms Pc.C04Closed.pi_gourdon_independent_of_alpha
#print axioms Pc.C04Closed.pi_gourdon_64_total_under_any_alpha
#print axioms Pc.C04Closed.pi_deleglise_rivat_independent_of_alpha
#print axioms Pc.C04Closed.pi_independent_of_alpha
#print axioms Pc.C04Closed.gourdon_dr_independent_of_alpha
