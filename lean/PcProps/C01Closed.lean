/-
C01 / C02 (WP close, step 5): THE GRAND COROLLARIES — the entry points `pi(int128_t)`, `pi_gourdon_64`, `pi_deleglise_rivat_64` over
`W : Pc.Close.World` (PcProofs/CloseWorld.lean), in which EVERY object is the model of the real constructor / object
(`W.tablesS c f wide`): primes by the C18 model of the bundled primesieve (`genTo`), generate_primes / PiTable / FactorTable / FactorTableD / phi_vector by the
C17 constructor models (`realNT`, `realHardEnv`, `realDEnv`), `primesieve::iterator` by WP iter's model over the same sieving core
(`It.realIter (It.coreEnvTo …)`), `phi(x, a)` by the L2 model of phi.cpp over the real PhiTiny tables / PiTable constructor / `pix_upper`
table (`phiReal`, `realTop`), every term of Gourdon / Deleglise-Rivat by the model of its real control flow, the parameters in checked
arithmetic, the recursion through `pi_noprint` CLOSED.  No hook, no `PhiContract`, no `IterSpec`, no `GenSpec` / `PrimeGenSpec`,
no `EnvOK` / `FactorOK` / `FactorDOK` / `NT.Valid` hypothesis is left.

REMAINING HYPOTHESES (each explicit in the statements; dependency diagram in notes/wp-close.md):
 (F) FLOATS      `W.OK.float`: `FloatOk` of the sieving core (`(uint64)(sieveSize * 3.0) < 2^25`) for the windows below `W.bnd` — a THEOREM for
                 `W.bnd ≤ 2^50` (`exWorld_ok`); `GourdonEnv` / `DrEnv` (inside `GExecC` / `DrExec`): the named envelopes of the parameter derivation.
 (O) OPENMP      every schedule / valid run / chain of AC segments / recorded LoadBalancerS2 history / reduction order is QUANTIFIED; what is assumed is
                 that the recorded ones ARE such (`IsSchedule`, `Run.valid`, `AcRunOK`, `PhiRunOK.order`); a D / S2_hard history that is not a run of
                 the dispenser is answered `badRun` (second disjunct); `hrec` (`World.Nested`): each nested `pi_noprint(n)` WAS computed by SOME execution.
 (L) LITERATURE  `PhiRunOK.lit`: `π(n) ≤ pix_upper(n)` for the double formula above 30719 — or merely `a < pix_upper(n)` (the guard is not taken).
 (S) MODEL SIZE  `W.OK.size`, `GReach`, `yB`, `yb`: the ONE shared table `T.t` of the model reaches what the callee would allocate (pure parameters of the
                 model: `W.N` is arbitrary); primesieve configuration `16 ≤ kib ≤ 8192`; iterator stop hints are `uint64_t` values.
 (T) NOT CLOSED  (listed, justified in the notes) `PhiRunOK.cache` — contents of the PhiCache sieve arrays (`init_cache` not modelled; free when the
                 constructor disables the cache: `cacheOK_of_geometry`); `W.OK.phiVec` — `PhiCache::phi<-1>` inside `phi_vector` (= C07's conclusion,
                 `phiNegSpec_of_phiRecAlg`); Gourdon for `2 ≤ x < 2401` (`get_k(x) < 4`).
`T.S` is C17's BIT-EXACT model of `class Sieve` (`concreteSieve c f`, any CPU configuration) on every segment whose byte count fits the class's
`uint32_t` fields (`seg / 30 * 8 < 2^32`), the reference semantics beyond (`sumSieve`, `world_sieve_is_bit_exact`); needs `B < 2^32` (S) — every int64 `x`, and int128 `x` with `y < 2^32`; beyond: `pi_api_eq_pi_refsieve`.
The prime vectors are NOT hypotheses: `generate_primes<T>(max)` / `generate_n_primes<int32_t>(a)` (StorePrimes.hpp over the iterator over the same
sieving core) return exactly the lists the tables / phi.cpp read (`world_generate_primes`).
Only property theorems, non-vacuity examples and the axiom audit live here.
-/
import PcProofs.CloseWorld3Ex

namespace Pc.C01Closed
open Pc.Top Pc.Close Nat PcGen.ApiConst
open scoped Nat.Prime

/-- **`TablesOK` is a theorem for the world**: the table / iterator / sieve contracts of WP top (`valid`, `iter`, `consts`, `sieve`, `hardEnv`,
    `hardFactor`, `dEnv`, `dFactor`) hold for the objects built by the constructor models, for both entry widths; the iterator is patched above
    the last 64-bit prime `2^64 - 59`, where the unbounded contract is FALSE of the real iterator and no composed function asks
    (`piGourdon_withIt`, `piDeleglieRivat_withIt`) -/
theorem world_tables_ok (W : World) {B : ℕ} (h : W.OK B) (hB : B < 2 ^ 32) (c : Sieve.Cfg) (f : Sieve.StopFn) (wide : Bool) :
    TablesOK ((W.tablesS c f wide).withIt (P2L.patch (W.tablesS c f wide).it It.maxPrime64)) B ∧
      P2L.IterSpecTo (W.tablesS c f wide).it It.maxPrime64 :=
  ⟨W.tablesS_ok h hB c f wide, W.it_specTo h⟩

/-- the sieve object of the world IS the bit-exact `class Sieve` (C17 `concreteSieve`, CPU configuration `c`, inline count body `f`) over the
    constructor-built prime array on every segment the class's `uint32_t` byte counters can represent: `create` returns its state, and every later
    operation of `sumSieve` stays in that summand -/
theorem world_sieve_is_bit_exact (W : World) (c : Sieve.Cfg) (f : Sieve.StopFn) (wide : Bool) (low seg w : ℕ)
    (hfit : seg / 30 * 8 < 2 ^ 32) :
    (W.tablesS c f wide).S.create low seg w =
      .inl ((Hard.concreteSieve c f (realNT W.gen W.tthreads W.N).primes).create low seg w) :=
  Hard.sumSieve_create_fits _ _ low seg w hfit

/-- **the prime vectors**: (1) what `generate_primes<T>(max)` (generate_primes.cpp → `store_primes` of StorePrimes.hpp: two loops over
    `primesieve::iterator`, the last 64-bit prime appended by hand) returns over the iterator model over the world's sieving core IS the list
    `genPrimes W.gen max` the C17 constructor models read; (2) phi.cpp's `generate_n_primes<int32_t>(a)` is `[0, p 1, …, p a]` -/
theorem world_generate_primes (W : World) {B : ℕ} (h : W.OK B) :
    (∀ vmax mx, mx ≤ vmax → mx ≤ It.umax → It.pcGeneratePrimes W.env vmax mx = .ok (genPrimes W.gen mx)) ∧
    (∀ x a N, a ≤ π N → N ≤ 2 ^ 31 - 1 → W.prime x a 0 = 0 ∧ ∀ i, 1 ≤ i → i ≤ a → W.prime x a i = Spec.p i) :=
  ⟨fun vmax mx hv hu => W.generate_primes_eq h vmax mx hv hu, fun x a N ha hN => W.generate_n_primes_eq h x a N ha hN⟩

/-- **the nested calls return π**: any `pi` that is consistent with being computed by the dispatcher over the world is π at every int64
    argument below `x` -/
theorem nested_calls_are_pi (W : World) {B : ℕ} (h : W.OK B) (hB : B < 2 ^ 32) (c : Sieve.Cfg) (f : Sieve.StopFn) (pi : ℕ → ℕ) (x : ℤ)
    (hphi : ∀ n : ℕ, (n : ℤ) < x → maxCached < n → n ≤ meisselMax → W.PhiRunOK n)
    (hrec : W.NestedS c f B pi x) :
    ∀ n : ℕ, (n : ℤ) < x → n < 2 ^ 63 → pi n = π n :=
  W.nested_s h hB c f pi x hphi hrec

/-- **`pi_api_eq_pi`** — `pi(int128_t x)` (api.cpp) for EVERY int128 `x`: negative → 0; `x ≤ INT64_MAX` → cache / `pi_legendre` / `pi_meissel` /
    `pi_gourdon_64`; above → `pi_gourdon_128`.  The tables are those of the route that is taken (`W.tables (x > INT64_MAX)`: `uint32_t` factor-table
    entries only inside `pi_gourdon_128`, D.cpp:311); the nested `pi_noprint` calls are 64-bit (`W.Nested` is over `W.tables false`).
    Hypotheses: (F) `h.float`, `GourdonEnv` in `hex`; (O) `hex`, `hrec`, `PhiRunOK.order`; (L) `PhiRunOK.lit`; (S) `h.size`, reach fields of `hex`;
    (T) `PhiRunOK.cache`, `h.phiVec`.  Result: π(x), or `badRun` for a recorded D history that is not a run. -/
theorem pi_api_eq_pi (W : World) {B : ℕ} (h : W.OK B) (hB : B < 2 ^ 32) (c : Sieve.Cfg) (f : Sieve.StopFn) (pi : ℕ → ℕ) (x : ℤ)
    (hx : x < 2 ^ 127) (threads : ℤ) (isPrint : Bool) (r : ApiRun)
    (hphi : ∀ n : ℕ, (n : ℤ) ≤ x → maxCached < n → n ≤ meisselMax → W.PhiRunOK n)
    (hrec : W.NestedS c f B pi x)
    (hex : (maxCached : ℤ) < x →
      ApiExecC (W.tablesS c f (decide ((PiApi.int64Max : ℤ) < x))) B (decide ((PiApi.int64Max : ℤ) < x)) x.toNat r) :
    piApi128 (W.tablesS c f (decide ((PiApi.int64Max : ℤ) < x))) W.phi pi x threads isPrint r = .ok (π x.toNat : ℤ) ∨
      piApi128 (W.tablesS c f (decide ((PiApi.int64Max : ℤ) < x))) W.phi pi x threads isPrint r = .error (.hard .badRun) :=
  W.pi_api_s h hB c f pi x hx threads isPrint r hphi hrec hex

/-- **`pi_gourdon_eq_pi`** — `pi_gourdon_64(x)` (`wide = false`) / `pi_gourdon_128(x)` (`wide = true`, `x` accepted by the range check) over the
    tables of its own instantiation, `x < 2` or `x ≥ 2401` -/
theorem pi_gourdon_eq_pi (W : World) {B : ℕ} (h : W.OK B) (hB : B < 2 ^ 32) (c : Sieve.Cfg) (f : Sieve.StopFn) (pi : ℕ → ℕ)
    (wide : Bool) (x : ℤ) (hx : InType wide x) (hsmall : x < 2 ∨ 2401 ≤ x) (threads : ℤ) (isPrint : Bool) (r : GRun)
    (hphi : ∀ n : ℕ, (n : ℤ) < x → maxCached < n → n ≤ meisselMax → W.PhiRunOK n)
    (hrec : W.NestedS c f B pi x)
    (hex : 2 ≤ x → GExecC (W.tablesS c f wide) B wide x.toNat r) :
    piGourdon (W.tablesS c f wide) pi wide x threads isPrint r = .ok (π x.toNat : ℤ) ∨
      piGourdon (W.tablesS c f wide) pi wide x threads isPrint r = .error (.hard .badRun) :=
  W.pi_gourdon_s h hB c f pi wide x hx hsmall threads isPrint r hphi hrec hex

/-- **`pi_gourdon_64_eq_pi`** — `pi_gourdon_64(x)` for every int64 `x` with `x < 2` or `x ≥ 2401`: `Sigma`, `Phi0`, `AC` (A, C1, C2 over the
    segments), `B` (over the real iterator), `D` each by its real control flow; `ac - b + d + phi0 + sigma = π(x)`. -/
theorem pi_gourdon_64_eq_pi (W : World) {B : ℕ} (h : W.OK B) (hB : B < 2 ^ 32) (c : Sieve.Cfg) (f : Sieve.StopFn) (pi : ℕ → ℕ) (x : ℤ)
    (hx : x < 2 ^ 63) (hsmall : x < 2 ∨ 2401 ≤ x) (threads : ℤ) (isPrint : Bool) (r : GRun)
    (hphi : ∀ n : ℕ, (n : ℤ) < x → maxCached < n → n ≤ meisselMax → W.PhiRunOK n)
    (hrec : W.NestedS c f B pi x)
    (hex : 2 ≤ x → GExecC (W.tablesS c f false) B false x.toNat r) :
    piGourdon (W.tablesS c f false) pi false x threads isPrint r = .ok (π x.toNat : ℤ) ∨
      piGourdon (W.tablesS c f false) pi false x threads isPrint r = .error (.hard .badRun) :=
  W.pi_gourdon_s h hB c f pi false x (by unfold InType; simpa using hx) hsmall threads isPrint r hphi hrec hex

/-- **`pi_deleglise_rivat_64_eq_pi`** — `pi_deleglise_rivat_64(x)` for EVERY int64 `x`: `P2` (over the real iterator), `S1`, `S2_trivial`,
    `S2_easy`, `S2_hard` each by its real control flow, `pi_y = pi_noprint(y)` by the dispatcher; `s1 + s2 + pi_y - 1 - p2 = π(x)`. -/
theorem pi_deleglise_rivat_64_eq_pi (W : World) {B : ℕ} (h : W.OK B) (hB : B < 2 ^ 32) (c : Sieve.Cfg) (f : Sieve.StopFn)
    (pi : ℕ → ℕ) (x : ℤ) (hx : x < 2 ^ 63) (threads : ℤ) (isPrint : Bool) (r : DrRun)
    (hphi : ∀ n : ℕ, (n : ℤ) < x → maxCached < n → n ≤ meisselMax → W.PhiRunOK n)
    (hrec : W.NestedS c f B pi x)
    (hex : 2 ≤ x → DrExec (W.tablesS c f false) B false x.toNat r) :
    piDeleglieRivat (W.tablesS c f false) pi false x threads isPrint r = .ok (π x.toNat : ℤ) ∨
      piDeleglieRivat (W.tablesS c f false) pi false x threads isPrint r = .error (.hard .badRun) :=
  W.pi_deleglise_rivat_64_s h hB c f pi x hx threads isPrint r hphi hrec hex

/-- `pi_api_eq_pi` with the REFERENCE sieve (`W.tables`) and NO bound on `B`: for the 128-bit route with `y ≥ 2^32` (x beyond ≈ 8·10^28 under the default
    tuning), where `TablesOK.sieve` of WP top asks the sieve contract for levels up to `π(y)` whose primes do not fit the `uint32_t` fields of `class Sieve`
    (the real `D` only sieves with primes `≤ x⋆ < 2^32`; the bundle's field is over-general) -/
theorem pi_api_eq_pi_refsieve (W : World) {B : ℕ} (h : W.OK B) (pi : ℕ → ℕ) (x : ℤ) (hx : x < 2 ^ 127) (threads : ℤ) (isPrint : Bool)
    (r : ApiRun)
    (hphi : ∀ n : ℕ, (n : ℤ) ≤ x → maxCached < n → n ≤ meisselMax → W.PhiRunOK n)
    (hrec : W.Nested B pi x)
    (hex : (maxCached : ℤ) < x →
      ApiExecC (W.tables (decide ((PiApi.int64Max : ℤ) < x))) B (decide ((PiApi.int64Max : ℤ) < x)) x.toNat r) :
    piApi128 (W.tables (decide ((PiApi.int64Max : ℤ) < x))) W.phi pi x threads isPrint r = .ok (π x.toNat : ℤ) ∨
      piApi128 (W.tables (decide ((PiApi.int64Max : ℤ) < x))) W.phi pi x threads isPrint r = .error (.hard .badRun) :=
  W.pi_api_w h pi x hx threads isPrint r hphi hrec hex

/-- `piApi_eq_pi` of PcProps/C01Top.lean with one hypothesis fewer (generic tables `T`, generic `phi`): no AC hook (`ApiExecC`), and
    `PhiContract` only at int64 arguments (above `INT64_MAX` the dispatcher calls `pi_gourdon_128` at once) -/
theorem pi_api_eq_pi_generic {σ : Type} (T : Tables σ) {B : ℕ} (hT : TablesOK T B) (phi : ℕ → ℕ → ℕ) (pi : ℕ → ℕ) (x : ℤ)
    (hx : x < 2 ^ 127) (threads : ℤ) (isPrint : Bool) (r : ApiRun)
    (hphi : ∀ n : ℕ, (n : ℤ) ≤ x → n < 2 ^ 63 → PhiContract phi n)
    (hrec : NestedByDispatcher T B phi pi x)
    (hex : (maxCached : ℤ) < x → ApiExecC T B (decide ((PiApi.int64Max : ℤ) < x)) x.toNat r) :
    piApi128 T phi pi x threads isPrint r = .ok (π x.toNat : ℤ) ∨
      piApi128 T phi pi x threads isPrint r = .error (.hard .badRun) :=
  piApi128_closed T hT phi pi x hx threads isPrint r hphi hrec hex

/-! non-vacuity (tests, labelled as such): ONE concrete world and ONE concrete execution meet every hypothesis at `x = 10^5` -/

/-- the world: sieving-core model below 2^50 (NO float assumption left), 256 KiB sieve, tables up to 3000 -/
example : exWorld.OK 100 := exWorld_ok
/-- (L), (T), (O) of phi.cpp at every level (the prime vector is no hypothesis) -/
example (n : ℕ) : exWorld.PhiRunOK n := exWorld_phiRunOK n
/-- (O) the nested-call hypothesis at `x = 10^5` with `pi := π`: every `pi_noprint(n)`, `n < 10^5`, of the dispatcher over the world returns `π n`
    (cache below 30719, `pi_legendre` with the L2 model of phi.cpp inside above) -/
example (c : Sieve.Cfg) (f : Sieve.StopFn) : exWorld.NestedS c f 100 Nat.primeCounting 100000 := exWorld_nestedS c f
/-- a complete execution of `pi_gourdon_64(100000)` (y = 47, z = 94, k = 7; real floats in `GourdonEnv`, static schedules, a recorded valid B run,
    AC segments `[240, 316)`, `[0, 240)`) over the world's tables -/
example (c : Sieve.Cfg) (f : Sieve.StopFn) :
    GExecC (exWorld.tablesS c f false) 100 false 100000 (exGRun (exWorld.tablesS c f false).t) := exGExecC_worldS c f
/-- … and of `pi_deleglise_rivat_64(100000)` (y = 46, c = 8) -/
example (c : Sieve.Cfg) (f : Sieve.StopFn) : DrExec (exWorld.tablesS c f false) 100 false 100000 exDrRun := exDrExec_worldS c f
/-- the theorems applied to these instances: NO hypothesis is left open (the recorded LoadBalancerS2 histories are empty, for which the models
    answer `badRun`; a recorded complete history gives the first disjunct) -/
example (c : Sieve.Cfg) (f : Sieve.StopFn) :=
  pi_gourdon_64_eq_pi exWorld exWorld_ok (by norm_num) c f Nat.primeCounting 100000 (by norm_num) (Or.inr (by norm_num)) 1 false
    (exGRun (exWorld.tablesS c f false).t) (fun n _ _ _ => exWorld_phiRunOK n) (exWorld_nestedS c f) (fun _ => exGExecC_worldS c f)
example (c : Sieve.Cfg) (f : Sieve.StopFn) :=
  pi_deleglise_rivat_64_eq_pi exWorld exWorld_ok (by norm_num) c f Nat.primeCounting 100000 (by norm_num) 1 false
    exDrRun (fun n _ _ _ => exWorld_phiRunOK n) (exWorld_nestedS c f) (fun _ => exDrExec_worldS c f)
/-- `pi(int128_t)` at a Legendre-route argument: the value is π(50000) (no `badRun` possible below 10^8) -/
example (c : Sieve.Cfg) (f : Sieve.StopFn) :
    piApi128 (exWorld.tablesS c f false) exWorld.phi Nat.primeCounting 50000 1 false exApiRun = .ok (π 50000 : ℤ) := by
  have hd : decide ((PiApi.int64Max : ℤ) < 50000) = false := by decide
  have h := pi_api_eq_pi exWorld exWorld_ok (by norm_num) c f Nat.primeCounting 50000 (by norm_num) 1 false exApiRun
    (fun n _ _ _ => exWorld_phiRunOK n)
    (fun n hn h63 => exWorld_nestedS c f n (lt_trans hn (by norm_num)) h63)
    (fun _ => by rw [hd]; exact ⟨fun h _ => absurd h (by decide), fun h => absurd h (by decide)⟩)
  rw [hd] at h
  rcases h with h | h
  · exact h
  · exfalso
    unfold piApi128 piApi64 at h
    have c1 : (maxCached : ℤ) = 30719 := rfl
    have c2 : (legendreMax : ℤ) = 100000 := rfl
    have c0 : (PiApi.int64Max : ℤ) = 2 ^ 63 - 1 := by unfold PiApi.int64Max; norm_num
    split_ifs at h
    all_goals omega

end Pc.C01Closed

#print axioms Pc.C01Closed.world_tables_ok
#print axioms Pc.C01Closed.world_sieve_is_bit_exact
#print axioms Pc.C01Closed.world_generate_primes
#print axioms Pc.C01Closed.nested_calls_are_pi
#print axioms Pc.C01Closed.pi_api_eq_pi
#print axioms Pc.C01Closed.pi_gourdon_eq_pi
#print axioms Pc.C01Closed.pi_gourdon_64_eq_pi
#print axioms Pc.C01Closed.pi_deleglise_rivat_64_eq_pi
#print axioms Pc.C01Closed.pi_api_eq_pi_refsieve
#print axioms Pc.C01Closed.pi_api_eq_pi_generic
