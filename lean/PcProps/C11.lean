/-
C11 — 128-bit code paths agree with the 64-bit paths.
L1 is over unbounded integers, so the 64-bit and the 128-bit instantiation of a formula have the SAME L1;
what is proved here: the width-dependent pieces of the shared arithmetic layer agree.
-/
import PcProofs.Roots

namespace Pc.C11

/-- `isqrt<int128_t>` and `isqrt<int64_t>` (and the unsigned variants) return the same value on a common
    argument, for every pair of floating point estimates -/
theorem isqrt_wide_eq_narrow (t₁ t₂ : ITy) (x s₁ s₂ : ℕ) : isqrtL2 t₁ x s₁ = isqrtL2 t₂ x s₂ := by
  rw [isqrtL2_eq_sqrt, isqrtL2_eq_sqrt]

/-- `iroot<N>` does not depend on the estimate, hence not on the operand width that produced it -/
theorem iroot_wide_eq_narrow (n x r₁ r₂ : ℕ) (hn : 1 ≤ n) : irootLoop n x r₁ = irootLoop n x r₂ :=
  irootLoop_indep n x r₁ r₂ hn

example : isqrtL2 .i128 (10 ^ 18) 5 = isqrtL2 .i64 (10 ^ 18) (10 ^ 9 + 3) := isqrt_wide_eq_narrow _ _ _ _ _

end Pc.C11

#print axioms Pc.C11.isqrt_wide_eq_narrow
#print axioms Pc.C11.iroot_wide_eq_narrow
