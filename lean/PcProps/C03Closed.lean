/-
C03, closed (WP indep) — "results do not depend on thread count, interleaving or measured time" as a COROLLARY of the closed end-to-end
theorems of PcProps/C01Closed.lean (`pi_api_eq_pi`, `pi_gourdon_eq_pi`, `pi_deleglise_rivat_64_eq_pi`).

Those theorems quantify over EVERY execution: every `threads` argument, every print switch, every recorded parallel region (`ApiRun` / `GRun` /
`DrRun`: the `omp for` distributions, the LoadBalancerP2 runs incl. the team size the constructor settled on and the order of the reduction,
the chain of LoadBalancerAC segments in any order, the LoadBalancerS2 histories of `D` / `S2_hard`, whose events carry the measured `secs` /
`init` clock values — PcModel/Dispenser.lean `S2.Ev`), every thread count handed to a table constructor (`W.tthreads`, `W.pthreads`), every
reduction order and cache-object assignment of phi.cpp (`W.order`, `W.sched`), every iterator float / batch size / stop hint, every CPU
configuration of `class Sieve`.  Two executions (`Ctx` + run record, PcProofs/Indep.lean) of the same entry point on the same `x` therefore
return the same count.  An execution is everything BUT the argument: the two contexts below share nothing.

INHERITED HYPOTHESES, per execution (exactly those of `pi_api_eq_pi`; legend and justification: notes/wp-close.md, notes/wp-indep.md):
 `Ctx.OK k x`       (S) `16 ≤ kib ≤ 8192`, `bnd ≤ 2^64`, hints are `uint64_t`, `B ≤ W.N`, `B < 2^32`;  (F) `FloatOk` of the sieving core below
                    `W.bnd` (a theorem for `W.bnd ≤ 2^50`);  (T) `PhiNegSpec W.phiNeg`, `PhiRunOK.cache`;  (L) `PhiRunOK.lit`;
                    (O) `PhiRunOK.order`, `NestedS`: each nested `pi_noprint(n)` WAS computed by some execution of the dispatcher.
 `Ctx.ApiExec` / `GExecC` / `DrExec`   (O) the recorded schedules / runs / AC chain ARE such (`IsSchedule`, `Run.valid`, `AcRunOK`);
                    (F) `GourdonEnv` / `DrEnv`, `h53`;  (S) `yB`, reach;  domain: `x ≤ get_max_x(alpha)` for the 128-bit function.
 NOT a hypothesis: that the result is a count.  The models answer `badRun` for a recorded D / S2_hard history that is not a run of the
 dispenser; the statements are about the counts that ARE returned (`= .ok v`), or assume `≠ badRun` explicitly ((O): the runtime produces
 an accepted history).  Gourdon as a stand-alone entry point: `x < 2 ∨ 2401 ≤ x` (T5 of notes/wp-close.md).
Only property theorems, non-vacuity examples and the axiom audit live here.
-/
import PcProofs.IndepEx

namespace Pc.C03Closed
open Pc.Top Pc.Close Pc.Indep Nat PcGen.ApiConst
open scoped Nat.Prime

/-- **`pi(x)`: two executions return the same count** — different thread counts, print switches, worlds (constructor thread counts,
    iterator floats, phi.cpp reduction orders / caches), sieve configurations, nested-call answers, and different recorded runs
    (schedules, interleavings, clock traces): any two counts that are returned are equal -/
theorem pi_independent_of_threads_and_time (k₁ k₂ : Ctx) (x : ℤ) (hx : x < 2 ^ 127) (r₁ r₂ : ApiRun)
    (h₁ : k₁.OK x) (h₂ : k₂.OK x) (e₁ : k₁.ApiExec x r₁) (e₂ : k₂.ApiExec x r₂)
    (v₁ v₂ : ℤ) (hv₁ : k₁.piApi x r₁ = .ok v₁) (hv₂ : k₂.piApi x r₂ = .ok v₂) : v₁ = v₂ :=
  ok_unique (k₁.piApi_total x hx r₁ h₁ e₁) (k₂.piApi_total x hx r₂ h₂ e₂) hv₁ hv₂

/-- the same with "the recorded histories are runs" ((O): `≠ badRun`) as a hypothesis: the two RESULTS are equal, and they are π(x) -/
theorem pi_same_result_any_two_executions (k₁ k₂ : Ctx) (x : ℤ) (hx : x < 2 ^ 127) (r₁ r₂ : ApiRun)
    (h₁ : k₁.OK x) (h₂ : k₂.OK x) (e₁ : k₁.ApiExec x r₁) (e₂ : k₂.ApiExec x r₂)
    (a₁ : k₁.piApi x r₁ ≠ badRun) (a₂ : k₂.piApi x r₂ ≠ badRun) :
    k₁.piApi x r₁ = k₂.piApi x r₂ ∧ k₁.piApi x r₁ = .ok (π x.toNat : ℤ) := by
  rw [k₁.piApi_eq x hx r₁ h₁ e₁ a₁, k₂.piApi_eq x hx r₂ h₂ e₂ a₂]
  exact ⟨rfl, rfl⟩

/-- the hypotheses about the world do not mention the `threads` argument or the print switch: ONE world, the same nested answers, and ANY
    two thread counts / print modes / recorded runs -/
theorem pi_independent_of_threads_same_world (k : Ctx) (x : ℤ) (hx : x < 2 ^ 127) (h : k.OK x)
    (t₁ t₂ : ℤ) (p₁ p₂ : Bool) (r₁ r₂ : ApiRun)
    (e₁ : (k.withThreads t₁ p₁).ApiExec x r₁) (e₂ : (k.withThreads t₂ p₂).ApiExec x r₂)
    (v₁ v₂ : ℤ) (hv₁ : (k.withThreads t₁ p₁).piApi x r₁ = .ok v₁) (hv₂ : (k.withThreads t₂ p₂).piApi x r₂ = .ok v₂) : v₁ = v₂ :=
  pi_independent_of_threads_and_time _ _ x hx r₁ r₂ (h.withThreads t₁ p₁) (h.withThreads t₂ p₂) e₁ e₂ v₁ v₂ hv₁ hv₂

/-- **`pi_gourdon_64(x)` / `pi_gourdon_128(x)`**: two executions (any threads, schedules of Phi0 / C1, chains of AC segments in any order, B
    runs, D histories with any clock values) return the same count -/
theorem pi_gourdon_independent_of_threads_and_time (k₁ k₂ : Ctx) (wide : Bool) (x : ℤ) (hx : InType wide x)
    (hsmall : x < 2 ∨ 2401 ≤ x) (r₁ r₂ : GRun) (h₁ : k₁.OK x) (h₂ : k₂.OK x)
    (e₁ : 2 ≤ x → GExecC (k₁.W.tablesS k₁.c k₁.f wide) k₁.B wide x.toNat r₁)
    (e₂ : 2 ≤ x → GExecC (k₂.W.tablesS k₂.c k₂.f wide) k₂.B wide x.toNat r₂)
    (v₁ v₂ : ℤ) (hv₁ : k₁.piGourdon wide x r₁ = .ok v₁) (hv₂ : k₂.piGourdon wide x r₂ = .ok v₂) : v₁ = v₂ :=
  ok_unique (k₁.piGourdon_total wide x hx hsmall r₁ h₁ e₁) (k₂.piGourdon_total wide x hx hsmall r₂ h₂ e₂) hv₁ hv₂

/-- **`pi_deleglise_rivat_64(x)`**, every int64 `x`: two executions (P2 runs, S1 / S2_easy schedules, S2_hard histories) return the same count -/
theorem pi_deleglise_rivat_independent_of_threads_and_time (k₁ k₂ : Ctx) (x : ℤ) (hx : x < 2 ^ 63) (r₁ r₂ : DrRun)
    (h₁ : k₁.OK x) (h₂ : k₂.OK x)
    (e₁ : 2 ≤ x → DrExec (k₁.W.tablesS k₁.c k₁.f false) k₁.B false x.toNat r₁)
    (e₂ : 2 ≤ x → DrExec (k₂.W.tablesS k₂.c k₂.f false) k₂.B false x.toNat r₂)
    (v₁ v₂ : ℤ) (hv₁ : k₁.piDr x r₁ = .ok v₁) (hv₂ : k₂.piDr x r₂ = .ok v₂) : v₁ = v₂ :=
  ok_unique (k₁.piDr_total x hx r₁ h₁ e₁) (k₂.piDr_total x hx r₂ h₂ e₂) hv₁ hv₂

/-- across algorithms and executions: a count returned by `pi_gourdon_64` and a count returned by `pi_deleglise_rivat_64` on the same `x`,
    under any two thread counts / schedules / clock traces, are equal -/
theorem gourdon_dr_independent_of_threads_and_time (k₁ k₂ : Ctx) (x : ℤ) (hx : x < 2 ^ 63) (hsmall : x < 2 ∨ 2401 ≤ x)
    (r₁ : GRun) (r₂ : DrRun) (h₁ : k₁.OK x) (h₂ : k₂.OK x)
    (e₁ : 2 ≤ x → GExecC (k₁.W.tablesS k₁.c k₁.f false) k₁.B false x.toNat r₁)
    (e₂ : 2 ≤ x → DrExec (k₂.W.tablesS k₂.c k₂.f false) k₂.B false x.toNat r₂)
    (v₁ v₂ : ℤ) (hv₁ : k₁.piGourdon false x r₁ = .ok v₁) (hv₂ : k₂.piDr x r₂ = .ok v₂) : v₁ = v₂ :=
  ok_unique (k₁.piGourdon_total false x (by unfold InType; simpa using hx) hsmall r₁ h₁ e₁) (k₂.piDr_total x hx r₂ h₂ e₂) hv₁ hv₂

/-! non-vacuity (tests, labelled as such): two DIFFERENT executions meet every hypothesis -/

/-- `pi(50000)` with 1 thread, no status output, one sieve configuration, and with 64 threads, status output, another configuration and
    another run record: all hypotheses hold (no assumption left), both return a count, the counts agree -/
example (c₁ c₂ : Sieve.Cfg) (f₁ f₂ : Sieve.StopFn) (r₁ r₂ : ApiRun) :
    (exCtx c₁ f₁ 1 false).piApi 50000 r₁ = (exCtx c₂ f₂ 64 true).piApi 50000 r₂ ∧
      (exCtx c₁ f₁ 1 false).piApi 50000 r₁ = .ok (π 50000 : ℤ) :=
  pi_same_result_any_two_executions _ _ 50000 (by norm_num) r₁ r₂ (exCtx_ok _ _ _ _ _ (by norm_num)) (exCtx_ok _ _ _ _ _ (by norm_num))
    (exCtx_apiExec _ _ _ _ _ (by norm_num) _) (exCtx_apiExec _ _ _ _ _ (by norm_num) _)
    (exCtx_accepted _ _ _ _ _ (by norm_num) _) (exCtx_accepted _ _ _ _ _ (by norm_num) _)

/-- complete executions of `pi_gourdon_64(100000)` (3 threads in C1, AC segments out of order) and of `pi_deleglise_rivat_64(100000)` under
    two different contexts: the hypotheses of the cross-algorithm statement hold together -/
example (c₁ c₂ : Sieve.Cfg) (f₁ f₂ : Sieve.StopFn) (v₁ v₂ : ℤ)
    (hv₁ : (exCtx c₁ f₁ 3 false).piGourdon false 100000 (exGRun (exWorld.tablesS c₁ f₁ false).t) = .ok v₁)
    (hv₂ : (exCtx c₂ f₂ 1 true).piDr 100000 exDrRun = .ok v₂) : v₁ = v₂ :=
  gourdon_dr_independent_of_threads_and_time _ _ 100000 (by norm_num) (Or.inr (by norm_num)) _ _
    (exCtx_ok _ _ _ _ _ (by norm_num)) (exCtx_ok _ _ _ _ _ (by norm_num))
    (fun _ => exGExecC_worldS c₁ f₁) (fun _ => exDrExec_worldS c₂ f₂) v₁ v₂ hv₁ hv₂

end Pc.C03Closed

#print axioms Pc.C03Closed.pi_independent_of_threads_and_time
#print axioms Pc.C03Closed.pi_same_result_any_two_executions
#print axioms Pc.C03Closed.pi_independent_of_threads_same_world
#print axioms Pc.C03Closed.pi_gourdon_independent_of_threads_and_time
#print axioms Pc.C03Closed.pi_deleglise_rivat_independent_of_threads_and_time
#print axioms Pc.C03Closed.gourdon_dr_independent_of_threads_and_time
