/-
C12 — integer roots are exact and derived parameters stay in range.
Only property theorems, non-vacuity examples and the axiom audit live here.
-/
import PcProofs.Roots

namespace Pc.C12

/-- `isqrt<T>(x)` (model of include/isqrt.hpp after the `(T) r * 2` repair) is the exact floor square
    root for EVERY value `s` the floating point estimate may take and every integer type. -/
theorem isqrt_correct (t : ITy) (x s : ℕ) :
    (isqrtL2 t x s) * (isqrtL2 t x s) ≤ x ∧ x < (isqrtL2 t x s + 1) * (isqrtL2 t x s + 1) := by
  rw [isqrtL2_eq_sqrt]; exact ⟨Nat.sqrt_le x, Nat.lt_succ_sqrt x⟩

theorem isqrt_eq_sqrt (t : ITy) (x s : ℕ) : isqrtL2 t x s = Nat.sqrt x := isqrtL2_eq_sqrt t x s

/-- the compile-time `ct_sqrt` (binary search) is the floor square root -/
theorem ctSqrt_correct (x : ℕ) : ctSqrt x = Nat.sqrt x := ctSqrt_eq_sqrt x

/-- Safety of the correction loops: every `r` the loops can hold lies between the clamped estimate
    and the result, hence is `≤ sqrt_max`; for such `r` none of `r * (T) r`, `(T) r * 2` (computed in `T`)
    or `r` (held in `R`) leaves its type. (With the pre-repair `(T) (r * 2)` the middle product lived
    in `R = uint64_t` and the statement was false for `r ≥ 2^63`: finding F1.) -/
theorem isqrt_intermediates_safe (t : ITy) (ht : t = .i64 ∨ t = .u64 ∨ t = .i128 ∨ t = .u128)
    (x r : ℕ) (hr : r ≤ sqrtMax t) : isqrtIntermediatesOk t x r = true := by
  rw [sqrtMax_eq] at hr
  have h1 : r * r ≤ t.maxVal :=
    le_trans (Nat.mul_le_mul hr hr) (Nat.sqrt_le _)
  have hM : 4 ≤ t.maxVal ∧ t.maxVal < (2 ^ t.rBits) ^ 2 := by
    rcases ht with h | h | h | h <;> subst h <;> simp [ITy.maxVal, ITy.rBits, ITy.i64, ITy.u64, ITy.i128, ITy.u128]
  have h2 : 2 ≤ Nat.sqrt t.maxVal := by
    rw [Nat.le_sqrt]; omega
  have h3 : r * 2 ≤ t.maxVal := by
    calc r * 2 ≤ Nat.sqrt t.maxVal * 2 := Nat.mul_le_mul_right _ hr
      _ ≤ Nat.sqrt t.maxVal * Nat.sqrt t.maxVal := Nat.mul_le_mul_left _ h2
      _ ≤ t.maxVal := Nat.sqrt_le _
  have h4 : r < 2 ^ t.rBits := lt_of_le_of_lt hr (Nat.sqrt_lt'.2 hM.2)
  simp [isqrtIntermediatesOk, h1, h3, h4]

/-- the loops stay between estimate and result -/
theorem isqrt_result_le (t : ITy) (x s : ℕ) (hx : x ≤ t.maxVal) : isqrtL2 t x s ≤ sqrtMax t := by
  rw [isqrtL2_eq_sqrt, sqrtMax_eq]; exact Nat.sqrt_le_sqrt hx

/-- `iroot<N>` is the exact floor N-th root for every estimate (N = 3, 4, 6 in the code) -/
theorem iroot_correct (n x r0 : ℕ) (hn : 1 ≤ n) :
    (irootLoop n x r0) ^ n ≤ x ∧ x < (irootLoop n x r0 + 1) ^ n := irootLoop_spec n x r0 hn

theorem iroot_estimate_irrelevant (n x r0 r1 : ℕ) (hn : 1 ≤ n) : irootLoop n x r0 = irootLoop n x r1 :=
  irootLoop_indep n x r0 r1 hn

/-- `ipow<E>` (template recursion: squarings and multiplications) is the power -/
theorem ipow_correct (e b : ℕ) : ipowT e b = b ^ e := ipowT_eq e b

/-! non-vacuity: concrete non-trivial instances (these are tests, labelled as such) -/
example : isqrtL2 .i128 (2 ^ 126 + 1) (2 ^ 63 + 7) = 2 ^ 63 := by
  rw [isqrtL2_eq_sqrt]; symm; rw [Nat.eq_sqrt]; norm_num
example : irootLoop 3 1000 17 = 10 :=
  floor_root_unique 3 1000 _ 10 (by norm_num) (irootLoop_spec 3 1000 17 (by norm_num)) (by norm_num)

end Pc.C12

#print axioms Pc.C12.isqrt_correct
#print axioms Pc.C12.isqrt_eq_sqrt
#print axioms Pc.C12.ctSqrt_correct
#print axioms Pc.C12.isqrt_intermediates_safe
#print axioms Pc.C12.isqrt_result_le
#print axioms Pc.C12.iroot_correct
#print axioms Pc.C12.iroot_estimate_irrelevant
#print axioms Pc.C12.ipow_correct
