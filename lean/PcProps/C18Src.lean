/-
C18 — the tie between the hand-written iterator-layer model (PcModel/Iter.lean) and /repo's CURRENT source text; mechanism
as in PcProps/C08Src.lean. (The sieving core is pinned by translator/extract_pswheel.py: tables + 24 function bodies.)
-/
import PcGen.SrcMirrorPsIterObl

namespace Pc.C18Src

/-- every function of the bundled primesieve's iterator / API layer mirrored by the model has, in /repo now, the text the
    model was written against -/
theorem models_mirror_source_PsIter : Pc.SrcMirror.PsIter.AllText := Pc.SrcMirror.PsIter.all_text

end Pc.C18Src

#print axioms Pc.C18Src.models_mirror_source_PsIter
