/-
C03 (wp-ac2) — thread / segment independence of the easy-leaf formulas through their REAL control flow (models
PcModel/EasyLoops.lean, EasyAC.lean): whichever thread fetched which iteration from the atomic counters (`min_b++` of
`S2_easy_OpenMP`, `min_c1++` of `AC_OpenMP`), however `LoadBalancerAC` cut `[0, ⌊√x⌋)` into segments and in whichever order the
threads processed them, the value is the same — because each run is PROVED equal to the schedule-free defining sum
(`s2_easy_loop_eq_def`, `ac_entry_eq_def` of C08).  Only property theorems, non-vacuity examples and the axiom audit live here.
-/
import PcProofs.EasyAC8

namespace Pc.C03Easy
open Pc.Spec Pc.Easy

/-- **`AC`: independent of threads and segmentation** — two runs with ANY two distributions of the C1 iterations, ANY two
    chains of segment boundaries `0 < … < ⌊√x⌋` (segment sizes, number of segments per `get_work`), ANY two processing orders
    return the same value, for every admissible `(y, z, k)`, both operand widths, both files -/
theorem ac_threads_segments_irrelevant (f : ACFile) {t : NT} (hv : t.Valid) {w : ITy} {x y z k : ℕ} (hy : irootN 3 x < y)
    (hy2 : y * y ≤ x) (hyz : y ≤ z) (hz : z * z ≤ x) (hk : k ≤ Nat.primeCounting (irootN 4 x)) (hx : x < 2 ^ 127)
    (hxw : x ≤ w.maxVal) (hxy63 : x / y ≤ ITy.i64.maxVal) (hs : Nat.sqrt x ≤ t.bound) (hzb : z ≤ t.bound)
    (h63 : t.bound ≤ ITy.i64.maxVal)
    {c1sched c1sched' : List (List ℕ)} (hsched : IsSchedule (c1Lo t x z k) (c1Hi t z) c1sched)
    (hsched' : IsSchedule (c1Lo t x z k) (c1Hi t z) c1sched')
    (l l' : List ℕ) (hl : (0 :: l).Pairwise (· < ·)) (hl' : (0 :: l').Pairwise (· < ·))
    (hlast : (0 :: l).getLast (List.cons_ne_nil _ _) = Nat.sqrt x)
    (hlast' : (0 :: l').getLast (List.cons_ne_nil _ _) = Nat.sqrt x)
    {segs segs' : List (ℕ × ℕ)} (hsegs : segs.Perm (chainPairs (0 :: l))) (hsegs' : segs'.Perm (chainPairs (0 :: l'))) :
    acEntry f t w x y z k c1sched segs = acEntry f t w x y z k c1sched' segs' := by
  have g := gparams_xStar hy hy2 hyz hz hk
  have hb := acBounds_of (w := w) (xs := xStar x y) hv hx hxw hxy63 hs hzb h63
  rw [c1Lo_eq hv g hzb, c1Hi_eq hv hzb] at hsched hsched'
  rw [acEntry_eq f g hb hsched l hl hlast hsegs, acEntry_eq f g hb hsched' l' hl' hlast' hsegs']

/-- one segment more or less: the per-segment values of every level add up over EVERY sorted chain of boundaries (no leaf
    twice, none lost) -/
theorem ac_segment_additive {S : Finset ℕ} (g : ℕ → ℕ) (F : ℕ → ℤ) (l : List ℕ) (a : ℕ) (h : (a :: l).Pairwise (· ≤ ·)) :
    ((chainPairs (a :: l)).map fun lh => ∑ j ∈ S.filter (fun j => lh.1 ≤ g j ∧ g j < lh.2), F j).sum
      = ∑ j ∈ S.filter (fun j => a ≤ g j ∧ g j < (a :: l).getLast (List.cons_ne_nil _ _)), F j :=
  chain_filter_sum g F l a h

/-- **`S2_easy`: independent of threads** (S2_easy.cpp and S2_easy_libdivide.cpp): any two distributions of the iterations
    `b = max(c, π√y) + 1 … π ⌊x^(1/3)⌋` -/
theorem s2_easy_threads_irrelevant {t : NT} (hv : t.Valid) {w : ITy} {x y c : ℕ} (hy1 : 1 ≤ y) (hy : y ≤ t.bound)
    (hy63 : y ≤ ITy.i64.maxVal) (hx : x < 2 ^ 127) (hc3 : irootN 3 x ≤ y) {sched sched' : List (List ℕ)}
    (hs : IsSchedule (max c (Nat.primeCounting (Nat.sqrt y)) + 1) (Nat.primeCounting (irootN 3 x)) sched)
    (hs' : IsSchedule (max c (Nat.primeCounting (Nat.sqrt y)) + 1) (Nat.primeCounting (irootN 3 x)) sched') :
    s2EasyOpenMP t w x y (x / y) c sched = s2EasyOpenMP t w x y (x / y) c sched' ∧
    s2EasyLibdivide t x y (x / y) c sched = s2EasyLibdivide t x y (x / y) c sched' := by
  rw [s2EasyOpenMP_eq hv hy1 hy hy63 hx hc3 hs, s2EasyOpenMP_eq hv hy1 hy hy63 hx hc3 hs',
    s2EasyLibdivide_eq hv hy1 hy hy63 hx hc3 hs, s2EasyLibdivide_eq hv hy1 hy hy63 hx hc3 hs']
  exact ⟨rfl, rfl⟩

/-! ### non-vacuity -/

/-- `AC(100000, 60, 100, 2)`: 3 threads / segments `[240, 316)`, `[0, 240)` against 1 thread / segments `[0, 100)`, `[100, 200)`,
    `[200, 316)` -/
example := ac_threads_segments_irrelevant .plain (NT.build_valid 2000) (w := .u64) (x := 100000) (y := 60) (z := 100) (k := 2)
  (by rw [irootN_eq_of (r := 46) (by norm_num) (by norm_num) (by norm_num)]; norm_num)
  (by norm_num) (by norm_num) (by norm_num)
  (by rw [irootN_eq_of (r := 17) (by norm_num) (by norm_num) (by norm_num),
        show Nat.primeCounting 17 = 7 by decide]; norm_num)
  (by norm_num) (by decide) (by decide)
  (by show Nat.sqrt 100000 ≤ 2000; exact (Nat.sqrt_lt.2 (by norm_num)).le) (by show 100 ≤ 2000; norm_num)
  (by show 2000 ≤ _; decide) (staticSched1_isSchedule _ _ (nt := 3) (by norm_num))
  (staticSched1_isSchedule _ _ (nt := 1) (by norm_num))
  [240, 316] [100, 200, 316] (by simp) (by simp)
  (by show 316 = Nat.sqrt 100000; exact Nat.eq_sqrt.2 ⟨by norm_num, by norm_num⟩)
  (by show 316 = Nat.sqrt 100000; exact Nat.eq_sqrt.2 ⟨by norm_num, by norm_num⟩)
  (segs := [(240, 316), (0, 240)]) (segs' := [(0, 100), (100, 200), (200, 316)]) (List.Perm.swap _ _ _) (List.Perm.refl _)
example := s2_easy_threads_irrelevant (NT.build_valid 100) (w := .i64) (x := 100000) (y := 60) (c := 2) (by norm_num)
  (by show 60 ≤ 100; norm_num) (by decide) (by norm_num)
  (by rw [irootN_eq_of (r := 46) (by norm_num) (by norm_num) (by norm_num)]; norm_num)
  (staticSched1_isSchedule _ _ (nt := 3) (by norm_num)) (staticSched1_isSchedule _ _ (nt := 1) (by norm_num))

end Pc.C03Easy

#print axioms Pc.C03Easy.ac_threads_segments_irrelevant
#print axioms Pc.C03Easy.ac_segment_additive
#print axioms Pc.C03Easy.s2_easy_threads_irrelevant
