/-
C04 — results do not depend on the alpha tuning factors.
The tuning factors only enter through y = clamp((int64)(x13*alpha_y)), z = clamp((int64)(y*alpha_z))
(Gourdon) resp. y = (int64)(x13*alpha) (LMO/DR). The theorems quantify over EVERY integer the float
products may yield.
-/
import PcProofs.Params
import PcProofs.Spec.Phi

namespace Pc.C04
open Pc.Spec

/-- for every x ≥ 64 and every pair of float products (v, w) — i.e. for every finite alpha_y, alpha_z,
    clamped or not — the derived parameters satisfy x^(1/3) < y < x^(1/2) and y ≤ z < x^(1/2) -/
theorem gourdon_params_ordered (x : ℕ) (hx : 64 ≤ x) (v : ℤ) (w : ℤ → ℤ) :
    (irootN 3 x : ℤ) < (gourdonYZ x v w).1 ∧ (gourdonYZ x v w).1 < isqrtN x ∧
    (gourdonYZ x v w).1 ≤ (gourdonYZ x v w).2 ∧ (gourdonYZ x v w).2 < isqrtN x ∧ 1 ≤ (gourdonYZ x v w).1 := by
  have hgap := root_gap x hx
  have := clamp_y_z (irootN 3 x) (isqrtN x) v (w (clampY (irootN 3 x) (isqrtN x) v))
    (by exact_mod_cast hgap) (by positivity)
  simpa [gourdonYZ] using this

/-- the value of the ordinary+special leaf decomposition is the same for every admissible cut-off z
    (alpha_z) and stop level k: this is why a count returned with another alpha_z is the same count -/
theorem leaf_sum_independent_of_z_k (x a z z' k k' : ℕ) (hz : 1 ≤ z) (hz' : 1 ≤ z') (hk : k ≤ a) (hk' : k' ≤ a) :
    ord x z k a + spec x z k a = ord x z' k' a + spec x z' k' a := by
  rw [← lmo_general x z a hz (a - k) k (by omega), ← lmo_general x z' a hz' (a - k') k' (by omega)]

/-- `in_between(1, alpha, x16)`: out-of-interval tuning values are clamped into [1, x16] (x16 ≥ 1) -/
theorem alpha_clamped (alphaMilli x16 : ℤ) (h : 1 ≤ x16) :
    1000 ≤ clampAlphaMilli alphaMilli x16 ∧ clampAlphaMilli alphaMilli x16 ≤ x16 * 1000 := by
  unfold clampAlphaMilli inBetween
  split <;> [skip; split] <;> simp_all

/-! non-vacuity -/
example := gourdon_params_ordered 1000000 (by norm_num) (-5) (fun _ => 10 ^ 30)
example : (1000 : ℤ) ≤ clampAlphaMilli (-3) 7 := (alpha_clamped (-3) 7 (by norm_num)).1

end Pc.C04

#print axioms Pc.C04.gourdon_params_ordered
#print axioms Pc.C04.leaf_sum_independent_of_z_k
#print axioms Pc.C04.alpha_clamped
