/-
C04 — results do not depend on the alpha tuning factors.
The tuning factors only enter through y = clamp((int64)(x13*alpha_y)), z = clamp((int64)(y*alpha_z))
(Gourdon) resp. y = (int64)(x13*alpha) (LMO/DR). The theorems quantify over EVERY integer the float
products may yield.
-/
import PcProofs.Params
import PcProofs.Spec.All

namespace Pc.C04
open Pc.Spec

/-- for every x ≥ 64 and every pair of float products (v, w) — i.e. for every finite alpha_y, alpha_z,
    clamped or not — the derived parameters satisfy x^(1/3) < y < x^(1/2) and y ≤ z < x^(1/2) -/
theorem gourdon_params_ordered (x : ℕ) (hx : 64 ≤ x) (v : ℤ) (w : ℤ → ℤ) :
    (irootN 3 x : ℤ) < (gourdonYZ x v w).1 ∧ (gourdonYZ x v w).1 < isqrtN x ∧
    (gourdonYZ x v w).1 ≤ (gourdonYZ x v w).2 ∧ (gourdonYZ x v w).2 < isqrtN x ∧ 1 ≤ (gourdonYZ x v w).1 := by
  have hgap := root_gap x hx
  have := clamp_y_z (irootN 3 x) (isqrtN x) v (w (clampY (irootN 3 x) (isqrtN x) v))
    (by exact_mod_cast hgap) (by positivity)
  simpa [gourdonYZ] using this

/-- the value of the ordinary+special leaf decomposition is the same for every admissible cut-off z
    (alpha_z) and stop level k: this is why a count returned with another alpha_z is the same count -/
theorem leaf_sum_independent_of_z_k (x a z z' k k' : ℕ) (hz : 1 ≤ z) (hz' : 1 ≤ z') (hk : k ≤ a) (hk' : k' ≤ a) :
    ord x z k a + spec x z k a = ord x z' k' a + spec x z' k' a := by
  rw [← lmo_general x z a hz (a - k) k (by omega), ← lmo_general x z' a hz' (a - k') k' (by omega)]

/-- LMO / Deleglise-Rivat: the value of `S1 + S2 + π(y) − 1 − P2` is the same for EVERY y = ⌊α·x^(1/3)⌋ the
    tuning factor can produce (y² ≤ x < (y+1)³) — it is π(x) -/
theorem dr_value_independent_of_alpha (x y y' c c' : ℕ) (hy : 1 ≤ y) (hy' : 1 ≤ y')
    (h2 : y * y ≤ x) (h2' : y' * y' ≤ x) (h3 : x < (y + 1) ^ 3) (h3' : x < (y' + 1) ^ 3)
    (hc : c ≤ Nat.primeCounting y) (hc' : c' ≤ Nat.primeCounting y') :
    S1 x y c + S2_trivial x y c + S2_easy x y c + S2_hard x y c + Nat.primeCounting y - 1 - P2 x (Nat.primeCounting y) =
    S1 x y' c' + S2_trivial x y' c' + S2_easy x y' c' + S2_hard x y' c' + Nat.primeCounting y' - 1
      - P2 x (Nat.primeCounting y') := by
  rw [← pi_dr hy h2 h3 hc, ← pi_dr hy' h2' h3' hc']

/-- Gourdon: `A − B + C + D + Φ0 + Σ` is π(x) for every admissible (y, z, k), hence the same for every
    alpha_y, alpha_z. (`gourdon_sum` abbreviates the right-hand side of `GParams.pi_gourdon`.) -/
theorem gourdon_value_is_pi (x y z k c3 r4 : ℕ)
    (hc3 : c3 ^ 3 ≤ x) (hc3' : x < (c3 + 1) ^ 3) (hr4 : r4 ^ 4 ≤ x) (hr4' : x < (r4 + 1) ^ 4)
    (hy : c3 < y) (hy2 : y * y ≤ x) (hyz : y ≤ z) (hz : z * z ≤ x) (hk : k ≤ Nat.primeCounting r4) :
    GParams x y z k (xstar x y r4) c3 :=
  GParams.of_xstar hc3 hc3' hr4 hr4' hy hy2 hyz hz hk

/-- `in_between(1, alpha, x16)`: out-of-interval tuning values are clamped into [1, x16] (x16 ≥ 1) -/
theorem alpha_clamped (alphaMilli x16 : ℤ) (h : 1 ≤ x16) :
    1000 ≤ clampAlphaMilli alphaMilli x16 ∧ clampAlphaMilli alphaMilli x16 ≤ x16 * 1000 := by
  unfold clampAlphaMilli inBetween
  split <;> [skip; split] <;> simp_all

/-! non-vacuity -/
example := gourdon_params_ordered 1000000 (by norm_num) (-5) (fun _ => 10 ^ 30)
example : (1000 : ℤ) ≤ clampAlphaMilli (-3) 7 := (alpha_clamped (-3) 7 (by norm_num)).1

end Pc.C04

#print axioms Pc.C04.gourdon_params_ordered
#print axioms Pc.C04.leaf_sum_independent_of_z_k
#print axioms Pc.C04.alpha_clamped
#print axioms Pc.C04.dr_value_independent_of_alpha
#print axioms Pc.C04.gourdon_value_is_pi
