/-
C18, closed (WP close2, item 1, addendum) — `store_primes(start, stop, v)` over the REAL sieving-core model for EVERY `stop ≤ 2^64-1`, with no
number-theoretic hypothesis: WP close's `Pc.C18Closed.store_primes_correct` (PcProps/C18Closed3.lean; the branch above the last 64-bit
prime 2^64-59 included, its primality is a Pratt certificate) composed with `coreEnv_genSpec` / `coreEnv50_genSpec`.
(`store_primes_correct_closed` of PcProps/C18ClosedHist.lean is WP iter2's formulation, which carries `hp : ∃ p prime, stop < p ≤ 2^64-1`.)
A separate module because PcProofs/CloseStore2.lean (WP close) and PcProofs/IterStore.lean (WP iter2) both declare `Pc.It.storeLoop2_spec` and
cannot be imported together. Only property theorems, non-vacuity examples and the axiom audit live here.
-/
import PcProps.C18Closed3

namespace Pc.C18ClosedStore
open Pc.It

/-- `store_primes` over the real core (whole domain): exactly the primes of `[start, stop]` when the value type holds `stop`, the
    "too narrow" `primesieve_error` when it does not. Remaining: (F) `CoreFloatOk`, (S) `16 ≤ kib ≤ 8192`, `start ≤ stop ≤ 2^64-1` -/
theorem store_primes_all_closed (fl : Floats) (batch : ℕ → ℕ) (l1raw kib : ℕ) (hfl : CoreFloatOk l1raw kib) (hk : 16 ≤ kib)
    (hk2 : kib ≤ 8192) (vmax start stop : ℕ) (hss : start ≤ stop) (hu : stop ≤ umax) :
    (stop ≤ vmax → ∃ l, storePrimes (coreEnv fl batch l1raw kib) vmax start stop = .ok l ∧ PrimesIn l start stop) ∧
    (vmax < stop → start ≤ maxPrime64 → storePrimes (coreEnv fl batch l1raw kib) vmax start stop = .error .narrow) :=
  C18Closed.store_primes_correct _ (coreEnv_genSpec fl batch l1raw kib hfl hk hk2) vmax start stop hss hu

/-- … over the real core below 2^50: no float hypothesis -/
theorem store_primes_all_closed_50 (fl : Floats) (batch : ℕ → ℕ) (l1raw kib : ℕ) (hk : 16 ≤ kib) (hk2 : kib ≤ 8192)
    (vmax start stop : ℕ) (hss : start ≤ stop) (hu : stop ≤ umax) :
    (stop ≤ vmax → ∃ l, storePrimes (coreEnvTo fl batch l1raw kib (2 ^ 50)) vmax start stop = .ok l ∧ PrimesIn l start stop) ∧
    (vmax < stop → start ≤ maxPrime64 → storePrimes (coreEnvTo fl batch l1raw kib (2 ^ 50)) vmax start stop = .error .narrow) :=
  C18Closed.store_primes_correct _ (coreEnv50_genSpec fl batch l1raw kib hk hk2) vmax start stop hss hu

/-! non-vacuity -/
example : ∃ l, storePrimes (coreEnvTo ⟨fun _ => 0, fun _ => 0, fun _ => 0, fun _ => 0⟩ (fun _ => 64) 32768 256 (2 ^ 50)) umax 10 umax
    = .ok l ∧ PrimesIn l 10 umax :=
  (store_primes_all_closed_50 _ _ 32768 256 (by norm_num) (by norm_num) umax 10 umax (by decide) (le_refl _)).1 (le_refl _)

end Pc.C18ClosedStore

#print axioms Pc.C18ClosedStore.store_primes_all_closed
#print axioms Pc.C18ClosedStore.store_primes_all_closed_50
