/-
C18 (WP iter2) — the multi-threaded count adds up over the tiling of `ParallelSieve::sieve()`, and the table path of
`PrimeGenerator` lists exactly the primes. Only property theorems, non-vacuity examples and the axiom audit live here.
Model: PcModel/Iter.lean (`getThreadDistance`, `threadInterval`, `parIntervals`, `parCount`, `sieveCount`, `smallPart`, `pgPrimes`).
Proofs: PcProofs/IterPar2.lean, PcProofs/IterTable.lean.
-/
import PcProofs.IterPar2
import PcProofs.IterTable

namespace Pc.C18
open Pc.It

/-- `ParallelSieve::getThreadDistance(threads)` (ParallelSieve.cpp:77-98) on the multi-thread path (`threads >= 2`;
    `idealNumThreads() = 1` never gets here), for EVERY `isqrt(stop)` outcome `isq` (also 0, where `dist / fastest` is the
    model's `x / 0 = 0`; the C++ has `isqrt(stop) >= 3162` there) and every distance `dist <= 2^64-1`: the result is at least
    `MIN_THREAD_DISTANCE = 10^7`, a multiple of 30, and the uint64 `threadDist += 30 - threadDist % 30` does not wrap: the
    model's result (taken `% 2^64`) equals the exact-arithmetic value `threadDistRaw`, which is below 2^64 -/
theorem thread_distance_ge (isq dist threads : ℕ) (ht : 2 ≤ threads) (hd : dist ≤ umax) :
    10000000 ≤ getThreadDistance isq dist threads ∧
    getThreadDistance isq dist threads % 30 = 0 ∧
    getThreadDistance isq dist threads = threadDistRaw isq dist threads ∧
    threadDistRaw isq dist threads < two64 := by
  have h := getThreadDistance_bounds isq dist threads (by omega) hd
  exact ⟨h.1, h.2.2, getThreadDistance_eq_raw isq dist threads (by omega) hd,
    (threadDistRaw_bounds isq dist threads (by omega) hd).2.1⟩

example : getThreadDistance 14142 200000000 4 = 10000020 := by decide
example : getThreadDistance 0 umax 2 = 9223372036854775830 := by decide
example : Pc.It.idealNumThreads 14142 0 200000000 4 = 4 := by decide

/-- **`parallel_count_total`** — `ParallelSieve::sieve()` (ParallelSieve.cpp:113-156): the sum of the per-task counts equals
    the count of `[start, stop]`. Quantified over
    * EVERY counting function `cnt` on closed intervals that is 0 on empty intervals (`b < a`) and additive over adjacent
      intervals `[a, m]`, `[m+1, b]` (what `counts_[0] += ps.counts_[0]` needs; `PrimeSieve::sieve` counting primes is one,
      see `parallel_count_primes`),
    * EVERY `isqrt(stop)` outcome `isq` (it only steers the number and size of the tasks),
    * EVERY thread count `numThreads` (0 included; the C++ setter clamps to `>= 1`),
    * every `start`, and every `stop < 2^64-1`. (`stop = 2^64-1` is excluded: `align(start) + 1` of the task after the one
      that ends at `stop` wraps to 0; notes/wp-iter.md.)
    `start > stop` gives the empty task list and the count 0. -/
theorem parallel_count_total (cnt : ℕ → ℕ → ℕ)
    (hempty : ∀ a b, b < a → cnt a b = 0)
    (hsplit : ∀ a m b, a ≤ m + 1 → m ≤ b → cnt a m + cnt (m + 1) b = cnt a b)
    (isq start stop numThreads : ℕ) (hstop : stop < umax) :
    parCount cnt isq start stop numThreads = cnt start stop := by
  by_cases h : start ≤ stop
  · exact parCount_total cnt ⟨hempty, hsplit⟩ isq start stop numThreads h hstop
  · rw [parCount_empty cnt isq start stop numThreads (by omega), hempty start stop (by omega)]

/-- the hypotheses are satisfiable: the prime counting function is additive … -/
example : (∀ a b, b < a → primeCnt a b = 0) ∧ (∀ a m b, a ≤ m + 1 → m ≤ b → primeCnt a m + primeCnt (m + 1) b = primeCnt a b) :=
  ⟨primeCnt_add.empty, primeCnt_add.split⟩
/-- … and so is the number of integers of an interval -/
example : (∀ a b : ℕ, b < a → b + 1 - a = 0) ∧ (∀ a m b : ℕ, a ≤ m + 1 → m ≤ b → (m + 1 - a) + (b + 1 - (m + 1)) = b + 1 - a) :=
  ⟨fun _ _ _ => by omega, fun _ _ _ _ _ => by omega⟩
/-- a genuinely multi-threaded instance: 20 tasks for 4 threads -/
example : parIntervals 14142 0 200000000 4 =
    [(0, 10000052), (10000053, 20000072), (20000073, 30000092), (30000093, 40000112), (40000113, 50000132),
     (50000133, 60000152), (60000153, 70000172), (70000173, 80000192), (80000193, 90000212), (90000213, 100000232),
     (100000233, 110000252), (110000253, 120000272), (120000273, 130000292), (130000293, 140000312), (140000313, 150000332),
     (150000333, 160000352), (160000353, 170000372), (170000373, 180000392), (180000393, 190000412), (190000413, 200000000)] := by
  decide +kernel
/-- … and the theorem applied to it: the interval lengths add up -/
example : parCount (fun a b => b + 1 - a) 14142 0 200000000 4 = 200000001 := by decide +kernel
/-- near the top of the range (`stop = 2^64-2`), 3 threads -/
example : (parIntervals 4294967295 18446744000000000000 18446744073709551614 3).length = 3 ∧
    (parIntervals 4294967295 18446744000000000000 18446744073709551614 3).getLast? =
      some (18446744049139701093, 18446744073709551614) := by decide +kernel

/-- **`parallel_count_primes`** — `count_primes(start, stop)` through `ParallelSieve::sieve()`: if the counting core
    (`Erat` + `CountPrintPrimes`, abstract here) returns for every `[s, e]` with `s <= e`, `e >= 7` the number of primes `>= 7`
    of `[s, e]` (`CoreCounts core`: `core s e = primeCnt (max s 7) e`), then `PrimeSieve::sieve()` (small-primes table behind
    `start <= 5` + core behind `stop >= 7`) returns the number of primes of `[s, e]` for ALL `s, e`, and the multi-threaded
    sum is the number of primes of `[start, stop]`, for EVERY thread count and isqrt outcome, `stop < 2^64-1` -/
theorem parallel_count_primes (core : ℕ → ℕ → ℕ) (hc : CoreCounts core) :
    (∀ s e, sieveCount core s e = primeCnt s e) ∧
    ∀ isq start stop numThreads, stop < umax → parCount (sieveCount core) isq start stop numThreads = primeCnt start stop :=
  ⟨sieveCount_eq core hc, fun isq a b t hb => parCount_primes core hc isq a b t hb⟩

/-- the contract is satisfiable (definitional core) -/
example : CoreCounts (fun s e => primeCnt (max s 7) e) := coreCounts_ref
example : sieveCount (fun s e => primeCnt (max s 7) e) 3 30 = 9 := by decide
/-- `primeCnt a b` is the length of ANY strictly increasing list of exactly the primes of `[a, b]` -/
example (a b : ℕ) : primeCnt a b = (refPrimes a b).length :=
  primeCnt_eq_card a b _ (refPrimes_spec a b).1 (refPrimes_spec a b).2

/-- **`prime_generator_table_path`** — `PrimeGenerator::initNextPrimes / initPrevPrimes / initErat`
    (PrimeGenerator.cpp:127-253): for EVERY sieving core that lists exactly the primes of `[a, b]` whenever `a >= 721`
    (it is never asked below), every `start` and every `stop <= 2^64-1`: the copy
    `smallPrimes[getStartIdx() .. getStopIdx())` (taken only if `start <= 719`) followed by the core's output for
    `[max(start, 721), stop]` (asked only if that interval is non-empty and `max(start, 721) < 2^64-1`) is strictly increasing
    and holds exactly the primes of `[start, stop]`. The `smallPrimes` / `primePi` tables are the ones GENERATED from the C++
    (`smallPrimes_eq_gen`, `primePi_eq_gen`; obligations PcGen/PsWheelObl.lean). -/
theorem prime_generator_table_path (core : ℕ → ℕ → List ℕ) (hc : ∀ a b, 721 ≤ a → PrimesIn (core a b) a b)
    (start stop : ℕ) (hstop : stop ≤ umax) : PrimesIn (pgPrimes core start stop) start stop :=
  pgPrimes_spec core hc start stop hstop

/-- the hypothesis is satisfiable: the reference core lists the primes of every interval -/
example : ∀ a b, 721 ≤ a → PrimesIn (refPrimes a b) a b := fun a b _ => refPrimes_spec a b
/-- the table part alone, the seam at 719 / 721 (the marker core shows what it is asked for), and the guard at 2^64-1 -/
example : pgPrimes (fun _ _ => []) 700 719 = [701, 709, 719] := by decide +kernel
example : pgPrimes (fun a b => [a, b]) 715 730 = [719, 721, 730] := by decide +kernel
example : pgPrimes (fun a b => [a, b]) umax umax = [] := by decide
example : smallPrimes = Pc.Gen.psSmallPrimes := smallPrimes_eq_gen
example : primePi 719 = Pc.Gen.psPrimePi.getD 719 0 := primePi_eq_gen 719 (by decide)

end Pc.C18

#print axioms Pc.C18.thread_distance_ge
#print axioms Pc.C18.parallel_count_total
#print axioms Pc.C18.parallel_count_primes
#print axioms Pc.C18.prime_generator_table_path
