/-
C02 (WP top, item 3) — the two LMO algorithms whose S2 uses `class Sieve`, by their REAL control flow:
`pi_lmo5` (src/lmo/pi_lmo5.cpp: file-local `S2`, lines 43-145, and `pi_lmo5`, lines 156-188) and `pi_lmo_parallel`
(src/lmo/pi_lmo_parallel.cpp: `S2_thread` 49-146, the region `S2` 166-214, `pi_lmo_parallel` 225-259); model
PcModel/TopLmo.lean over the engine of PcModel/HardLoops.lean.  Only property theorems, non-vacuity examples and the axiom
audit live here.

Vocabulary: `lmoF x y c (lo, hi)` = value of ALL special leaves `(b, m)`, `c < b ≤ π y`, whose position `x / (p_b m)` lies in
`[lo, hi)` (PcProofs/TopLmoChunk.lean); `LmoOK L y` = the tables `primes`, `pi`, `phi_vector`, `mu`, `lpf` hold what their
constructors are proved to write for `y` (C17, `generateMoebius_correct`, `tables_valid`); `SieveSpec S K` = the counting-sieve
contract (instantiated by the bit-exact model of `class Sieve` and by the reference sieve); `CtxOK C x` = these plus the
contracts of `P2` (`IterSpec`, `pi_noprint` below `x`), `S1` (valid prime table reaching `y`) and the generated dispenser constants.
`.ok v` = no table is read out of bounds, no division by zero, no hanging loop.
-/
import PcProofs.TopLmoExamples
import PcProofs.TopLmoRegion

namespace Pc.C02TopLmo
open Pc Pc.Hard Pc.TopLmo Pc.LB Nat Finset
open scoped Nat.Prime

/-- **`lmo_chunk_eq`** — for EVERY work item `(low, segments, segment_size)` of LoadBalancerS2 (`low ≤ z = x / y`, `low` even,
    sizes `≥ 1`, accepted by the sieve's constructor), every `1 ≤ y`, `y² ≤ x`, `3 ≤ c` (or no level at all: `π y ≤ c` — what
    `get_c(y) < 3` means): `S2_thread` of pi_lmo_parallel.cpp returns `.ok` and its value is the sum of the special leaves located
    in `[low, min(low + segment_size·segments, z + 1))`.  Inside: `max_b = pi[min(isqrt(x / low1), y − 1)]` and
    `min_b = max(c, pi[min(z / limit, primes[max_b])]) + 1` lose no leaf (`lmo_pruned`, `WS2_top_zero`), both `goto next_segment`
    exits are sound, `phi[b] = φ(low − 1, b − 1)` for every level that never broke. -/
theorem lmo_chunk_eq {σ : Type} {S : SieveOps σ} {L : LmoEnv} {x y c low segments segSize : ℕ}
    (hS : ∀ K, K ≤ π y → ∃ H : SieveSpec S K, H.segOK low segSize)
    (hL : LmoOK L y) (hy : 1 ≤ y) (hyx : y * y ≤ x) (hc : 3 ≤ c ∨ π y ≤ c) (heven : 2 ∣ low)
    (hsz : 1 ≤ segSize) (hsegs : 1 ≤ segments) (hlow : low ≤ x / y) :
    lmoParThread S L x y (x / y) c low segments segSize =
      .ok (lmoF x y c (low, lmoLimit low segments segSize (x / y))) :=
  lmoParThread_eq hS hL hy hyx hc heven hsz hsegs hlow

/-- the chunk theorem with the bit-exact model of `class Sieve` plugged in (every CPU configuration / count path): no abstract
    sieve hypothesis is left; work items as LoadBalancerS2 hands them out, sieve array `< 2^29` bytes, `y < 2^32` -/
theorem lmo_chunk_eq_sieve_model (cfg : Sieve.Cfg) (f : Sieve.StopFn) (primesArr : Array ℕ) {L : LmoEnv}
    {x y c low segments segSize : ℕ}
    (hparr : ∀ i, 4 ≤ i → i ≤ π y → primesArr.getD i 0 = Spec.p i) (h32 : y < 2 ^ 32)
    (hL : LmoOK L y) (hy : 1 ≤ y) (hyx : y * y ≤ x) (hc : 3 ≤ c ∨ π y ≤ c)
    (hlow240 : 240 ∣ low) (hseg240 : 240 ∣ segSize) (hseg0 : 0 < segSize) (hsmall : segSize / 30 * 8 < 2 ^ 32)
    (hsegs : 1 ≤ segments) (hlow : low ≤ x / y) :
    lmoParThread (concreteSieve cfg f primesArr) L x y (x / y) c low segments segSize =
      .ok (lmoF x y c (low, lmoLimit low segments segSize (x / y))) := by
  apply lmoParThread_eq _ hL hy hyx hc (Dvd.dvd.trans (by norm_num) hlow240) hseg0 hsegs hlow
  intro K hK
  have hpK : Spec.p K < 2 ^ 32 := by
    rcases Nat.eq_zero_or_pos K with h0 | h0
    · subst h0; rw [Spec.p_zero]; norm_num
    · exact lt_of_le_of_lt (le_trans (Spec.p_le_p hK) (Spec.p_pi_le (by omega))) h32
  refine ⟨concreteSieve_spec cfg f primesArr K (fun i h1 h2 => hparr i h1 (le_trans h2 hK)) hpK, ?_⟩
  exact (concreteSieve_spec_segOK cfg f primesArr K _ hpK low segSize).2
    ⟨Dvd.dvd.trans (by norm_num) hlow240, hseg240, hseg0, hsmall⟩

/-- the chunk value is additive over adjacent windows -/
theorem lmo_chunk_additive (x y c : ℕ) : LB.Additive (lmoF x y c) := lmoF_additive x y c

/-- the window `[0, x / y)` holds every special leaf: `lmoF x y c (0, x / y) = Spec.S2 x y c` -/
theorem lmo_window_full {x y c : ℕ} (hy : 1 ≤ y) (hyx : y * y ≤ x) : lmoF x y c (0, x / y) = Spec.S2 x y c :=
  lmoF_full hy hyx

/-- the `+ 1` of `limit = min(low + segment_size * segments, z + 1)` changes nothing: no special leaf sits at `x / y` or beyond
    (so the mutant `…, z)` is EQUIVALENT on the domain `y² ≤ x`) -/
theorem lmo_limit_plus_one_irrelevant {x y c lo a : ℕ} (hy : 1 ≤ y) (hyx : y * y ≤ x) :
    lmoF x y c (lo, min a (x / y + 1)) = lmoF x y c (lo, min a (x / y)) := lmoF_clip hy hyx

/-- **`lmo_region_total` / `s2LmoPar_eq_S2`** — the region `S2` of pi_lmo_parallel.cpp: EVERY recorded history of LoadBalancerS2
    that the replay accepts as a complete run (every event an allowed step of the dispenser, every `thread.sum` the value of
    `S2_thread` on the work item handed out, range exhausted, every worker's last answer `false`) leaves `Spec.S2 x y c` in
    `get_sum()` — whatever the team size, print mode, order of the `get_work` calls, clock values and float-derived choices -/
theorem s2LmoPar_eq_S2 {σ : Type} (S : SieveOps σ) {L : LmoEnv} {x y c : ℕ}
    (hS : ∀ K, K ≤ π y → ∃ H : SieveSpec S K, ∀ low seg, 240 ∣ low → 240 ∣ seg → 0 < seg → H.segOK low seg)
    (lc : Consts) (hlc : lc.WF) (threads : ℕ) (print : Bool)
    (hL : LmoOK L y) (hy : 1 ≤ y) (hyx : y * y ≤ x) (hc : 3 ≤ c ∨ π y ≤ c)
    (es : List S2.Ev) (v : ℤ)
    (h : lmoParOpenMP S L lc x y (x / y) c threads print es = .ok v) : v = Spec.S2 x y c :=
  lmoParOpenMP_eq S hS lc hlc threads print hL hy hyx hc es v h

/-- on ANY recorded history the region either returns `Spec.S2 x y c` or reports `badRun` (the history is not a complete run of
    the dispenser by workers reporting their values): with the contracts in place no out-of-bounds read, division by zero or
    hanging segment loop is possible -/
theorem lmo_region_ok_or_badRun {σ : Type} (S : SieveOps σ) {L : LmoEnv} {x y c : ℕ}
    (hS : ∀ K, K ≤ π y → ∃ H : SieveSpec S K, ∀ low seg, 240 ∣ low → 240 ∣ seg → 0 < seg → H.segOK low seg)
    (lc : Consts) (hlc : lc.WF) (threads : ℕ) (print : Bool)
    (hL : LmoOK L y) (hy : 1 ≤ y) (hyx : y * y ≤ x) (hc : 3 ≤ c ∨ π y ≤ c) (es : List S2.Ev) :
    lmoParOpenMP S L lc x y (x / y) c threads print es = .ok (Spec.S2 x y c) ∨
      lmoParOpenMP S L lc x y (x / y) c threads print es = .error .badRun :=
  lmoParOpenMP_ok_or_badRun S hS lc hlc threads print hL hy hyx hc es

/-- any chain of windows from `0` to `x / y` (e.g. the work items of a run, in order of `low`) sums to `Spec.S2 x y c` -/
theorem lmo_chunks_total {x y c : ℕ} (hy : 1 ≤ y) (hyx : y * y ≤ x) {cs : List Chunk}
    (hch : Chain 0 (x / y) cs) : sumF (lmoF x y c) cs = Spec.S2 x y c :=
  TopLmo.lmo_chunks_total hy hyx hch

/-- **`s2Lmo5_eq_S2`** — the file-local `S2` of pi_lmo5.cpp (one `Sieve` for the whole range `[0, x / y)`, segment size
    `align_segment_size(isqrt(x / y))`, `phi` all zero, loops `b <= pi_sqrty` and `b < pi_y`): `.ok (Spec.S2 x y c)` for every
    `1 ≤ y`, `y² ≤ x`, `3 ≤ c` or no level at all -/
theorem s2Lmo5_eq_S2 {σ : Type} {S : SieveOps σ} {L : LmoEnv} {x y c : ℕ}
    (hS : ∀ K, K ≤ π y → ∃ H : SieveSpec S K, H.segOK 0 (Sieve.alignSegmentSize (isqrtN (x / y))))
    (hL : LmoOK L y) (hy : 1 ≤ y) (hyx : y * y ≤ x) (hc : 3 ≤ c ∨ π y ≤ c) :
    s2Lmo5 S L x y c = .ok (Spec.S2 x y c) := by
  rw [s2Lmo5_eq hS hL hy hyx hc, lmoF_full hy hyx]

/-- `get_c(y)` is at least 3 or leaves no level: the hypothesis `3 ≤ c ∨ π y ≤ c` holds for what the callers pass -/
theorem get_c_admissible (y : ℕ) : 3 ≤ SimpleAlgs.getC y ∨ π y ≤ SimpleAlgs.getC y := getC_three_or_top y

/-- **`piLmo5_eq_pi`** — for every `2 ≤ x < 2^63`, every float outcome `v = trunc(x13 · alpha)` inside the envelope
    (`1 ≤ alpha ≤ x16` whatever the floats were, the product within 2^-40, `x13 ≤ v ≤ x13 · x16`), every valid run of `P2`'s
    region, every schedule of `S1`'s `omp for`, with the table / iterator / sieve contracts: `pi_lmo5(x) = π(x)`; in particular
    no callee reports an error and no table is read out of bounds -/
theorem piLmo5_eq_pi {σ : Type} {C : Ctx σ} {x : ℕ} (a : ℚ) {v : ℤ} {run : P2L.Run} {sched : List (List ℕ)}
    (hx2 : 2 ≤ x) (hx : x < 2 ^ 63)
    (ha1 : 1 ≤ a) (ha : a ≤ (irootN 6 x : ℚ)) (hvN : TruncNear ((irootN 3 x : ℚ) * a) v) (hcv : (irootN 3 x : ℤ) ≤ v)
    (hvu : v ≤ ((irootN 3 x * irootN 6 x : ℕ) : ℤ))
    (hC : CtxOK C x)
    (hS : ∀ K, K ≤ π v.toNat → ∃ H : SieveSpec C.S K, ∀ seg, 240 ∣ seg → 0 < seg → H.segOK 0 seg)
    (hrun : 4 ≤ x → v.toNat < Nat.sqrt x → run.valid C.lc x (x / max v.toNat 1) = true)
    (hsched : IsSchedule (getCI v + 1) (π v.toNat) sched) :
    piLmo5 C (x : ℤ) v run sched = .ok (π x : ℤ) :=
  piLmo5_eq a hx2 hx ha1 ha hvN hcv hvu hC hS hrun hsched

/-- `pi_lmo5(x) = 0` for `x < 2` (nothing else is evaluated) -/
theorem piLmo5_small {σ : Type} (C : Ctx σ) {x : ℤ} (hx : x < 2) (v : ℤ) (run : P2L.Run) (sched : List (List ℕ)) :
    piLmo5 C x v run sched = .ok 0 := by
  unfold piLmo5
  rw [if_pos hx]

/-- **`piLmoParallel_eq_pi`** — as `piLmo5_eq_pi`, and for EVERY history of LoadBalancerS2 that the replay accepts as a complete
    run (any team size, print mode, interleaving, clock): `pi_lmo_parallel(x, threads) = π(x)` -/
theorem piLmoParallel_eq_pi {σ : Type} {C : Ctx σ} {x : ℕ} (a : ℚ) {v : ℤ} {run : P2L.Run} {sched : List (List ℕ)}
    {team : ℕ} {print : Bool} {es : List S2.Ev} {r : ℤ}
    (hx2 : 2 ≤ x) (hx : x < 2 ^ 63)
    (ha1 : 1 ≤ a) (ha : a ≤ (irootN 6 x : ℚ)) (hvN : TruncNear ((irootN 3 x : ℚ) * a) v) (hcv : (irootN 3 x : ℤ) ≤ v)
    (hvu : v ≤ ((irootN 3 x * irootN 6 x : ℕ) : ℤ))
    (hC : CtxOK C x)
    (hS : ∀ K, K ≤ π v.toNat → ∃ H : SieveSpec C.S K, ∀ low seg, 240 ∣ low → 240 ∣ seg → 0 < seg → H.segOK low seg)
    (hrun : 4 ≤ x → v.toNat < Nat.sqrt x → run.valid C.lc x (x / max v.toNat 1) = true)
    (hsched : IsSchedule (getCI v + 1) (π v.toNat) sched)
    (h : piLmoParallel C (x : ℤ) v run sched team print es = .ok r) : r = (π x : ℤ) :=
  piLmoParallel_eq a hx2 hx ha1 ha hvN hcv hvu hC hS hrun hsched h

/-- `pi_lmo_parallel(x) = 0` for `x < 2` -/
theorem piLmoParallel_small {σ : Type} (C : Ctx σ) {x : ℤ} (hx : x < 2) (v : ℤ) (run : P2L.Run) (sched : List (List ℕ))
    (team : ℕ) (print : Bool) (es : List S2.Ev) : piLmoParallel C x v run sched team print es = .ok 0 := by
  unfold piLmoParallel
  rw [if_pos hx]

/-- C03 for pi_lmo_parallel: two accepted complete histories (any team sizes, interleavings, clocks) give the same result -/
theorem piLmoParallel_independent_of_run {σ : Type} {C : Ctx σ} {x : ℕ} (a : ℚ) {v : ℤ} {run run' : P2L.Run}
    {sched sched' : List (List ℕ)} {team team' : ℕ} {print print' : Bool} {es es' : List S2.Ev} {r r' : ℤ}
    (hx2 : 2 ≤ x) (hx : x < 2 ^ 63)
    (ha1 : 1 ≤ a) (ha : a ≤ (irootN 6 x : ℚ)) (hvN : TruncNear ((irootN 3 x : ℚ) * a) v) (hcv : (irootN 3 x : ℤ) ≤ v)
    (hvu : v ≤ ((irootN 3 x * irootN 6 x : ℕ) : ℤ))
    (hC : CtxOK C x)
    (hS : ∀ K, K ≤ π v.toNat → ∃ H : SieveSpec C.S K, ∀ low seg, 240 ∣ low → 240 ∣ seg → 0 < seg → H.segOK low seg)
    (hrun : 4 ≤ x → v.toNat < Nat.sqrt x → run.valid C.lc x (x / max v.toNat 1) = true)
    (hrun' : 4 ≤ x → v.toNat < Nat.sqrt x → run'.valid C.lc x (x / max v.toNat 1) = true)
    (hsched : IsSchedule (getCI v + 1) (π v.toNat) sched) (hsched' : IsSchedule (getCI v + 1) (π v.toNat) sched')
    (h : piLmoParallel C (x : ℤ) v run sched team print es = .ok r)
    (h' : piLmoParallel C (x : ℤ) v run' sched' team' print' es' = .ok r') : r = r' := by
  rw [piLmoParallel_eq a hx2 hx ha1 ha hvN hcv hvu hC hS hrun hsched h,
    piLmoParallel_eq a hx2 hx ha1 ha hvN hcv hvu hC hS hrun' hsched' h']

/-! non-vacuity (tests, labelled as such): tables meeting `LmoOK` exist for every `y`, a context meeting `CtxOK` for every `x`,
    the chunk theorem applies to a concrete two-segment work item, and ALL hypotheses of `piLmo5_eq_pi` hold for `x = 1000`,
    `alpha = 1`, `v = 10` with the recorded one-thread run of `P2`'s region -/
example : LmoOK (idealLmoEnv 100) 100 := idealLmoEnv_ok 100
example : CtxOK idealCtx 1000 := idealCtx_ok 1000
example : ∃ v, lmoParThread (refSieve Spec.p) (idealLmoEnv 100) 1000000 100 (1000000 / 100) 8 240 2 240 = .ok v :=
  ⟨_, lmo_chunk_eq (fun K _ => ⟨refSieve_spec Spec.p K (fun _ _ _ => rfl), trivial⟩) (idealLmoEnv_ok 100)
    (by norm_num) (by norm_num) (Or.inl (by norm_num)) (by norm_num) (by norm_num) (by norm_num) (by norm_num)⟩
example : Nonempty (SieveSpec (concreteSieve .portable (.pop64 false) exPrimes) 9) :=
  ⟨concreteSieve_spec _ _ exPrimes 9 exPrimes_ok (by rw [p_nine]; norm_num)⟩

example : run1000y10.valid genConsts 1000 (1000 / max 10 1) = true := by decide

example : piLmo5 idealCtx (1000 : ℕ) 10 run1000y10 (leafSched (getCI 10 + 1) (π (10 : ℤ).toNat) 10 1) = .ok (π 1000 : ℤ) :=
  piLmo5_eq_pi (x := 1000) 1 (by norm_num) (by norm_num) (by norm_num)
    (by rw [iroot6_1000]; norm_num)
    (by rw [iroot3_1000]; unfold TruncNear relEps; norm_num)
    (by rw [iroot3_1000]; norm_num)
    (by rw [iroot3_1000, iroot6_1000]; norm_num)
    (idealCtx_ok 1000)
    (fun K _ => by
      obtain ⟨H, hH⟩ := idealCtx_sieve K
      exact ⟨H, fun seg h1 h2 => hH 0 seg (dvd_zero _) h1 h2⟩)
    (fun _ _ => by decide)
    (leafSched_isSchedule _ _ _ _)

end Pc.C02TopLmo

#print axioms Pc.C02TopLmo.lmo_chunk_eq
#print axioms Pc.C02TopLmo.lmo_chunk_eq_sieve_model
#print axioms Pc.C02TopLmo.lmo_chunk_additive
#print axioms Pc.C02TopLmo.lmo_window_full
#print axioms Pc.C02TopLmo.lmo_limit_plus_one_irrelevant
#print axioms Pc.C02TopLmo.s2LmoPar_eq_S2
#print axioms Pc.C02TopLmo.lmo_region_ok_or_badRun
#print axioms Pc.C02TopLmo.lmo_chunks_total
#print axioms Pc.C02TopLmo.s2Lmo5_eq_S2
#print axioms Pc.C02TopLmo.get_c_admissible
#print axioms Pc.C02TopLmo.piLmo5_eq_pi
#print axioms Pc.C02TopLmo.piLmo5_small
#print axioms Pc.C02TopLmo.piLmoParallel_eq_pi
#print axioms Pc.C02TopLmo.piLmoParallel_small
#print axioms Pc.C02TopLmo.piLmoParallel_independent_of_run
