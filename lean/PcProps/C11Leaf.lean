/-
C11 (wp-s1phi0) — the `int64_t` and the `int128_t` instantiations of S1, Φ0, Σ and S2_trivial agree wherever the
64-bit one is defined.  In the loop mirrors of PcModel/LeafLoops.lean the operand type `w` only decides where a
product (`square_free * primes[b]`, `prime * y`, `prime * prime`, `x_star * y`) traps; under the hypotheses that keep the
64-bit instantiation trap-free both instantiations return the same (proved) value.
-/
import PcProofs.LeafLoops
import PcProofs.LeafSigma
import PcProofs.LeafTrivial

namespace Pc.C11Leaf

theorem i64_le_i128 {n : ℕ} (h : n ≤ ITy.i64.maxVal) : n ≤ ITy.i128.maxVal := le_trans h (by decide)

theorem s1_wide_eq_narrow {t : NT} (hv : t.Valid) {x y c : ℕ} (hy1 : 1 ≤ y) (hy : y ≤ t.bound) (hc : c ≤ 8)
    (hw : y * y ≤ ITy.i64.maxVal) {sched : List (List ℕ)} (hs : IsSchedule (c + 1) (Nat.primeCounting y) sched) :
    s1OpenMP t .i128 x y c sched = s1OpenMP t .i64 x y c sched := by
  rw [s1OpenMP_eq hv hy1 hy hc hw hs, s1OpenMP_eq hv hy1 hy hc (i64_le_i128 hw) hs]

theorem phi0_wide_eq_narrow {t : NT} (hv : t.Valid) {x y z k : ℕ} (hy1 : 1 ≤ y) (hy : y ≤ t.bound) (hk : k ≤ 8)
    (hyz : y ≤ z) (hw : z * y ≤ ITy.i64.maxVal) {sched : List (List ℕ)}
    (hs : IsSchedule (k + 1) (Nat.primeCounting y) sched) :
    phi0OpenMP t .i128 x y z k sched = phi0OpenMP t .i64 x y z k sched := by
  rw [phi0OpenMP_eq hv hy1 hy hk hyz hw hs, phi0OpenMP_eq hv hy1 hy hk hyz (i64_le_i128 hw) hs]

theorem sigma_wide_eq_narrow {t : NT} (hv : t.Valid) {x y : ℕ} (hy1 : 1 ≤ y) (hc3y : irootN 3 x ≤ y)
    (hyb : y ≤ t.bound) (hw : y * y ≤ ITy.i64.maxVal) (h4 : x / (xStar x y * y) ≤ ITy.i64.maxVal)
    (h6 : Nat.sqrt (x / xStar x y) ≤ ITy.i64.maxVal) :
    sigma t .i128 x y = sigma t .i64 x y := by
  rw [sigma_eq_NT hv hy1 hc3y hyb hw h4 h6, sigma_eq_NT hv hy1 hc3y hyb (i64_le_i128 hw) h4 h6]

theorem s2_trivial_wide_eq_narrow {t : NT} (hv : t.Valid) {x y z c : ℕ} (hyb : y ≤ t.bound) (hc1 : 1 ≤ c)
    (hcb : c ≤ Nat.primeCounting t.bound) (hw : y * y ≤ ITy.i64.maxVal) (hy63 : y ≤ ITy.i64.maxVal)
    (hoob : x / ((max (Spec.p c) (Nat.sqrt z) + 1) * (max (Spec.p c) (Nat.sqrt z) + 1)) ≤ y) :
    s2Trivial t .i128 x y z c = s2Trivial t .i64 x y z c := by
  rw [s2Trivial_eq_NT hv hyb hc1 hcb hw hy63 hoob, s2Trivial_eq_NT hv hyb hc1 hcb (i64_le_i128 hw) hy63 hoob]

/-- beyond `2^63` only the wide instantiation exists: it still equals the definition (nothing in `s1OpenMP_eq` bounds `x`) -/
theorem s1_wide_beyond_i64 {t : NT} (hv : t.Valid) {x y c : ℕ} (hy1 : 1 ≤ y) (hy : y ≤ t.bound) (hc : c ≤ 8)
    (hw : y * y ≤ ITy.i128.maxVal) {sched : List (List ℕ)} (hs : IsSchedule (c + 1) (Nat.primeCounting y) sched) :
    s1OpenMP t .i128 x y c sched = .ok (Spec.S1 x y c) := s1OpenMP_eq hv hy1 hy hc hw hs

example := s1_wide_eq_narrow (NT.build_valid 100) (x := 1000) (y := 12) (c := 2) (by norm_num)
  (by show 12 ≤ 100; norm_num) (by norm_num) (by decide) (leafSched_isSchedule 3 (Nat.primeCounting 12) 12 4)
example := s1_wide_beyond_i64 (NT.build_valid 100) (x := 10 ^ 30) (y := 90) (c := 8) (by norm_num)
  (by show 90 ≤ 100; norm_num) (by norm_num) (by decide) (leafSched_isSchedule 9 (Nat.primeCounting 90) 90 4)

end Pc.C11Leaf

#print axioms Pc.C11Leaf.i64_le_i128
#print axioms Pc.C11Leaf.s1_wide_eq_narrow
#print axioms Pc.C11Leaf.phi0_wide_eq_narrow
#print axioms Pc.C11Leaf.sigma_wide_eq_narrow
#print axioms Pc.C11Leaf.s2_trivial_wide_eq_narrow
#print axioms Pc.C11Leaf.s1_wide_beyond_i64
