/-
C02 (WP close, step 1): `pi_gourdon_64/128` = π(x) WITHOUT THE AC HOOK.  `piGourdon_eq_pi_partial` (PcProps/C02Top.lean) had the
hypothesis `hex.adm.ac : AcLoopEqDef …` — "the model of AC returns A + C" — which is a statement about the model, not about the run.
WP ac2 proved it (`ac_entry_eq_def`, PcProps/C08EasyAC.lean); here the two are connected: the parameter domain `ac_entry_eq_def`
needs (`x^(1/3) < y ≤ z`, `z² ≤ x`, `k ≤ π⌊x^(1/4)⌋`, `x / y` an int64, the table reaching `z` and `⌊√x⌋`) is exactly what
`gourdon64_accept` / `gourdon128_accept` (C12: `GourdonRange`) derive from the float envelope, for every `x ≥ 64`.

What replaces the hook is `AcRunOK` (inside `GExecC.adm.ac`) — about the RECORDED RUN only: each C1 iteration was executed by exactly
one thread, and the segments LoadBalancerAC handed out are (in any order) the consecutive pairs of a chain `0 < … < ⌊√x⌋`.

The domain restriction `x < 2 ∨ 2401 ≤ x` REMAINS (it is not an artefact of the hook): for `2 ≤ x < 2401` `get_k(x) < 4` and
`d_chunk_eq` (D by its real control flow) needs `4 ≤ k`; see `piGourdon_eq_pi_partial`.  The dispatcher calls Gourdon only above 10^8.
Only property theorems, non-vacuity examples and the axiom audit live here.
-/
import PcProofs.CloseEx
import PcProps.C02Top

namespace Pc.C02Closed
open Pc.Top Pc.Hard Nat
open scoped Nat.Prime

/-- **the AC hook is a theorem**: on the parameters `pi_gourdon_*` derives for `x ≥ 64` (any float outcome inside `GourdonEnv`:
    `GourdonRange`), with a valid table reaching `y`, `⌊√x⌋`, every run of AC's two parallel parts meeting `AcRunOK` makes the model
    of `AC` (AC_libdivide.cpp) return Gourdon's `A + C` -/
theorem ac_hook_discharged {σ : Type} (T : Tables σ) (hv : T.t.Valid) (wide : Bool) (x : ℕ) (threads : ℤ) (r : GRun)
    (hx : 64 ≤ x) (hx127 : x < 2 ^ 127) (hwx : wide = false → x < 2 ^ 63)
    (hrange : GourdonRange x threads (gOutPure wide x threads r.fo))
    (hreach : GReach T.t x (gY x r.fo.v).toNat)
    (hac : AcRunOK T.t x (gZ x (gY x r.fo.v) (r.fo.w (gY x r.fo.v))).toNat (getK x) r.acC1 r.acSegs) :
    AcLoopEqDef T.t (widthTy wide) x (gY x r.fo.v).toNat (gZ x (gY x r.fo.v) (r.fo.w (gY x r.fo.v))).toNat (getK x)
      r.acC1 r.acSegs :=
  acHook_of_range T hv wide x threads r hx hx127 hwx hrange hreach hac

/-- **`piGourdon_eq_pi`** — `pi_gourdon_64(x)` (`wide = false`, int64 `x`) / `pi_gourdon_128(x)` (int128 `x` the range check accepts),
    `x < 2` or `x ≥ 2401`: for every float outcome inside `GourdonEnv`, every distribution of Phi0's and C1's iterations, every valid
    run of B's region, every chain of AC segments in any order, every recorded LoadBalancerS2 history of D — `Sigma`, `Phi0`, `AC`,
    `B`, `D` each by the model of its real control flow — the result is π(x); the only other outcome is `badRun` for a recorded D
    history that is not a run of the dispenser.  Nested `pi_noprint` calls are assumed only at int64 arguments below `x`.
    NO hypothesis about the AC model is left (`GExecC` instead of `GExec`). -/
theorem piGourdon_eq_pi {σ : Type} (T : Tables σ) {B : ℕ} (hT : TablesOK T B) (pi : ℕ → ℕ) (wide : Bool) (x : ℤ)
    (hx : InType wide x) (hsmall : x < 2 ∨ 2401 ≤ x) (threads : ℤ) (isPrint : Bool) (r : GRun)
    (hpi : ∀ n : ℕ, (n : ℤ) < x → n < 2 ^ 63 → pi n = π n) (hex : 2 ≤ x → GExecC T B wide x.toNat r) :
    piGourdon T pi wide x threads isPrint r = .ok (π x.toNat : ℤ) ∨
      piGourdon T pi wide x threads isPrint r = .error (.hard .badRun) :=
  piGourdon_total_closed T hT pi wide x hx hsmall threads isPrint r hpi hex

/-- whenever the model returns a value, it is π(x) -/
theorem piGourdon_value {σ : Type} (T : Tables σ) {B : ℕ} (hT : TablesOK T B) (pi : ℕ → ℕ) (wide : Bool) (x : ℤ)
    (hx : InType wide x) (hsmall : x < 2 ∨ 2401 ≤ x) (threads : ℤ) (isPrint : Bool) (r : GRun)
    (hpi : ∀ n : ℕ, (n : ℤ) < x → n < 2 ^ 63 → pi n = π n) (hex : 2 ≤ x → GExecC T B wide x.toNat r) (v : ℤ)
    (h : piGourdon T pi wide x threads isPrint r = .ok v) : v = π x.toNat := by
  rcases piGourdon_total_closed T hT pi wide x hx hsmall threads isPrint r hpi hex with h' | h'
  · rw [h] at h'; injection h'
  · rw [h] at h'; cases h'

/-- C02's reading without the hook: Deleglise-Rivat and Gourdon (any widths, any runs) that return a value return the SAME value -/
theorem dr_gourdon_agree_closed {σ : Type} (T : Tables σ) {B : ℕ} (hT : TablesOK T B) (pi : ℕ → ℕ) (w1 w2 : Bool) (x : ℤ)
    (hx1 : InType w1 x) (hx2 : InType w2 x) (hsmall : x < 2 ∨ 2401 ≤ x) (t1 t2 : ℤ) (p1 p2 : Bool) (r1 : DrRun) (r2 : GRun)
    (hpi : ∀ n : ℕ, (n : ℤ) < x → pi n = π n) (hex1 : 2 ≤ x → DrExec T B w1 x.toNat r1)
    (hex2 : 2 ≤ x → GExecC T B w2 x.toNat r2) (v1 v2 : ℤ)
    (h1 : piDeleglieRivat T pi w1 x t1 p1 r1 = .ok v1) (h2 : piGourdon T pi w2 x t2 p2 r2 = .ok v2) : v1 = v2 := by
  rw [Pc.C02Top.piDeleglieRivat_value T hT pi w1 x hx1 t1 p1 r1 hpi hex1 v1 h1,
    piGourdon_value T hT pi w2 x hx2 hsmall t2 p2 r2 (fun n hn _ => hpi n hn) hex2 v2 h2]

/-! non-vacuity (tests, labelled as such) -/

/-- the float envelope holds on the real floats of `pi_gourdon_64(100000)` under `alpha_y = 1`, `alpha_z = 2` -/
example : GourdonEnv 100000 1 2 exGFloats := exGEnv
/-- the derived parameters: `y = 47`, `z = 94`, `k = 7` -/
example : gY 100000 exGFloats.v = 47 ∧ gZ 100000 47 (exGFloats.w 47) = 94 ∧ getK 100000 = 7 := ⟨exGY, exGZ, exGK⟩
/-- a recorded valid run of B's region -/
example : exBRun.valid LB.genConsts 100000 (100000 / max 47 1) = true := by decide
/-- a COMPLETE instance of the hypotheses at `x = 10^5 ≥ 2401` (Phi0 levels 8..15, AC over the segments `[240, 316)`, `[0, 240)` in that
    order, C1 on three threads), and the theorem applied to it (with the empty D history the model answers `badRun`) -/
example : GExecC (idealTables 3000) 100 false 100000 (exGRun (idealTables 3000).t) := exGExecC
example := piGourdon_eq_pi (idealTables 3000) (idealTables_ok 3000 100) Nat.primeCounting false 100000
  (by unfold InType; norm_num) (Or.inr (by norm_num)) 1 false (exGRun (idealTables 3000).t) (fun _ _ _ => rfl) (fun _ => exGExecC)
/-- and the hook itself, at this instance: the AC model's value IS `A + C` (nothing assumed) -/
example : Easy.acEntry .libdivide (idealTables 3000).t .i64 100000 47 94 7 (exGRun (idealTables 3000).t).acC1 [(240, 316), (0, 240)]
    = .ok (Spec.A 100000 47 (xStar 100000 47) (irootN 3 100000) + Spec.C 100000 47 94 7 (xStar 100000 47)) :=
  Easy.acEntry_eq .libdivide
    (Easy.gparams_xStar (by rw [iroot3_1e5]; norm_num) (by norm_num) (by norm_num) (by norm_num)
      (by rw [iroot4_1e5]; decide))
    (Easy.acBounds_of (NT.build_valid 3000) (by norm_num) (by decide) (by decide) (by rw [sqrt_1e5]; show 316 ≤ 3000; decide)
      (by show 94 ≤ 3000; decide) (by show 3000 ≤ _; decide))
    (by
      have g := Easy.gparams_xStar (x := 100000) (y := 47) (z := 94) (k := 7) (by rw [iroot3_1e5]; norm_num) (by norm_num)
        (by norm_num) (by norm_num) (by rw [iroot4_1e5]; decide)
      show IsSchedule _ _ (staticSched1 (Easy.c1Lo (NT.build 3000) 100000 94 7) (Easy.c1Hi (NT.build 3000) 94) 3)
      rw [Easy.c1Lo_eq (NT.build_valid 3000) g (by show 94 ≤ 3000; decide),
        Easy.c1Hi_eq (NT.build_valid 3000) (by show 94 ≤ 3000; decide)]
      exact staticSched1_isSchedule _ _ (by decide))
    [240, 316] (by simp) (by rw [sqrt_1e5]; rfl) (List.Perm.swap _ _ _)

end Pc.C02Closed

#print axioms Pc.C02Closed.ac_hook_discharged
#print axioms Pc.C02Closed.piGourdon_eq_pi
#print axioms Pc.C02Closed.piGourdon_value
#print axioms Pc.C02Closed.dr_gourdon_agree_closed
