/-
C13 (grammar part) — the operator-precedence (shift/reduce) parser of include/calculator.hpp parses exactly the
DOCUMENTED grammar, for all byte strings; hence `to_maxint` returns a value iff the string is in the documented language
and its exact value (with every intermediate) is representable, and then returns exactly that value.
Only property theorems, non-vacuity examples and the axiom audit live here.

Vocabulary. PcProofs/CalcGrammarSpec.lean (the audited specification; it never mentions a stack):
`docTable` = the operator table of the header comment of calculator.hpp (operator, precedence, associativity);
`lexOp` = longest-match lookup in that table (`<` / `>` alone are lexical errors); `Doc` = the inductive grammar
  expr(p) ::= prim { binop(q ≥ p) expr(q+1 if left-assoc, q if right-assoc) }   (greedy),
  prim ::= number | '(' expr(0) ')' | '+' prim | '-' prim | '~' prim,   number ::= decimal | 0x hex,
white space before every token; `Parses s e` = the whole string `s` is an expression with syntax tree `e`.
PcModel/Calc.lean: `calcTree` = the tree built by the shift/reduce loop (line-by-line model of `parseExpr`), `refTree` =
the executable precedence-climbing reference parser (op `toiref`), `toMaxint` = repaired `to_maxint`, `evalExact`,
`InRange`, `evalChecked`. PcProofs/CalcGrammarEval.lean: `CodeOk e` = no `<<` with a negative left operand and no
`MIN % -1` in `e` (the two cases where the repaired code rejects although value and intermediates are representable).
-/
import PcProofs.CalcGrammarDigits

namespace Pc.C13Grammar
open Pc.Calc Pc.Gen

/-- The hand-transcribed table of the header comment has exactly the entries of the table that the translator extracts
    from the `parseOp` switch of /repo on every run (PcGen/CalcOpsData.lean): documentation and code agree on operators,
    precedences and associativities. -/
theorem documented_table_is_code_table :
    (docTable.all (fun e => calcOpTable.contains e) && calcOpTable.all (fun e => docTable.contains e)) = true :=
  docTable_generated

/-- **The shift/reduce loop builds the tree of the documented grammar — for all strings.** The loop accepts a string
    with tree `e` iff the documented grammar assigns `e` to the string. -/
theorem calcTree_is_documented (s : Bytes) (e : Expr) : calcTree s = .ok e ↔ Parses s e :=
  calcTree_iff_parses s e

/-- The documented grammar is unambiguous. -/
theorem grammar_unambiguous (s : Bytes) (e e' : Expr) (h : Parses s e) (h' : Parses s e') : e = e' :=
  parses_unique h h'

/-- The executable reference parser (precedence climbing, op `toiref`) computes the documented grammar. -/
theorem refTree_is_documented (s : Bytes) (e : Expr) : refTree s = some e ↔ Parses s e :=
  refTree_iff_parses s e

/-- **`calcTree s = refTree s` for all byte strings**: the same tree on success, and the loop rejects a string iff it
    is not in the documented language (`calcTree` signals rejection by an error, `refTree` by `none`; the error is
    always the syntax error: `calcTree_eq_refTree_exact`). -/
theorem calcTree_eq_refTree (s : Bytes) : (calcTree s).toOption = refTree s :=
  Pc.Calc.calcTree_eq_refTree s

/-- As functions: `calcTree s` is the documented tree (computed by the reference parser), or the SYNTAX error — no other
    error is possible for the tree-building run. -/
theorem calcTree_eq_refTree_exact (s : Bytes) :
    calcTree s = match refTree s with
      | some e => .ok e
      | none => .error .syntax :=
  Pc.Calc.calcTree_eq_refTree_exact s

/-- The same for the calculator with ANY arithmetic whose literal range check is monotone — the repaired one, the
    tree builder, and the unrepaired wrap-around calculator of the pinned tree: it returns `v` iff the string is in the
    documented language and the bottom-up evaluation of the documented tree returns `v`. -/
theorem calculator_is_documented {V : Type} (A : Arith V) (hm : LitMono A) (s : Bytes) (v : V) :
    calcWith A s = .ok v ↔ ∃ e, Parses s e ∧ evalA A e = .ok v :=
  calcWith_iff_parses hm s v

/-- **Documented value.** `to_maxint` (repaired) returns `v` iff the string is in the documented language, the exact
    value of its documented tree is `v`, every sub-expression value / shift count / exponent / product of `pow` is
    representable (`InRange`), and the tree is `CodeOk`. -/
theorem documented_value (s : Bytes) (v : Int) :
    toMaxint s = .ok v ↔ ∃ e, Parses s e ∧ evalExact e = some v ∧ InRange e ∧ CodeOk e :=
  toMaxint_iff' s v

/-- The digit-string pre-check of `to_maxint` ("number too large") only fires on strings that are in the documented
    language but not in range: it changes the error signal, never the set of accepted strings. -/
theorem precheck_only_out_of_range (s : Bytes) (ht : tooLarge s = true) (e : Expr) (hp : Parses s e) : ¬ InRange e :=
  tooLarge_not_inRange ht hp

/-- A string outside the documented language is rejected. -/
theorem undocumented_rejected (s : Bytes) (h : ¬ ∃ e, Parses s e) : ∃ err, toMaxint s = .error err := by
  cases ht : toMaxint s with
  | error err => exact ⟨err, rfl⟩
  | ok v =>
    obtain ⟨e, hp, _⟩ := (documented_value s v).1 ht
    exact absurd ⟨e, hp⟩ h

/-- What the independent op `toiref` computes (reference parser + bottom-up checked evaluation) is `to_maxint`: the
    correspondence stream `toiref` compares the real code with a function PROVED equal to the model. -/
theorem toiref_is_toMaxint (s : Bytes) (v : Int) :
    toMaxint s = .ok v ↔ (tooLarge s = false ∧ ∃ e, refTree s = some e ∧ evalChecked e = .ok v) :=
  toMaxint_iff_ref s v

/-- Bottom-up checked evaluation against the exact semantics (the arithmetic part of `documented_value`). -/
theorem checked_eval_exact (e : Expr) (v : Int) :
    evalChecked e = .ok v ↔ (evalExact e = some v ∧ InRange e ∧ CodeOk e) :=
  evalChecked_iff e v

/-- The two places where the repaired code is stricter than "value and all intermediates representable":
    `-1 << 1` (exact value `-2`) and `MIN % -1` (exact value `0`) are `InRange` but rejected with the overflow error
    (`shiftLeft` rejects a negative left operand; `checkDiv` guards `%` like `/`). Not a soundness problem (the call
    fails with the documented error signal), but `InRange` alone does not characterise acceptance. -/
theorem stricter_than_InRange :
    (evalExact (.bin .shl (.neg (.lit 1)) (.lit 1)) = some (-2) ∧ InRange (.bin .shl (.neg (.lit 1)) (.lit 1)) ∧
      evalChecked (.bin .shl (.neg (.lit 1)) (.lit 1)) = .error .overflow) ∧
    (evalExact minModNegOne = some 0 ∧ InRange minModNegOne ∧ evalChecked minModNegOne = .error .overflow) :=
  ⟨shl_gap, mod_gap⟩

/-! non-vacuity (tests, labelled as such): the grammar accepts and rejects, associativity and precedence as documented -/
-- `**` is right-associative, unary minus binds tighter than `**` (header: "-3**2" = 9)
example : Parses (ofStr "2**3**2") (.bin .pow (.lit 2) (.bin .pow (.lit 3) (.lit 2))) :=
  (refTree_is_documented _ _).1 (by decide +kernel)
example : Parses (ofStr "-3**2") (.bin .pow (.neg (.lit 3)) (.lit 2)) :=
  (refTree_is_documented _ _).1 (by decide +kernel)
example : Parses (ofStr "2**-3**2") (.bin .pow (.lit 2) (.bin .pow (.neg (.lit 3)) (.lit 2))) :=
  (refTree_is_documented _ _).1 (by decide +kernel)
-- left-associative operators, precedence `*` over `-` over `<<` over `&` over `|`
example : Parses (ofStr "1 - 2 - 3") (.bin .sub (.bin .sub (.lit 1) (.lit 2)) (.lit 3)) :=
  (refTree_is_documented _ _).1 (by decide +kernel)
example : Parses (ofStr "1|2&3<<4+5*6") (.bin .bor (.lit 1) (.bin .band (.lit 2) (.bin .shl (.lit 3)
    (.bin .add (.lit 4) (.bin .mul (.lit 5) (.lit 6)))))) :=
  (refTree_is_documented _ _).1 (by decide +kernel)
-- scientific notation is a right-associative operator of precedence 40; `e` inside a hex literal is a digit
example : Parses (ofStr "2e1e1*3") (.bin .mul (.bin .exp (.lit 2) (.bin .exp (.lit 1) (.lit 1))) (.lit 3)) :=
  (refTree_is_documented _ _).1 (by decide +kernel)
example : Parses (ofStr "0x1e3") (.lit 483) :=
  (refTree_is_documented _ _).1 (by decide +kernel)
example : Parses (ofStr "2^3e1") (.bin .pow (.lit 2) (.bin .exp (.lit 3) (.lit 1))) :=
  (refTree_is_documented _ _).1 (by decide +kernel)
example : Parses (ofStr " ( 0 + ~(0xDF234 & 1000) *3) /-2 ")
    (.bin .div (.bin .add (.lit 0) (.bin .mul (.not (.bin .band (.lit 0xDF234) (.lit 1000))) (.lit 3))) (.neg (.lit 2))) :=
  (refTree_is_documented _ _).1 (by decide +kernel)
-- rejected strings
example : ¬ ∃ e, Parses (ofStr "1<2") e := by
  rintro ⟨e, h⟩
  have h1 := (refTree_is_documented _ e).2 h
  have h2 : refTree (ofStr "1<2") = none := by decide +kernel
  rw [h2] at h1; cases h1
example : ¬ ∃ e, Parses (ofStr "(1+2") e := by
  rintro ⟨e, h⟩
  have h1 := (refTree_is_documented _ e).2 h
  have h2 : refTree (ofStr "(1+2") = none := by decide +kernel
  rw [h2] at h1; cases h1
example : ¬ ∃ e, Parses (ofStr "0x") e := by
  rintro ⟨e, h⟩
  have h1 := (refTree_is_documented _ e).2 h
  have h2 : refTree (ofStr "0x") = none := by decide +kernel
  rw [h2] at h1; cases h1
example : ¬ ∃ e, Parses (ofStr "1 2") e := by
  rintro ⟨e, h⟩
  have h1 := (refTree_is_documented _ e).2 h
  have h2 : refTree (ofStr "1 2") = none := by decide +kernel
  rw [h2] at h1; cases h1
-- the hypotheses of `calculator_is_documented` hold for the three calculators of the model
example : LitMono checked := litMono_checked
example : LitMono tree := litMono_tree
example : LitMono wrapA := fun _ _ _ _ => rfl
-- `documented_value` on concrete strings
example : toMaxint (ofStr "-(2**2**2**2)") = .ok (-65536) := by decide +kernel
example : toMaxint (ofStr "-1<<1") = .error .overflow := by decide +kernel
example : tooLarge (ofStr "170141183460469231731687303715884105728") = true := by decide +kernel

end Pc.C13Grammar

#print axioms Pc.C13Grammar.documented_table_is_code_table
#print axioms Pc.C13Grammar.calcTree_is_documented
#print axioms Pc.C13Grammar.grammar_unambiguous
#print axioms Pc.C13Grammar.refTree_is_documented
#print axioms Pc.C13Grammar.calcTree_eq_refTree
#print axioms Pc.C13Grammar.calcTree_eq_refTree_exact
#print axioms Pc.C13Grammar.calculator_is_documented
#print axioms Pc.C13Grammar.documented_value
#print axioms Pc.C13Grammar.precheck_only_out_of_range
#print axioms Pc.C13Grammar.undocumented_rejected
#print axioms Pc.C13Grammar.toiref_is_toMaxint
#print axioms Pc.C13Grammar.checked_eval_exact
#print axioms Pc.C13Grammar.stricter_than_InRange
