/-
C08 — partial formulas equal their definitions; identities hold for all parameters.
-/
import PcProofs.Spec.Phi

namespace Pc.C08
open Pc.Spec

/-- LMO / Deleglise-Rivat identity for EVERY cut-off: with `a = π(y)` leaves indexed by subsets of prime
    indices in `(c, a]`, ordinary leaves `S1 = ord x y c a` (products ≤ y) plus special leaves
    `S2 = spec x y c a` equal `φ(x, a)`, for every `y ≥ 1` and every `c ≤ a` (not only the default tuning). -/
theorem s1_add_s2_eq_phi (x y c a : ℕ) (hy : 1 ≤ y) (hc : c ≤ a) :
    (phi x a : ℤ) = ord x y c a + spec x y c a :=
  lmo_general x y a hy (a - c) c (by omega)

/-- Gourdon's ordinary/special split: the same identity with the independent cut-off `z` and stop level `k`:
    `φ(x, a) = Φ0 + (all special leaves with m ≤ z < p_b m)`, for every `z ≥ 1`, `k ≤ a`. -/
theorem phi0_add_special_eq_phi (x z k a : ℕ) (hz : 1 ≤ z) (hk : k ≤ a) :
    (phi x a : ℤ) = ord x z k a + spec x z k a :=
  lmo_general x z a hz (a - k) k (by omega)

/-- the value of the decomposition does not depend on the cut-off or the stop level -/
theorem decomposition_parameter_independent (x a z z' b b' : ℕ) (hz : 1 ≤ z) (hz' : 1 ≤ z')
    (hb : b ≤ a) (hb' : b' ≤ a) :
    ord x z b a + spec x z b a = ord x z' b' a + spec x z' b' a := by
  rw [← lmo_general x z a hz (a - b) b (by omega), ← lmo_general x z' a hz' (a - b') b' (by omega)]

/-- Legendre recurrence, the step every special-leaf value rests on -/
theorem phi_recurrence (x a : ℕ) (ha : 1 ≤ a) : phi x a + phi (x / p a) (a - 1) = phi x (a - 1) :=
  phi_rec x a ha

/-! non-vacuity -/
example : (phi 100 3 : ℤ) = ord 100 7 1 3 + spec 100 7 1 3 := s1_add_s2_eq_phi 100 7 1 3 (by norm_num) (by norm_num)

end Pc.C08

#print axioms Pc.C08.s1_add_s2_eq_phi
#print axioms Pc.C08.phi0_add_special_eq_phi
#print axioms Pc.C08.decomposition_parameter_independent
#print axioms Pc.C08.phi_recurrence
