/-
C08 — partial formulas equal their definitions; identities hold for all parameters.
The defining sums are those of PcProofs/Spec (noncomputable, Mathlib vocabulary); the executable copies in
PcModel/Formulas.lean are what the correspondence streams compare the C++ terms with.
-/
import PcProofs.Spec.All
import PcProofs.FormulasMain

namespace Pc.C08
open Pc.Spec

/-- LMO: S1 + S2 = φ(x, π(y)) for EVERY y ≥ 1 and every c ≤ π(y) (not only the default tuning). -/
theorem s1_add_s2_eq_phi (x y c : ℕ) (hy : 1 ≤ y) (hc : c ≤ Nat.primeCounting y) :
    (phi x (Nat.primeCounting y) : ℤ) = S1 x y c + S2 x y c := lmo x y c hy hc

/-- the split of the special leaves into the three classes of the Deleglise-Rivat implementation -/
theorem s2_split (x y c : ℕ) (hy : y * y ≤ x) (hc : c ≤ Nat.primeCounting y) :
    S2 x y c = S2_trivial x y c + S2_easy x y c + S2_hard x y c := dr_split hy hc

/-- π(x) = S1 + S2_trivial + S2_easy + S2_hard + π(y) − 1 − P2 for every y with y² ≤ x < (y+1)³, i.e. for
    every y = ⌊α·x^(1/3)⌋ the tuning factor can produce, and every c ≤ π(y) -/
theorem dr_identity (x y c : ℕ) (hy : 1 ≤ y) (hy2 : y * y ≤ x) (hy3 : x < (y + 1) ^ 3)
    (hc : c ≤ Nat.primeCounting y) :
    (Nat.primeCounting x : ℤ) = S1 x y c + S2_trivial x y c + S2_easy x y c + S2_hard x y c
      + Nat.primeCounting y - 1 - P2 x (Nat.primeCounting y) := pi_dr hy hy2 hy3 hc

/-- Gourdon: π(x) = A − B + C + D + Φ0 + Σ0 + … + Σ6 for EVERY (y, z) with x^(1/3) < y ≤ z ≤ √x and every
    k ≤ π(⌊x^(1/4)⌋), with x⋆ = `get_x_star_gourdon(x, y)` (`xstar x y r4`), c3 = ⌊x^(1/3)⌋, r4 = ⌊x^(1/4)⌋. -/
theorem gourdon_identity (x y z k c3 r4 : ℕ)
    (hc3 : c3 ^ 3 ≤ x) (hc3' : x < (c3 + 1) ^ 3) (hr4 : r4 ^ 4 ≤ x) (hr4' : x < (r4 + 1) ^ 4)
    (hy : c3 < y) (hy2 : y * y ≤ x) (hyz : y ≤ z) (hz : z * z ≤ x) (hk : k ≤ Nat.primeCounting r4) :
    let w := xstar x y r4
    (Nat.primeCounting x : ℤ) =
      A x y w c3 - B x y + C x y z k w + D x y z k w + Phi0 x y z k +
        (Sigma0 x (Nat.primeCounting y) + Sigma1 (Nat.primeCounting y) (Nat.primeCounting c3) +
          Sigma2 (Nat.primeCounting y) (Nat.primeCounting c3) (Nat.primeCounting (Nat.sqrt (x / y))) (Nat.primeCounting w) +
          Sigma3 (Nat.primeCounting c3) (Nat.primeCounting w) + Sigma4 x y w + Sigma5 x y c3 + Sigma6 x w c3) :=
  (GParams.of_xstar hc3 hc3' hr4 hr4' hy hy2 hyz hz hk).pi_gourdon

/-- the part of Gourdon's identity that replaces P2: −B + Σ0 = π(y) − 1 − P2(x, π(y)) -/
theorem B_sigma0 (x y : ℕ) (h : Nat.primeCounting y ≤ Nat.primeCounting (Nat.sqrt x)) :
    -B x y + Sigma0 x (Nat.primeCounting y) = Nat.primeCounting y - 1 - P2 x (Nat.primeCounting y) :=
  gourdon_B_sigma0 x y h

/-- P2 as the sum the code evaluates -/
theorem P2_as_sum (x a : ℕ) :
    P2 x a = ∑ q ∈ primesGt a (Nat.sqrt x), (Nat.primeCounting (x / q) - Nat.primeCounting q + 1) := P2_sum x a

/-- the generalised leaf decomposition: any cut-off, any stop level -/
theorem leaf_decomposition (x a z b : ℕ) (hz : 1 ≤ z) (hb : b ≤ a) :
    (phi x a : ℤ) = ord x z b a + spec x z b a := lmo_general x z a hz (a - b) b (by omega)

/-- Legendre recurrence, the step every special-leaf value rests on -/
theorem phi_recurrence (x a : ℕ) (ha : 1 ≤ a) : phi x a + phi (x / p a) (a - 1) = phi x (a - 1) :=
  phi_rec x a ha

/-- The EXECUTABLE reference the C++ terms are compared with (op `ident_dr` of pcdrv: `PcModel/Formulas.lean` over the
    table the driver builds) sums to π(x) for every x and every admissible y, c — and each of its terms is proved equal to
    the corresponding `Pc.Spec` definition (`NT.S1_eq`, `NT.S2trivial_eq`, `NT.S2easy_eq`, `NT.S2hard_eq`, `NT.P2_eq`). -/
theorem executable_dr_total {x y c : ℕ} {t : NT} (ht : Drv.tableFor x y (x / y) = some t)
    (hy : 1 ≤ y) (hy2 : y * y ≤ x) (hy3 : x < (y + 1) ^ 3) (hc : c ≤ Nat.primeCounting y) :
    t.S1 x y c + t.S2trivial x y (x / y) c + t.S2easy x y (x / y) c + t.S2hard x y (x / y) c + (t.piOf y : ℤ) - 1
      - t.P2 x y = (Nat.primeCounting x : ℤ) := NT_dr_total_tableFor ht hy hy2 hy3 hc

/-- the same for Gourdon's decomposition (op `ident_gourdon`): A + C − B + D + Φ0 + Σ = π(x) for every admissible
    (y, z, k); terms equal to the Spec definitions by `NT.A_eq`, `NT.C_eq`, `NT.B_eq`, `NT.D_eq`, `NT.Phi0_eq`, `NT.Sigma_eq` -/
theorem executable_gourdon_total {x y z k : ℕ} {t : NT} (ht : Drv.tableFor x y z = some t)
    (hy : irootN 3 x < y) (hy2 : y * y ≤ x) (hyz : y ≤ z) (hz : z * z ≤ x)
    (hk : k ≤ Nat.primeCounting (irootN 4 x)) :
    t.A x y + t.C x y z k - t.B x y + t.D x y z k + t.Phi0 x y z k + t.Sigma x y = (Nat.primeCounting x : ℤ) :=
  NT_gourdon_total_tableFor ht hy hy2 hyz hz hk

/-! non-vacuity: the hypotheses are met by concrete non-trivial parameters -/
example := dr_identity 1000 12 2 (by norm_num) (by norm_num) (by norm_num)
  (by rw [show Nat.primeCounting 12 = 5 by decide]; norm_num)
example := gourdon_identity 100000 60 100 2 46 17 (by norm_num) (by norm_num) (by norm_num) (by norm_num)
  (by norm_num) (by norm_num) (by norm_num) (by norm_num) (by rw [show Nat.primeCounting 17 = 7 by decide]; norm_num)

end Pc.C08

#print axioms Pc.C08.s1_add_s2_eq_phi
#print axioms Pc.C08.s2_split
#print axioms Pc.C08.dr_identity
#print axioms Pc.C08.gourdon_identity
#print axioms Pc.C08.B_sigma0
#print axioms Pc.C08.P2_as_sum
#print axioms Pc.C08.leaf_decomposition
#print axioms Pc.C08.phi_recurrence
#print axioms Pc.C08.executable_dr_total
#print axioms Pc.C08.executable_gourdon_total
