/-
C13 — every textual input is either evaluated exactly or rejected.
Only property theorems, non-vacuity examples and the axiom audit live here.

Vocabulary (PcModel/Calc.lean): `toMaxint` = `to_maxint` of src/util.cpp with the calculator of
include/calculator.hpp AFTER the repair fixes/fix_calculator.diff, on `int128_t`; `calcTree` = the same
parser control flow building the syntax tree; `evalExact` = the value of a tree over the unbounded
integers (`none` = undefined); `InRange` = every sub-expression value is defined and lies in
`[-2^127, 2^127)`, shift counts lie in `[0,128)`, exponents are `≥ 0` and every product formed by `pow`
is representable; `calcWrap`/`toMaxintWrap` = the calculator of the pinned tree (wrap-around).
-/
import PcProofs.CalcDigits
import PcProofs.CalcTotal
import PcGen.CalcOpsObl

namespace Pc.C13
open Pc.Calc

/-- **Soundness.** Whenever `to_maxint` returns a value for a byte string, the string parses (same
    control flow) to a syntax tree whose exact mathematical value is that value, and no sub-expression,
    shift count or intermediate product of `pow` left the range of `int128_t`. -/
theorem calc_sound (s : Bytes) (v : Int) (h : toMaxint s = .ok v) :
    ∃ e, calcTree s = .ok e ∧ evalExact e = some v ∧ InRange e :=
  toMaxint_sound s v h

/-- A string whose tree has no exact value (division or modulo by zero, negative exponent, negative
    shift count) is rejected. -/
theorem div0_rejected (s : Bytes) (e : Expr) (ht : calcTree s = .ok e) (hu : evalExact e = none) :
    ∃ err, toMaxint s = .error err := by
  cases h : toMaxint s with
  | error err => exact ⟨err, rfl⟩
  | ok v =>
    obtain ⟨e', h1, h2, _⟩ := calc_sound s v h
    rw [ht] at h1; cases h1
    rw [hu] at h2; cases h2

/-- A string whose tree has a value or an intermediate outside `int128_t` is rejected
    (this is what finding F2 violated before the repair). -/
theorem out_of_range_rejected (s : Bytes) (e : Expr) (ht : calcTree s = .ok e) (hr : ¬ InRange e) :
    ∃ err, toMaxint s = .error err := by
  cases h : toMaxint s with
  | error err => exact ⟨err, rfl⟩
  | ok v =>
    obtain ⟨e', h1, _, h3⟩ := calc_sound s v h
    rw [ht] at h1; cases h1
    exact absurd h3 hr

/-- A string that the grammar does not accept (the tree-building parser fails) is rejected. -/
theorem syntax_rejected (s : Bytes) (err : Err) (ht : calcTree s = .error err) :
    ∃ err', toMaxint s = .error err' := by
  cases h : toMaxint s with
  | error err' => exact ⟨err', rfl⟩
  | ok v =>
    obtain ⟨e', h1, _, _⟩ := calc_sound s v h
    rw [ht] at h1; cases h1

/-- A value is never returned for some OTHER number: the returned value is determined by the tree. -/
theorem value_unique (s : Bytes) (v : Int) (e : Expr) (h : toMaxint s = .ok v) (ht : calcTree s = .ok e) :
    evalExact e = some v := by
  obtain ⟨e', h1, h2, _⟩ := calc_sound s v h
  rw [ht] at h1; cases h1; exact h2

/-- `v1 / 0` and `v1 % 0` are the division-by-zero error for every `v1` (`checkZero`). -/
theorem divmod_by_zero (a : Int) : binC .div a 0 = .error .div0 ∧ binC .mod a 0 = .error .div0 := by
  simp [binC]

/-- Input left over after the expression (`!isEnd()`) is a syntax error. -/
theorem trailing_garbage_rejected (s : Bytes) (v : Int) (st : Stack Int) (c : Nat) (r : Bytes)
    (h : parseExpr checked (2 * s.length + 2) [] s = .ok (v, st, c :: r)) :
    calcChecked s = .error .syntax := by
  unfold calcChecked calcWith
  rw [h]; rfl

/-- Decimal strings: `to_maxint` returns exactly the denoted number when it is `≤ 2^127 - 1` and throws
    `primecount_error` otherwise (length-then-lexicographic comparison = numeric comparison). -/
theorem digits_precheck (s : Bytes) (hne : s ≠ []) (hd : ∀ c ∈ s, isDigit c = true) :
    toMaxint s = if decVal s ≤ 2 ^ 127 - 1 then .ok (decVal s : Int) else .error .tooLarge :=
  toMaxint_digits s hne hd

/-- The repaired `calculate` on representable operands: a returned value is the exact value of the
    operator application and is representable. -/
theorem calculate_exact (o : Op) (a b v : Int) (ha : inR a = true) (hb : inR b = true)
    (h : binC o a b = .ok v) : binExact o a b = some v ∧ inR v = true :=
  ⟨(binC_sound ha hb h).1, (binC_sound ha hb h).2.1⟩

/-- The artefacts of the model are unreachable: with the fuel `2 * size + 2` the parser never runs out of
    fuel, never reads the top of an empty operator stack, and `pow` ends within 128 iterations. So every
    error of the model is one of the documented error signals of the C++ code. -/
theorem model_total (s : Bytes) : toMaxint s ≠ .error .internal ∧ calcTree s ≠ .error .internal :=
  ⟨toMaxint_not_internal s, calcTree_not_internal s⟩

/-- **Finding F2 (pinned tree, before the repair).** The wrap-around model of the unrepaired calculator
    answers `2**128+100` with `100` although the tree of that string has the exact value `2^128 + 100`;
    the repaired calculator rejects it. (Replayed on the binary by the stream `toi`.) -/
theorem f2_unrepaired_unsound :
    toMaxintWrap (ofStr "2**128+100") = .ok 100 ∧
    (∃ e, calcTree (ofStr "2**128+100") = .ok e ∧ evalExact e = some (2 ^ 128 + 100)) ∧
    toMaxint (ofStr "2**128+100") = .error .overflow := by
  refine ⟨by decide +kernel, ⟨.bin .add (.bin .pow (.lit 2) (.lit 128)) (.lit 100), by decide +kernel, by decide +kernel⟩,
    by decide +kernel⟩

/-! non-vacuity: the hypotheses are satisfiable and the evaluator does return values (tests, labelled as such) -/
example : toMaxint (ofStr "5*-(2**(9+7))/3+5*(1 & 0xFf123)") = .ok (-109221) := by decide +kernel
example : toMaxint (ofStr " ( 0 + ~(0xDF234 & 1000) *3) /-2") = .ok 817 := by decide +kernel
example : toMaxint (ofStr "2**126-1+2**126") = .ok (2 ^ 127 - 1) := by decide +kernel
example : toMaxint (ofStr "-2**127") = .ok (-(2 ^ 127)) := by decide +kernel
example : toMaxint (ofStr "1e31") = .ok (10 ^ 31) := by decide +kernel
example : toMaxint (ofStr "2**127") = .error .overflow := by decide +kernel
example : toMaxint (ofStr "1<<200") = .error .overflow := by decide +kernel
example : toMaxint (ofStr "0x100000000000000000000000000000064") = .error .overflow := by decide +kernel
example : toMaxint (ofStr "-2**127/-1") = .error .overflow := by decide +kernel
example : toMaxint (ofStr "2**-1") = .error .negexp := by decide +kernel
example : toMaxint (ofStr "1/(3-3)") = .error .div0 := by decide +kernel
example : toMaxint (ofStr "12 34") = .error .syntax := by decide +kernel
example : toMaxint (ofStr "(1+2") = .error .syntax := by decide +kernel
example : toMaxint (ofStr "170141183460469231731687303715884105728") = .error .tooLarge := by decide +kernel
example : toMaxint (ofStr "000170141183460469231731687303715884105727") = .ok (2 ^ 127 - 1) := by decide +kernel
example : ∃ e, calcTree (ofStr "1/0") = .ok e ∧ evalExact e = none :=
  ⟨.bin .div (.lit 1) (.lit 0), by decide +kernel, by decide +kernel⟩

/-- the 64-bit command-line options never count for another number: whenever `primecount <s> --<64-bit option>` hands a
    number `w` to the 64-bit function, `w` IS the exact value of the expression (same value as the 128-bit evaluation) and
    lies in int64; every other string is rejected (repaired `to_int64`, finding F8) -/
theorem cli64_exact (s : Bytes) (w : Int) (h : cliNumber64 s = .ok w) :
    cliNumber s = .ok w ∧ -(2 : Int) ^ 63 ≤ w ∧ w < (2 : Int) ^ 63 := by
  unfold cliNumber64 at h
  cases hc : cliNumber s with
  | error e => simp only [hc] at h; cases h
  | ok v =>
    simp only [hc, cliToInt64] at h
    by_cases hr : -(2 : Int) ^ 63 ≤ v ∧ v < (2 : Int) ^ 63
    · simp only [if_pos hr] at h
      cases h
      exact ⟨rfl, hr.1, hr.2⟩
    · simp only [if_neg hr] at h
      cases h

/-- a value outside int64 (either side) is rejected by every 64-bit option -/
theorem cli64_rejects_outside (s : Bytes) (v : Int) (hv : cliNumber s = .ok v)
    (ho : v < -(2 : Int) ^ 63 ∨ (2 : Int) ^ 63 ≤ v) : cliNumber64 s = .error .tooLarge := by
  have hn : ¬ (-(2 : Int) ^ 63 ≤ v ∧ v < (2 : Int) ^ 63) := by omega
  simp only [cliNumber64, hv, cliToInt64, if_neg hn]

-- the witness of finding F8: the unrepaired narrowing `(int64_t) v` of v = -(2^64 - 100) is 100
example : cliToInt64 (-(2 ^ 64 - 100)) = .error .tooLarge ∧ cliToInt64 100 = .ok 100 := by decide

end Pc.C13

#print axioms Pc.C13.calc_sound
#print axioms Pc.C13.div0_rejected
#print axioms Pc.C13.out_of_range_rejected
#print axioms Pc.C13.syntax_rejected
#print axioms Pc.C13.value_unique
#print axioms Pc.C13.divmod_by_zero
#print axioms Pc.C13.trailing_garbage_rejected
#print axioms Pc.C13.digits_precheck
#print axioms Pc.C13.calculate_exact
#print axioms Pc.C13.model_total
#print axioms Pc.C13.f2_unrepaired_unsound
#print axioms Pc.C13.cli64_exact
#print axioms Pc.C13.cli64_rejects_outside
-- generated obligations (operator table of parseOp extracted from include/calculator.hpp)
#print axioms Pc.Gen.calcOpTable_ok
#print axioms Pc.Gen.calcOp_default
