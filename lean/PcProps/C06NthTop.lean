/-
C06 (WP nth) — `nth_prime_cpp_correct` with the `pi` contract DISCHARGED by WP top: `count_approx = pi(prime_approx, threads)` is
whatever the size dispatcher of src/api.cpp (`Pc.Top.piApi64`, every route by its real control flow) returns; the hypotheses
about `pi` are exactly the named ones of PcProps/C01Top.lean `pi_noprint_is_pi` (`TablesOK`, `PhiContract`, `ApiExec` incl. the AC hook).
Only property theorems and the axiom audit live here.
-/
import PcProofs.NthItWalk
import PcProofs.TopAlgsEx

namespace Pc.C06NthTop
open Pc.NthIt Pc.It Pc.Top PcGen.ApiConst

local notation "π" => Nat.primeCounting

/-- `nth_prime(n)` is the n-th prime for every `1 ≤ n ≤ max_n` when `pi(prime_approx, threads)` is computed by the dispatcher
    `pi(int64_t)` of api.cpp: `pi'` is any function consistent with being computed by `piApi64` (for every int64 `m ≥ 0` SOME
    execution — any thread count, any run meeting `ApiExec` — whose nested `pi_noprint` calls are answered by `pi'` returns `pi' m`).
    Remaining hypotheses, by name: `GenSpec` (sieving core behind the iterator), `TablesOK` / `PhiContract` / `ApiExec` (WP top),
    `pi_cache` (C17), the value range of RiemannR_inverse (nothing about its accuracy), the literature constant `p max_n < 2^63`. -/
theorem nth_prime_cpp_correct_top {σ : Type} (T : Tables σ) {B : ℕ} (hT : TablesOK T B) (phi : ℕ → ℕ → ℕ) (pi' : ℕ → ℕ)
    (hphi : ∀ m, m < 2 ^ 63 → PhiContract phi m)
    (hrec : ∀ m, m < 2 ^ 63 → ∃ (threads : ℤ) (r : ApiRun), (PcGen.ApiConst.maxCached < m → ApiExec T B false m r) ∧
      piApi64 T phi pi' (m : ℤ) threads false r = .ok (pi' m : ℤ))
    (env : NthIt.Env) (hcore : GenSpec env.ie) (hpi : ∀ x : ℕ, x < 2 ^ 63 → env.pi (x : ℤ) = ((pi' x : ℕ) : ℤ))
    (hcache : ∀ m ≤ Gen.nthPrimeMaxCached, env.piCache m = π m)
    (happrox : ∀ n : ℕ, 1 ≤ n → ∃ a : ℕ, a < 2 ^ 63 ∧ env.approx (n : ℤ) = (a : ℤ))
    (hlit : Spec.p Gen.nthPrimeMaxN < 2 ^ 63) (n : ℕ) (h1 : 1 ≤ n) (h2 : n ≤ Gen.nthPrimeMaxN) :
    nthPrimeCpp env (n : ℤ) = .ok ((Spec.p n : ℕ) : ℤ) := by
  have hpi' : ∀ m, m < 2 ^ 63 → pi' m = π m := pi_noprint_fixpoint T hT phi pi' (2 ^ 63) le_rfl hphi hrec
  exact nthPrimeCpp_ok env ⟨hcore, fun x hx => by rw [hpi x hx, hpi' x hx], hcache, happrox⟩ hlit n h1 h2

end Pc.C06NthTop

#print axioms Pc.C06NthTop.nth_prime_cpp_correct_top
