/-
C13 (WP cli) — the whole command line: every argv is either rejected / answered without a count, or the program prints
`f(x[, a])` for the exact values of its number arguments and the function of its only main option.
Only property theorems, non-vacuity examples and the axiom audit live here.

Vocabulary (PcModel/Cli.lean, PcProofs/Cli.lean): `cliMain hw stod alg argv` = `main` of src/app/main.cpp on
`argv[1..]` (L2 model of parseOption / parseOptions / setMainOption / optionStatus / Option::to / main's switch; the option
table, the enum and both switches are kernel-checked equal to the ones regenerated from the sources, PcGen/CliOptObl.lean);
`items argv` = the options `parseOption` cuts argv into (no effects); `numberValues` = the values, under the CHECKED
evaluator `toMaxint` of C13, of the number items in argv order; `mainItems` = the items that reach `setMainOption`;
`selected` = the id of the first main item, OPTION_DEFAULT when there is none; `dispatchOf id` = the `case` of main's switch.
Parameters, quantified over: `stod` (std::stod + the float tests of set_alpha*), `hw` (thread maxima), `alg` (the library
functions under the configuration the options left behind; `none` = throws).
-/
import PcProofs.Cli

namespace Pc.C13Cli
open Pc.Calc Pc.Cli

/-- **Exact or error, for EVERY argv.** (1) The exit status is 0 or 1. (2) A run that reports an error exits with 1 and
    prints no result line. (3) Whenever a result line `v` is printed, the run exits with 0 and: the command line has at most
    one main option (a second one is an error, whatever it is and wherever it stands — not "last wins"); main's switch has a
    `case` `d` for the selected option; `x` is the value of the FIRST number argument and, for `--phi`, `a` the value of
    the SECOND (further numbers are ignored); a 64-bit function receives them only if they lie in int64; and
    `v = d.fn(x[, a][, threads])`. By `number_arguments_exact` below `x` and `a` are the exact mathematical values of the
    argument texts. -/
theorem cli_exact_or_error (hw : ApiHw) (stod : Bytes → Option AlphaArg) (alg : CliAlg) (argv : List Bytes) :
    let r := cliMain hw stod alg argv
    (r.exit = 0 ∨ r.exit = 1) ∧
    (r.err ≠ none → r.exit = 1 ∧ ∀ v, OutItem.result v ∉ r.stdout) ∧
    (∀ v, OutItem.result v ∈ r.stdout →
      r.exit = 0 ∧ r.err = none ∧ (mainItems (items argv)).length ≤ 1 ∧
      ∃ d x cfg, dispatchOf (selected (items argv)) = some d ∧
        (numberValues (items argv)).head? = some x ∧
        (d.narrow = true → InInt64 x) ∧
        ((d.second = false ∨ d.narrow = false) → alg cfg ⟨d.fn, x, none, d.threads⟩ = some v) ∧
        (d.second = true → d.narrow = true → selected (items argv) = .phi ∧
          ∃ a, (numberValues (items argv))[1]? = some a ∧ InInt64 a ∧ alg cfg ⟨d.fn, x, some a, d.threads⟩ = some v)) :=
  cliMain_exact_or_error hw stod alg argv

/-- The numbers are exact: every value in `numberValues` is the value of a number item of the command line under the
    checked evaluator, hence (C13 `calc_sound`) the exact mathematical value of a syntax tree of that text, with no
    intermediate outside int128. -/
theorem number_arguments_exact (argv : List Bytes) (v : Int) (h : v ∈ numberValues (items argv)) :
    ∃ it ∈ items argv, it.id = .number ∧ toMaxint it.val = .ok v ∧
      ∃ e, calcTree it.val = .ok e ∧ evalExact e = some v ∧ InRange e :=
  numberValues_exact _ v h

/-- Where the text of an item comes from: `parseOption` takes the value of an option from the SAME argument (a suffix:
    `--opt=VAL`, `-oVAL`, a bare number is its own value) or it is the whole NEXT argument, which is then consumed and is
    neither empty nor option-like. -/
theorem item_text_provenance (str : Bytes) (rest rest' : List Bytes) (it : Item)
    (h : parseOption str rest = .ok (it, rest')) :
    it.str = str ∧ str ≠ [] ∧
    ((it.val <:+ str ∧ rest' = rest) ∨ (rest = it.val :: rest' ∧ it.val ≠ [] ∧ isOption it.val = false)) :=
  let ⟨a, b, c, _⟩ := parseOptionIn_ok h
  ⟨a, b, c⟩

/-- a bare argument that passes the CLI filter of C13 (`cliArg`) denotes itself -/
theorem bare_number_denotes_itself (str : Bytes) (rest : List Bytes) (h : cliArg str = .number) :
    parseOption str rest = .ok (⟨str, ofStr "--number", str, .number⟩, rest) :=
  parseOption_bare_number str rest h

/-- Two main options are rejected, in either order and also when they are the same option twice ("incompatible
    options"): there is no "last one wins". -/
theorem two_main_options_rejected (hw : ApiHw) (stod : Bytes → Option AlphaArg) (alg : CliAlg) (argv : List Bytes)
    (h : 2 ≤ (mainItems (items argv)).length) :
    ∀ v, OutItem.result v ∉ (cliMain hw stod alg argv).stdout := by
  intro v hv
  have := (cli_exact_or_error hw stod alg argv).2.2 v hv
  omega

/-- main's switch covers OPTION_DEFAULT and every id that `parseOptions` treats as a main option: `res` is never printed
    without having been assigned (there is no `default:` label in the source) -/
theorem main_switch_total (id : OptId) (h : isMainId id = true) : ∃ d, dispatchOf id = some d :=
  dispatchOf_total id h

/-- the documented meaning of every key (help.cpp / doc): the function main calls for it -/
theorem option_meaning :
    (optTable.filter (fun e => isMainId e.2.1)).map (fun e => (e.1, (dispatchOf e.2.1).map (·.fn))) =
    [("-d", some "pi_deleglise_rivat"), ("--deleglise-rivat", some "pi_deleglise_rivat"),
     ("--deleglise-rivat-64", some "pi_deleglise_rivat_64"), ("--deleglise-rivat-128", some "pi_deleglise_rivat_128"),
     ("-g", some "pi_gourdon"), ("--gourdon", some "pi_gourdon"), ("--gourdon-64", some "pi_gourdon_64"),
     ("--gourdon-128", some "pi_gourdon_128"), ("-l", some "pi_legendre"), ("--legendre", some "pi_legendre"),
     ("--lehmer", some "pi_lehmer"), ("--lmo", some "pi_lmo_parallel"), ("--lmo1", some "pi_lmo1"), ("--lmo2", some "pi_lmo2"),
     ("--lmo3", some "pi_lmo3"), ("--lmo4", some "pi_lmo4"), ("--lmo5", some "pi_lmo5"), ("-m", some "pi_meissel"),
     ("--meissel", some "pi_meissel"), ("-n", some "nth_prime"), ("--nth-prime", some "nth_prime"),
     ("-p", some "pi_primesieve"), ("--primesieve", some "pi_primesieve"), ("--Li", some "Li"),
     ("--Li-inverse", some "Li_inverse"), ("-R", some "RiemannR"), ("--RiemannR", some "RiemannR"),
     ("--RiemannR-inverse", some "RiemannR_inverse"), ("--phi", some "phi"), ("--P2", some "P2"), ("--S1", some "S1"),
     ("--S2-easy", some "S2_easy"), ("--S2-hard", some "S2_hard"), ("--S2-trivial", some "S2_trivial"), ("--AC", some "AC"),
     ("-B", some "B"), ("--B", some "B"), ("-D", some "D"), ("--D", some "D"), ("--Phi0", some "Phi0"),
     ("--Sigma", some "Sigma")] := by decide

/-! non-vacuity and the oddities of the real parser (tests, labelled as such; `alg` = a recognisable stand-in) -/

-- `Pc.Cli.run args` = `cliMain` with the stand-in library `algDemo` (returns `1000 * x + a`, so that the arguments are
-- visible in the result) and the stand-in `stodDemo` (PcProofs/Cli.lean)

example : run ["1e2"] = ⟨0, [.result 100000], none, some ⟨"pi", 100, none, true⟩⟩ := by decide +kernel
example : run ["--legendre", "2**5"] = ⟨0, [.result 32000], none, some ⟨"pi_legendre", 32, none, true⟩⟩ := by decide +kernel
example : run ["100", "--phi", "3"] = ⟨0, [.result 100003], none, some ⟨"phi", 100, some 3, true⟩⟩ := by decide +kernel
-- option order is irrelevant here, number order is not
example : run ["3", "100", "--phi"] = ⟨0, [.result 3100], none, some ⟨"phi", 3, some 100, true⟩⟩ := by decide +kernel
-- surplus numbers are silently ignored (x = first number): `primecount 100 200` prints pi(100)
example : (run ["100", "200"]).call = some ⟨"pi", 100, none, true⟩ := by decide +kernel
-- two main options: error, not "last wins"
example : run ["--legendre", "--meissel", "100"] = ⟨1, [], some .incompatible, none⟩ := by decide +kernel
example : run ["-l", "-l", "100"] = ⟨1, [], some .incompatible, none⟩ := by decide +kernel
-- 64-bit options reject what does not fit (finding F8 repaired), 128-bit options take it
example : run ["2**64+100", "--meissel"] = ⟨1, [], some .toInt64, none⟩ := by decide +kernel
example : (run ["2**64+100"]).call = some ⟨"pi", 2 ^ 64 + 100, none, true⟩ := by decide +kernel
example : run ["2**128+100"] = ⟨1, [], some .invalidOption, none⟩ := by decide +kernel
-- `-s` takes a following number as its precision: `primecount -s 1000` has no x
example : run ["-s", "1000"] = ⟨1, [], some .missingX, none⟩ := by decide +kernel
example : run ["1000", "-s"] = ⟨0, [.statusOutput, .blank, .result 1000000, .seconds], none, some ⟨"pi", 1000, none, true⟩⟩ := by
  decide +kernel
-- a value attached to an option that takes none is dropped: `--lmo6` runs `--lmo`, `-n100 5` is nth_prime(5)
example : (run ["100", "--lmo6"]).call = some ⟨"pi_lmo_parallel", 100, none, true⟩ := by decide +kernel
example : (run ["-n100", "5"]).call = some ⟨"nth_prime", 5, none, true⟩ := by decide +kernel
-- negative numbers: rejected bare, accepted through --number (pi(-5) = 0 is still exact)
example : run ["-5"] = ⟨1, [], some .unrecognized, none⟩ := by decide +kernel
example : (run ["--number", "-5"]).call = some ⟨"pi", -5, none, true⟩ := by decide +kernel
-- help stops the run where it stands: before a later error, not after an earlier one
example : run ["--help", "--bogus"] = ⟨0, [.helpMenu], none, none⟩ := by decide +kernel
example : run ["--bogus", "--help"] = ⟨1, [], some .unrecognized, none⟩ := by decide +kernel
example : run [] = ⟨1, [.helpMenu], none, none⟩ := by decide +kernel
-- a formula option in print mode prints no combined result line
example : run ["1000", "--P2", "-s"] = ⟨0, [.statusOutput], none, some ⟨"P2", 1000, none, true⟩⟩ := by decide +kernel
example : run ["0", "--P2", "-s"] = ⟨0, [.statusOutput, .blank, .result 0, .seconds], none, some ⟨"P2", 0, none, true⟩⟩ := by
  decide +kernel

end Pc.C13Cli

#print axioms Pc.C13Cli.cli_exact_or_error
#print axioms Pc.C13Cli.number_arguments_exact
#print axioms Pc.C13Cli.item_text_provenance
#print axioms Pc.C13Cli.bare_number_denotes_itself
#print axioms Pc.C13Cli.two_main_options_rejected
#print axioms Pc.C13Cli.main_switch_total
#print axioms Pc.C13Cli.option_meaning
