/-
C09 — load balancers hand out every part of the range exactly once and terminate.
Only property theorems, non-vacuity examples and the axiom audit live here.

Every theorem is about EVERY history `es` that the acceptor of the corresponding L2 model accepts from the
constructor's initial state: any number of workers, any return order, any durations / clock values
(they only enter as the recorded float-derived choices), any `x`, range, thread count, print mode, and any
constants `c` with `c.WF` (`consts_wf`: the constants generated from /repo satisfy it).
`S.chunks es` are the chunks handed out with `is_work = true`, clipped to the limit, in hand-out order.
-/
import PcProofs.Dispenser2
namespace Pc.C09
open Pc.LB

/-- the constants generated from /repo (PcGen/LbConst.lean) satisfy what the theorems assume:
    both `align_segment_size` use 240, initial `segments_ ≥ 1`, no zero divisor, growth factor ≥ 1 -/
theorem consts_wf : genConsts.WF := genConsts_wf

/-- what `align_segment_size` guarantees exactly: a multiple of 240, at least 240, at least its argument,
    and less than 240 above `max n 240` -/
theorem align_segment_size_spec (n : Nat) :
    240 ∣ alignTo 240 n ∧ 240 ≤ alignTo 240 n ∧ n ≤ alignTo 240 n ∧ alignTo 240 n < max n 240 + 240 :=
  alignTo_spec n

/-! ### L1: every run of the abstract dispenser -/

/-- L1 `run_covers`: ANY step sizes (positive where a request is granted), ANY number of requests: the chunks
    are contiguous, and cover `[low, limit)` exactly once the dispenser is exhausted -/
theorem l1_partition (s : Disp) (ds : List Nat) (hpos : s.PosRun ds) :
    Chain (min s.low s.limit) (min (s.run ds).1.low s.limit) (s.run ds).2 ∧
    (s.low ≤ s.limit → s.limit ≤ (s.run ds).1.low → Chain s.low s.limit (s.run ds).2) :=
  ⟨Disp.run_chain s ds hpos, fun h0 hd => Disp.run_covers s ds hpos hd h0⟩

/-- L1 `sum_once` with workers: for every list of events `(worker, step)`, accumulated sum + results of the
    chunks still held by workers = sum of `f` over all chunks handed out (each exactly once) -/
theorem l1_sum_once (f : Chunk → Int) (s : WDisp) (es : List WEv) :
    (s.run f es).1.sum + pendSum f (s.run f es).1.held = s.sum + pendSum f s.held + sumF f (s.run f es).2 :=
  WDisp.sum_once f s es

/-- `refines`: every accepted S2 history is a run of the L1 dispenser from 0 with some step sizes `ds`
    (one per request, positive wherever a request is granted) handing out exactly the recorded chunks -/
theorem s2_refines (c : Consts) (hc : c.WF) (x limit threads : Nat) (print : Bool) (es : List S2.Ev)
    (hacc : (S2.sys (S2.mkConfig c limit threads print)).accepts (S2.init c x limit threads print) es = true) :
    ∃ ds : List Nat, ds.length = es.length ∧ (Disp.mk 0 limit).PosRun ds ∧
      ((Disp.mk 0 limit).run ds).2 = (S2.sys (S2.mkConfig c limit threads print)).chunks es := by
  have L := S2.law (S2.mkConfig c limit threads print) (S2.mkConfig_al c hc limit threads print)
  obtain ⟨ds, h1, h2, h3, _, _⟩ := Sys.refines L _ es (S2.init_inv c hc x limit threads print) hacc
  have h0 : (S2.sys (S2.mkConfig c limit threads print)).pos (S2.init c x limit threads print) = 0 := by
    show (S2.init c x limit threads print).low = 0
    simp only [S2.init]; split <;> rfl
  rw [h0] at h2 h3
  exact ⟨ds, h1, h2, h3⟩

theorem p2_refines (c : Consts) (hc : c.WF) (x limit team : Nat) (print : Bool) (es : List P2.Ev)
    (hacc : (P2.sys ⟨limit, team, print⟩).accepts (P2.init c x limit team) es = true) :
    ∃ ds : List Nat, ds.length = es.length ∧ (Disp.mk (min (ctSqrt x) limit) limit).PosRun ds ∧
      ((Disp.mk (min (ctSqrt x) limit) limit).run ds).2 = (P2.sys ⟨limit, team, print⟩).chunks es := by
  obtain ⟨ds, h1, h2, h3, _, _⟩ := Sys.refines (P2.law ⟨limit, team, print⟩) _ es (P2.init_inv c hc _ x limit team) hacc
  exact ⟨ds, h1, h2, h3⟩

theorem ac_refines (c : Consts) (hc : c.WF) (sqrtx y threads : Nat) (print : Bool) (es : List AC.Ev)
    (hacc : (AC.sys (AC.mkConfig c sqrtx y threads print)).accepts (AC.init c sqrtx threads print) es = true) :
    ∃ ds : List Nat, ds.length = es.length ∧ (Disp.mk 0 sqrtx).PosRun ds ∧
      ((Disp.mk 0 sqrtx).run ds).2 = (AC.sys (AC.mkConfig c sqrtx y threads print)).chunks es := by
  obtain ⟨ds, h1, h2, h3, _, _⟩ := Sys.refines (AC.law _ (AC.mkConfig_wf c hc sqrtx y threads print)) _ es
    (AC.init_inv c hc sqrtx y threads print) hacc
  exact ⟨ds, h1, h2, h3⟩

/-! ### partition -/

/-- S2: the chunks are contiguous from 0 without gap or overlap, each non-empty; once the dispenser is
    exhausted (in particular once some request was answered `false`, `s2_false_means_exhausted`) their union
    is exactly `[0, limit)`. -/
theorem s2_partition (c : Consts) (hc : c.WF) (x limit threads : Nat) (print : Bool) (es : List S2.Ev)
    (hacc : (S2.sys (S2.mkConfig c limit threads print)).accepts (S2.init c x limit threads print) es = true) :
    Chain 0 (min ((S2.sys (S2.mkConfig c limit threads print)).final (S2.init c x limit threads print) es).low limit)
      ((S2.sys (S2.mkConfig c limit threads print)).chunks es) ∧
    (limit ≤ ((S2.sys (S2.mkConfig c limit threads print)).final (S2.init c x limit threads print) es).low →
      Chain 0 limit ((S2.sys (S2.mkConfig c limit threads print)).chunks es)) := by
  have L := S2.law (S2.mkConfig c limit threads print) (S2.mkConfig_al c hc limit threads print)
  have hi := S2.init_inv c hc x limit threads print
  have h0 : (S2.init c x limit threads print).low = 0 := by simp only [S2.init]; split <;> rfl
  have h1 := Sys.chain L _ es hi hacc
  constructor
  · have : min ((S2.sys (S2.mkConfig c limit threads print)).pos (S2.init c x limit threads print))
        (S2.sys (S2.mkConfig c limit threads print)).limit = 0 := by
      show min (S2.init c x limit threads print).low _ = 0
      rw [h0]; simp
    rw [this] at h1; exact h1
  · intro hd
    have := Sys.covers L _ es hi hacc (by show (S2.init c x limit threads print).low ≤ _; rw [h0]; exact Nat.zero_le _) hd
    have hp : (S2.sys (S2.mkConfig c limit threads print)).pos (S2.init c x limit threads print) = 0 := h0
    rw [hp] at this; exact this

/-- P2: the same from `start = min(isqrt x, limit)` -/
theorem p2_partition (c : Consts) (hc : c.WF) (x limit team : Nat) (print : Bool) (es : List P2.Ev)
    (hacc : (P2.sys ⟨limit, team, print⟩).accepts (P2.init c x limit team) es = true) :
    Chain (min (ctSqrt x) limit) ((P2.sys ⟨limit, team, print⟩).final (P2.init c x limit team) es).low
      ((P2.sys ⟨limit, team, print⟩).chunks es) ∧
    (limit ≤ ((P2.sys ⟨limit, team, print⟩).final (P2.init c x limit team) es).low →
      Chain (min (ctSqrt x) limit) limit ((P2.sys ⟨limit, team, print⟩).chunks es)) := by
  have L := P2.law ⟨limit, team, print⟩
  have hi := P2.init_inv c hc ⟨limit, team, print⟩ x limit team
  have h1 := Sys.chain L _ es hi hacc
  have hle := Chain.le h1
  have hs : (P2.sys ⟨limit, team, print⟩).pos (P2.init c x limit team) = min (ctSqrt x) limit := rfl
  have hl : (P2.sys ⟨limit, team, print⟩).limit = limit := rfl
  rw [hs, hl] at h1 hle
  have hm : min (min (ctSqrt x) limit) limit = min (ctSqrt x) limit := by omega
  rw [hm] at h1 hle
  constructor
  · -- P2 clips `low_` itself, so the end of the chain is `low_`
    have hfin : ((P2.sys ⟨limit, team, print⟩).final (P2.init c x limit team) es).low ≤ limit ∨
        limit ≤ ((P2.sys ⟨limit, team, print⟩).final (P2.init c x limit team) es).low := by omega
    have key : ∀ (es : List P2.Ev) (s : P2.State), s.low ≤ limit →
        ((P2.sys ⟨limit, team, print⟩).final s es).low ≤ limit := by
      intro es
      induction es with
      | nil => intro s h; exact h
      | cons e es ih =>
        intro s _
        apply ih
        show (P2.next ⟨limit, team, print⟩ s _).low ≤ limit
        unfold P2.next
        split <;> simp only <;> omega
    have := key es (P2.init c x limit team) (P2.init_low_le c x limit team)
    have hm2 : min ((P2.sys ⟨limit, team, print⟩).pos ((P2.sys ⟨limit, team, print⟩).final (P2.init c x limit team) es)) limit =
        ((P2.sys ⟨limit, team, print⟩).final (P2.init c x limit team) es).low := by
      show min ((P2.sys ⟨limit, team, print⟩).final (P2.init c x limit team) es).low limit = _
      omega
    rw [hm2] at h1; exact h1
  · intro hd
    have hm2 : min ((P2.sys ⟨limit, team, print⟩).pos ((P2.sys ⟨limit, team, print⟩).final (P2.init c x limit team) es)) limit = limit := by
      show min ((P2.sys ⟨limit, team, print⟩).final (P2.init c x limit team) es).low limit = _
      omega
    rw [hm2] at h1; exact h1

/-- AC: the same on `[0, sqrtx)` -/
theorem ac_partition (c : Consts) (hc : c.WF) (sqrtx y threads : Nat) (print : Bool) (es : List AC.Ev)
    (hacc : (AC.sys (AC.mkConfig c sqrtx y threads print)).accepts (AC.init c sqrtx threads print) es = true) :
    Chain 0 (min ((AC.sys (AC.mkConfig c sqrtx y threads print)).final (AC.init c sqrtx threads print) es).low sqrtx)
      ((AC.sys (AC.mkConfig c sqrtx y threads print)).chunks es) ∧
    (sqrtx ≤ ((AC.sys (AC.mkConfig c sqrtx y threads print)).final (AC.init c sqrtx threads print) es).low →
      Chain 0 sqrtx ((AC.sys (AC.mkConfig c sqrtx y threads print)).chunks es)) := by
  have L := AC.law _ (AC.mkConfig_wf c hc sqrtx y threads print)
  have hi := AC.init_inv c hc sqrtx y threads print
  have h1 := Sys.chain L _ es hi hacc
  have hp : (AC.sys (AC.mkConfig c sqrtx y threads print)).pos (AC.init c sqrtx threads print) = 0 := rfl
  have hl : (AC.sys (AC.mkConfig c sqrtx y threads print)).limit = sqrtx := rfl
  rw [hp, hl] at h1
  have hz : min 0 sqrtx = 0 := by omega
  rw [hz] at h1
  refine ⟨h1, fun hd => ?_⟩
  have hm : min ((AC.sys (AC.mkConfig c sqrtx y threads print)).pos
      ((AC.sys (AC.mkConfig c sqrtx y threads print)).final (AC.init c sqrtx threads print) es)) sqrtx = sqrtx := by
    show min ((AC.sys (AC.mkConfig c sqrtx y threads print)).final (AC.init c sqrtx threads print) es).low sqrtx = _
    omega
  rw [hm] at h1; exact h1

/-- a request answered `false` anywhere in an accepted history means the range is exhausted at the end
    (S2; the generic statement `Sys.none_exhausted` covers P2 and AC in the same way) -/
theorem s2_false_means_exhausted (c : Consts) (hc : c.WF) (x limit threads : Nat) (print : Bool)
    (pre : List S2.Ev) (e : S2.Ev) (post : List S2.Ev) (hf : e.work = false)
    (hacc : (S2.sys (S2.mkConfig c limit threads print)).accepts (S2.init c x limit threads print) (pre ++ e :: post) = true) :
    limit ≤ ((S2.sys (S2.mkConfig c limit threads print)).final (S2.init c x limit threads print) (pre ++ e :: post)).low := by
  have L := S2.law (S2.mkConfig c limit threads print) (S2.mkConfig_al c hc limit threads print)
  exact Sys.none_exhausted L _ pre e post (S2.init_inv c hc x limit threads print) hacc (by
    show S2.chunkOf _ e = none
    simp [S2.chunkOf, hf])

theorem p2_false_means_exhausted (c : Consts) (hc : c.WF) (x limit team : Nat) (print : Bool)
    (pre : List P2.Ev) (e : P2.Ev) (post : List P2.Ev) (hf : e.work = false)
    (hacc : (P2.sys ⟨limit, team, print⟩).accepts (P2.init c x limit team) (pre ++ e :: post) = true) :
    limit ≤ ((P2.sys ⟨limit, team, print⟩).final (P2.init c x limit team) (pre ++ e :: post)).low :=
  Sys.none_exhausted (P2.law ⟨limit, team, print⟩) _ pre e post (P2.init_inv c hc _ x limit team) hacc (by
    show P2.chunkOf e = none
    simp [P2.chunkOf, hf])

theorem ac_false_means_exhausted (c : Consts) (hc : c.WF) (sqrtx y threads : Nat) (print : Bool)
    (pre : List AC.Ev) (e : AC.Ev) (post : List AC.Ev) (hf : e.work = false)
    (hacc : (AC.sys (AC.mkConfig c sqrtx y threads print)).accepts (AC.init c sqrtx threads print) (pre ++ e :: post) = true) :
    sqrtx ≤ ((AC.sys (AC.mkConfig c sqrtx y threads print)).final (AC.init c sqrtx threads print) (pre ++ e :: post)).low :=
  Sys.none_exhausted (AC.law _ (AC.mkConfig_wf c hc sqrtx y threads print)) _ pre e post
    (AC.init_inv c hc sqrtx y threads print) hacc (by
    show AC.chunkOf _ e = none
    simp [AC.chunkOf, hf])

/-! ### aligned -/

/-- S2: at every request the chunk start handed out is a multiple of 240 (hence of 30, the sieve's
    precondition), `segment_size` is a multiple of 240 and ≥ 240, `segments ≥ 1` -/
theorem s2_aligned (c : Consts) (hc : c.WF) (x limit threads : Nat) (print : Bool)
    (pre : List S2.Ev) (e : S2.Ev) (post : List S2.Ev)
    (hacc : (S2.sys (S2.mkConfig c limit threads print)).accepts (S2.init c x limit threads print) (pre ++ e :: post) = true) :
    240 ∣ e.olow ∧ 240 ∣ e.osize ∧ 240 ≤ e.osize ∧ 1 ≤ e.osegs := by
  have hal := S2.mkConfig_al c hc limit threads print
  have L := S2.law (S2.mkConfig c limit threads print) hal
  refine Sys.all_events L (fun _ e => 240 ∣ e.olow ∧ 240 ∣ e.osize ∧ 240 ≤ e.osize ∧ 1 ≤ e.osegs) ?_
    (pre ++ e :: post) _ (S2.init_inv c hc x limit threads print) hacc pre e post rfl
  intro s e hi hok
  have hok' : S2.ok _ s e = true := hok
  obtain ⟨g1, g2, g3⟩ := S2.step_geometry _ hal s e hi hok'
  obtain ⟨_, _, hout, _⟩ := S2.ok_parts hok'
  obtain ⟨o1, o2, o3, _, _⟩ := S2.outOk_parts hout
  rw [o1, o2, o3]
  exact ⟨hi.2.2.2.1, g2, g3, g1⟩

/-- AC: every chunk handed out (`is_work = true`) starts at a multiple of 240 with an aligned segment size -/
theorem ac_aligned (c : Consts) (hc : c.WF) (sqrtx y threads : Nat) (print : Bool)
    (pre : List AC.Ev) (e : AC.Ev) (post : List AC.Ev) (hw : e.work = true)
    (hacc : (AC.sys (AC.mkConfig c sqrtx y threads print)).accepts (AC.init c sqrtx threads print) (pre ++ e :: post) = true) :
    240 ∣ e.olow ∧ 240 ∣ e.osize ∧ 240 ≤ e.osize ∧ 1 ≤ e.osegs := by
  have hwf := AC.mkConfig_wf c hc sqrtx y threads print
  have L := AC.law _ hwf
  refine Sys.all_events L (fun _ e => e.work = true → 240 ∣ e.olow ∧ 240 ∣ e.osize ∧ 240 ≤ e.osize ∧ 1 ≤ e.osegs) ?_
    (pre ++ e :: post) _ (AC.init_inv c hc sqrtx y threads print) hacc pre e post rfl hw
  intro s e hi hok hw
  have hok' : AC.ok _ s e = true := hok
  simp only [AC.ok, Bool.and_eq_true] at hok'
  have hout := hok'.1
  obtain ⟨hs, h2, h3, h4⟩ := hi
  by_cases hx : (AC.mkConfig c sqrtx y threads print).sqrtx ≤ s.low
  · simp only [AC.outOk, hx, if_true, Bool.and_eq_true, beq_iff_eq] at hout
    rw [hout.1.1.1] at hw; exact absurd hw (by simp)
  · simp only [AC.outOk, hx, if_false, Bool.and_eq_true, beq_iff_eq] at hout
    obtain ⟨_, t2, t3, t4⟩ := AC.tuned_facts _ hwf s e (AC.choose _ s e) (hs (by omega)) h2 h3
    rw [hout.1.1.2, hout.1.2, hout.2]
    refine ⟨?_, t3, t4, t2⟩
    rcases h4 with h | h
    · exact h
    · omega

/-! ### progress -/

/-- S2: EVERY request strictly increases `low_` (also after exhaustion) -/
theorem s2_progress (c : Consts) (hc : c.WF) (x limit threads : Nat) (print : Bool)
    (pre : List S2.Ev) (e : S2.Ev) (post : List S2.Ev)
    (hacc : (S2.sys (S2.mkConfig c limit threads print)).accepts (S2.init c x limit threads print) (pre ++ e :: post) = true) :
    ((S2.sys (S2.mkConfig c limit threads print)).final (S2.init c x limit threads print) pre).low <
      ((S2.sys (S2.mkConfig c limit threads print)).final (S2.init c x limit threads print) (pre ++ [e])).low := by
  have hal := S2.mkConfig_al c hc limit threads print
  have L := S2.law (S2.mkConfig c limit threads print) hal
  rw [Sys.final_append]
  refine Sys.all_events L (fun s e => s.low < (S2.next (S2.mkConfig c limit threads print) s e).low) ?_
    (pre ++ e :: post) _ (S2.init_inv c hc x limit threads print) hacc pre e post rfl
  intro s e hi hok
  have hok' : S2.ok _ s e = true := hok
  obtain ⟨g1, _, g3⟩ := S2.step_geometry _ hal s e hi hok'
  rw [S2.next_low]
  have : 0 < (S2.next (S2.mkConfig c limit threads print) s e).size * (S2.next (S2.mkConfig c limit threads print) s e).segs :=
    Nat.mul_pos (by omega) g1
  omega

/-- P2: every request made while work is left strictly increases `low_` -/
theorem p2_progress (c : Consts) (hc : c.WF) (x limit team : Nat) (print : Bool)
    (pre : List P2.Ev) (e : P2.Ev) (post : List P2.Ev)
    (hacc : (P2.sys ⟨limit, team, print⟩).accepts (P2.init c x limit team) (pre ++ e :: post) = true)
    (hw : ((P2.sys ⟨limit, team, print⟩).final (P2.init c x limit team) pre).low < limit) :
    ((P2.sys ⟨limit, team, print⟩).final (P2.init c x limit team) pre).low <
      ((P2.sys ⟨limit, team, print⟩).final (P2.init c x limit team) (pre ++ [e])).low :=
  Sys.progress_at (P2.law ⟨limit, team, print⟩) _ pre e post (P2.init_inv c hc _ x limit team) hacc hw

/-- AC: every request made while work is left strictly increases `low_` -/
theorem ac_progress (c : Consts) (hc : c.WF) (sqrtx y threads : Nat) (print : Bool)
    (pre : List AC.Ev) (e : AC.Ev) (post : List AC.Ev)
    (hacc : (AC.sys (AC.mkConfig c sqrtx y threads print)).accepts (AC.init c sqrtx threads print) (pre ++ e :: post) = true)
    (hw : ((AC.sys (AC.mkConfig c sqrtx y threads print)).final (AC.init c sqrtx threads print) pre).low < sqrtx) :
    ((AC.sys (AC.mkConfig c sqrtx y threads print)).final (AC.init c sqrtx threads print) pre).low <
      ((AC.sys (AC.mkConfig c sqrtx y threads print)).final (AC.init c sqrtx threads print) (pre ++ [e])).low :=
  Sys.progress_at (AC.law _ (AC.mkConfig_wf c hc sqrtx y threads print)) _ pre e post
    (AC.init_inv c hc sqrtx y threads print) hacc hw

/-! ### stops -/

/-- S2: after `low_ ≥ limit` every request is answered `false`; at most `⌈limit / 240⌉` requests are ever
    answered `true` (`240 * #chunks ≤ limit + 239`), so every worker loop terminates -/
theorem s2_stops (c : Consts) (hc : c.WF) (x limit threads : Nat) (print : Bool) (pre post : List S2.Ev)
    (hacc : (S2.sys (S2.mkConfig c limit threads print)).accepts (S2.init c x limit threads print) (pre ++ post) = true) :
    (limit ≤ ((S2.sys (S2.mkConfig c limit threads print)).final (S2.init c x limit threads print) pre).low →
      (S2.sys (S2.mkConfig c limit threads print)).chunks post = []) ∧
    240 * ((S2.sys (S2.mkConfig c limit threads print)).chunks (pre ++ post)).length ≤ limit + 239 := by
  have hal := S2.mkConfig_al c hc limit threads print
  have L := S2.law (S2.mkConfig c limit threads print) hal
  have hi := S2.init_inv c hc x limit threads print
  refine ⟨fun h => Sys.stops_after L _ pre post hi hacc h, ?_⟩
  obtain ⟨hch, _⟩ := s2_partition c hc x limit threads print (pre ++ post) hacc
  have hal2 : ∀ ch ∈ (S2.sys (S2.mkConfig c limit threads print)).chunks (pre ++ post), 240 ∣ ch.1 := by
    -- every chunk is the chunk of some event, whose start is aligned
    have gen : ∀ (es : List S2.Ev), (∀ e ∈ es, 240 ∣ e.olow) →
        ∀ ch ∈ (S2.sys (S2.mkConfig c limit threads print)).chunks es, 240 ∣ ch.1 := by
      intro es
      induction es with
      | nil => intro _ ch h; simp [Sys.chunks] at h
      | cons e es ih =>
        intro hall ch hmem
        have he := hall e (by simp)
        have hrest := ih (fun e' h' => hall e' (List.mem_cons_of_mem _ h'))
        simp only [Sys.chunks] at hmem
        cases hc : (S2.sys (S2.mkConfig c limit threads print)).chunk e with
        | none => rw [hc] at hmem; exact hrest ch hmem
        | some c0 =>
          rw [hc] at hmem
          rcases List.mem_cons.1 hmem with rfl | h
          · have : S2.chunkOf (S2.mkConfig c limit threads print) e = some ch := hc
            simp only [S2.chunkOf] at this
            split at this
            · simp only [Option.some.injEq] at this; rw [← this]; exact he
            · exact absurd this (by simp)
          · exact hrest ch h
    apply gen
    intro e he
    obtain ⟨a, b, hab⟩ := List.append_of_mem he
    exact (s2_aligned c hc x limit threads print a e b (hab ▸ hacc)).1
  have := Chain.length_aligned (m := 240) (by omega) hch hal2
  omega

/-- P2: after exhaustion every request is answered `false`; at most `limit - start` chunks -/
theorem p2_stops (c : Consts) (hc : c.WF) (x limit team : Nat) (print : Bool) (pre post : List P2.Ev)
    (hacc : (P2.sys ⟨limit, team, print⟩).accepts (P2.init c x limit team) (pre ++ post) = true) :
    (limit ≤ ((P2.sys ⟨limit, team, print⟩).final (P2.init c x limit team) pre).low →
      (P2.sys ⟨limit, team, print⟩).chunks post = []) ∧
    ((P2.sys ⟨limit, team, print⟩).chunks (pre ++ post)).length ≤ limit - min (ctSqrt x) limit := by
  have L := P2.law ⟨limit, team, print⟩
  have hi := P2.init_inv c hc ⟨limit, team, print⟩ x limit team
  refine ⟨fun h => Sys.stops_after L _ pre post hi hacc h, ?_⟩
  have h1 := Sys.chain L _ (pre ++ post) hi hacc
  have := Chain.length_le h1
  have hl : (P2.sys ⟨limit, team, print⟩).limit = limit := rfl
  have hs : (P2.sys ⟨limit, team, print⟩).pos (P2.init c x limit team) = min (ctSqrt x) limit := rfl
  rw [hl, hs] at this
  omega

/-- AC: after exhaustion every request is answered `false`; at most `sqrtx` chunks -/
theorem ac_stops (c : Consts) (hc : c.WF) (sqrtx y threads : Nat) (print : Bool) (pre post : List AC.Ev)
    (hacc : (AC.sys (AC.mkConfig c sqrtx y threads print)).accepts (AC.init c sqrtx threads print) (pre ++ post) = true) :
    (sqrtx ≤ ((AC.sys (AC.mkConfig c sqrtx y threads print)).final (AC.init c sqrtx threads print) pre).low →
      (AC.sys (AC.mkConfig c sqrtx y threads print)).chunks post = []) ∧
    ((AC.sys (AC.mkConfig c sqrtx y threads print)).chunks (pre ++ post)).length ≤ sqrtx := by
  have L := AC.law _ (AC.mkConfig_wf c hc sqrtx y threads print)
  have hi := AC.init_inv c hc sqrtx y threads print
  refine ⟨fun h => Sys.stops_after L _ pre post hi hacc h, ?_⟩
  obtain ⟨h1, _⟩ := ac_partition c hc sqrtx y threads print (pre ++ post) hacc
  have := Chain.length_le h1
  omega

/-! ### sum_once -/

/-- S2: `sum_` is the sum of the reported values, each exactly once (no assumption on the workers) -/
theorem s2_sum_exact (c : Consts) (x limit threads : Nat) (print : Bool) (es : List S2.Ev) :
    ((S2.sys (S2.mkConfig c limit threads print)).final (S2.init c x limit threads print) es).sum = S2.sumT es := by
  rw [S2.sum_exact]
  have : (S2.init c x limit threads print).sum = 0 := by simp only [S2.init]; split <;> rfl
  omega

/-- S2: with workers that report `f` of the chunk they were handed, `sum_ + Σ pending` equals the sum of `f`
    over all chunks handed out so far — every contribution exactly once -/
theorem s2_sum_once (f : Chunk → Int) (c : Consts) (x limit threads : Nat) (print : Bool) (es : List S2.Ev)
    (hacc : (S2.sys (S2.mkConfig c limit threads print)).accepts (S2.init c x limit threads print) es = true)
    (hh : S2.Honest f (S2.mkConfig c limit threads print) (S2.init c x limit threads print) es) :
    ((S2.sys (S2.mkConfig c limit threads print)).final (S2.init c x limit threads print) es).sum +
      S2.pendHands f (S2.mkConfig c limit threads print)
        ((S2.sys (S2.mkConfig c limit threads print)).final (S2.init c x limit threads print) es).hands =
    sumF f ((S2.sys (S2.mkConfig c limit threads print)).chunks es) := by
  have := S2.sum_once f _ es _ hacc hh
  have h1 : (S2.init c x limit threads print).sum = 0 := by simp only [S2.init]; split <;> rfl
  have h2 : (S2.init c x limit threads print).hands = [] := by simp only [S2.init]; split <;> rfl
  rw [h1, h2] at this
  simpa [S2.pendHands] using this

/-! ### no_overflow (partial) -/

/-- S2, ONE step: if `low_ ≤ 2^62`, `threads ≤ 64`, the old and new `segment_size_` are `≤ 2^32` and the new
    `segments_` is `≤ 2^22`, every signed 64-bit intermediate of `get_work` stays below `2^63` and `sum_`
    below `2^127` (given the 2^126 bounds on `sum_` and the reported value).
    PARTIAL: missing for the full statement is the invariant that bounds `segment_size_ * segments_` over whole
    histories (for ranges ≤ 2^54 with arbitrary durations, for ranges ≤ 2^62 under physically consistent
    durations); the acceptor checks `S2.noOvf` at every step of every recorded history instead. -/
theorem s2_no_overflow_partial (cfg : S2.Config) (s : S2.State) (e : S2.Ev)
    (hlow : s.low ≤ 2 ^ 62) (hthr : cfg.threads ≤ 64) (hsz : s.size ≤ 2 ^ 32)
    (hsz' : (S2.next cfg s e).size ≤ 2 ^ 32) (hsg : e.osegs ≤ 2 ^ 22) (hsg' : (S2.next cfg s e).segs ≤ 2 ^ 22)
    (hsum : s.sum.natAbs ≤ 2 ^ 126 - 1) (htsum : e.tsum.natAbs ≤ 2 ^ 126) :
    S2.noOvf cfg s e = true := by
  have hp := S2.peak_le cfg s e
  have h1 : (S2.next cfg s e).size * (S2.next cfg s e).segs ≤ 2 ^ 32 * 2 ^ 22 := Nat.mul_le_mul hsz' hsg'
  have h2 : (s.size + s.size) * e.osegs * cfg.threads ≤ (2 ^ 32 + 2 ^ 32) * 2 ^ 22 * 64 :=
    S2.mul3_le (by omega) hsg hthr
  simp only [S2.noOvf, Bool.and_eq_true]
  refine ⟨decide_eq_true ?_, decide_eq_true ?_⟩
  · have e1 : (2 : Nat) ^ 32 * 2 ^ 22 = 18014398509481984 := by decide
    have e2 : ((2 : Nat) ^ 32 + 2 ^ 32) * 2 ^ 22 * 64 = 2305843009213693952 := by decide
    have e3 : (2 : Nat) ^ 62 = 4611686018427387904 := by decide
    have e4 : (2 : Nat) ^ 32 = 4294967296 := by decide
    have e5 : (2 : Nat) ^ 22 = 4194304 := by decide
    rw [e1] at h1; rw [e2] at h2; rw [e3] at hlow; rw [e4] at hsz; rw [e5] at hsg
    simp only [two63]
    omega
  · have e6 : (2 : Nat) ^ 126 = 85070591730234615865843651857942052864 := by decide
    rw [e6] at hsum htsum
    simp only [two127]
    omega

/-- P2, ONE step: with `limit ≤ 2^62` and `thread_dist_`, `min_thread_dist_` and the float-derived `low23`
    all `< 2^62`, `low_ += thread_dist_` stays below `2^63` (`low23 ≤ 2^42` for `low ≤ 2^63` in the C++).
    PARTIAL as above (the bound on `thread_dist_` over histories is not proved). -/
theorem p2_no_overflow_partial (cfg : P2.Config) (s : P2.State) (low23 : Nat)
    (h1 : s.minDist ≤ 2 ^ 62 - 1) (h2 : s.dist ≤ 2 ^ 62 - 1) (h3 : low23 ≤ 2 ^ 62 - 1) (h4 : cfg.limit ≤ 2 ^ 62) :
    P2.peak cfg s low23 < 2 ^ 63 := by
  have := P2.next_dist_le cfg s low23 (2 ^ 62 - 1) h1 h2 h3
  have e3 : (2 : Nat) ^ 62 = 4611686018427387904 := by decide
  have e4 : (2 : Nat) ^ 63 = 9223372036854775808 := by decide
  rw [e3] at this h3 h4; rw [e4]
  simp only [P2.peak]
  omega

/-! ### non-vacuity (tests, labelled as such): concrete accepted histories -/

/-- S2, limit 3000, 3 threads: two requests, the second by a new worker -/
example : (S2.sys (S2.mkConfig genConsts 3000 3 false)).accepts (S2.init genConsts 1000000 3000 3 false)
    [⟨0, 0, 0, 0, 0, 0, 0, true, 0, 1, 720, 0⟩, ⟨1, 0, 0, 0, 0, 0, 0, true, 720, 1, 720, 0⟩] = true := by decide

/-- a history with a gap (second chunk starts at 960 instead of 720) is rejected -/
example : (S2.sys (S2.mkConfig genConsts 3000 3 false)).accepts (S2.init genConsts 1000000 3000 3 false)
    [⟨0, 0, 0, 0, 0, 0, 0, true, 0, 1, 720, 0⟩, ⟨1, 0, 0, 0, 0, 0, 0, true, 960, 1, 720, 0⟩] = false := by decide

example : genConsts.WF := consts_wf

end Pc.C09

#print axioms Pc.C09.consts_wf
#print axioms Pc.C09.align_segment_size_spec
#print axioms Pc.C09.l1_partition
#print axioms Pc.C09.l1_sum_once
#print axioms Pc.C09.s2_refines
#print axioms Pc.C09.p2_refines
#print axioms Pc.C09.ac_refines
#print axioms Pc.C09.s2_partition
#print axioms Pc.C09.p2_partition
#print axioms Pc.C09.ac_partition
#print axioms Pc.C09.s2_false_means_exhausted
#print axioms Pc.C09.p2_false_means_exhausted
#print axioms Pc.C09.ac_false_means_exhausted
#print axioms Pc.C09.s2_aligned
#print axioms Pc.C09.ac_aligned
#print axioms Pc.C09.s2_progress
#print axioms Pc.C09.p2_progress
#print axioms Pc.C09.ac_progress
#print axioms Pc.C09.s2_stops
#print axioms Pc.C09.p2_stops
#print axioms Pc.C09.ac_stops
#print axioms Pc.C09.s2_sum_exact
#print axioms Pc.C09.s2_sum_once
#print axioms Pc.C09.s2_no_overflow_partial
#print axioms Pc.C09.p2_no_overflow_partial
