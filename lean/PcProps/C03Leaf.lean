/-
C03 (wp-s1phi0) — S1 and Φ0 do not depend on the number of threads or on how the OpenMP runtime distributes the
iterations of `#pragma omp parallel for schedule(static, 1) reduction(+: s1)` (S1.cpp:78-83, Phi0.cpp:85-90).
Model: `ompReduce` of PcModel/LeafLoops.lean — every thread accumulates the iterations it was given into a private
copy that starts at 0, the copies are added to the original variable; `IsSchedule lo hi sched` says that `sched` hands
out every iteration `lo … hi` exactly once (any team size, any assignment, any order).  The statements quantify over ALL
such `sched`.
-/
import PcProofs.LeafLoops

namespace Pc.C03Leaf
open Pc.Spec

/-- the value of the region is `init + Σ_b v b` for every distribution, provided each iteration adds its `v b` to the
    private copy it runs on -/
theorem reduction_any_distribution {body : ℕ → ℤ → LM ℤ} {v : ℕ → ℤ} {c a : ℕ} {sched : List (List ℕ)}
    (hs : IsSchedule (c + 1) a sched) (init : ℤ) (h : ∀ b, c < b → b ≤ a → ∀ s, body b s = .ok (s + v b)) :
    ompReduce init body sched = .ok (init + ∑ b ∈ Finset.Ioc c a, v b) := ompReduce_perm hs init h

/-- S1: every distribution of `b = c + 1 … π(y)` gives `S1 x y c` -/
theorem s1_any_distribution {t : NT} (hv : t.Valid) {w : ITy} {x y c : ℕ} (hy1 : 1 ≤ y) (hy : y ≤ t.bound) (hc : c ≤ 8)
    (hw : y * y ≤ w.maxVal) {sched : List (List ℕ)} (hs : IsSchedule (c + 1) (Nat.primeCounting y) sched) :
    s1OpenMP t w x y c sched = .ok (S1 x y c) := s1OpenMP_eq hv hy1 hy hc hw hs

/-- Φ0: every distribution of `b = k + 1 … π(y)` gives `Φ0 x y z k` -/
theorem phi0_any_distribution {t : NT} (hv : t.Valid) {w : ITy} {x y z k : ℕ} (hy1 : 1 ≤ y) (hy : y ≤ t.bound)
    (hk : k ≤ 8) (hyz : y ≤ z) (hw : z * y ≤ w.maxVal) {sched : List (List ℕ)}
    (hs : IsSchedule (k + 1) (Nat.primeCounting y) sched) :
    phi0OpenMP t w x y z k sched = .ok (Phi0 x y z k) := phi0OpenMP_eq hv hy1 hy hk hyz hw hs

/-- the real distribution — `schedule(static, 1)` with `ideal_num_threads(y, threads, 1e6)` threads — is one of them, for
    every requested `threads` -/
theorem real_schedule_admissible (lo hi y : ℕ) (threads : ℤ) : IsSchedule lo hi (leafSched lo hi y threads) :=
  leafSched_isSchedule lo hi y threads

/-- hence the requested number of threads is irrelevant -/
theorem s1_threads_irrelevant {t : NT} (hv : t.Valid) {w : ITy} {x y c : ℕ} (hy1 : 1 ≤ y) (hy : y ≤ t.bound) (hc : c ≤ 8)
    (hw : y * y ≤ w.maxVal) (th th' : ℤ) :
    s1OpenMP t w x y c (leafSched (c + 1) (Nat.primeCounting y) y th)
      = s1OpenMP t w x y c (leafSched (c + 1) (Nat.primeCounting y) y th') := by
  rw [s1OpenMP_eq hv hy1 hy hc hw (leafSched_isSchedule _ _ _ _), s1OpenMP_eq hv hy1 hy hc hw (leafSched_isSchedule _ _ _ _)]

example := s1_threads_irrelevant (NT.build_valid 100) (w := .i64) (x := 1000) (y := 12) (c := 2) (by norm_num)
  (by show 12 ≤ 100; norm_num) (by norm_num) (by decide) 1 16
example := phi0_any_distribution (NT.build_valid 100) (w := .i64) (x := 100000) (y := 60) (z := 100) (k := 2)
  (by norm_num) (by show 60 ≤ 100; norm_num) (by norm_num) (by norm_num) (by decide)
  (real_schedule_admissible 3 (Nat.primeCounting 60) 60 5)

end Pc.C03Leaf

#print axioms Pc.C03Leaf.reduction_any_distribution
#print axioms Pc.C03Leaf.s1_any_distribution
#print axioms Pc.C03Leaf.phi0_any_distribution
#print axioms Pc.C03Leaf.real_schedule_admissible
#print axioms Pc.C03Leaf.s1_threads_irrelevant
