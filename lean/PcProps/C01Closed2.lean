/-
C01 / C02 (WP close2, item 2): THE GRAND COROLLARIES of PcProps/C01Closed.lean with the two "PhiCache contents" hypotheses REMOVED.
`W : Pc.Close.World2` = WP close's world (every table / iterator / sieve object the model of the real constructor, `W.toWorld.tablesS c f wide`) plus
`est`, `works`; `phi := W.phiCpp` is phi.cpp's `phi_OpenMP` with one fresh REAL bit-level `PhiCache` object per thread (`phiCpp`,
PcModel/PhiCache.lean) instead of the L1 model over an abstract cache.

REMAINING HYPOTHESES (each explicit in the statements):
 (F) FLOATS      `h.float` (`FloatOk` of the sieving core for the windows below `W.bnd`; a THEOREM for `W.bnd ≤ 2^50`: `exWorld3_ok`);
                 `GourdonEnv` / `DrEnv` inside `hex`.
 (O) OPENMP      `hex` (schedules / valid runs / AC chain / recorded LoadBalancerS2 history), `hrec` (`NestedS2`: each nested `pi_noprint(n)` WAS computed
                 by SOME execution of the dispatcher over the same world), `PhiRunOK2.works` (every loop index of `phi_OpenMP` handed out exactly once).
 (L) LITERATURE  `PhiRunOK2.lit`: `π(n) ≤ pix_upper(n)` for the double formula above 30719 — or merely `a < pix_upper(n)`.
 (S) MODEL SIZE  `h.size`, `hB`, reach fields of `hex`; `16 ≤ kib ≤ 8192`; iterator stop hints are `uint64_t` values.
 GONE vs. C01Closed:  `PhiRunOK.cache` (no such field in `PhiRunOK2`: `init_cache` is executed by the model, `phiCpp_correct`);
                 `h.phiVec` is a THEOREM when `W.phiNeg = phiNegIdeal`, and that choice is what the bit-level `phi_vector` computes
                 (`Pc.C07Closed2.world_phi_vector_is_cpp`, `world_ok_of_ideal`; instance: `exWorld3`).
 KEPT as is      `hsmall : x < 2 ∨ 2401 ≤ x` for Gourdon (removed by WP close2 item 4; the Gourdon leg enters only through
                 `piGourdon_total_to` composed with `nested_calls_are_pi2`, so the stronger leg can be swapped in).
Only property theorems, non-vacuity examples and the axiom audit live here.
-/
import PcProofs.Close2PhiEx

namespace Pc.C01Closed2
open Pc.Top Pc.Close Nat PcGen.ApiConst
open scoped Nat.Prime

/-- **the nested calls return π**: any `pi` that is consistent with being computed by the dispatcher over the world (with the bit-level phi inside)
    is π at every int64 argument below `x` -/
theorem nested_calls_are_pi2 (W : World2) {B : ℕ} (h : W.toWorld.OK B) (hB : B < 2 ^ 32) (c : Sieve.Cfg) (f : Sieve.StopFn) (pi : ℕ → ℕ)
    (x : ℤ) (hphi : ∀ n : ℕ, (n : ℤ) < x → maxCached < n → n ≤ meisselMax → W.PhiRunOK2 n)
    (hrec : W.NestedS2 c f B pi x) :
    ∀ n : ℕ, (n : ℤ) < x → n < 2 ^ 63 → pi n = π n :=
  W.nested_s2 h hB c f pi x hphi hrec

/-- **`pi_api_eq_pi2`** — `pi(int128_t x)` (api.cpp) for EVERY int128 `x`, phi by the bit-level model.
    Hypotheses: (F) `h.float`, `GourdonEnv` in `hex`; (O) `hex`, `hrec`, `PhiRunOK2.works`; (L) `PhiRunOK2.lit`; (S) `h.size`, `hB`, reach fields of `hex`.
    Result: π(x), or `badRun` for a recorded D history that is not a run. -/
theorem pi_api_eq_pi2 (W : World2) {B : ℕ} (h : W.toWorld.OK B) (hB : B < 2 ^ 32) (c : Sieve.Cfg) (f : Sieve.StopFn) (pi : ℕ → ℕ) (x : ℤ)
    (hx : x < 2 ^ 127) (threads : ℤ) (isPrint : Bool) (r : ApiRun)
    (hphi : ∀ n : ℕ, (n : ℤ) ≤ x → maxCached < n → n ≤ meisselMax → W.PhiRunOK2 n)
    (hrec : W.NestedS2 c f B pi x)
    (hex : (maxCached : ℤ) < x →
      ApiExecC (W.toWorld.tablesS c f (decide ((PiApi.int64Max : ℤ) < x))) B (decide ((PiApi.int64Max : ℤ) < x)) x.toNat r) :
    piApi128 (W.toWorld.tablesS c f (decide ((PiApi.int64Max : ℤ) < x))) W.phiCpp pi x threads isPrint r = .ok (π x.toNat : ℤ) ∨
      piApi128 (W.toWorld.tablesS c f (decide ((PiApi.int64Max : ℤ) < x))) W.phiCpp pi x threads isPrint r =
        .error (.hard .badRun) :=
  W.pi_api_s2 h hB c f pi x hx threads isPrint r hphi hrec hex

/-- **`pi_gourdon_eq_pi2`** — `pi_gourdon_64(x)` (`wide = false`) / `pi_gourdon_128(x)` (`wide = true`), `x < 2` or `x ≥ 2401` -/
theorem pi_gourdon_eq_pi2 (W : World2) {B : ℕ} (h : W.toWorld.OK B) (hB : B < 2 ^ 32) (c : Sieve.Cfg) (f : Sieve.StopFn) (pi : ℕ → ℕ)
    (wide : Bool) (x : ℤ) (hx : InType wide x) (hsmall : x < 2 ∨ 2401 ≤ x) (threads : ℤ) (isPrint : Bool) (r : GRun)
    (hphi : ∀ n : ℕ, (n : ℤ) < x → maxCached < n → n ≤ meisselMax → W.PhiRunOK2 n)
    (hrec : W.NestedS2 c f B pi x)
    (hex : 2 ≤ x → GExecC (W.toWorld.tablesS c f wide) B wide x.toNat r) :
    piGourdon (W.toWorld.tablesS c f wide) pi wide x threads isPrint r = .ok (π x.toNat : ℤ) ∨
      piGourdon (W.toWorld.tablesS c f wide) pi wide x threads isPrint r = .error (.hard .badRun) :=
  W.pi_gourdon_s2 h hB c f pi wide x hx hsmall threads isPrint r hphi hrec hex

/-- **`pi_gourdon_64_eq_pi2`** — `pi_gourdon_64(x)` for every int64 `x` with `x < 2` or `x ≥ 2401` -/
theorem pi_gourdon_64_eq_pi2 (W : World2) {B : ℕ} (h : W.toWorld.OK B) (hB : B < 2 ^ 32) (c : Sieve.Cfg) (f : Sieve.StopFn) (pi : ℕ → ℕ)
    (x : ℤ) (hx : x < 2 ^ 63) (hsmall : x < 2 ∨ 2401 ≤ x) (threads : ℤ) (isPrint : Bool) (r : GRun)
    (hphi : ∀ n : ℕ, (n : ℤ) < x → maxCached < n → n ≤ meisselMax → W.PhiRunOK2 n)
    (hrec : W.NestedS2 c f B pi x)
    (hex : 2 ≤ x → GExecC (W.toWorld.tablesS c f false) B false x.toNat r) :
    piGourdon (W.toWorld.tablesS c f false) pi false x threads isPrint r = .ok (π x.toNat : ℤ) ∨
      piGourdon (W.toWorld.tablesS c f false) pi false x threads isPrint r = .error (.hard .badRun) :=
  W.pi_gourdon_s2 h hB c f pi false x (by unfold InType; simpa using hx) hsmall threads isPrint r hphi hrec hex

/-- **`pi_deleglise_rivat_64_eq_pi2`** — `pi_deleglise_rivat_64(x)` for EVERY int64 `x` -/
theorem pi_deleglise_rivat_64_eq_pi2 (W : World2) {B : ℕ} (h : W.toWorld.OK B) (hB : B < 2 ^ 32) (c : Sieve.Cfg) (f : Sieve.StopFn)
    (pi : ℕ → ℕ) (x : ℤ) (hx : x < 2 ^ 63) (threads : ℤ) (isPrint : Bool) (r : DrRun)
    (hphi : ∀ n : ℕ, (n : ℤ) < x → maxCached < n → n ≤ meisselMax → W.PhiRunOK2 n)
    (hrec : W.NestedS2 c f B pi x)
    (hex : 2 ≤ x → DrExec (W.toWorld.tablesS c f false) B false x.toNat r) :
    piDeleglieRivat (W.toWorld.tablesS c f false) pi false x threads isPrint r = .ok (π x.toNat : ℤ) ∨
      piDeleglieRivat (W.toWorld.tablesS c f false) pi false x threads isPrint r = .error (.hard .badRun) :=
  W.pi_deleglise_rivat_64_s2 h hB c f pi x hx threads isPrint r hphi hrec hex

/-- `pi_api_eq_pi2` with the REFERENCE sieve (`W.tables`) and NO bound on `B` (the 128-bit route with `y ≥ 2^32`) -/
theorem pi_api_eq_pi_refsieve2 (W : World2) {B : ℕ} (h : W.toWorld.OK B) (pi : ℕ → ℕ) (x : ℤ) (hx : x < 2 ^ 127) (threads : ℤ)
    (isPrint : Bool) (r : ApiRun)
    (hphi : ∀ n : ℕ, (n : ℤ) ≤ x → maxCached < n → n ≤ meisselMax → W.PhiRunOK2 n)
    (hrec : W.Nested2 B pi x)
    (hex : (maxCached : ℤ) < x →
      ApiExecC (W.toWorld.tables (decide ((PiApi.int64Max : ℤ) < x))) B (decide ((PiApi.int64Max : ℤ) < x)) x.toNat r) :
    piApi128 (W.toWorld.tables (decide ((PiApi.int64Max : ℤ) < x))) W.phiCpp pi x threads isPrint r = .ok (π x.toNat : ℤ) ∨
      piApi128 (W.toWorld.tables (decide ((PiApi.int64Max : ℤ) < x))) W.phiCpp pi x threads isPrint r =
        .error (.hard .badRun) :=
  W.pi_api_w2 h pi x hx threads isPrint r hphi hrec hex

/-- the generic form (arbitrary tables `T` with the iterator contract up to `N` only, arbitrary `phi`): `PhiContract` is asked only where the
    dispatcher calls `phi` (`30719 < n ≤ 10^8`, `PhiContractIn`) -/
theorem pi_api_eq_pi_generic2 {σ : Type} (T : Tables σ) {B N : ℕ} (hT : TablesOK (T.withIt (P2L.patch T.it N)) B)
    (hit : P2L.IterSpecTo T.it N) (hN : 2 ^ 64 - 2 ^ 32 ≤ N) (phi : ℕ → ℕ → ℕ) (pi : ℕ → ℕ) (x : ℤ)
    (hx : x < 2 ^ 127) (threads : ℤ) (isPrint : Bool) (r : ApiRun)
    (hphi : ∀ n : ℕ, (n : ℤ) ≤ x → n < 2 ^ 63 → PhiContractIn phi n)
    (hrec : NestedByDispatcher T B phi pi x)
    (hex : (maxCached : ℤ) < x → ApiExecC T B (decide ((PiApi.int64Max : ℤ) < x)) x.toNat r) :
    piApi128 T phi pi x threads isPrint r = .ok (π x.toNat : ℤ) ∨
      piApi128 T phi pi x threads isPrint r = .error (.hard .badRun) :=
  piApi128_to T hT hit hN phi pi x hx threads isPrint r hphi hrec hex

/-! non-vacuity (tests, labelled as such): ONE concrete world (`exWorld3`: sieving core below 2^50 — no float assumption; `phiNeg = phiNegIdeal` — no
    `phiVec` assumption; `PhiCache` constructor estimate 3000 — caches ENABLED; two threads per `phi_OpenMP`) and ONE concrete execution meet every
    hypothesis at `x = 10^5` -/

example : exWorld3.toWorld.OK 100 := exWorld3_ok
example (n : ℕ) : exWorld3.PhiRunOK2 n := exWorld3_phiRunOK2 n
/-- (O) the nested-call hypothesis at `x = 10^5` with `pi := π` -/
example (c : Sieve.Cfg) (f : Sieve.StopFn) : exWorld3.NestedS2 c f 100 Nat.primeCounting 100000 := exWorld3_nestedS2 c f
example (c : Sieve.Cfg) (f : Sieve.StopFn) :
    GExecC (exWorld3.toWorld.tablesS c f false) 100 false 100000 (exGRun (exWorld3.toWorld.tablesS c f false).t) := exGExecC_world3S c f
example (c : Sieve.Cfg) (f : Sieve.StopFn) : DrExec (exWorld3.toWorld.tablesS c f false) 100 false 100000 exDrRun := exDrExec_world3S c f
/-- the theorems applied to these instances: NO hypothesis is left open -/
example (c : Sieve.Cfg) (f : Sieve.StopFn) :=
  pi_gourdon_64_eq_pi2 exWorld3 exWorld3_ok (by norm_num) c f Nat.primeCounting 100000 (by norm_num) (Or.inr (by norm_num)) 1 false
    (exGRun (exWorld3.toWorld.tablesS c f false).t) (fun n _ _ _ => exWorld3_phiRunOK2 n) (exWorld3_nestedS2 c f)
    (fun _ => exGExecC_world3S c f)
example (c : Sieve.Cfg) (f : Sieve.StopFn) :=
  pi_deleglise_rivat_64_eq_pi2 exWorld3 exWorld3_ok (by norm_num) c f Nat.primeCounting 100000 (by norm_num) 1 false
    exDrRun (fun n _ _ _ => exWorld3_phiRunOK2 n) (exWorld3_nestedS2 c f) (fun _ => exDrExec_world3S c f)
/-- `pi(int128_t)` at a Legendre-route argument: the value is π(50000) (no `badRun` possible below 10^8) -/
example (c : Sieve.Cfg) (f : Sieve.StopFn) :
    piApi128 (exWorld3.toWorld.tablesS c f false) exWorld3.phiCpp Nat.primeCounting 50000 1 false exApiRun = .ok (π 50000 : ℤ) := by
  have hd : decide ((PiApi.int64Max : ℤ) < 50000) = false := by decide
  have h := pi_api_eq_pi2 exWorld3 exWorld3_ok (by norm_num) c f Nat.primeCounting 50000 (by norm_num) 1 false exApiRun
    (fun n _ _ _ => exWorld3_phiRunOK2 n)
    (fun n hn h63 => exWorld3_nestedS2 c f n (lt_trans hn (by norm_num)) h63)
    (fun _ => by rw [hd]; exact ⟨fun h _ => absurd h (by decide), fun h => absurd h (by decide)⟩)
  rw [hd] at h
  rcases h with h | h
  · exact h
  · exfalso
    unfold piApi128 piApi64 at h
    have c1 : (maxCached : ℤ) = 30719 := rfl
    have c2 : (legendreMax : ℤ) = 100000 := rfl
    have c0 : (PiApi.int64Max : ℤ) = 2 ^ 63 - 1 := by unfold PiApi.int64Max; norm_num
    split_ifs at h
    all_goals omega
/-- the same with WP close's `exWorld` tables (`phiNeg` = the driver's executable `hlPhiOf`) -/
example (c : Sieve.Cfg) (f : Sieve.StopFn) : exWorld2.NestedS2 c f 100 Nat.primeCounting 100000 := exWorld2_nestedS2 c f

end Pc.C01Closed2

#print axioms Pc.C01Closed2.nested_calls_are_pi2
#print axioms Pc.C01Closed2.pi_api_eq_pi2
#print axioms Pc.C01Closed2.pi_gourdon_eq_pi2
#print axioms Pc.C01Closed2.pi_gourdon_64_eq_pi2
#print axioms Pc.C01Closed2.pi_deleglise_rivat_64_eq_pi2
#print axioms Pc.C01Closed2.pi_api_eq_pi_refsieve2
#print axioms Pc.C01Closed2.pi_api_eq_pi_generic2
