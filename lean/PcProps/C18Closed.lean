/-
C18, closed (WP close, item 2a) — the iterator theorems of PcProps/C18.lean for the iterator over the REAL sieving-core
model: `Pc.It.coreEnv fl batch l1raw kib` (PcProofs/CloseIter.lean) has `primes a b = Pc.PsCore.generatePrimes (preTabsDecoded ())
l1raw a b kib` (the L2 model of PrimeGenerator / Erat / EratSmall / EratMedium / EratBig / PreSieve, WP core + core2) for every
`b < 2^64`. The sieving-core hypothesis `GenSpec` is gone; what is left is the ONE float assumption of WP core2
(`FloatOk` = `maxEratMedium_ < 2^25`, a theorem for windows below 2^50) and the ranges of the sieve size (16 … 8192 KiB).
Floats (window distances), stop hints, batch sizes: still arbitrary, quantified.
Only property theorems, non-vacuity examples and the axiom audit live here.
-/
import PcProofs.CloseIter
import PcProps.C18

namespace Pc.C18Closed
open Pc.It
open Pc.PsCore (generatePrimes preTabsDecoded FloatOk)

/-- **`GenSpec` is a theorem about the real core**: what `PrimeGenerator(a, b)` delivers (all batches concatenated) is the strictly
    increasing list of exactly the primes of `[a, b]`, and a batch is a prefix of what is left -/
theorem core_meets_GenSpec (fl : Floats) (batch : ℕ → ℕ) (l1raw kib : ℕ) (hfl : CoreFloatOk l1raw kib) (hk : 16 ≤ kib)
    (hk2 : kib ≤ 8192) : GenSpec (coreEnv fl batch l1raw kib) := coreEnv_genSpec fl batch l1raw kib hfl hk hk2

/-- the environment really is the sieving-core model on the whole domain of the C++ function (`stop` is a `uint64_t`) -/
theorem coreEnv_is_generatePrimes (fl : Floats) (batch : ℕ → ℕ) (l1raw kib a b : ℕ) (hb : b < 2 ^ 64) :
    (coreEnv fl batch l1raw kib).primes a b = generatePrimes (preTabsDecoded ()) l1raw a b kib ∧
    ∀ k, (coreEnv fl batch l1raw kib).firstK a b k = (generatePrimes (preTabsDecoded ()) l1raw a b kib).take k :=
  ⟨coreEnv_primes_lt fl batch l1raw kib a b hb,
   fun k => by rw [coreEnv_firstK, coreEnv_primes_lt fl batch l1raw kib a b hb]⟩

/-- `generate_next_primes()` over the real core: terminates, non-empty strictly increasing buffer holding exactly the primes
    of `[n, primes_[size_-1]]`, `i_ = 0`, ready to continue at `primes_[size_-1] + 1` (C18.generate_next_primes_correct) -/
theorem generate_next_primes_correct_core (fl : Floats) (batch : ℕ → ℕ) (l1raw kib : ℕ) (hfl : CoreFloatOk l1raw kib)
    (hk : 16 ≤ kib) (hk2 : kib ≤ 8192) (s : St) (n : ℕ) (hr : FwdReady s n) (hn : n ≤ umax)
    (hh : s.hint ≤ umax) (hst : s.start ≤ umax) (hp : ∃ p, p.Prime ∧ n ≤ p ∧ p ≤ umax) :
    ∃ s', genNext (coreEnv fl batch l1raw kib) bigFuel s = .ok s' ∧ FwdDone s s' n ∧
      ∀ L, s'.buf.getLast? = some L → FwdReady s' (L + 1) :=
  C18.generate_next_primes_correct _ (coreEnv_genSpec fl batch l1raw kib hfl hk hk2) s n hr hn hh hst hp

/-- … and it throws `primesieve_error` exactly when no prime of `[n, 2^64-1]` is left -/
theorem generate_next_primes_past_the_end_core (fl : Floats) (batch : ℕ → ℕ) (l1raw kib : ℕ) (hfl : CoreFloatOk l1raw kib)
    (hk : 16 ≤ kib) (hk2 : kib ≤ 8192) (s : St) (n : ℕ) (hr : FwdReady s n) (hn : n ≤ umax)
    (hh : s.hint ≤ umax) (hst : s.start ≤ umax) (hp : ∀ p, p.Prime → n ≤ p → ¬ p ≤ umax) :
    genNext (coreEnv fl batch l1raw kib) bigFuel s = .error .ps :=
  C18.generate_next_primes_past_the_end _ (coreEnv_genSpec fl batch l1raw kib hfl hk hk2) s n hr hn hh hst hp

/-- `buffer_contract`, first call, over the real core -/
theorem buffer_contract_first_core (fl : Floats) (batch : ℕ → ℕ) (l1raw kib : ℕ) (hfl : CoreFloatOk l1raw kib)
    (hk : 16 ≤ kib) (hk2 : kib ≤ 8192) (start hint : ℕ) (hs : start ≤ umax) (hh : hint ≤ umax)
    (hp : ∃ p, p.Prime ∧ start ≤ p ∧ p ≤ umax) :
    ∃ s', genNext (coreEnv fl batch l1raw kib) bigFuel (init start hint) = .ok s' ∧ s'.buf ≠ [] ∧ s'.i = 0 ∧
      ∀ L, s'.buf.getLast? = some L → PrimesIn s'.buf start L ∧ FwdReady s' (L + 1) :=
  C18.buffer_contract_first _ (coreEnv_genSpec fl batch l1raw kib hfl hk hk2) start hint hs hh hp

/-- `generate_prev_primes()` over the real core (C18.generate_prev_primes_correct) -/
theorem generate_prev_primes_correct_core (fl : Floats) (batch : ℕ → ℕ) (l1raw kib : ℕ) (hfl : CoreFloatOk l1raw kib)
    (hk : 16 ≤ kib) (hk2 : kib ≤ 8192) (s : St) (hgen : s.mem.gen = none) (hs : s.start ≤ umax) :
    ∃ s', genPrev (coreEnv fl batch l1raw kib) bigFuel s = .ok s' ∧ BwdDone s s' (prevTop s) :=
  C18.generate_prev_primes_correct _ (coreEnv_genSpec fl batch l1raw kib hfl hk hk2) s hgen hs

/-- direction change forward → backward over the real core -/
theorem direction_change_fwd_bwd_core (fl : Floats) (batch : ℕ → ℕ) (l1raw kib : ℕ) (hfl : CoreFloatOk l1raw kib)
    (hk : 16 ≤ kib) (hk2 : kib ≤ 8192) (s : St) (g : Gen) (p : ℕ) (rest : List ℕ)
    (hgen : s.mem.gen = some g) (hbuf : s.buf = p :: rest) (hincl : s.mem.incl = false) (hp : p ≤ umax) :
    ∃ s', genPrev (coreEnv fl batch l1raw kib) bigFuel s = .ok s' ∧ s'.hint = s.hint ∧
      BwdDone { s with start := p, mem := { s.mem with gen := none } } s' (p - 1) :=
  C18.direction_change_fwd_bwd _ (coreEnv_genSpec fl batch l1raw kib hfl hk hk2) s g p rest hgen hbuf hincl hp

/-- first `prev_prime()` of a fresh / repositioned iterator over the real core: the largest prime `<= start`, 0 when none
    (the k-th call: `C18Closed.prev_history_core` of PcProps/C18Closed2.lean) -/
theorem prev_first_core (fl : Floats) (batch : ℕ → ℕ) (l1raw kib : ℕ) (hfl : CoreFloatOk l1raw kib)
    (hk : 16 ≤ kib) (hk2 : kib ≤ 8192) (start hint : ℕ) (hs : start ≤ umax) :
    ∃ s', prevPrime (coreEnv fl batch l1raw kib) (init start hint) = .ok (Nat.findGreatest Nat.Prime start, s') :=
  C18.prev_first_partial _ (coreEnv_genSpec fl batch l1raw kib hfl hk hk2) start hint hs

/-- NO hypothesis about floats or the core at all when the real core is used for the windows below 2^50 (and the reference list
    above): the contract of C18's theorems, unconditionally -/
theorem core_below_2_50_meets_GenSpec (fl : Floats) (batch : ℕ → ℕ) (l1raw kib : ℕ) (hk : 16 ≤ kib) (hk2 : kib ≤ 8192) :
    GenSpec (coreEnvTo fl batch l1raw kib (2 ^ 50)) := coreEnv50_genSpec fl batch l1raw kib hk hk2

/-! ### non-vacuity (tests, labelled as such) -/

/-- the float assumption, restricted to the windows below 2^50, is a theorem (for every L1 size and sieve size) -/
example (a b : ℕ) (hb : b < 2 ^ 50) : FloatOk 32768 (max 721 a) b 256 :=
  floatOk_window_below_2_50 32768 256 a b (by norm_num) (by norm_num) hb
/-- a concrete window of the environment is the real core's output, and that is the list of primes -/
example : (coreEnv ⟨fun _ => 0, fun _ => 0, fun _ => 0, fun _ => 0⟩ (fun _ => 64) 32768 256).primes 100 1000000 =
    (List.range (1000000 + 1)).filter (fun p => decide (100 ≤ p) && decide (Nat.Prime p)) := by
  rw [coreEnv_primes_lt _ _ _ _ _ _ (by norm_num)]
  exact Pc.PsCore.generator_contract 32768 100 1000000 256 (by norm_num) (by norm_num) (by norm_num)
    (floatOk_window_below_2_50 32768 256 100 1000000 (by norm_num) (by norm_num) (by norm_num))
/-- the other hypotheses are those of C18 (fresh iterator ready at its start; a prime exists) -/
example : FwdReady (init 100 umax) 100 := fwdReady_init 100 umax (by decide)
example : ∃ p, p.Prime ∧ 100 ≤ p ∧ p ≤ umax := ⟨101, by norm_num, by decide, by decide⟩

end Pc.C18Closed

#print axioms Pc.C18Closed.core_meets_GenSpec
#print axioms Pc.C18Closed.coreEnv_is_generatePrimes
#print axioms Pc.C18Closed.generate_next_primes_correct_core
#print axioms Pc.C18Closed.generate_next_primes_past_the_end_core
#print axioms Pc.C18Closed.buffer_contract_first_core
#print axioms Pc.C18Closed.generate_prev_primes_correct_core
#print axioms Pc.C18Closed.direction_change_fwd_bwd_core
#print axioms Pc.C18Closed.prev_first_core
#print axioms Pc.C18Closed.core_below_2_50_meets_GenSpec
