/-
C17 (lookup-table half) — the prime-count tables, factor tables and small generators answer every query
exactly.  Only property theorems, non-vacuity examples and the axiom audit live here.
(The sieve half of C17 is in PcProps/C17Sieve.lean.)

Vocabulary: `Nat.primeCounting n` = π(n) (Mathlib).  `PrimeGenSpec gen` = the prime generator standing for
`primesieve::iterator` yields exactly the primes of `[lo, hi)`, in increasing order (C18).
-/
import PcProofs.SegPi
import PcProofs.FactorTableD
import PcProofs.GeneratePrimes

namespace Pc.C17

/-- the prime test used by the generated table obligations is exact -/
theorem isPrimeSR_correct (n : ℕ) : isPrimeSR n = true ↔ n.Prime := isPrimeSR_iff n

/-- Generic lemma behind every `(count, bits)` prime table of the code base (pi_cache_, PiTable,
    SegmentedPiTable): if word `j` holds exactly the primes of block `i0 + j` (as far as they lie below `M`),
    the first count is π of everything before the first block and the counts are prefix sums of the popcounts,
    then `count + popcount(bits & unset_larger[n % 240])` is π(n). -/
theorem bitPiTable_lookup (i0 M J : ℕ) (cnt bits : ℕ → ℕ)
    (hbase : cnt 0 = if i0 = 0 then 3 else Nat.primeCounting (240 * i0 - 1))
    (hcnt : ∀ j, j < J → cnt (j + 1) = cnt j + popcount64 (bits j))
    (hbits : ∀ j, j ≤ J → WordHolds (i0 + j) M (bits j))
    (n : ℕ) (h6 : 6 ≤ n) (hlo : 240 * i0 ≤ n) (hn : n < M) (hJ : n / 240 - i0 ≤ J) :
    cnt (n / 240 - i0) + popcount64 (bits (n / 240 - i0) &&& unsetLargerSpec (n % 240)) = Nat.primeCounting n :=
  Pc.bitPiTable_lookup i0 M J cnt bits hbase hcnt hbits n h6 hlo hn hJ

/-- the generated `unset_larger_` / `set_bit_` tables are their defining formulas -/
theorem unsetLarger_correct (r : ℕ) (hr : r < 240) : unsetLargerTbl r = unsetLargerSpec r := unsetLargerTbl_eq r hr
theorem setBit_correct (r : ℕ) (hr : r < 240) : setBitTbl r = setBitSpec r := setBitTbl_eq r hr

/-- `PiTable::pi_cache(x) = π(x)` for every `x` below `128 * 240` — from the generated per-word obligations -/
theorem piCache_correct (x : ℕ) (hx : x < 30720) : piCacheLookup PcGen.piCache x = Nat.primeCounting x :=
  Pc.piCache_correct x hx

/-- for every table size and every requested thread count the thread ranges of `PiTable::init` (numbers and
    word indices) are pairwise disjoint and cover `[cache_limit, limit)` -/
theorem piTable_ranges_disjoint (limit : ℕ) (threads : ℤ) (hl : piCacheLimit < limit) :
    1 ≤ (piThreadParams limit threads).1 ∧ 240 ∣ (piThreadParams limit threads).2 ∧
    (∀ n, piCacheLimit ≤ n → n < limit → ∃! t, t < (piThreadParams limit threads).1 ∧
        (piThreadRange limit (piThreadParams limit threads).2 t).1 ≤ n ∧
        n < (piThreadRange limit (piThreadParams limit threads).2 t).2) ∧
    (∀ i, PcGen.piCache.size ≤ i → i < ceilDiv limit 240 → ∃! t, t < (piThreadParams limit threads).1 ∧
        (piThreadRange limit (piThreadParams limit threads).2 t).1 / 240 ≤ i ∧
        i < ceilDiv (piThreadRange limit (piThreadParams limit threads).2 t).2 240) :=
  Pc.piTable_ranges_disjoint limit threads hl

/-- `PiTable(max_x, threads)[n] = π(n)` for every `max_x`, every thread count and every `n ≤ max_x`
    (in particular no uninitialised word is ever read) -/
theorem piTable_correct (gen : PrimeGen) (hg : PrimeGenSpec gen) (maxX : ℕ) (threads : ℤ) (n : ℕ)
    (hn : n ≤ maxX) : (PiTable.new gen maxX threads).get n = some (Nat.primeCounting n) :=
  Pc.piTable_correct gen hg maxX threads n hn

/-- after ANY history of `SegmentedPiTable::init(low, high)` calls respecting its ASSERTs (consecutive,
    overlapping, backwards, with gaps), every query of the current segment returns π(x) -/
theorem segPi_correct (piNoprint : ℕ → ℕ) (hpi : ∀ x, piNoprint x = Nat.primeCounting x)
    (gen : PrimeGen) (hg : PrimeGenSpec gen) (inits : List (ℕ × ℕ)) (s : SegPi)
    (h : SegPi.run piNoprint gen inits {} = some s) :
    ∀ x, s.low ≤ x → x < s.high → s.get x = some (Nat.primeCounting x) :=
  (Pc.segPi_correct piNoprint hpi gen hg inits {} s segGood_empty h).2

/-- ... and no ASSERT fires along such a history (the carry-over read `pi[low - 1]` is in range) -/
theorem segPi_init_succeeds (piNoprint : ℕ → ℕ) (hpi : ∀ x, piNoprint x = Nat.primeCounting x)
    (gen : PrimeGen) (hg : PrimeGenSpec gen) (inits : List (ℕ × ℕ)) (s : SegPi)
    (h : SegPi.run piNoprint gen inits {} = some s) (low high : ℕ) (hlh : low < high) (hlow : low % 240 = 0) :
    (s.init piNoprint gen low high).isSome = true :=
  segInit_succeeds piNoprint gen s low high (Pc.segPi_correct piNoprint hpi gen hg inits {} s segGood_empty h) hlh hlow

/-- `to_index(n)` = (number of `m ≤ n` coprime to 2·3·5·7·11) - 1, from the generated `coprime_indexes_` obligations -/
theorem ftToIndex_correct (n : ℕ) : ftToIndex n = (Nat.count C2310 (n + 1) : ℤ) - 1 := ftToIndex_eq n

/-- `to_number(i)` is the `i`-th (0-based) number coprime to 2·3·5·7·11, and `to_index` inverts it -/
theorem ftToNumber_correct (i : ℕ) :
    C2310 (ftToNumber i) ∧ Nat.count C2310 (ftToNumber i) = i ∧ ftToIndex (ftToNumber i) = i :=
  ⟨(ftToNumber_spec i).1, (ftToNumber_spec i).2, ftToIndex_toNumber i⟩

/-- FactorTable (with the F3 repair: the `fill_n` hoisted out of the `min_m` test): for every `y ≤ max()`,
    every thread count and every `n ≤ y` coprime to 2·3·5·7·11, `mu_lpf(to_index(n))` has been written and is
    `T_MAX - 1` for 1, `T_MAX` for primes, 0 if μ(n) = 0, `lpf - 1` if μ(n) = 1, `lpf` if μ(n) = -1
    (`ftSpec`, with Mathlib's `ArithmeticFunction.moebius` and `Nat.minFac`). On the pinned tree this fails
    for `13 ≤ y < 169` (F3): the model of the pinned constructor leaves those entries `none`. -/
theorem factorTable_correct (gen : PrimeGen) (hg : PrimeGenSpec gen) (tmax : ℕ) (htm : 3 ≤ tmax) (hodd : tmax % 2 = 1)
    (y threads : ℤ) (hy : y ≤ ftMax tmax) :
    ∃ a, factorTableNew gen tmax y threads = some a ∧
      a.size = (ftToIndex (max 1 y).toNat).toNat + 1 ∧
      ∀ n, C2310 n → n ≤ (max 1 y).toNat → a[(ftToIndex n).toNat]? = some (some (ftSpec tmax n)) :=
  Pc.factorTable_correct gen hg tmax htm hodd y threads hy

/-- FactorTableD: for every `z ≤ max()`, every `y`, every thread count and every `n ≤ z` coprime to 2·3·5·7·11,
    `is_leaf(to_index(n))` is 0 when `n` has a prime factor `> y` (`ftdSpec` with `start = max(13, y + 1)`; all
    prime factors of such `n` are `≥ 13`), else the FactorTable encoding. -/
theorem factorTableD_correct (gen : PrimeGen) (hg : PrimeGenSpec gen) (tmax : ℕ) (htm : 3 ≤ tmax) (hodd : tmax % 2 = 1)
    (y z threads : ℤ) (hz : z ≤ ftMax tmax) :
    ∃ a, factorTableDNew gen tmax y z threads = some a ∧
      a.size = (ftToIndex (max 1 z).toNat).toNat + 1 ∧
      ∀ n, C2310 n → n ≤ (max 1 z).toNat →
        a[(ftToIndex n).toNat]? = some (some (ftdSpec tmax (max (13 : ℤ) (y + 1)).toNat n)) :=
  Pc.factorTableD_correct gen hg tmax htm hodd y z threads hz

/-- `generate_pi(max)[i] = π(i)` for every `max` and `i ≤ max` -/
theorem generatePi_correct (mx i : ℕ) (hi : i ≤ mx) : (generatePi mx)[i]? = some (Nat.primeCounting i) :=
  Pc.generatePi_correct mx i hi

/-- `generate_lpf(max)[i]` = least prime factor of `i` (`lpf[0] = 1`, `lpf[1] = INT32_MAX` by convention) -/
theorem generateLpf_correct (mx i : ℕ) (hi : i ≤ mx) :
    (generateLpf mx)[i]? = some (if i = 0 then 1 else if i = 1 then int32Max else i.minFac) :=
  Pc.generateLpf_correct mx i hi

/-! non-vacuity (these are tests, labelled as such): the generator hypothesis is satisfiable, and concrete values -/
example : PrimeGenSpec (fun lo hi => (List.range' lo (hi - lo)).filter (fun p => decide p.Prime)) := by
  intro lo hi
  refine ⟨List.Pairwise.filter _ List.pairwise_lt_range', fun p => ?_⟩
  simp only [List.mem_filter, List.mem_range'_1, decide_eq_true_eq]
  constructor
  · rintro ⟨⟨h1, h2⟩, h3⟩; exact ⟨h1, by omega, h3⟩
  · rintro ⟨h1, h2, h3⟩; exact ⟨⟨h1, by omega⟩, h3⟩
example : piCacheLookup PcGen.piCache 1000 = 168 := by decide +kernel
example : piCacheLookup PcGen.piCache 30719 = 3314 := by decide +kernel
example : Nat.primeCounting 1000 = 168 := (piCache_correct 1000 (by norm_num)).symm.trans (by decide +kernel)

end Pc.C17

#print axioms Pc.C17.isPrimeSR_correct
#print axioms Pc.C17.bitPiTable_lookup
#print axioms Pc.C17.unsetLarger_correct
#print axioms Pc.C17.setBit_correct
#print axioms Pc.C17.piCache_correct
#print axioms Pc.C17.piTable_ranges_disjoint
#print axioms Pc.C17.piTable_correct
#print axioms Pc.C17.segPi_correct
#print axioms Pc.C17.segPi_init_succeeds
#print axioms Pc.C17.ftToIndex_correct
#print axioms Pc.C17.ftToNumber_correct
#print axioms Pc.C17.factorTable_correct
#print axioms Pc.C17.factorTableD_correct
#print axioms Pc.C17.generatePi_correct
#print axioms Pc.C17.generateLpf_correct
