/-
C17 — PLACEHOLDER of the sieve work package (the tables package owns this file).  The counting-sieve theorems
live in PcProps/C17Sieve.lean, which pcv/props/c17sieve.py builds and audits on its own.
-/
import PcProps.C17Sieve
