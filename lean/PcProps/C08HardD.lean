/-
C08 (hard special leaves, Gourdon): the REAL control flow of `D_thread` / `D_OpenMP` (src/gourdon/D.cpp:55-233; model
PcModel/HardLoops.lean).  `WSD x y z b lo hi` (PcProofs/HardD.lean) = value of the D-leaves of level `b` — `dF x y z k x⋆ (lo, hi) = Σ_{k<b≤π x⋆} WSD …` (PcProofs/HardDDefs.lean); leaves `(p_b, m)` with
`z/p_b < m ≤ z`, `μ m ≠ 0`, `p_b < lpf m`, all prime factors `≤ y`, `m ≤ x/p_b³` (levels `b ≤ π√z`), resp. `(p_b, p_l)` with
`p_b < p_l ≤ min(x/p_b³, y)` (levels `b > π√z`) — whose position `x/(p_b m)` lies in `[lo, hi)`.
Only property theorems, non-vacuity examples and the axiom audit live here.
-/
import PcProofs.HardDDefs
import PcProofs.HardDSpec
import PcProofs.HardExamples

namespace Pc.C08HardD
open Pc.Hard Nat Finset
open scoped Nat.Prime

/-- **`d_chunk_eq`** — for EVERY work item (`low < x/z`, `low` even, `segment_size ≥ 1`, `segments ≥ 1`, accepted by the sieve),
    every `y ≤ z`, `√z ≤ y`, `x⋆ ≤ y`, `4 ≤ k`, tables as `D_default` / `D_OpenMP` build them (`primes`, `pi` up to `y`,
    FactorTableD for `(y, z)`): `D_thread` returns `.ok` (no out-of-bounds read, ordered in-segment `count` queries) and its
    value is the sum of the D-leaves `(b, m)`, `k < b ≤ π(x⋆)`, with `low ≤ x/(p_b m) < min(low + segment_size·segments, x/z)`;
    the `min_b` / `max_b` pruning loses no leaf (`d_pruned`), both `goto next_segment` exits are sound (`WSD_zero_of_brk`). -/
theorem d_chunk_eq {σ : Type} {S : SieveOps σ} {e : Env} {tmax x xs y z k low segments segSize : ℕ}
    (hS : ∀ K, K ≤ π y → ∃ H : SieveSpec S K, H.segOK low segSize)
    (hE : EnvOK e y) (hF : FactorDOK e tmax y z)
    (hyz : y ≤ z) (hsz : Nat.sqrt z ≤ y) (hxs : xs ≤ y) (hk : 4 ≤ k) (heven : 2 ∣ low)
    (hsize : 1 ≤ segSize) (hsegs : 1 ≤ segments) (hlow : low < x / z) :
    dThread S e x xs (x / z) y z k low segments segSize =
      .ok (dF x y z k xs (low, chunkLimit low segments segSize (x / z))) :=
  dThread_eq hS hE hF hyz hsz hxs hk heven hsize hsegs hlow

/-- chunk additivity of the D engine -/
theorem d_chunk_additive (x y z k xs : ℕ) : LB.Additive (dF x y z k xs) := dF_additive x y z k xs

/-- **`d_region_total`** — every accepted, complete history of the parallel region `D_OpenMP` returns the D-leaves of the
    whole range `[0, x/z)`, independent of team size, call order and measured times (sieve: any object meeting the contract
    on the dispenser's work items; `x⋆ = get_x_star_gourdon(x, y)` is the model's `xStar`) -/
theorem d_region_total {σ : Type} (S : SieveOps σ) {e : Env} {tmax x y z k : ℕ}
    (hS : ∀ K, K ≤ π y → ∃ H : SieveSpec S K, ∀ low seg, 240 ∣ low → 240 ∣ seg → 0 < seg → H.segOK low seg)
    (lc : LB.Consts) (hlc : lc.WF) (threads : ℕ) (print : Bool)
    (hE : EnvOK e y) (hF : FactorDOK e tmax y z) (hyz : y ≤ z) (hsz : Nat.sqrt z ≤ y) (hxs : xStar x y ≤ y) (hk : 4 ≤ k)
    (es : List LB.S2.Ev) (v : ℤ) (h : dOpenMP S e lc x y z k threads print es = .ok v) :
    v = dF x y z k (xStar x y) (0, x / z) := by
  apply dOpenMP_total S e lc hlc x y z k threads print (dF x y z k (xStar x y)) (d_chunk_additive _ _ _ _ _) ?_ es v h
  intro low segs size hg hlow
  apply dThread_eq _ hE hF hyz hsz hxs hk (Dvd.dvd.trans (by norm_num) hg.low_al) hg.size_pos hg.segs_pos hlow
  intro K hK
  obtain ⟨H, hH⟩ := hS K hK
  exact ⟨H, hH low size hg.low_al hg.size_al hg.size_pos⟩

/-- two recorded runs of `D_OpenMP` give the same value -/
theorem d_independent_of_run {σ : Type} (S : SieveOps σ) {e : Env} {tmax x y z k : ℕ}
    (hS : ∀ K, K ≤ π y → ∃ H : SieveSpec S K, ∀ low seg, 240 ∣ low → 240 ∣ seg → 0 < seg → H.segOK low seg)
    (lc : LB.Consts) (hlc : lc.WF) (hE : EnvOK e y) (hF : FactorDOK e tmax y z) (hyz : y ≤ z) (hsz : Nat.sqrt z ≤ y)
    (hxs : xStar x y ≤ y) (hk : 4 ≤ k)
    (threads1 : ℕ) (print1 : Bool) (es1 : List LB.S2.Ev) (v1 : ℤ) (threads2 : ℕ) (print2 : Bool) (es2 : List LB.S2.Ev) (v2 : ℤ)
    (h1 : dOpenMP S e lc x y z k threads1 print1 es1 = .ok v1) (h2 : dOpenMP S e lc x y z k threads2 print2 es2 = .ok v2) :
    v1 = v2 := by
  rw [d_region_total S hS lc hlc threads1 print1 hE hF hyz hsz hxs hk es1 v1 h1,
    d_region_total S hS lc hlc threads2 print2 hE hF hyz hsz hxs hk es2 v2 h2]

/-- the window `[0, x/z)` holds every D-leaf: the class `Spec.D` of `gourdon_decomp`, for every admissible `(y, z, k, x⋆)` -/
theorem d_window_full {x y z k xs c3 : ℕ} (g : Spec.GParams x y z k xs c3) :
    dF x y z k xs (0, x / z) = Spec.D x y z k xs := WSD_total_eq_D g

/-- **`d_chunks_total`** — any chain of windows from `0` to `x/z` sums to `Spec.D x y z k x⋆` -/
theorem d_chunks_total {x y z k xs c3 : ℕ} (g : Spec.GParams x y z k xs c3) {cs : List LB.Chunk}
    (hch : LB.Chain 0 (x / z) cs) : LB.sumF (dF x y z k xs) cs = Spec.D x y z k xs := by
  have h := LB.Chain.sum_additive (dF_additive x y z k xs) hch
  have he := (dF_additive x y z k xs).empty (x / z)
  rw [h, he, sub_zero, d_window_full g]

/-- **`D_OpenMP` = `Spec.D`** for every accepted run and every admissible parameter choice (`GParams` with `x⋆ = xStar x y`) -/
theorem d_region_eq_spec {σ : Type} (S : SieveOps σ) {e : Env} {tmax x y z k c3 : ℕ}
    (g : Spec.GParams x y z k (xStar x y) c3)
    (hS : ∀ K, K ≤ π y → ∃ H : SieveSpec S K, ∀ low seg, 240 ∣ low → 240 ∣ seg → 0 < seg → H.segOK low seg)
    (lc : LB.Consts) (hlc : lc.WF) (threads : ℕ) (print : Bool)
    (hE : EnvOK e y) (hF : FactorDOK e tmax y z) (hk : 4 ≤ k)
    (es : List LB.S2.Ev) (v : ℤ) (h : dOpenMP S e lc x y z k threads print es = .ok v) :
    v = Spec.D x y z k (xStar x y) := by
  obtain ⟨h1, h2, h3⟩ := gparams_dThread_hyps g
  rw [d_region_total S hS lc hlc threads print hE hF h1 h2 h3 hk es v h, d_window_full g]

/-! non-vacuity (tests, labelled as such): the table hypotheses are satisfiable -/
example : EnvOK (idealEnv 100 65535 400) 100 := idealEnv_ok 100 65535 400

end Pc.C08HardD

#print axioms Pc.C08HardD.d_chunk_eq
#print axioms Pc.C08HardD.d_chunk_additive
#print axioms Pc.C08HardD.d_region_total
#print axioms Pc.C08HardD.d_independent_of_run
#print axioms Pc.C08HardD.d_window_full
#print axioms Pc.C08HardD.d_chunks_total
#print axioms Pc.C08HardD.d_region_eq_spec
