/-
C01 (closed, step 3) — the size dispatcher of src/api.cpp (`piApi64` / `piApi128`, PcModel/TopAlgs.lean) with `phi(x, a, threads)` := the L2
model of src/phi.cpp (`phiReal`, PcProofs/ClosePhi.lean) instead of an abstract `phi` under `PhiContract`.  `PhiContract` is GONE; in its
place `PhiExec P order sched n` asks, ONLY for the one call level `n` really makes (`phi(n, π(√n))` for 30719 < n ≤ 10^5, `phi(n, π(n^(1/3)))`
for 10^5 < n ≤ 10^8), the hypotheses of `CallRunOK` (PcProps/C07Closed.lean): table contracts (prime vector; PiTable and PhiTiny are proved
for the real constructors), the two `pix_upper` guard facts (the one at √n is proved for the real table since √n ≤ 10^4), "the reduction adds
each index once", and the contents of the `PhiCache` sieve arrays (`CacheValOK`; `init_cache` is not modelled).
NOTHING ABOUT `pi_noprint` is assumed for `phi`: `phi_pix` is unreachable from `pi_legendre` / `pi_meissel`, so the recursion
`pi → phi → pi_noprint` does not exist and `pi_noprint_is_pi_phi` closes by the same induction as before.
`TablesOK`, `ApiExec`, `hrec` are verbatim those of PcProps/C01Top.lean.
Only property theorems, non-vacuity examples and the axiom audit live here.
-/
import PcProofs.ClosePhiEx
import PcProofs.TopAlgsEx

namespace Pc.C01ClosedPhi
open Pc.Top Pc.ClosePhi Nat PcGen.ApiConst
open scoped Nat.Prime

/-- **one level** with the L2 model of phi.cpp -/
theorem piApi64_step_phi {σ : Type} (T : Tables σ) {B : ℕ} (hT : TablesOK T B)
    (P : ℕ → ℕ → PhiTop) (order : ℕ → ℕ → List ℕ) (sched : ℕ → ℕ → ℕ → PhiCacheL1 × ℕ) (pi : ℕ → ℕ) (x : ℤ)
    (hx : x < 2 ^ 63) (threads : ℤ) (isPrint : Bool) (r : ApiRun)
    (hphi : PhiExec P order sched x.toNat) (hpi : ∀ n : ℕ, (n : ℤ) < x → pi n = π n)
    (hex : (maxCached : ℤ) < x → ApiExec T B false x.toNat r) :
    piApi64 T (phiReal P order sched) pi x threads isPrint r = .ok (π x.toNat : ℤ) ∨
      piApi64 T (phiReal P order sched) pi x threads isPrint r = .error (.hard .badRun) :=
  Pc.ClosePhi.piApi64_step_phi T hT P order sched pi x hx threads isPrint r hphi hpi hex

/-- **the recursion closes** with the L2 model of phi.cpp: any `pi` consistent with being computed by `pi_noprint` is π below `x` -/
theorem pi_noprint_is_pi_phi {σ : Type} (T : Tables σ) {B : ℕ} (hT : TablesOK T B)
    (P : ℕ → ℕ → PhiTop) (order : ℕ → ℕ → List ℕ) (sched : ℕ → ℕ → ℕ → PhiCacheL1 × ℕ) (pi : ℕ → ℕ) (x : ℕ)
    (hx : x ≤ 2 ^ 63) (hphi : ∀ n, n < x → PhiExec P order sched n)
    (hrec : ∀ n, n < x → ∃ (threads : ℤ) (r : ApiRun), (maxCached < n → ApiExec T B false n r) ∧
      piApi64 T (phiReal P order sched) pi (n : ℤ) threads false r = .ok (pi n : ℤ)) :
    ∀ n, n < x → pi n = π n :=
  pi_noprint_fixpoint_phi T hT P order sched pi x hx hphi hrec

/-- **`piApi_eq_pi_phi`** — `pi(int128_t x)` for EVERY int128 `x` with `phi` = the L2 model of phi.cpp -/
theorem piApi_eq_pi_phi {σ : Type} (T : Tables σ) {B : ℕ} (hT : TablesOK T B)
    (P : ℕ → ℕ → PhiTop) (order : ℕ → ℕ → List ℕ) (sched : ℕ → ℕ → ℕ → PhiCacheL1 × ℕ) (pi : ℕ → ℕ) (x : ℤ)
    (hx : x < 2 ^ 127) (threads : ℤ) (isPrint : Bool) (r : ApiRun)
    (hphi : ∀ n : ℕ, (n : ℤ) ≤ x → PhiExec P order sched n)
    (hrec : ∀ n : ℕ, (n : ℤ) < x → n < 2 ^ 63 → ∃ (threads : ℤ) (r : ApiRun), (maxCached < n → ApiExec T B false n r) ∧
      piApi64 T (phiReal P order sched) pi (n : ℤ) threads false r = .ok (pi n : ℤ))
    (hex : (maxCached : ℤ) < x → ApiExec T B (decide ((PiApi.int64Max : ℤ) < x)) x.toNat r) :
    piApi128 T (phiReal P order sched) pi x threads isPrint r = .ok (π x.toNat : ℤ) ∨
      piApi128 T (phiReal P order sched) pi x threads isPrint r = .error (.hard .badRun) :=
  Pc.ClosePhi.piApi_eq_pi_phi T hT P order sched pi x hx threads isPrint r hphi hrec hex

/-- `PhiExec` follows from the per-call hypotheses of C07Closed for the real tables: in the dispatcher's range `√n ≤ 10^4 ≤ 30719`, so
    `pix_upper(√n)` is the exact table and the ONLY fact needed about the double formula `f` is at `n` itself -/
theorem phiExec_realTop (gen : PrimeGen) (hg : PrimeGenSpec gen) (threads : ℕ → ℕ → ℤ) (f : ℕ → ℕ) (piFn prime : ℕ → ℕ → ℕ → ℕ)
    (order : ℕ → ℕ → List ℕ) (sched : ℕ → ℕ → ℕ → PhiCacheL1 × ℕ) (n : ℕ)
    (hf : ∀ a, a ≤ π (Nat.sqrt n) → π n ≤ f n ∨ a < f n)
    (hp0 : ∀ a, prime n a 0 = 0) (hp : ∀ a i, 1 ≤ i → i ≤ a → prime n a i = Spec.p i)
    (horder : ∀ a, (order n a).Perm (List.range' 9 (a - 8)))
    (hcache : ∀ a i, 9 ≤ i → i ≤ a → Pc.PhiAlgProofs.CacheOK (sched n a i)) :
    PhiExec (fun x a => realTop gen (threads x a) f (piFn x a) (prime x a) (Nat.sqrt x)) order sched n :=
  Pc.ClosePhi.phiExec_realTop gen hg threads f piFn prime order sched n hf hp0 hp horder hcache

/-! non-vacuity (tests, labelled as such) -/

/-- `PhiExec` is satisfiable at every `n` (ideal tables, fresh ideal caches, identity order, a `pi_noprint` that returns 0) -/
example (n : ℕ) : PhiExec (fun _ _ => idealTop) (fun _ a => List.range' 9 (a - 8)) (fun _ _ _ => (idealCache, 0)) n :=
  ideal_phiExec n
example (N B : ℕ) : TablesOK (idealTables N) B := idealTables_ok N B
/-- the Legendre route of the dispatcher with the model of phi.cpp inside, at a concrete argument in its range -/
example (r : ApiRun) : piApi64 (idealTables 10) (phiReal (fun _ _ => idealTop) (fun _ a => List.range' 9 (a - 8)) (fun _ _ _ => (idealCache, 0)))
    (fun n => π n) 50000 1 false r = .ok (π (50000 : ℤ).toNat : ℤ) := by
  -- `ApiExec` on the Legendre route asks nothing: its two fields concern `x > legendreMax`
  have hex : ApiExec (idealTables 10) 0 false (50000 : ℤ).toNat r :=
    { meissel := fun h => by simp [legendreMax] at h, gourdon := fun h => by simp [meisselMax] at h }
  have h := piApi64_step_phi (idealTables 10) (idealTables_ok 10 0) (fun _ _ => idealTop) (fun _ a => List.range' 9 (a - 8))
    (fun _ _ _ => (idealCache, 0)) (fun n => π n) 50000 (by norm_num) 1 false r (ideal_phiExec _) (fun _ _ => rfl) (fun _ => hex)
  unfold piApi64 at h ⊢
  rw [if_neg (by decide), if_pos (by decide)] at h ⊢
  rcases h with h | h
  · exact h
  · cases h

end Pc.C01ClosedPhi

#print axioms Pc.C01ClosedPhi.piApi64_step_phi
#print axioms Pc.C01ClosedPhi.pi_noprint_is_pi_phi
#print axioms Pc.C01ClosedPhi.piApi_eq_pi_phi
#print axioms Pc.C01ClosedPhi.phiExec_realTop
