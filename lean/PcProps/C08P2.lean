/-
C08 (WP p2b) — `P2` and `B` through the loops the code really runs (src/P2.cpp, src/gourdon/B.cpp), not only through
their defining sums. Only property theorems, non-vacuity examples and the axiom audit live here.

Model: PcModel/P2Loop.lean (`p2Thread` = `P2_thread`, `bThread` = `B_thread`, `p2OpenMP`, `bOpenMP`, `piLegendre`,
`piMeissel`). Quantification, everywhere: ALL `x`, `y`, chunks (no bound); EVERY iterator that meets the contract
`IterSpec` (batches of any size); `pi_noprint` only assumed correct BELOW `x` (so the statements can be chained along the
recursion pi → P2 → pi); EVERY valid run of the parallel region (any team size, any order of the `get_work` calls, any
clock — these only enter through the dispenser model `Pc.LB.P2`, whose float-derived choices are arbitrary —, any
order of the reduction).
-/
import PcProofs.P2LoopEx
import PcProofs.P2LoopTable
import PcGen.P2LoopObl
namespace Pc.C08
open Pc.P2L Pc.LB Finset

/-- `P2_thread(x, y, low, high)` (and `B_thread`: same text) returns — without reading outside the iterator's buffer,
    and terminating — the sum of `π(x / q)` over the primes `start < q ≤ stop`, `start = max(y, min(x/high, √x))`,
    `stop = min(x/low, √x)`. -/
theorem P2_thread_start_stop {it : Iter} (hit : IterSpec it) {pi : ℕ → ℕ} {x : ℕ}
    (hpi : ∀ n, n < x → pi n = Nat.primeCounting n) (y : ℕ) {low high : ℕ} (hlow : 0 < low) (hlh : low < high) :
    p2Thread it pi x y low high =
      .ok (∑ q ∈ (Ioc (thrStart x y high) (thrStop x low)).filter Nat.Prime, Nat.primeCounting (x / q)) :=
  p2Thread_eq hit hpi y hlow hlh

/-- the index lemma: a number `q > 0` is visited by the chunk `[low, high)` iff `y < q ≤ √x` and
    `low ≤ ⌊x/q⌋ < high`. There is no boundary case: adjacent chunks can neither share nor skip a prime. -/
theorem chunk_visits_iff {x y low high q : ℕ} (hlow : 0 < low) (hlh : low < high) (hq : 0 < q) :
    (thrStart x y high < q ∧ q ≤ thrStop x low) ↔ (y < q ∧ q ≤ Nat.sqrt x ∧ low ≤ x / q ∧ x / q < high) :=
  visited_iff hlow hlh hq

/-- `P2_thread` computes the chunk function `Σ_{q prime, y < q ≤ √x, low ≤ x/q < high} π(x/q)` -/
theorem P2_thread_refines {it : Iter} (hit : IterSpec it) {pi : ℕ → ℕ} {x : ℕ}
    (hpi : ∀ n, n < x → pi n = Nat.primeCounting n) (y : ℕ) {low high : ℕ} (hlow : 0 < low) (hlh : low < high) :
    p2Thread it pi x y low high =
      .ok (∑ q ∈ ((Ioc y (Nat.sqrt x)).filter Nat.Prime).filter (fun q => low ≤ x / q ∧ x / q < high),
        Nat.primeCounting (x / q)) :=
  p2Thread_eq_chunk hit hpi y hlow hlh

/-- the same for `B_thread` -/
theorem B_thread_refines {it : Iter} (hit : IterSpec it) {pi : ℕ → ℕ} {x : ℕ}
    (hpi : ∀ n, n < x → pi n = Nat.primeCounting n) (y : ℕ) {low high : ℕ} (hlow : 0 < low) (hlh : low < high) :
    bThread it pi x y low high =
      .ok (∑ q ∈ ((Ioc y (Nat.sqrt x)).filter Nat.Prime).filter (fun q => low ≤ x / q ∧ x / q < high),
        Nat.primeCounting (x / q)) :=
  p2Thread_eq_chunk hit hpi y hlow hlh

/-- `xp = (uint64_t)(x / prime)` never truncates: every quotient a chunk computes is below `high` (an `int64_t`) -/
theorem xp_narrowing_exact {x y low high q : ℕ} (hlow : 0 < low) (hlh : low < high) (hq : 0 < q)
    (h1 : thrStart x y high < q) (h2 : q ≤ thrStop x low) : x / q < high :=
  visited_div_lt_high hlow hlh hq h1 h2

/-- every prime `y < q ≤ √x` has its quotient in the range `[√x, ⌊x / max(y,1)⌋)` that `LoadBalancerP2` hands out -/
theorem prime_quotient_in_range {x y q : ℕ} (hq : q.Prime) (h1 : y < q) (h2 : q ≤ Nat.sqrt x) :
    Nat.sqrt x ≤ x / q ∧ x / q < x / max y 1 :=
  div_prime_range hq h1 h2

/-- for EVERY chain of chunks from `min(√x, x/y)` to `x / max(y,1)` each chunk evaluates to the chunk function and
    the values add up to `B(x, y) = Σ_{q prime, y < q ≤ √x} π(x/q)` -/
theorem P2_chunks_total {it : Iter} (hit : IterSpec it) {pi : ℕ → ℕ} {x : ℕ}
    (hpi : ∀ n, n < x → pi n = Nat.primeCounting n) (y : ℕ) (hx : 4 ≤ x) {cs : List Chunk}
    (h : Chain (min (Nat.sqrt x) (x / max y 1)) (x / max y 1) cs) :
    (∀ c ∈ cs, p2Thread it pi x y c.1 c.2 = .ok (chunkN x y c)) ∧ sumF (chunkF x y) cs = Spec.B x y :=
  p2_chunks_total hit hpi y hx h

/-- **`P2_OpenMP(x, y, a) = P2(x, a)`** (`Pc.Spec.P2`: the number of `n ≤ x` with exactly two prime factors, both
    beyond the first `a` primes) whenever `a = π(y)` and `⌊x / max(y,1)⌋` fits `int64_t`, for EVERY valid run -/
theorem P2_refines {it : Iter} (hit : IterSpec it) {pi : ℕ → ℕ} {x y a : ℕ}
    (hpi : ∀ n, n < x → pi n = Nat.primeCounting n) (ha : a = Nat.primeCounting y) (hya : pi y = a)
    (c : Consts) (hc : c.WF) (hxy : x / max y 1 < two63) (r : Run)
    (hv : 4 ≤ x → y < Nat.sqrt x → r.valid c x (x / max y 1) = true) :
    p2OpenMP c it pi x y a r = .ok (Spec.P2 x a : ℤ) :=
  p2OpenMP_eq hit hpi ha hya c hc hxy r hv

/-- **`B_OpenMP(x, y) = B(x, y)`** for EVERY valid run (no relation between `y` and `√x` is needed) -/
theorem B_refines {it : Iter} (hit : IterSpec it) {pi : ℕ → ℕ} {x : ℕ}
    (hpi : ∀ n, n < x → pi n = Nat.primeCounting n) (y : ℕ) (c : Consts) (hc : c.WF)
    (hxy : x / max y 1 < two63) (r : Run) (hv : 4 ≤ x → r.valid c x (x / max y 1) = true) :
    bOpenMP c it pi x y r = .ok (Spec.B x y) :=
  bOpenMP_eq hit hpi y c hc hxy r hv

/-- `pi_legendre(x) = π(x)` for every `x`, given `phi(x, π√x)` and `pi_noprint` below `x` -/
theorem pi_legendre_glue {phi : ℕ → ℕ → ℕ} {pi : ℕ → ℕ} {x : ℕ}
    (hpi : ∀ n, n < x → pi n = Nat.primeCounting n)
    (hphi : phi x (Nat.primeCounting (Nat.sqrt x)) = Spec.phi x (Nat.primeCounting (Nat.sqrt x))) :
    piLegendre phi pi x = (Nat.primeCounting x : ℤ) :=
  piLegendre_eq hpi hphi

/-- `pi_meissel(x) = π(x)` for every `x`, given `phi(x, π(x^(1/3)))` and `pi_noprint` below `x`, with `P2` evaluated
    by the loop model on ANY valid run -/
theorem pi_meissel_glue {it : Iter} (hit : IterSpec it) {phi : ℕ → ℕ → ℕ} {pi : ℕ → ℕ} {x : ℕ}
    (hpi : ∀ n, n < x → pi n = Nat.primeCounting n)
    (hphi : phi x (Nat.primeCounting (irootN 3 x)) = Spec.phi x (Nat.primeCounting (irootN 3 x)))
    (c : Consts) (hc : c.WF) (hxy : x / max (irootN 3 x) 1 < two63) (r : Run)
    (hv : 4 ≤ x → irootN 3 x < Nat.sqrt x → r.valid c x (x / max (irootN 3 x) 1) = true) :
    piMeissel c it phi pi x r = .ok (Nat.primeCounting x : ℤ) :=
  piMeissel_eq hit hpi hphi c hc hxy r hv

/-- the EXECUTABLE instance that `pcdrv` runs against the real code (ops `p2thread`, `bthread`, `p2row`, … of
    PcModel/Drv/P2Loop.lean): over the sieve-built table `NT.build B` the loop model with the table iterator — for EVERY
    seed, i.e. every batch splitting — returns the executable defining sum `chunkSum`, and that is the spec's chunk
    function, as soon as the table reaches `2·stop + 2`, `2·(⌊x/(start+1)⌋ + 1) + 2` (Bertrand) and `√x`. -/
theorem executable_mirror_is_spec (B seed x y low high : ℕ) (hlow : 0 < low) (hlh : low < high)
    (hB1 : 2 * thrStop x low + 2 ≤ B) (hB2 : 2 * (x / (thrStart x y high + 1) + 1) + 2 ≤ B) (hB3 : Nat.sqrt x ≤ B) :
    p2Thread (tableIter (NT.build B) seed) (NT.build B).piOf x y low high = .ok (chunkSum (NT.build B) x y low high) ∧
      chunkSum (NT.build B) x y low high = chunkN x y (low, high) :=
  mirror_eq_def B seed x y low high hlow hlh hB1 hB2 hB3

/-- the model mirrors the CURRENT source text (regenerated from /repo/src/P2.cpp and /repo/src/gourdon/B.cpp by
    translator/extract_p2loop.py on every run): `P2_thread` is the statement sequence `p2Thread` was written against,
    `B_thread` is the same text, `P2_OpenMP` / `B_OpenMP` have the early exits, closed form and region that `p2OpenMP` /
    `bOpenMP` mirror -/
theorem model_mirrors_source :
    P2LoopSrc.p2Thread = P2LoopSrc.p2ThreadModelled ∧ P2LoopSrc.bThread = P2LoopSrc.p2Thread ∧
    P2LoopSrc.p2OpenMP = P2LoopSrc.p2OpenMPModelled ∧ P2LoopSrc.bOpenMP = P2LoopSrc.bOpenMPModelled :=
  ⟨P2LoopSrc.p2Thread_text, P2LoopSrc.bThread_text, P2LoopSrc.p2OpenMP_text, P2LoopSrc.bOpenMP_text⟩

/-! ### non-vacuity (tests, labelled as such) -/

/-- the iterator contract is satisfiable, with batches that hold many primes -/
example : IterSpec refIter := refIter_spec
example : refIter.next 10 = [11, 13, 17, 19] := by decide
example : refIter.prev 10 = 7 := by decide

/-- a complete accepted history of the real dispenser constants for `x = 1000`, `y = 3` (`x / y = 333`, `√x = 31`):
    one thread, chunk `[31, 333)`, then `false`; recorded from the real `LoadBalancerP2` by the op `p2run` -/
def run1000 : Run := { team := 1, print := false, es := [⟨0, true, 31, 333⟩, ⟨0, false, 333, 333⟩], order := [0] }

example : run1000.valid genConsts 1000 (1000 / max 3 1) = true := by decide

/-- the same range handed out to two threads in three chunks is NOT what the real dispenser does for so small a
    range — the model rejects it (the acceptor is not vacuous either) -/
example : ({ team := 2, print := false,
             es := [⟨0, true, 31, 100⟩, ⟨1, true, 100, 333⟩, ⟨0, false, 333, 333⟩, ⟨1, false, 333, 333⟩],
             order := [1, 0] } : Run).valid genConsts 1000 (1000 / max 3 1) = false := by decide

/-- all hypotheses of `P2_refines` at once: `P2_OpenMP(1000, 3, 2)` on the recorded run is `P2(1000, 2)` -/
example : p2OpenMP genConsts refIter Nat.primeCounting 1000 3 2 run1000 = .ok (Spec.P2 1000 2 : ℤ) :=
  P2_refines refIter_spec (fun _ _ => rfl) (by decide) (by decide) genConsts genConsts_wf (by decide) run1000
    (fun _ _ => by decide)

example : bOpenMP genConsts refIter Nat.primeCounting 1000 3 run1000 = .ok (Spec.B 1000 3) :=
  B_refines refIter_spec (fun _ _ => rfl) 3 genConsts genConsts_wf (by decide) run1000 (fun _ => by decide)

/-- the loop model EVALUATED by the kernel on a literal prime table with batches of 2 and of 5 primes:
    `P2_thread(100, 2, 10, 52)` visits 7, 5, 3 (quotients 14, 20, 33): 6 + 8 + 11 = 25 — as the real code answers
    (`p2row 64 100 2 10 52` ends in 25) -/
example : p2Thread (listIter primes60 2) (listPi primes60) 100 2 10 52 = .ok 25 := by decide +kernel
example : p2Thread (listIter primes60 5) (listPi primes60) 100 2 10 52 = .ok 25 := by decide +kernel
/-- hypotheses of `executable_mirror_is_spec` on that instance: a table up to 70 is enough -/
example : p2Thread (tableIter (NT.build 70) 5) (NT.build 70).piOf 100 2 10 52 = .ok (chunkSum (NT.build 70) 100 2 10 52) ∧
    chunkSum (NT.build 70) 100 2 10 52 = chunkN 100 2 (10, 52) :=
  executable_mirror_is_spec 70 5 100 2 10 52 (by decide) (by decide) (by decide +kernel) (by decide +kernel)
    (by decide +kernel)
/-- the `ASSERT`s are errors of the model, not defaults -/
example : p2Thread (listIter primes60 2) (listPi primes60) 100 2 0 52 = .error .assertLow := by decide
example : p2Thread (listIter primes60 2) (listPi primes60) 100 2 10 10 = .error .assertOrder := by decide
/-- an iterator that breaks the contract (empty batch) makes the model stop at the out-of-bounds read -/
example : p2Thread (listIter primes60 0) (listPi primes60) 100 2 10 52 = .error .oob := by decide +kernel

end Pc.C08

#print axioms Pc.C08.P2_thread_start_stop
#print axioms Pc.C08.chunk_visits_iff
#print axioms Pc.C08.P2_thread_refines
#print axioms Pc.C08.B_thread_refines
#print axioms Pc.C08.xp_narrowing_exact
#print axioms Pc.C08.prime_quotient_in_range
#print axioms Pc.C08.P2_chunks_total
#print axioms Pc.C08.P2_refines
#print axioms Pc.C08.B_refines
#print axioms Pc.C08.pi_legendre_glue
#print axioms Pc.C08.pi_meissel_glue
#print axioms Pc.C08.executable_mirror_is_spec
#print axioms Pc.C08.model_mirrors_source
