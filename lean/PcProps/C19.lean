/-
C19 — Li, R and their inverses are accurate, consistent and never overflow.            **PARTIAL**

What is proved here (about the exact-rational models of src/LogarithmicIntegral.cpp and src/RiemannR.cpp,
PcModel/LiR.lean, tied to the sources by translator/extract_zeta.py and the `lir` correspondence stream):
  * the zeta table: every literal is within 10^-d + 10^-39 of ζ(k) = Σ m^-k (real series), d = 8, 12, 16, …
    for k = 2, 3, 4, … and ≥ 39 for k ≥ 10; the table decreases strictly towards 1 (`zeta_table_ok`);
  * the Gram series as coded (term recurrence, table look-up with fallback 1, 1000-term cap, |Δ| ≤ ε stop) returns
    a partial sum R_K(L), 1 ≤ K ≤ 999; the Ramanujan recurrences of `li` return a partial sum of Ramanujan's
    series (`gram_loop_partial_sum`, `ramanujan_loop_partial_sum`);
  * R_K is non-decreasing in L ≥ 0 and the remainder after K ≥ 2 Lmax - 2 terms is explicit
    (`gram_monotone`, `gram_tail_bound`); the driver's fixed-point enclosure of the series contains every later
    partial sum for every L in the enclosure of log x (`series_enclosure_sound`);
  * the Newton / Halley loops perform at most 10 updates, each with a strictly smaller |term| (`inverse_terminates`);
  * the saturating conversion (`>=`, commit 6379852) yields a value in [0, max] for EVERY non-negative float result,
    for int64_t and int128_t and all three float widths; with the former `>` the conversion of 2^127 was undefined
    (`inverse_saturates`, `inverse_saturates_needs_ge`);
  * exact results for guarded small arguments (`small_argument_guards`);
  * which float width serves which argument (`precision_switch`).

NOT covered (hence partial): floating point rounding of any operation (x87 80-bit, binary64, __float128), the
accuracy of libm (`logl`, `expl`, `sqrtl`, `logq`), NaN / infinity, and the real analysis identifying the series
with the functions: Gram series = R(x), γ + log log x + Σ (log x)^k/(k·k!) = li(x) = Ramanujan's series,
atanh series = log. Accuracy of the implementation against the series is sampled by the `lir` stream with the
documented slack 2^-46 (double), 2^-54 (long double), 2^-100 (__float128; not built in the pinned configuration).
-/
import PcProofs.LiR
import PcProofs.LiRFx
import PcProofs.Zeta

namespace Pc.C19
open Pc.LiR

/-- Each zeta literal of RiemannR.cpp is close to ζ(k) (real series `Σ_{m≥1} m^-k`), the table is strictly
    decreasing and stays above 1. -/
theorem zeta_table_ok (k : ℕ) (h2 : 2 ≤ k) (h128 : k < 128) :
    |((zetaLit k : ℚ) : ℝ) - zetaR k| ≤ 1 / (10 : ℝ) ^ (Gen.zetaGoodDigits.getD k 0) + 1 / (10 : ℝ) ^ 39 ∧
    1 < zetaLit k ∧ (k < 127 → zetaLit (k + 1) < zetaLit k) :=
  ⟨zetaLit_near_zeta k h2 h128, one_lt_zetaLit k h2 h128, zetaLit_decreasing k h2⟩

/-- resolution of the kernel-checked enclosures: at least 8 digits everywhere, at least 39 from k = 10 on -/
theorem zeta_table_resolution :
    (∀ k, 2 ≤ k → k < 128 → 8 ≤ Gen.zetaGoodDigits.getD k 0) ∧
    (∀ k, 10 ≤ k → k < 128 → 39 ≤ Gen.zetaGoodDigits.getD k 0) := by
  have h : ((List.range' 2 126).all fun k => decide (8 ≤ Gen.zetaGoodDigits.getD k 0)) = true ∧
      ((List.range' 10 118).all fun k => decide (39 ≤ Gen.zetaGoodDigits.getD k 0)) = true := by
    decide +kernel
  constructor
  · intro k h2 h128
    exact of_decide_eq_true (List.all_eq_true.mp h.1 k (List.mem_range'_1.mpr ⟨h2, by omega⟩))
  · intro k h2 h128
    exact of_decide_eq_true (List.all_eq_true.mp h.2 k (List.mem_range'_1.mpr ⟨h2, by omega⟩))

/-- `RiemannR`'s loop (cap 1000, stop rule `|sum - old_sum| ≤ ε`) returns a partial sum of the Gram series -/
theorem gram_loop_partial_sum (eps L : ℚ) :
    ∃ K, 1 ≤ K ∧ K ≤ 999 ∧ gramRun eps L = (Rseries K L, K) := gramRun_eq_Rseries eps L

/-- `li`'s loop with its recurrences for `p`, `factorial`, `q`, `power2` and the incremental inner sum returns a
    partial sum of Ramanujan's series `Σ (-1)^(n-1) L^n / (n! 2^(n-1)) Σ_{k ≤ (n-1)/2} 1/(2k+1)` -/
theorem ramanujan_loop_partial_sum (eps L : ℚ) :
    ∃ N, N ≤ 999 ∧ liRun eps L = (ramSeries L N, N) := liRun_eq_ramSeries eps L

/-- all coefficients of the Gram series are positive: every partial sum is non-decreasing in `L ≥ 0` -/
theorem gram_monotone (K : ℕ) (L₁ L₂ : ℚ) (h0 : 0 ≤ L₁) (h : L₁ ≤ L₂) : Rseries K L₁ ≤ Rseries K L₂ :=
  Rseries_mono K h0 h

/-- explicit remainder: for `0 ≤ L ≤ Lmax` and `K + 2 ≥ 2 Lmax` every later partial sum exceeds `R_K(L)` by at
    most `2 Lmax^(K+1) / ((K+1) (K+1)!)` -/
theorem gram_tail_bound (K N : ℕ) (L Lmax : ℚ) (h0 : 0 ≤ L) (hL : L ≤ Lmax) (hK : 2 * Lmax ≤ (K : ℚ) + 2)
    (hN : K ≤ N) :
    Rseries K L ≤ Rseries N L ∧
    Rseries N L - Rseries K L ≤ 2 * Lmax ^ (K + 1) / (((K + 1 : ℕ) : ℚ) * (fact (K + 1) : ℚ)) := by
  obtain ⟨n, rfl⟩ : ∃ n, N = K + n := ⟨N - K, by omega⟩
  refine ⟨Rseries_mono_index K n h0, ?_⟩
  have hd : dTerm L (K + 1) ≤ Lmax ^ (K + 1) / (((K + 1 : ℕ) : ℚ) * (fact (K + 1) : ℚ)) := by
    unfold dTerm
    have h1 : (0 : ℚ) < ((K + 1 : ℕ) : ℚ) := by exact_mod_cast Nat.succ_pos K
    have h2 : (0 : ℚ) < (fact (K + 1) : ℚ) := by exact_mod_cast fact_pos (K + 1)
    exact div_le_div_of_nonneg_right (pow_le_pow_left₀ h0 hL _) (mul_pos h1 h2).le
  have hdn := dTerm_nonneg h0 (K + 1)
  rw [mul_div_assoc]
  cases n with
  | zero => simp only [Nat.add_zero, sub_self]; linarith
  | succ n =>
    have ht := Rseries_tail K n h0 (by linarith)
    have hd2 := dTerm_nonneg h0 (K + 1 + n)
    have e : K + (n + 1) = K + 1 + n := by omega
    rw [e]; linarith

/-- The driver's fixed-point evaluation (any scale `s`, it uses `2^192`): for `L ∈ [aLo, aHi] / s` every partial
    sum with at least `gramTerms s aHi` terms of the Gram series (resp. of `Σ L^k/(k·k!)`, the series of li) lies in
    the computed enclosure. -/
theorem series_enclosure_sound (s : ℕ) (hs : 0 < s) (aLo aHi : ℕ) (L : ℚ) (hlo : (aLo : ℚ) / (s : ℚ) ≤ L)
    (hhi : L ≤ (aHi : ℚ) / (s : ℚ)) (N : ℕ) (hN : Fx.gramTerms s aHi ≤ N) :
    (((Fx.rEncS s aLo aHi).1 : ℚ) / (s : ℚ) ≤ Rseries N L ∧ Rseries N L ≤ ((Fx.rEncS s aLo aHi).2 : ℚ) / (s : ℚ)) ∧
    (((Fx.eEncS s aLo aHi).1 : ℚ) / (s : ℚ) ≤ Eseries N L ∧ Eseries N L ≤ ((Fx.eEncS s aLo aHi).2 : ℚ) / (s : ℚ)) :=
  ⟨Fx.rEncS_sound s hs aLo aHi L hlo hhi N hN, Fx.eEncS_sound s hs aLo aHi L hlo hhi N hN⟩

/-- The Newton loop of `RiemannR_inverse` and the Halley loop of `Li_inverse` update `t` at most 10 times
    (whatever the float library computes for the terms), the result is the initial guess minus the applied terms,
    and each applied term is strictly smaller in magnitude than the one before ("not converging any more" exit). -/
theorem inverse_terminates (termOf : ℚ → ℚ) (t0 : ℚ) :
    (invLoop termOf Gen.rInvIters t0 none 0).2 ≤ 10 ∧ (invLoop termOf Gen.liInvIters t0 none 0).2 ≤ 10 ∧
    ∀ cap, (invLoop termOf cap t0 none 0).2 = (invTerms termOf cap t0 none).length ∧
      (invLoop termOf cap t0 none 0).1 = t0 - (invTerms termOf cap t0 none).sum ∧
      List.IsChain (fun a b => |b| < |a|) (invTerms termOf cap t0 none) := by
  have h1 := invLoop_iters_le termOf Gen.rInvIters t0 none 0
  have h2 := invLoop_iters_le termOf Gen.liInvIters t0 none 0
  have e1 : Gen.rInvIters = 10 := Gen.control_constants.2.2.1
  have e2 : Gen.liInvIters = 10 := Gen.control_constants.2.2.2.1
  refine ⟨by omega, by omega, fun cap => ⟨?_, invLoop_result termOf cap t0 none 0, (invTerms_decreasing termOf cap t0 none).1⟩⟩
  rw [invTerms_length]; omega

/-- `RiemannR_inverse` / `Li_inverse` (64- and 128-bit, every float width): whenever the float-level result is
    non-negative the integer result is a value in `[0, max]` — never undefined behaviour, never a wrapped value. -/
theorem inverse_saturates (c : Bool) (envs : Prec → Env) (t : ITy) (ht : t = .i64 ∨ t = .i128) (x : ℤ) :
    (0 ≤ RiemannRInverse (envs (precOf c .RInv x)) (roundInt (precOf c .RInv x).mantBits x : ℚ) →
      ∃ v, entry c envs .RInv t x = .ok v ∧ 0 ≤ v ∧ v ≤ (t.maxVal : ℤ)) ∧
    (0 ≤ LiInverse (envs (precOf c .LiInv x)) (roundInt (precOf c .LiInv x).mantBits x : ℚ) →
      ∃ v, entry c envs .LiInv t x = .ok v ∧ 0 ≤ v ∧ v ≤ (t.maxVal : ℤ)) :=
  entry_inverse_safe c envs t ht x

/-- the saturating conversion itself, and why `>=` is needed: `(FLOAT) max` is `max` or `max + 1`; with `>=` every
    `res ≥ 0` is safe, with `>` the value `res = (FLOAT) INT128_MAX = 2^127` is converted out of range -/
theorem inverse_saturates_needs_ge (p : Prec) :
    (∀ t, t = ITy.i64 ∨ t = ITy.i128 → ∀ res : ℚ, 0 ≤ res →
      ∃ v, satCast true (floatMax p t : ℚ) t res = .ok v ∧ 0 ≤ v ∧ v ≤ (t.maxVal : ℤ) ∧
        (res < (floatMax p t : ℚ) → v = ⌊res⌋)) ∧
    satCast false (floatMax p .i128 : ℚ) .i128 (floatMax p .i128 : ℚ) = .ub := by
  constructor
  · intro t ht res h0
    obtain ⟨v, h1, h2, h3, h4, _⟩ := satCast_ge_safe t (floatMax p t : ℚ) res h0 (floatMax_bounds p t ht).2
    exact ⟨v, h1, h2, h3, h4⟩
  · apply satCast_gt_ub
    obtain ⟨_, _, _, h4, h5, h6⟩ := floatMax_values
    have e128 : ITy.i128.maxVal = 2 ^ 127 - 1 := by decide
    cases p <;> simp only [h4, h5, h6, e128] <;> norm_num

/-- exact results for the guarded small arguments (any float environment):
    all four functions return 0 for `x ≤ 0`; `Li(1) = Li(2) = 0`; `RiemannR(1) = 1` when `log 1 = 0`;
    float level: `li(x) = 0` for `x ≤ 1`, `Li(x) = 0` for `x ≤ 2`, `RiemannR(x) = 0` for `x ≤ 0`, both inverses 0 for
    `x < 1`, Cesàro's guess is 0 / 2 / 3 on `x < 1` / `[1, 2)` / `[2, 3)`. -/
theorem small_argument_guards (c : Bool) (envs : Prec → Env) (t : ITy) (ht : t = .i64 ∨ t = .i128) :
    (∀ f x, x ≤ 0 → entry c envs f t x = .ok 0) ∧
    entry c envs .Li t 1 = .ok 0 ∧ entry c envs .Li t 2 = .ok 0 ∧
    ((∀ p, (envs p).log 1 = 0) → (∀ p, 0 ≤ (envs p).eps) → entry c envs .R t 1 = .ok 1) ∧
    (∀ (e : Env) (x : ℚ), (x ≤ 1 → li e x = 0) ∧ (x ≤ 2 → Li e x = 0) ∧ (x ≤ 0 → RiemannR e x = 0) ∧
      (x < 1 → RiemannRInverse e x = 0 ∧ LiInverse e x = 0 ∧ initialNthPrimeApprox e x = 0) ∧
      (1 ≤ x → x < 2 → initialNthPrimeApprox e x = 2) ∧ (2 ≤ x → x < 3 → initialNthPrimeApprox e x = 3)) := by
  refine ⟨fun f x h => entry_nonpos c envs f t ht h, (entry_Li_one_two c envs t).1, (entry_Li_one_two c envs t).2,
    fun h1 h2 => entry_R_one c envs t ht h1 h2, fun e x => ⟨li_le_one e, Li_le_two e, RiemannR_nonpos e, ?_, ?_, ?_⟩⟩
  · exact fun h => ⟨RiemannRInverse_lt_one e h, LiInverse_lt_one e h, (initial_values e).1 x h⟩
  · exact (initial_values e).2.1 x
  · exact (initial_values e).2.2 x

/-- double is used exactly for `x ≤ 10^8`, __float128 (if built in) exactly for `x > 10^14`, long double between;
    the same for all four functions -/
theorem precision_switch (c : Bool) (f : Fn) (x : ℤ) :
    precOf c f x = (if c = true ∧ x > 10 ^ 14 then Prec.f128 else if x > 10 ^ 8 then Prec.ld else Prec.dbl) :=
  precOf_spec c f x

/-! non-vacuity (tests, labelled as such): concrete instances of the hypotheses -/
example : Rseries 3 2 ≤ Rseries 3 5 := gram_monotone 3 2 5 (by norm_num) (by norm_num)
example : (2 : ℚ) * 40 ≤ ((78 : ℕ) : ℚ) + 2 := by norm_num
example : ∃ v, satCast true (floatMax .ld .i128 : ℚ) .i128 ((2 : ℚ) ^ 127) = .ok v ∧ v ≤ (ITy.i128.maxVal : ℤ) := by
  obtain ⟨v, h1, _, h3, _⟩ := (inverse_saturates_needs_ge .ld).1 .i128 (Or.inr rfl) ((2 : ℚ) ^ 127) (by positivity)
  exact ⟨v, h1, h3⟩
example : (invLoop (fun t => t / 2) 10 1 none 0).2 ≤ 10 := by
  have := invLoop_iters_le (fun t => t / 2) 10 1 none 0; omega

end Pc.C19

#print axioms Pc.C19.zeta_table_ok
#print axioms Pc.C19.zeta_table_resolution
#print axioms Pc.C19.gram_loop_partial_sum
#print axioms Pc.C19.ramanujan_loop_partial_sum
#print axioms Pc.C19.gram_monotone
#print axioms Pc.C19.gram_tail_bound
#print axioms Pc.C19.series_enclosure_sound
#print axioms Pc.C19.inverse_terminates
#print axioms Pc.C19.inverse_saturates
#print axioms Pc.C19.inverse_saturates_needs_ge
#print axioms Pc.C19.small_argument_guards
#print axioms Pc.C19.precision_switch
