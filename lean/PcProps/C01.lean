/-
C01 — pi(x) is the exact number of primes <= x on every entry point.
Only property theorems, non-vacuity examples and the axiom audit live here.

The algorithms behind the size dispatcher are parameters of the L2 model (`Pc.Routes`). The hypotheses
`RouteCorrect …` below are the correctness statements of the individual routes on exactly the range
where `api.cpp` uses them; they are discharged by OTHER work packages:
  * `RouteCorrect r.cache cacheZeroBelow maxCached`            — C17 (`piCache_correct`, generated `word_ok` obligations)
  * `RouteCorrect r.legendre (maxCached+1) 1e5`   — C02/C07 (`piLegendre_correct`)
  * `RouteCorrect r.meissel (1e5+1) 1e8`          — C02/C08 (`piMeissel_correct`)
  * `RouteCorrect r.gourdon64 (1e8+1) INT64_MAX`, `Route128Correct r.gourdon128 maxX`
                                                   — C08 (`piGourdon_correct`, partial: carries `GourdonAΣ`)
What is proved here unconditionally: the dispatcher / narrowing / sign handling never changes a correct
answer (so the result cannot depend on which route is selected), decimal rendering and parsing are exact,
and the executable oracles used by the correspondence check (`piSieve`, `piTableArr`) ARE π.
-/
import PcProofs.Api
import PcProofs.ApiStr
import PcProofs.L1Routes

namespace Pc.C01
open PcGen.ApiConst Pc.PiApi

/-- 64-bit C++ API `primecount::pi(int64_t)` (and the C API `primecount_pi`): for EVERY int64 value `x`
    (negative included) the dispatcher returns π(max(x,0)), provided each route is correct on its range. -/
theorem piApi64_correct (r : Routes)
    (hcache : RouteCorrect r.cache cacheZeroBelow maxCached)
    (hlegendre : RouteCorrect r.legendre (maxCached + 1) legendreMax)
    (hmeissel : RouteCorrect r.meissel (legendreMax + 1) meisselMax)
    (hgourdon : RouteCorrect r.gourdon64 (meisselMax + 1) int64Max)
    (x : ℤ) (hx : x ≤ int64Max) : piApi64 r x = Nat.primeCounting x.toNat ∧ cPi r x = Nat.primeCounting x.toNat :=
  ⟨piApi64_of_agree r x hx (routesAgreeAt_of_correct hcache hlegendre hmeissel hgourdon _),
   piApi64_of_agree r x hx (routesAgreeAt_of_correct hcache hlegendre hmeissel hgourdon _)⟩

/-- 128-bit API `primecount::pi(int128_t)`: for every `x ≤ maxX` (any negative value included, in
    particular `x ≥ -2^127`) the result is `π(x)` (0 for `x < 2`) and no exception is thrown. -/
theorem piApi_correct (r : Routes) (maxX : ℕ)
    (hcache : RouteCorrect r.cache cacheZeroBelow maxCached)
    (hlegendre : RouteCorrect r.legendre (maxCached + 1) legendreMax)
    (hmeissel : RouteCorrect r.meissel (legendreMax + 1) meisselMax)
    (hgourdon : RouteCorrect r.gourdon64 (meisselMax + 1) int64Max)
    (hgourdon128 : Route128Correct r.gourdon128 maxX)
    (x : ℤ) (_hlo : -2 ^ 127 ≤ x) (hx : x ≤ maxX) : piApi128 r x = .ok (Nat.primeCounting x.toNat : ℤ) := by
  by_cases h64 : x ≤ int64Max
  · exact piApi128_of_agree r x h64 (routesAgreeAt_of_correct hcache hlegendre hmeissel hgourdon _)
  · unfold piApi128
    have h0 : ¬ x < 0 := by omega
    simp only [h0, h64, if_false]
    rw [hgourdon128 x.toNat (by omega) (by omega)]
    rfl

/-- "The answer does not depend on which internal method the dispatcher selects": two sets of routes
    that are each correct on their ranges give the same answer on every `x` — e.g. the real thresholds
    versus any other assignment of the same algorithms. -/
theorem piApi_route_independent (r r' : Routes) (maxX : ℕ)
    (h : RouteCorrect r.cache cacheZeroBelow maxCached ∧ RouteCorrect r.legendre (maxCached + 1) legendreMax ∧
      RouteCorrect r.meissel (legendreMax + 1) meisselMax ∧ RouteCorrect r.gourdon64 (meisselMax + 1) int64Max ∧
      Route128Correct r.gourdon128 maxX)
    (h' : RouteCorrect r'.cache cacheZeroBelow maxCached ∧ RouteCorrect r'.legendre (maxCached + 1) legendreMax ∧
      RouteCorrect r'.meissel (legendreMax + 1) meisselMax ∧ RouteCorrect r'.gourdon64 (meisselMax + 1) int64Max ∧
      Route128Correct r'.gourdon128 maxX)
    (x : ℤ) (hlo : -2 ^ 127 ≤ x) (hx : x ≤ maxX) : piApi128 r x = piApi128 r' x := by
  rw [piApi_correct r maxX h.1 h.2.1 h.2.2.1 h.2.2.2.1 h.2.2.2.2 x hlo hx,
    piApi_correct r' maxX h'.1 h'.2.1 h'.2.2.1 h'.2.2.2.1 h'.2.2.2.2 x hlo hx]

/-- **Unconditional.** The L1 model of the whole API — dispatcher of `api.cpp` over the cache table dumped from the
    binary (kernel-checked), Legendre, Meissel and Gourdon written with the executable defining sums the C++ terms are
    compared with — returns π(x) for EVERY x in [−2^127, maxX], for EVERY value of the float products behind (y, z)
    (`fo.v`, `fo.w`: all tuning factors, clamped or not) and every range limit that admits maxX. No route hypothesis is left:
    they are discharged by `piCache_correct` (C17), `NT_legendre_total`, `NT_meissel_total`, `NT_gourdon_total` (C08). -/
theorem piApi_correct_l1 (fo : FloatOutcomes) (maxX : ℕ) (hlim : ∀ x, x ≤ maxX → x ≤ fo.limit x)
    (x : ℤ) (hlo : -2 ^ 127 ≤ x) (hx : x ≤ maxX) :
    piApi128 (l1Routes fo) x = .ok (Nat.primeCounting x.toNat : ℤ) :=
  let h := l1Routes_correct fo
  piApi_correct (l1Routes fo) maxX h.1 h.2.1 h.2.2.1 h.2.2.2 (l1Routes_correct128 fo maxX hlim) x hlo hx

/-- … and on the 64-bit entry point (C++ `pi(int64_t)`, C `primecount_pi`) for every int64 value -/
theorem piApi64_correct_l1 (fo : FloatOutcomes) (x : ℤ) (hx : x ≤ int64Max) :
    piApi64 (l1Routes fo) x = Nat.primeCounting x.toNat :=
  let h := l1Routes_correct fo
  (piApi64_correct (l1Routes fo) h.1 h.2.1 h.2.2.1 h.2.2.2 x hx).1

/-- negative arguments give 0 unconditionally (no route is consulted, no 64-bit cast happens) -/
theorem piApi128_neg (r : Routes) (x : ℤ) (hx : x < 0) : piApi128 r x = .ok 0 := by
  unfold piApi128; simp [hx]

/-- `to_string(uint128_t)` followed by the decimal parser is the identity on all 128-bit values -/
theorem toString_roundtrip : ∀ n < 2 ^ 128, parseDec (toStringU128 n) = n := parseDec_toStringU128

/-- `to_maxint` on ANY non-empty string of digits (leading zeros allowed): the exact value when it is
    `≤ INT128_MAX`, `primecount_error` otherwise — no wrap-around, no silent truncation. -/
theorem toMaxint_digits (s : List Char) (hs : s.all isDigit = true) (hne : s ≠ []) :
    toMaxintDigits s = if parseDecL s ≤ int128Max then .ok (parseDecL s : ℤ) else .error .pcError :=
  toMaxintDigits_eq s hs hne

/-- the string API on the decimal rendering of `n`: `pi(to_string(n)) = to_string(π(n))` -/
theorem piStr_correct (r : Routes) (maxX : ℕ)
    (hcache : RouteCorrect r.cache cacheZeroBelow maxCached)
    (hlegendre : RouteCorrect r.legendre (maxCached + 1) legendreMax)
    (hmeissel : RouteCorrect r.meissel (legendreMax + 1) meisselMax)
    (hgourdon : RouteCorrect r.gourdon64 (meisselMax + 1) int64Max)
    (hgourdon128 : Route128Correct r.gourdon128 maxX)
    (n : ℕ) (hn : n ≤ maxX) (hn' : n ≤ int128Max) :
    piStr r calcDigits (toCharsU128 n) = .ok (toCharsU128 (Nat.primeCounting n)) ∧
    cliDefault r calcDigits (toCharsU128 n) = (0, toCharsU128 (Nat.primeCounting n) ++ ['\n']) := by
  have h1 : toMaxint calcDigits (toCharsU128 n) = .ok (n : ℤ) := by
    have := toMaxintDigits_eq (toCharsU128 n) (toCharsU128_all_isDigit n) (toCharsU128_ne_nil n)
    rw [parseDecL_toCharsU128 n (lt_of_le_of_lt hn' (by norm_num [int128Max]))] at this
    simpa [toMaxintDigits, hn'] using this
  have h2 := piApi_correct r maxX hcache hlegendre hmeissel hgourdon hgourdon128 (n : ℤ)
    (by have : (0 : ℤ) ≤ n := Int.natCast_nonneg n; omega) (by exact_mod_cast hn)
  simp only [Int.toNat_natCast] at h2
  constructor
  · simp [piStr, h1, bind, Except.bind, h2, pure, Except.pure, toCharsI128]
  · simp [cliDefault, h1, bind, Except.bind, h2, toCharsI128]

/-- the oracle of the correspondence check is π (unconditional) -/
theorem oracle_piSieve (n : ℕ) : piSieve n = Nat.primeCounting n := piSieve_eq n

/-- what the driver prints for a batch: dispatcher over the proved table = π (unconditional) -/
theorem oracle_table (n : ℕ) (x : ℤ) (hx : x ≤ n) (hn : n ≤ int64Max) :
    piApi128 (tableRoutes (piTableArr n)) x = .ok (Nat.primeCounting x.toNat : ℤ) := piApi128_tableRoutes n x hx hn

/-! non-vacuity: the hypotheses are satisfiable (routes := π itself), and concrete values -/
example : ∃ r : Routes, RouteCorrect r.cache cacheZeroBelow maxCached ∧ RouteCorrect r.legendre (maxCached + 1) legendreMax ∧
    RouteCorrect r.meissel (legendreMax + 1) meisselMax ∧ RouteCorrect r.gourdon64 (meisselMax + 1) int64Max ∧
    Route128Correct r.gourdon128 (10 ^ 31) :=
  ⟨⟨Nat.primeCounting, Nat.primeCounting, Nat.primeCounting, Nat.primeCounting, fun x => .ok (Nat.primeCounting x)⟩,
    fun _ _ _ => rfl, fun _ _ _ => rfl, fun _ _ _ => rfl, fun _ _ _ => rfl, fun _ _ _ => rfl⟩
example : toStringU128 (2 ^ 128 - 1) = "340282366920938463463374607431768211455" := by decide
example : toMaxintDigits "0170141183460469231731687303715884105727".toList = .ok (2 ^ 127 - 1) := by decide
example : toMaxintDigits "170141183460469231731687303715884105728".toList = .error .pcError := by decide

end Pc.C01

#print axioms Pc.C01.piApi64_correct
#print axioms Pc.C01.piApi_correct
#print axioms Pc.C01.piApi_route_independent
#print axioms Pc.C01.piApi_correct_l1
#print axioms Pc.C01.piApi64_correct_l1
#print axioms Pc.C01.piApi128_neg
#print axioms Pc.C01.toString_roundtrip
#print axioms Pc.C01.toMaxint_digits
#print axioms Pc.C01.piStr_correct
#print axioms Pc.C01.oracle_piSieve
#print axioms Pc.C01.oracle_table
