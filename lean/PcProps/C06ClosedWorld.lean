/-
C06 (WP close2, final composition): `nth_prime(n)` over the WORLD — the hypothesis `pi = π below 2^63` of `C06Closed.nth_prime_closed2` discharged by
the closed dispatcher recursion (`World2.nested_s2`, PcProofs/Close2PhiWorld.lean: `pi(int64_t)` over the real tables / iterator / bit-level phi),
the iterator of `nth_prime` = the model of `primesieve::iterator` over the SAME sieving core as the world's tables (`W.env`), `PiTable::pi_cache` =
the generated table (C17 `piCache_correct`).

REMAINING (complete list): (L) `hlit : p(max_n) < 2^63` (max_n = π(2^63): literature); (F) `ha : approx n < 2^63` (`RiemannR_inverse`, long double Newton
iteration, not modelled; NOTHING about its accuracy is needed); the world hypotheses `OKmin` ((F) sieving-core float assumption below `W.bnd` — none for
`W.bnd ≤ 2^50` —, (S) kib range, hints, size), (L) `PhiRunOK2.lit`, (O) `PhiRunOK2.works`, (O) `hrec`: every `pi(x)`, `x < 2^63`, was computed by SOME
execution of the dispatcher over the world; (S) `B < 2^32`.
Only property theorems and the axiom audit live here.
-/
import PcProps.C06Closed2
import PcProofs.Close2Final

namespace Pc.C06ClosedWorld
open Pc Pc.Close Pc.It Nat PcGen.ApiConst
open scoped Nat.Prime

/-- **`nth_prime_world`** — `nth_prime(n) = p_n` for every `1 ≤ n ≤ max_n`, `pi` = the dispatcher over the world -/
theorem nth_prime_world (W : World2) {B : ℕ} (h : W.OKmin B) (hB : B < 2 ^ 32) (c : Sieve.Cfg) (f : Sieve.StopFn) (approx pi : ℕ → ℕ)
    (hphi : ∀ n : ℕ, PcGen.ApiConst.maxCached < n → n ≤ meisselMax → W.PhiRunOK2 n)
    (hrec : W.NestedS2 c f B pi (2 ^ 63))
    (hlit : Spec.p Gen.nthPrimeMaxN < 2 ^ 63)
    (n : ℕ) (h1 : 1 ≤ n) (h2 : n ≤ Gen.nthPrimeMaxN) (ha : approx n < 2 ^ 63) :
    Pc.nthPrime ⟨approx, pi, piCacheLookup PcGen.piCache, realPrimeIter W.toWorld.env W.hp W.hn⟩ (n : ℤ) = .ok ((Spec.p n : ℕ) : ℤ) :=
  Pc.C06Closed.nth_prime_closed2 W.fl W.batch W.l1raw W.kib W.bnd h.bnd_le h.float h.kib_lo h.kib_hi W.hp W.hn h.hints approx pi
    (fun x hx => W.nested_s2 (W.ok_of_min h) hB c f pi (2 ^ 63) (fun m _ => hphi m) hrec x (by exact_mod_cast hx) hx)
    hlit n h1 h2 ha

end Pc.C06ClosedWorld

#print axioms Pc.C06ClosedWorld.nth_prime_world
