/-
C20, closed (WP indep) — "calls are pure: no result depends on call history, settings or status output".  PcProps/C20.lean proves it under
the NAMED hypothesis `AlgConfigIndependent alg spec` ("the value the algorithms compute does not depend on the configuration they run under"),
for abstract algorithms `alg`.  Here that hypothesis is DISCHARGED for the algorithms assembled from the closed models (`closedAlg E`,
PcProofs/IndepApi.lean: `pi(int64_t)`, `pi(string)`, `phi`, `nth_prime`; thread count and print switch read from the API state σ, the tuning
overrides of σ acting through the float outcomes the environment `E` produces per configuration), from the closed theorems of C01 / C06 / C07.

`E : Execs` is everything the ENVIRONMENT decides (OpenMP schedules, recorded load-balancer histories with their clock values, float
outcomes, hardware configuration of the sieve, cache objects …) as an ARBITRARY function of the configuration and the call: the theorems say that
whatever it decides, within the hypotheses of the closed theorems (`CallOK`), the result is `closedSpec` of the call — a function of the ARGUMENTS alone.

INHERITED HYPOTHESES = `CallOK E cfg c`, only for the call in question under the configuration reached (notes/wp-indep.md):
 `pi(x)`, `pi(str)`   `Ctx.OK`, `Ctx.ApiExec` (those of `pi_api_eq_pi`: (S) sizes / configuration range, (F) `FloatOk` below `W.bnd`, `GourdonEnv`,
                      (T) `phiVec`, `PhiRunOK.cache`, (L) `PhiRunOK.lit`, (O) schedules / runs / `NestedS`, domain `x ≤ get_max_x(alpha_y)` above
                      `INT64_MAX` — the ONE setting-dependent outcome, see PcProps/C04Closed.lean) and (O) `≠ badRun`; for the string API the value
                      `to_maxint` parses is `< 2^127` (C13 / C01 `toMaxint_digits` for digit strings);
 `phi(x, a)`          C07's `TopOK` (incl. `pi_noprint(x) = π(x)` — C01Closed `nested_calls_are_pi` — and the literature inequality),
                      reduction order a permutation, `CacheOK`;
 `nth_prime(n)`       `Ctx.OK` up to a bound `N < 2^63` on `RiemannR_inverse(n)` (F) and on the n-th prime ((L) for `N = 2^63 - 1`), hints `uint64_t`.
                      `PiTable::pi_cache` is NO hypothesis here (C17 `piCache_correct`; the import clash noted in PcProps/C06Closed.lean is gone).
Only property theorems, non-vacuity examples and the axiom audit live here.
-/
import PcProofs.IndepApiEx

namespace Pc.C20Closed
open Pc.Top Pc.Close Pc.Indep Nat PcGen.ApiConst
open scoped Nat.Prime

/-- **`AlgConfigIndependent` is a theorem** for the algorithms assembled from the closed models: under the hypotheses of the closed theorems for
    every call and configuration, thread count, tuning overrides, print mode and status precision do not influence any value -/
theorem alg_config_independent_closed (E : Execs) (h : ∀ cfg c, CallOK E cfg c) :
    AlgConfigIndependent (closedAlg E) (closedSpec E.ev) :=
  algConfigIndependent_closed E h

/-- **purity of results, closed**: in EVERY history from EVERY API state σ (any calls before, successful or failed, any thread setting,
    any tuning overrides set or reset, print switches on or off, any machine `hw`, any environment `E`), the result of the `i`-th call, a
    computing call `c`, is `closedSpec` of its arguments — given the hypotheses of the closed theorem of `c`'s entry point for THAT call under
    the configuration reached by the prefix (nothing is assumed about the other calls of the history) -/
theorem result_state_independent_closed (hw : ApiHw) (E : Execs) (σ : ApiState) (ops : List ApiOp) (i : ℕ) (c : ApiCompute)
    (h : ops[i]? = some (.compute c))
    (hc : CallOK E ((apiStateAfter hw (closedAlg E) σ (ops.take i)).config hw) c) :
    (runHistory hw (closedAlg E) σ ops)[i]? = some (closedSpec E.ev c) := by
  rw [runHistory_getElem? hw (closedAlg E) σ ops i _ h]
  simp only [apiStep]
  rw [closedAlg_run_eq E _ c hc]

/-- the same call gives the same result in any two processes, histories, machines and ENVIRONMENTS (two schedulers, clocks, CPUs) that share
    the calculator -/
theorem same_call_same_result_closed (hw₁ hw₂ : ApiHw) (E₁ E₂ : Execs) (hev : E₁.ev = E₂.ev) (σ₁ σ₂ : ApiState) (pre₁ pre₂ : List ApiOp)
    (c : ApiCompute)
    (h₁ : CallOK E₁ ((apiStateAfter hw₁ (closedAlg E₁) σ₁ pre₁).config hw₁) c)
    (h₂ : CallOK E₂ ((apiStateAfter hw₂ (closedAlg E₂) σ₂ pre₂).config hw₂) c) :
    (runHistory hw₁ (closedAlg E₁) σ₁ (pre₁ ++ [.compute c]))[pre₁.length]? =
      (runHistory hw₂ (closedAlg E₂) σ₂ (pre₂ ++ [.compute c]))[pre₂.length]? := by
  rw [result_state_independent_closed hw₁ E₁ σ₁ _ pre₁.length c (by simp) (by simpa using h₁),
      result_state_independent_closed hw₂ E₂ σ₂ _ pre₂.length c (by simp) (by simpa using h₂), hev]

/-- **`failed_call_preserves_state`, connected**: a computing call that fails under the assembled algorithms — the range error of
    `pi_gourdon_128` above `get_max_x(alpha_y)`, a `primecount_error` of `to_maxint`, `nth_prime(0)`, a `badRun` — leaves σ unchanged, so the
    NEXT call behaves as if the failed call had never been made; and if that next call meets `CallOK` it returns its specification value -/
theorem failed_call_preserves_state_closed (hw : ApiHw) (E : Execs) (σ : ApiState) (c₀ c : ApiCompute) :
    (apiStep hw (closedAlg E) σ (.compute c₀)).1 = σ ∧
    (runHistory hw (closedAlg E) σ [.compute c₀, .compute c])[1]? = (runHistory hw (closedAlg E) σ [.compute c])[0]? ∧
    (CallOK E (σ.config hw) c → (runHistory hw (closedAlg E) σ [.compute c₀, .compute c])[1]? = some (closedSpec E.ev c)) := by
  refine ⟨rfl, rfl, fun hc => ?_⟩
  exact result_state_independent_closed hw E σ [.compute c₀, .compute c] 1 c rfl hc

/-- a call outside the domain fails in every state and configuration alike (`nth_prime(n)` for `n < 1`: `primecount_error`) -/
theorem nth_prime_domain_error_closed (E : Execs) (cfg : ApiConfig) (n : ℤ) (hn : n < 1) :
    (closedAlg E).run cfg (.nthPrime n) = .err ∧ closedSpec E.ev (.nthPrime n) = .err := by
  constructor
  · rw [closedAlg_run_eq E cfg (.nthPrime n) (fun h => absurd h (by omega))]
    simp only [closedSpec]
    rw [if_neg (by omega)]
  · simp only [closedSpec]
    rw [if_neg (by omega)]

/-- **CLI**: with any combination of `--status[=N]`, `--time`, `-t N` and alpha options, in any order, the result line is printed and carries
    the specification value of `pi(x)` — the same number as without options -/
theorem status_same_number_closed (hw : ApiHw) (E : Execs) (opts : List CliOpt) (x : List ℕ)
    (h : ∀ cfg, CallOK E cfg (.piStr x)) :
    (cliRun hw (closedAlg E) opts x).number = some (closedSpec E.ev (.piStr x)) ∧
    (cliRun hw (closedAlg E) opts x).number = (cliRun hw (closedAlg E) [] x).number := by
  have h1 : ∀ o : List CliOpt, (cliRun hw (closedAlg E) o x).number = some (closedSpec E.ev (.piStr x)) := by
    intro o
    have hp : (o.foldl (cliOption hw) (ApiState.init, false)).1.printVariables = false :=
      cliFold_printVariables hw o (ApiState.init, false)
    simp only [cliRun, isPrintCombinedResult, hp, Bool.not_false, if_true]
    rw [closedAlg_run_eq E _ _ (h _)]
  exact ⟨h1 opts, by rw [h1 opts, h1 []]⟩

/-! non-vacuity (tests, labelled as such): a concrete environment whose choices DEPEND on the configuration meets `CallOK` for all four calls
under every configuration; a history with thread / alpha / print settings and a failing call in between -/

example (c : Sieve.Cfg) (f₁ f₂ : Sieve.StopFn) (r : ApiRun) (cfg : ApiConfig) :
    CallOK (exExecs c f₁ f₂ r) cfg (.pi 50000) ∧ CallOK (exExecs c f₁ f₂ r) cfg (.piStr [52, 48, 48, 48, 48]) ∧
      CallOK (exExecs c f₁ f₂ r) cfg (.phi 10000 25) ∧ CallOK (exExecs c f₁ f₂ r) cfg (.nthPrime 5) :=
  ⟨exExecs_pi c f₁ f₂ r cfg 50000 (by norm_num), exExecs_piStr c f₁ f₂ r cfg, exExecs_phi c f₁ f₂ r cfg 10000 25, exExecs_nth c f₁ f₂ r cfg⟩

/-- `pi(50000)` after `set_num_threads(3)`, `set_alpha_y(2.5)`, `set_print(true)`, a failing `nth_prime(0)`, and `pi(50000)` as the first call
    of another process on another machine: the same value, π(50000) -/
example (c : Sieve.Cfg) (f₁ f₂ : Sieve.StopFn) (r : ApiRun) :
    (runHistory ⟨8, 8⟩ (closedAlg (exExecs c f₁ f₂ r)) ApiState.init
      [.setting (.setThreads 3), .setting (.setAlphaY ⟨false, 2500⟩), .setting (.setPrint true), .compute (.nthPrime 0),
        .compute (.pi 50000)])[4]? = some (.int (π 50000 : ℤ)) ∧
    (runHistory ⟨64, 64⟩ (closedAlg (exExecs c f₁ f₂ r)) ApiState.init [.compute (.pi 50000)])[0]? = some (.int (π 50000 : ℤ)) := by
  have hs : closedSpec (exExecs c f₁ f₂ r).ev (.pi 50000) = .int (π 50000 : ℤ) := by
    simp only [closedSpec]
    rw [if_pos (by unfold IsI64; norm_num)]
    rfl
  rw [← hs]
  exact ⟨result_state_independent_closed _ _ _ _ 4 _ rfl (exExecs_pi c f₁ f₂ r _ 50000 (by norm_num)),
    result_state_independent_closed _ _ _ _ 0 _ rfl (exExecs_pi c f₁ f₂ r _ 50000 (by norm_num))⟩

/-- the CLI with `--status=3 -t 2 --alpha-y=…` prints the same number for `primecount 40000` as without options -/
example (c : Sieve.Cfg) (f₁ f₂ : Sieve.StopFn) (r : ApiRun) :=
  status_same_number_closed ⟨8, 8⟩ (exExecs c f₁ f₂ r) [.status (some 3), .threads 2, .alphaY ⟨false, 1500⟩] [52, 48, 48, 48, 48]
    (fun cfg => exExecs_piStr c f₁ f₂ r cfg)

end Pc.C20Closed

#print axioms Pc.C20Closed.alg_config_independent_closed
#print axioms Pc.C20Closed.result_state_independent_closed
#print axioms Pc.C20Closed.same_call_same_result_closed
#print axioms Pc.C20Closed.failed_call_preserves_state_closed
#print axioms Pc.C20Closed.nth_prime_domain_error_closed
#print axioms Pc.C20Closed.status_same_number_closed
