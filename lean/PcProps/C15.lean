/-
C15 (instruction-path half) — every bit counting path the CPU detection can select (AVX512 VPOPCNTQ 8-lane loop
with masked tail, hardware POPCNT, portable SWAR) produces the same value.
Only property theorems, non-vacuity examples and the axiom audit live here.

Modelled: `Sieve::count_avx512(start, stop)`, `Sieve::count_popcnt64(start, stop)`, the inline `count(stop)`
bodies, `popcnt64` / `popcnt64_bitwise_noinline` (PcModel/Sieve.lean).  Trusted: the POPCNT and VPOPCNTQ
instructions compute the population count (`popCount64`).
-/
import PcProofs.Sieve

namespace Pc.C15
open Pc.Sieve

/-- The portable SWAR routine `popcnt64_bitwise_noinline` (constants 0x5555…, 0x3333…, 0x0F0F…, 0x0101…,
    all operations modulo 2^64) returns the population count of every 64-bit word. -/
theorem swar_popcount_eq (x : ℕ) (hx : x < 2 ^ 64) : popcntSwar x = popCount64 x :=
  Pc.Sieve.swar_popcount_eq x hx

/-- `popcnt64(x)` does not depend on `cpu_supports_popcnt`. -/
theorem popcnt64_path_irrelevant (x : ℕ) (hx : x < 2 ^ 64) : popcnt64 true x = popcnt64 false x := by
  rw [popcnt64_eq true x hx, popcnt64_eq false x hx]

/-- The masked tail of the AVX512 loop: `(__mmask8)(0xff >> d)` selects exactly the lanes `k` with `k + d < 8`
    (so with `d = i + 8 − stop_idx` exactly the words `i ≤ i + k < stop_idx`). -/
theorem avx512_tail_mask (d k : ℕ) (hk : k < 8) : ((0xff >>> d) % 256).testBit k = decide (k + d < 8) :=
  mask_testBit d k hk

/-- **All count paths agree.**  For every array of 64-bit words and every `start`, `stop`: `count_avx512`,
    `count_popcnt64` with POPCNT and `count_popcnt64` with the SWAR popcount all return
    `popcount(start word & mask) + popcount(stop word & mask) + Σ popcount(words strictly between)` (mod 2^64). -/
theorem count_paths_equal (w : ℕ → ℕ) (hw : ∀ i, w i < 2 ^ 64) (start stop : ℕ) :
    countAvx512 w start stop = countSpec w start stop % 2 ^ 64 ∧
    countPopcnt64 (popcnt64 true) w start stop = countSpec w start stop % 2 ^ 64 ∧
    countPopcnt64 (popcnt64 false) w start stop = countSpec w start stop % 2 ^ 64 :=
  Pc.Sieve.count_paths_equal w hw start stop

/-- `Sieve::count(start, stop)` returns the same value under every CPU configuration. -/
theorem countRange_dispatch_irrelevant (c c' : Cfg) (σ : State) (hs : ∀ i, σ.sieve.getD i 0 < 256) (a b : ℕ) :
    countRange c σ a b = countRange c' σ a b := by
  unfold countRange
  split
  · rfl
  · rw [countWords_eq c _ (word64_lt _ hs), countWords_eq c' _ (word64_lt _ hs)]

/-- The inline `count(stop)` (`count_avx512(stop)` / `count_popcnt64(stop)` with either popcount) returns the
    same value AND leaves the object in the same state, whichever body the function-level dispatch selected. -/
theorem countStop_dispatch_irrelevant (f f' : StopFn) (σ : State) (hs : ∀ i, σ.sieve.getD i 0 < 256) (stop : ℕ) :
    countStop f σ stop = countStop f' σ stop := by
  unfold countStop
  simp only []
  split
  · rfl
  · have key : ∀ (τ : State) (start : ℕ), τ.sieve = σ.sieve →
        f.count (word64 τ.sieve) start stop = f'.count (word64 τ.sieve) start stop := by
      intro τ start h
      rw [stopFn_count_eq f _ (word64_lt _ (by rw [h]; exact hs)),
        stopFn_count_eq f' _ (word64_lt _ (by rw [h]; exact hs))]
    -- the counter loop does not touch the sieve array
    have hloop : ∀ (fuel start : ℕ) (τ : State), τ.sieve = σ.sieve →
        (counterLoop stop fuel start τ).2.sieve = σ.sieve := by
      intro fuel
      induction fuel with
      | zero => intro start τ h; exact h
      | succ n ih =>
        intro start τ h
        unfold counterLoop
        split
        · exact ih _ _ h
        · exact h
    set r := counterLoop stop (stop / σ.cDist + 2) (σ.prevStop + 1) { σ with prevStop := stop } with hr
    have hsv : r.2.sieve = σ.sieve := hloop _ _ _ rfl
    rw [key r.2 r.1 hsv]

/-! non-vacuity (tests, labelled as such) -/
example : popcntSwar 0xF0F0F0F0F0F0F0F1 = 33 := by decide
example : countAvx512 (fun i => if i < 20 then 2 ^ 64 - 1 else 0) 7 (240 * 19 + 100) =
    countPopcnt64 (popcnt64 false) (fun i => if i < 20 then 2 ^ 64 - 1 else 0) 7 (240 * 19 + 100) := by
  have h : ∀ i, (fun i => if i < 20 then 2 ^ 64 - 1 else 0 : ℕ → ℕ) i < 2 ^ 64 := by
    intro i; simp only; split <;> decide
  rw [(count_paths_equal _ h _ _).1, (count_paths_equal _ h _ _).2.2]

end Pc.C15

#print axioms Pc.C15.swar_popcount_eq
#print axioms Pc.C15.popcnt64_path_irrelevant
#print axioms Pc.C15.avx512_tail_mask
#print axioms Pc.C15.count_paths_equal
#print axioms Pc.C15.countRange_dispatch_irrelevant
#print axioms Pc.C15.countStop_dispatch_irrelevant
