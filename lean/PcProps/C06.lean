/-
C06 — nth_prime(n) is the n-th prime and inverts π.
Only property theorems, non-vacuity examples and the axiom audit live here.
Model: PcModel/NthPrime.lean (src/nth_prime.cpp); table, `max_n`, thresholds: PcGen/NthPrimeData.lean (generated).
`Spec.p n = Nat.nth Nat.Prime (n - 1)` is the n-th prime (`p 1 = 2`), `π = Nat.primeCounting`.
-/
import PcProofs.NthPrime

namespace Pc.C06

local notation "π" => Nat.primeCounting

/-- the domain bound of the code is the one of the property statement (breaks when `max_n` is edited) -/
theorem maxN_pinned : Gen.nthPrimeMaxN = 216289611853439384 := rfl

/-- table regime: the generated 170-entry table holds the first 169 primes
    (from the kernel-checked obligation `Gen.nthPrimeTable_chain`) -/
theorem nthPrime_table (n : ℕ) (h1 : 1 ≤ n) (h2 : n < Gen.nthPrimeTableSize) : nthTable n = Spec.p n :=
  nthTable_eq n h1 h2

/-- `2 n + 1 ≤ p n` for `n ≥ 5`: the lower bound `low = 2 n` of the binary search is below the target -/
theorem two_mul_le_p (n : ℕ) (hn : 5 ≤ n) : 2 * n + 1 ≤ Spec.p n := nthp_two_mul_add_one_le_p hn

/-- binary-search regime: for a correct `pi_cache` on `[0, M]` the loop returns the n-th prime whenever
    `2 n ≤ p n ≤ M` -/
theorem nthPrime_bsearch (piCache : ℕ → ℕ) (M n : ℕ) (hn : 1 ≤ n) (hpc : ∀ m ≤ M, piCache m = π m)
    (h2 : 2 * n ≤ Spec.p n) (hM : Spec.p n ≤ M) : bsearch piCache M n = Spec.p n :=
  bsearch_eq piCache M n hn hpc h2 hM

/-- walk regime: for EVERY approximation `approx` (undershoot or overshoot, any distance) the walk from
    `approx` with `count_approx = π approx` ends on the n-th prime, for any iterator meeting its spec -/
theorem nthPrime_walk (it : PrimeIter) (hit : it.Spec) (approx n : ℕ) (hn : 1 ≤ n) :
    walk it approx n (π approx) = ((Spec.p n : ℕ) : ℤ) := walk_eq it hit approx n hn

/-- the forward branch (`count_approx < n`) is taken exactly when `approx` is below the target, so that
    `start = prime_approx + 1 ≤ p n` (no overflow of `prime_approx + 1`); the backward branch exactly when
    `p n ≤ approx` (so `prev_prime()` never runs out of primes) -/
theorem walk_direction (approx n : ℕ) (hn : 1 ≤ n) : π approx < n ↔ approx < Spec.p n := nthp_pi_lt_iff hn

/-- `nth_prime(n)` returns the n-th prime for every `1 ≤ n ≤ max_n`, whatever `RiemannR_inverse` returns
    (`env.approx` is unconstrained), given correct callees (`env.Correct`: iterator spec = C18,
    `pi = π` = C01, `pi_cache = π` on `[0, max_cached]` = C17) -/
theorem nthPrime_total (env : NthEnv) (henv : env.Correct) (n : ℕ) (h1 : 1 ≤ n) (h2 : n ≤ Gen.nthPrimeMaxN) :
    nthPrime env (n : ℤ) = .ok ((Spec.p n : ℕ) : ℤ) := nthPrime_ok env henv n h1 h2

/-- every `n` outside `[1, max_n]` is an error, never a number (no hypothesis on the callees) -/
theorem nthPrime_domain (env : NthEnv) (n : ℤ) (h : n < 1 ∨ n > (Gen.nthPrimeMaxN : ℤ)) :
    nthPrime env n = .error (if n < 1 then .tooSmall else .tooLarge) := nthPrime_err env n h

/-- the C wrapper returns `-1` exactly on those inputs and the prime otherwise -/
theorem cNthPrime_domain (env : NthEnv) (n : ℤ) (h : n < 1 ∨ n > (Gen.nthPrimeMaxN : ℤ)) :
    cNthPrime env n = -1 := by
  unfold cNthPrime; rw [nthPrime_err env n h]

theorem cNthPrime_total (env : NthEnv) (henv : env.Correct) (n : ℕ) (h1 : 1 ≤ n) (h2 : n ≤ Gen.nthPrimeMaxN) :
    cNthPrime env (n : ℤ) = ((Spec.p n : ℕ) : ℤ) := by
  unfold cNthPrime; rw [nthPrime_ok env henv n h1 h2]

/-- the result does not depend on the floating point approximation -/
theorem nthPrime_approx_irrelevant (env : NthEnv) (henv : env.Correct) (approx' : ℕ → ℕ) (n : ℕ)
    (h1 : 1 ≤ n) (h2 : n ≤ Gen.nthPrimeMaxN) :
    nthPrime { env with approx := approx' } (n : ℤ) = nthPrime env (n : ℤ) := by
  rw [nthPrime_ok env henv n h1 h2]
  exact nthPrime_ok { env with approx := approx' } ⟨henv.iter, henv.pi, henv.piCache⟩ n h1 h2

/-- exactly `n` primes are `≤ p n` -/
theorem pi_nthPrime (n : ℕ) (hn : 1 ≤ n) : π (Spec.p n) = n := nthp_pi_p hn

/-- `p (π x) ≤ x < p (π x + 1)` -/
theorem nthPrime_pi_bracket (x : ℕ) (hx : 2 ≤ x) : Spec.p (π x) ≤ x ∧ x < Spec.p (π x + 1) :=
  ⟨nthp_p_pi_le hx, nthp_lt_p_pi_succ x⟩

/-- the same two statements about the function itself -/
theorem nthPrime_inverts_pi (env : NthEnv) (henv : env.Correct) (x : ℕ) (hx : 2 ≤ x)
    (hmax : π x + 1 ≤ Gen.nthPrimeMaxN) :
    ∃ q r : ℕ, nthPrime env (π x : ℤ) = .ok (q : ℤ) ∧ nthPrime env ((π x + 1 : ℕ) : ℤ) = .ok (r : ℤ) ∧
      q ≤ x ∧ x < r ∧ π q = π x := by
  have h1 : 1 ≤ π x := nthp_one_le_pi_iff.2 hx
  exact ⟨_, _, nthPrime_ok env henv _ h1 (by omega), nthPrime_ok env henv _ (by omega) hmax,
    nthp_p_pi_le hx, nthp_lt_p_pi_succ x, nthp_pi_p h1⟩

/-- results fit `int64_t` provided the literature constant `max_n = π(2^63)` is not too large
    (`p max_n < 2^63`; not proved here) -/
theorem nthPrime_fits (hlit : Spec.p Gen.nthPrimeMaxN < 2 ^ 63) (n : ℕ) (h1 : 1 ≤ n) (h2 : n ≤ Gen.nthPrimeMaxN) :
    Spec.p n < 2 ^ 63 := by
  rcases Nat.eq_or_lt_of_le h2 with rfl | hlt
  · exact hlit
  · exact lt_trans (nthp_p_strictMono h1 hlt) hlit

/-! non-vacuity: the hypotheses are satisfiable, and concrete instances in each regime (tests) -/

/-- an environment meeting `NthEnv.Correct` exists, for every approximation function -/
example (approx : ℕ → ℕ) : ∃ env : NthEnv, env.approx = approx ∧ env.Correct :=
  ⟨⟨approx, fun x => π x, fun x => π x, specIter⟩, rfl, ⟨specIter_spec, fun _ => rfl, fun _ _ => rfl⟩⟩

example (env : NthEnv) (henv : env.Correct) : nthPrime env 5 = .ok 11 := by
  have := nthPrime_ok env henv 5 (by norm_num) (by decide)
  simpa [Spec.p] using this

/-- backward walk from far above, forward walk from 0 -/
example : walk specIter 1000 5 (π 1000) = 11 := by
  have := walk_eq specIter specIter_spec 1000 5 (by norm_num)
  simpa [Spec.p] using this
example : walk specIter 0 5 (π 0) = 11 := by
  have := walk_eq specIter specIter_spec 0 5 (by norm_num)
  simpa [Spec.p] using this

example (env : NthEnv) : nthPrime env 0 = .error .tooSmall := by
  simpa using nthPrime_err env 0 (by norm_num)
example (env : NthEnv) : nthPrime env (2 ^ 63 - 1) = .error .tooLarge := by
  have := nthPrime_err env (2 ^ 63 - 1) (by rw [maxN_pinned]; norm_num)
  simpa using this

end Pc.C06

#print axioms Pc.C06.maxN_pinned
#print axioms Pc.C06.nthPrime_table
#print axioms Pc.C06.two_mul_le_p
#print axioms Pc.C06.nthPrime_bsearch
#print axioms Pc.C06.nthPrime_walk
#print axioms Pc.C06.walk_direction
#print axioms Pc.C06.nthPrime_total
#print axioms Pc.C06.nthPrime_domain
#print axioms Pc.C06.cNthPrime_domain
#print axioms Pc.C06.cNthPrime_total
#print axioms Pc.C06.nthPrime_approx_irrelevant
#print axioms Pc.C06.pi_nthPrime
#print axioms Pc.C06.nthPrime_pi_bracket
#print axioms Pc.C06.nthPrime_inverts_pi
#print axioms Pc.C06.nthPrime_fits
