/-
C16 (and C12 "every such quantity fits its integer type") — machine-integer safety of the remaining loop accumulators
(work package "safety3"; continues PcProps/C16Safety.lean).  Only property theorems, non-vacuity examples and the axiom audit.

## S2_easy (src/deleglise-rivat/S2_easy.cpp, S2_easy_libdivide.cpp)
* `PcModel/SafetyEasy.lean`: width-checked mirrors `s2EasyOpenMPC`, `s2EasyLibdivideC` — the mirrors of PcModel/EasyLoops.lean with
  the product `phi_xpq * (l - lmin)` (`int64_t` resp. `uint64_t`), the conversion of an `int64_t` value to the unsigned `T`, every
  prefix of `T sum` (kernel-local, thread-private, reduced) and the conversion of the unsigned result to the signed return
  type checked.
* `PcProofs/SafetyEasyBound.lean`: `0 ≤ S2_easy x y c ≤ x` — each term `π(x/(p q)) - b + 2` counts numbers `p·q·n ≤ x`, `n = 1` or a
  prime `≥ p`; all of them odd; two injective families.
* `PcProofs/SafetyEasy.lean`: checked = unchecked whenever the final value fits (non-negative terms ⇒ prefixes ≤ total).
-/
import PcProofs.SafetyEasy
import PcProofs.SafetyACBound
import PcModel.Drv.EasyLoops

namespace Pc.C16Safety3
open Pc.Easy Pc.Safety Finset
open scoped Nat.Prime

/-! ## S2_easy -/

/-- **the value**: `0 ≤ S2_easy(x, y, c) ≤ x` for all `x`, `y` and every `c` with `c ≥ 1` or `y ≥ 4` (no level `p_b = 2`;
    primecount calls it with `c = PhiTiny::get_c(y) ≥ 1` for `y ≥ 2`, and for `y < 2` there is no level at all) -/
theorem S2_easy_bounds (x y c : ℕ) (hc : 1 ≤ max c (π (Nat.sqrt y))) :
    0 ≤ Spec.S2_easy x y c ∧ Spec.S2_easy x y c ≤ x :=
  ⟨S2_easy_nonneg x y c hc, S2_easy_le x y c hc⟩

/-- **S2_easy, 64-bit entry point (`T = uint64_t`, return type `int64_t`) — FULL**: every `x < 2^63`, every `y ≥ 1` with
    `⌊x^(1/3)⌋ ≤ y` (tables valid up to `y`), `z = x / y`, every `c` as above, EVERY distribution of the iterations over the
    team, both source files (S2_easy.cpp with any operand width `w`; S2_easy_libdivide.cpp with its 64/128 dispatch):
    the `int64_t` / `uint64_t` product `phi_xpq * (l - lmin)`, the conversion `int64_t → uint64_t` in `sum += …`, every prefix of
    every `uint64_t sum`, every reduction step and the final `uint64_t → int64_t` conversion are value-preserving; the result
    is `S2_easy x y c`. -/
theorem S2_easy_64_no_overflow {t : NT} (hv : t.Valid) {w : ITy} {x y c : ℕ} (hy1 : 1 ≤ y) (hy : y ≤ t.bound)
    (hx : x < 2 ^ 63) (hc3 : irootN 3 x ≤ y) (hy63 : y ≤ ITy.i64.maxVal) (hc : 1 ≤ max c (π (Nat.sqrt y)))
    {sched : List (List ℕ)} (hs : IsSchedule (max c (π (Nat.sqrt y)) + 1) (π (irootN 3 x)) sched) :
    s2EasyOpenMPC (2 ^ 64 - 1) (2 ^ 63 - 1) t w x y (x / y) c sched = .ok (Spec.S2_easy x y c) ∧
    s2EasyLibdivideC (2 ^ 64 - 1) (2 ^ 63 - 1) t x y (x / y) c sched = .ok (Spec.S2_easy x y c) := by
  have hx127 : x < 2 ^ 127 := lt_trans hx (by norm_num)
  have hoob := div_succ_le (x := x) hy1
  have hNT := NT.S2easy_eq (c := c) hv hy1 hy hc3
  have hle := S2_easy_le x y c hc
  have hx' : (x : ℤ) ≤ 2 ^ 63 - 1 := by
    have : (x : ℤ) < 2 ^ 63 := by exact_mod_cast hx
    omega
  have hprod : ∀ b, max c (π (Nat.sqrt y)) < b → b ≤ π (irootN 3 x) → easyB x y (x / y) b ≤ 2 ^ 63 - 1 := by
    intro b hb1 hb2
    have := easyB_le_total (c := c) hv hy hc3 hoob hb1 hb2
    rw [hNT] at this
    omega
  have hpm : ((plainKern w).prodMax : ℤ) = 2 ^ 63 - 1 := by
    rw [plainKern_prodMax]; norm_num
  have hM : t.S2easy x y (x / y) c ≤ ((2 ^ 64 - 1 : ℕ) : ℤ) := by
    rw [hNT]; push_cast; omega
  have hS : t.S2easy x y (x / y) c ≤ ((2 ^ 63 - 1 : ℕ) : ℤ) := by
    rw [hNT]; push_cast; omega
  constructor
  · rw [← hNT]
    exact s2EasyOpenMPC_eq_NT hv hy hy63 hx127 hc3 hoob le_rfl hs
      (fun b h1 h2 => by rw [hpm]; exact hprod b h1 h2) hM hS
  · rw [← hNT]
    exact s2EasyLibdivideC_eq_NT hv hy hy63 hx127 hc3 hoob le_rfl hs
      (fun b h1 h2 => by have := hprod b h1 h2; omega) hM hS

/-- **S2_easy, 128-bit entry point (`T = uint128_t`, return type `int128_t`) — PARTIAL**: every `x < 2^127`; `sum` (kernel-local,
    private, reduced: all `≤ S2_easy ≤ x < 2^127`) and the return conversion are covered in full.  What is covered only under the
    extra hypothesis `hπ : (π(y) + 1) · π(y) ≤ 2^63 - 1` (true for `y ≤ 7.2·10^10`) is the 64-BIT PRODUCT `phi_xpq * (l - lmin)`
    (`int64_t` in S2_easy.cpp, `uint64_t` in the libdivide file) — both operands are `≤ π(y) + 1`.  Missing for larger `y`
    (`x ≳ 10^27` with the default `alpha`): a bound on `(π(u) - b + 2) · #{primes q : π(xp / q) = π(u)}`, i.e. on the number of primes in
    an interval `(xp / p_{m+1}, xp / p_m]` — heuristically `≲ y`, but an elementary bound (Bertrand) only gives `≈ xp / 2`. -/
theorem S2_easy_128_no_overflow_partial {t : NT} (hv : t.Valid) {w : ITy} {x y c : ℕ} (hy1 : 1 ≤ y) (hy : y ≤ t.bound)
    (hx : x < 2 ^ 127) (hc3 : irootN 3 x ≤ y) (hy63 : y ≤ ITy.i64.maxVal) (hc : 1 ≤ max c (π (Nat.sqrt y)))
    (hπ : (π y + 1) * π y < 2 ^ 63)
    {sched : List (List ℕ)} (hs : IsSchedule (max c (π (Nat.sqrt y)) + 1) (π (irootN 3 x)) sched) :
    s2EasyOpenMPC (2 ^ 128 - 1) (2 ^ 127 - 1) t w x y (x / y) c sched = .ok (Spec.S2_easy x y c) ∧
    s2EasyLibdivideC (2 ^ 128 - 1) (2 ^ 127 - 1) t x y (x / y) c sched = .ok (Spec.S2_easy x y c) := by
  have hoob := div_succ_le (x := x) hy1
  have hNT := NT.S2easy_eq (c := c) hv hy1 hy hc3
  have hle := S2_easy_le x y c hc
  have hx' : (x : ℤ) ≤ 2 ^ 127 - 1 := by
    have : (x : ℤ) < 2 ^ 127 := by exact_mod_cast hx
    omega
  have hπ' : (((π y + 1) * π y : ℕ) : ℤ) ≤ 2 ^ 63 - 1 := by
    have : (((π y + 1) * π y : ℕ) : ℤ) < 2 ^ 63 := by exact_mod_cast hπ
    omega
  have hprod : ∀ b, max c (π (Nat.sqrt y)) < b → b ≤ π (irootN 3 x) → easyB x y (x / y) b ≤ 2 ^ 63 - 1 := by
    intro b hb1 hb2
    have := easyB_le_sq (x := x) (z := x / y) (b := b) (by omega) (le_trans hb2 (Spec.pi_mono hc3)) hoob
    omega
  have hpm : ((plainKern w).prodMax : ℤ) = 2 ^ 63 - 1 := by
    rw [plainKern_prodMax]; norm_num
  have hM : t.S2easy x y (x / y) c ≤ ((2 ^ 128 - 1 : ℕ) : ℤ) := by
    rw [hNT]; push_cast; omega
  have hS : t.S2easy x y (x / y) c ≤ ((2 ^ 127 - 1 : ℕ) : ℤ) := by
    rw [hNT]; push_cast; omega
  constructor
  · rw [← hNT]
    exact s2EasyOpenMPC_eq_NT hv hy hy63 hx hc3 hoob le_rfl hs
      (fun b h1 h2 => by rw [hpm]; exact hprod b h1 h2) hM hS
  · rw [← hNT]
    exact s2EasyLibdivideC_eq_NT hv hy hy63 hx hc3 hoob le_rfl hs
      (fun b h1 h2 => by have := hprod b h1 h2; omega) hM hS

/-! ## Gourdon's A and the C2 part of C (src/gourdon/AC.cpp) — VALUE bounds only -/

/-- the general counting bound behind `S2_easy ≤ x` and `C2 ≤ x`: for ANY set `S` of levels `b ≥ 2` and ANY sets `J b` of second prime
    indices `j > b` with `p_b² p_j ≤ x`: `Σ_b Σ_{j ∈ J b} (π(x / (p_b p_j)) - b + 2) ≤ x` -/
theorem easy_pairs_bound (x : ℕ) (S : Finset ℕ) (hS : ∀ b ∈ S, 2 ≤ b) (J : ℕ → Finset ℕ)
    (hJ : ∀ b ∈ S, ∀ j ∈ J b, b < j ∧ Spec.p b * Spec.p b * Spec.p j ≤ x) :
    ∑ b ∈ S, ∑ j ∈ J b, ((π (x / (Spec.p b * Spec.p j)) : ℤ) - b + 2) ≤ x :=
  easy_pairs_sum_le x S hS J hJ

/-- **`A` and the `C2` part of `C` — PARTIAL (value bounds; the width-checked mirrors of the `A` / `C1` / `C2` kernels of AC.cpp are not
    written)**: `0 ≤ A ≤ 12 x` for all arguments (prime triples; enough for `int128_t` up to `x = 10^31` and for `int64_t` up to
    `x ≤ 2^63 / 12`), and for every set `S` of levels `b ≥ 2` above `π√z` (`p_b ≤ y ≤ z`; there every `m` of the C-leaves is a prime
    and all terms are `≥ 0`) `0 ≤ Σ_{b ∈ S} -Cterm x y z b ≤ x` — every prefix of the `C2` accumulation, in any order, fits `T` as soon
    as `x` does.  Missing: `A ≤ x` near `2^63` (needs a Mertens-type bound), the `C1` levels `b ≤ π√z` (signed terms). -/
theorem A_C2_value_bounds_partial (x y z w c3 : ℕ) (hyz : y ≤ z) (S : Finset ℕ)
    (hS : ∀ b ∈ S, 2 ≤ b ∧ π (Nat.sqrt z) < b ∧ Spec.p b ≤ y) :
    (0 ≤ Spec.A x y w c3 ∧ Spec.A x y w c3 ≤ 12 * x) ∧
    (0 ≤ ∑ b ∈ S, (- Spec.Cterm x y z b) ∧ ∑ b ∈ S, (- Spec.Cterm x y z b) ≤ x) :=
  ⟨⟨A_nonneg x y w c3, A_le x y w c3⟩,
   ⟨C2_part_nonneg x y z hyz S (fun b hb => ⟨by have := (hS b hb).1; omega, (hS b hb).2⟩), C2_part_le x y z hyz S hS⟩⟩

/-! ## non-vacuity (tests, labelled as such) -/

/-- the hypotheses of `A_C2_value_bounds_partial` are satisfiable with a non-empty `S`: `y = z = 60`, level `b = 5` (`p 5 = 11 > √60`) -/
example := A_C2_value_bounds_partial 100000 60 60 17 46 le_rfl {5} (by
  intro b hb
  rw [Finset.mem_singleton] at hb
  subst hb
  have h5 : Spec.p 5 = 11 := by
    have : Nat.primeCounting 11 = 5 := by decide
    rw [← this]; exact Spec.p_pi_of_prime (by norm_num)
  have hs : Nat.sqrt 60 = 7 := by symm; rw [Nat.eq_sqrt]; norm_num
  refine ⟨by norm_num, ?_, ?_⟩
  · rw [hs]; decide
  · rw [h5]; norm_num)


/-- `S2_easy(100000, 60, 3) = 49`, team of 3 threads: the hypotheses of the 64-bit theorem are satisfiable -/
example := S2_easy_64_no_overflow (NT.build_valid 100) (w := .i64) (x := 100000) (y := 60) (c := 3) (by norm_num)
  (by show 60 ≤ 100; norm_num) (by norm_num)
  (by rw [irootN_eq_of (r := 46) (by norm_num) (by norm_num) (by norm_num)]; norm_num) (by decide)
  (by norm_num)
  (sched := easySched (max 3 (π (Nat.sqrt 60)) + 1) (π (irootN 3 100000)) 3)
  (staticSched1_isSchedule _ _ (lt_of_lt_of_le Nat.zero_lt_one (le_max_right 3 1)))

/-- the checks are not vacuous: a product / a sum / a negative value / a result that does not fit IS reported -/
example : ckProd .plain64 (2 ^ 63) = .error .ovfProd := by decide
example : ckProd .ld64 (2 ^ 63) = .ok (2 ^ 63) := by decide
example : ckProd .ld128 (2 ^ 64) = .error .ovfProd := by decide
example : accU 40 30 19 = .error .ovfAcc := by decide
example : accU 49 30 19 = .ok 49 := by decide
example : accU 49 30 (-1) = .error .negConv := by decide
example : retS 40 49 = .error .ovfRet := by decide

end Pc.C16Safety3

#print axioms Pc.C16Safety3.S2_easy_bounds
#print axioms Pc.C16Safety3.S2_easy_64_no_overflow
#print axioms Pc.C16Safety3.S2_easy_128_no_overflow_partial
#print axioms Pc.C16Safety3.easy_pairs_bound
#print axioms Pc.C16Safety3.A_C2_value_bounds_partial
