/-
C03 — results do not depend on thread count, interleaving or measured time: the DISPENSER / REDUCTION half.
Only property theorems, non-vacuity examples and the axiom audit live here.

Histories are lists of recorded `get_work` events of any length, by any number of workers in any order
(no bound anywhere); clock values and durations only enter through the float-derived choices of the L2 models,
which are arbitrary. `f` is the per-chunk function; the only thing assumed about it is additivity over adjacent
intervals (`Additive f : f [a,c) = f [a,b) + f [b,c)`), which is what `chunk_additive` establishes for the real
per-chunk functions elsewhere.
-/
import PcProofs.Dispenser2
namespace Pc.C03
open Pc.LB

/-- S2 (S2_hard, D): for every complete accepted history — the range is exhausted and every worker's last
    answer was `false` — of workers that report `f` of their chunk, `get_sum()` is `f [0, limit)`:
    independent of the number of workers, the return order and every measured time. -/
theorem dispenser_total (f : Chunk → Int) (hf : Additive f) (c : Consts) (hc : c.WF) (x limit threads : Nat)
    (print : Bool) (es : List S2.Ev)
    (hacc : (S2.sys (S2.mkConfig c limit threads print)).accepts (S2.init c x limit threads print) es = true)
    (hh : S2.Honest f (S2.mkConfig c limit threads print) (S2.init c x limit threads print) es)
    (hcomp : S2.Complete (S2.mkConfig c limit threads print)
      ((S2.sys (S2.mkConfig c limit threads print)).final (S2.init c x limit threads print) es)) :
    ((S2.sys (S2.mkConfig c limit threads print)).final (S2.init c x limit threads print) es).sum = f (0, limit) := by
  have L := S2.law (S2.mkConfig c limit threads print) (S2.mkConfig_al c hc limit threads print)
  have hi := S2.init_inv c hc x limit threads print
  have h0 : (S2.init c x limit threads print).low = 0 := by simp only [S2.init]; split <;> rfl
  have h1 : (S2.init c x limit threads print).sum = 0 := by simp only [S2.init]; split <;> rfl
  have h2 : (S2.init c x limit threads print).hands = [] := by simp only [S2.init]; split <;> rfl
  have hs := S2.sum_once f _ es _ hacc hh
  rw [h1, h2, S2.pendHands_complete f _ _ hcomp.2] at hs
  have hch := Sys.covers L _ es hi hacc
    (by show (S2.init c x limit threads print).low ≤ _; rw [h0]; exact Nat.zero_le _) hcomp.1
  have hp : (S2.sys (S2.mkConfig c limit threads print)).pos (S2.init c x limit threads print) = 0 := h0
  rw [hp] at hch
  have hsum := Chain.sum_additive hf hch
  have he := hf.empty limit
  have hl : (S2.sys (S2.mkConfig c limit threads print)).limit = limit := rfl
  rw [hl] at hsum
  simp only [S2.pendHands] at hs
  omega

/-- P2 / B: once the range is exhausted, the values of the chunks handed out add up to
    `f [min(isqrt x, limit), limit)`, whatever the team size, order and timing -/
theorem dispenser_total_p2 (f : Chunk → Int) (hf : Additive f) (c : Consts) (hc : c.WF) (x limit team : Nat)
    (print : Bool) (es : List P2.Ev)
    (hacc : (P2.sys ⟨limit, team, print⟩).accepts (P2.init c x limit team) es = true)
    (hdone : limit ≤ ((P2.sys ⟨limit, team, print⟩).final (P2.init c x limit team) es).low) :
    sumF f ((P2.sys ⟨limit, team, print⟩).chunks es) = f (min (ctSqrt x) limit, limit) := by
  have hch := Sys.covers (P2.law ⟨limit, team, print⟩) _ es (P2.init_inv c hc _ x limit team) hacc
    (P2.init_low_le c x limit team) hdone
  have hsum := Chain.sum_additive hf hch
  have he := hf.empty limit
  have hl : (P2.sys ⟨limit, team, print⟩).limit = limit := rfl
  have hs : (P2.sys ⟨limit, team, print⟩).pos (P2.init c x limit team) = min (ctSqrt x) limit := rfl
  rw [hl, hs] at hsum
  omega

/-- AC: once `[0, sqrtx)` is exhausted, the values of the chunks handed out add up to `f [0, sqrtx)` -/
theorem dispenser_total_ac (f : Chunk → Int) (hf : Additive f) (c : Consts) (hc : c.WF) (sqrtx y threads : Nat)
    (print : Bool) (es : List AC.Ev)
    (hacc : (AC.sys (AC.mkConfig c sqrtx y threads print)).accepts (AC.init c sqrtx threads print) es = true)
    (hdone : sqrtx ≤ ((AC.sys (AC.mkConfig c sqrtx y threads print)).final (AC.init c sqrtx threads print) es).low) :
    sumF f ((AC.sys (AC.mkConfig c sqrtx y threads print)).chunks es) = f (0, sqrtx) := by
  have hch := Sys.covers (AC.law _ (AC.mkConfig_wf c hc sqrtx y threads print)) _ es
    (AC.init_inv c hc sqrtx y threads print) hacc (Nat.zero_le _) hdone
  have hsum := Chain.sum_additive hf hch
  have he := hf.empty sqrtx
  have hl : (AC.sys (AC.mkConfig c sqrtx y threads print)).limit = sqrtx := rfl
  have hs : (AC.sys (AC.mkConfig c sqrtx y threads print)).pos (AC.init c sqrtx threads print) = 0 := rfl
  rw [hl, hs] at hsum
  omega

/-- OpenMP `reduction(+: sum)`: the values `vs` are distributed over the workers in ANY way (`parts`: one list
    per worker, together a permutation of `vs`), every worker adds its own values, and the partial sums are
    added in ANY order (`order`): the result is the plain sum of `vs`. -/
theorem reduction_any_order (vs : List Int) (parts : List (List Int)) (hp : parts.flatten.Perm vs)
    (order : List Int) (ho : order.Perm (parts.map isum)) : isum order = isum vs := by
  rw [isum_perm ho, ← isum_flatten, isum_perm hp]

/-- the dispenser + reduction together (P2, B, AC: each worker keeps a private sum of its chunks) -/
theorem dispenser_reduction_total_p2 (f : Chunk → Int) (hf : Additive f) (c : Consts) (hc : c.WF)
    (x limit team : Nat) (print : Bool) (es : List P2.Ev)
    (hacc : (P2.sys ⟨limit, team, print⟩).accepts (P2.init c x limit team) es = true)
    (hdone : limit ≤ ((P2.sys ⟨limit, team, print⟩).final (P2.init c x limit team) es).low)
    (parts : List (List Int)) (hp : parts.flatten.Perm (((P2.sys ⟨limit, team, print⟩).chunks es).map f))
    (order : List Int) (ho : order.Perm (parts.map isum)) :
    isum order = f (min (ctSqrt x) limit, limit) := by
  rw [reduction_any_order _ parts hp order ho, ← sumF_eq_isum]
  exact dispenser_total_p2 f hf c hc x limit team print es hacc hdone

/-- atomic fetch-add loop `for (i = counter++; i <= hi; i = counter++)` (`min_c1++`, `min_b++`): for EVERY
    interleaving `ws` (the list of workers in the order in which their `counter++` take effect), the indices
    whose loop body runs are `lo, lo+1, …` without repetition; with enough draws every index of `[lo, hi]`
    is taken, by exactly one worker; and draws made after the counter passed `hi` get nothing (each worker's
    loop ends with its next draw). -/
theorem atomic_counter_once (lo hi : Nat) (ws : List Nat) :
    (fetchAddRun hi lo ws).2.map Prod.snd = List.range' lo (min ws.length (hi + 1 - lo)) ∧
    (hi + 1 - lo ≤ ws.length → ∀ i, lo ≤ i → i ≤ hi →
      (∃ w, (w, i) ∈ (fetchAddRun hi lo ws).2) ∧
      ∀ w1 w2, (w1, i) ∈ (fetchAddRun hi lo ws).2 → (w2, i) ∈ (fetchAddRun hi lo ws).2 → w1 = w2) ∧
    (fetchAddRun hi lo ws).1 = lo + ws.length ∧
    (∀ more : List Nat, hi < (fetchAddRun hi lo ws).1 → (fetchAddRun hi (fetchAddRun hi lo ws).1 more).2 = []) := by
  have hidx := fetchAdd_indices hi ws lo
  refine ⟨hidx, ?_, fetchAdd_counter hi ws lo, ?_⟩
  · intro hen i h1 h2
    have hmem : i ∈ (fetchAddRun hi lo ws).2.map Prod.snd := by
      rw [hidx, List.mem_range'_1]; omega
    constructor
    · obtain ⟨p, hp, rfl⟩ := List.mem_map.1 hmem
      exact ⟨p.1, hp⟩
    · -- uniqueness: the index list has no duplicates
      have hnd : ((fetchAddRun hi lo ws).2.map Prod.snd).Nodup := by rw [hidx]; exact List.nodup_range'
      have key : ∀ (l : List (Nat × Nat)), (l.map Prod.snd).Nodup → ∀ w1 w2 j, (w1, j) ∈ l → (w2, j) ∈ l → w1 = w2 := by
        intro l
        induction l with
        | nil => intro _ _ _ _ h; simp at h
        | cons p l ih =>
          intro hn w1 w2 j m1 m2
          simp only [List.map_cons, List.nodup_cons] at hn
          rcases List.mem_cons.1 m1 with e1 | m1' <;> rcases List.mem_cons.1 m2 with e2 | m2'
          · rw [← e1] at e2; exact (Prod.mk.inj e2).1.symm
          · exfalso; apply hn.1; rw [← e1]; exact List.mem_map.2 ⟨(w2, j), m2', rfl⟩
          · exfalso; apply hn.1; rw [← e2]; exact List.mem_map.2 ⟨(w1, j), m1', rfl⟩
          · exact ih hn.2 w1 w2 j m1' m2'
      exact fun w1 w2 => key _ hnd w1 w2 i
  · intro more hgt
    have := fetchAdd_indices hi more (fetchAddRun hi lo ws).1
    have hz : min more.length (hi + 1 - (fetchAddRun hi lo ws).1) = 0 := by omega
    rw [hz] at this
    simpa using this

/-- the team size is irrelevant: two complete accepted histories of the S2 dispenser for the same range —
    with different numbers of threads, print modes, `x`, orders, durations — accumulate the same sum -/
theorem team_size_irrelevant (f : Chunk → Int) (hf : Additive f) (c : Consts) (hc : c.WF) (limit : Nat)
    (x1 threads1 : Nat) (print1 : Bool) (es1 : List S2.Ev) (x2 threads2 : Nat) (print2 : Bool) (es2 : List S2.Ev)
    (hacc1 : (S2.sys (S2.mkConfig c limit threads1 print1)).accepts (S2.init c x1 limit threads1 print1) es1 = true)
    (hh1 : S2.Honest f (S2.mkConfig c limit threads1 print1) (S2.init c x1 limit threads1 print1) es1)
    (hc1 : S2.Complete (S2.mkConfig c limit threads1 print1)
      ((S2.sys (S2.mkConfig c limit threads1 print1)).final (S2.init c x1 limit threads1 print1) es1))
    (hacc2 : (S2.sys (S2.mkConfig c limit threads2 print2)).accepts (S2.init c x2 limit threads2 print2) es2 = true)
    (hh2 : S2.Honest f (S2.mkConfig c limit threads2 print2) (S2.init c x2 limit threads2 print2) es2)
    (hc2 : S2.Complete (S2.mkConfig c limit threads2 print2)
      ((S2.sys (S2.mkConfig c limit threads2 print2)).final (S2.init c x2 limit threads2 print2) es2)) :
    ((S2.sys (S2.mkConfig c limit threads1 print1)).final (S2.init c x1 limit threads1 print1) es1).sum =
    ((S2.sys (S2.mkConfig c limit threads2 print2)).final (S2.init c x2 limit threads2 print2) es2).sum := by
  rw [dispenser_total f hf c hc x1 limit threads1 print1 es1 hacc1 hh1 hc1,
      dispenser_total f hf c hc x2 limit threads2 print2 es2 hacc2 hh2 hc2]

/-- the same for P2/B with two different team sizes (and for AC by `dispenser_total_ac`) -/
theorem team_size_irrelevant_p2 (f : Chunk → Int) (hf : Additive f) (c : Consts) (hc : c.WF) (x limit : Nat)
    (team1 : Nat) (print1 : Bool) (es1 : List P2.Ev) (team2 : Nat) (print2 : Bool) (es2 : List P2.Ev)
    (hacc1 : (P2.sys ⟨limit, team1, print1⟩).accepts (P2.init c x limit team1) es1 = true)
    (hd1 : limit ≤ ((P2.sys ⟨limit, team1, print1⟩).final (P2.init c x limit team1) es1).low)
    (hacc2 : (P2.sys ⟨limit, team2, print2⟩).accepts (P2.init c x limit team2) es2 = true)
    (hd2 : limit ≤ ((P2.sys ⟨limit, team2, print2⟩).final (P2.init c x limit team2) es2).low) :
    sumF f ((P2.sys ⟨limit, team1, print1⟩).chunks es1) = sumF f ((P2.sys ⟨limit, team2, print2⟩).chunks es2) := by
  rw [dispenser_total_p2 f hf c hc x limit team1 print1 es1 hacc1 hd1,
      dispenser_total_p2 f hf c hc x limit team2 print2 es2 hacc2 hd2]

/-- `ideal_num_threads` never returns less than one thread (whatever `max_threads` it computes) -/
theorem ideal_num_threads_pos (sieveLimit threads threshold : Int) : 1 ≤ idealNumThreads sieveLimit threads threshold := by
  have key : ∀ lo x hi : Int, lo ≤ inBetween lo x hi := by
    intro lo x hi
    unfold inBetween
    split
    · exact Int.le_refl _
    · rename_i h
      simp only [Bool.or_eq_true, decide_eq_true_eq, not_or, Int.not_lt] at h
      split <;> omega
  simp only [idealNumThreads]
  exact key _ _ _

/-! ### non-vacuity (tests, labelled as such) -/

/-- an additive `f` exists: interval length -/
example : Additive (fun c : Chunk => ((c.2 : Int) - c.1)) := by
  intro a b c _ _; simp only; omega

/-- 3 workers drawing in the order 0,1,0,2,1,0 from a counter at 5 with hi = 7: indices 5,6,7 once each -/
example : fetchAddRun 7 5 [0, 1, 0, 2, 1, 0] = (11, [(0, 5), (1, 6), (0, 7)]) := by decide

example : isum [3, 1, 2] = isum [1, 2, 3] := isum_perm (by decide)

end Pc.C03

#print axioms Pc.C03.dispenser_total
#print axioms Pc.C03.dispenser_total_p2
#print axioms Pc.C03.dispenser_total_ac
#print axioms Pc.C03.reduction_any_order
#print axioms Pc.C03.dispenser_reduction_total_p2
#print axioms Pc.C03.atomic_counter_once
#print axioms Pc.C03.team_size_irrelevant
#print axioms Pc.C03.team_size_irrelevant_p2
#print axioms Pc.C03.ideal_num_threads_pos
