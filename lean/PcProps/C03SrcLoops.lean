/-
C03 — source-mirror obligations of the hard-leaf and easy-leaf engines (see PcProps/C08Src.lean for the mechanism):
`S2_hard_thread`, `S2_hard_OpenMP`, `D_thread`, `D_OpenMP` (PcModel/HardLoops.lean), their AVX512 / SVE twin translation
units (which must be the default text up to the counting primitive `Sieve::count`), and `S2_easy*`, `A`, `C1`, `C2`,
-/
import PcGen.SrcMirrorHardLoopsObl

namespace Pc.C03SrcLoops

theorem models_mirror_source_HardLoops : Pc.SrcMirror.HardLoops.AllText := Pc.SrcMirror.HardLoops.all_text


end Pc.C03SrcLoops

#print axioms Pc.C03SrcLoops.models_mirror_source_HardLoops
