/-
C18 (WP iter2) — `PrimeSieve::nthPrime(n, start)` (/repo/lib/primesieve/src/nthPrime.cpp:53-187) returns the n-th prime above
(n > 0) / below (n < 0) `start`, for any outcome of the float approximations that steer it.
Only property theorems, non-vacuity examples and the axiom audit live here.
Model: PcModel/Iter.lean (`nextK`, `prevK`, `nthPrimePos`, `nthPrimeNeg`, `nthPrime`). Proofs: PcProofs/IterNth.lean on top of the
iterator refinement PcProofs/IterHist.lean (`next_step`, `prev_step`).
-/
import PcProofs.IterNth

namespace Pc.C18
open Pc.It

/-- **`nth_prime_correct`** — `nthPrime(int64_t n, uint64_t start)` with `countPrimes` = the exact prime count (`primeCnt`).
    Quantified over EVERY sieving core meeting `GenSpec` (with every batching and every iterator float), EVERY outcome of
    `primePiApprox`, `avgPrimeGap`, `isqrt` (any function) and of `nthPrimeApprox` (any function with uint64 values), every
    `start <= 2^64-1` and every `n`:
    * `n >= 0`, `k := (n = 0 ? 1 : n)`: `k > max_n` throws "n must be <= max_n"; otherwise the result is the prime `p` with
      exactly `k` primes in `[start+1, p]` (the `k`-th prime above `start`) — whether the approximation undershoots (count
      forward with `next_prime()`) or overshoots (step back with `prev_prime()`, which then never sees 0) —, and the iterator's
      `primesieve_error` when `(start, 2^64-1]` holds fewer than `k` primes;
    * `n < 0`, `m := -n`: `m >= start` or `m > max_n` throws "abs(n) must be …"; otherwise the result is the prime `q < start` with
      exactly `m` primes in `[q, start-1]` (the `m`-th prime below `start`), and "nth prime < 2 is impossible" when fewer than
      `m` primes lie below `start`. -/
theorem nth_prime_correct (e : Env) (he : GenSpec e) (nf : NthFloats) (hna : ∀ x, nf.nthApprox x ≤ umax)
    (n : ℤ) (start : ℕ) (hs : start ≤ umax) :
    (0 ≤ n → (if n.toNat = 0 then 1 else n.toNat) > maxN → nthPrime e nf primeCnt n start = .error .tooLarge) ∧
    (0 ≤ n → (if n.toNat = 0 then 1 else n.toNat) ≤ maxN →
      (∀ p, p.Prime → start < p → p ≤ umax → primeCnt (start + 1) p = (if n.toNat = 0 then 1 else n.toNat) →
        nthPrime e nf primeCnt n start = .ok p) ∧
      (primeCnt (start + 1) umax < (if n.toNat = 0 then 1 else n.toNat) →
        nthPrime e nf primeCnt n start = .error (.iter .ps))) ∧
    (n < 0 → (n.natAbs ≥ start ∨ n.natAbs > maxN) → nthPrime e nf primeCnt n start = .error .absTooLarge) ∧
    (n < 0 → n.natAbs < start → n.natAbs ≤ maxN →
      (∀ q, q.Prime → q < start → primeCnt q (start - 1) = n.natAbs → nthPrime e nf primeCnt n start = .ok q) ∧
      (primeCnt 0 (start - 1) < n.natAbs → nthPrime e nf primeCnt n start = .error .below2)) :=
  nthPrime_correct e he nf hna n start hs

/-- `n >= 0`, totality: exactly one of the two outcomes happens — the `k`-th prime above `start0` exists below 2^64 and is
    returned, or no prime `p <= 2^64-1` has `k` primes in `[start0+1, p]` and `primesieve_error` is thrown -/
theorem nth_prime_pos_total (e : Env) (he : GenSpec e) (nf : NthFloats) (hna : ∀ x, nf.nthApprox x ≤ umax)
    (n0 start0 : ℕ) (hs : start0 ≤ umax) (hn : (if n0 = 0 then 1 else n0) ≤ maxN) :
    (∃ p, p.Prime ∧ start0 < p ∧ p ≤ umax ∧ primeCnt (start0 + 1) p = (if n0 = 0 then 1 else n0) ∧
      nthPrimePos e nf primeCnt n0 start0 = .ok p) ∨
    ((∀ p, p.Prime → start0 < p → p ≤ umax → primeCnt (start0 + 1) p ≠ (if n0 = 0 then 1 else n0)) ∧
      nthPrimePos e nf primeCnt n0 start0 = .error (.iter .ps)) :=
  nthPrimePos_total e he nf hna n0 start0 hs hn

/-- `n < 0`, totality (no hypothesis on any float): the `m`-th prime below `start0` is returned, or there is none and
    "nth prime < 2 is impossible" is thrown -/
theorem nth_prime_neg_total (e : Env) (he : GenSpec e) (nf : NthFloats) (m start0 : ℕ) (hs : start0 ≤ umax)
    (hm1 : 1 ≤ m) (hm : m < start0) (hmN : m ≤ maxN) :
    (∃ q, q.Prime ∧ q < start0 ∧ primeCnt q (start0 - 1) = m ∧ nthPrimeNeg e nf primeCnt m start0 = .ok q) ∨
    ((∀ q, q.Prime → q < start0 → primeCnt q (start0 - 1) ≠ m) ∧ nthPrimeNeg e nf primeCnt m start0 = .error .below2) :=
  nthPrimeNeg_total e he nf m start0 hs hm1 hm hmN

/-! non-vacuity: the hypotheses are instantiated on the reference core (any floats, any batching) and on ANY approximation -/

example (fl : Floats) (batch : ℕ → ℕ) : GenSpec (refEnv fl batch) := refEnv_spec fl batch
example : ∀ x, (⟨fun _ => 0, fun x => x % 1000, fun _ => 7, fun _ => 0⟩ : NthFloats).nthApprox x ≤ umax := by
  intro x; show x % 1000 ≤ umax; unfold umax; omega

/-- the 5th prime above 10 is 23 — whatever the approximations say (undershoot: forward loop; overshoot: backward loop) -/
example (fl : Floats) (batch : ℕ → ℕ) (nf : NthFloats) (hna : ∀ x, nf.nthApprox x ≤ umax) :
    nthPrime (refEnv fl batch) nf primeCnt 5 10 = .ok 23 :=
  ((nth_prime_correct _ (refEnv_spec fl batch) nf hna 5 10 (by decide)).2.1 (by decide) (by decide)).1 23
    (by norm_num) (by decide) (by decide) (by decide)
/-- `nth_prime(0, 7) = nth_prime(1, 7) = 11` -/
example (fl : Floats) (batch : ℕ → ℕ) (nf : NthFloats) (hna : ∀ x, nf.nthApprox x ≤ umax) :
    nthPrime (refEnv fl batch) nf primeCnt 0 7 = .ok 11 :=
  ((nth_prime_correct _ (refEnv_spec fl batch) nf hna 0 7 (by decide)).2.1 (by decide) (by decide)).1 11
    (by norm_num) (by decide) (by decide) (by decide)
/-- the 3rd prime below 20 is 13 -/
example (fl : Floats) (batch : ℕ → ℕ) (nf : NthFloats) (hna : ∀ x, nf.nthApprox x ≤ umax) :
    nthPrime (refEnv fl batch) nf primeCnt (-3) 20 = .ok 13 :=
  ((nth_prime_correct _ (refEnv_spec fl batch) nf hna (-3) 20 (by decide)).2.2.2 (by decide) (by decide) (by decide)).1 13
    (by norm_num) (by decide) (by decide)
/-- there are only 4 primes below 10: `nth_prime(-5, 10)` throws "nth prime < 2 is impossible" -/
example (fl : Floats) (batch : ℕ → ℕ) (nf : NthFloats) (hna : ∀ x, nf.nthApprox x ≤ umax) :
    nthPrime (refEnv fl batch) nf primeCnt (-5) 10 = .error .below2 :=
  ((nth_prime_correct _ (refEnv_spec fl batch) nf hna (-5) 10 (by decide)).2.2.2 (by decide) (by decide) (by decide)).2
    (by decide)
/-- the error guards -/
example (fl : Floats) (batch : ℕ → ℕ) (nf : NthFloats) (hna : ∀ x, nf.nthApprox x ≤ umax) :
    nthPrime (refEnv fl batch) nf primeCnt (-10) 10 = .error .absTooLarge :=
  (nth_prime_correct _ (refEnv_spec fl batch) nf hna (-10) 10 (by decide)).2.2.1 (by decide) (Or.inl (by decide))

end Pc.C18

#print axioms Pc.C18.nth_prime_correct
#print axioms Pc.C18.nth_prime_pos_total
#print axioms Pc.C18.nth_prime_neg_total
