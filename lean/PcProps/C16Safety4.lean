/-
C16 (and C12 "every such quantity fits its integer type") — machine-integer safety, last part (work package "safety4";
continues PcProps/C16Safety.lean and C16Safety3.lean).  Only property theorems, non-vacuity examples and the axiom audit.

## S2_hard / D (src/deleglise-rivat/S2_hard.cpp, src/gourdon/D.cpp, src/LoadBalancerS2.cpp:112)
* `PcModel/SafetyHard.lean`: width-checked mirrors `s2HardThreadC`, `dThreadC` (every `int64_t` local of the thread functions:
  `low + segment_size·segments`, `low + segment_size`, `count`, `phi[b] + count`, `mu_m * phi_xpm`, `phi[b] += total`; the conversion
  `thread.sum = (T) sum` of the UNSIGNED accumulator) and `lbTotalC` (`sum_ += thread.sum` in `int128_t`, final `(T) get_sum()`).
* `PcProofs/SafetyHardEngine.lean`, `SafetyHardThread.lean`: checked = unchecked by the engine's own invariant
  (`phi[b] + count = φ(xpm, b−1) ≤ xpm < high ≤ z`).
* `PcProofs/SafetyHardBound.lean`, `SafetyHardAbs.lean`: the absolute majorant of all hard leaves, `≤ Σ_{a < n ≤ N} ⌊x/n⌋ ≤ x·(k − j)` for `2^j ≤ a + 1`,
  `N < 2^k` (`(b, m) ↦ p_b·m` is injective; dyadic harmonic bound) — additive over windows, so it bounds every chunk value and
  every partial sum of chunk values in ANY order of arrival.

## S1 / Phi0 (src/S1.cpp, src/gourdon/Phi0.cpp) — `T` is the SIGNED `int64_t` / `int128_t`
* `PcModel/SafetyLeaf.lean`: `leafThreadC`, `leafBodyC`, `ompReduceC`, `leafOpenMPC` — `MU * phi_tiny(…)`, every `s1 += …` of every
  recursion level, the thread-private copies and the reduction checked.
* `PcProofs/SafetyLeaf.lean`, `SafetyLeafOmp.lean`: checked = unchecked as soon as the absolute sum of all ordinary leaves
  `absG = Σ_n φ(x/n, c)` fits; the leaves are distinct numbers `n ≤ z`, so `absG ≤ Σ_{n ≤ z} ⌊x/n⌋ ≤ x·k` for `z < 2^k`.

## A / C (src/gourdon/AC.cpp) — `T` is UNSIGNED (`uint64_t` / `uint128_t`), converted to the signed return type at the end
* `PcModel/SafetyAC.lean`: `wrapS N v` = what an `N`-bit unsigned accumulation of true value `v` becomes after the conversion.
* `PcProofs/SafetyACAbs.lean`: every sum of `Cterm` over any set of levels (C1 and C2 kernels, signed terms) is within `±x·(k − j)`
  (`2^j ≤ z + 1`, `z² < 2^k`); with `0 ≤ A ≤ 12x` (wp-safety3): `−x·(k−j) ≤ A + C ≤ 12x + x·(k−j)`.  No mirror of the kernels (see notes/wp-safety4.md).
-/
import PcProofs.SafetyHardRange
import PcProofs.HardExamples
import PcProofs.SafetyLeafOmp
import PcProofs.SafetyACWrap

namespace Pc.C16Safety4
open Pc Pc.Hard Nat Finset
open scoped Nat.Prime

/-! ## S2_hard / D -/

/-- **`S2_hard_thread`: no `int64_t` local overflows, for EVERY work item** (hypotheses of C08's `hard_chunk_eq` plus
    `low + segment_size·segments ≤ 2^63 − 1`, which `LoadBalancerS2` must guarantee — F10 of wp-safety): `count`,
    `phi[b] + count`, `mu_m * phi_xpm`, `phi[b] += sieve.get_total_count()`, `low + segment_size` are value-preserving, and
    `thread.sum = (T) sum` is value-preserving for the signed `T` with maximum `sMax` as soon as `2^j ≤ y + 1`, `max(z, y²) < 2^k`, `x·(k − j) ≤ sMax` (leaf products lie in `(y, max(z, y²)]`).
    The result is the chunk value `hardF`. -/
theorem S2_hard_thread_no_overflow {σ : Type} {S : SieveOps σ} {e : Env} {P tmax x y z c low segments segSize j k sMax : ℕ}
    (hS : ∀ K, K ≤ π P → ∃ H : SieveSpec S K, H.segOK low segSize)
    (hE : EnvOK e P) (hP : P = min y (z / Nat.sqrt y)) (hF : FactorOK e tmax y)
    (hy : 1 ≤ y) (hyz : y ≤ z) (hzyx : z * y ≤ x) (hc : 4 ≤ c) (heven : 2 ∣ low)
    (hsz : 1 ≤ segSize) (hsegs : 1 ≤ segments) (hlow : low < z)
    (hiM : low + segSize * segments ≤ 2 ^ 63 - 1) (hj : 2 ^ j ≤ y + 1) (hk : max z (y * y) < 2 ^ k)
    (hxk : x * (k - j) ≤ sMax) :
    s2HardThreadC (2 ^ 63 - 1) sMax S e x y z c low segments segSize =
      .ok (hardF x y z c (low, chunkLimit low segments segSize z)) := by
  apply s2HardThreadC_eq hS hE hP hF hy hyz hzyx hc heven hsz hsegs hlow hiM
  have h1 := abs_hardF_le x y z c (low, chunkLimit low segments segSize z)
  have h2 := absHardF_le_range (x := x) (c := c) hj hk (low, chunkLimit low segments segSize z)
  have h3 := abs_le.1 (le_trans h1 h2)
  change fitsS sMax (hardF x y z c (low, chunkLimit low segments segSize z))
  unfold fitsS
  have : ((x * (k - j) : ℕ) : ℤ) ≤ (sMax : ℤ) := by exact_mod_cast hxk
  omega

/-- **`D_thread`: the same for Gourdon's D** (hypotheses of `d_chunk_eq`; value condition `2^j ≤ z + 1`, `y·z < 2^k`, `x·(k − j) ≤ sMax`) -/
theorem D_thread_no_overflow {σ : Type} {S : SieveOps σ} {e : Env} {tmax x xs y z k low segments segSize j k' sMax : ℕ}
    (hS : ∀ K, K ≤ π y → ∃ H : SieveSpec S K, H.segOK low segSize)
    (hE : EnvOK e y) (hF : FactorDOK e tmax y z)
    (hyz : y ≤ z) (hsz : Nat.sqrt z ≤ y) (hxs : xs ≤ y) (hk : 4 ≤ k) (heven : 2 ∣ low)
    (hsize : 1 ≤ segSize) (hsegs : 1 ≤ segments) (hlow : low < x / z)
    (hiM : low + segSize * segments ≤ 2 ^ 63 - 1) (hj : 2 ^ j ≤ z + 1) (hk' : y * z < 2 ^ k')
    (hxk : x * (k' - j) ≤ sMax) :
    dThreadC (2 ^ 63 - 1) sMax S e x xs (x / z) y z k low segments segSize =
      .ok (dF x y z k xs (low, chunkLimit low segments segSize (x / z))) := by
  apply dThreadC_eq_gen hS hE hF hyz hsz hxs (Nat.div_mul_le_self x z) hk heven hsize hsegs hlow hiM
  have h1 := abs_dF_le x y z k xs (low, chunkLimit low segments segSize (x / z))
  have h2 := absDF_le_range (x := x) (k := k) hxs hyz hj hk' (low, chunkLimit low segments segSize (x / z))
  have h3 := abs_le.1 (le_trans h1 h2)
  change fitsS sMax (dF x y z k xs (low, chunkLimit low segments segSize (x / z)))
  unfold fitsS
  have : ((x * (k' - j) : ℕ) : ℤ) ≤ (sMax : ℤ) := by exact_mod_cast hxk
  omega

/-- **every chunk value and the absolute majorant**: `|hardF w| ≤ x·(k − j)` for every window `w` (`2^j ≤ y + 1`, `max(z, y²) < 2^k`), and
    `|dF w| ≤ x·(k' − j)` (`2^j ≤ z + 1`, `y·z < 2^k'`, `x⋆ ≤ y ≤ z`) — no hypothesis on `x`, `y`, `z` beyond these -/
theorem hard_values_bounded (x y z c j k : ℕ) (hj : 2 ^ j ≤ y + 1) (hk : max z (y * y) < 2 ^ k) (w : LB.Chunk) :
    |hardF x y z c w| ≤ ((x * (k - j) : ℕ) : ℤ) :=
  le_trans (abs_hardF_le x y z c w) (absHardF_le_range hj hk w)

theorem D_values_bounded (x y z k xs j k' : ℕ) (hxs : xs ≤ y) (hyz : y ≤ z) (hj : 2 ^ j ≤ z + 1) (hk : y * z < 2 ^ k')
    (w : LB.Chunk) : |dF x y z k xs w| ≤ ((x * (k' - j) : ℕ) : ℤ) :=
  le_trans (abs_dF_le x y z k xs w) (absDF_le_range hxs hyz hj hk w)

/-- **`S2_hard_OpenMP`'s accumulation `sum_ += thread.sum` (LoadBalancerS2.cpp:112, `int128_t`) and the final `(T)` conversion,
    for EVERY order in which the threads report**: `cs` any chain of work items covering `[0, z)`, `order` any permutation of
    it; if `2^j ≤ y + 1`, `max(z, y²) < 2^k`, `x·(k−j) ≤ aMax` (`aMax = 2^127 − 1`) and `x·(k−j) ≤ sMax`: no step overflows and the result is
    `hardF (0, z)` (`= Spec.S2_hard` by C08's `hard_window_full`) -/
theorem S2_hard_sum_no_overflow (x y z c j k aMax sMax : ℕ) (hj : 2 ^ j ≤ y + 1) (hk : max z (y * y) < 2 ^ k)
    (ha : x * (k - j) ≤ aMax) (hs : x * (k - j) ≤ sMax)
    {cs order : List LB.Chunk} (hch : LB.Chain 0 z cs) (hperm : order.Perm cs) :
    lbTotalC aMax sMax (order.map (hardF x y z c)) = .ok (hardF x y z c (0, z)) := by
  refine lbTotalC_ok (hardF_additive x y z c) (absF_additive _ _ _ _) (abs_hardF_le x y z c) hch hperm ?_ ?_
  · exact le_trans (absHardF_le_range hj hk (0, z)) (by exact_mod_cast ha)
  · have h3 := abs_le.1 (hard_values_bounded x y z c j k hj hk (0, z))
    unfold fitsS
    have : ((x * (k - j) : ℕ) : ℤ) ≤ (sMax : ℤ) := by exact_mod_cast hs
    omega

/-- **`D_OpenMP`'s accumulation**, same statement for the D-leaves (chain over `[0, x/z)`) -/
theorem D_sum_no_overflow (x y z k xs j k' aMax sMax : ℕ) (hxs : xs ≤ y) (hyz : y ≤ z) (hj : 2 ^ j ≤ z + 1)
    (hk : y * z < 2 ^ k') (ha : x * (k' - j) ≤ aMax) (hs : x * (k' - j) ≤ sMax)
    {cs order : List LB.Chunk} (hch : LB.Chain 0 (x / z) cs) (hperm : order.Perm cs) :
    lbTotalC aMax sMax (order.map (dF x y z k xs)) = .ok (dF x y z k xs (0, x / z)) := by
  refine lbTotalC_ok (dF_additive x y z k xs) (absF_additive _ _ _ _) (abs_dF_le x y z k xs) hch hperm ?_ ?_
  · exact le_trans (absDF_le_range hxs hyz hj hk (0, x / z)) (by exact_mod_cast ha)
  · have h3 := abs_le.1 (D_values_bounded x y z k xs j k' hxs hyz hj hk (0, x / z))
    unfold fitsS
    have : ((x * (k' - j) : ℕ) : ℤ) ≤ (sMax : ℤ) := by exact_mod_cast hs
    omega

/-- **`prime * prime` of D.cpp:108/146 (an `int64_t` product) fits**: every level the loops of `D_thread` visit has
    `b ≤ max_b = π(min3(√(x/low1), √limit, x⋆))`, hence `p_b² ≤ limit ≤ x/z < 2^63` -/
theorem D_prime_square_fits (x xs low limit b : ℕ) (hb1 : 1 ≤ b)
    (hb : b ≤ π (min (min (Nat.sqrt (x / max low 1)) (Nat.sqrt limit)) xs)) : Spec.p b * Spec.p b ≤ limit := by
  have h1 : Spec.p b ≤ min (min (Nat.sqrt (x / max low 1)) (Nat.sqrt limit)) xs := (Spec.p_le_iff hb1).2 hb
  have h2 : Spec.p b ≤ Nat.sqrt limit := le_trans h1 (le_trans (min_le_left _ _) (min_le_right _ _))
  exact le_trans (Nat.mul_le_mul h2 h2) (Nat.sqrt_le limit)

/-! non-vacuity (tests, labelled as such): the hypotheses hold on a concrete work item with two segments
    (x = 10^6, y = 100, z = 10^4, c = 4, `int64_t`), and the checks do report -/
example : ∃ v, s2HardThreadC (2 ^ 63 - 1) (2 ^ 63 - 1) (refSieve (idealEnv 100 65535 100).primes) (idealEnv 100 65535 100)
    1000000 100 10000 4 240 2 240 = .ok v :=
  ⟨_, S2_hard_thread_no_overflow (j := 6) (k := 14)
    (fun K hK => ⟨refSieve_spec _ K (fun i h1 h2 => (idealEnv_ok 100 65535 100).primes_eq i h1 (le_trans h2 hK)), trivial⟩)
    (idealEnv_ok 100 65535 100)
    (by have : Nat.sqrt 100 = 10 := by norm_num [Nat.sqrt]
        rw [this]; norm_num)
    (idealEnv_factor_ok 100 65535 100 (by norm_num) (by norm_num [Nat.sqrt]))
    (by norm_num) (by norm_num) (by norm_num) (by norm_num) (by norm_num) (by norm_num) (by norm_num) (by norm_num)
    (by norm_num) (by norm_num) (by norm_num) (by norm_num)⟩
example : LB.Chain 0 960 [(0, 480), (480, 960)] := by simp [LB.Chain]
example : [(480, 960), (0, 480)].Perm ([(0, 480), (480, 960)] : List LB.Chunk) := List.Perm.swap _ _ _
example : lbSumC 10 [7, -9, 5] 0 = .ok 3 := by decide
example : lbSumC 10 [7, 5] 0 = .error .ovfAcc := by decide
example : retS 10 (-12) = .error .ovfRet := by decide
example : (match leafFoldC 5 (refSieve fun _ => 0) 0 10 0 [(7, 1)] ⟨0, Array.replicate 10 true⟩ 0 with
    | .error .ovfCount => true | _ => false) = true := by decide

/-! ## S1 / Phi0 -/

/-- **`S1_OpenMP`, width-checked, EVERY schedule**: `1 ≤ y` within the table, `c ≤ 8`, the operand type holds `y²`;
    if `y < 2^k` and `x·k ≤ sMax` (`sMax` = maximum of the signed `T`): every `MU * phi_tiny(…)`, every `s1 += …` of every level of
    the recursion `S1_thread`, every thread-private copy and every reduction step is value-preserving; the result is `S1 x y c`. -/
theorem S1_no_overflow {t : NT} (hv : t.Valid) {w : ITy} {sMax x y c k : ℕ} (hy1 : 1 ≤ y) (hy : y ≤ t.bound) (hc : c ≤ 8)
    (hw : y * y ≤ w.maxVal) (hk : y < 2 ^ k) (hxk : x * k ≤ sMax)
    {sched : List (List ℕ)} (hs : IsSchedule (c + 1) (π y) sched) :
    leafOpenMPC sMax t w x y y c sched = .ok (Spec.S1 x y c) :=
  leafOpenMPC_eq hv hy1 hy hc le_rfl hw (le_trans (Spec.absG_le x y c (π y) c k hk) hxk) hs

/-- **`Phi0_OpenMP`, width-checked, EVERY schedule** (`1 ≤ y ≤ z`, `k₀ ≤ 8`, the operand type holds `z·y`; `z < 2^k`, `x·k ≤ sMax`) -/
theorem Phi0_no_overflow {t : NT} (hv : t.Valid) {w : ITy} {sMax x y z k0 k : ℕ} (hy1 : 1 ≤ y) (hy : y ≤ t.bound) (hk0 : k0 ≤ 8)
    (hyz : y ≤ z) (hw : z * y ≤ w.maxVal) (hk : z < 2 ^ k) (hxk : x * k ≤ sMax)
    {sched : List (List ℕ)} (hs : IsSchedule (k0 + 1) (π y) sched) :
    leafOpenMPC sMax t w x y z k0 sched = .ok (Spec.Phi0 x y z k0) :=
  leafOpenMPC_eq hv hy1 hy hk0 hyz hw (le_trans (Spec.absG_le x z k0 (π y) k0 k hk) hxk) hs

/-- **the 128-bit entry points — FULL for every `x ≤ 2^120` (primecount's limit is `10^31 < 2^104`)**: `z < 2^63` (an `int64_t`),
    `T = int128_t` -/
theorem S1_Phi0_128_no_overflow {t : NT} (hv : t.Valid) {w : ITy} {x y z c : ℕ} (hy1 : 1 ≤ y) (hy : y ≤ t.bound) (hc : c ≤ 8)
    (hyz : y ≤ z) (hw : z * y ≤ w.maxVal) (hz : z < 2 ^ 63) (hx : x ≤ 2 ^ 120)
    {sched : List (List ℕ)} (hs : IsSchedule (c + 1) (π y) sched) :
    leafOpenMPC (2 ^ 127 - 1) t w x y z c sched = .ok (Spec.ord x z c (π y)) :=
  leafOpenMPC_eq hv hy1 hy hc hyz hw (le_trans (Spec.absG_le x z c (π y) c 63 hz) (by
    have : x * 63 ≤ 2 ^ 120 * 63 := Nat.mul_le_mul_right _ hx
    norm_num at this ⊢; omega)) hs

/-- non-vacuity: `S1(100000, 60, 3)`, `int64_t`, team of 3 threads -/
example := S1_no_overflow (NT.build_valid 100) (w := .i64) (sMax := 2 ^ 63 - 1) (x := 100000) (y := 60) (c := 3) (k := 6)
  (by norm_num) (by show 60 ≤ 100; norm_num) (by norm_num) (by decide) (by norm_num) (by norm_num)
  (sched := staticSched1 4 (π 60) 3) (staticSched1_isSchedule _ _ (by norm_num))
example : accS 10 7 5 = .error .ovfAcc := by decide
example : accS 10 (-7) (-5) = .error .ovfAcc := by decide
example : mulS 10 (-1) 12 = .error .ovfProd := by decide

/-! ## A / C -/

/-- **magnitude of `C` on ALL levels (kernels `C1` and `C2`)**: every sum of `Cterm` over any set of levels `i ≥ 1`, `p_i ≤ z` —
    so every level-by-level partial sum — lies in `[−x·(k−j), x·(k−j)]` when `2^j ≤ z + 1`, `z² < 2^k` -/
theorem C_levels_bounded (x y z j k : ℕ) (S : Finset ℕ) (hS : ∀ i ∈ S, 1 ≤ i ∧ Spec.p i ≤ z) (hj : 2 ^ j ≤ z + 1)
    (hk : z * z < 2 ^ k) : |∑ i ∈ S, Spec.Cterm x y z i| ≤ ((x * (k - j) : ℕ) : ℤ) :=
  Pc.Safety.C_levels_abs_le_range x y z j k S hS hj hk

/-- **`AC_OpenMP`'s result after the conversion `uintN → intN`** (`A + C` accumulated modulo `2^N`): it is the true value
    `A + C` whenever `12x + x·(k−j) < 2^(N−1)`, `2^j ≤ z + 1`, `z² < 2^k`, `w ≤ z` (`w = x⋆`).  `N = 128`: every `x ≤ 2^119`, `z < 2^63`
    (second statement) — FULL for primecount's range `x ≤ 10^31`.  `N = 64`: partial (`x ≲ 10^17`, see notes). -/
theorem AC_return_value (bits x y z k0 w c3 j k : ℕ) (hb : 1 ≤ bits) (hw : w ≤ z) (hj : 2 ^ j ≤ z + 1) (hk : z * z < 2 ^ k)
    (hfit : 12 * x + x * (k - j) < 2 ^ (bits - 1)) :
    Pc.Safety.wrapS bits (Spec.A x y w c3 + Spec.C x y z k0 w) = Spec.A x y w c3 + Spec.C x y z k0 w := by
  obtain ⟨h1, h2⟩ := Pc.Safety.AC_value_bounds_range x y z k0 w c3 j k hw hj hk
  have h3 : ((12 * x + x * (k - j) : ℕ) : ℤ) < ((2 ^ (bits - 1) : ℕ) : ℤ) := by exact_mod_cast hfit
  push_cast at h3
  apply Pc.Safety.wrapS_eq hb <;> push_cast at h1 h2 ⊢ <;> nlinarith

theorem AC_return_value_128 (x y z k0 w c3 : ℕ) (hw : w ≤ z) (hz : z < 2 ^ 63) (hx : x ≤ 2 ^ 119) :
    Pc.Safety.wrapS 128 (Spec.A x y w c3 + Spec.C x y z k0 w) = Spec.A x y w c3 + Spec.C x y z k0 w := by
  apply AC_return_value 128 x y z k0 w c3 0 126 (by norm_num) hw (by omega)
  · have : z * z < 2 ^ 63 * 2 ^ 63 := Nat.mul_lt_mul'' hz hz
    norm_num at this ⊢; omega
  · norm_num; omega

example : Pc.Safety.wrapS 64 (2 ^ 63) = -2 ^ 63 := by decide
example : Pc.Safety.wrapS 64 (-5) = -5 := by decide

end Pc.C16Safety4

#print axioms Pc.C16Safety4.S2_hard_thread_no_overflow
#print axioms Pc.C16Safety4.D_thread_no_overflow
#print axioms Pc.C16Safety4.hard_values_bounded
#print axioms Pc.C16Safety4.D_values_bounded
#print axioms Pc.C16Safety4.S2_hard_sum_no_overflow
#print axioms Pc.C16Safety4.D_sum_no_overflow
#print axioms Pc.C16Safety4.D_prime_square_fits
#print axioms Pc.C16Safety4.S1_no_overflow
#print axioms Pc.C16Safety4.Phi0_no_overflow
#print axioms Pc.C16Safety4.S1_Phi0_128_no_overflow
#print axioms Pc.C16Safety4.C_levels_bounded
#print axioms Pc.C16Safety4.AC_return_value
#print axioms Pc.C16Safety4.AC_return_value_128
