/-
C18, closed (WP close, item 2b) — the k-th call: ONE running `primesieve::iterator` object behaves like the position-indexed
abstraction `P2L.Iter` that the P2 / B loop models use. This is the statement WP iter left open ("the k-th call", notes/wp-iter.md):
its loop lemmas `genNext_spec` / `genPrevLoop_spec` are the inductive steps; the inductions over the number of calls, the in-buffer
step `primes_[--i_]` and the refill at the buffer front are in PcProofs/CloseIter2.lean.
Only property theorems, non-vacuity examples and the axiom audit live here.
-/
import PcProofs.CloseIter3
import PcProps.C18

namespace Pc.C18Closed
open Pc.It

/-- **the P2 abstraction is sound for the stateful object** (both directions, one step): a running object ready at `n` produces a
    buffer with the same three contract fields at `n` as the fresh-object answer `(realIter …).next n`, and is ready again at
    `last + 1` with all side conditions re-established; a running object that has just returned `p` returns EXACTLY
    `(realIter …).prev (p - 1)` at its next `prev_prime()` and is again in such a state -/
theorem running_iterator_meets_IterSpec (e : Env) (he : GenSpec e) (hp hn : ℕ → ℕ) (hhn : ∀ n, hn n ≤ umax) :
    (∀ (s : St) (n : ℕ), FwdReady s n → n ≤ umax → s.hint ≤ umax → s.start ≤ umax → (∃ p, p.Prime ∧ n ≤ p ∧ p ≤ umax) →
      (∃ s', genNext e bigFuel s = .ok s' ∧ s'.buf ≠ [] ∧ s'.buf.Pairwise (· < ·) ∧ s'.i = 0 ∧
        (∀ L, s'.buf.getLast? = some L → ∀ q, q ∈ s'.buf ↔ q.Prime ∧ n ≤ q ∧ q ≤ L) ∧
        (∀ L, s'.buf.getLast? = some L → FwdReady s' (L + 1) ∧ L + 1 ≤ umax ∧ s'.hint ≤ umax ∧ s'.start ≤ umax)) ∧
      ((realIter e hp hn).next n ≠ [] ∧ ((realIter e hp hn).next n).Pairwise (· < ·) ∧
        (∀ L, ((realIter e hp hn).next n).getLast? = some L → ∀ q, q ∈ (realIter e hp hn).next n ↔ q.Prime ∧ n ≤ q ∧ q ≤ L))) ∧
    (∀ (s : St) (p : ℕ), BwdAt s p → p ≤ umax + 1 →
      ∃ s', prevPrime e s = .ok ((realIter e hp hn).prev (p - 1), s') ∧ BwdAt s' ((realIter e hp hn).prev (p - 1)) ∧
        (realIter e hp hn).prev (p - 1) ≤ umax + 1) :=
  running_meets_spec e he hp hn hhn

/-- **`prev_yields_primes_le_start`, k-th call** (replaces C18's `prev_first_partial`): the `k` values that `k` successive
    `prev_prime()` calls of ONE object `iterator(n, hint)` return are exactly the `k` answers the P2 / B loop model reads from the
    abstraction (`it.prev n`, then `it.prev (prime - 1)` …), i.e. the `k` largest primes `≤ n` in decreasing order, continued by 0s —
    for every `k`, `n ≤ 2^64-1`, hint, float outcome; the calls never fail -/
theorem prev_calls_correct (e : Env) (he : GenSpec e) (hp hn : ℕ → ℕ) (k n hint : ℕ) (hnu : n ≤ umax) :
    ∃ s', prevCalls e k (init n hint) = .ok (iterPrevs (realIter e hp hn) k n, s') ∧
      iterPrevs (realIter e hp hn) k n = iterPrevs ⟨Nat.findGreatest Nat.Prime, fun _ => []⟩ k n := by
  obtain ⟨s', h⟩ := prevCalls_init e he hp hn k n hint hnu
  exact ⟨s', h, iterPrevs_real e he hp hn k n hnu⟩

/-- **`buffer_contract`, k-th call**: `k` successive `generate_next_primes()` calls on ONE object that is ready at `n` (fresh, after
    `jump_to`, or running) either all succeed — the buffers form a `BufChain` from `n`: each non-empty, strictly increasing, exactly
    the primes from the end of the previous buffer + 1 up to its own last entry — or one of them throws `primesieve_error` after
    `j < k` such buffers exactly because no prime is left below 2^64. Never `hang`, never `oob`. -/
theorem next_calls_correct (e : Env) (he : GenSpec e) (k : ℕ) (s : St) (n : ℕ) (hr : FwdReady s n) (hn : n ≤ umax)
    (hh : s.hint ≤ umax) (hst : s.start ≤ umax) :
    (∃ bufs s', nextCalls e k s = .ok (bufs, s') ∧ bufs.length = k ∧ BufChain n bufs ∧ FwdReady s' (chainEnd n bufs) ∧
        chainEnd n bufs ≤ umax) ∨
    (nextCalls e k s = .error .ps ∧ ∃ bufs, bufs.length < k ∧ BufChain n bufs ∧
        ∀ p, p.Prime → chainEnd n bufs ≤ p → ¬ p ≤ umax) :=
  nextCalls_spec e he k s n hr hn hh hst

/-- a link of a `BufChain` is a legal answer of an abstract iterator meeting `IterSpec.next_ne / next_sorted / next_mem` at its
    position, and the rest of the chain starts at `last + 1` (the position `loop1` of the P2 model queries next) -/
theorem chain_link_is_contract {n : ℕ} {b : List ℕ} {rest : List (List ℕ)} (h : BufChain n (b :: rest)) :
    b ≠ [] ∧ b.Pairwise (· < ·) ∧ (∀ L, b.getLast? = some L → ∀ q, q ∈ b ↔ q.Prime ∧ n ≤ q ∧ q ≤ L) ∧
      BufChain (b.getLastD 0 + 1) rest := h.head_fields

/-- k-th `prev_prime()` over the REAL sieving core (only the float assumption left) -/
theorem prev_history_core (fl : Floats) (batch : ℕ → ℕ) (l1raw kib : ℕ) (hfl : CoreFloatOk l1raw kib) (hk : 16 ≤ kib)
    (hk2 : kib ≤ 8192) (k n hint : ℕ) (hnu : n ≤ umax) :
    ∃ s', prevCalls (coreEnv fl batch l1raw kib) k (init n hint) =
      .ok (iterPrevs ⟨Nat.findGreatest Nat.Prime, fun _ => []⟩ k n, s') := by
  obtain ⟨s', h1, h2⟩ := prev_calls_correct _ (coreEnv_genSpec fl batch l1raw kib hfl hk hk2) (fun _ => 0) (fun _ => 0) k n hint hnu
  exact ⟨s', by rw [← h2]; exact h1⟩

/-- k-th `generate_next_primes()` over the REAL sieving core, from a fresh iterator -/
theorem next_history_core (fl : Floats) (batch : ℕ → ℕ) (l1raw kib : ℕ) (hfl : CoreFloatOk l1raw kib) (hk : 16 ≤ kib)
    (hk2 : kib ≤ 8192) (k start hint : ℕ) (hs : start ≤ umax) (hh : hint ≤ umax) :
    (∃ bufs s', nextCalls (coreEnv fl batch l1raw kib) k (init start hint) = .ok (bufs, s') ∧ bufs.length = k ∧
        BufChain start bufs ∧ FwdReady s' (chainEnd start bufs) ∧ chainEnd start bufs ≤ umax) ∨
    (nextCalls (coreEnv fl batch l1raw kib) k (init start hint) = .error .ps ∧ ∃ bufs, bufs.length < k ∧ BufChain start bufs ∧
        ∀ p, p.Prime → chainEnd start bufs ≤ p → ¬ p ≤ umax) :=
  nextCalls_spec _ (coreEnv_genSpec fl batch l1raw kib hfl hk hk2) k (init start hint) start (fwdReady_init start hint hs) hs hh hs

/-! ### non-vacuity (tests, labelled as such) -/

local notation "fl0" => (⟨fun _ => 0, fun _ => 0, fun _ => 0, fun _ => 0⟩ : Floats)

/-- the invariant `BwdAt` is reached by the first `prev_prime()` of every fresh iterator -/
example : ∃ s', BwdAt s' (Nat.findGreatest Nat.Prime 10) := by
  obtain ⟨s', _, h⟩ := prevPrime_init_at (refEnv fl0 (fun _ => 1)) (refEnv_spec _ _) 10 0 (by decide)
  exact ⟨s', h⟩
/-- kernel evaluation of the stateful model: 5 `prev_prime()` calls from 10 (tiny windows: refills at the buffer front happen) -/
example : (match prevCalls (refEnv fl0 (fun _ => 1)) 5 (init 10 0) with | .ok r => r.1 | .error _ => []) = [7, 5, 3, 2, 0] := by
  decide +kernel
/-- … and the abstraction's answers are the same list -/
example : iterPrevs ⟨Nat.findGreatest Nat.Prime, fun _ => []⟩ 5 10 = [7, 5, 3, 2, 0] := by decide +kernel
/-- 3 `generate_next_primes()` calls from 10 with batches of 2 primes -/
example : (match nextCalls (refEnv fl0 (fun _ => 2)) 3 (init 10 40) with | .ok r => r.1 | .error _ => []) =
    [[11, 13], [17, 19], [23, 29]] := by decide +kernel
example : FwdReady (init 10 40) 10 := fwdReady_init 10 40 (by decide)

end Pc.C18Closed

#print axioms Pc.C18Closed.running_iterator_meets_IterSpec
#print axioms Pc.C18Closed.prev_calls_correct
#print axioms Pc.C18Closed.next_calls_correct
#print axioms Pc.C18Closed.chain_link_is_contract
#print axioms Pc.C18Closed.prev_history_core
#print axioms Pc.C18Closed.next_history_core
