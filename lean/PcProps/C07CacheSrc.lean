/-
C07 (WP phicache) — the PhiCache class of src/phi_vector.cpp is the same text as the one of src/phi.cpp that
PcModel/PhiCache.lean models (source-mirror-style obligation over the statement lists that
translator/extract_srcmirror.py regenerates from /repo on every run).  A change to ONE of the two copies breaks
this obligation by name; the bit-level theorems of PcProps/C07Cache.lean are stated for the common text, with the
constructor's first `max_x` assignment as the parameter `maxXEst`.
-/
import PcGen.SrcMirrorPhiData

namespace Pc.C07CacheSrc

/-- src/phi_vector.cpp's copy of the class is the SAME TEXT (current /repo, normalised statements) as the one in
    src/phi.cpp for `init_cache`, `phi_cache`, `is_cached`, `is_pix`; `phi<SIGN>` differs by a cast and `std::`,
    the constructor by `max_x = isqrt(x)` only -/
theorem phiVector_cache_same_text :
    Pc.SrcMirror.Phi.Cur.phi_vector__PhiCache_init_cache = Pc.SrcMirror.Phi.Cur.phi__PhiCache_init_cache ∧
    Pc.SrcMirror.Phi.Cur.phi_vector__PhiCache_phi_cache = Pc.SrcMirror.Phi.Cur.phi__PhiCache_phi_cache ∧
    Pc.SrcMirror.Phi.Cur.phi_vector__PhiCache_is_cached = Pc.SrcMirror.Phi.Cur.phi__PhiCache_is_cached ∧
    Pc.SrcMirror.Phi.Cur.phi_vector__PhiCache_is_pix = Pc.SrcMirror.Phi.Cur.phi__PhiCache_is_pix ∧
    Pc.SrcMirror.Phi.Cur.phi_vector__PhiCache_phi =
      (Pc.SrcMirror.Phi.Cur.phi__PhiCache_phi.set 0 "if ( x <= ( int64_t ) primes_ [ a ] ) return SIGN ;").set 8
        "larger_c = std :: max ( c , larger_c ) ;" ∧
    Pc.SrcMirror.Phi.Cur.phi_vector__PhiCache_PhiCache =
      Pc.SrcMirror.Phi.Cur.phi__PhiCache_PhiCache.set 4 "uint64_t max_x = isqrt ( x ) ;" := by
  exact ⟨rfl, rfl, rfl, rfl, rfl, rfl⟩

end Pc.C07CacheSrc

#print axioms Pc.C07CacheSrc.phiVector_cache_same_text
