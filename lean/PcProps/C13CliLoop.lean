/-
C13 (WP cli2) — the option loop of `parseOptions`: the model's fuel is never exhausted, and the printed count is always
the count for a number that an argument of the command line denotes.
Only property theorems, non-vacuity examples and the axiom audit live here.

Vocabulary: PcModel/Cli.lean (`parseLoopIn tbl hw stod fuel s argv` = the `for (i = 1; i < argc; i++)` loop with fuel,
`parseLoop` = the same with fuel `argv.length`), PcProofs/CliRefine.lean (`LoopRuns` = the same loop as an inductive
relation WITHOUT fuel: parse one option, apply it, continue with the arguments after it).
-/
import PcProofs.CliRefine

namespace Pc.C13CliLoop
open Pc.Calc Pc.Cli

/-- **Fuel exhaustion is unreachable.** `parseOption` hands back a suffix of the arguments after the current one, so with
    `argv.length` fuel the fuelled loop computes exactly the result of the fuel-free loop; more fuel changes nothing. -/
theorem parse_loop_fuel_unreachable (tbl : List (String × OptId × IsParam)) (hw : ApiHw) (stod : Bytes → Option AlphaArg)
    (s : PState) (argv : List Bytes) :
    LoopRuns tbl hw stod s argv (parseLoopIn tbl hw stod argv.length s argv) ∧
    (∀ r, LoopRuns tbl hw stod s argv r → r = parseLoopIn tbl hw stod argv.length s argv) ∧
    (∀ fuel, argv.length ≤ fuel → parseLoopIn tbl hw stod fuel s argv = parseLoopIn tbl hw stod argv.length s argv) :=
  ⟨parseLoopIn_runs tbl hw stod argv.length s argv (Nat.le_refl _),
   fun _ hr => LoopRuns.unique hr (parseLoopIn_runs tbl hw stod argv.length s argv (Nat.le_refl _)),
   fun fuel h => parseLoopIn_fuel tbl hw stod fuel s argv h⟩

/-- With the real option table `parseOptions`' loop never ends in the model's catch-all error class (`.lib` = fuel
    exhausted / `std::out_of_range` of `optionMap.at`): every parse error is one of the messages the source throws. -/
theorem parse_loop_no_fuel_error (hw : ApiHw) (stod : Bytes → Option AlphaArg) (s : PState) (argv : List Bytes) :
    parseLoop hw stod s argv ≠ .err .lib :=
  parseLoop_no_fuel_error hw stod s argv

/-- `parseOption` only moves forward: the arguments left after an option are a suffix of those after the current one,
    at most one shorter. -/
theorem parse_option_consumes_at_most_one (str : Bytes) (rest rest' : List Bytes) (it : Item)
    (h : parseOption str rest = .ok (it, rest')) : rest' = rest ∨ rest = it.val :: rest' := by
  obtain ⟨_, _, h3, _⟩ := parseOptionIn_ok h
  rcases h3 with ⟨_, e⟩ | ⟨e, _, _⟩
  · exact Or.inl e
  · exact Or.inr e

/-! non-vacuity (tests) -/
example : parseLoop ⟨8, 8⟩ stodDemo {} (["-t", "3", "100", "--lmo"].map ofStr) =
    .ok { σ := setThreads ⟨8, 8⟩ ApiState.init 3, optionStr := ofStr "--lmo", option := .lmo, numbers := [100] } := by
  decide +kernel
example : parseLoopIn optTable ⟨8, 8⟩ stodDemo 1 {} (["-t", "3", "100"].map ofStr) = .err .lib := by decide +kernel
example : parseLoopIn optTable ⟨8, 8⟩ stodDemo 3 {} (["-t", "3", "100"].map ofStr) =
    parseLoopIn optTable ⟨8, 8⟩ stodDemo 7 {} (["-t", "3", "100"].map ofStr) := by decide +kernel

end Pc.C13CliLoop

#print axioms Pc.C13CliLoop.parse_loop_fuel_unreachable
#print axioms Pc.C13CliLoop.parse_loop_no_fuel_error
#print axioms Pc.C13CliLoop.parse_option_consumes_at_most_one
